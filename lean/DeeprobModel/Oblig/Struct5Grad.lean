import DeeprobModel.Model.EmBackward
import DeeprobModel.Generated.Consts
import DeeprobModel.Spec.ExpLog
import Mathlib.Data.Rat.Cast.Defs
/-
Fifth wave, (b) — static tie of `Model/EmBackward.lean` (`sendDownC`, `backwardC`: the backward pass of EM AS CODED, float32 log
domain) to /repo/deeprob/spn/algorithms/gradient.py (`eval_backward`) — C14.

The translator fragment `gradient.eval_backward.rules` (tools/fragments.py, `emit_struct5grad`) extracts from the current source, over an
ABSTRACT log-number carrier `L` with operations `add`, `sub`, `log`, `logsumexp`, `lit`:
  `Gen.S5gradRoot`   the value written to `grads[root.id]` before the loop,
  `Gen.S5gradAccum`  `logsumexp(cached_grads[node.id], axis=0)`, `Gen.S5gradNode` the same under the guard `node.id != root.id`,
  `Gen.S5gradSum`    `grads[node.id] + np.log(w)`,
  `Gen.S5gradProd`   `grads[node.id] + lls[node.id] - lls[c.id]` with the association of the source, `(g + llNode) - llChild`,
  `Gen.S5gradSends`  which messages (cache key, value) a node sends: a Sum zips `children` with `weights`, a Product maps over
                     `children`, a Leaf sends nothing, any other class raises.
Here the rules are instantiated at the carrier `LogV α` of the model (`add`, `sub`, `ofLin`, the fold of `lse`, the literal `0.0` =
`fin 1`) with a node read as its index in the table, and shown to BE the model:
  `gradSum_as_coded`, `gradProd_as_coded`, `gradLeaf_as_coded`, `sendDownC_as_coded`  — `sendDownC` applies exactly the generated messages;
  `gradAccum_as_coded`   — the running `lse` `backwardC` keeps in its table is `logsumexp` of the list the code caches;
  `gradRoot_as_coded`    — the initial table of `backwardC` holds the generated literal at the root (and that literal denotes `exp 0 = 1`);
  `backwardC_as_coded`   — the pass ASSEMBLED from the generated rules the way the code runs them (a table `grads`, a separate cache of
                           lists, the guard at the root, nodes in topological order) returns the table of `backwardC`, on every
                           children-first table whose root has no parent (what `topological_order` enforces: it returns `None`, and
                           `eval_backward` raises, when the root has an incoming arc).
-/
set_option linter.unusedSectionVars false
set_option linter.unusedSimpArgs false
set_option linter.unusedVariables false
namespace Deeprob.Oblig.Struct5G
open Deeprob Deeprob.LogV

section defs
variable {α : Type} [Zero α] [One α] [Add α] [Mul α] [Div α] [DecidableEq α]

/-- `scipy.special.logsumexp(list, axis=0)` on the carrier `LogV`: the fold of `np.logaddexp` from `-inf` -/
def lseList (l : List (LogV α)) : LogV α := l.foldl lse bot

/-- a float32 literal as a log-number: `0.0` is `log 1`; the model tracks no other literal -/
def litLogV (q : Rat) : LogV α := if q = 0 then fin 1 else top

/-- `isinstance(node, …)` for the node stored at index `i` -/
def kindAt (net : Net α) (i : Nat) : Option Kind := (net[i]?).map (·.kind)

/-- the generated dispatch `Gen.S5gradSends` read on a node table: a node is its index (`nid = id`), `children` / `weights` are read
from the table, `lls[k]` is the `k`-th entry of the floored table (an index outside it counts as a node of value `0`, as in `sendDownC`) -/
def genSends (net : Net α) (lls : List (LogV α)) (i : Nat) (g : LogV α) : Option (List (Nat × LogV α)) :=
  Gen.S5gradSends LogV.add LogV.sub LogV.ofLin
    (fun n => kindAt net n == some Kind.sum) (fun n => kindAt net n == some Kind.prod) (fun n => kindAt net n == some Kind.leaf)
    (fun n => ((net[n]?).map (·.ch)).getD []) (fun n => ((net[n]?).map (·.ws)).getD []) id
    (fun k => lls.getD k (low 0)) i g

/-- what `backwardC` does with a list of messages: the table entry of every addressee is its running `logsumexp` -/
def applyC (ms : List (Nat × LogV α)) (grads : List (LogV α)) : List (LogV α) :=
  ms.foldl (fun gr m => gr.set m.1 (lse (gr.getD m.1 bot) m.2)) grads

/-- what the code does with them: `cached_grads[key].append(value)` -/
def appendSends (ms : List (Nat × LogV α)) (cached : List (List (LogV α))) : List (List (LogV α)) :=
  ms.foldl (fun ca m => ca.set m.1 (ca.getD m.1 [] ++ [m.2])) cached

/-- one iteration of `for node in nodes:` assembled from the generated rules; the state is (`grads`, `cached_grads`) -/
def genVisit (net : Net α) (lls : List (LogV α)) (root : Nat) (st : List (LogV α) × List (List (LogV α))) (i : Nat) :
    List (LogV α) × List (List (LogV α)) :=
  let g := Gen.S5gradNode lseList i root (st.1.getD i bot) (st.2.getD i [])
  match genSends net lls i g with
  | some ms => (st.1.set i g, appendSends ms st.2)
  | none => (st.1.set i g, st.2)

/-- `eval_backward(root, lls)` assembled from the GENERATED rules, one row: `grads` (entries not yet written shown as `-inf`) with
the generated literal at the root, an empty cache, then the nodes in topological order (the table is children-first: decreasing
index); `grads` is returned -/
def genBackward (net : Net α) (lls : List (LogV α)) (root : Nat) : List (LogV α) :=
  ((List.range net.length).reverse.foldl (genVisit net lls root)
    ((List.replicate net.length bot).set root (Gen.S5gradRoot litLogV), List.replicate net.length [])).1

/-- the root has no incoming arc (`topological_order` returns `None` otherwise and `eval_backward` raises) -/
def NoParent (net : Net α) (root : Nat) : Prop := ∀ (i : Nat) (x : NNode α), net[i]? = some x → root ∉ x.ch

/-- children-first table (`WellOrdered` of `Lemmas/NetLemmas.lean`, without its carrier assumptions) -/
def ChildrenFirst (net : Net α) : Prop := ∀ (i : Nat) (x : NNode α), net[i]? = some x → ∀ c ∈ x.ch, c < i

end defs

section rules
variable {α : Type} [Zero α] [One α] [Add α] [Mul α] [Div α] [DecidableEq α]

/-- **gradSum_as_coded** — the generated Sum rule is the expression `sendDownC` sends along a sum edge, the generated dispatch zips
the node's children with its weights, and `sendDownC` applies exactly these messages -/
theorem gradSum_as_coded (net : Net α) (lls : List (LogV α)) (i : Nat) (x : NNode α) (g : LogV α) (grads : List (LogV α))
    (hn : net[i]? = some x) (hk : x.kind = Kind.sum) :
    (∀ w : α, Gen.S5gradSum LogV.add (ofLin w) g = add g (ofLin w)) ∧
    genSends net lls i g = some ((x.ch.zip x.ws).map (fun cw => (cw.1, Gen.S5gradSum LogV.add (ofLin cw.2) g))) ∧
    sendDownC lls x i g grads = applyC ((x.ch.zip x.ws).map (fun cw => (cw.1, Gen.S5gradSum LogV.add (ofLin cw.2) g))) grads := by
  refine ⟨fun _ => rfl, ?_, ?_⟩
  · simp [genSends, Gen.S5gradSends, kindAt, hn, hk]
  · unfold sendDownC applyC
    rw [hk, List.foldl_map]
    rfl

/-- **gradProd_as_coded** — the generated Product rule, `(g + lls[node]) - lls[c]` in this association, is the expression
`sendDownC` sends along a product edge; the dispatch maps over the node's children in order -/
theorem gradProd_as_coded (net : Net α) (lls : List (LogV α)) (i : Nat) (x : NNode α) (g : LogV α) (grads : List (LogV α))
    (hn : net[i]? = some x) (hk : x.kind = Kind.prod) :
    (∀ a b : LogV α, Gen.S5gradProd LogV.add LogV.sub g a b = sub (add g a) b) ∧
    genSends net lls i g = some (x.ch.map (fun c =>
      (c, Gen.S5gradProd LogV.add LogV.sub g (lls.getD i (low 0)) (lls.getD c (low 0))))) ∧
    sendDownC lls x i g grads = applyC (x.ch.map (fun c =>
      (c, Gen.S5gradProd LogV.add LogV.sub g (lls.getD i (low 0)) (lls.getD c (low 0))))) grads := by
  refine ⟨fun _ _ => rfl, ?_, ?_⟩
  · simp [genSends, Gen.S5gradSends, kindAt, hn, hk]
  · unfold sendDownC applyC
    rw [hk, List.foldl_map]
    rfl

/-- leaves send nothing -/
theorem gradLeaf_as_coded (net : Net α) (lls : List (LogV α)) (i : Nat) (x : NNode α) (g : LogV α) (grads : List (LogV α))
    (hn : net[i]? = some x) (hk : x.kind = Kind.leaf) :
    genSends net lls i g = some [] ∧ sendDownC lls x i g grads = applyC [] grads := by
  refine ⟨?_, ?_⟩
  · simp [genSends, Gen.S5gradSends, kindAt, hn, hk]
  · unfold sendDownC applyC
    rw [hk]
    rfl

/-- **sendDownC_as_coded** — for every node of the table the generated dispatch answers (the branch that raises is never
taken), `sendDownC` applies exactly its messages, and every message is addressed to a child of the node -/
theorem sendDownC_as_coded (net : Net α) (lls : List (LogV α)) (i : Nat) (x : NNode α) (g : LogV α) (grads : List (LogV α))
    (hn : net[i]? = some x) :
    ∃ ms, genSends net lls i g = some ms ∧ sendDownC lls x i g grads = applyC ms grads ∧ ∀ m ∈ ms, m.1 ∈ x.ch := by
  cases hk : x.kind with
  | sum =>
    obtain ⟨_, h1, h2⟩ := gradSum_as_coded net lls i x g grads hn hk
    refine ⟨_, h1, h2, ?_⟩
    intro m hm
    obtain ⟨cw, hcw, rfl⟩ := List.mem_map.1 hm
    exact (List.of_mem_zip hcw).1
  | prod =>
    obtain ⟨_, h1, h2⟩ := gradProd_as_coded net lls i x g grads hn hk
    refine ⟨_, h1, h2, ?_⟩
    intro m hm
    obtain ⟨c, hc, rfl⟩ := List.mem_map.1 hm
    exact hc
  | leaf =>
    obtain ⟨h1, h2⟩ := gradLeaf_as_coded net lls i x g grads hn hk
    exact ⟨_, h1, h2, fun m hm => by cases hm⟩

/-- **gradAccum_as_coded** — the generated accumulation, `logsumexp` of the cached list, is what the running `lse` of `backwardC`
computes: nothing cached is `-inf` (the entry `backwardC` starts from), and appending a contribution is one more `lse` -/
theorem gradAccum_as_coded (cached : List (LogV α)) (m : LogV α) :
    Gen.S5gradAccum lseList ([] : List (LogV α)) = bot ∧
    Gen.S5gradAccum lseList (cached ++ [m]) = lse (Gen.S5gradAccum lseList cached) m := by
  refine ⟨rfl, ?_⟩
  simp [Gen.S5gradAccum, lseList, List.foldl_append]

/-- … and the guard: the root keeps its entry, every other node takes the accumulation -/
theorem gradNode_as_coded (i root : Nat) (cur : LogV α) (cached : List (LogV α)) :
    Gen.S5gradNode lseList i root cur cached = if i = root then cur else lseList cached := by
  by_cases h : i = root <;> simp [Gen.S5gradNode, Gen.S5gradAccum, h]

/-- **gradRoot_as_coded** — the table `backwardC` starts from holds the generated literal at the root -/
theorem gradRoot_as_coded (n root : Nat) :
    (Gen.S5gradRoot litLogV : LogV α) = fin 1 ∧
    (List.replicate n (bot : LogV α)).set root (Gen.S5gradRoot litLogV) = (List.replicate n bot).set root (fin 1) := by
  have h : (Gen.S5gradRoot litLogV : LogV α) = fin 1 := by simp [Gen.S5gradRoot, litLogV]
  exact ⟨h, by rw [h]⟩

end rules

section denote
variable {F : Type} [Field F] [LinearOrder F] [DecidableEq F]

/-- the literal `fin 1` is the right reading of the generated constant: in every field with `exp`, the entry `backwardC` starts
from has the exponential `exp (literal)` -/
theorem gradRoot_denotes (E : ExpLog F) :
    expL (Gen.S5gradRoot litLogV : LogV F) = some (E.exp (Gen.S5gradRoot (fun q : Rat => (q : F)))) := by
  simp [Gen.S5gradRoot, litLogV, expL, E.exp_zero]

end denote

section simulation
variable {α : Type} [Zero α] [One α] [Add α] [Mul α] [Div α] [DecidableEq α]

theorem getD_set (β : Type) (l : List β) (c : Nat) (x d : β) (j : Nat) :
    (l.set c x).getD j d = if j = c ∧ c < l.length then x else l.getD j d := by
  simp only [List.getD_eq_getElem?_getD, List.getElem?_set]
  by_cases h1 : c = j
  · subst h1
    by_cases h2 : c < l.length
    · simp [h2]
    · simp [h2, List.getElem?_eq_none (Nat.le_of_not_lt h2)]
  · have : ¬ j = c := fun h => h1 h.symm
    simp [h1, this]

theorem applyC_length : ∀ (ms : List (Nat × LogV α)) (T : List (LogV α)), (applyC ms T).length = T.length := by
  intro ms
  induction ms with
  | nil => intro T; rfl
  | cons m ms ih =>
    intro T
    show (applyC ms (T.set m.1 _)).length = _
    rw [ih, List.length_set]

theorem appendSends_length : ∀ (ms : List (Nat × LogV α)) (Ca : List (List (LogV α))), (appendSends ms Ca).length = Ca.length := by
  intro ms
  induction ms with
  | nil => intro Ca; rfl
  | cons m ms ih =>
    intro Ca
    show (appendSends ms (Ca.set m.1 _)).length = _
    rw [ih, List.length_set]

/-- an entry nobody writes to is unchanged -/
theorem applyC_getD_other (j : Nat) : ∀ (ms : List (Nat × LogV α)) (T : List (LogV α)), (∀ m ∈ ms, m.1 ≠ j) →
    (applyC ms T).getD j bot = T.getD j bot := by
  intro ms
  induction ms with
  | nil => intro T _; rfl
  | cons m ms ih =>
    intro T h
    show (applyC ms (T.set m.1 _)).getD j bot = _
    rw [ih _ (fun m' hm' => h m' (List.mem_cons_of_mem _ hm')), getD_set]
    have : ¬ (j = m.1 ∧ m.1 < T.length) := fun hh => h m (List.mem_cons_self) hh.1.symm
    rw [if_neg this]

/-- at every cache key, `logsumexp` of the cached list and the running `lse` stay equal under the same messages -/
theorem sends_cache_rel (j : Nat) : ∀ (ms : List (Nat × LogV α)) (Ca : List (List (LogV α))) (T : List (LogV α)),
    Ca.length = T.length → lseList (Ca.getD j []) = T.getD j bot →
    lseList ((appendSends ms Ca).getD j []) = (applyC ms T).getD j bot := by
  intro ms
  induction ms with
  | nil => intro Ca T _ h; exact h
  | cons m ms ih =>
    intro Ca T hlen h
    show lseList ((appendSends ms (Ca.set m.1 _)).getD j []) = (applyC ms (T.set m.1 _)).getD j bot
    apply ih
    · rw [List.length_set, List.length_set, hlen]
    · rw [getD_set, getD_set, hlen]
      split
      · next hc =>
        obtain ⟨rfl, _⟩ := hc
        rw [← h]
        simp [lseList, List.foldl_append]
      · exact h

/-- the invariant of the simulation after the nodes of index `≥ k` were visited -/
def Inv (n root k : Nat) (st : List (LogV α) × List (List (LogV α))) (T : List (LogV α)) : Prop :=
  st.1.length = n ∧ st.2.length = n ∧ T.length = n ∧
  (∀ j, k ≤ j → st.1.getD j bot = T.getD j bot) ∧
  (∀ j, j < k → j ≠ root → lseList (st.2.getD j []) = T.getD j bot) ∧
  (root < k → st.1.getD root bot = fin 1 ∧ T.getD root bot = fin 1)

/-- the step of `backwardC` -/
def cStep (net : Net α) (lls : List (LogV α)) (grads : List (LogV α)) (i : Nat) : List (LogV α) :=
  match net[i]? with
  | some x => sendDownC lls x i (grads.getD i bot) grads
  | none => grads

theorem inv_step (net : Net α) (lls : List (LogV α)) (root : Nat) (hw : ChildrenFirst net) (hnp : NoParent net root)
    (k : Nat) (hk : k < net.length) (st : List (LogV α) × List (List (LogV α))) (T : List (LogV α))
    (h : Inv net.length root (k + 1) st T) :
    Inv net.length root k (genVisit net lls root st k) (cStep net lls T k) := by
  obtain ⟨hG, hCa, hT, h1, h2, h3⟩ := h
  have hn : net[k]? = some net[k] := by simp [hk]
  have hg : Gen.S5gradNode lseList k root (st.1.getD k bot) (st.2.getD k []) = T.getD k bot := by
    rw [gradNode_as_coded]
    split
    · next hr =>
      have := h3 (by omega)
      rw [hr, this.1, this.2]
    · next hr => exact h2 k (by omega) hr
  obtain ⟨ms, hgs, hsd, htg⟩ := sendDownC_as_coded net lls k net[k] (T.getD k bot) T hn
  have hlt : ∀ m ∈ ms, m.1 < k := fun m hm => hw k _ hn _ (htg m hm)
  have hnr : ∀ m ∈ ms, m.1 ≠ root := fun m hm hh => hnp k _ hn (hh ▸ htg m hm)
  have hvis : genVisit net lls root st k = (st.1.set k (T.getD k bot), appendSends ms st.2) := by
    unfold genVisit
    simp only [hg, hgs]
  have hcs : cStep net lls T k = applyC ms T := by
    unfold cStep
    rw [hn]
    exact hsd
  rw [hvis, hcs]
  refine ⟨by simp [hG], by rw [appendSends_length]; exact hCa, by rw [applyC_length]; exact hT, ?_, ?_, ?_⟩
  · intro j hj
    rw [applyC_getD_other j ms T (fun m hm hh => by have := hlt m hm; omega)]
    show (st.1.set k (T.getD k bot)).getD j bot = _
    rw [getD_set]
    split
    · next hc => rw [hc.1]
    · next hc =>
      have : j ≠ k := fun hh => hc ⟨hh, by rw [hG]; exact hk⟩
      exact h1 j (by omega)
  · intro j hj hjr
    exact sends_cache_rel j ms st.2 T (by rw [hCa, hT]) (h2 j (by omega) hjr)
  · intro hr
    obtain ⟨a, b⟩ := h3 (by omega)
    refine ⟨?_, ?_⟩
    · show (st.1.set k (T.getD k bot)).getD root bot = _
      rw [getD_set, if_neg (fun hc => by omega)]
      exact a
    · rw [applyC_getD_other root ms T hnr]
      exact b

theorem inv_run (net : Net α) (lls : List (LogV α)) (root : Nat) (hw : ChildrenFirst net) (hnp : NoParent net root) :
    ∀ (k : Nat), k ≤ net.length → ∀ (st : List (LogV α) × List (List (LogV α))) (T : List (LogV α)),
      Inv net.length root k st T →
      Inv net.length root 0 ((List.range k).reverse.foldl (genVisit net lls root) st)
        ((List.range k).reverse.foldl (cStep net lls) T) := by
  intro k
  induction k with
  | zero => intro _ st T h; exact h
  | succ k ih =>
    intro hk st T h
    rw [List.range_succ, List.reverse_append, List.reverse_singleton, List.singleton_append, List.foldl_cons, List.foldl_cons]
    exact ih (by omega) _ _ (inv_step net lls root hw hnp k (by omega) st T h)

theorem replicate_getD (β : Type) (n j : Nat) (d : β) : (List.replicate n d).getD j d = d := by
  simp only [List.getD_eq_getElem?_getD, List.getElem?_replicate]
  split <;> rfl

/-- **backwardC_as_coded** — `eval_backward` assembled from the GENERATED rules (separate `grads` table and cache of lists, `logsumexp`
of the cached list when a non-root node is visited, the root keeping the generated literal, the generated messages) returns, on
every children-first table whose root has no parent and for every table `lls`, exactly the table of the model `backwardC`. All
theorems of `Props/C14Backward.lean` about `backwardC` / `codedGrads` are therefore theorems about the extracted rules. -/
theorem backwardC_as_coded (net : Net α) (lls : List (LogV α)) (root : Nat) (hw : ChildrenFirst net) (hnp : NoParent net root) :
    genBackward net lls root = backwardC net lls root := by
  have h0 : Inv net.length root net.length
      ((List.replicate net.length (bot : LogV α)).set root (Gen.S5gradRoot litLogV), List.replicate net.length [])
      ((List.replicate net.length bot).set root (fin 1)) := by
    rw [(gradRoot_as_coded net.length root).2]
    refine ⟨by simp, by simp, by simp, fun j _ => rfl, ?_, ?_⟩
    · intro j hj hjr
      show lseList ((List.replicate net.length ([] : List (LogV α))).getD j []) = _
      rw [replicate_getD, getD_set, if_neg (fun hc => hjr hc.1), replicate_getD]
      rfl
    · intro hr
      have : ((List.replicate net.length (bot : LogV α)).set root (fin 1)).getD root bot = fin 1 := by
        rw [getD_set, if_pos ⟨rfl, by simp [hr]⟩]
      exact ⟨this, this⟩
  obtain ⟨hG, _, hT, h1, _, _⟩ := inv_run net lls root hw hnp net.length (Nat.le_refl _) _ _ h0
  have hC : backwardC net lls root
      = (List.range net.length).reverse.foldl (cStep net lls) ((List.replicate net.length bot).set root (fin 1)) := rfl
  unfold genBackward
  rw [hC]
  apply List.ext_getElem (by rw [hG, hT])
  intro j hj1 hj2
  have := h1 j (Nat.zero_le _)
  rw [List.getD_eq_getElem?_getD, List.getD_eq_getElem?_getD, List.getElem?_eq_getElem hj1, List.getElem?_eq_getElem hj2] at this
  exact this

/-- in a children-first table the last node has no parent (the root of an exported circuit is the last entry) -/
theorem noParent_last (net : Net α) (hw : ChildrenFirst net) : NoParent net (net.length - 1) := by
  intro i x hn hc
  have h1 := hw i x hn _ hc
  have h2 : i < net.length := (List.getElem?_eq_some_iff.1 hn).1
  omega

end simulation

/-! ### non-vacuity on a small table (the examples on `exZ` / `exW` of `Props/C14Backward.lean` are in `Props/E2EGrad.lean`) -/

section examples

/-- leaf 0 (value `0` on the row), leaf 1, product 2 over both, leaf 3, sum 4 with the weights `[1/4, 3/4]` over the product and leaf 3 -/
def exG : Net ℚ :=
  [⟨0, .leaf, [0], [], [], .cat 0 [1, 0]⟩,
   ⟨1, .leaf, [1], [], [], .cat 1 [1/3, 2/3]⟩,
   ⟨2, .prod, [0, 1], [0, 1], [], .absent⟩,
   ⟨3, .leaf, [0, 1], [], [], .absent⟩,
   ⟨4, .sum, [0, 1], [2, 3], [1/4, 3/4], .absent⟩]

/-- `lls` of a row on which leaf 0 (hence product 2) has value `0`: floored entries at 0 and 2 -/
def exGlls : List (LogV ℚ) := [low 0, fin (1/3), low 0, fin (1/2), fin (3/8)]

/-- the Sum rule: the root sends `0.0 + log w` to each child, children zipped with the weights in order -/
example : genSends exG exGlls 4 (fin 1) = some [(2, fin (1/4)), (3, fin (3/4))] ∧
    sendDownC exGlls exG[4] 4 (fin 1) [bot, bot, bot, bot, fin 1] = [bot, bot, fin (1/4), fin (3/4), fin 1] := by
  obtain ⟨_, h1, h2⟩ := gradSum_as_coded exG exGlls 4 exG[4] (fin 1) [bot, bot, bot, bot, fin 1] rfl rfl
  rw [h1, h2]
  decide +kernel

/-- the Product rule with the association of the source: for the zero-valued child 0, `(log(1/4) + F) - F = 0.0` (the finite part
is absorbed); the re-associated `log(1/4) + (F - F)` would be `log(1/4)` — the two differ, the generated text keeps the first -/
example : genSends exG exGlls 2 (fin (1/4)) = some [(0, fin 1), (1, low 0)] ∧
    Gen.S5gradProd LogV.add LogV.sub (fin ((1:ℚ)/4)) (low 0) (low 0) = fin 1 ∧
    LogV.add (fin ((1:ℚ)/4)) (LogV.sub (low 0) (low 0)) = fin (1/4) := by
  obtain ⟨_, h1, _⟩ := gradProd_as_coded exG exGlls 2 exG[2] (fin (1/4)) [] rfl rfl
  rw [h1]
  decide +kernel

example : genSends exG exGlls 1 (low 0) = some [] := (gradLeaf_as_coded exG exGlls 1 exG[1] (low 0) [] rfl rfl).1

/-- accumulation: two cached contributions of a shared node -/
example : Gen.S5gradAccum lseList ([fin ((1:ℚ)/4)] ++ [fin (1/8)]) = lse (Gen.S5gradAccum lseList [fin ((1:ℚ)/4)]) (fin (1/8)) :=
  (gradAccum_as_coded [fin ((1:ℚ)/4)] (fin (1/8))).2

example : Gen.S5gradAccum lseList [fin ((1:ℚ)/4), low 2, fin (1/8), bot] = fin (3/8) := by decide +kernel

example : (List.replicate 5 (bot : LogV ℚ)).set 4 (Gen.S5gradRoot litLogV) = [bot, bot, bot, bot, fin 1] := by
  rw [(gradRoot_as_coded 5 4).2]; rfl

theorem exG_childrenFirst : ChildrenFirst exG := by
  intro i x hx c hc
  have hi : i < 5 := (List.getElem?_eq_some_iff.1 hx).1
  have h : ∀ k, k < 5 → ∀ c ∈ (exG[k]?.map (·.ch)).getD [], c < k := by decide +kernel
  have := h i hi c
  rw [hx] at this
  exact this hc

/-- the assembled pass on `exG`: equal to the model's, and computed (entry 0 is the wrong `0.0`) -/
example : genBackward exG exGlls 4 = backwardC exG exGlls 4 :=
  backwardC_as_coded exG exGlls 4 exG_childrenFirst (noParent_last exG exG_childrenFirst)

example : genBackward exG exGlls 4 = [fin 1, low 0, fin (1/4), fin (3/4), fin 1] := by decide +kernel

end examples

end Deeprob.Oblig.Struct5G
