import DeeprobModel.Generated.Consts
import DeeprobModel.Model.Sched
import DeeprobModel.Props.C08
/-
Static tie of `Model/Sched.lean` to /repo/deeprob/spn/algorithms/evaluation.py (C08).  The translator lists every
store into a subscripted array made by the two task functions (`eval_backward` of `eval_top_down`, `eval_forward` of
`eval_bottom_up`) with its operator, the lock held, the enclosing loop and the rows read on the right-hand side.
The obligations say that these are exactly the accesses of the model's actions:
* top-down: a Product / Sum task performs `masks[c.id] |= masks[n.id] (& sel)` for `c in n.children`, as an OR-update
  under the one shared `threading.Lock` (`Act.orFrom` with `locked := true`), a Leaf task only stores into `x`;
* bottom-up: a task stores only into its own row `ls[n.id]` and reads the rows `ls[c.id]` of its children
  (`Act.evalRow i (chOf n i) f`, `buTask`).
-/
namespace Deeprob.Oblig.StructSched
open Deeprob Deeprob.Sched

/-- the access recorded for a store site (row numbers abstracted to the given cell) -/
def siteWrite (cell : Nat × Nat) (s : Gen.StoreSite) : Access :=
  { kind := if s.op = "|=" then .or else .write, array := s.array, cells := [cell],
    locked := s.locks.contains "masks_lock" }

/-- the stores of `eval_backward`, per node class -/
theorem topdown_stores_shape :
    Gen.topDownStores.map (fun s => (s.cls, s.array, s.op)) =
      [("Leaf", "x", "="), ("Product", "masks", "|="), ("Sum", "masks", "|=")] := by decide

/-- **both mask updates are `|=` updates of a CHILD row, reading the task's OWN row, inside `with masks_lock:`**, and the
write access they perform is the write access of the model action `orFrom dst src sel` of a locked task -/
theorem topdown_mask_updates_locked_or (dst src : Nat) (sel : Option Mask) :
    ∀ s ∈ Gen.topDownStores, s.array = "masks" →
      s.op = "|=" ∧ s.locks = ["masks_lock"] ∧ s.index = "c.id" ∧ s.reads = [("masks", "n.id")] ∧
      (s.loop = "c in n.children" ∨ s.loop = "(i, c) in enumerate(n.children)") ∧
      [siteWrite (dst, 0) s] = (Act.accesses true (.orFrom dst src sel)).filter Access.isWrite := by
  intro s hs
  have : s ∈ Gen.topDownStores → s.array = "masks" →
      s.op = "|=" ∧ s.locks = ["masks_lock"] ∧ s.index = "c.id" ∧ s.reads = [("masks", "n.id")] ∧
      (s.loop = "c in n.children" ∨ s.loop = "(i, c) in enumerate(n.children)") ∧
      siteWrite (0, 0) s = { kind := .or, array := "masks", cells := [(0, 0)], locked := true } := by
    revert s; decide
  intro ha
  obtain ⟨h1, h2, h3, h4, h5, h6⟩ := this hs ha
  refine ⟨h1, h2, h3, h4, h5, ?_⟩
  have e1 : (AKind.read != AKind.read) = false := by decide
  have e2 : (AKind.or != AKind.read) = true := by decide
  simp [siteWrite, Act.accesses, List.filter, Access.isWrite, h1, ha, h2, e1, e2]

/-- the product update has no selector, the sum update is `&`-ed with `branch == i` (`sel = none` / `some _`) -/
theorem topdown_selectors :
    (Gen.topDownStores.filter (fun s => s.array == "masks")).map (fun s => (s.cls, s.sel)) =
      [("Product", ""), ("Sum", "branch == i")] := by decide

/-- the leaf task stores into `x` only (no lock needed: `C06.topdown_one_leaf_per_var`), which is what `Act.setCell` records -/
theorem topdown_leaf_store (r c : Nat) (v : Int) :
    ∀ s ∈ Gen.topDownStores, s.cls = "Leaf" →
      [siteWrite (r, c) s] = Act.accesses false (.setCell r c v) := by
  intro s hs hc
  have : s ∈ Gen.topDownStores → s.cls = "Leaf" → s.op = "=" ∧ s.array = "x" ∧ s.locks = [] := by revert s; decide
  obtain ⟨h1, h2, h3⟩ := this hs hc
  simp [siteWrite, Act.accesses, h1, h2, h3]

/-- one lock per call of `eval_top_down`, shared by all tasks -/
theorem topdown_lock_shared : Gen.topDownLockKind = "threading.Lock" ∧ Gen.topDownLockShared = true := by decide

/-- **the bottom-up task writes only `ls[n.id]`** (its own row) and reads only rows `ls[c.id]`, `c in n.children`:
the write / read accesses of `buTask n f i = evalRow i (chOf n i) (f i)` -/
theorem bottomup_writes_own_row {α : Type} (n : Net α) (f : Nat → List (List Int) → List Int) (i : Nat) :
    (∀ s ∈ Gen.bottomUpStores, s.array = "ls" ∧ s.index = "n.id" ∧ s.op = "=" ∧
      [siteWrite (i, 0) s] = (Act.accesses false (buTask n f i)).filter Access.isWrite) ∧
    Gen.bottomUpStores ≠ [] ∧
    Gen.bottomUpReads = [("ls", "c.id")] ∧ Gen.bottomUpReadLoops = ["c in n.children"] ∧
    ((Act.accesses false (buTask n f i)).filter (fun a => !a.isWrite)).map (·.cells) =
      [(Net.chOf n i).map (fun c => (c, 0))] := by
  refine ⟨?_, by decide, by decide, by decide, ?_⟩
  · intro s hs
    have : s ∈ Gen.bottomUpStores → s.array = "ls" ∧ s.index = "n.id" ∧ s.op = "=" ∧ s.locks = [] := by
      revert s; decide
    obtain ⟨h1, h2, h3, h4⟩ := this hs
    refine ⟨h1, h2, h3, ?_⟩
    have e1 : (AKind.read != AKind.read) = false := by decide
    have e2 : (AKind.write != AKind.read) = true := by decide
    simp [siteWrite, buTask, Act.accesses, Access.isWrite, List.filter, h1, h3, h4, e1, e2]
  · have e1 : (AKind.read != AKind.read) = false := by decide
    have e2 : (AKind.write != AKind.read) = true := by decide
    simp [buTask, Act.accesses, Access.isWrite, List.filter, e1, e2]

end Deeprob.Oblig.StructSched
