import DeeprobModel.Oblig.StructPy
import DeeprobModel.Model.RatSpn
import Mathlib.Tactic.Linarith
/-
Static tie of `Model/RatSpn.lean` to /repo/deeprob/utils/region.py (`random_layers`) and
/repo/deeprob/spn/layers/ratspn.py (`RegionGraphLayer.__init__`, `unpad_samples`) — C16.
-/
namespace Deeprob.Oblig.StructRatSpn
open Deeprob Deeprob.RatSpn Deeprob.Oblig.StructPy

/-- **`mid = len(r) // 2`, the FIRST half `permutation[:mid]` is `p0`** (so the second region gets the extra element):
the regions appended by `random_layers` for one parent region, and the pair appended to `partitions`, are the two
components of the model's `splitRegion`, in this order -/
theorem splitRegion_as_coded (ρ : List Nat → List Nat) (r : List Nat) :
    Gen.regionSplitRegions isort r (ρ r) = [(splitRegion ρ r).1, (splitRegion ρ r).2] ∧
    Gen.regionSplitPartition isort r (ρ r) = [(splitRegion ρ r).1, (splitRegion ρ r).2] := by
  unfold Gen.regionSplitRegions Gen.regionSplitPartition splitRegion
  have h2 : ((2 : Int)) = ((2 : Nat) : Int) := rfl
  simp only [h2, fdiv_natCast, take_natCast, drop_natCast, and_self]

/-- `nextRegions` appends `p0, p1` per parent exactly as the generated region list -/
theorem nextRegions_as_coded (ρ : List Nat → List Nat) (rs : List (List Nat)) :
    nextRegions ρ rs = rs.flatMap (fun r => Gen.regionSplitRegions isort r (ρ r)) := by
  unfold nextRegions
  congr 1; funext r; exact (splitRegion_as_coded ρ r).1.symm

/-- **`self.pad = -in_features % 2 ** depth`** (Python floor modulo) is the model's `padOf` -/
theorem padOf_as_coded (n d : Nat) : Gen.ratPad (n : Int) (d : Int) = ((padOf n d : Nat) : Int) := by
  unfold Gen.ratPad padOf
  have hm : (0 : Int) < (2 : Int) ^ d := by positivity
  rw [Int.toNat_natCast, Int.fmod_eq_emod_of_nonneg _ (le_of_lt hm)]
  have hlt : n % 2 ^ d < 2 ^ d := Nat.mod_lt _ (by positivity)
  have e : (((2 ^ d - n % 2 ^ d : Nat)) : Int) = -(n : Int) + (2 : Int) ^ d * ((n : Int) / (2 : Int) ^ d + 1) := by
    have h1 := Int.emod_add_mul_ediv (n : Int) ((2 : Int) ^ d)
    have h2 : (((2 ^ d - n % 2 ^ d : Nat)) : Int) = (2 : Int) ^ d - (n : Int) % (2 : Int) ^ d := by
      rw [Nat.cast_sub (le_of_lt hlt)]; push_cast; rfl
    rw [h2]; linarith
  have hc : (((2 ^ d : Nat)) : Int) = (2 : Int) ^ d := by push_cast; rfl
  rw [Int.natCast_emod, e, hc, Int.add_mul_emod_self_left]

/-- `self.dimension = (in_features + pad) // 2 ** depth` is the model's `dimOf` -/
theorem dimOf_as_coded (n d : Nat) : Gen.ratDim (n : Int) (d : Int) ((padOf n d : Nat) : Int) = ((dimOf n d : Nat) : Int) := by
  unfold Gen.ratDim dimOf
  have h : ((2 : Int) ^ (d : Int).toNat) = ((2 ^ d : Nat) : Int) := by rw [Int.toNat_natCast]; push_cast; rfl
  rw [h, ← Nat.cast_add, fdiv_natCast]

/-- the translator's boolean-mask selection is the model's `selectRow` -/
theorem select_eq {β : Type} (x : List β) (m : List Bool) : Gen.Py.select x m = selectRow x m := rfl

/-- **`unpad_samples` keeps the positions where `inv_pad_mask` is FALSE** (`samples[~inv_pad_mask[…]]`), only when
`pad > 0`: the model's repaired `unpad` is the generated row function applied to the gathered row -/
theorem unpad_as_coded {β : Type} (n d : Nat) (regions : List (List Nat)) (t : Nat) (x : List β) :
    unpad n d regions t x =
      Gen.ratUnpadRow ((padOf n d : Nat) : Int) (gatherRow x (invMask n d regions t)) (invPadMask n d regions t) := by
  unfold unpad Gen.ratUnpadRow
  simp only [select_eq, gt_iff_lt, Int.natCast_pos, decide_eq_true_eq]

/-- … and is NOT the pinned selection (F10) whenever the two differ: the generated selector negates the mask -/
theorem unpad_negates (samples : List Nat) (m : List Bool) :
    Gen.ratUnpadRow 1 samples m = selectRow samples (m.map (fun b => !b)) := by
  unfold Gen.ratUnpadRow; simp [select_eq]

end Deeprob.Oblig.StructRatSpn
