import DeeprobModel.Generated.Consts
import DeeprobModel.Model.Clt
import DeeprobModel.Model.CltPc
import DeeprobModel.Lemmas.CltLemmas
import DeeprobModel.Lemmas.CltMpe
import DeeprobModel.Lemmas.CltExample
import Mathlib.Tactic.Linarith
import Mathlib.Algebra.Order.Field.Rat
/-
Fourth wave, (b) — static tie of `Model/Clt.lean` / `Model/CltPc.lean` (`bfsOrder`, `joint`, `value`, `upMax`, `msgMax`,
`argmax2`, `decodeList`) to /repo/deeprob/utils/graph.py (`compute_bfs_ordering`) and
/repo/deeprob/spn/structure/cltree.py (`BinaryCLT.log_likelihood`, `BinaryCLT.mpe`) — C02, C06, C12.

The generated definitions read the NumPy code on ONE row of the batch; they are generic in the carrier, so the log-domain
code (`+` of log-values, `np.sum`) is compared with the linear-domain model by instantiating `+ ↦ *`, `0 ↦ 1`
(`exp` is a monoid isomorphism of `(F, +, 0)` onto `(F_{>0}, *, 1)`, and strictly monotone: arg-max positions are kept).
-/
set_option linter.unusedSectionVars false
set_option linter.unusedSimpArgs false
set_option linter.unusedVariables false
namespace Deeprob.Struct4
open Deeprob Deeprob.Clt

/-! ### `compute_bfs_ordering` -/

/-- **one iteration as coded**: the node taken from the left end is appended to the ordering and its children are
appended to the queue (the guard `if not node.is_leaf()` only skips an empty `extend`) -/
theorem bfsStep_as_coded {N : Type} (getId : N → Nat) (isLeaf : N → Bool) (kids : N → List N)
    (hleaf : ∀ n, isLeaf n = (kids n).isEmpty) (node : N) (queue : List N) (ordering : List Nat) :
    Gen.S4bfsStep getId isLeaf kids node queue ordering = (queue ++ kids node, ordering ++ [getId node]) := by
  unfold Gen.S4bfsStep
  cases h : kids node with
  | nil => simp [hleaf, h]
  | cons a b => simp [hleaf, h]

/-- the loop `while nodes_queue:` driven by the GENERATED step, on the tree nodes `0 … n-1` of a predecessor vector
(`TreeNode` ids = positions when no scope is given; `get_children` = `childrenOf`: `build_tree_structure` appends the
children while enumerating the vector) -/
def bfsRun (pred : List Int) : Nat → List Nat → List Nat → List Nat
  | 0, _, ord => ord
  | _, [], ord => ord
  | f + 1, q :: qs, ord =>
    let st := Gen.S4bfsStep (fun j => j) (fun j => (childrenOf pred j).isEmpty) (childrenOf pred) q qs ord
    bfsRun pred f st.1 st.2

/-- **`compute_bfs_ordering` as coded is the model's `bfsOrder`** (queue discipline: `popleft`, children appended at the
right end, ids appended to the ordering in visiting order) -/
theorem bfs_as_coded (pred : List Int) : ∀ (fuel : Nat) (queue ord : List Nat),
    bfsRun pred fuel queue ord = ord ++ bfsOrder pred fuel queue := by
  intro fuel
  induction fuel with
  | zero => intro queue ord; cases queue <;> simp [bfsRun, bfsOrder]
  | succ f ih =>
    intro queue ord
    cases queue with
    | nil => simp [bfsRun, bfsOrder]
    | cons q qs =>
      rw [bfsRun, bfsStep_as_coded _ _ _ (fun _ => rfl)]
      simp only [ih, bfsOrder, List.append_assoc, List.singleton_append]

theorem bfsPop_as_coded : Gen.S4bfsPop = "popleft()" := by decide

example : bfsRun [2, 2, -1, 0, 0] 5 [2] [] = [2, 0, 1, 3, 4] ∧ bfsOrder [2, 2, -1, 0, 0] 5 [2] = [2, 0, 1, 3, 4] := by
  decide

/-! ### `BinaryCLT.log_likelihood` -/

section loglik
variable {α : Type} [Zero α] [Add α]

/-- the vectorised complete-evidence formula `np.sum(params[vs, x[:, tree], x[:, vs]], axis=1)` on one row -/
def eviSum (params : Int → Int → Int → α) (tree : List Int) (x : List (Option Nat)) : α :=
  Gen.Py4.sum (Gen.Py4.zipWith3 params (Gen.Py.arange 0 ((x.length : Nat) : Int) 1)
    ((tree.map (fun j => Gen.Py4.getI x j none)).map (fun v => ((Gen.Py3.val v : Nat) : Int)))
    (((Gen.Py.arange 0 ((x.length : Nat) : Int) 1).map (fun j => Gen.Py4.getI x j none)).map
      (fun v => ((Gen.Py3.val v : Nat) : Int))))

/-- **the NaN mask split as coded**: a row with a missing value goes through `message_passing(…, return_lls=True,
reduce='mar')` with the mask of its observed entries; every other row through the vectorised formula — the same formula
in the masked branch (`z = x[evi_mask]`) and in the branch taken when no row of the batch has a missing value; no entry
of `np.empty` is left unwritten.  (`batchAny` = "some row of the batch has a missing value", hence true when this row has
one.) -/
theorem logLikelihood_as_coded (params : Int → Int → Int → α) (tree : List Int)
    (mp : List (Option Nat) → List Bool → Bool → String → α) (batchAny : Bool) (nRows : Nat) (x : List (Option Nat))
    (hb : x.any Option.isNone = true → batchAny = true) :
    Gen.S4cltLogLikelihood params tree mp batchAny nRows x =
      some (if x.any Option.isNone then mp x (x.map (fun o => !o.isNone)) true "mar" else eviSum params tree x) := by
  unfold Gen.S4cltLogLikelihood eviSum
  have e1 : (x.map Gen.Py3.isnan).any (fun b => b) = x.any Option.isNone := by
    simp [List.any_map, Gen.Py3.isnan, Function.comp_def]
  have e2 : (x.map Gen.Py3.isnan).map (fun b => !b) = x.map (fun o => !o.isNone) := by
    simp [List.map_map, Gen.Py3.isnan, Function.comp_def]
  simp only [e1, e2]
  cases hm : x.any Option.isNone
  · cases batchAny <;> simp
  · have := hb hm
    subst this
    simp

/-- non-vacuity: a row with a missing entry goes through the messages, a complete one through the vectorised formula
(here at `ℤ` with `params i l k = 100 i + 10 l + k`: tree `[-1, 0, 0]`, the root reads the row given by the last column) -/
example :
    Gen.S4cltLogLikelihood (fun i l k => 100 * i + 10 * l + k) [-1, 0, 0] (fun _ _ _ _ => (-7 : Int)) true 2 [some 1, none, some 0] = some (-7) ∧
    Gen.S4cltLogLikelihood (fun i l k => 100 * i + 10 * l + k) [-1, 0, 0] (fun _ _ _ _ => (-7 : Int)) true 2 [some 1, some 0, some 1]
      = some ((0 + 10 + 1) + (100 + 10 + 0) + (200 + 10 + 1)) ∧
    Gen.S4cltLogLikelihood (fun i l k => 100 * i + 10 * l + k) [-1, 0, 0] (fun _ _ _ _ => (-7 : Int)) false 1 [some 1, some 0, some 1]
      = some ((0 + 10 + 1) + (100 + 10 + 0) + (200 + 10 + 1)) := by
  refine ⟨?_, ?_, ?_⟩ <;> rw [logLikelihood_as_coded _ _ _ _ _ _ (by decide)] <;> decide

end loglik

section joint
variable {α : Type} [CommSemiring α]

theorem arange_range (n : Nat) : Gen.Py.arange 0 (n : Int) 1 = (List.range n).map (fun (i : Nat) => (i : Int)) := by
  unfold Gen.Py.arange
  have h : Int.fdiv ((n : Int) - 0 + 1 - 1) 1 = (n : Int) := by
    rw [Int.fdiv_eq_ediv_of_nonneg _ (by decide)]; simp
  simp only [show (1 : Int) > 0 by decide, if_true, h, Int.toNat_natCast]
  apply List.map_congr_left; intro i _; omega

theorem zipWith3_map {β γ δ ε ι : Type} (f : β → γ → δ → ε) (a : ι → β) (b : ι → γ) (c : ι → δ) (l : List ι) :
    Gen.Py4.zipWith3 f (l.map a) (l.map b) (l.map c) = l.map (fun i => f (a i) (b i) (c i)) := by
  induction l with
  | nil => rfl
  | cons x xs ih => simp only [List.map_cons, Gen.Py4.zipWith3, ih]

/-- a log-domain sum read in the linear domain is the model's product -/
theorem sum_mul_eq_lprod (l : List α) : @Gen.Py4.sum α ⟨1⟩ ⟨(· * ·)⟩ l = lprod l := by
  induction l with
  | nil => rfl
  | cons x xs ih => simp only [Gen.Py4.sum, lprod, ih]; rfl

theorem pred_as_map (pred : List Int) : pred = (List.range pred.length).map (fun i => pred.getD i (-1)) := by
  apply List.ext_getElem
  · simp
  · intro i h1 h2
    simp [List.getD_eq_getElem?_getD, List.getElem?_eq_getElem h1]

/-- the complete row of the assignment `xv` (variable `scope[i]` at position `i`) -/
def rowOf (scope : List Nat) (n : Nat) (xv : Nat → Nat) : List (Option Nat) :=
  (List.range n).map (fun i => some (xv (scope.getD i 0)))

theorem getI_rowOf_nat (scope : List Nat) (n : Nat) (xv : Nat → Nat) (i : Nat) (h : i < n) :
    Gen.Py4.getI (rowOf scope n xv) (i : Int) none = some (xv (scope.getD i 0)) := by
  unfold Gen.Py4.getI rowOf
  have hn : ¬ ((i : Int) < 0) := by omega
  simp [hn, List.getD_eq_getElem?_getD, h]

theorem getI_rowOf_neg (scope : List Nat) (n : Nat) (xv : Nat → Nat) (h : 0 < n) :
    Gen.Py4.getI (rowOf scope n xv) (-1 : Int) none = some (xv (scope.getD (n - 1) 0)) := by
  unfold Gen.Py4.getI rowOf
  have h1 : n - 1 < n := by omega
  simp [List.getD_eq_getElem?_getD, h1]

/-- **the vectorised complete-evidence path as coded is the model's `joint`** (linear-domain reading of the generated
formula, `params[i, l, k] ↦ cptAt cpt i l k`): variable `i` reads the row `x[tree[i]]` of its table, and the root, whose
entry of `tree` is `-1`, reads the row given by the LAST column (NumPy's negative index) — exactly the `pa` of
`Clt.joint`.  Hypothesis: the predecessor vector has entries in `-1 … n-1`. -/
theorem joint_as_coded (scope : List Nat) (pred : List Int) (cpt : List (List (List α))) (xv : Nat → Nat)
    (hpred : ∀ i < pred.length, -1 ≤ pred.getD i (-1) ∧ pred.getD i (-1) < (pred.length : Int)) :
    joint scope pred cpt xv =
      @eviSum α ⟨1⟩ ⟨(· * ·)⟩ (fun i l k => cptAt cpt i.toNat l.toNat k.toNat) pred (rowOf scope pred.length xv) := by
  have hlen : (rowOf scope pred.length xv).length = pred.length := by simp [rowOf]
  unfold eviSum
  rw [hlen, arange_range, sum_mul_eq_lprod, joint_eq_lprod]
  conv_rhs => rw [pred_as_map pred]
  simp only [List.map_map, List.length_map, List.length_range]
  rw [zipWith3_map]
  congr 1
  apply List.map_congr_left
  intro i hi
  have hi' : i < pred.length := List.mem_range.1 hi
  obtain ⟨h1, h2⟩ := hpred i hi'
  simp only [Function.comp, jointFactor, Int.toNat_natCast]
  rw [getI_rowOf_nat scope _ xv i hi']
  generalize pred.getD i (-1) = p at h1 h2 ⊢
  by_cases hneg : p < 0
  · have hm : p = -1 := by omega
    subst hm
    simp only [hneg, if_true]
    rw [getI_rowOf_neg scope _ xv (by omega)]
    simp [Gen.Py3.val]
  · obtain ⟨k, rfl⟩ := Int.eq_ofNat_of_zero_le (by omega : 0 ≤ p)
    have hlt : k < pred.length := by omega
    simp only [hneg, if_false]
    rw [getI_rowOf_nat scope _ xv k hlt]
    simp [Gen.Py3.val]

example :
    joint [0, 1, 2] [-1, 0, 0] [[[(1:ℚ)/2, 1/2], [1/2, 1/2]], [[1/4, 3/4], [2/3, 1/3]], [[1/5, 4/5], [1/2, 1/2]]] (fun v => [1, 0, 1].getD v 0)
      = 1 / 6 ∧
    @eviSum ℚ ⟨1⟩ ⟨(· * ·)⟩ (fun i l k => cptAt [[[(1:ℚ)/2, 1/2], [1/2, 1/2]], [[1/4, 3/4], [2/3, 1/3]], [[1/5, 4/5], [1/2, 1/2]]] i.toNat l.toNat k.toNat)
      [-1, 0, 0] [some 1, some 0, some 1] = 1 / 6 := by
  constructor
  · decide +kernel
  · decide +kernel

end joint

/-! ### `BinaryCLT.mpe` -/

section mpe
variable {α : Type} [Add α] [LT α] [DecidableLT α]

/-- the decision of the decoding pass for variable `j` whose parent has the value `l`:
`np.argmax(self.params[j, l] + messages[j, row], axis=1)` -/
def pickOf (params : Int → Int → Int → α) (msgs : Int → List α) (j l : Int) : Nat :=
  Gen.Py4.argmax (List.zipWith (fun a b => a + b) (Gen.Py4.vec2 (params j l)) (msgs j))

/-- one iteration of `for j in self.bfs[1:]` on one row: a missing entry (missing in the INPUT row: the mask is computed
before the loop) receives the decision for the value currently stored for its parent `tree[j]` -/
def mpeStep (params : Int → Int → Int → α) (tree : List Int) (msgs : Int → List α) (mis : List Bool)
    (x : List (Option Nat)) (j : Int) : List (Option Nat) :=
  if Gen.Py4.getI mis j false then
    Gen.Py4.setI x j.toNat
      (some (pickOf params msgs j ((Gen.Py3.val (Gen.Py4.getI x (Gen.Py4.getI tree j 0) none) : Nat) : Int)))
  else x

theorem drop_one {β : Type} (l : List β) : Gen.Py.drop l (1 : Int) = l.drop 1 := by
  unfold Gen.Py.drop; simp

/-- **`BinaryCLT.mpe` as coded, one row**: messages from `message_passing(x, ~isnan(x), return_lls=False,
reduce='mpe')`; the root reads row 0 of its table; then the variables in the order `self.bfs[1:]` -/
theorem mpe_as_coded (params : Int → Int → Int → α) (root : Int) (bfs tree : List Int)
    (mp : List (Option Nat) → List Bool → Bool → String → Int → List α) (x : List (Option Nat)) :
    Gen.S4cltMpe params root bfs tree mp x =
      (let mis := x.map Option.isNone
       let msgs := mp x (x.map (fun o => !o.isNone)) false "mpe"
       (bfs.drop 1).foldl (mpeStep params tree msgs mis)
         (if Gen.Py4.getI mis root false then Gen.Py4.setI x root.toNat (some (pickOf params msgs root 0)) else x)) := by
  unfold Gen.S4cltMpe
  have e1 : x.map Gen.Py3.isnan = x.map Option.isNone := by
    apply List.map_congr_left; intro a _; rfl
  have e2 : (x.map Option.isNone).map (fun b => !b) = x.map (fun o => !o.isNone) := by
    simp [List.map_map, Function.comp_def]
  simp only [e1, e2, drop_one]
  rfl

/-- an observed entry is never overwritten (the mask is that of the input row) -/
theorem mpeStep_observed (params : Int → Int → Int → α) (tree : List Int) (msgs : Int → List α)
    (x0 x : List (Option Nat)) (j : Nat) (h : (x0.getD j none).isSome) :
    mpeStep params tree msgs (x0.map Option.isNone) x (j : Int) = x := by
  unfold mpeStep
  have hn : ¬ ((j : Int) < 0) := by omega
  have hmis : Gen.Py4.getI (x0.map Option.isNone) (j : Int) false = false := by
    unfold Gen.Py4.getI
    simp only [hn, if_false, Int.toNat_natCast]
    rw [List.getD_eq_getElem?_getD, List.getElem?_map]
    rw [List.getD_eq_getElem?_getD] at h
    cases h2 : x0[j]? with
    | none => rw [h2] at h; simp at h
    | some w => rw [h2] at h; cases w <;> simp_all
  simp only [hmis, Bool.false_eq_true, if_false]

example : mpeStep (fun _ _ _ => (0 : Nat)) [-1, 0] (fun _ => [1, 2]) ([some 1, some 0].map Option.isNone) [some 1, some 0] ((1 : Nat) : Int)
    = [some 1, some 0] := mpeStep_observed _ _ _ [some 1, some 0] _ 1 (by decide)

end mpe

section mpeLinear
variable {α : Type} [CommSemiring α] [LinearOrder α] [IsStrictOrderedRing α]

/-- `np.argmax` over the two values of a binary variable is the model's `argmax2` (first index on ties) -/
theorem argmax_pair (a b : α) : Gen.Py4.argmax [a, b] = argmax2 a b := by
  simp [Gen.Py4.argmax, Gen.Py4.argmaxAux, argmax2]

/-- **the decision as coded is the model's** (linear-domain reading `+ ↦ *`, `params[i, l, k] ↦ cptAt cpt i l k`,
`messages[j, row, k] ↦ msgMax … k`): for a variable that is missing in the evidence, `pickOf` is the value `chosen` by
`decodeList` — the table row is selected by the PARENT's value, the message entry by the variable's OWN value, ties go to 0 -/
theorem pickOf_is_chosen (scope : List Nat) (cpt : List (List (List α))) (j : Nat) (cs : List RTree) (l : Nat) (e : Ev)
    (msgs : Int → List α) (hm : msgs (j : Int) = [msgMax scope cpt cs 0 e, msgMax scope cpt cs 1 e])
    (he : e (scope.getD j 0) = none) :
    @pickOf α ⟨(· * ·)⟩ _ _ (fun i l k => cptAt cpt i.toNat l.toNat k.toNat) msgs (j : Int) (l : Int) =
      chosen scope cpt j cs l e := by
  unfold pickOf chosen Gen.Py4.vec2
  rw [hm, he]
  simp only [List.zipWith_cons_cons, List.zipWith_nil_right, Int.toNat_natCast]
  exact argmax_pair _ _

/-- non-vacuity: variable 4 (local index 3, a leaf of the example tree of `Lemmas/CltExample.lean`, missing), parent value 1 -/
example :
    @pickOf ℚ ⟨(· * ·)⟩ _ _ (fun i l k => cptAt Ex.cpt i.toNat l.toNat k.toNat)
      (fun _ => [msgMax Ex.scope Ex.cpt [] 0 Ex.ev, msgMax Ex.scope Ex.cpt [] 1 Ex.ev]) ((3 : Nat) : Int) ((1 : Nat) : Int)
      = chosen Ex.scope Ex.cpt 3 [] 1 Ex.ev :=
  pickOf_is_chosen Ex.scope Ex.cpt 3 [] 1 Ex.ev _ rfl (by simp [Ex.ev, Ex.scope])

/-- non-vacuity of `mpe_as_coded`: a chain 0 → 1 → 2 with un-normalised integer tables and given max-product messages;
variable 1 is observed (kept), variable 2 reads the value decoded for … its parent 1 (value 0, observed) -/
example :
    let params : Int → Int → Int → ℕ := fun i l k =>
      cptAt [[[1, 2], [1, 2]], [[1, 3], [2, 1]], [[1, 4], [5, 1]]] i.toNat l.toNat k.toNat
    @Gen.S4cltMpe ℕ ⟨(· * ·)⟩ _ _ params 0 [0, 1, 2] [-1, 0, 1]
      (fun _ _ _ _ i => [[3, 1], [1, 1], [1, 1]].getD i.toNat []) [none, some 0, none] = [some 0, some 0, some 1] := by
  decide

end mpeLinear

end Deeprob.Struct4
