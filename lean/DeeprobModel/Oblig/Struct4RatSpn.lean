import DeeprobModel.Generated.Consts
import DeeprobModel.Model.RatSpn
import DeeprobModel.Model.RatSample
import DeeprobModel.Oblig.StructPy
import DeeprobModel.Oblig.StructRatSpn
import Mathlib.Algebra.Order.Ring.Defs
import Mathlib.Algebra.Order.Field.Rat
import Mathlib.Tactic.Ring
import Mathlib.Tactic.Linarith
/-
Fourth wave, (f) — static tie of `Model/RatSample.lean` (`prodDownI`, `sumMpe`, `rootMpe`, `mpeRow`, `mpeDown`, `sampleDown`,
`modes`) and `Model/RatSpn.lean` (`prodDown`, `unpad`, `completeRow`) to /repo/deeprob/spn/layers/ratspn.py
(`ProductLayer.sample / mpe`, `SumLayer.mpe / sample`, `RootLayer.mpe / sample`, `RegionGraphLayer.unpad_samples / mpe`) and
/repo/deeprob/spn/models/ratspn.py (`RatSpn.mpe`, `RatSpn.sample`) — C16.

The torch code is read on ONE row of the batch.  The model works in the linear domain: the generated definitions are
generic in the carrier and are instantiated with `+ ↦ *` and `log_softmax(weight[g, o]) ↦ w g o` (the model's `Spec.w` IS the
soft-max row), so arg-max positions are compared exactly.
-/
set_option linter.unusedSectionVars false
set_option linter.unusedSimpArgs false
set_option linter.unusedVariables false
namespace Deeprob.Struct4
open Deeprob Deeprob.RatSpn Deeprob.RatSample Deeprob.Oblig.StructPy

def castL (l : List Nat) : List Int := l.map (fun (a : Nat) => (a : Int))

theorem interleave_map {β γ : Type} (f h : β → γ) (l : List β) :
    Gen.Py4.interleave (l.map f) (l.map h) = l.flatMap (fun a => [f a, h a]) := by
  induction l with
  | nil => rfl
  | cons x xs ih => simp only [List.map_cons, Gen.Py4.interleave, ih, List.flatMap_cons, List.cons_append, List.nil_append]

/-! ### `ProductLayer.sample` (= `ProductLayer.mpe`) -/

/-- **the index doubling as coded**: `idx_group ↦ [2g, 2g+1]`, `idx_offset ↦ [o // in_nodes, o % in_nodes]`, pairs kept
adjacent (stack along the last axis, then flatten) — the model's `prodDown` -/
theorem prodSample_as_coded (inNodes : Nat) (g o : List Nat) :
    Gen.S4ratProdSample (inNodes : Int) (castL g) (castL o) =
      (castL (prodDown inNodes g o).1, castL (prodDown inNodes g o).2) := by
  unfold Gen.S4ratProdSample prodDown castL
  simp only [List.map_map, interleave_map, List.map_flatMap, Function.comp_def, List.map_cons, List.map_nil,
    fdiv_natCast, fmod_natCast]
  have h : (fun a : Nat => [(a : Int) * 2, (a : Int) * 2 + 1]) = fun a : Nat => [((2 * a : Nat) : Int), ((2 * a + 1 : Nat) : Int)] := by
    funext a
    have e1 : ((2 * a : Nat) : Int) = (a : Int) * 2 := by push_cast; ring
    have e2 : ((2 * a + 1 : Nat) : Int) = (a : Int) * 2 + 1 := by push_cast; ring
    rw [e1, e2]
  rw [h]

example : Gen.S4ratProdSample 3 [1, 0] [5, 7] = ([2, 3, 0, 1], [1, 2, 2, 1]) ∧ prodDown 3 [1, 0] [5, 7] = ([2, 3, 0, 1], [1, 2, 2, 1]) := by
  decide

/-! ### `SumLayer.mpe`, `RootLayer.mpe` -/

section argmax
variable {α : Type} [LT α] [DecidableLT α]

theorem argmaxAux_eq (xs : List α) (i bi : Nat) (bv : α) : Gen.Py4.argmaxAux xs i bi bv = argmaxAux xs i bi bv := by
  induction xs generalizing i bi bv with
  | nil => rfl
  | cons x xs ih => simp only [Gen.Py4.argmaxAux, argmaxAux, ih]

/-- the translator's reading of `argmax` (first maximiser) is the model's -/
theorem argmax_eq (l : List α) : Gen.Py4.argmax l = argmax l := by
  cases l with
  | nil => rfl
  | cons x xs => exact argmaxAux_eq xs 1 0 x

end argmax

section mpe
variable {α : Type} [CommSemiring α] [LT α] [DecidableLT α]

/-- `a + b` of the linear-domain reading is `a * b` -/
theorem hadd_mul (a b : α) : @HAdd.hAdd α α α (@instHAdd α ⟨(· * ·)⟩) a b = a * b := rfl

theorem zipWith_hadd (u v : List α) :
    List.zipWith (fun a b => @HAdd.hAdd α α α (@instHAdd α ⟨(· * ·)⟩) a b) u v = List.zipWith (· * ·) v u := by
  induction u generalizing v with
  | nil => cases v <;> rfl
  | cons a as ih =>
    cases v with
    | nil => rfl
    | cons b bs =>
      show (a * b) :: List.zipWith _ as bs = (b * a) :: List.zipWith _ bs as
      rw [ih bs, mul_comm]

/-- **`SumLayer.mpe` as coded** (linear-domain reading): the values are gathered by GROUP (`x[arange, idx_group]`), the
weights by (group, offset) (`self.weight[idx_group, idx_offset]`), the new offset is the FIRST arg-max over the input nodes
of `x + log_softmax(w)` ↦ `w · x`, and `idx_group` is returned unchanged — the model's `sumMpe` -/
theorem sumMpe_as_coded (w : Nat → Nat → List α) (V : Tab α) (io : Idx) :
    @Gen.S4ratSumMpe α ⟨(· * ·)⟩ _ _ (fun v => v) (fun g => (List.range V.nodes).map (fun t => V.at_ g.toNat t))
        (fun g o => w g.toNat o.toNat) (castL io.1) (castL io.2) =
      (castL (sumMpe w V io).1, castL (sumMpe w V io).2) := by
  unfold Gen.S4ratSumMpe sumMpe castL
  refine Prod.ext rfl ?_
  simp only [List.map_id']
  generalize io.1 = G
  generalize io.2 = O
  induction G generalizing O with
  | nil => rfl
  | cons g gs ih =>
    cases O with
    | nil => rfl
    | cons o os =>
      simp only [List.map_cons, List.zipWith_cons_cons, Int.toNat_natCast]
      rw [ih os, zipWith_hadd, argmax_eq]

example :
    let V : Tab ℕ := { groups := 2, nodes := 2, at_ := fun g t => ([[6, 4], [3, 5]].getD g []).getD t 0 }
    let w : Nat → Nat → List ℕ := fun g o => ([[[1, 3], [2, 2]], [[9, 1], [1, 2]]].getD g []).getD o []
    sumMpe w V ([1, 0], [0, 1]) = ([1, 0], [0, 0]) ∧
    @Gen.S4ratSumMpe ℕ ⟨(· * ·)⟩ _ _ (fun v => v) (fun g => (List.range V.nodes).map (fun t => V.at_ g.toNat t))
      (fun g o => w g.toNat o.toNat) [1, 0] [0, 1] = ([1, 0], [0, 0]) := by
  decide

/-- **`RootLayer.mpe` as coded** (linear-domain reading): the input is flattened partition-major, the FIRST arg-max of
`x + log_softmax(weight)[y]` ↦ `wroot · x` is split into `(idx // in_nodes, idx % in_nodes)` — the model's `rootMpe` -/
theorem rootMpe_as_coded (wroot : List α) (V : Tab α) (y : Int) :
    @Gen.S4ratRootMpe α ⟨(· * ·)⟩ _ _ (fun v => v)
        ((List.range V.groups).map (fun g => (List.range V.nodes).map (fun t => V.at_ g t))) (fun _ => wroot) (V.nodes : Int) y =
      (castL (rootMpe wroot V).1, castL (rootMpe wroot V).2) := by
  unfold Gen.S4ratRootMpe rootMpe castL flat
  have hf : ((List.range V.groups).map (fun g => (List.range V.nodes).map (fun t => V.at_ g t))).flatten =
      (List.range V.groups).flatMap (fun g => (List.range V.nodes).map (fun t => V.at_ g t)) := by
    rw [List.flatMap_def]
  simp only [hf, zipWith_hadd, argmax_eq, List.map_cons, List.map_nil, fdiv_natCast, fmod_natCast]

/-- `RootLayer.sample` splits the drawn flat index in the same way (`rootStep` of the model: `[idx / nodes], [idx % nodes]`) -/
theorem rootSample_as_coded (nodes idx : Nat) :
    Gen.S4ratRootSample (nodes : Int) [(idx : Int)] = ([((idx / nodes : Nat) : Int)], [((idx % nodes : Nat) : Int)]) := by
  unfold Gen.S4ratRootSample
  simp only [List.map_cons, List.map_nil, fdiv_natCast, fmod_natCast]

example :
    let V : Tab ℕ := { groups := 2, nodes := 2, at_ := fun g t => ([[6, 4], [3, 5]].getD g []).getD t 0 }
    rootMpe [1, 2, 3, 1] V = ([1], [0]) ∧
    @Gen.S4ratRootMpe ℕ ⟨(· * ·)⟩ _ _ (fun v => v) [[6, 4], [3, 5]] (fun _ => [1, 2, 3, 1]) 2 0 = ([1], [0]) ∧
    Gen.S4ratRootSample 2 [3] = ([1], [1]) := by
  decide

end mpe

/-! ### `SumLayer.sample` -/

/-- **`SumLayer.sample` as coded**: every new offset is an independent draw from `Categorical(logits =
log_softmax(weight[idx_group[j], idx_offset[j]]))`, i.e. (linear reading) from the soft-max row `w g o` — the law
`lawSample` / the rows `List.zipWith law io.1 io.2` of the model's `sumStep`; `idx_group` is unchanged (`sumPick`) -/
theorem sumSample_as_coded {α : Type} (w : Nat → Nat → List α) (V : Tab α) (io : Idx) :
    Gen.S4ratSumSampleLogits (fun v => v) (fun g o => w g.toNat o.toNat) (castL io.1) (castL io.2) =
      List.zipWith (lawSample w V) io.1 io.2 ∧
    Gen.S4ratSumSampleLaw = "distributions.Categorical(logits=w).sample()" := by
  refine ⟨?_, by decide⟩
  unfold Gen.S4ratSumSampleLogits lawSample castL
  simp only [List.map_id', List.zipWith_map_left, List.zipWith_map_right, Int.toNat_natCast]

/-! ### `RegionGraphLayer.unpad_samples`, `RegionGraphLayer.mpe` -/

theorem getI_nat {β : Type} [Inhabited β] (x : List β) (p : Nat) (hp : p < x.length) :
    Gen.Py4.getI x (p : Int) default = x[p] := by
  unfold Gen.Py4.getI
  have hn : ¬ ((p : Int) < 0) := by omega
  simp [hn, List.getD_eq_getElem?_getD, hp]

theorem gather_as_gatherRow {β : Type} [Inhabited β] (x : List β) (idx : List Nat) (h : ∀ p ∈ idx, p < x.length) :
    Gen.Py4.gather x (castL idx) = gatherRow x idx := by
  unfold Gen.Py4.gather gatherRow castL
  induction idx with
  | nil => rfl
  | cons p ps ih =>
    have hp : p < x.length := h p (by simp)
    rw [List.map_cons, List.map_cons, List.filterMap_cons, List.getElem?_eq_getElem hp, getI_nat x p hp,
      ih (fun q hq => h q (by simp [hq]))]

/-- **`unpad_samples` as coded, the whole function**: the repetition is `idx_group[:, 0] // 2 ** rg_depth` (FIRST entry of the
row of region indices, floor division), the samples are gathered with `inv_mask[repetition]`, and — when `pad > 0` — the
positions where `inv_pad_mask[repetition]` is FALSE are kept: the model's `unpad … (g₀ / 2 ^ d)`.  (`x` covers the padded
row: every index of `inv_mask` is in range.) -/
theorem unpadSamples_as_coded {β : Type} [Inhabited β] (n d : Nat) (regions : List (List Nat)) (x : List β) (g : List Nat)
    (nRows : Nat) (hx : ∀ p ∈ invMask n d regions (g.headD 0 / 2 ^ d), p < x.length) :
    Gen.S4ratUnpad (d : Int) ((padOf n d : Nat) : Int) (n : Int) (fun t => castL (invMask n d regions t.toNat))
        (fun t => invPadMask n d regions t.toNat) nRows x (castL g) =
      unpad n d regions (g.headD 0 / 2 ^ d) x := by
  unfold Gen.S4ratUnpad unpad
  have hg : Gen.Py4.getI (castL g) 0 0 = ((g.headD 0 : Nat) : Int) := by
    cases g <;> simp [Gen.Py4.getI, castL]
  have hpow : ((2 : Int) ^ d) = ((2 ^ d : Nat) : Int) := by push_cast; rfl
  have hrep : Int.fdiv (Gen.Py4.getI (castL g) (0 : Int) 0) ((2 : Int) ^ d) = ((g.headD 0 / 2 ^ d : Nat) : Int) := by
    rw [hg, hpow, fdiv_natCast]
  simp only [Int.toNat_natCast]
  simp only [hrep, Int.toNat_natCast, gather_as_gatherRow x _ hx, gt_iff_lt, Int.natCast_pos, decide_eq_true_eq]
  by_cases hp : 0 < padOf n d
  · simp only [hp, if_true]; rfl
  · simp only [hp, if_false]

theorem where_as_completeRow (x : List (Option Nat)) (samples : List Nat) :
    Gen.Py4.zipWith3 (fun c a b => if c then a else (Gen.Py3.val b)) (x.map Gen.Py3.isnan) samples x = completeRow x samples := by
  unfold completeRow
  induction x generalizing samples with
  | nil => cases samples <;> rfl
  | cons a as ih =>
    cases samples with
    | nil => rfl
    | cons s ss =>
      simp only [List.map_cons, Gen.Py4.zipWith3, List.zip_cons_cons, ih]
      cases a <;> simp [Gen.Py3.isnan, Gen.Py3.val]

/-- **`RegionGraphLayer.mpe` as coded**: the modes of the selected leaves `mode[idx_group, idx_offset]` are flattened in
selection order, reordered and unpadded by `unpad_samples(samples, idx_group)`, and `torch.where(isnan(x), samples, x)`
keeps every observed entry — the model's `completeRow row (unpad … (modes S io))` of `mpeRow` -/
theorem baseMpe_as_coded {α : Type} [Zero α] [One α] [Add α] [Mul α] [LT α] [DecidableLT α] (S : Spec α) (io : Idx) (row : List (Option Nat))
    (unpadS : List Nat → List Int → List Nat)
    (hu : unpadS (modes S io) (castL io.1) = unpad S.n S.depth S.regs (io.1.headD 0 / 2 ^ S.depth) (modes S io)) :
    Gen.S4ratBaseMpe (fun g o => (List.range (S.mrow g.toNat).length).map (fun k => TCirc.bernIdx (S.tbl g.toNat o.toNat k)))
        unpadS row (castL io.1) (castL io.2) =
      completeRow row (unpad S.n S.depth S.regs (io.1.headD 0 / 2 ^ S.depth) (modes S io)) := by
  unfold Gen.S4ratBaseMpe
  have hm : (List.zipWith (fun (g o : Int) => (List.range (S.mrow g.toNat).length).map (fun k => TCirc.bernIdx (S.tbl g.toNat o.toNat k)))
      (castL io.1) (castL io.2)).flatten = modes S io := by
    unfold modes castL
    rw [List.flatMap_def, List.zipWith_map_left, List.zipWith_map_right, List.zip_eq_zipWith, List.map_zipWith]
    simp only [Int.toNat_natCast]
  simp only [hm, hu, where_as_completeRow]

example : Gen.S4ratSumSampleLogits (fun v => v) (fun g o => [(g : Int), o]) [1, 0] [0, 1] = [[1, 0], [0, 1]] := by decide

/-- non-vacuity of `unpadSamples_as_coded`: 3 features, depth 1 (one dummy), regions `{0, 2}`, `{1}` -/
example : Gen.S4ratUnpad (1 : Int) ((padOf 3 1 : Nat) : Int) 3 (fun t => castL (invMask 3 1 [[0, 2], [1]] t.toNat))
      (fun t => invPadMask 3 1 [[0, 2], [1]] t.toNat) 1 [5, 6, 7, 8] (castL [0, 1]) = unpad 3 1 [[0, 2], [1]] (0 / 2 ^ 1) [5, 6, 7, 8] :=
  unpadSamples_as_coded 3 1 [[0, 2], [1]] [5, 6, 7, 8] [0, 1] 1 (by decide)

/-- non-vacuity of `where_as_completeRow` / the last step of `RegionGraphLayer.mpe` -/
example : Gen.S4ratBaseMpe (fun g o => [(g.toNat + 10), (o.toNat + 20)]) (fun s _ => s) [none, some 7, none, some 9] [1, 2] [3, 4]
    = [11, 7, 12, 9] := by decide

/-! ### `RatSpn.mpe`, `RatSpn.sample`: the order of the calls -/

/-- **`RatSpn.mpe` as coded**: the forward pass stores the INPUT of every inner layer (`lls.append(x)` before `x = layer(x)`),
the class is 0 for a single class and otherwise the arg-max of the root outputs when none is given, the root indices come
from `root_layer.mpe(x, y)`, the inner layers are visited from the LAST to the first, each on the input it received in the
forward pass (`lls[i]`), and the base layer completes the ORIGINAL inputs — the composition `mpeRow` / `mpeIdx` / `mpeDown` /
`mpeClass` of the model -/
theorem modelMpe_as_coded :
    Gen.S4ratModelMpe =
      [("", "v0 = []"), ("", "v1 = x"), ("", "v2 = x.shape[0]"), ("", "x = self.base_layer(x)"),
       ("for v3 in self.layers", "v0.append(x)"), ("for v3 in self.layers", "x = v3(x)"),
       ("self.out_classes == 1", "y = torch.zeros(v2, dtype=torch.long)"),
       ("not (self.out_classes == 1) and y is None", "y = torch.argmax(self.root_layer(x), dim=1)"),
       ("", "v4, v5 = self.root_layer.mpe(x, y)"),
       ("for v6 in range(len(self.layers) - 1, -1, -1)", "v4, v5 = self.layers[v6].mpe(v0[v6], v4, v5)"),
       ("", "v7 = self.base_layer.mpe(v1, v4, v5)"), ("", "return v7")] := by decide

/-- **`RatSpn.sample` as coded**: class 0 / uniform class / given class, `root_layer.sample(y)`, the inner layers from the
last to the first (`sampleDown`), then `base_layer.sample` (`sampleRow`) -/
theorem modelSample_as_coded :
    Gen.S4ratModelSample =
      [("self.out_classes == 1", "y = torch.zeros(n_samples).long()"),
       ("not (self.out_classes == 1) and y is None", "y = torch.randint(self.out_classes, [n_samples])"),
       ("", "v0, v1 = self.root_layer.sample(y)"),
       ("for v2 in range(len(self.layers) - 1, -1, -1)", "v0, v1 = self.layers[v2].sample(v0, v1)"),
       ("", "v3 = self.base_layer.sample(v0, v1)"), ("", "return v3")] := by decide

/-- the model's top-down loop visits a sum layer with the input that layer received (`prodVal V`) AFTER the layers above
it, and ends every level with the product layer — one unfolding of `mpeDown` in the order of the code's loop -/
theorem mpeDown_order {α : Type} [Zero α] [One α] [Add α] [Mul α] [LT α] [DecidableLT α]
    (w : Nat → Nat → Nat → List α) (rgSum k l : Nat) (V : Tab α) (io : Idx) :
    mpeDown w rgSum (k + 2) l V io =
      prodDownI V.nodes (sumMpe (w l) (prodVal V) (mpeDown w rgSum (k + 1) (l + 1) (sumVal (w l) rgSum (prodVal V)) io)) := rfl

end Deeprob.Struct4
