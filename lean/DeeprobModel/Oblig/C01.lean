import DeeprobModel.Generated.Consts
import Mathlib.Tactic.NormNum
/-
Obligations about constants extracted from the current /repo source (C01).
-/
namespace Deeprob.Oblig

/-- the histogram leaf reports the same out-of-support mass in `likelihood` and in
`log_likelihood` (whose value is `log` of the extracted constant) -/
theorem iso_ood_consistent : Gen.isoOodLogLikArg = Gen.isoOodLik := by
  unfold Gen.isoOodLogLikArg Gen.isoOodLik; norm_num

/-- the out-of-support mass is positive (so its logarithm is finite) and tiny -/
theorem iso_ood_pos : 0 < Gen.isoOodLik ∧ Gen.isoOodLik ≤ 1 / 1000000 := by
  unfold Gen.isoOodLik; norm_num

/-- the floor applied to log-values is far below the logarithm of every positive float
(`log` of the smallest positive double is about −745), so it only replaces log 0 -/
theorem floor_inactive : Gen.llFloor ≤ -1000000 := by
  unfold Gen.llFloor; norm_num

end Deeprob.Oblig
