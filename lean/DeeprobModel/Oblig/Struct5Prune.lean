import DeeprobModel.Oblig.Struct5Rewrite
import DeeprobModel.Oblig.StructRewrite
set_option linter.unusedVariables false
set_option linter.unusedSectionVars false
/-
Fifth wave, rewriting passes — the PASS of `structure.prune` as extracted by tools/listprog.py (block K):
`Gen.S5prunePassLoop` (fragment `structure.prune.loop`): `nodes = topological_order(root)` (`none`: not a DAG),
`nodes_map = {n.id: n}`, `for node in reversed(nodes)`, one change of the slot `nodes_map[node.id]` per iteration (the stores are listed
in `Gen.S5prunePassLoopWrites`), `assign_ids(nodes_map[root.id])` (`Gen.S5prunePassLoopFinish`).

The per-node rule handed to the skeleton is `pruneStepGen`: the model's `pruneStep true` with its two collapse tests replaced by the
GENERATED ones (`Gen.pruneSingleChild`, `Gen.pruneMergedSingle`, third wave); `pruneStepGen_eq` says the two agree.

PARTIAL — what is shown here is the SHAPE only: instantiated on a table whose storage order is the reversed order the code walks, the
generated skeleton is the fold `prunePassGen` (`net.foldl genStep ([], [])`: one call of the per-node rule per entry, in storage order),
which is the model's `prunePass true` (`prunePassGen_eq`).  In this instance the whole step `genStep` is the skeleton's `apply` and the
dictionary is handed to it as a whole, so the statement covers the traversal, the initial state and the single update per visited node,
NOT the read / write locality the skeleton can express.  Missing for the full obligation: (1) the loop BODY of `prune` is not extracted
(only its collapse tests are), so the rebuilt children / weights (`prodItems`, `sumAcc`) are the model's, with no simulation theorem;
(2) an instance in which `get st k` is the object stored under key `k` and `body` reads only through it; (3) the link between
`topological_order` as generated (`Gen.S5topoStep`, `E2ETopo.e2e_topo_eq`) and the storage order (`prunePass_order_indep`).
-/
namespace Deeprob.Oblig.Struct5Prune
open Deeprob Deeprob.Net

section
variable {α : Type} [Zero α] [Add α] [Mul α]

/-- one iteration of `for node in reversed(nodes)` in `prune`: the model's rule (`Net.pruneStep true`) with the two collapse tests
taken from the generated fragments -/
def pruneStepGen (t : Net α) (rep : List Nat) (i : Nat) (x : NNode α) : NNode α × Nat :=
  match x.kind with
  | .leaf => (x, i)
  | .prod =>
    match Gen.pruneSingleChild (x.ch.map (fun c => rep.getD c c)) with
    | some c => (x, c)
    | none => ({ x with ch := prodItems t rep (x.ch.map (fun c => rep.getD c c)) }, i)
  | .sum =>
    match Gen.pruneSingleChild (x.ch.map (fun c => rep.getD c c)) with
    | some c => (x, c)
    | none =>
      match Gen.pruneMergedSingle ((sumAcc t rep x).map Prod.fst) with
      | some g => (x, g)
      | none => ({ x with ch := (sumAcc t rep x).map Prod.fst, ws := (sumAcc t rep x).map Prod.snd }, i)

theorem pruneStepGen_eq (t : Net α) (rep : List Nat) (i : Nat) (x : NNode α) :
    pruneStepGen t rep i x = pruneStep true t rep i x := by
  unfold pruneStepGen pruneStep
  simp only [StructRewrite.single_as_coded, (StructRewrite.merged_single_as_coded _).1, if_true]
  rfl

/-- the update of the visited node's slot (the node object is appended to the rebuilt table, its replacement to `nodes_map`) -/
def genStep (st : Net α × List Nat) (x : NNode α) : Net α × List Nat :=
  let r := pruneStepGen st.1 st.2 st.1.length x
  (st.1 ++ [r.1], st.2 ++ [r.2])

/-- the pass over the table in storage order with the generated collapse tests -/
def prunePassGen (net : Net α) : Net α × List Nat := net.foldl genStep ([], [])

theorem prunePassGen_eq (net : Net α) : prunePassGen net = prunePass true net := by
  unfold prunePassGen prunePass
  congr 1
  funext st x
  simp only [genStep, pruneStepGen_eq]

/-- **prunePassLoop_shape_partial**: the generated pass skeleton of `prune`, walked over the table in storage order (i.e.
`topological_order` answers the reversed table), with `genStep` as the update of the visited node's slot, is the fold `prunePassGen`,
i.e. the model's `prunePass true`.  PARTIAL: see the header (the locality of reads / writes is not part of this instance; the rebuilt
children / weights are the model's). -/
theorem prunePassLoop_shape_partial (net : Net α) (rootNode : NNode α) :
    Gen.S5prunePassLoop (N := NNode α) (V := Net α × List Nat) (MAP := Net α × List Nat) (O := NNode α)
        (R := Net α × List Nat)
        (fun x => x.id) (fun st _ => st) (fun st _ x => genStep st x) (fun _ => some net.reverse)
        (fun _ => ([], [])) id (fun _ x => x) rootNode =
      some (prunePass true net) := by
  rw [← prunePassGen_eq]
  unfold Gen.S5prunePassLoop prunePassGen
  simp only [List.reverse_reverse, id]

end

/-- … and a table that is not a DAG (`topological_order` returns `None`) makes the pass raise, whatever the other arguments are -/
theorem prunePassLoop_not_dag {N V MAP O R : Type} (nid : N → Nat) (get : MAP → Nat → V) (apply : MAP → Nat → O → MAP)
    (mkMap : List N → MAP) (finish : V → R) (body : (Nat → V) → N → O) (root : N) :
    Gen.S5prunePassLoop nid get apply (fun _ => none) mkMap finish body root = none := rfl

/-- non-vacuity: a sum over a sum (`S{½,½}( S{½,½}(A, B), B )`): the inner sum is merged into the root, and the shared leaf `B` gets
the weight `½·½ + ½` -/
example :
    let net : Net ℚ := [{ id := 3, kind := .leaf, scope := [0], ch := [], ws := [], leaf := .absent },
                        { id := 2, kind := .leaf, scope := [0], ch := [], ws := [], leaf := .absent },
                        { id := 1, kind := .sum, scope := [0], ch := [0, 1], ws := [1/2, 1/2], leaf := .absent },
                        { id := 0, kind := .sum, scope := [0], ch := [2, 1], ws := [1/2, 1/2], leaf := .absent }]
    (Gen.S5prunePassLoop (N := NNode ℚ) (V := Net ℚ × List Nat) (MAP := Net ℚ × List Nat) (O := NNode ℚ)
        (R := List (List Nat × List ℚ) × List Nat)
        (fun x => x.id) (fun st _ => st) (fun st _ x => genStep st x) (fun _ => some net.reverse)
        (fun _ => ([], [])) (fun st => (st.1.map (fun x => (x.ch, x.ws)), st.2)) (fun _ x => x)
        { id := 0, kind := .sum, scope := [0], ch := [2, 1], ws := [1/2, 1/2], leaf := .absent }) =
      some ([([], []), ([], []), ([0, 1], [1/2, 1/2]), ([0, 1], [1/4, 3/4])], [0, 1, 2, 3]) := by
  decide +kernel

end Deeprob.Oblig.Struct5Prune
