import DeeprobModel.Oblig.Struct4Rewrite
set_option linter.unusedVariables false
/-
Fifth wave, rewriting passes — the PASS of `structure.marginalize` as extracted by tools/listprog.py (block K):
`Gen.S5margPassLoop` (fragment `structure.marginalize.loop`; `Gen.S5prunePassLoop` for `prune`): `nodes = topological_order(root)`
(`none`: not a DAG), `nodes_map = {n.id: n}`, `for node in reversed(nodes)`, one change of the slot `nodes_map[node.id]` per iteration
(the stores are listed in `Gen.S5margPassLoopWrites`), `prune(assign_ids(nodes_map[root.id]), copy=False)`.

PARTIAL — what is shown here is the SHAPE only: instantiated on a table whose storage order is the reversed order the code walks, the
generated skeleton is the hand-written fold `Struct4.margPassGen` (`net.foldl (genStep keep) ([], [])`: one call of the extracted body
`Gen.S4margStep` per entry, in storage order) that `Props/E2ECirc.lean` (`mgGenMarginalize`) is built on.  In this instance the whole
step `Struct4.genStep` is the skeleton's `apply` and the dictionary is handed to it as a whole, so the statement covers the traversal,
the initial state and the single update per visited node, NOT the read / write locality the skeleton can express.  Missing for the full
obligation: (1) an instance in which `get st k` is the object stored under key `k` (`st.2.getD k none` together with the current
attributes `st.1[·]`) and `body` is `Gen.S4margStep` itself, which needs the invariant `x.id = position` over the fold; (2) the link
between `topological_order` as generated (`Gen.S5topoStep`, `E2ETopo.e2e_topo_eq`) and the storage order (`prunePass_order_indep` /
`margPass` in an arbitrary children-first order); (3) the same for `prune`, whose loop BODY is not extracted yet (only its collapse
tests are: `Gen.pruneSingleChild`, `Gen.pruneMergedSingle`).
-/
namespace Deeprob.Oblig.Struct5Rewrite
open Deeprob Deeprob.Net

variable {α : Type}

/-- **margPassLoop_shape_partial**: the generated pass skeleton of `marginalize`, walked over the table in storage order (i.e.
`topological_order` answers the reversed table), with `Struct4.genStep` as the update of the visited node's slot, is the hand-written
fold `Struct4.margPassGen`.  PARTIAL: see the header (the locality of reads / writes is not part of this instance). -/
theorem margPassLoop_shape_partial (keep : List Nat) (net : Net α) (rootNode : NNode α) :
    Gen.S5margPassLoop (N := NNode α) (V := Net α × List (Option Nat)) (MAP := Net α × List (Option Nat)) (O := NNode α)
        (R := Net α × List (Option Nat))
        (fun x => x.id) (fun st _ => st) (fun st _ x => Struct4.genStep keep st x) (fun _ => some net.reverse)
        (fun _ => ([], [])) id (fun _ x => x) rootNode =
      some (Struct4.margPassGen keep net) := by
  unfold Gen.S5margPassLoop Struct4.margPassGen
  simp only [List.reverse_reverse, id]

/-- … and a table that is not a DAG (`topological_order` returns `None`) makes the pass raise, whatever the other arguments are -/
theorem margPassLoop_not_dag {N V MAP O R : Type} (nid : N → Nat) (get : MAP → Nat → V) (apply : MAP → Nat → O → MAP)
    (mkMap : List N → MAP) (finish : V → R) (body : (Nat → V) → N → O) (root : N) :
    Gen.S5margPassLoop nid get apply (fun _ => none) mkMap finish body root = none := rfl

/-- non-vacuity: the three-leaf product of `Struct4Rewrite`, kept variables 4 and 6 -/
example :
    let net : Net ℚ := [{ id := 0, kind := .leaf, scope := [4], ch := [], ws := [], leaf := .absent },
                        { id := 1, kind := .leaf, scope := [5], ch := [], ws := [], leaf := .absent },
                        { id := 2, kind := .leaf, scope := [6], ch := [], ws := [], leaf := .absent },
                        { id := 3, kind := .prod, scope := [4, 5, 6], ch := [0, 1, 2], ws := [], leaf := .absent }]
    (Gen.S5margPassLoop (N := NNode ℚ) (V := Net ℚ × List (Option Nat)) (MAP := Net ℚ × List (Option Nat)) (O := NNode ℚ)
        (R := List (Option Nat))
        (fun x => x.id) (fun st _ => st) (fun st _ x => Struct4.genStep [4, 6] st x) (fun _ => some net.reverse)
        (fun _ => ([], [])) (fun st => st.2) (fun _ x => x) { id := 3, kind := .prod, scope := [4, 5, 6], ch := [0, 1, 2], ws := [], leaf := .absent }) =
      some [some 0, none, some 2, some 3] := by
  decide +kernel

end Deeprob.Oblig.Struct5Rewrite
