import DeeprobModel.Generated.Consts
import DeeprobModel.Generated.Formulas
import DeeprobModel.Model.Circ
import DeeprobModel.Model.Net
import Mathlib.Algebra.Order.Field.Basic
import Mathlib.Algebra.Order.Field.Rat
import Mathlib.Tactic.Ring
import Mathlib.Tactic.Linarith
import Mathlib.Tactic.NormNum
/-
Third wave, (a) — static tie of `Model/Circ.lean` (`Circ.eval`, `catLeafFn`) and `Model/Net.lean` (`evalNode`) to
/repo/deeprob/spn/structure/node.py (`Sum.likelihood`, `Sum.log_likelihood`, `Product.likelihood`,
`Product.log_likelihood`), /repo/deeprob/spn/algorithms/inference.py (`node_likelihood`, `node_log_likelihood`),
/repo/deeprob/spn/algorithms/evaluation.py (`eval_forward`) and /repo/deeprob/spn/structure/leaf.py (`Bernoulli` /
`Categorical` `likelihood` / `log_likelihood` with the NaN mask) — C01, C02.

The `Gen.S3…` definitions are translated from the current AST on every run (row-wise reading of the array code, see
`tools/py2lean.py` class `TrA`); the theorems say that the hand-written semantics is what that code computes.
Trusted: the NumPy / SciPy primitives as stated in the prelude `Gen.Py3` (`np.dot`, `np.prod`, `np.sum`, `logsumexp` =
`log Σ b·exp`, `bernoulli.pmf`, `rv_discrete.pmf`, `logpmf = log ∘ pmf`).
-/
set_option linter.unusedSectionVars false
set_option linter.unusedSimpArgs false
set_option linter.unusedVariables false
namespace Deeprob.Struct3
open Deeprob

variable {F : Type} [Field F] [LinearOrder F] [IsStrictOrderedRing F]

/-! ### inner nodes, linear domain -/

/-- `np.dot(x, self.weights)` on one row is the model's `wsum ws xs` (Σ wᵢ·xᵢ) -/
theorem dot_eq_wsum (ws xs : List F) : Gen.Py3.dot xs ws = wsum ws xs := by
  induction ws generalizing xs with
  | nil => cases xs <;> rfl
  | cons w ws ih =>
    cases xs with
    | nil => rfl
    | cons x xs => simp only [Gen.Py3.dot, wsum, ih, mul_comm]

theorem prod_eq_lprod (xs : List F) : Gen.Py3.prod xs = lprod xs := by
  induction xs with
  | nil => rfl
  | cons x xs ih => simp only [Gen.Py3.prod, lprod, ih]

theorem sum_eq_tsum (xs : List F) : Gen.Py3.sum xs = tsum xs := by
  induction xs with
  | nil => rfl
  | cons x xs ih => simp only [Gen.Py3.sum, tsum, ih]

/-- **`Sum.likelihood`** (`np.expand_dims(np.dot(x, self.weights), axis=1)`) is `wsum` -/
theorem sum_likelihood_as_coded (ws xs : List F) : Gen.S3sumLikelihood ws xs = wsum ws xs := by
  unfold Gen.S3sumLikelihood; exact dot_eq_wsum ws xs

example : Gen.S3sumLikelihood [(1:ℚ)/4, 3/4] [1/2, 1/3] = wsum [(1:ℚ)/4, 3/4] [1/2, 1/3] ∧
    Gen.S3sumLikelihood [(1:ℚ)/4, 3/4] [1/2, 1/3] = 3/8 := by
  refine ⟨sum_likelihood_as_coded _ _, ?_⟩
  simp only [Gen.S3sumLikelihood, Gen.Py3.dot]; norm_num

/-- **`Product.likelihood`** (`np.prod(x, axis=1, keepdims=True)`) is `lprod` -/
theorem product_likelihood_as_coded (xs : List F) : Gen.S3productLikelihood xs = lprod xs := by
  unfold Gen.S3productLikelihood; exact prod_eq_lprod xs

example : Gen.S3productLikelihood [(1:ℚ)/2, 1/3, 3] = lprod [(1:ℚ)/2, 1/3, 3] ∧ Gen.S3productLikelihood [(1:ℚ)/2, 1/3, 3] = 1/2 := by
  refine ⟨product_likelihood_as_coded _, ?_⟩
  simp only [Gen.S3productLikelihood, Gen.Py3.prod]; norm_num

/-- **`node_likelihood`** returns the node's own `likelihood` of the children values, squeezed — nothing else -/
theorem node_likelihood_as_coded (f : List F → F) (xs : List F) : Gen.S3nodeLikelihood f xs = f xs := rfl

example : Gen.S3nodeLikelihood (Gen.S3sumLikelihood [(1:ℚ)/4, 3/4]) [1/2, 1/3] = 3/8 := by
  rw [node_likelihood_as_coded]; simp only [Gen.S3sumLikelihood, Gen.Py3.dot]; norm_num

/-- **the tree semantics is the coded recursion**: at a sum / product the model's `Circ.eval` is `node_likelihood` with
the node's `likelihood`, applied to the values of the children in child order -/
theorem eval_sum_as_coded (e : Ev) (s : List Nat) (ws : List F) (cs : List (Circ F)) :
    Circ.eval e (.sum s ws cs) = Gen.S3nodeLikelihood (Gen.S3sumLikelihood ws) (cs.map (Circ.eval e)) := by
  rw [node_likelihood_as_coded, sum_likelihood_as_coded]; simp only [Circ.eval]

theorem eval_prod_as_coded (e : Ev) (s : List Nat) (cs : List (Circ F)) :
    Circ.eval e (.prod s cs) = Gen.S3nodeLikelihood Gen.S3productLikelihood (cs.map (Circ.eval e)) := by
  rw [node_likelihood_as_coded, product_likelihood_as_coded]; simp only [Circ.eval]

example : Circ.eval (Ev.ofList [some 1, none]) (.sum [0, 1] [(1:ℚ)/4, 3/4]
      [.prod [0, 1] [Circ.catLeaf 0 [1/2, 1/2], Circ.catLeaf 1 [1/3, 2/3]], .prod [0, 1] [Circ.catLeaf 0 [1/5, 4/5], Circ.catLeaf 1 [1, 0]]])
    = Gen.S3nodeLikelihood (Gen.S3sumLikelihood [(1:ℚ)/4, 3/4]) [1/2, 4/5] := by
  rw [eval_sum_as_coded]
  simp [Circ.eval, Circ.catLeaf, Circ.catLeafFn, Ev.ofList, lprod]

/-- the node-table evaluation (`eval_bottom_up` with `node_func = node_likelihood`): the value stored for an inner node is
`eval_forward`'s `node_func(n, np.stack([ls[c.id] for c in n.children], axis=1))` — nodes are their table indices
(`nid = id`), `ls` = the values stored so far -/
theorem evalNode_inner_as_coded (e : Ev) (dens vals : List F) (x : NNode F) :
    evalNode e dens vals x = match x.kind with
      | .leaf => x.leaf.fn x.scope (dens.getD vals.length 0) e
      | .sum => Gen.S3evalForwardInner (N := Nat) id (fun _ => x.ch)
          (fun _ => Gen.S3nodeLikelihood (Gen.S3sumLikelihood x.ws)) (fun c => vals.getD c 0) 0
      | .prod => Gen.S3evalForwardInner (N := Nat) id (fun _ => x.ch)
          (fun _ => Gen.S3nodeLikelihood Gen.S3productLikelihood) (fun c => vals.getD c 0) 0 := by
  unfold Gen.S3evalForwardInner evalNode
  cases hx : x.kind <;> simp only [node_likelihood_as_coded, sum_likelihood_as_coded, product_likelihood_as_coded, id]

example : evalNode (Ev.ofList []) [] [(1:ℚ)/2, 1/3] { id := 2, kind := .sum, scope := [0], ch := [0, 1], ws := [1/4, 3/4], leaf := .absent }
    = 3/8 := by
  rw [evalNode_inner_as_coded]
  simp [Gen.S3evalForwardInner, Gen.S3nodeLikelihood, Gen.S3sumLikelihood, Gen.Py3.dot]; norm_num

/-- the children values handed to the node function are read from `ls` by child id, in child order (`axis=1` of the
stack = position of the child) — the model's `x.ch.map (fun c => vals.getD c 0)` -/
theorem evalForward_children_as_coded {N : Type} (nid : N → Nat) (children : N → List N) (g : N → List F → F)
    (ls : Nat → F) (n : N) :
    Gen.S3evalForwardInner nid children g ls n = g n (((children n).map nid).map ls) := by
  unfold Gen.S3evalForwardInner; simp only [List.map_map, Function.comp_def]

example : Gen.S3evalForwardInner (N := Nat) id (fun n => if n = 2 then [0, 1] else [])
    (fun _ xs => Gen.S3nodeLikelihood (Gen.S3sumLikelihood [(1:ℚ)/4, 3/4]) xs) (fun i => [(1:ℚ)/2, 1/3].getD i 0) 2 = 3/8 := by
  rw [evalForward_children_as_coded]
  simp [Gen.S3nodeLikelihood, Gen.S3sumLikelihood, Gen.Py3.dot]; norm_num

/-! ### inner nodes, log domain -/

theorem log_mul (E : ExpLog F) (a b : F) (ha : 0 < a) (hb : 0 < b) : E.log (a * b) = E.log a + E.log b := by
  have h : a * b = E.exp (E.log a + E.log b) := by rw [E.exp_add, E.exp_log a ha, E.exp_log b hb]
  rw [h, E.log_exp]

theorem log_one (E : ExpLog F) : E.log 1 = 0 := by rw [← E.exp_zero, E.log_exp]

theorem map_exp_log (E : ExpLog F) (vs : List F) (h : ∀ v ∈ vs, 0 < v) : (vs.map E.log).map (fun a => E.exp a) = vs := by
  induction vs with
  | nil => rfl
  | cons v vs ih =>
    simp only [List.map_cons]
    rw [E.exp_log v (h v List.mem_cons_self), ih (fun w hw => h w (List.mem_cons_of_mem _ hw))]

/-- **`Sum.log_likelihood`** (`logsumexp(x, b=self.weights, axis=1, keepdims=True)`) on the logarithms of positive
children values is the logarithm of the model's mixture value -/
theorem sum_log_likelihood_as_coded (E : ExpLog F) (ws vs : List F) (h : ∀ v ∈ vs, 0 < v) :
    Gen.S3sumLogLikelihood E ws (vs.map E.log) = E.log (wsum ws vs) := by
  unfold Gen.S3sumLogLikelihood
  rw [map_exp_log E vs h, dot_eq_wsum]

theorem lprod_pos (vs : List F) (h : ∀ v ∈ vs, 0 < v) : 0 < lprod vs := by
  induction vs with
  | nil => simp [lprod]
  | cons v vs ih =>
    simp only [lprod]
    exact mul_pos (h v List.mem_cons_self) (ih (fun w hw => h w (List.mem_cons_of_mem _ hw)))

/-- **`Product.log_likelihood`** (`np.sum(x, axis=1, keepdims=True)`) on the logarithms of positive children values is the
logarithm of the model's product value -/
theorem product_log_likelihood_as_coded (E : ExpLog F) (vs : List F) (h : ∀ v ∈ vs, 0 < v) :
    Gen.S3productLogLikelihood (vs.map E.log) = E.log (lprod vs) := by
  unfold Gen.S3productLogLikelihood
  induction vs with
  | nil => simp only [List.map_nil, Gen.Py3.sum, lprod]; exact (log_one E).symm
  | cons v vs ih =>
    have hv := h v List.mem_cons_self
    have hr : ∀ w ∈ vs, 0 < w := fun w hw => h w (List.mem_cons_of_mem _ hw)
    simp only [List.map_cons, Gen.Py3.sum, lprod]
    rw [ih hr, log_mul E v (lprod vs) hv (lprod_pos vs hr)]

/-- **`node_log_likelihood`** is the node's own `log_likelihood`, floored at the constant of the source (`-1e31`), squeezed -/
theorem node_log_likelihood_as_coded (f : List F → F) (xs : List F) :
    Gen.S3nodeLogLikelihood f xs = max (f xs) (-10000000000000000000000000000000) := rfl

/-- log-domain recursion = logarithm of the linear one whenever the floor is inactive (the value's logarithm is above
`-1e31`; `Oblig.floor_inactive`) -/
theorem node_log_likelihood_sum (E : ExpLog F) (ws vs : List F) (h : ∀ v ∈ vs, 0 < v)
    (hfl : (-10000000000000000000000000000000 : F) ≤ E.log (wsum ws vs)) :
    Gen.S3nodeLogLikelihood (Gen.S3sumLogLikelihood E ws) (vs.map E.log)
      = E.log (Gen.S3nodeLikelihood (Gen.S3sumLikelihood ws) vs) := by
  rw [node_log_likelihood_as_coded, node_likelihood_as_coded, sum_log_likelihood_as_coded E ws vs h, sum_likelihood_as_coded]
  exact max_eq_left hfl

theorem node_log_likelihood_prod (E : ExpLog F) (vs : List F) (h : ∀ v ∈ vs, 0 < v)
    (hfl : (-10000000000000000000000000000000 : F) ≤ E.log (lprod vs)) :
    Gen.S3nodeLogLikelihood Gen.S3productLogLikelihood (vs.map E.log)
      = E.log (Gen.S3nodeLikelihood Gen.S3productLikelihood vs) := by
  rw [node_log_likelihood_as_coded, node_likelihood_as_coded, product_log_likelihood_as_coded E vs h, product_likelihood_as_coded]
  exact max_eq_left hfl

/-! ### Bernoulli / Categorical leaves with the missing-value mask -/

/-- **`Bernoulli.likelihood`**: `ls = ones; ls[~isnan(x)] = bernoulli.pmf(x[~isnan(x)], p)` is the model's table leaf
`[1 - p, p]` (missing ⇒ 1, observed `k` ⇒ entry `k`, 0 outside `{0, 1}`) -/
theorem bernoulli_likelihood_as_coded (p : F) (v : Nat) (e : Ev) :
    Gen.S3bernoulliLikelihood p (e v) = Circ.catLeafFn v [1 - p, p] e := by
  unfold Gen.S3bernoulliLikelihood Circ.catLeafFn Gen.Py3.isnan Gen.Py3.val Gen.Py3.bernoulliPmf
  cases e v with
  | none => simp
  | some k =>
    match k with
    | 0 => simp
    | 1 => simp
    | k+2 => simp

example : Gen.S3bernoulliLikelihood ((1:ℚ)/3) ((Ev.ofList [some 1, none]) 0) = 1/3 ∧
    Gen.S3bernoulliLikelihood ((1:ℚ)/3) ((Ev.ofList [some 1, none]) 1) = 1 := by
  constructor <;> (rw [bernoulli_likelihood_as_coded]; simp [Circ.catLeafFn, Ev.ofList])

theorem rvDiscretePmf_range_aux (tbl : List F) (s k : Nat) :
    Gen.Py3.sum ((((List.range' s tbl.length).zip tbl).filter (fun c => c.1 == k)).map (fun c => c.2))
      = if s ≤ k then tbl.getD (k - s) 0 else 0 := by
  induction tbl generalizing s with
  | nil => simp [Gen.Py3.sum]
  | cons t ts ih =>
    simp only [List.length_cons, List.range'_succ, List.zip_cons_cons, List.filter_cons]
    by_cases hsk : s = k
    · subst hsk
      simp only [beq_self_eq_true, if_true, List.map_cons, Gen.Py3.sum, ih, le_refl, Nat.sub_self, List.getD_cons_zero]
      simp
    · have hb : (s == k) = false := by simpa using hsk
      simp only [hb, Bool.false_eq_true, if_false, ih]
      by_cases hle : s ≤ k
      · have h1 : s + 1 ≤ k := by omega
        have h2 : k - s = (k - (s + 1)) + 1 := by omega
        simp only [hle, h1, if_true, h2, List.getD_cons_succ]
      · have h1 : ¬ s + 1 ≤ k := by omega
        simp only [hle, h1, if_false]

/-- `rv_discrete(values=(range(n), tbl)).pmf(k)` is entry `k` of the table (0 outside) -/
theorem rvDiscretePmf_range (tbl : List F) (k : Nat) :
    Gen.Py3.rvDiscretePmf (List.range tbl.length) tbl k = tbl.getD k 0 := by
  unfold Gen.Py3.rvDiscretePmf
  have h := rvDiscretePmf_range_aux tbl 0 k
  simp only [Nat.zero_le, if_true, Nat.sub_zero] at h
  rw [← h, List.range_eq_range']

/-- **`Categorical.likelihood`**: `ls = ones; ls[~isnan(x)] = self.distribution.pmf(x[~isnan(x)].astype(int64))` with
`self.distribution = rv_discrete(values=(categories, probabilities))` is the model's table leaf when the categories are
`0 .. n-1` (as in every exported table) -/
theorem categorical_likelihood_as_coded (tbl : List F) (v : Nat) (e : Ev) :
    Gen.S3categoricalLikelihood (List.range tbl.length) tbl (e v) = Circ.catLeafFn v tbl e := by
  unfold Gen.S3categoricalLikelihood Circ.catLeafFn Gen.Py3.isnan Gen.Py3.val
  cases e v with
  | none => simp
  | some k => simp [rvDiscretePmf_range]

example : Gen.S3categoricalLikelihood (List.range 3) [(1:ℚ)/2, 1/3, 1/6] ((Ev.ofList [some 2]) 0) = 1/6 ∧
    Gen.S3categoricalLikelihood (List.range 3) [(1:ℚ)/2, 1/3, 1/6] ((Ev.ofList [none]) 0) = 1 := by
  constructor <;>
    (rw [show (3 : Nat) = [(1:ℚ)/2, 1/3, 1/6].length from rfl, categorical_likelihood_as_coded]; simp [Circ.catLeafFn, Ev.ofList])

/-- **`Bernoulli.log_likelihood`** / **`Categorical.log_likelihood`**: `lls = zeros; lls[~isnan(x)] = logpmf(…)` — the
exponential of the coded value is the coded linear value wherever that is positive (missing ⇒ `exp 0 = 1`) -/
theorem bernoulli_log_likelihood_as_coded (E : ExpLog F) (p : F) (v : Nat) (e : Ev)
    (hpos : 0 < Circ.catLeafFn v [1 - p, p] e) :
    E.exp (Gen.S3bernoulliLogLikelihood E p (e v)) = Circ.catLeafFn v [1 - p, p] e := by
  rw [← bernoulli_likelihood_as_coded] at hpos ⊢
  unfold Gen.S3bernoulliLogLikelihood Gen.S3bernoulliLikelihood at *
  cases hx : e v with
  | none => simp [Gen.Py3.isnan, E.exp_zero]
  | some k =>
    simp only [hx, Gen.Py3.isnan, Option.isNone_some, Bool.not_false, if_true] at hpos ⊢
    exact E.exp_log _ hpos

theorem categorical_log_likelihood_as_coded (E : ExpLog F) (tbl : List F) (v : Nat) (e : Ev)
    (hpos : 0 < Circ.catLeafFn v tbl e) :
    E.exp (Gen.S3categoricalLogLikelihood E (List.range tbl.length) tbl (e v)) = Circ.catLeafFn v tbl e := by
  rw [← categorical_likelihood_as_coded] at hpos ⊢
  unfold Gen.S3categoricalLogLikelihood Gen.S3categoricalLikelihood at *
  cases hx : e v with
  | none => simp [Gen.Py3.isnan, E.exp_zero]
  | some k =>
    simp only [hx, Gen.Py3.isnan, Option.isNone_some, Bool.not_false, if_true] at hpos ⊢
    exact E.exp_log _ hpos

end Deeprob.Struct3
