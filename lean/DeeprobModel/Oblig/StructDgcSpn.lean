import DeeprobModel.Oblig.StructPy
import DeeprobModel.Model.DgcSpn
/-
Static tie of `Model/DgcSpn.lean` (`cfgAt`, `schedule`, `keff`, `pads`, `outSize`, `outChannels`) to
/repo/deeprob/spn/models/dgcspn.py (`DgcSpn.__init__`: layer schedule) and /repo/deeprob/spn/layers/dgcspn.py
(`SpatialProductLayer.__init__`: effective kernel, padding amounts, output size) — C17.
-/
set_option linter.unusedSimpArgs false
set_option linter.unusedTactic false
set_option linter.unreachableTactic false
namespace Deeprob.Oblig.StructDgcSpn
open Deeprob Deeprob.DgcSpn Deeprob.Oblig.StructPy

/-- **the layer schedule**: level `i < n_pooling` is `valid` / stride 2 / dilation 1; otherwise `final` at `i = depth`,
else `full`, stride 1, dilation `2 ** (i − n_pooling)`; kernel `(2, 2)`; `depthwise[i]` -/
theorem cfgAt_as_coded (D p : Nat) (dw : Nat → Bool) (i : Nat) :
    (cfgAt D p dw i).padding.toString = Gen.dgcPadding (i : Int) (p : Int) (clog2 D : Int) ∧
    [((cfgAt D p dw i).stride : Int), ((cfgAt D p dw i).stride : Int)] = Gen.dgcStride (i : Int) (p : Int) (clog2 D : Int) ∧
    [((cfgAt D p dw i).dilation : Int), ((cfgAt D p dw i).dilation : Int)] =
      Gen.dgcDilation (i : Int) (p : Int) (clog2 D : Int) ∧
    (cfgAt D p dw i).depthwise = dw i ∧ Gen.dgcDepthwiseArg = "self.depthwise[i]" ∧ Gen.dgcKernel = [2, 2] := by
  refine ⟨?_, ?_, ?_, ?_, by decide, by decide⟩ <;> unfold cfgAt <;>
    (try unfold Gen.dgcPadding) <;> (try unfold Gen.dgcStride) <;> (try unfold Gen.dgcDilation)
  all_goals
    by_cases h : i < p
    · have h' : (i : Int) < (p : Int) := by omega
      simp only [h, h', if_true, decide_true, PadMode.toString] <;> first | rfl | decide
    · have h' : ¬ (i : Int) < (p : Int) := by omega
      have hk : ((i : Int) - (p : Int)).toNat = i - p := by omega
      simp only [h, h', if_false, decide_false, Bool.false_eq_true, hk] <;>
      (by_cases hd : i = clog2 D
       · have hd' : ((i : Int) == (clog2 D : Int)) = true := by simp [hd]
         first | rfl | (rw [if_pos hd]; simp only [hd', if_true, PadMode.toString]) | (push_cast; rfl)
       · have hd' : ((i : Int) == (clog2 D : Int)) = false := by
           simp only [beq_eq_false_iff_ne, ne_eq]; omega
         first | rfl | (rw [if_neg hd]; simp only [hd', Bool.false_eq_true, if_false, PadMode.toString]) | (push_cast; rfl))

/-- the levels are `range(depth + 1)`; a sum layer follows every product layer except the last (`i != depth`), product
first — the model's `schedule` / `layerInfos` -/
theorem levels_as_coded (D p : Nat) (dw : Nat → Bool) :
    Gen.dgcLevels (clog2 D : Int) = (0, (clog2 D : Int) + 1, 1) ∧
    (schedule D p dw).length = clog2 D + 1 ∧
    (∀ i : Nat, Gen.dgcSumFollows (i : Int) (clog2 D : Int) = !decide (i = clog2 D)) ∧
    Gen.dgcLayerOrder = ["SpatialProductLayer", "SpatialSumLayer"] := by
  refine ⟨rfl, by simp [schedule], ?_, by decide⟩
  intro i
  unfold Gen.dgcSumFollows
  by_cases h : i = clog2 D
  · simp [h]
  · have : ¬ (i : Int) = (clog2 D : Int) := by omega
    simp [h, this]

/-- effective kernel size `(k − 1)·dilation + 1` with `k = 2` -/
theorem keff_as_coded (cfg : ProdCfg) :
    ((keff cfg : Nat) : Int) = Gen.dgcKeh 2 (cfg.dilation : Int) ∧ Gen.dgcKeh = Gen.dgcKew := by
  refine ⟨?_, rfl⟩
  unfold keff Gen.dgcKeh; omega

/-- **padding amounts per mode**: on a square input with equal dilations, `self.pad = [before, after, before, after]` with
`(before, after) = pads cfg inSize`: `valid` → `(0, 0)`, `full` → `(ke − 1, ke − 1)`, `final` → `(0, 2(ke − 1) − in)` -/
theorem pads_as_coded (cfg : ProdCfg) (s : Nat) :
    Gen.dgcPad cfg.padding.toString (keff cfg : Int) (keff cfg : Int) (s : Int) (s : Int) =
      some [((pads cfg s).1 : Int), (pads cfg s).2, ((pads cfg s).1 : Int), (pads cfg s).2] := by
  have hk : 1 ≤ keff cfg := by unfold keff; omega
  unfold Gen.dgcPad pads
  cases hp : cfg.padding <;> simp [PadMode.toString] <;> (try decide) <;> (try constructor) <;> push_cast <;> omega

/-- any other padding string makes the constructor raise -/
theorem pad_unknown_mode : Gen.dgcPad "same" 3 3 8 8 = none := by decide

/-- **output size** `ceil((before + after + in − ke + 1) / stride)` (height from `pad[2], pad[3]`, width from `pad[0], pad[1]`)
for the two strides of the schedule; a negative numerator cannot occur on accepted configurations, the model clamps at 0 -/
theorem outSize_as_coded (cfg : ProdCfg) (s : Nat) (hs : cfg.stride = 1 ∨ cfg.stride = 2) :
    ((outSize cfg s : Nat) : Int) =
      max 0 (Gen.dgcOutH [((pads cfg s).1 : Int), (pads cfg s).2, ((pads cfg s).1 : Int), (pads cfg s).2]
        (s : Int) (keff cfg : Int) (cfg.stride : Int)) ∧
    ((outSize cfg s : Nat) : Int) =
      max 0 (Gen.dgcOutW [((pads cfg s).1 : Int), (pads cfg s).2, ((pads cfg s).1 : Int), (pads cfg s).2]
        (s : Int) (keff cfg : Int) (cfg.stride : Int)) := by
  unfold outSize Gen.dgcOutH Gen.dgcOutW
  simp only [List.getD_cons_zero, List.getD_cons_succ]
  generalize ((pads cfg s).1 : Int) = b
  generalize (pads cfg s).2 = a
  generalize ((keff cfg : Nat) : Int) = k
  rcases hs with h | h <;> rw [h] <;>
    simp only [Nat.cast_one, Nat.cast_ofNat, Int.fdiv_eq_ediv_of_nonneg _ (show (0 : Int) ≤ 1 by decide),
      Int.fdiv_eq_ediv_of_nonneg _ (show (0 : Int) ≤ 2 by decide)] <;>
    constructor <;> omega

/-- **output channels** `in_c if depthwise else in_c ** (kh·kw)` with the `(2, 2)` kernel -/
theorem outChannels_as_coded (cfg : ProdCfg) (inC : Nat) :
    ((outChannels cfg inC : Nat) : Int) = Gen.dgcOutC cfg.depthwise (inC : Int) 2 2 := by
  unfold outChannels Gen.dgcOutC
  cases cfg.depthwise <;> simp <;> rfl

end Deeprob.Oblig.StructDgcSpn
