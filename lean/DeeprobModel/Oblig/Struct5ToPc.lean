import DeeprobModel.Generated.Consts
import DeeprobModel.Model.ToPcLoop
import DeeprobModel.Lemmas.PostOrderLemmas
import DeeprobModel.Lemmas.CltLemmas
import DeeprobModel.Lemmas.CltExample
set_option linter.unusedSimpArgs false
set_option linter.unusedSectionVars false
/-
Obligations about the loops of `BinaryCLT.to_pc` and `BinaryCLT.get_scopes` as EXTRACTED from the source
(`Gen.S5toPcStep`, `Gen.S5getScopesStep`, written by tools/listprog.py on every run): one iteration of the extracted loop IS
one step of the generic post-order machine `PostOrder.step` with the respective "combine" (simulation `toPcStep_as_coded`,
`getScopesStep_as_coded`), so that `PostOrder.run_eq_fold` applies to the code's loop; and the fold of the `to_pc` combine is
the hand-written unfolding `Clt.pc` (`fold_toPc`), the fold of the `get_scopes` combine is `getScopeTop` with log `getScopes`
(`fold_getScopes`).
Tree nodes: `RTree` (the tree `build_tree_structure` returns), `is_leaf` = no children (`TreeNode.is_leaf`), identity membership
`last_node_visited in node.get_children()` = membership of the node's index among the children's indices.
-/
namespace Deeprob.Oblig.Struct5
open Deeprob Deeprob.PostOrder Deeprob.Clt

theorem suffix_map {β γ : Type} (f : β → γ) (xs : List β) (k : Nat) :
    Gen.Py5.suffix (xs.map f) k = (Gen.Py5.suffix xs k).map f := by
  unfold Gen.Py5.suffix; split <;> simp

theorem delSuffix_map {β γ : Type} (f : β → γ) (xs : List β) (k : Nat) :
    Gen.Py5.delSuffix (xs.map f) k = (Gen.Py5.delSuffix xs k).map f := by
  unfold Gen.Py5.delSuffix; split <;> simp

theorem suffix_pos {β : Type} (xs : List β) (k : Nat) (hk : k ≠ 0) : Gen.Py5.suffix xs k = xs.drop (xs.length - k) := by
  simp [Gen.Py5.suffix, hk]

theorem delSuffix_pos {β : Type} (xs : List β) (k : Nat) (hk : k ≠ 0) : Gen.Py5.delSuffix xs k = xs.take (xs.length - k) := by
  simp [Gen.Py5.delSuffix, hk]

/-! ## `to_pc` -/
section topc
variable {C W : Type} (getId : RTree → Nat) (mkB : Nat → Nat → C) (mkP : List C → C) (mkS : List C → W → C) (factors : Nat → Nat → W)

/-- the pair `to_pc` appends to (`neg_buffer`, `pos_buffer`) when it finishes a tree node, from the pairs taken off the buffers -/
def toPcComb (t : RTree) (taken : List (C × C)) : C × C :=
  let ch := if t.kids.isEmpty then [mkB (getId t) 0, mkB (getId t) 1]
            else [mkP ([mkB (getId t) 0] ++ taken.map Prod.fst), mkP ([mkB (getId t) 1] ++ taken.map Prod.snd)]
  (mkS ch (factors (getId t) 0), mkS ch (factors (getId t) 1))

/-- the generated state that corresponds to a machine state: both buffers are the projections of the pair buffer -/
def genOf (last : Option RTree) (s : St (C × C)) : List RTree × Option RTree × List C × List C :=
  (s.stack, last, s.buf.map Prod.fst, s.buf.map Prod.snd)

/-- **toPcStep_as_coded**: one iteration of the EXTRACTED loop of `to_pc`, run on the projections of a machine state, gives the
projections of `PostOrder.step` of that state (and `last_node_visited` keeps naming the node whose index the machine holds). -/
theorem toPcStep_as_coded (s : St (C × C)) (last : Option RTree) (hl : last.map RTree.idx = s.last) :
    ∃ last', last'.map RTree.idx = (step (toPcComb getId mkB mkP mkS factors) s).last ∧
      Gen.S5toPcStep getId isLeaf RTree.kids isIn mkB mkP mkS factors s.stack last (s.buf.map Prod.fst) (s.buf.map Prod.snd)
        = genOf last' (step (toPcComb getId mkB mkP mkS factors) s) := by
  unfold Gen.S5toPcStep step genOf
  cases hs : s.stack.getLast? with
  | none => exact ⟨last, hl, by simp⟩
  | some node =>
    simp only []
    by_cases hleaf : node.kids.isEmpty = true
    · refine ⟨some node, by simp [hleaf], ?_⟩
      simp [isLeaf, hleaf, toPcComb, hs]
    · have hne : node.kids.length ≠ 0 := by
        intro h; apply hleaf; simpa using h
      have hleaf' : node.kids.isEmpty = false := by simpa using hleaf
      by_cases hin : lastInKids s.last node.kids = true
      · refine ⟨some node, by simp [hleaf', hin], ?_⟩
        simp [isLeaf, isIn, hl, hleaf', hin, toPcComb, hs, suffix_map, delSuffix_map, suffix_pos _ _ hne, delSuffix_pos _ _ hne]
      · have hin' : lastInKids s.last node.kids = false := by simpa using hin
        refine ⟨last, by simp [hleaf', hin', hl], ?_⟩
        simp [isLeaf, isIn, hl, hleaf', hin']

theorem genRun_sim (n : Nat) (s : St (C × C)) (last : Option RTree) (hl : last.map RTree.idx = s.last) :
    ∃ last', last'.map RTree.idx = (run (toPcComb getId mkB mkP mkS factors) n s).last ∧
      genRun getId mkB mkP mkS factors n (genOf last s) = genOf last' (run (toPcComb getId mkB mkP mkS factors) n s) := by
  induction n generalizing s last with
  | zero => exact ⟨last, hl, rfl⟩
  | succ n ih =>
    obtain ⟨l1, h1, e1⟩ := toPcStep_as_coded getId mkB mkP mkS factors s last hl
    obtain ⟨l2, h2, e2⟩ := ih (step (toPcComb getId mkB mkP mkS factors) s) l1 h1
    refine ⟨l2, h2, ?_⟩
    simp only [genRun, run]
    have : Gen.S5toPcStep getId isLeaf RTree.kids isIn mkB mkP mkS factors (genOf last s).1 (genOf last s).2.1
        (genOf last s).2.2.1 (genOf last s).2.2.2 = genOf l1 (step (toPcComb getId mkB mkP mkS factors) s) := e1
    rw [this, e2]

/-- **toPcLoop_as_coded**: the EXTRACTED loop of `to_pc`, run `2·size` times from `([root], None, [], [])` on a tree with
pairwise distinct node indices, ends with an empty stack and one entry in each buffer: the two components of the recursive fold. -/
theorem toPcLoop_as_coded (t : RTree) (hnd : t.vars.Nodup) :
    ∃ last', genRun getId mkB mkP mkS factors (2 * size t) ([t], none, [], []) =
      ([], last', [(fold (toPcComb getId mkB mkP mkS factors) t).1], [(fold (toPcComb getId mkB mkP mkS factors) t).2]) := by
  obtain ⟨l, _, e⟩ := genRun_sim getId mkB mkP mkS factors (2 * size t) ⟨[t], none, []⟩ none rfl
  have hr := run_eq_fold (toPcComb getId mkB mkP mkS factors) t hnd
  unfold walk at hr
  rw [hr] at e
  exact ⟨l, e⟩

end topc

/-! ## the fold of the `to_pc` combine is `Clt.pc` -/
section pcfold
variable {α : Type} [Zero α] [One α] [Add α] [Mul α]

/-- the instantiation of the uninterpreted constructors of `S5toPcStep` by the circuit constructors of the model -/
def pcComb (scope : List Nat) (cpt : List (List (List α))) : RTree → List (Circ α × Circ α) → Circ α × Circ α :=
  toPcComb (fun t => scope.getD t.idx 0) (fun v p => Circ.catLeaf v (indicator p)) Circ.mkProd (fun cs w => Circ.mkSum w cs)
    (factorsOf scope cpt)

theorem idxOf_getD (scope : List Nat) (hnd : scope.Nodup) (i : Nat) (hi : i < scope.length) :
    scope.idxOf (scope.getD i 0) = i := by
  have : scope.getD i 0 = scope[i] := by simp [List.getD, hi]
  rw [this]
  exact hnd.idxOf_getElem i hi

/-- **fold_toPc**: the recursive fold of the `to_pc` combine (what the extracted loop computes, `toPcLoop_as_coded`) is the pair
`(Clt.pc … 0, Clt.pc … 1)` of the hand-written unfolding, for a scope without repetitions covering the tree's indices. -/
theorem fold_toPc (scope : List Nat) (cpt : List (List (List α))) (hnd : scope.Nodup) : (t : RTree) →
    (∀ i ∈ t.vars, i < scope.length) →
    fold (pcComb scope cpt) t = (pc scope cpt t 0, pc scope cpt t 1)
  | .node i cs, hlt => by
    have hi : i < scope.length := hlt i (by simp [RTree.vars])
    have ih : ∀ c ∈ cs, fold (pcComb scope cpt) c = (pc scope cpt c 0, pc scope cpt c 1) := fun c hc =>
      fold_toPc scope cpt hnd c (fun j hj => hlt j (vars_child_sub i cs c hc j hj))
    have hmap : cs.map (fold (pcComb scope cpt)) = cs.map (fun c => (pc scope cpt c 0, pc scope cpt c 1)) :=
      List.map_congr_left ih
    rw [fold, hmap]
    simp only [pcComb, toPcComb, RTree.kids, RTree.idx, factorsOf, idxOf_getD scope hnd i hi]
    by_cases hcs : cs.isEmpty = true
    · simp [pc, hcs]
    · have hcs' : cs.isEmpty = false := by simpa using hcs
      simp [pc, hcs', List.map_reverse, Function.comp_def]

end pcfold

/-! ## `get_scopes` -/
section getscopes
variable (getId : RTree → Nat)

/-- state of `get_scopes`: the buffer entry is the list pushed on `scopes_stack`; `scopes` (the log) is carried along -/
def scopeComb (t : RTree) (taken : List (List Nat)) : List Nat :=
  if t.kids.isEmpty then [getId t] else (taken ++ [[getId t]]).flatten

/-- the instrumented combine: the list pushed on `scopes_stack`, together with everything `scopes` received while the sub-tree was
walked (the children's records in the order they were finished, then the node's own merged scope if it is an inner node) -/
def scopeComb2 (t : RTree) (taken : List (List Nat × List (List Nat))) : List Nat × List (List Nat) :=
  (scopeComb getId t (taken.map Prod.fst),
   (taken.map Prod.snd).flatten ++ (if t.kids.isEmpty then [] else [scopeComb getId t (taken.map Prod.fst)]))

/-- the generated state that corresponds to a machine state over the instrumented buffer: `scopes_stack` is the first projection,
`scopes` the concatenation of the records -/
def genOfS (last : Option RTree) (s : St (List Nat × List (List Nat))) : List RTree × Option RTree × List (List Nat) × List (List Nat) :=
  (s.stack, last, s.buf.map Prod.fst, (s.buf.map Prod.snd).flatten)

theorem flatten_take_drop {β : Type} (xs : List (List β)) (n : Nat) : (xs.take n).flatten ++ (xs.drop n).flatten = xs.flatten := by
  rw [← List.flatten_append, List.take_append_drop]

/-- **getScopesStep_as_coded**: one iteration of the EXTRACTED loop of `get_scopes`, run on the projections of a machine state,
gives the projections of `PostOrder.step` (instrumented combine) of that state. -/
theorem getScopesStep_as_coded (s : St (List Nat × List (List Nat))) (last : Option RTree) (hl : last.map RTree.idx = s.last) :
    ∃ last', last'.map RTree.idx = (step (scopeComb2 getId) s).last ∧
      Gen.S5getScopesStep getId isLeaf RTree.kids isIn s.stack last (s.buf.map Prod.fst) ((s.buf.map Prod.snd).flatten) =
        genOfS last' (step (scopeComb2 getId) s) := by
  unfold Gen.S5getScopesStep step genOfS
  cases hs : s.stack.getLast? with
  | none => exact ⟨last, hl, by simp⟩
  | some node =>
    simp only []
    by_cases hleaf : node.kids.isEmpty = true
    · refine ⟨some node, by simp [hleaf], ?_⟩
      simp [isLeaf, hleaf, scopeComb2, scopeComb, hs]
    · have hne : node.kids.length ≠ 0 := by
        intro h; apply hleaf; simpa using h
      have hleaf' : node.kids.isEmpty = false := by simpa using hleaf
      by_cases hin : lastInKids s.last node.kids = true
      · refine ⟨some node, by simp [hleaf', hin], ?_⟩
        have hfl := flatten_take_drop (s.buf.map Prod.snd) (s.buf.length - node.kids.length)
        simp [isLeaf, isIn, hl, hleaf', hin, scopeComb2, scopeComb, hs, suffix_pos _ _ hne, delSuffix_pos _ _ hne,
          List.map_take, List.map_drop, ← List.append_assoc, hfl]
      · have hin' : lastInKids s.last node.kids = false := by simpa using hin
        refine ⟨last, by simp [hleaf', hin', hl], ?_⟩
        simp [isLeaf, isIn, hl, hleaf', hin']

theorem genRunS_sim (n : Nat) (s : St (List Nat × List (List Nat))) (last : Option RTree) (hl : last.map RTree.idx = s.last) :
    ∃ last', last'.map RTree.idx = (run (scopeComb2 getId) n s).last ∧
      genRunS getId n (genOfS last s) = genOfS last' (run (scopeComb2 getId) n s) := by
  induction n generalizing s last with
  | zero => exact ⟨last, hl, rfl⟩
  | succ n ih =>
    obtain ⟨l1, h1, e1⟩ := getScopesStep_as_coded getId s last hl
    obtain ⟨l2, h2, e2⟩ := ih (step (scopeComb2 getId) s) l1 h1
    refine ⟨l2, h2, ?_⟩
    simp only [genRunS, run]
    have : Gen.S5getScopesStep getId isLeaf RTree.kids isIn (genOfS last s).1 (genOfS last s).2.1
        (genOfS last s).2.2.1 (genOfS last s).2.2.2 = genOfS l1 (step (scopeComb2 getId) s) := e1
    rw [this, e2]

/-- **getScopesLoop_as_coded**: the EXTRACTED loop of `get_scopes`, run `2·size` times from `([root], None, [], [])` on a tree
with pairwise distinct node indices, ends with an empty stack, one entry on `scopes_stack` and `scopes` = the record of the fold. -/
theorem getScopesLoop_as_coded (t : RTree) (hnd : t.vars.Nodup) :
    ∃ last', genRunS getId (2 * size t) ([t], none, [], []) =
      ([], last', [(fold (scopeComb2 getId) t).1], (fold (scopeComb2 getId) t).2) := by
  obtain ⟨l, _, e⟩ := genRunS_sim getId (2 * size t) ⟨[t], none, []⟩ none rfl
  have hr := run_eq_fold (scopeComb2 getId) t hnd
  unfold walk at hr
  rw [hr] at e
  refine ⟨l, ?_⟩
  simpa [genOfS] using e

/-- **fold_getScopes**: the fold of the instrumented `get_scopes` combine is (`getScopeTop`, `getScopes`): what `get_scopes` pushes
for a tree node, and the list it returns -/
theorem fold_getScopes (scope : List Nat) : (t : RTree) →
    fold (scopeComb2 (fun t => scope.getD t.idx 0)) t = (getScopeTop scope t, getScopes scope t)
  | .node i cs => by
    have ih : ∀ c ∈ cs, fold (scopeComb2 (fun t => scope.getD t.idx 0)) c = (getScopeTop scope c, getScopes scope c) :=
      fun c hc => fold_getScopes scope c
    rw [fold, List.map_congr_left ih]
    simp only [scopeComb2, scopeComb, RTree.kids, RTree.idx, getScopeTop, getScopes]
    by_cases hcs : cs.isEmpty = true
    · have : cs = [] := by simpa using hcs
      subst this; simp
    · have hcs' : cs.isEmpty = false := by simpa using hcs
      simp [hcs', List.map_reverse, Function.comp_def]

end getscopes

/-- non-vacuity: the extracted loop of `to_pc` on the 4-node example tree of `Lemmas/CltExample.lean` ends with one entry per
buffer, the pair of circuits `Clt.pc` -/
example : ∃ last', genRun (fun t => Clt.Ex.scope.getD t.idx 0) (fun v p => Circ.catLeaf v (indicator p)) Circ.mkProd
      (fun cs w => Circ.mkSum w cs) (factorsOf Clt.Ex.scope Clt.Ex.cpt) (2 * size Clt.Ex.tree)
      ([Clt.Ex.tree], none, [], []) =
    ([], last', [pc Clt.Ex.scope Clt.Ex.cpt Clt.Ex.tree 0], [pc Clt.Ex.scope Clt.Ex.cpt Clt.Ex.tree 1]) := by
  have hnd : Clt.Ex.tree.vars.Nodup := by rw [Clt.Ex.vars_eq]; decide
  obtain ⟨l, h⟩ := toPcLoop_as_coded (fun t => Clt.Ex.scope.getD t.idx 0) (fun v p => Circ.catLeaf v (indicator p)) Circ.mkProd
    (fun cs w => Circ.mkSum w cs) (factorsOf Clt.Ex.scope Clt.Ex.cpt) Clt.Ex.tree hnd
  have hf := fold_toPc Clt.Ex.scope Clt.Ex.cpt (by decide) Clt.Ex.tree
    (by rw [Clt.Ex.vars_eq]; decide)
  unfold pcComb at hf
  rw [hf] at h
  exact ⟨l, h⟩

end Deeprob.Oblig.Struct5
