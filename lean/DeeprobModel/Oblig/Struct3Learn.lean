import DeeprobModel.Generated.Consts
import DeeprobModel.Model.Learn
import Mathlib.Tactic.SplitIfs
import Mathlib.Tactic.Linarith
/-
Third wave, (b) — static tie of `Model/Learn.lean` (`uniqSorted`, `pick`, `slicesOf`, `weightsOf`, `step`, `init`) to
/repo/deeprob/spn/learning/splitting/rows.py (`split_rows_clusters`), …/cols.py (`split_cols_clusters`) and
/repo/deeprob/spn/learning/learnspn.py (`Task`, the operation branches of `learn_spn`) — C05, C04.

`Gen.S3split…` are the loops of the two functions read as maps over `np.unique(clusters)`; `Gen.S3Task` is the
NamedTuple; `Gen.S3learn…` are the `Task(...)` records built by the branches (defaults filled in), the test of the
single-slice branch, the deque method used for the re-queue.  Trusted: `np.unique` = sorted distinct values
(`Gen.Py3.unique`), boolean-mask selection keeps the order (`Gen.Py3.rowsWhere`).
-/
set_option linter.unusedSectionVars false
set_option linter.unusedSimpArgs false
set_option linter.unusedVariables false
namespace Deeprob.Struct3
open Deeprob Deeprob.Learn

/-! ### `split_rows_clusters` / `split_cols_clusters` -/

theorem uinsert_eq (x : Int) (l : List Int) : Gen.Py3.uinsert x l = insertSorted x l := by
  induction l with
  | nil => rfl
  | cons y ys ih => simp only [Gen.Py3.uinsert, insertSorted, ih]

/-- the model's `uniqSorted` is the reading of `np.unique` used by the translator -/
theorem unique_eq_uniqSorted (l : List Int) : Gen.Py3.unique l = uniqSorted l := by
  unfold Gen.Py3.unique uniqSorted
  induction l with
  | nil => rfl
  | cons x xs ih => simp only [List.foldr_cons, ih, uinsert_eq]

/-- `data[clusters == c, :]` is the model's `pick` -/
theorem rowsWhere_eq_pick {β : Type} (labels : List Int) (items : List β) (c : Int) :
    Gen.Py3.rowsWhere items (labels.map (fun a => a == c)) = pick labels items c := by
  unfold Gen.Py3.rowsWhere pick
  induction labels generalizing items with
  | nil => cases items <;> simp
  | cons l ls ih =>
    cases items with
    | nil => simp
    | cons x xs =>
      simp only [List.map_cons, List.zip_cons_cons, List.filter_cons]
      by_cases h : (l == c) = true
      · simp only [h, if_true, List.map_cons, ih]
      · simp only [h, Bool.false_eq_true, if_false, ih]

/-- **`split_rows_clusters`, slices**: one slice per label of `np.unique(clusters)`, in that order, each holding the rows
with that label in data order — the model's `slicesOf` -/
theorem slicesOf_as_coded {β : Type} (labels : List Int) (items : List β) :
    slicesOf labels items = Gen.S3splitRowsSlices items labels := by
  unfold slicesOf Gen.S3splitRowsSlices
  simp only [unique_eq_uniqSorted, rowsWhere_eq_pick]

example : Gen.S3splitRowsSlices [10, 11, 12, 13, 14] [2, 0, 2, -1, 0] = [[13], [11, 14], [10, 12]] ∧
    slicesOf [2, 0, 2, -1, 0] [10, 11, 12, 13, 14] = [[13], [11, 14], [10, 12]] := by
  rw [slicesOf_as_coded]; exact ⟨by decide, by decide⟩

/-- **`split_rows_clusters`, weights**: `len(local_data) / n_samples` with `n_samples = len(data)`, as exact pairs — the
model's `weightsOf` of the slices -/
theorem weightsOf_as_coded (labels : List Int) (rows : List Nat) :
    (weightsOf (slicesOf labels rows) rows.length).map (fun p => ((p.1 : Int), (p.2 : Int)))
      = Gen.S3splitRowsWeights rows labels := by
  unfold weightsOf slicesOf Gen.S3splitRowsWeights
  simp only [unique_eq_uniqSorted, rowsWhere_eq_pick, List.map_map, Function.comp_def]

example : Gen.S3splitRowsWeights [10, 11, 12, 13, 14] [2, 0, 2, -1, 0] = [(1, 5), (2, 5), (2, 5)] ∧
    weightsOf (slicesOf [2, 0, 2, -1, 0] [10, 11, 12, 13, 14]) 5 = [(1, 5), (2, 5), (2, 5)] := ⟨by decide, by decide⟩

/-- **`split_cols_clusters`**: scopes (and column slices) per label of `np.unique(clusters)` — the model's `slicesOf` on
the scope (on the list of columns) -/
theorem colScopes_as_coded {β : Type} (data : List β) (labels : List Int) (scope : List Nat) :
    slicesOf labels scope = Gen.S3splitColsScopes data labels scope ∧
    slicesOf labels data = Gen.S3splitColsSlices data labels scope := by
  unfold slicesOf Gen.S3splitColsScopes Gen.S3splitColsSlices
  simp only [unique_eq_uniqSorted, rowsWhere_eq_pick, and_self]

example : Gen.S3splitColsScopes ["a", "b", "c"] [1, 0, 1] [4, 5, 6] = [[5], [4, 6]] ∧
    Gen.S3splitColsSlices ["a", "b", "c"] [1, 0, 1] [4, 5, 6] = [["b"], ["a", "c"]] := ⟨by decide, by decide⟩

/-! ### `learn_spn`: tasks -/

/-- the model's `Task` as the NamedTuple of the code: `data` is represented by the row ids -/
def toS3 (t : Task) : Gen.S3Task Nat (List Nat) (List Nat) :=
  { parent := t.parent, data := t.rows, scope := t.scope, no_cols_split := t.noColsSplit, no_rows_split := t.noRowsSplit,
    is_first := t.isFirst }

def ofS3 (t : Gen.S3Task Nat (List Nat) (List Nat)) : Task :=
  { parent := t.parent, rows := t.data, scope := t.scope, noColsSplit := t.no_cols_split, noRowsSplit := t.no_rows_split,
    isFirst := t.is_first }

theorem ofS3_toS3 (t : Task) : ofS3 (toS3 t) = t := rfl

/-- the field defaults of the NamedTuple are the defaults of the model's structure -/
theorem task_defaults_as_coded (p : Nat) (r s : List Nat) :
    ofS3 { parent := p, data := r, scope := s } = { parent := p, rows := r, scope := s } := rfl

/-- **initial task, pop side, result** — `tasks.append(Task(tmp_node, data, initial_scope, is_first=True))`,
`task = tasks.popleft()` (the model's `step` takes the head of the list), `root = tmp_node.children[0]` (`rootId`) -/
theorem learn_loop_as_coded (rows scope : List Nat) (script : List Ans) :
    (initOn rows scope script).queue = [ofS3 (Gen.S3learnInitial 0 rows scope)] ∧
    Gen.S3learnPop = "tasks.popleft()" ∧ Gen.S3learnResult = "tmpNode.children[0]" ∧
    Gen.S3learnOps = ["REM_FEATURES", "CREATE_LEAF", "SPLIT_NAIVE", "SPLIT_ROWS", "SPLIT_COLS"] :=
  ⟨rfl, by decide, by decide, by decide⟩

example : (init 3 2 []).queue = [ofS3 (Gen.S3learnInitial 0 [0, 1, 2] [0, 1])] := (learn_loop_as_coded _ _ _).1

/-- **re-queue side**: both single-slice branches use `tasks.appendleft` — the model's `requeue` with `front = true` (the
discipline `Props/C05` proves its invariant for) -/
theorem requeue_side_as_coded (q : List Task) (t : Task) :
    requeue (Gen.S3learnRowsRequeueAt == "appendleft") q t = t :: q ∧
    requeue (Gen.S3learnColsRequeueAt == "appendleft") q t = t :: q := by
  have h1 : (Gen.S3learnRowsRequeueAt == "appendleft") = true := by decide
  have h2 : (Gen.S3learnColsRequeueAt == "appendleft") = true := by decide
  rw [h1, h2]; exact ⟨rfl, rfl⟩

/-- the single-slice test `len(slices) == 1` -/
theorem single_as_coded {D : Type} (sl : List D) :
    (Gen.S3learnRowsSingle sl = true ↔ sl.length = 1) ∧ (Gen.S3learnColsSingle sl = true ↔ sl.length = 1) := by
  unfold Gen.S3learnRowsSingle Gen.S3learnColsSingle
  constructor <;> (simp only [beq_iff_eq]; omega)

/-- **SPLIT_ROWS as coded**: on a rows answer of the right length the model's `step` re-queues, with the deque method of
the configuration (`requeue_side_as_coded`: the source uses `appendleft`, the model's `front = true`), exactly the record `Task(task.parent, task.data, task.scope, no_cols_split=False,
no_rows_split=True)` when `split_rows_clusters` returns one slice; otherwise it creates the sum node with the coded
weights, pushes `Task(node, local_data, task.scope)` per slice in order at the back, and attaches the node to the parent -/
theorem step_splitRows_as_coded (cfg : Cfg) (s : St) (t : Task) (q : List Task) (pos : List Nat) (labels : List Int)
    (sc' : List Ans) (hq : s.queue = t :: q) (hs : s.script = .zeroVar pos :: .rows labels :: sc')
    (hpos : pos.any (fun i => decide (t.scope.length ≤ i)) = false)
    (hop : selectOp cfg t (zvMask pos t.scope.length) = .splitRows) (hl : labels.length = t.rows.length) :
    step cfg s =
      (let slices := Gen.S3splitRowsSlices t.rows labels
       if Gen.S3learnRowsSingle slices then
         .ok { s with queue := requeue cfg.front q (ofS3 (Gen.S3learnRowsRequeue (toS3 t))), script := sc' }
       else
         .ok (attach s t q sc'
           { kind := .sum, scope := t.scope, rows := t.rows, weights := weightsOf slices t.rows.length, parts := slices } none
           ((Gen.S3learnRowsSubtasks (toS3 t) s.size slices).map ofS3))) ∧
    Gen.S3learnRowsNodeClass = "Sum" := by
  refine ⟨?_, by decide⟩
  unfold step
  rw [hq, hs]
  simp only [hpos, Bool.false_eq_true, if_false, hop, hl, ne_eq, not_true_eq_false, ← slicesOf_as_coded]
  by_cases h1 : (slicesOf labels t.rows).length = 1
  · have h2 := (single_as_coded (slicesOf labels t.rows)).1.2 h1
    simp only [h1, h2, if_true]
    rfl
  · have h2 : Gen.S3learnRowsSingle (slicesOf labels t.rows) = false := by
      cases h : Gen.S3learnRowsSingle (slicesOf labels t.rows)
      · rfl
      · exact absurd ((single_as_coded _).1.1 h) h1
    simp only [h1, h2, if_false, Bool.false_eq_true]
    congr 2
    unfold Gen.S3learnRowsSubtasks
    simp only [List.map_map, Function.comp_def]
    rfl

/-- **SPLIT_COLS as coded**: the re-queued record is `Task(task.parent, task.data, task.scope, no_cols_split=True,
no_rows_split=False)`; otherwise a product node, and `Task(node, local_data, scopes[i])` per slice (the data slice of the
model is the unchanged row-id list: `data[:, cols]` keeps every row) -/
theorem step_splitCols_as_coded (cfg : Cfg) (s : St) (t : Task) (q : List Task) (pos : List Nat) (labels : List Int)
    (sc' : List Ans) (hq : s.queue = t :: q) (hs : s.script = .zeroVar pos :: .cols labels :: sc')
    (hpos : pos.any (fun i => decide (t.scope.length ≤ i)) = false)
    (hop : selectOp cfg t (zvMask pos t.scope.length) = .splitCols) (hl : labels.length = t.scope.length) :
    step cfg s =
      (let scopes := Gen.S3splitColsScopes t.scope labels t.scope
       if Gen.S3learnColsSingle scopes then
         .ok { s with queue := requeue cfg.front q (ofS3 (Gen.S3learnColsRequeue (toS3 t))), script := sc' }
       else
         .ok (attach s t q sc' { kind := .prod, scope := t.scope, rows := t.rows, parts := scopes } none
           ((Gen.S3learnColsSubtasks (toS3 t) s.size (scopes.map (fun _ => t.rows)) scopes).map ofS3))) ∧
    Gen.S3learnColsNodeClass = "Product" := by
  refine ⟨?_, by decide⟩
  unfold step
  rw [hq, hs]
  simp only [hpos, Bool.false_eq_true, if_false, hop, hl, ne_eq, not_true_eq_false, ← (colScopes_as_coded t.scope labels t.scope).1]
  by_cases h1 : (slicesOf labels t.scope).length = 1
  · have h2 := (single_as_coded (slicesOf labels t.scope)).2.2 h1
    simp only [h1, h2, if_true]
    rfl
  · have h2 : Gen.S3learnColsSingle (slicesOf labels t.scope) = false := by
      cases h : Gen.S3learnColsSingle (slicesOf labels t.scope)
      · rfl
      · exact absurd ((single_as_coded _).2.1 h) h1
    simp only [h1, h2, if_false, Bool.false_eq_true]
    congr 2
    unfold Gen.S3learnColsSubtasks
    generalize slicesOf labels t.scope = sl
    apply List.ext_getElem
    · simp
    · intro i h1 h2
      have hi : i < sl.length := by simpa using h1
      simp [ofS3, toS3, List.getElem_zipIdx, List.getD_eq_getElem?_getD, List.getElem?_eq_getElem hi]

/-- **REM_FEATURES as coded**: the pushed task is `Task(node, task.data[:, ~mask], oth_scope, is_first = task.is_first and
len(tasks) == 0)` (rows unchanged), `CREATE_LEAF` / `SPLIT_NAIVE` push nothing -/
theorem step_remFeatures_as_coded (cfg : Cfg) (s : St) (t : Task) (q : List Task) (pos : List Nat) (sc : List Ans)
    (hq : s.queue = t :: q) (hs : s.script = .zeroVar pos :: sc)
    (hpos : pos.any (fun i => decide (t.scope.length ≤ i)) = false)
    (hop : selectOp cfg t (zvMask pos t.scope.length) = .remFeatures) :
    step cfg s =
      (let zv := zvMask pos t.scope.length
       .ok (attach s t q sc
         { kind := .prod, scope := t.scope, rows := t.rows, children := [s.size + 1],
           parts := [selectBy zv t.scope true, selectBy zv t.scope false] }
         (some { kind := .naive, scope := selectBy zv t.scope true, rows := t.rows })
         [ofS3 (Gen.S3learnRemSubtask (toS3 t) (q.map toS3) s.size t.rows (selectBy zv t.scope false))])) ∧
    Gen.S3learnLeaf = ("learn_leaf_func", "task.data", "task.scope", "task.parent") ∧
    Gen.S3learnNaive = ("learn_naive_factorization", "task.data", "task.scope", "task.parent") := by
  refine ⟨?_, by decide, by decide⟩
  unfold step
  rw [hq, hs]
  simp only [hpos, Bool.false_eq_true, if_false, hop]
  congr 3
  unfold Gen.S3learnRemSubtask ofS3 toS3
  cases q with
  | nil => simp
  | cons a b => simp; intro _; omega

/-- non-vacuity: a concrete state in which the rows answer splits 4 rows into slices of sizes 1 and 3 -/
example :
    step { minRows := 1, minCols := 1, front := true }
        { nodes := [{ kind := .prod, scope := [0, 1], rows := [0, 1, 2, 3], parts := [[0, 1]] }],
          queue := [{ parent := 0, rows := [0, 1, 2, 3], scope := [0, 1], isFirst := true }],
          script := [.zeroVar [], .rows [5, 2, 5, 5]] }
      = .ok { nodes := [{ kind := .prod, scope := [0, 1], rows := [0, 1, 2, 3], children := [1], parts := [[0, 1]] },
                        { kind := .sum, scope := [0, 1], rows := [0, 1, 2, 3], weights := [(1, 4), (3, 4)], parts := [[1], [0, 2, 3]] }],
              queue := (Gen.S3learnRowsSubtasks (toS3 { parent := 0, rows := [0, 1, 2, 3], scope := [0, 1], isFirst := true }) 1
                          (Gen.S3splitRowsSlices [0, 1, 2, 3] [5, 2, 5, 5])).map ofS3,
              script := [] } := by
  decide

end Deeprob.Struct3
