import DeeprobModel.Generated.Consts
import DeeprobModel.Model.Rewrite
import DeeprobModel.Model.RewriteNet
import DeeprobModel.Model.RewriteNetClt
import Mathlib.Tactic.SplitIfs
import Mathlib.Tactic.Linarith
/-
Fourth wave, (c) — static tie of `Model/RewriteNet.lean` (`margStepNet`, `margNode`, `marginalizeNetWith`) and
`Model/Rewrite.lean` (`margStep`, `margProd`, `margSum`) to the BODY of the pass of
/repo/deeprob/spn/algorithms/structure.py `marginalize` (only its argument guards were extracted before) — C10.

`Gen.S4margStep` is the loop body read from the current AST: per node kind, what `nodes_map[node.id]` becomes
(`Gen.S4MargOut`).  Nodes are table indices (`N := Nat`, `nid := id`), as in the net-level model.
-/
set_option linter.unusedSectionVars false
set_option linter.unusedSimpArgs false
set_option linter.unusedVariables false
namespace Deeprob.Struct4
open Deeprob Deeprob.Net

variable {α : Type}

/-- the model's reading of an outcome of the generated step for the node object `x` stored at index `i`:
(the node object after the iteration, `nodes_map[node.id]`) -/
def outOf (x : NNode α) (i : Nat) : Gen.S4MargOut Nat → Option (NNode α × Option Nat)
  | .drop => some (x, none)
  | .replace n => some (x, some n)
  | .rewrite sc ch => some ({ x with scope := sc, ch := ch }, some i)
  | .viaPc _ => none
  | .raises _ => none

/-- the attribute readings of the objects during the pass: the node being processed is `x` (index `i`), every other index
reads the already processed (possibly mutated) object of the table `t` -/
def scopeNow (t : Net α) (i : Nat) (x : NNode α) (j : Nat) : List Nat := if j = i then x.scope else scopeAt t j

/-- **one iteration of the pass as coded (single-variable leaves and inner nodes)**: on a node that is not a Chow-Liu leaf
and, if a leaf, has exactly one variable, the body extracted from the source does to `nodes_map[node.id]` and to the node
object exactly what the model's `margStepNet` does: a leaf is kept iff `node.scope[0] in keep_scope`; an inner node whose
children were all dropped is dropped, with one surviving child it is replaced by that child, otherwise its `.children`
become the surviving children and its `.scope` their concatenated scopes (Product) or the first child's scope (Sum);
weights are untouched.  `rep` = `nodes_map` by index, the replacements never point at the node itself. -/
theorem margStep_as_coded (keep : List Nat) (t : Net α) (rep : List (Option Nat)) (i : Nat) (x : NNode α)
    (hleaf : x.kind = .leaf → x.scope.length = 1)
    (hrep : ∀ c ∈ x.ch, rep.getD c none ≠ some i) :
    outOf x i (Gen.S4margStep (fun _ => decide (x.kind = .leaf)) (fun _ => false) (fun _ => decide (x.kind = .prod))
        (fun _ => decide (x.kind = .sum)) (fun j => j) (scopeNow t i x) (fun _ => x.ch) (fun c => rep.getD c none) keep i)
      = some (margStepNet keep t rep i x) := by
  unfold Gen.S4margStep margStepNet
  by_cases hk : x.kind = .leaf
  · have h1 := hleaf hk
    have hs : scopeNow t i x i = x.scope := by simp [scopeNow]
    simp only [hk, decide_true, if_true, Bool.false_eq_true, if_false, hs, h1]
    have hhd : x.scope.getD 0 0 = x.scope.headD 0 := by
      cases x.scope <;> rfl
    rw [hhd]
    by_cases hc : keep.contains (x.scope.headD 0) = true
    · simp only [hc, if_true, outOf]; simp [outOf]
    · simp only [hc, Bool.false_eq_true, if_false, outOf]; simp [outOf]
  · simp only [hk, decide_false, Bool.false_eq_true, if_false]
    generalize hcn : x.ch.filterMap (fun c => rep.getD c none) = cn
    have hne : ∀ c ∈ cn, c ≠ i := by
      intro c hc heq
      rw [← hcn] at hc
      obtain ⟨d, hd, he⟩ := List.mem_filterMap.1 hc
      exact hrep d hd (by rw [he, heq])
    have hsc : ∀ c ∈ cn, scopeNow t i x c = scopeAt t c := fun c hc => by simp [scopeNow, hne c hc]
    match cn, hne, hsc with
    | [], _, _ => simp [margNode, outOf]
    | [c], _, _ => simp [margNode, outOf]
    | c0 :: c1 :: r, hne, hsc =>
      have hlen : ¬ (((c0 :: c1 :: r).length : Nat) : Int) = 1 := by simp; omega
      have hmap : (c0 :: c1 :: r).map (scopeNow t i x) = (c0 :: c1 :: r).map (scopeAt t) :=
        List.map_congr_left hsc
      have h0 : scopeNow t i x c0 = scopeAt t c0 := hsc c0 (by simp)
      cases hkind : x.kind with
      | leaf => exact absurd hkind hk
      | prod =>
        simp only [margNode, hkind, decide_true, if_true, List.isEmpty_cons, Bool.not_false, Bool.not_true,
          Bool.false_eq_true, if_false, beq_iff_eq, hlen, outOf, hmap]
      | sum =>
        simp only [margNode, hkind, decide_true, decide_false, if_true, List.isEmpty_cons, Bool.not_false, Bool.not_true,
          Bool.false_eq_true, if_false, beq_iff_eq, hlen, outOf, reduceCtorEq]
        simp [h0]

/-- non-vacuity: a product over three children of which the middle one was dropped and the first one replaced -/
example :
    let t : Net ℚ := [{ id := 0, kind := .leaf, scope := [4], ch := [], ws := [], leaf := .absent },
                      { id := 1, kind := .leaf, scope := [5], ch := [], ws := [], leaf := .absent },
                      { id := 2, kind := .leaf, scope := [6], ch := [], ws := [], leaf := .absent }]
    let x : NNode ℚ := { id := 3, kind := .prod, scope := [4, 5, 6], ch := [0, 1, 2], ws := [], leaf := .absent }
    (margStepNet [4, 6] t [some 0, none, some 2] 3 x).2 = some 3 ∧
    (margStepNet [4, 6] t [some 0, none, some 2] 3 x).1.scope = [4, 6] ∧
    (margStepNet [4, 6] t [some 0, none, some 2] 3 x).1.ch = [0, 2] := by
  refine ⟨by decide, by decide, by decide⟩

/-- … and the same node through the theorem: the generated body yields the model's step -/
example :
    let t : Net ℚ := [{ id := 0, kind := .leaf, scope := [4], ch := [], ws := [], leaf := .absent },
                      { id := 1, kind := .leaf, scope := [5], ch := [], ws := [], leaf := .absent },
                      { id := 2, kind := .leaf, scope := [6], ch := [], ws := [], leaf := .absent }]
    let x : NNode ℚ := { id := 3, kind := .prod, scope := [4, 5, 6], ch := [0, 1, 2], ws := [], leaf := .absent }
    outOf x 3 (Gen.S4margStep (fun _ => decide (x.kind = .leaf)) (fun _ => false) (fun _ => decide (x.kind = .prod))
        (fun _ => decide (x.kind = .sum)) (fun j => j) (scopeNow t 3 x) (fun _ => x.ch) (fun c => [some 0, none, some 2].getD c none) [4, 6] 3)
      = some (margStepNet [4, 6] t [some 0, none, some 2] 3 x) :=
  margStep_as_coded [4, 6] _ [some 0, none, some 2] 3 _ (by decide) (by decide)

/-- **multivariate leaves as coded**: a Chow-Liu leaf is handed to `marginalize(node.to_pc(), clt_scope, copy=False)` with
`clt_scope` = the kept variables that occur in its scope (as a set), or dropped when there is none; any other leaf over
several variables raises `NotImplementedError` (the model's `margUnsupported … = some "multivariate"`) -/
theorem margStep_leaves_as_coded {N : Type} [Inhabited N] (isProduct isSum : N → Bool) (nid : N → Nat) (scope : N → List Nat)
    (children : N → List N) (nodesMap : Nat → Option N) (keep : List Nat) (node : N) (clt : Bool) :
    Gen.S4margStep (fun _ => true) (fun _ => clt) isProduct isSum nid scope children nodesMap keep node =
      (if clt then
         (if (keep.filter (fun v => (scope node).contains v)).isEmpty then .drop
          else .viaPc (keep.filter (fun v => (scope node).contains v)))
       else if (scope node).length = 1 then (if keep.contains ((scope node).getD 0 0) then .replace node else .drop)
       else .raises "NotImplementedError") := by
  unfold Gen.S4margStep
  cases clt
  · simp only [if_true, Bool.false_eq_true, if_false, beq_iff_eq]
    by_cases h : (scope node).length = 1
    · simp [h]
    · have : ¬ (((scope node).length : Nat) : Int) = 1 := by omega
      simp [h, this]
  · simp only [if_true]
    cases (keep.filter (fun v => (scope node).contains v)).isEmpty <;> simp

example :
    Gen.S4margStep (N := Nat) (fun _ => true) (fun _ => true) (fun _ => false) (fun _ => false) (fun j => j) (fun _ => [3, 5, 8])
      (fun _ => []) (fun _ => none) [8, 1, 3] 0 = .viaPc [8, 3] := by
  decide

/-! ### the whole pass -/

/-- one iteration of the pass driven by the GENERATED body (an outcome the net-level model does not cover — Chow-Liu leaf,
`raise` — leaves the node and drops it) -/
def genStep (keep : List Nat) (st : Net α × List (Option Nat)) (x : NNode α) : Net α × List (Option Nat) :=
  let i := st.1.length
  match outOf x i (Gen.S4margStep (fun _ => decide (x.kind = .leaf)) (fun _ => false) (fun _ => decide (x.kind = .prod))
      (fun _ => decide (x.kind = .sum)) (fun j => j) (scopeNow st.1 i x) (fun _ => x.ch) (fun c => st.2.getD c none) keep i) with
  | some r => (st.1 ++ [r.1], st.2 ++ [r.2])
  | none => (st.1 ++ [x], st.2 ++ [none])

/-- the pass over the table in storage order with the generated body -/
def margPassGen (keep : List Nat) (net : Net α) : Net α × List (Option Nat) := net.foldl (genStep keep) ([], [])

theorem margStepNet_bound (keep : List Nat) (t : Net α) (rep : List (Option Nat)) (i : Nat) (x : NNode α)
    (hrep : ∀ c r, rep.getD c none = some r → r < i) :
    ∀ r, (margStepNet keep t rep i x).2 = some r → r < i + 1 := by
  intro r hr
  unfold margStepNet at hr
  by_cases hk : x.kind = .leaf
  · simp only [hk, if_true] at hr
    split at hr
    · have : r = i := by simpa using hr.symm
      omega
    · simp at hr
  · simp only [hk, if_false] at hr
    generalize hcn : x.ch.filterMap (fun c => rep.getD c none) = cn at hr
    have hlt : ∀ c ∈ cn, c < i := by
      intro c hc
      rw [← hcn] at hc
      obtain ⟨d, _, he⟩ := List.mem_filterMap.1 hc
      exact hrep d c he
    match cn, hlt with
    | [], _ => simp [margNode] at hr
    | [c], hlt =>
      have : r = c := by simpa [margNode] using hr.symm
      have := hlt c (by simp)
      omega
    | c0 :: c1 :: rest, _ =>
      have : r = i := by simpa [margNode] using hr.symm
      omega

/-- **the whole first pass of `marginalize` as coded** (tables stored children-first, single-variable leaves, no Chow-Liu
leaf — the domain of `marginalizeNet`): folding the table with the body extracted from the source gives the model's
`margPass`: the same mutated node objects and the same `nodes_map` -/
theorem margPass_as_coded (keep : List Nat) (net : Net α)
    (hwo : ∀ (i : Nat) (x : NNode α), net[i]? = some x → (∀ c ∈ x.ch, c < i) ∧ (x.kind = Kind.leaf → x.scope.length = 1)) :
    margPassGen keep net = margPass keep net := by
  unfold margPassGen margPass
  suffices h : ∀ (suf pre : List (NNode α)) (st : Net α × List (Option Nat)), net = pre ++ suf → st.1.length = pre.length →
      (∀ c r, st.2.getD c none = some r → r < st.1.length) →
      List.foldl (genStep keep) st suf =
        List.foldl (fun (st : Net α × List (Option Nat)) x =>
          let r := margStepNet keep st.1 st.2 st.1.length x
          (st.1 ++ [r.1], st.2 ++ [r.2])) st suf from
    h net [] ([], []) rfl rfl (by intro c r hr; simp at hr)
  intro suf
  induction suf with
  | nil => intro pre st _ _ _; rfl
  | cons x xs ih =>
    intro pre st hnet hlen hb
    have hx : net[pre.length]? = some x := by rw [hnet]; simp
    obtain ⟨hch, hleaf⟩ := hwo pre.length x hx
    have hrep : ∀ c ∈ x.ch, st.2.getD c none ≠ some st.1.length := by
      intro c hc heq
      have := hb c _ heq
      omega
    have hstep : genStep keep st x =
        (st.1 ++ [(margStepNet keep st.1 st.2 st.1.length x).1], st.2 ++ [(margStepNet keep st.1 st.2 st.1.length x).2]) := by
      unfold genStep
      simp only [margStep_as_coded keep st.1 st.2 st.1.length x hleaf hrep]
    simp only [List.foldl_cons, hstep]
    apply ih (pre ++ [x])
    · rw [hnet]; simp
    · simp [hlen]
    · intro c r hr
      simp only [List.length_append, List.length_cons, List.length_nil]
      by_cases hc : c < st.2.length
      · rw [List.getD_eq_getElem?_getD, List.getElem?_append_left hc] at hr
        have := hb c r (by rw [List.getD_eq_getElem?_getD]; exact hr)
        omega
      · by_cases hc2 : c = st.2.length
        · subst hc2
          rw [List.getD_eq_getElem?_getD, List.getElem?_append_right (le_refl _)] at hr
          simp only [Nat.sub_self, List.getElem?_cons_zero, Option.getD_some] at hr
          exact margStepNet_bound keep st.1 st.2 st.1.length x hb r hr
        · rw [List.getD_eq_getElem?_getD, List.getElem?_eq_none (by simp; omega)] at hr
          simp at hr

/-- non-vacuity: the table of the example above (three leaves and a product) -/
example :
    let net : Net ℚ := [{ id := 0, kind := .leaf, scope := [4], ch := [], ws := [], leaf := .absent },
                        { id := 1, kind := .leaf, scope := [5], ch := [], ws := [], leaf := .absent },
                        { id := 2, kind := .leaf, scope := [6], ch := [], ws := [], leaf := .absent },
                        { id := 3, kind := .prod, scope := [4, 5, 6], ch := [0, 1, 2], ws := [], leaf := .absent }]
    (margPassGen [4, 6] net).2 = [some 0, none, some 2, some 3] ∧ (margPass [4, 6] net).2 = [some 0, none, some 2, some 3] := by
  refine ⟨by decide, by decide⟩

/-- the steps around the loop: optional deep copy, `check_spn(labeled, smooth, decomposable)`, `topological_order`, the
DAG test, the identity `nodes_map`, the pass over `reversed(nodes)`, `assign_ids(nodes_map[root.id])`, then
`prune(root, copy=False)` — the order in which `marginalizeNetWith` composes `margPass` and `pruneNetWith` -/
theorem margSteps_as_coded :
    Gen.S4margSteps = ["copy", "check", "order", "dag", "map", "loop", "assign_ids", "prune"] := by decide

/-- the tree-level model makes the same three-way decision on the surviving children (`margProd` / `margSum`) -/
theorem margTree_shape (ws : List α) (cs : List (Circ α)) :
    (cs = [] → Circ.margProd cs = none ∧ Circ.margSum ws cs = none) ∧
    (∀ c, cs = [c] → Circ.margProd cs = some c ∧ Circ.margSum ws cs = some c) ∧
    (∀ c d r, cs = c :: d :: r → Circ.margProd cs = some (.prod (cs.map Circ.scope).flatten cs) ∧
        Circ.margSum ws cs = some (.sum (Circ.scope c) ws cs)) := by
  refine ⟨?_, ?_, ?_⟩
  · rintro rfl; exact ⟨rfl, rfl⟩
  · rintro c rfl; exact ⟨rfl, rfl⟩
  · rintro c d r rfl; exact ⟨rfl, rfl⟩

end Deeprob.Struct4
