import DeeprobModel.Generated.Formulas
import DeeprobModel.Model.Em
import Mathlib.Algebra.Order.Field.Basic
import Mathlib.Tactic.Ring
import Mathlib.Tactic.Linarith
import Mathlib.Tactic.FieldSimp
import Mathlib.Tactic.NormNum
import Mathlib.Tactic.Positivity
set_option linter.unusedSimpArgs false
set_option linter.unusedVariables false
set_option linter.unusedSectionVars false
set_option linter.unnecessarySeqFocus false
/-
C14 — obligations about the GENERATED per-entry EM updates (`Sum/Bernoulli/Categorical/Gaussian/BinaryCLT.em_step`),
over any linearly ordered field. Statistics are the batch sums the code takes (`np.sum(stats…)`); the only facts
used about them are the ones derived below from their definitions as weighted sums (weights ≥ 0, data in {0,1}
or in the category range).
-/
namespace Deeprob.Oblig.C14
open Deeprob
variable {F : Type} [Field F] [LinearOrder F] [IsStrictOrderedRing F]

/-- the batch-EM update rule: `(1 − η)·old + η·reestimate` -/
def emMix (eta old new : F) : F := (1 - eta) * old + eta * new

/-! ### each update is the convex combination `(1−η)·old + η·reestimate` -/

theorem sum_is_convex_update (eta w s Z : F) :
    Gen.sumEmNew eta w s Z = emMix eta w (Gen.sumEmUnnorm w s / Z) := rfl

theorem bernoulli_is_convex_update (eta p S1 T : F) :
    Gen.bernEmNew eta p S1 T = emMix eta p (Gen.bernEmReest S1 T) := rfl

theorem categorical_is_convex_update (eta p Sd T K : F) :
    Gen.catEmNew eta p Sd T K = emMix eta p (Gen.catEmReest Sd T K) := rfl

theorem gaussian_mean_is_convex_update (eta mu Sx T : F) :
    Gen.gaussEmMeanNew eta mu Sx T = emMix eta mu (Gen.gaussEmMeanReest Sx T) := rfl

theorem gaussian_std_is_convex_update (E : ExpLog F) (eta sigma V T : F) :
    Gen.gaussEmStdNew E eta sigma V T = emMix eta sigma (Gen.gaussEmClamp (E.sqrt (Gen.gaussEmStdArg V T))) := rfl

/-- the sqrt-free halves used by the driver compose to the coded formula -/
theorem gaussian_std_split (E : ExpLog F) (eta sigma V T : F) :
    Gen.gaussEmStdNew E eta sigma V T = Gen.gaussEmStdOf eta sigma (E.sqrt (Gen.gaussEmStdArg V T)) := rfl

/-- CLT: convex combination, then division by the row sum -/
theorem clt_is_convex_update (eta old q Z : F) : Gen.cltEmNew eta old q Z = emMix eta old q / Z := rfl

/-- the re-estimates are the smoothed expected-statistics ratios (smoothing constants: float16 eps = 2⁻¹⁰ for the
leaves, float32 eps = 2⁻²³ for sum weights and the Gaussian total) -/
theorem reestimates (w s S1 Sd T K Sx P C Pp : F) :
    Gen.sumEmUnnorm w s = w * s + 1 / 2 ^ 23 ∧
    Gen.bernEmReest S1 T = (S1 + 1 / 2 ^ 10) / (T + 2 * (1 / 2 ^ 10)) ∧
    Gen.catEmReest Sd T K = (Sd + 1 / 2 ^ 10) / (T + K * (1 / 2 ^ 10)) ∧
    Gen.gaussEmMeanReest Sx T = Sx / (T + 1 / 2 ^ 23) ∧
    Gen.cltEmPrior1 P T = (P + 2 * (1 / 2 ^ 10)) / (T + 4 * (1 / 2 ^ 10)) ∧
    Gen.cltEmPrior0 P T = 1 - Gen.cltEmPrior1 P T ∧
    Gen.cltEmCell1 C T Pp = (C + 1 / 2 ^ 10) / (T * Pp + 4 * (1 / 2 ^ 10)) ∧
    Gen.cltEmCell0 C T Pp = 1 - Gen.cltEmCell1 C T Pp := by
  refine ⟨?_, ?_, ?_, ?_, ?_, rfl, ?_, rfl⟩ <;>
    simp only [Gen.sumEmUnnorm, Gen.bernEmReest, Gen.catEmReest, Gen.gaussEmMeanReest, Gen.cltEmPrior1,
      Gen.cltEmCell1] <;> norm_num

/-! ### convex combinations stay in range -/

theorem emMix_ge (eta old new a : F) (h0 : 0 ≤ eta) (h1 : eta ≤ 1) (ho : a ≤ old) (hn : a ≤ new) :
    a ≤ emMix eta old new := by
  unfold emMix
  have h2 : 0 ≤ 1 - eta := by linarith
  nlinarith [mul_nonneg h2 (sub_nonneg.2 ho), mul_nonneg h0 (sub_nonneg.2 hn)]

theorem emMix_le (eta old new a : F) (h0 : 0 ≤ eta) (h1 : eta ≤ 1) (ho : old ≤ a) (hn : new ≤ a) :
    emMix eta old new ≤ a := by
  unfold emMix
  have h2 : 0 ≤ 1 - eta := by linarith
  nlinarith [mul_nonneg h2 (sub_nonneg.2 ho), mul_nonneg h0 (sub_nonneg.2 hn)]

theorem emMix_gt (eta old new a : F) (h0 : 0 < eta) (h1 : eta ≤ 1) (ho : a ≤ old) (hn : a < new) :
    a < emMix eta old new := by
  unfold emMix
  have h2 : 0 ≤ 1 - eta := by linarith
  nlinarith [mul_nonneg h2 (sub_nonneg.2 ho), mul_pos h0 (sub_pos.2 hn)]

theorem emMix_lt (eta old new a : F) (h0 : 0 < eta) (h1 : eta ≤ 1) (ho : old ≤ a) (hn : new < a) :
    emMix eta old new < a := by
  unfold emMix
  have h2 : 0 ≤ 1 - eta := by linarith
  nlinarith [mul_nonneg h2 (sub_nonneg.2 ho), mul_pos h0 (sub_pos.2 hn)]

/-- strict version that does not need `η > 0`: both ends strictly inside -/
theorem emMix_gt' (eta old new a : F) (h0 : 0 ≤ eta) (h1 : eta ≤ 1) (ho : a < old) (hn : a < new) :
    a < emMix eta old new := by
  unfold emMix
  rcases eq_or_lt_of_le h0 with h | h
  · subst h; simpa using ho
  · have h2 : 0 ≤ 1 - eta := by linarith
    nlinarith [mul_nonneg h2 (le_of_lt (sub_pos.2 ho)), mul_pos h (sub_pos.2 hn)]

theorem emMix_lt' (eta old new a : F) (h0 : 0 ≤ eta) (h1 : eta ≤ 1) (ho : old < a) (hn : new < a) :
    emMix eta old new < a := by
  unfold emMix
  rcases eq_or_lt_of_le h0 with h | h
  · subst h; simpa using ho
  · have h2 : 0 ≤ 1 - eta := by linarith
    nlinarith [mul_nonneg h2 (le_of_lt (sub_pos.2 ho)), mul_pos h (sub_pos.2 hn)]

/-! ### list algebra -/

theorem tsum_nonneg (xs : List F) (h : ∀ x ∈ xs, 0 ≤ x) : 0 ≤ tsum xs := by
  induction xs with
  | nil => simp [tsum]
  | cons x xs ih =>
    simp only [tsum]
    have := h x List.mem_cons_self
    have := ih (fun y hy => h y (List.mem_cons_of_mem _ hy))
    linarith

theorem tsum_pos (xs : List F) (hne : xs ≠ []) (h : ∀ x ∈ xs, 0 < x) : 0 < tsum xs := by
  cases xs with
  | nil => exact absurd rfl hne
  | cons x xs =>
    simp only [tsum]
    have := h x List.mem_cons_self
    have := tsum_nonneg xs (fun y hy => le_of_lt (h y (List.mem_cons_of_mem _ hy)))
    linarith

theorem forall_zipWith {β γ δ : Type} (f : β → γ → δ) (P : δ → Prop) (as : List β) (bs : List γ)
    (h : ∀ a ∈ as, ∀ b ∈ bs, P (f a b)) : ∀ x ∈ List.zipWith f as bs, P x := by
  induction as generalizing bs with
  | nil => simp
  | cons a as ih =>
    cases bs with
    | nil => simp
    | cons b bs =>
      intro x hx
      simp only [List.zipWith_cons_cons, List.mem_cons] at hx
      rcases hx with rfl | hx
      · exact h a List.mem_cons_self b List.mem_cons_self
      · exact ih bs (fun a' ha' b' hb' => h a' (List.mem_cons_of_mem _ ha') b' (List.mem_cons_of_mem _ hb')) x hx

theorem tsum_zipWith_affine (c d : F) (g : F → F → F) (ws ss : List F) (hlen : ws.length = ss.length) :
    tsum (List.zipWith (fun w s => c * w + d * g w s) ws ss) = c * tsum ws + d * tsum (List.zipWith g ws ss) := by
  induction ws generalizing ss with
  | nil => simp [tsum]
  | cons w ws ih =>
    cases ss with
    | nil => simp at hlen
    | cons s ss =>
      simp only [List.zipWith_cons_cons, tsum]
      rw [ih ss (by simpa using hlen)]; ring

theorem tsum_map_div (xs : List F) (d : F) : tsum (xs.map (fun s => s / d)) = tsum xs / d := by
  induction xs with
  | nil => simp [tsum]
  | cons x xs ih => simp only [List.map_cons, tsum, ih]; ring

theorem natC_eq_cast (n : Nat) : (natC n : F) = (n : F) := by
  induction n with
  | zero => simp [natC]
  | succ n ih => simp [natC, ih]

/-! ### Sum.em_step -/

theorem sumEmUnnorm_pos (w s : F) (hw : 0 ≤ w) (hs : 0 ≤ s) : 0 < Gen.sumEmUnnorm w s := by
  unfold Gen.sumEmUnnorm
  have := mul_nonneg hw hs
  have h : (0 : F) < 1 / 8388608 := by norm_num
  linarith

/-- **sum_em_simplex**: old weights on the simplex, statistics ≥ 0, 0 ≤ η ≤ 1 ⇒ same number of weights, all
≥ 0 (> 0 as soon as η > 0), and they sum to one. -/
theorem sum_em_simplex (eta : F) (ws ss : List F) (hlen : ws.length = ss.length) (hne : ws ≠ [])
    (hw : ∀ w ∈ ws, 0 ≤ w) (hsum : tsum ws = 1) (hs : ∀ s ∈ ss, 0 ≤ s) (h0 : 0 ≤ eta) (h1 : eta ≤ 1) :
    (sumStepWith Gen.sumEmUnnorm Gen.sumEmNew eta ws ss).length = ws.length ∧
    (∀ w ∈ sumStepWith Gen.sumEmUnnorm Gen.sumEmNew eta ws ss, 0 ≤ w) ∧
    (0 < eta → ∀ w ∈ sumStepWith Gen.sumEmUnnorm Gen.sumEmNew eta ws ss, 0 < w) ∧
    tsum (sumStepWith Gen.sumEmUnnorm Gen.sumEmNew eta ws ss) = 1 := by
  have hus : ∀ u ∈ List.zipWith Gen.sumEmUnnorm ws ss, 0 < u :=
    forall_zipWith _ (fun u => 0 < u) ws ss (fun w hw' s hs' => sumEmUnnorm_pos w s (hw w hw') (hs s hs'))
  have hune : List.zipWith Gen.sumEmUnnorm ws ss ≠ [] := by
    intro h
    have : (List.zipWith Gen.sumEmUnnorm ws ss).length = 0 := by rw [h]; rfl
    rw [List.length_zipWith, ← hlen, Nat.min_self] at this
    exact hne (List.length_eq_zero_iff.1 this)
  have hZ : 0 < tsum (List.zipWith Gen.sumEmUnnorm ws ss) := tsum_pos _ hune hus
  unfold sumStepWith
  refine ⟨by simp [List.length_zipWith, hlen], ?_, ?_, ?_⟩
  · apply forall_zipWith
    intro w hw' s hs'
    rw [sum_is_convex_update]
    exact emMix_ge _ _ _ 0 h0 h1 (hw w hw') (le_of_lt (div_pos (sumEmUnnorm_pos w s (hw w hw') (hs s hs')) hZ))
  · intro hpos
    apply forall_zipWith
    intro w hw' s hs'
    rw [sum_is_convex_update]
    exact emMix_gt _ _ _ 0 hpos h1 (hw w hw') (div_pos (sumEmUnnorm_pos w s (hw w hw') (hs s hs')) hZ)
  · simp only [sum_is_convex_update, emMix]
    have := tsum_zipWith_affine (1 - eta) eta
      (fun w s => Gen.sumEmUnnorm w s / tsum (List.zipWith Gen.sumEmUnnorm ws ss)) ws ss hlen
    rw [this, hsum]
    have h2 : tsum (List.zipWith (fun w s => Gen.sumEmUnnorm w s / tsum (List.zipWith Gen.sumEmUnnorm ws ss)) ws ss)
        = 1 := by
      have : List.zipWith (fun w s => Gen.sumEmUnnorm w s / tsum (List.zipWith Gen.sumEmUnnorm ws ss)) ws ss
          = (List.zipWith Gen.sumEmUnnorm ws ss).map (fun u => u / tsum (List.zipWith Gen.sumEmUnnorm ws ss)) := by
        rw [List.map_zipWith]
      rw [this, tsum_map_div, div_self (ne_of_gt hZ)]
    rw [h2]; ring

/-! ### statistics as weighted sums of the batch -/

theorem wsum_le_wsum (stats xs ys : List F) (hs : ∀ s ∈ stats, 0 ≤ s) (hlen : xs.length = ys.length)
    (h : ∀ p ∈ List.zip xs ys, p.1 ≤ p.2) : wsum stats xs ≤ wsum stats ys := by
  induction stats generalizing xs ys with
  | nil => simp [wsum]
  | cons s stats ih =>
    cases xs with
    | nil => cases ys with
      | nil => simp [wsum]
      | cons y ys => simp at hlen
    | cons x xs => cases ys with
      | nil => simp at hlen
      | cons y ys =>
        simp only [wsum]
        have h1 : x ≤ y := h (x, y) (by simp)
        have h2 := ih xs ys (fun t ht => hs t (List.mem_cons_of_mem _ ht)) (by simpa using hlen)
          (fun p hp => h p (by simp only [List.zip_cons_cons]; exact List.mem_cons_of_mem _ hp))
        have h3 := mul_le_mul_of_nonneg_left h1 (hs s List.mem_cons_self)
        linarith

theorem wsum_nonneg (stats xs : List F) (hs : ∀ s ∈ stats, 0 ≤ s) (hx : ∀ x ∈ xs, 0 ≤ x) : 0 ≤ wsum stats xs := by
  induction stats generalizing xs with
  | nil => simp [wsum]
  | cons s stats ih =>
    cases xs with
    | nil => simp [wsum]
    | cons x xs =>
      simp only [wsum]
      have := mul_nonneg (hs s List.mem_cons_self) (hx x List.mem_cons_self)
      have := ih xs (fun t ht => hs t (List.mem_cons_of_mem _ ht)) (fun t ht => hx t (List.mem_cons_of_mem _ ht))
      linarith

theorem wsum_le_tsum (stats xs : List F) (hs : ∀ s ∈ stats, 0 ≤ s) (hx : ∀ x ∈ xs, x ≤ 1) :
    wsum stats xs ≤ tsum stats := by
  induction stats generalizing xs with
  | nil => simp [wsum, tsum]
  | cons s stats ih =>
    cases xs with
    | nil => simp only [wsum, tsum]; exact tsum_nonneg _ hs
    | cons x xs =>
      simp only [wsum, tsum]
      have h1 := mul_le_mul_of_nonneg_left (hx x List.mem_cons_self) (hs s List.mem_cons_self)
      have := ih xs (fun t ht => hs t (List.mem_cons_of_mem _ ht)) (fun t ht => hx t (List.mem_cons_of_mem _ ht))
      linarith

theorem tsum_map_zero {β : Type} (l : List β) : tsum (l.map (fun _ => (0:F))) = 0 := by
  induction l with
  | nil => rfl
  | cons _ l ih => simp only [List.map_cons, tsum, ih, add_zero]

theorem wsum_map_zero {β : Type} (st : List F) (d : List β) : wsum st (d.map (fun _ => (0:F))) = 0 := by
  induction st generalizing d with
  | nil => simp [wsum]
  | cons s st ih =>
    cases d with
    | nil => simp [wsum]
    | cons r d => simp only [List.map_cons, wsum, ih, mul_zero, add_zero]

/-- statistic of a row function: `Σ_r stats[r]·g(data[r])` -/
def rowStat (stats : List F) (data : List (List F)) (g : List F → F) : F := wsum stats (data.map g)

theorem rowStat_mono (stats : List F) (data : List (List F)) (g h : List F → F) (hs : ∀ s ∈ stats, 0 ≤ s)
    (hgh : ∀ row ∈ data, g row ≤ h row) : rowStat stats data g ≤ rowStat stats data h := by
  unfold rowStat
  apply wsum_le_wsum stats _ _ hs (by simp)
  intro p hp
  rw [List.zip_map'] at hp
  simp only [List.mem_map] at hp
  obtain ⟨row, hrow, rfl⟩ := hp
  exact hgh row hrow

theorem rowStat_add (stats : List F) (data : List (List F)) (g h : List F → F) :
    rowStat stats data (fun r => g r + h r) = rowStat stats data g + rowStat stats data h := by
  unfold rowStat
  induction stats generalizing data with
  | nil => simp [wsum]
  | cons s stats ih =>
    cases data with
    | nil => simp [wsum]
    | cons r data => simp only [List.map_cons, wsum]; rw [ih data]; ring

theorem rowStat_one_le (stats : List F) (data : List (List F)) (hs : ∀ s ∈ stats, 0 ≤ s) :
    rowStat stats data (fun _ => 1) ≤ tsum stats := by
  unfold rowStat
  apply wsum_le_tsum stats _ hs
  intro x hx; simp only [List.mem_map] at hx; obtain ⟨_, _, rfl⟩ := hx; exact le_refl _

/-- all entries of the data matrix that are read are 0 or 1 -/
def Binary (data : List (List F)) : Prop := ∀ row ∈ data, ∀ i, row.getD i 0 = 0 ∨ row.getD i 0 = 1

theorem cltP_eq (stats : List F) (data : List (List F)) (i : Nat) :
    cltP stats data i = rowStat stats data (fun row => row.getD i 0) := rfl

theorem cltC1_eq (pred : List Int) (stats : List F) (data : List (List F)) (i : Nat) :
    cltC1 pred stats data i = rowStat stats data (fun row => row.getD i 0 * row.getD (cltPaIdx pred i) 0) := by
  unfold cltC1 rowStat dataCol
  rw [List.zipWith_map]
  congr 1
  induction data with
  | nil => rfl
  | cons r data ih => simp [ih]

/-- **the inequalities between the CLT statistics**, from their definitions as weighted sums of 0/1 data:
`0 ≤ C11 ≤ P_pa ≤ T` and `0 ≤ P_i − C11 ≤ T − P_pa`. -/
theorem clt_stats_bounds (pred : List Int) (stats : List F) (data : List (List F)) (i : Nat)
    (hs : ∀ s ∈ stats, 0 ≤ s) (hb : Binary data) :
    0 ≤ cltC1 pred stats data i ∧
    cltC1 pred stats data i ≤ cltP stats data (cltPaIdx pred i) ∧
    0 ≤ cltP stats data (cltPaIdx pred i) ∧
    cltP stats data (cltPaIdx pred i) ≤ tsum stats ∧
    0 ≤ cltP stats data i - cltC1 pred stats data i ∧
    cltP stats data i - cltC1 pred stats data i ≤ tsum stats - cltP stats data (cltPaIdx pred i) := by
  set pa := cltPaIdx pred i
  have hz : rowStat stats data (fun _ => (0:F)) = 0 := wsum_map_zero stats data
  have c1 := cltC1_eq pred stats data i
  rw [c1, cltP_eq, cltP_eq]
  have b01 : ∀ row ∈ data, ∀ j, 0 ≤ row.getD j 0 ∧ row.getD j 0 ≤ 1 := by
    intro row hrow j; rcases hb row hrow j with h | h <;> rw [h] <;> norm_num
  refine ⟨?_, ?_, ?_, ?_, ?_, ?_⟩
  · refine le_trans (le_of_eq hz.symm) (rowStat_mono _ _ _ _ hs ?_); intro row hrow
    exact mul_nonneg (b01 row hrow i).1 (b01 row hrow pa).1
  · apply rowStat_mono _ _ _ _ hs; intro row hrow
    have := mul_le_mul_of_nonneg_right (b01 row hrow i).2 (b01 row hrow pa).1
    linarith
  · refine le_trans (le_of_eq hz.symm) (rowStat_mono _ _ _ _ hs ?_); intro row hrow; exact (b01 row hrow pa).1
  · refine le_trans (rowStat_mono _ _ _ (fun _ => 1) hs ?_) (rowStat_one_le stats data hs)
    intro row hrow; exact (b01 row hrow pa).2
  · have : rowStat stats data (fun row => row.getD i 0 * row.getD pa 0) ≤ rowStat stats data (fun row => row.getD i 0) := by
      apply rowStat_mono _ _ _ _ hs; intro row hrow
      have := mul_le_mul_of_nonneg_left (b01 row hrow pa).2 (b01 row hrow i).1
      linarith
    linarith
  · have h1 : rowStat stats data (fun row => row.getD i 0) + rowStat stats data (fun row => row.getD pa 0)
        = rowStat stats data (fun row => row.getD i 0 * row.getD pa 0)
          + rowStat stats data (fun row => row.getD i 0 + row.getD pa 0 - row.getD i 0 * row.getD pa 0) := by
      rw [← rowStat_add, ← rowStat_add]; congr 1; funext row; ring
    have h2 : rowStat stats data (fun row => row.getD i 0 + row.getD pa 0 - row.getD i 0 * row.getD pa 0) ≤ tsum stats := by
      refine le_trans (rowStat_mono _ _ _ (fun _ => 1) hs ?_) (rowStat_one_le stats data hs)
      intro row hrow
      rcases hb row hrow i with h | h <;> rcases hb row hrow pa with h' | h' <;> rw [h, h'] <;> norm_num
    linarith

/-! ### Bernoulli.em_step -/

theorem bernEmReest_in_unit (S1 T : F) (h0 : 0 ≤ S1) (h1 : S1 ≤ T) :
    0 < Gen.bernEmReest S1 T ∧ Gen.bernEmReest S1 T < 1 := by
  unfold Gen.bernEmReest
  have ha : (0:F) < 1 / 1024 := by norm_num
  have hd : 0 < T + 2 * (1 / 1024 : F) := by linarith
  exact ⟨div_pos (by linarith) hd, (div_lt_one hd).2 (by linarith)⟩

/-- **bernoulli_em_range**: `p ∈ [0,1]`, responsibilities ≥ 0, data in {0,1}, `0 ≤ η ≤ 1` ⇒ `p' ∈ [0,1]`,
and `p' ∈ (0,1)` as soon as `η > 0`. -/
theorem bernoulli_em_range (eta p : F) (stats data : List F) (hs : ∀ s ∈ stats, 0 ≤ s)
    (hd : ∀ x ∈ data, x = 0 ∨ x = 1) (hp0 : 0 ≤ p) (hp1 : p ≤ 1) (h0 : 0 ≤ eta) (h1 : eta ≤ 1) :
    0 ≤ bernStepWith Gen.bernEmNew eta p stats data ∧ bernStepWith Gen.bernEmNew eta p stats data ≤ 1 ∧
    (0 < eta → 0 < bernStepWith Gen.bernEmNew eta p stats data ∧ bernStepWith Gen.bernEmNew eta p stats data < 1) := by
  have hd' : ∀ x ∈ data, 0 ≤ x ∧ x ≤ 1 := by
    intro x hx; rcases hd x hx with h | h <;> rw [h] <;> norm_num
  have hS0 : 0 ≤ wsum stats data := wsum_nonneg stats data hs (fun x hx => (hd' x hx).1)
  have hS1 : wsum stats data ≤ tsum stats := wsum_le_tsum stats data hs (fun x hx => (hd' x hx).2)
  obtain ⟨r0, r1⟩ := bernEmReest_in_unit _ _ hS0 hS1
  unfold bernStepWith
  rw [bernoulli_is_convex_update]
  exact ⟨emMix_ge _ _ _ 0 h0 h1 hp0 (le_of_lt r0), emMix_le _ _ _ 1 h0 h1 hp1 (le_of_lt r1),
    fun hpos => ⟨emMix_gt _ _ _ 0 hpos h1 hp0 r0, emMix_lt _ _ _ 1 hpos h1 hp1 r1⟩⟩

/-! ### Categorical.em_step -/

theorem tsum_map_add_div (xs : List F) (a D : F) :
    tsum (xs.map (fun s => (s + a) / D)) = (tsum xs + xs.length * a) / D := by
  induction xs with
  | nil => simp [tsum]
  | cons x xs ih => simp only [List.map_cons, tsum, ih, List.length_cons, Nat.cast_succ]; ring

theorem zipWith_right_only {β : Type} (g : F → β) (ps Sds : List F) (hlen : Sds.length = ps.length) :
    List.zipWith (fun _ Sd => g Sd) ps Sds = Sds.map g := by
  induction ps generalizing Sds with
  | nil => cases Sds with
    | nil => rfl
    | cons _ _ => simp at hlen
  | cons p ps ih => cases Sds with
    | nil => simp at hlen
    | cons S Sds => simp only [List.zipWith_cons_cons, List.map_cons]; rw [ih Sds (by simpa using hlen)]

/-- **categorical_em_simplex** (on the statistics): probabilities on the simplex, one statistic `S_d ≥ 0` per
category with `Σ_d S_d = T`, `0 ≤ η ≤ 1` ⇒ same number of probabilities, all ≥ 0 (> 0 if η > 0), summing to one. -/
theorem categorical_em_simplex_stats (eta T : F) (ps Sds : List F) (hlen : Sds.length = ps.length) (hne : ps ≠ [])
    (hp : ∀ p ∈ ps, 0 ≤ p) (hsum : tsum ps = 1) (hS : ∀ s ∈ Sds, 0 ≤ s) (hT : tsum Sds = T)
    (h0 : 0 ≤ eta) (h1 : eta ≤ 1) :
    let ps' := List.zipWith (fun p Sd => Gen.catEmNew eta p Sd T (ps.length : F)) ps Sds
    ps'.length = ps.length ∧ (∀ p ∈ ps', 0 ≤ p) ∧ (0 < eta → ∀ p ∈ ps', 0 < p) ∧ tsum ps' = 1 := by
  intro ps'
  have hT0 : 0 ≤ T := hT ▸ tsum_nonneg Sds hS
  have hK : (1:F) ≤ (ps.length : F) := by
    have : 1 ≤ ps.length := List.length_pos_iff.2 hne
    exact_mod_cast this
  have ha : (0:F) < 1 / 1024 := by norm_num
  have hD : 0 < T + (ps.length : F) * (1 / 1024) := by nlinarith
  have hre : ∀ s ∈ Sds, 0 < Gen.catEmReest s T (ps.length : F) := by
    intro s hs; unfold Gen.catEmReest; exact div_pos (by have := hS s hs; linarith) hD
  refine ⟨by simp [ps', List.length_zipWith, hlen], ?_, ?_, ?_⟩
  · apply forall_zipWith; intro p hp' s hs'
    rw [categorical_is_convex_update]
    exact emMix_ge _ _ _ 0 h0 h1 (hp p hp') (le_of_lt (hre s hs'))
  · intro hpos; apply forall_zipWith; intro p hp' s hs'
    rw [categorical_is_convex_update]
    exact emMix_gt _ _ _ 0 hpos h1 (hp p hp') (hre s hs')
  · simp only [ps', categorical_is_convex_update, emMix]
    rw [tsum_zipWith_affine (1 - eta) eta (fun _ Sd => Gen.catEmReest Sd T (ps.length : F)) ps Sds hlen.symm,
      zipWith_right_only _ ps Sds hlen, hsum]
    unfold Gen.catEmReest
    rw [tsum_map_add_div, hT, hlen, div_self (ne_of_gt hD)]; ring

theorem tsum_append (xs ys : List F) : tsum (xs ++ ys) = tsum xs + tsum ys := by
  induction xs with
  | nil => simp [tsum]
  | cons x xs ih => simp only [List.cons_append, tsum, ih]; ring

theorem tsum_indicator (K x : Nat) (s : F) (hx : x < K) :
    tsum ((List.range K).map (fun d => if x = d then s else 0)) = s := by
  induction K with
  | zero => omega
  | succ K ih =>
    rw [List.range_succ, List.map_append, tsum_append]
    simp only [List.map_cons, List.map_nil, tsum]
    by_cases h : x = K
    · subst h
      have : tsum ((List.range x).map (fun d => if x = d then s else (0:F))) = 0 := by
        have hz : ∀ d ∈ List.range x, (if x = d then s else (0:F)) = 0 := by
          intro d hd; have := List.mem_range.1 hd; rw [if_neg (by omega)]
        rw [List.map_congr_left hz]; exact tsum_map_zero _
      rw [this]; simp
    · rw [ih (by omega), if_neg h]; ring

theorem tsum_map_add {β : Type} (l : List β) (f g : β → F) :
    tsum (l.map (fun d => f d + g d)) = tsum (l.map f) + tsum (l.map g) := by
  induction l with
  | nil => simp [tsum]
  | cons x l ih => simp only [List.map_cons, tsum, ih]; ring

/-- the per-category statistics are ≥ 0 and, when every batch value is one of the categories, add up to `Σ stats` -/
theorem catStats_facts (K : Nat) (stats : List F) (data : List Nat) (hlen : stats.length = data.length)
    (hs : ∀ s ∈ stats, 0 ≤ s) (hd : ∀ x ∈ data, x < K) :
    (catStats K stats data).length = K ∧ (∀ S ∈ catStats K stats data, 0 ≤ S) ∧ tsum (catStats K stats data) = tsum stats := by
  refine ⟨by simp [catStats], ?_, ?_⟩
  · intro S hS
    simp only [catStats, List.mem_map] at hS
    obtain ⟨d, _, rfl⟩ := hS
    unfold catStat
    apply tsum_nonneg
    apply forall_zipWith
    intro s hs' x _; split
    · exact hs s hs'
    · exact le_refl _
  · unfold catStats
    induction stats generalizing data with
    | nil =>
      have hcz : ∀ d ∈ List.range K, catStat ([] : List F) data d = 0 := by intro d _; simp [catStat, tsum]
      rw [List.map_congr_left hcz, tsum_map_zero]; simp [tsum]
    | cons s stats ih =>
      cases data with
      | nil => simp at hlen
      | cons x data =>
        have : (List.range K).map (catStat (s :: stats) (x :: data))
            = (List.range K).map (fun d => (if x = d then s else 0) + catStat stats data d) := by
          apply List.map_congr_left; intro d _; simp [catStat, tsum]
        rw [this, tsum_map_add, tsum_indicator K x s (hd x List.mem_cons_self),
          ih data (by simpa using hlen) (fun t ht => hs t (List.mem_cons_of_mem _ ht))
            (fun t ht => hd t (List.mem_cons_of_mem _ ht))]
        simp [tsum]

/-- **categorical_em_simplex** (`Categorical.em_step` on a batch whose values lie in the categories) -/
theorem categorical_em_simplex (eta : F) (ps stats : List F) (data : List Nat) (hne : ps ≠ [])
    (hlen : stats.length = data.length) (hs : ∀ s ∈ stats, 0 ≤ s) (hd : ∀ x ∈ data, x < ps.length)
    (hp : ∀ p ∈ ps, 0 ≤ p) (hsum : tsum ps = 1) (h0 : 0 ≤ eta) (h1 : eta ≤ 1) :
    (catStepWith Gen.catEmNew eta ps stats data).length = ps.length ∧
    (∀ p ∈ catStepWith Gen.catEmNew eta ps stats data, 0 ≤ p) ∧
    (0 < eta → ∀ p ∈ catStepWith Gen.catEmNew eta ps stats data, 0 < p) ∧
    tsum (catStepWith Gen.catEmNew eta ps stats data) = 1 := by
  obtain ⟨c1, c2, c3⟩ := catStats_facts ps.length stats data hlen hs hd
  have := categorical_em_simplex_stats eta (tsum stats) ps (catStats ps.length stats data) c1 hne hp hsum c2 c3 h0 h1
  unfold catStepWith
  rw [natC_eq_cast]
  exact this

/-! ### Gaussian.em_step -/

/-- **gaussian_em_sigma_pos**: `σ ≥ 10⁻⁵` stays `≥ 10⁻⁵` (a convex combination of two values ≥ 10⁻⁵), whatever
the statistics and whatever `sqrt` returns. -/
theorem gaussian_em_sigma_pos (E : ExpLog F) (eta sigma V T : F) (hσ : 1 / 100000 ≤ sigma) (h0 : 0 ≤ eta) (h1 : eta ≤ 1) :
    1 / 100000 ≤ Gen.gaussEmStdNew E eta sigma V T := by
  rw [gaussian_std_is_convex_update]
  apply emMix_ge _ _ _ _ h0 h1 hσ
  unfold Gen.gaussEmClamp
  exact le_max_right _ _

/-- the Gaussian total is positive, so the mean re-estimate is a genuine quotient -/
theorem gaussEmTotal_pos (T : F) (h : 0 ≤ T) : 0 < Gen.gaussEmTotal T := by
  unfold Gen.gaussEmTotal; have : (0:F) < 1 / 8388608 := by norm_num
  linarith

/-! ### BinaryCLT.em_step -/

theorem clt_cell_gen (a C T R Pp : F) (ha : 0 < a) (hC : 0 ≤ C) (hCR : C ≤ R) (hT : 0 ≤ T)
    (hP0 : 0 < Pp) (hP1 : Pp < 1) (hrel : T * Pp = R + 2 * a - 4 * a * Pp) :
    0 < (C + a) / (T * Pp + 4 * a) ∧ (C + a) / (T * Pp + 4 * a) < 1 := by
  have hden : 0 < T * Pp + 4 * a := by have := mul_nonneg hT (le_of_lt hP0); linarith
  refine ⟨div_pos (by linarith) hden, (div_lt_one hden).2 ?_⟩
  have : 4 * a * Pp < 4 * a := by nlinarith
  linarith

theorem clt_prior_in_unit (P T : F) (h0 : 0 ≤ P) (h1 : P ≤ T) :
    0 < Gen.cltEmPrior1 P T ∧ Gen.cltEmPrior1 P T < 1 ∧ 0 < Gen.cltEmPrior0 P T ∧ Gen.cltEmPrior0 P T < 1 := by
  have ha : (0:F) < 1 / 1024 := by norm_num
  have hd : 0 < T + 4 * (1 / 1024 : F) := by linarith
  have p0 : 0 < Gen.cltEmPrior1 P T := by unfold Gen.cltEmPrior1; exact div_pos (by linarith) hd
  have p1 : Gen.cltEmPrior1 P T < 1 := by unfold Gen.cltEmPrior1; exact (div_lt_one hd).2 (by linarith)
  have e : Gen.cltEmPrior0 P T = 1 - Gen.cltEmPrior1 P T := rfl
  rw [e]
  exact ⟨p0, p1, by linarith, by linarith⟩

/-- **clt_em_cell_in_unit** (parent value 1): with `0 ≤ C ≤ Q ≤ T` (`C` = statistic of `x_i = 1 ∧ x_pa = 1`,
`Q` = statistic of `x_pa = 1`, `T` = total) the re-estimated cell `(C+α)/(T·prior₁(Q)+4α)` lies in (0,1) —
this is the inequality `C + α < T·prior + 4α`. -/
theorem clt_em_cell_in_unit_pa1 (C Q T : F) (hC : 0 ≤ C) (hCQ : C ≤ Q) (hQT : Q ≤ T) :
    0 < Gen.cltEmCell1 C T (Gen.cltEmPrior1 Q T) ∧ Gen.cltEmCell1 C T (Gen.cltEmPrior1 Q T) < 1 ∧
    0 < Gen.cltEmCell0 C T (Gen.cltEmPrior1 Q T) ∧ Gen.cltEmCell0 C T (Gen.cltEmPrior1 Q T) < 1 := by
  have hQ : 0 ≤ Q := le_trans hC hCQ
  have hT : 0 ≤ T := le_trans hQ hQT
  obtain ⟨p0, p1, _, _⟩ := clt_prior_in_unit Q T hQ hQT
  have ha : (0:F) < 1 / 1024 := by norm_num
  have hd : (T + 4 * (1 / 1024 : F)) ≠ 0 := by have : 0 < T + 4 * (1 / 1024 : F) := by linarith
                                               exact ne_of_gt this
  have hrel : T * Gen.cltEmPrior1 Q T = Q + 2 * (1 / 1024) - 4 * (1 / 1024) * Gen.cltEmPrior1 Q T := by
    unfold Gen.cltEmPrior1; field_simp; ring
  have := clt_cell_gen (1 / 1024) C T Q (Gen.cltEmPrior1 Q T) ha hC hCQ hT p0 p1 hrel
  have e : Gen.cltEmCell1 C T (Gen.cltEmPrior1 Q T)
      = (C + 1 / 1024) / (T * Gen.cltEmPrior1 Q T + 4 * (1 / 1024)) := rfl
  have e0 : Gen.cltEmCell0 C T (Gen.cltEmPrior1 Q T) = 1 - Gen.cltEmCell1 C T (Gen.cltEmPrior1 Q T) := rfl
  rw [e0, e]
  refine ⟨this.1, this.2, by linarith [this.2], by linarith [this.1]⟩

/-- **clt_em_cell_in_unit** (parent value 0): with `0 ≤ C ≤ T − Q`, `0 ≤ Q ≤ T` (`C` = statistic of
`x_i = 1 ∧ x_pa = 0`) the cell `(C+α)/(T·prior₀(Q)+4α)` lies in (0,1). -/
theorem clt_em_cell_in_unit_pa0 (C Q T : F) (hC : 0 ≤ C) (hCQ : C ≤ T - Q) (hQ : 0 ≤ Q) (hQT : Q ≤ T) :
    0 < Gen.cltEmCell1 C T (Gen.cltEmPrior0 Q T) ∧ Gen.cltEmCell1 C T (Gen.cltEmPrior0 Q T) < 1 ∧
    0 < Gen.cltEmCell0 C T (Gen.cltEmPrior0 Q T) ∧ Gen.cltEmCell0 C T (Gen.cltEmPrior0 Q T) < 1 := by
  have hT : 0 ≤ T := le_trans hQ hQT
  obtain ⟨_, _, p0, p1⟩ := clt_prior_in_unit Q T hQ hQT
  have ha : (0:F) < 1 / 1024 := by norm_num
  have hd : (T + 4 * (1 / 1024 : F)) ≠ 0 := by have : 0 < T + 4 * (1 / 1024 : F) := by linarith
                                               exact ne_of_gt this
  have hrel : T * Gen.cltEmPrior0 Q T = (T - Q) + 2 * (1 / 1024) - 4 * (1 / 1024) * Gen.cltEmPrior0 Q T := by
    unfold Gen.cltEmPrior0; field_simp; ring
  have := clt_cell_gen (1 / 1024) C T (T - Q) (Gen.cltEmPrior0 Q T) ha hC hCQ hT p0 p1 hrel
  have e : Gen.cltEmCell1 C T (Gen.cltEmPrior0 Q T)
      = (C + 1 / 1024) / (T * Gen.cltEmPrior0 Q T + 4 * (1 / 1024)) := rfl
  have e0 : Gen.cltEmCell0 C T (Gen.cltEmPrior0 Q T) = 1 - Gen.cltEmCell1 C T (Gen.cltEmPrior0 Q T) := rfl
  rw [e0, e]
  refine ⟨this.1, this.2, by linarith [this.2], by linarith [this.1]⟩

/-- the generated CLT formulas, bundled for the assembler `cltStepWith` -/
def genCltFns : CltEmFns F where
  prior1 := Gen.cltEmPrior1
  prior0 := Gen.cltEmPrior0
  cond1 := Gen.cltEmCond1
  cond0 := Gen.cltEmCond0
  cell1 := Gen.cltEmCell1
  cell0 := Gen.cltEmCell0
  new := Gen.cltEmNew

/-- a CPT row: two entries in (0,1) that sum to one -/
def RowOK (row : List F) : Prop := ∃ x0 x1, row = [x0, x1] ∧ 0 < x0 ∧ 0 < x1 ∧ x0 + x1 = 1

/-- **clt_em_rows_normalised**: after mixing old and re-estimated entries in (0,1) and the explicit division by
the row sum, the row sums to one with both entries in (0,1). (The re-estimated pair need not itself be passed
as summing to one: the division repairs it — that is why the code re-normalises.) -/
theorem clt_em_rows_normalised (eta o0 o1 q0 q1 : F) (h0 : 0 ≤ eta) (h1 : eta ≤ 1)
    (ho0 : 0 < o0) (ho1 : 0 < o1) (hq0 : 0 < q0) (hq1 : 0 < q1) :
    RowOK (cltNewRow genCltFns eta o0 o1 q0 q1) := by
  unfold cltNewRow genCltFns
  simp only [clt_is_convex_update, div_one]
  have m0 : 0 < emMix eta o0 q0 := emMix_gt' _ _ _ 0 h0 h1 ho0 hq0
  have m1 : 0 < emMix eta o1 q1 := emMix_gt' _ _ _ 0 h0 h1 ho1 hq1
  have hZ : 0 < emMix eta o0 q0 + emMix eta o1 q1 := by linarith
  refine ⟨_, _, rfl, div_pos m0 hZ, div_pos m1 hZ, ?_⟩
  rw [← add_div, div_self (ne_of_gt hZ)]

/-- every re-estimated entry `q[i,b,j]` is in (0,1) -/
theorem cltQ_in_unit (pred : List Int) (stats : List F) (data : List (List F)) (i b j : Nat)
    (hs : ∀ s ∈ stats, 0 ≤ s) (hb : Binary data) :
    0 < cltQ genCltFns pred stats data i b j ∧ cltQ genCltFns pred stats data i b j < 1 := by
  have pri : ∀ i' b', 0 < cltPrior genCltFns stats data i' b' ∧ cltPrior genCltFns stats data i' b' < 1 := by
    intro i' b'
    have hP0 : 0 ≤ cltP stats data i' := by
      rw [cltP_eq]; unfold rowStat; apply wsum_nonneg _ _ hs
      intro x hx; simp only [List.mem_map] at hx; obtain ⟨row, hrow, rfl⟩ := hx
      rcases hb row hrow i' with h | h <;> rw [h] <;> norm_num
    have hP1 : cltP stats data i' ≤ tsum stats := by
      rw [cltP_eq]; unfold rowStat; apply wsum_le_tsum _ _ hs
      intro x hx; simp only [List.mem_map] at hx; obtain ⟨row, hrow, rfl⟩ := hx
      rcases hb row hrow i' with h | h <;> rw [h] <;> norm_num
    obtain ⟨a1, a2, a3, a4⟩ := clt_prior_in_unit _ _ hP0 hP1
    unfold cltPrior genCltFns; split
    · exact ⟨a3, a4⟩
    · exact ⟨a1, a2⟩
  obtain ⟨s1, s2, s3, s4, s5, s6⟩ := clt_stats_bounds pred stats data i hs hb
  unfold cltQ
  split
  · exact pri i j
  · have hcell : ∀ b, (0 < Gen.cltEmCell1 (cltCond genCltFns pred stats data i b) (tsum stats)
          (cltPrior genCltFns stats data (cltPaIdx pred i) b) ∧
        Gen.cltEmCell1 (cltCond genCltFns pred stats data i b) (tsum stats)
          (cltPrior genCltFns stats data (cltPaIdx pred i) b) < 1 ∧
        0 < Gen.cltEmCell0 (cltCond genCltFns pred stats data i b) (tsum stats)
          (cltPrior genCltFns stats data (cltPaIdx pred i) b) ∧
        Gen.cltEmCell0 (cltCond genCltFns pred stats data i b) (tsum stats)
          (cltPrior genCltFns stats data (cltPaIdx pred i) b) < 1) := by
      intro b
      unfold cltCond cltPrior genCltFns
      by_cases hb0 : b = 0
      · simp only [hb0, if_true]
        exact clt_em_cell_in_unit_pa0 _ _ _ s5 s6 s3 s4
      · simp only [hb0, if_false]
        exact clt_em_cell_in_unit_pa1 _ _ _ s1 s2 s4
    obtain ⟨c1, c2, c3, c4⟩ := hcell b
    split
    · exact ⟨c3, c4⟩
    · exact ⟨c1, c2⟩

/-- **BinaryCLT.em_step keeps the table a table**: old entries positive, responsibilities ≥ 0, 0/1 data,
`0 ≤ η ≤ 1` ⇒ same shape (one 2×2 block per variable) and every row of the new table has two entries in (0,1)
summing to one. -/
theorem clt_em_table_ok (eta : F) (pred : List Int) (old : List (List (List F))) (stats : List F)
    (data : List (List F)) (h0 : 0 ≤ eta) (h1 : eta ≤ 1) (hs : ∀ s ∈ stats, 0 ≤ s) (hb : Binary data)
    (hold : ∀ i < pred.length, ∀ b < 2, ∀ j < 2, 0 < ((old.getD i []).getD b []).getD j 0) :
    (cltStepWith genCltFns eta pred old stats data).length = pred.length ∧
    ∀ blk ∈ cltStepWith genCltFns eta pred old stats data, blk.length = 2 ∧ ∀ row ∈ blk, RowOK row := by
  unfold cltStepWith
  refine ⟨by simp, ?_⟩
  intro blk hblk
  simp only [List.mem_map, List.mem_range] at hblk
  obtain ⟨i, hi, rfl⟩ := hblk
  refine ⟨by simp, ?_⟩
  intro row hrow
  simp only [List.mem_map, List.mem_range] at hrow
  obtain ⟨b, hb2, rfl⟩ := hrow
  exact clt_em_rows_normalised eta _ _ _ _ h0 h1 (hold i hi b hb2 0 (by omega)) (hold i hi b hb2 1 (by omega))
    (cltQ_in_unit pred stats data i b 0 hs hb).1 (cltQ_in_unit pred stats data i b 1 hs hb).1

/-- `expectation_maximization` accepts exactly `num_iter > 0`, `batch_perc ∈ (0,1)`, `step_size ∈ (0,1)` -/
theorem em_guard (numIter batchPerc eta : F) :
    ¬ Gen.emRejects numIter batchPerc eta ↔ (0 < numIter ∧ 0 < batchPerc ∧ batchPerc < 1 ∧ 0 < eta ∧ eta < 1) := by
  unfold Gen.emRejects
  simp only [not_or, not_le, ge_iff_le]
  tauto

end Deeprob.Oblig.C14
