import DeeprobModel.Generated.Consts
import DeeprobModel.Generated.Formulas
import DeeprobModel.Model.CltFit
import DeeprobModel.Spec.CltFitSpec
import Mathlib.Algebra.Order.Field.Basic
import Mathlib.Algebra.Order.Field.Rat
import Mathlib.Tactic.Ring
import Mathlib.Tactic.FieldSimp
import Mathlib.Tactic.NormNum
/-
Fourth wave, (d) — static tie of `Spec/CltFitSpec.lean` (`miTerm`, `mutualInfo`) and `Model/CltFit.lean` (`paIdx`, `rawParam`,
`cpt`) to /repo/deeprob/utils/statistics.py (`compute_mutual_information`) and /repo/deeprob/spn/structure/cltree.py
(`BinaryCLT.compute_clt_parameters`, `BinaryCLT.fit`) — C11.

Arrays are read entry-wise through accessor functions; an index that may be negative (`tree[root] = -1`) is an `Int` and
the instantiation below reads it as NumPy does (`-1` = last row): `wrap`.
-/
set_option linter.unusedSectionVars false
set_option linter.unusedSimpArgs false
set_option linter.unusedVariables false
namespace Deeprob.Struct4
open Deeprob Deeprob.CltFit

variable {F : Type} [Field F] [LinearOrder F]

/-! ### `compute_mutual_information` -/

/-- **`np.multiply.outer(priors, priors).transpose([0, 2, 1, 3])`** is `outers[i, j, k, l] = priors[i, k] * priors[j, l]` -/
theorem miOuters_as_coded (priors : Nat → Nat → F) (i j k l : Nat) :
    Gen.S4miOuters priors i j k l = priors i k * priors j l := by
  unfold Gen.S4miOuters
  have h0 : Gen.S4miPerm.idxOf 0 = 0 := by decide
  have h1 : Gen.S4miPerm.idxOf 1 = 2 := by decide
  have h2 : Gen.S4miPerm.idxOf 2 = 1 := by decide
  have h3 : Gen.S4miPerm.idxOf 3 = 3 := by decide
  simp only [h0, h1, h2, h3]
  rfl

/-- **one summand as coded**: `joints * (log joints − log outers)` at `[i, j, k, l]` is the specification's `miTerm` -/
theorem miTerm_as_coded (E : ExpLog F) (X : List (List Nat)) (al : F) (i j a b : Nat) :
    miTerm E X al i j a b = Gen.S4miTerm E (fun i k => prior X al i k) (fun i j k l => joint X al i j k l) i j a b := by
  unfold miTerm Gen.S4miTerm
  simp only [miOuters_as_coded]

/-- **`compute_mutual_information` as coded** (`n_values = 2`): the sum over the two value axes `(2, 3)`, diagonal filled
with `0.0` — the specification's `mutualInfo` (the weights of the maximum spanning tree of C11) -/
theorem mutualInfo_as_coded (E : ExpLog F) (X : List (List Nat)) (al : F) (i j : Nat) :
    mutualInfo E X al i j =
      Gen.S4mutualInfo E 2 (fun i k => prior X al i k) (fun i j k l => joint X al i j k l) i j := by
  unfold mutualInfo Gen.S4mutualInfo
  by_cases h : i = j
  · simp only [h, if_true]
  · simp only [h, if_false, ← miTerm_as_coded]
    simp only [List.range_succ, List.range_zero, List.nil_append, List.cons_append, List.flatMap_cons, List.flatMap_nil,
      List.map_cons, List.map_nil, List.append_nil, Gen.Py4.sum]
    ring

example (E : ExpLog F) :
    mutualInfo E [[1, 0], [1, 1], [0, 1], [1, 1]] (1 / 10 : F) 0 1 =
      Gen.S4mutualInfo E 2 (fun i k => prior [[1, 0], [1, 1], [0, 1], [1, 1]] (1 / 10 : F) i k)
        (fun i j k l => joint [[1, 0], [1, 1], [0, 1], [1, 1]] (1 / 10 : F) i j k l) 0 1 :=
  mutualInfo_as_coded E _ _ 0 1

example : Gen.S4miPerm = [0, 2, 1, 3] ∧
    Gen.S4miOuters (fun i k => ((10 * i + k : Nat) : ℚ)) 1 2 0 1 = 10 * 21 := by
  refine ⟨by decide, ?_⟩
  rw [miOuters_as_coded]; norm_num

/-! ### `compute_clt_parameters` -/

/-- NumPy's reading of a row index of an array with `n` rows (`-1` = the last row) -/
def wrap (n : Nat) (p : Int) : Nat := if p < 0 then n - 1 else p.toNat

theorem paIdx_eq_wrap (pred : List Int) (i : Nat) : paIdx pred i = wrap pred.length (pred.getD i (-1)) := rfl

/-- **the einsum `'ikl,il->ilk'` as coded**: `params[i, l, k] = joints[i, tree[i], k, l] * (1 / priors[tree[i], l])`, the rows
of `root_id` overwritten by `priors[root_id]` — the model's `rawParam` (the root's `tree` entry `-1` reads the last row:
`paIdx`) -/
theorem rawParam_as_coded (X : List (List Nat)) (al : F) (pred : List Int) (root i l k : Nat) :
    rawParam X al pred root i l k =
      Gen.S4cltParamRaw (fun p k => prior X al (wrap pred.length p) k)
        (fun a b k l => joint X al a.toNat (wrap pred.length b) k l)
        (fun a => pred.getD a.toNat (-1)) (root : Int) (i : Int) l k := by
  unfold rawParam Gen.S4cltParamRaw
  by_cases h : i = root
  · subst h
    have hn : ¬ ((i : Int) < 0) := by omega
    simp [wrap, hn]
  · have h' : ¬ ((i : Int) = (root : Int)) := by omega
    simp only [h, h', if_false, Int.toNat_natCast, paIdx_eq_wrap]

/-- **the normalisation as coded** (`params /= np.sum(params, axis=2, keepdims=True)`: over the variable's own value `k`) —
the model's `cpt` -/
theorem cpt_as_coded (X : List (List Nat)) (al : F) (pred : List Int) (root i l k : Nat) :
    cpt X al pred root i l k =
      Gen.S4cltParam (fun p k => prior X al (wrap pred.length p) k)
        (fun a b k l => joint X al a.toNat (wrap pred.length b) k l)
        (fun a => pred.getD a.toNat (-1)) (root : Int) (i : Int) l k := by
  unfold cpt Gen.S4cltParam
  simp only [← rawParam_as_coded, List.range_succ, List.range_zero, List.nil_append, List.cons_append, List.map_cons,
    List.map_nil, Gen.Py4.sum, add_zero]

example :
    let X : List (List Nat) := [[1, 0], [1, 1], [0, 1], [1, 1]]
    cpt X (1 / 10 : ℚ) [-1, 0] 0 1 1 1 =
      Gen.S4cltParam (fun p k => prior X (1 / 10 : ℚ) (wrap 2 p) k) (fun a b k l => joint X (1 / 10 : ℚ) a.toNat (wrap 2 b) k l)
        (fun a => [-1, 0].getD a.toNat (-1)) 0 1 1 1 :=
  cpt_as_coded _ _ [-1, 0] 0 1 1 1

/-! ### `BinaryCLT.fit` -/

/-- **the steps of `fit` as coded**: a root is drawn only when none was given; priors and joints with the caller's
`alpha`; the structure (mutual information, then `maximum_spanning_tree(self.root, ·)`) is learned only when no tree was
given; the parameters are `compute_clt_parameters(self.bfs, self.tree, priors, joints)` stored in log-space -/
theorem fit_steps_as_coded :
    Gen.S4cltFitSteps =
      [("self.root is None", "self.root = random_state.choice(len(self.scope))"),
       ("", "v3, v4 = estimate_priors_joints(data, alpha=alpha)"),
       ("self.tree is None", "v5 = compute_mutual_information(v3, v4)"),
       ("self.tree is None", "self.bfs, self.tree = maximum_spanning_tree(self.root, v5)"),
       ("", "v6 = self.compute_clt_parameters(self.bfs, self.tree, v3, v4)"),
       ("", "self.params = np.log(v6)")] := by decide

end Deeprob.Struct4
