import DeeprobModel.Generated.Consts
import DeeprobModel.Model.Io
import Mathlib.Data.List.Basic
import Mathlib.Tactic.SplitIfs
import Mathlib.Tactic.Linarith
/-
Third wave, (f) — static tie of `Model/Io.lean` (`encodeNode`, `nodeEdges`, `place`, `decode`) to
/repo/deeprob/spn/structure/io.py (`spn_to_digraph`, `digraph_to_spn`) — C13.

Extracted from the current AST: the attribute dictionaries written per node class, the rounding of the sum weights and of
the leaf parameters (digits, which conversion for which kind of value), the `add_edge(child id, parent id, idx=position)`
calls of one node, and on the reading side the per-edge update of `parent.children` (padding with `None`, store at
`idx`), the constructor used per class and the returned node.
-/
set_option linter.unusedSectionVars false
set_option linter.unusedSimpArgs false
set_option linter.unusedVariables false
namespace Deeprob.Struct3
open Deeprob

/-- **what is written for a node**: class, scope and — for a sum — the weights through `round(float(w), 8)`; for a leaf
the `params_dict()` entries, float arrays through `np.around(·, 8).tolist()`, NumPy / Python float scalars through
`round(·, 8)`, other arrays (the integer categories) through `tolist()`; nothing else.  `encodeNode` keeps exactly these
fields and rounds the two float fields with `round8 = roundN 8`. -/
theorem encodeNode_as_coded (n : MNode) :
    (encodeNode n).weights = Gen.S3ioSumWeights roundN n.weights ∧
    (encodeNode n).id = n.id ∧ (encodeNode n).cls = n.cls ∧ (encodeNode n).scope = n.scope ∧
    (encodeNode n).params = n.params.map (roundN 8) ∧
    Gen.S3ioSumAttr = [("class", "Sum.__name__"), ("scope", "node.scope"), ("weights", "<rounded weights>")] ∧
    Gen.S3ioProductAttr = [("class", "Product.__name__"), ("scope", "node.scope")] ∧
    Gen.S3ioLeafAttr = [("class", "node.__class__.__name__"), ("scope", "node.scope"), ("params", "<converted params>")] ∧
    Gen.S3ioLeafParamConv.map Prod.snd = ["around8.tolist", "tolist", "round8", "round8"] := by
  refine ⟨rfl, rfl, rfl, rfl, rfl, by decide, by decide, by decide, by decide⟩

example : (encodeNode { id := 3, cls := "Sum", scope := [0], weights := [1/3, 2/3], params := [], ch := [1, 2] }).weights
    = Gen.S3ioSumWeights roundN [1/3, 2/3] := (encodeNode_as_coded _).1

/-- **the edges of one node**: `graph.add_edge(c.id, node.id, idx=i)` for `i, c in enumerate(node.children)` — child id
first, parent id second, position as the attribute `idx` — the model's `nodeEdges` -/
theorem nodeEdges_as_coded (n : MNode) :
    (nodeEdges n).map (fun e => (e.child, e.parent, (e.idx : Int))) = Gen.S3ioEdges (N := Nat) id (fun _ => n.ch) n.id := by
  unfold nodeEdges Gen.S3ioEdges
  simp only [List.map_map, Function.comp_def, id]

example : Gen.S3ioEdges (N := Nat) id (fun _ => [7, 5, 7]) 2 = [(7, 2, 0), (5, 2, 1), (7, 2, 2)] := by decide

/-- **reading one edge**: `n_children = len(parent.children)`; `if idx >= n_children: extend([None] * (idx - n_children + 1))`;
`parent.children[idx] = nodes[child_id]` — the model's `place` -/
theorem place_as_coded (l : List (Option Nat)) (idx child : Nat) :
    place l idx child = Gen.S3ioPlace l (idx : Int) child := by
  unfold place Gen.S3ioPlace
  simp only [Int.toNat_natCast]
  by_cases h : l.length ≤ idx
  · have h1 : ((idx : Int) ≥ (l.length : Int)) := by omega
    have h2 : ((idx : Int) - (l.length : Int) + 1).toNat = idx + 1 - l.length := by omega
    simp only [h1, decide_true, if_true, h2]
  · have h1 : ¬ ((idx : Int) ≥ (l.length : Int)) := by omega
    have h2 : idx + 1 - l.length = 0 := by omega
    simp only [h1, decide_false, Bool.false_eq_true, if_false, h2, List.replicate_zero, List.append_nil]

example : Gen.S3ioPlace [some 4] 2 9 = [some 4, none, some 9] ∧ place [some 4] 2 9 = [some 4, none, some 9] := by
  rw [place_as_coded]; exact ⟨by decide, by decide⟩

/-- the two ends of an edge are read in the roles they were written in (child, parent); the constructors receive the
scope, the weights (`Sum`) / the parameters (`leaf_map[name]`) of the document; the node with id 0 is returned -/
theorem decode_roles_as_coded :
    Gen.S3ioEdgeEnds = ("child", "parent") ∧ Gen.S3ioReturned = "nodes[0]" ∧
    Gen.S3ioCtors = [("name == Sum.__name__", "Sum(scope, weights=attr['weights'])"), ("name == Product.__name__", "Product(scope)"),
      ("name in leaf_map", "leaf_map[name](scope, **attr['params'])")] := by decide

end Deeprob.Struct3
