import DeeprobModel.Generated.Formulas
import DeeprobModel.Model.CltFit
import Mathlib.Algebra.Order.Field.Basic
import Mathlib.Tactic.Ring
import Mathlib.Tactic.FieldSimp
/-
Static tie of `Model/CltFit.lean` (`cell`, `prior`, `joint`) to /repo/deeprob/utils/statistics.py
(`estimate_priors_joints`) — C11: the per-entry smoothing formulas are translated from the current AST and the
hand-written model is shown to compute the same rational functions of the same counts.
-/
set_option linter.unusedSectionVars false
namespace Deeprob.Oblig.StructCltFit
open Deeprob Deeprob.CltFit

variable {F : Type} [Field F] [LinearOrder F]

theorem denom_eq (X : List (List Nat)) (al : F) : denom X al = (X.length : F) + 4 * al := by
  unfold denom; norm_num

/-- **`priors[:, 1] = (counts + 2·alpha) / (n + 4·alpha)`, `priors[:, 0] = 1 − priors[:, 1]`** -/
theorem prior_as_coded (X : List (List Nat)) (al : F) (i : Nat) :
    prior X al i 1 = Gen.priorOne (ones X i : F) (X.length : F) al ∧
    prior X al i 0 = Gen.priorZero (ones X i : F) (X.length : F) al := by
  unfold prior Gen.priorOne Gen.priorZero
  simp only [denom_eq]
  constructor <;> norm_num <;> ring

/-- the four inclusion–exclusion cells before smoothing (`counts_cols[i,j] = counts_features[j]`,
`counts_rows[i,j] = counts_features[i]`) -/
theorem cell_as_coded (X : List (List Nat)) (i j : Nat) :
    (cell X i j 0 0 : F) = Gen.jointCell00 (X.length : F) (ones X j) (ones X i) (dot X i j) ∧
    (cell X i j 0 1 : F) = Gen.jointCell01 (X.length : F) (ones X j) (ones X i) (dot X i j) ∧
    (cell X i j 1 0 : F) = Gen.jointCell10 (X.length : F) (ones X j) (ones X i) (dot X i j) ∧
    (cell X i j 1 1 : F) = Gen.jointCell11 (X.length : F) (ones X j) (ones X i) (dot X i j) := by
  refine ⟨?_, ?_, ?_, ?_⟩ <;> simp only [cell, Gen.jointCell00, Gen.jointCell01, Gen.jointCell10, Gen.jointCell11] <;> ring

/-- **off the diagonal `joints = (joints + alpha) / (n + 4·alpha)`** -/
theorem joint_offdiag_as_coded (X : List (List Nat)) (al : F) (i j a b : Nat) (h : i ≠ j) :
    joint X al i j a b = Gen.jointSmooth (cell X i j a b) (X.length : F) al := by
  unfold joint Gen.jointSmooth
  simp only [h, if_false, denom_eq]
  try ring

/-- on the diagonal the cells are overwritten by `priors[:, 0]`, `0`, `0`, `priors[:, 1]` -/
theorem joint_diag_as_coded (X : List (List Nat)) (al : F) (i : Nat) :
    joint X al i i 0 0 = Gen.jointDiag00 (prior X al i 0) (prior X al i 1) ∧
    joint X al i i 0 1 = Gen.jointDiag01 (prior X al i 0) (prior X al i 1) ∧
    joint X al i i 1 0 = Gen.jointDiag10 (prior X al i 0) (prior X al i 1) ∧
    joint X al i i 1 1 = Gen.jointDiag11 (prior X al i 0) (prior X al i 1) := by
  refine ⟨?_, ?_, ?_, ?_⟩ <;>
    simp [joint, Gen.jointDiag00, Gen.jointDiag01, Gen.jointDiag10, Gen.jointDiag11]

/-- `alpha < 0` is the only rejected smoothing factor -/
theorem guard_as_coded (al : F) : Gen.priorsJointsRejects al ↔ al < 0 := Iff.rfl

end Deeprob.Oblig.StructCltFit
