import DeeprobModel.Generated.Consts
import DeeprobModel.Model.CltLoop
set_option linter.unusedVariables false
set_option linter.unusedSimpArgs false
/-
Fifth wave, Chow-Liu trees — the LOOPS of `BinaryCLT.message_passing` and `BinaryCLT.mpe` as extracted by
tools/listprog.py (block K): `Gen.S5cltMessagePassing`, `Gen.S5cltMpeLoop` (fragments `cltree.message_passing.loop`,
`cltree.mpe.loop`; `Gen.S5cltSampleLoop` for `sample`).  The skeletons say which list is walked and in which direction, which slot of
the state an iteration writes and which slots it may read; the numerical content is a parameter.  Obligations:

* `msg_loop_as_coded`, `msg_value_as_coded` — the skeleton of `message_passing` instantiated with the row bodies of
  `Model/CltLoop.lean` IS the fourth-wave definition `Gen.S4cltMessages` (resp. `Gen.S4cltRootValue` of it), whose loop body was
  extracted from the source: so (i) the bodies of `Model/CltLoop.lean` are the source's, and (ii) an iteration of the extracted
  body reads `messages` only at `j` and `tree[j]` and writes only `tree[j]` (what the skeleton's type enforces);
* `mpe_loop_as_coded` — the same for `mpe` (`Gen.S4cltMpe`), for every implementation of `self.message_passing`;
* `mpe_composed_as_coded` — with the generated `message_passing` composed in.
Hypothesis kept explicit: `reduce` is 'mar' or 'mpe' (any other value raises in the source; the fourth-wave definition returns its
`raised` argument there, the skeleton has no such branch).
-/
namespace Deeprob.Oblig.Struct5Clt
open Deeprob Deeprob.Gen Deeprob.CltLoop

variable {α : Type}

/-- one iteration of the EXTRACTED body of the upward loop is a write of slot `tree[j]` with a value computed from the slots
`tree[j]` and `j` -/
theorem msg_step_local [Zero α] [Add α] (params : Int → Int → Int → α) (lse mx : List α → α) (x : List (Option Nat))
    (obs : List Bool) (reduce : String) (hred : reduce = "mar" ∨ reduce = "mpe") (tree : List Int) (raised : List (List α))
    (messages : List (List α)) (j : Int) :
    (let mask := (Py4.getI obs j false);
     let mis_mask := (!mask);
     let obs_values := ((Py3.val (Py4.getI x j none) : Nat) : Int);
     let msg := (Py4.getI messages j []);
     let messages := if mask then Py4.updI messages (Py4.getI tree j 0) (List.zipWith (fun a b => a + b) (Py4.getI messages (Py4.getI tree j 0) []) ((Py4.vec2 (fun l => params j l obs_values)).map (fun a => a + (Py4.getI msg obs_values 0)))) else messages;
     let parent_msg := ((Py4.vec2 (fun l => Py4.vec2 (fun k => params j l k))).map (fun row => List.zipWith (fun a b => a + b) row msg));
     let messages := if (reduce == "mar") then (if mis_mask then Py4.updI messages (Py4.getI tree j 0) (List.zipWith (fun a b => a + b) (Py4.getI messages (Py4.getI tree j 0) []) (parent_msg.map lse)) else messages) else (if (reduce == "mpe") then (if mis_mask then Py4.updI messages (Py4.getI tree j 0) (List.zipWith (fun a b => a + b) (Py4.getI messages (Py4.getI tree j 0) []) (parent_msg.map mx)) else messages) else (raised));
     messages) =
    Py4.updI messages (Py4.getI tree j 0)
      (msgRowBody params lse mx x obs reduce j (Py4.getI messages (Py4.getI tree j 0) []) (Py4.getI messages j [])) := by
  unfold msgRowBody
  cases hm : Py4.getI obs j false
  · rcases hred with h | h <;> subst h <;> simp [hm]
  · rcases hred with h | h <;> subst h <;> simp [hm]

/-- **msg_loop_as_coded**: `message_passing(…, return_lls=False, reduce)` — the generated loop skeleton with the row bodies — returns
the `messages` of the fourth-wave definition -/
theorem msg_loop_as_coded [Zero α] [Add α] (params : Int → Int → Int → α) (root : Int) (bfs tree : List Int) (lse mx : List α → α)
    (raised : List (List α)) (nRows : Nat) (x : List (Option Nat)) (obs : List Bool) (reduce : String)
    (hred : reduce = "mar" ∨ reduce = "mpe") :
    messagePassing params root bfs tree lse mx x obs false reduce =
      .inl (Gen.S4cltMessages params root bfs tree lse mx raised nRows x obs reduce) := by
  unfold messagePassing Gen.S5cltMessagePassing Gen.S4cltMessages
  simp only [Bool.not_false, if_true]
  congr 1
  congr 1
  funext messages j
  exact (msg_step_local params lse mx x obs reduce hred tree raised messages j).symm

theorem root_value_local [Zero α] [Add α] (params : Int → Int → Int → α) (root : Int) (bfs tree : List Int) (lse mx : List α → α)
    (nRows : Nat) (x : List (Option Nat)) (obs : List Bool) (messages : List (List α)) :
    Gen.S4cltRootValue params root bfs tree lse mx nRows x obs messages =
      rootRowValue params root lse x obs (Py4.getI messages root []) := by
  unfold Gen.S4cltRootValue rootRowValue
  cases hm : Py4.getI obs root false <;> simp [hm]

/-- **msg_value_as_coded**: with `return_lls=True` the skeleton returns the root value of the fourth-wave definitions -/
theorem msg_value_as_coded [Zero α] [Add α] (params : Int → Int → Int → α) (root : Int) (bfs tree : List Int) (lse mx : List α → α)
    (raised : List (List α)) (nRows : Nat) (x : List (Option Nat)) (obs : List Bool) (reduce : String)
    (hred : reduce = "mar" ∨ reduce = "mpe") :
    messagePassing params root bfs tree lse mx x obs true reduce =
      .inr (Gen.S4cltRootValue params root bfs tree lse mx nRows x obs
        (Gen.S4cltMessages params root bfs tree lse mx raised nRows x obs reduce)) := by
  have h := msg_loop_as_coded params root bfs tree lse mx raised nRows x obs reduce hred
  unfold messagePassing Gen.S5cltMessagePassing at h ⊢
  simp only [Bool.not_false, if_true, Bool.not_true, Bool.false_eq_true, if_false] at h ⊢
  rw [Sum.inl.injEq] at h
  rw [h, root_value_local]

/-- non-vacuity (two variables, root 0, everything missing; carrier ℕ with `+ := *`, `0 := 1`): the skeleton computes the same
messages and the same value as the fourth-wave definitions, and they are not trivial -/
example :
    let params : Int → Int → Int → Nat := fun i l k => if i = 0 then (if k = 0 then 1 else 2) else (if l = 0 then (if k = 0 then 1 else 3) else (if k = 0 then 2 else 1))
    let sumL : List Nat → Nat := fun v => v.foldr (fun a b => a + b) 0
    let maxL : List Nat → Nat := fun v => v.foldr max 0
    @messagePassing Nat ⟨1⟩ ⟨(· * ·)⟩ params 0 [0, 1] [-1, 0] sumL maxL [none, none] [false, false] false "mar" = .inl [[4, 3], [1, 1]] ∧
    @messagePassing Nat ⟨1⟩ ⟨(· * ·)⟩ params 0 [0, 1] [-1, 0] sumL maxL [none, none] [false, false] true "mar" = .inr (some 10) ∧
    @messagePassing Nat ⟨1⟩ ⟨(· * ·)⟩ params 0 [0, 1] [-1, 0] sumL maxL [none, some 1] [false, true] false "mpe" = .inl [[3, 1], [1, 1]] := by
  decide

/-- one step of the EXTRACTED body of the decoding loop is a masked write of slot `j` with a value computed from slot `tree[j]` -/
theorem mpe_loop_as_coded [Add α] [LT α] [DecidableLT α] (params : Int → Int → Int → α) (root : Int) (bfs tree : List Int)
    (mp : List (Option Nat) → List Bool → Bool → String → Int → List α) (x : List (Option Nat)) :
    mpeWith params root bfs tree mp x = Gen.S4cltMpe params root bfs tree mp x := by
  unfold mpeWith Gen.S5cltMpeLoop Gen.S4cltMpe
  simp only
  have hpre : Py5.storeOpt (fun (x : List (Option Nat)) (i : Int) v => Py4.setI x i.toNat v) x root
        (mpePre params root x (mp x ((x.map Py3.isnan).map (fun b => !b)) false "mpe")) =
      (if Py4.getI (x.map Py3.isnan) root false then Py4.setI x (root).toNat (some (Py4.argmax (List.zipWith (fun a b => a + b)
        (Py4.vec2 (params root (0 : Int))) (mp x ((x.map Py3.isnan).map (fun b => !b)) false "mpe" root)))) else x) := by
    unfold mpePre
    cases Py4.getI (x.map Py3.isnan) root false <;> rfl
  rw [hpre]
  congr 1
  funext y j
  unfold mpeBody
  cases Py4.getI (x.map Py3.isnan) j false <;> rfl

/-- **mpe_composed_as_coded**: `mpe` with the generated `message_passing` composed in (`CltLoop.mpe`: two generated loop skeletons)
is the fourth-wave `Gen.S4cltMpe` fed with the messages of the fourth-wave `Gen.S4cltMessages` -/
theorem mpe_composed_as_coded [Zero α] [Add α] [LT α] [DecidableLT α] (params : Int → Int → Int → α) (root : Int) (bfs tree : List Int)
    (lse mx : List α → α) (raised : List (List α)) (nRows : Nat) (x : List (Option Nat)) :
    CltLoop.mpe params root bfs tree lse mx x =
      Gen.S4cltMpe params root bfs tree
        (fun x obs _ reduce i => Py4.getI (Gen.S4cltMessages params root bfs tree lse mx raised nRows x obs reduce) i []) x := by
  unfold CltLoop.mpe
  rw [mpe_loop_as_coded]
  unfold Gen.S4cltMpe
  simp only
  rw [msg_loop_as_coded params root bfs tree lse mx raised nRows x _ "mpe" (Or.inr rfl)]
  rfl

example :
    let params : Int → Int → Int → Nat := fun i l k => if i = 0 then (if k = 0 then 1 else 2) else (if l = 0 then (if k = 0 then 1 else 3) else (if k = 0 then 2 else 1))
    let sumL : List Nat → Nat := fun v => v.foldr (fun a b => a + b) 0
    let maxL : List Nat → Nat := fun v => v.foldr max 0
    @CltLoop.mpe Nat ⟨1⟩ ⟨(· * ·)⟩ _ _ params 0 [0, 1, 2] [-1, 0, 1] sumL maxL [none, none, some 0] = [some 0, some 1, some 0] ∧
    @CltLoop.mpe Nat ⟨1⟩ ⟨(· * ·)⟩ _ _ params 0 [0, 1, 2] [-1, 0, 1] sumL maxL [none, none, some 1] = [some 1, some 0, some 1] := by
  decide

end Deeprob.Oblig.Struct5Clt
