import DeeprobModel.Oblig.Struct4Clt
/-
Fourth wave, (b) continued — the WHOLE decoding loop of `BinaryCLT.mpe` (as extracted: `Gen.S4cltMpe`) against the recursive
model `Clt.decodeList` / `Clt.decode` of `Model/CltPc.lean` — C06.

The code walks the variables in the order `self.bfs` and reads, for each of them, the value currently stored for its parent;
the model descends the rooted tree.  `mpe_loop_is_decode`: for ANY order in which every variable comes after its parent
(breadth-first order is one), the row returned by the extracted function agrees with the model's `decode` on every variable
of the tree and is unchanged elsewhere.  (The informal argument in the doc comment of `Clt.decodeList` — "every value depends
only on the parent's value, so the order of the walk does not matter" — made formal, about the code as extracted.)
-/
set_option linter.unusedSectionVars false
set_option linter.unusedSimpArgs false
set_option linter.unusedVariables false
set_option linter.unusedTactic false
set_option linter.unreachableTactic false
namespace Deeprob.Struct4
open Deeprob Deeprob.Clt

section
variable {α : Type} [CommSemiring α] [LinearOrder α] [IsStrictOrderedRing α]

/-- the decisions of the decoding pass keyed by LOCAL INDEX (the pairs of `decodeList` are keyed by variable id) -/
def decIdx (scope : List Nat) (cpt : List (List (List α))) : RTree → Nat → Ev → List (Nat × Nat)
  | .node i cs, l, e =>
    (i, chosen scope cpt i cs l e) :: (cs.map (fun c => decIdx scope cpt c (chosen scope cpt i cs l e) e)).flatten

/-- `Dec … t l j o`: the decoding pass on the sub-tree `t`, whose parent received the value `l`, gives the value `o` to the
local index `j` -/
def Dec (scope : List Nat) (cpt : List (List (List α))) (e : Ev) (t : RTree) (l j o : Nat) : Prop :=
  (j, o) ∈ decIdx scope cpt t l e

theorem dec_node (scope : List Nat) (cpt : List (List (List α))) (e : Ev) (i : Nat) (cs : List RTree) (l j o : Nat) :
    Dec scope cpt e (.node i cs) l j o ↔
      (j = i ∧ o = chosen scope cpt i cs l e) ∨ ∃ c ∈ cs, Dec scope cpt e c (chosen scope cpt i cs l e) j o := by
  unfold Dec
  rw [decIdx]
  simp only [List.mem_cons, Prod.mk.injEq, List.mem_flatten, List.mem_map]
  constructor
  · rintro (h | ⟨_, ⟨c, hc, rfl⟩, hm⟩)
    · exact Or.inl h
    · exact Or.inr ⟨c, hc, hm⟩
  · rintro (h | ⟨c, hc, hm⟩)
    · exact Or.inl h
    · exact Or.inr ⟨_, ⟨c, hc, rfl⟩, hm⟩

/-- the pairs of `decodeList` are the decisions `Dec`, keyed by the variable id of the local index -/
theorem mem_decodeList (scope : List Nat) (cpt : List (List (List α))) (e : Ev) : (t : RTree) → (l v o : Nat) →
    ((v, o) ∈ decodeList scope cpt t l e ↔ ∃ j, v = scope.getD j 0 ∧ Dec scope cpt e t l j o)
  | .node i cs, l, v, o => by
    rw [decodeList_node]
    simp only [List.mem_cons, Prod.mk.injEq, List.mem_flatten, List.mem_map, dec_node]
    constructor
    · rintro (⟨hv, ho⟩ | ⟨_, ⟨c, hc, rfl⟩, hm⟩)
      · exact ⟨i, hv, Or.inl ⟨rfl, ho⟩⟩
      · obtain ⟨j, hj, hd⟩ := (mem_decodeList scope cpt e c _ v o).1 hm
        exact ⟨j, hj, Or.inr ⟨c, hc, hd⟩⟩
    · rintro ⟨j, hj, (⟨rfl, ho⟩ | ⟨c, hc, hd⟩)⟩
      · exact Or.inl ⟨hj, ho⟩
      · exact Or.inr ⟨_, ⟨c, hc, rfl⟩, (mem_decodeList scope cpt e c _ v o).2 ⟨j, hj, hd⟩⟩

/-- `p` is the parent of `j` somewhere in `t` -/
def IsChild (t : RTree) (p j : Nat) : Prop := ∃ cs, RTree.node p cs ∈ t.subtrees ∧ ∃ c ∈ cs, c.idx = j

theorem subtrees_child {i : Nat} {cs : List RTree} {c u : RTree} (hc : c ∈ cs) (hu : u ∈ c.subtrees) :
    u ∈ (RTree.node i cs).subtrees := (subtrees_node i cs u).2 (Or.inr ⟨c, hc, hu⟩)

theorem isChild_lift {i : Nat} {cs : List RTree} {c : RTree} (hc : c ∈ cs) {p j : Nat} (h : IsChild c p j) :
    IsChild (.node i cs) p j := by
  obtain ⟨cs', hm, hex⟩ := h
  exact ⟨cs', subtrees_child hc hm, hex⟩

/-- every decision is the root's, or the decision of a child of an already decided parent, computed from the parent's value -/
theorem dec_parent (scope : List Nat) (cpt : List (List (List α))) (e : Ev) : (t : RTree) → (l j o : Nat) →
    Dec scope cpt e t l j o →
      (j = t.idx ∧ o = chosen scope cpt t.idx t.kids l e) ∨
      ∃ p op cs, IsChild t p j ∧ Dec scope cpt e t l p op ∧ RTree.node j cs ∈ t.subtrees ∧ o = chosen scope cpt j cs op e
  | .node i cs, l, j, o, h => by
    rcases (dec_node scope cpt e i cs l j o).1 h with ⟨rfl, ho⟩ | ⟨c, hc, hd⟩
    · exact Or.inl ⟨rfl, ho⟩
    · right
      have hself : Dec scope cpt e (.node i cs) l i (chosen scope cpt i cs l e) :=
        (dec_node scope cpt e i cs l i _).2 (Or.inl ⟨rfl, rfl⟩)
      rcases dec_parent scope cpt e c _ j o hd with ⟨hj, ho⟩ | ⟨p, op, cs', hch, hdp, hm, ho⟩
      · refine ⟨i, chosen scope cpt i cs l e, c.kids, ⟨cs, subtrees_self _, c, hc, hj.symm⟩, hself, ?_, ?_⟩
        · have : RTree.node j c.kids = c := by cases c; simp only [RTree.idx] at hj; subst hj; rfl
          rw [this]; exact subtrees_child hc (subtrees_self c)
        · rw [ho, hj]
      · exact ⟨p, op, cs', isChild_lift hc hch, (dec_node scope cpt e i cs l p op).2 (Or.inr ⟨c, hc, hdp⟩),
          subtrees_child hc hm, ho⟩

/-! ### the loop -/

/-- the linear-domain reading of the table and of the max-product messages of the tree `t` under the evidence `e` -/
def paramsOf (cpt : List (List (List α))) : Int → Int → Int → α := fun i l k => cptAt cpt i.toNat l.toNat k.toNat

/-- what the model says `messages[j, row, :]` is (linear domain): the product of the children's max-messages -/
def MsgsOK (scope : List Nat) (cpt : List (List (List α))) (e : Ev) (t : RTree) (msgs : Int → List α) : Prop :=
  ∀ j cs, RTree.node j cs ∈ t.subtrees → msgs (j : Int) = [msgMax scope cpt cs 0 e, msgMax scope cpt cs 1 e]

/-- the facts about the data handed to the loop -/
structure LoopOK (scope : List Nat) (cpt : List (List (List α))) (e : Ev) (t : RTree) (tree : List Int) (msgs : Int → List α)
    (x0 : List (Option Nat)) (L : List Nat) : Prop where
  /-- the evidence of the variables is the input row -/
  ev : ∀ j, j < x0.length → e (scope.getD j 0) = x0.getD j none
  /-- `self.tree` gives the parents of `t` -/
  par : ∀ p j, IsChild t p j → Gen.Py4.getI tree (j : Int) 0 = (p : Int)
  msgs : MsgsOK scope cpt e t msgs
  /-- the root is nobody's child -/
  root : ∀ p, ¬ IsChild t p t.idx
  /-- the order: no repetition, the root first (not repeated), every variable after its parent, all inside the row -/
  nodup : L.Nodup
  rootOut : t.idx ∉ L
  parentFirst : ∀ A j B, L = A ++ j :: B → ∀ p, IsChild t p j → p = t.idx ∨ p ∈ A
  bound : ∀ j, (j = t.idx ∨ j ∈ L) → j < x0.length

/-- invariant: the processed indices hold their decisions, the others the input -/
structure Inv (scope : List Nat) (cpt : List (List (List α))) (e : Ev) (t : RTree) (x0 : List (Option Nat)) (P : Nat → Prop)
    (x : List (Option Nat)) : Prop where
  done : ∀ j, P j → ∀ o, Dec scope cpt e t 0 j o → x.getD j none = some o
  rest : ∀ j, ¬ P j → x.getD j none = x0.getD j none
  len : x.length = x0.length

theorem getI_natCast {β : Type} (a : List β) (j : Nat) (d : β) : Gen.Py4.getI a (j : Int) d = a.getD j d := by
  unfold Gen.Py4.getI
  have hn : ¬ ((j : Int) < 0) := by omega
  simp [hn]

theorem getD_set {β : Type} (a : List β) (j k : Nat) (v d : β) (hj : j < a.length) :
    (a.set j v).getD k d = if k = j then v else a.getD k d := by
  simp only [List.getD_eq_getElem?_getD, List.getElem?_set]
  by_cases h : j = k
  · subst h; simp [hj]
  · have h' : ¬ k = j := fun hh => h hh.symm
    simp [h, h']

theorem chosen_observed (scope : List Nat) (cpt : List (List (List α))) (e : Ev) (i : Nat) (cs : List RTree) (l v : Nat)
    (h : e (scope.getD i 0) = some v) : chosen scope cpt i cs l e = v := by
  unfold chosen; rw [h]

/-- one iteration preserves the invariant -/
theorem step_inv (scope : List Nat) (cpt : List (List (List α))) (e : Ev) (t : RTree) (tree : List Int) (msgs : Int → List α)
    (x0 : List (Option Nat)) (L : List Nat) (ok : LoopOK scope cpt e t tree msgs x0 L) (P : Nat → Prop) (x : List (Option Nat))
    (inv : Inv scope cpt e t x0 P x) (j : Nat) (hjP : ¬ P j) (hjr : j ≠ t.idx) (hjb : j < x0.length)
    (hpar : ∀ p, IsChild t p j → P p) :
    Inv scope cpt e t x0 (fun k => k = j ∨ P k)
      (@mpeStep α ⟨(· * ·)⟩ _ _ (paramsOf cpt) tree msgs (x0.map Option.isNone) x (j : Int)) := by
  have hxj : x.getD j none = x0.getD j none := inv.rest j hjP
  cases hx0 : x0.getD j none with
  | some v =>
    -- observed: nothing is written, and every decision for `j` is the observed value
    have hstep : @mpeStep α ⟨(· * ·)⟩ _ _ (paramsOf cpt) tree msgs (x0.map Option.isNone) x (j : Int) = x :=
      @mpeStep_observed α ⟨(· * ·)⟩ _ _ (paramsOf cpt) tree msgs x0 x j (by rw [hx0]; rfl)
    rw [hstep]
    refine ⟨?_, fun k hk => inv.rest k (fun h => hk (Or.inr h)), inv.len⟩
    intro k hk o hd
    rcases hk with rfl | hk
    · rw [hxj, hx0]
      have he : e (scope.getD k 0) = some v := by rw [ok.ev k hjb, hx0]
      rcases dec_parent scope cpt e t 0 k o hd with ⟨hr, _⟩ | ⟨p, op, cs, _, _, _, ho⟩
      · exact absurd hr hjr
      · rw [ho, chosen_observed scope cpt e k cs op v he]
    · exact inv.done k hk o hd
  | none =>
    have he : e (scope.getD j 0) = none := by rw [ok.ev j hjb, hx0]
    have hmis : Gen.Py4.getI (x0.map Option.isNone) (j : Int) false = true := by
      rw [getI_natCast, List.getD_eq_getElem?_getD, List.getElem?_map]
      rw [List.getD_eq_getElem?_getD] at hx0
      rw [List.getElem?_eq_getElem hjb] at hx0 ⊢
      simp only [Option.getD_some, Option.map_some] at hx0 ⊢
      rw [hx0]; rfl
    have hjx : j < x.length := by rw [inv.len]; exact hjb
    unfold mpeStep
    simp only [hmis, if_true, Int.toNat_natCast, Gen.Py4.setI]
    refine ⟨?_, ?_, by simp [inv.len]⟩
    · intro k hk o hd
      rw [getD_set _ _ _ _ _ hjx]
      by_cases hkj : k = j
      · subst hkj
        simp only [if_true]
        rcases dec_parent scope cpt e t 0 k o hd with ⟨hr, _⟩ | ⟨p, op, cs, hch, hdp, hm, ho⟩
        · exact absurd hr hjr
        · have hp : x.getD p none = some op := inv.done p (hpar p hch) op hdp
          have hpv : ((Gen.Py3.val (Gen.Py4.getI x (Gen.Py4.getI tree (k : Int) 0) none) : Nat) : Int) = (op : Int) := by
            rw [ok.par p k hch, getI_natCast, hp]; rfl
          rw [hpv, ho]
          congr 1
          exact pickOf_is_chosen scope cpt k cs op e msgs (ok.msgs k cs hm) he
      · simp only [hkj, if_false]
        rcases hk with rfl | hk
        · exact absurd rfl hkj
        · exact inv.done k hk o hd
    · intro k hk
      have hkj : ¬ k = j := fun h => hk (Or.inl h)
      rw [getD_set _ _ _ _ _ hjx]
      simp only [hkj, if_false]
      exact inv.rest k (fun h => hk (Or.inr h))

/-- the iterations over the rest of the order -/
theorem loop_inv (scope : List Nat) (cpt : List (List (List α))) (e : Ev) (t : RTree) (tree : List Int) (msgs : Int → List α)
    (x0 : List (Option Nat)) (L : List Nat) (ok : LoopOK scope cpt e t tree msgs x0 L) :
    ∀ (B A : List Nat) (x : List (Option Nat)), L = A ++ B → Inv scope cpt e t x0 (fun k => k = t.idx ∨ k ∈ A) x →
      Inv scope cpt e t x0 (fun k => k = t.idx ∨ k ∈ L)
        ((B.map (fun (a : Nat) => (a : Int))).foldl (@mpeStep α ⟨(· * ·)⟩ _ _ (paramsOf cpt) tree msgs (x0.map Option.isNone)) x) := by
  intro B
  induction B with
  | nil =>
    intro A x hL inv
    simp only [List.append_nil] at hL
    subst hL
    simpa using inv
  | cons j B ih =>
    intro A x hL inv
    have hjL : j ∈ L := by rw [hL]; simp
    have hnd : (A ++ j :: B).Nodup := hL ▸ ok.nodup
    have hjA : j ∉ A := by
      intro h
      have := (List.nodup_append.1 hnd).2.2 j h j (by simp)
      exact this rfl
    have hjr : j ≠ t.idx := fun h => ok.rootOut (h ▸ hjL)
    have hjP : ¬ (j = t.idx ∨ j ∈ A) := by rintro (h | h); exact hjr h; exact hjA h
    have hpar : ∀ p, IsChild t p j → (p = t.idx ∨ p ∈ A) := fun p hp => ok.parentFirst A j B hL p hp
    have hstep := step_inv scope cpt e t tree msgs x0 L ok _ x inv j hjP hjr (ok.bound j (Or.inr hjL)) hpar
    simp only [List.map_cons, List.foldl_cons]
    have hL' : L = (A ++ [j]) ++ B := by rw [hL]; simp
    apply ih (A ++ [j]) _ hL'
    refine ⟨fun k hk => hstep.done k ?_, fun k hk => hstep.rest k ?_, hstep.len⟩
    · rcases hk with h | h
      · exact Or.inr (Or.inl h)
      · rcases List.mem_append.1 h with h | h
        · exact Or.inr (Or.inr h)
        · exact Or.inl (by simpa using h)
    · rintro (h | h | h)
      · exact hk (Or.inr (by simp [h]))
      · exact hk (Or.inl h)
      · exact hk (Or.inr (by simp [h]))

/-- **`BinaryCLT.mpe` as extracted is the model's decoding pass, for every parent-first order.**  With the table read in the
linear domain, the messages the model prescribes (`MsgsOK`), `tree` the parent vector of `t`, and the order `root :: L`
listing every variable after its parent: the returned row holds, at every local index `j` of the order, every decision
`Dec … t 0 j o` of the recursive pass, and the input entry everywhere else. -/
theorem mpe_loop_is_dec (scope : List Nat) (cpt : List (List (List α))) (e : Ev) (t : RTree) (tree : List Int)
    (mp : List (Option Nat) → List Bool → Bool → String → Int → List α) (x0 : List (Option Nat)) (L : List Nat)
    (ok : LoopOK scope cpt e t tree (mp x0 (x0.map (fun o => !o.isNone)) false "mpe") x0 L) :
    Inv scope cpt e t x0 (fun k => k = t.idx ∨ k ∈ L)
      (@Gen.S4cltMpe α ⟨(· * ·)⟩ _ _ (paramsOf cpt) (t.idx : Int) ((t.idx :: L).map (fun (a : Nat) => (a : Int))) tree mp x0) := by
  rw [@mpe_as_coded α ⟨(· * ·)⟩ _ _]
  simp only [List.map_cons, List.drop_succ_cons, List.drop_zero]
  apply loop_inv scope cpt e t tree _ x0 L ok L [] _ (by simp)
  -- the root
  have hrb : t.idx < x0.length := ok.bound t.idx (Or.inl rfl)
  have hroot : ∀ o, Dec scope cpt e t 0 t.idx o → o = chosen scope cpt t.idx t.kids 0 e := by
    intro o hd
    rcases dec_parent scope cpt e t 0 t.idx o hd with ⟨_, ho⟩ | ⟨p, _, _, hch, _, _, _⟩
    · exact ho
    · exact absurd hch (ok.root p)
  have htm : RTree.node t.idx t.kids ∈ t.subtrees := by
    have : RTree.node t.idx t.kids = t := by cases t; rfl
    rw [this]; exact subtrees_self t
  cases hx0 : x0.getD t.idx none with
  | some v =>
    have hmis : Gen.Py4.getI (x0.map Option.isNone) (t.idx : Int) false = false := by
      rw [getI_natCast, List.getD_eq_getElem?_getD, List.getElem?_map]
      rw [List.getD_eq_getElem?_getD, List.getElem?_eq_getElem hrb] at hx0
      rw [List.getElem?_eq_getElem hrb]
      simp only [Option.getD_some, Option.map_some] at hx0 ⊢
      rw [hx0]; rfl
    simp only [hmis, Bool.false_eq_true, if_false]
    refine ⟨?_, fun k _ => rfl, rfl⟩
    intro k hk o hd
    have hk' : k = t.idx := by simpa using hk
    subst hk'
    rw [hx0, hroot o hd, chosen_observed scope cpt e _ _ _ v (by rw [ok.ev _ hrb, hx0])]
  | none =>
    have hmis : Gen.Py4.getI (x0.map Option.isNone) (t.idx : Int) false = true := by
      rw [getI_natCast, List.getD_eq_getElem?_getD, List.getElem?_map]
      rw [List.getD_eq_getElem?_getD, List.getElem?_eq_getElem hrb] at hx0
      rw [List.getElem?_eq_getElem hrb]
      simp only [Option.getD_some, Option.map_some] at hx0 ⊢
      rw [hx0]; rfl
    simp only [hmis, if_true, Int.toNat_natCast, Gen.Py4.setI]
    refine ⟨?_, ?_, by simp⟩
    · intro k hk o hd
      have hk' : k = t.idx := by simpa using hk
      subst hk'
      rw [getD_set _ _ _ _ _ hrb]
      simp only [if_true]
      rw [hroot o hd]
      congr 1
      have h0 : ((0 : Int)) = ((0 : Nat) : Int) := rfl
      rw [h0]
      exact pickOf_is_chosen scope cpt t.idx t.kids 0 e _ (ok.msgs t.idx t.kids htm) (by rw [ok.ev _ hrb, hx0])
    · intro k hk
      have hk' : ¬ k = t.idx := by simpa using hk
      rw [getD_set _ _ _ _ _ hrb]
      simp only [hk', if_false]

/-- … hence it is `Clt.decode` on the variables of the tree (variable ids injective on the tree's indices) -/
theorem mpe_loop_is_decode (scope : List Nat) (cpt : List (List (List α))) (e : Ev) (t : RTree) (tree : List Int)
    (mp : List (Option Nat) → List Bool → Bool → String → Int → List α) (x0 : List (Option Nat)) (L : List Nat)
    (ok : LoopOK scope cpt e t tree (mp x0 (x0.map (fun o => !o.isNone)) false "mpe") x0 L)
    (hinj : ∀ i j o o', Dec scope cpt e t 0 i o → Dec scope cpt e t 0 j o' → scope.getD i 0 = scope.getD j 0 → i = j)
    (j o : Nat) (hj : j = t.idx ∨ j ∈ L) (hd : Dec scope cpt e t 0 j o) :
    (@Gen.S4cltMpe α ⟨(· * ·)⟩ _ _ (paramsOf cpt) (t.idx : Int) ((t.idx :: L).map (fun (a : Nat) => (a : Int))) tree mp x0).getD j none
      = decode scope cpt t 0 e (scope.getD j 0) := by
  have inv := mpe_loop_is_dec scope cpt e t tree mp x0 L ok
  rw [inv.done j hj o hd]
  unfold decode
  rcases over_cases (decodeList scope cpt t 0 e) e (scope.getD j 0) with ⟨k, hk, hov⟩ | ⟨hnk, _⟩
  · rw [hov]
    obtain ⟨i, hi, hdi⟩ := (mem_decodeList scope cpt e t 0 _ k).1 hk
    have hij : j = i := hinj j i o k hd hdi hi
    subst hij
    have := inv.done j hj k hdi
    rw [inv.done j hj o hd] at this
    exact this
  · exfalso
    apply hnk
    exact List.mem_map.2 ⟨(scope.getD j 0, o), (mem_decodeList scope cpt e t 0 _ o).2 ⟨j, rfl, hd⟩, rfl⟩

/-! ### non-vacuity: a star `0 → {1, 2}` with variable 1 observed, in the order `0, 1, 2` -/
namespace ExLoop

def t : RTree := .node 0 [.node 1 [], .node 2 []]
def scope : List Nat := [0, 1, 2]
def cpt : List (List (List ℚ)) := [[[1/2, 1/2], [1/2, 1/2]], [[1/4, 3/4], [2/3, 1/3]], [[1/5, 4/5], [1/2, 1/2]]]
def x0 : List (Option Nat) := [none, some 0, none]
def e : Ev := Ev.ofList x0
def msgs : Int → List ℚ := fun i =>
  if i = 0 then [msgMax scope cpt [.node 1 [], .node 2 []] 0 e, msgMax scope cpt [.node 1 [], .node 2 []] 1 e]
  else [msgMax scope cpt [] 0 e, msgMax scope cpt [] 1 e]

theorem isChild_iff (p j : Nat) : IsChild t p j ↔ p = 0 ∧ (j = 1 ∨ j = 2) := by
  unfold IsChild t
  simp only [RTree.subtrees, List.map_cons, List.map_nil, List.flatten_cons, List.flatten_nil, List.append_nil, List.cons_append,
    List.nil_append, List.mem_cons, List.not_mem_nil, or_false, RTree.node.injEq]
  constructor
  · rintro ⟨cs, (⟨rfl, rfl⟩ | ⟨rfl, rfl⟩ | ⟨rfl, rfl⟩), c, hc, hj⟩
    · simp only [List.mem_cons, List.not_mem_nil, or_false] at hc
      rcases hc with rfl | rfl
      · exact ⟨rfl, Or.inl hj.symm⟩
      · exact ⟨rfl, Or.inr hj.symm⟩
    · simp at hc
    · simp at hc
  · rintro ⟨rfl, (rfl | rfl)⟩
    · exact ⟨_, Or.inl ⟨rfl, rfl⟩, .node 1 [], by simp, rfl⟩
    · exact ⟨_, Or.inl ⟨rfl, rfl⟩, .node 2 [], by simp, rfl⟩

theorem ok : LoopOK scope cpt e t [-1, 0, 0] msgs x0 [1, 2] where
  ev := by
    intro j hj
    have : j < 3 := hj
    rcases j with _ | _ | _ | j <;> first | rfl | omega
  par := by
    intro p j h
    obtain ⟨rfl, (rfl | rfl)⟩ := (isChild_iff p j).1 h <;> rfl
  msgs := by
    intro j cs h
    unfold t at h
    simp only [RTree.subtrees, List.map_cons, List.map_nil, List.flatten_cons, List.flatten_nil, List.append_nil, List.cons_append,
      List.nil_append, List.mem_cons, List.not_mem_nil, or_false, RTree.node.injEq] at h
    rcases h with ⟨rfl, rfl⟩ | ⟨rfl, rfl⟩ | ⟨rfl, rfl⟩ <;> rfl
  root := by
    intro p h
    have := (isChild_iff p t.idx).1 h
    simp [t, RTree.idx] at this
  nodup := by decide
  rootOut := by decide
  parentFirst := by
    intro A j B hL p hp
    exact Or.inl ((isChild_iff p j).1 hp).1
  bound := by
    intro j hj
    rcases hj with rfl | hj
    · decide
    · simp only [List.mem_cons, List.not_mem_nil, or_false] at hj
      rcases hj with rfl | rfl <;> decide

/-- the extracted function on this row satisfies the invariant of `mpe_loop_is_dec` (all hypotheses discharged) -/
example :
    Inv scope cpt e t x0 (fun k => k = 0 ∨ k ∈ [1, 2])
      (@Gen.S4cltMpe ℚ ⟨(· * ·)⟩ _ _ (paramsOf cpt) 0 [0, 1, 2] [-1, 0, 0] (fun _ _ _ _ => msgs) x0) :=
  mpe_loop_is_dec scope cpt e t [-1, 0, 0] (fun _ _ _ _ => msgs) x0 [1, 2] ok

end ExLoop

end

end Deeprob.Struct4
