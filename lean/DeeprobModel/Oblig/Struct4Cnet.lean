import DeeprobModel.Generated.Consts
import DeeprobModel.Model.CnetLearn
import DeeprobModel.Oblig.Struct3Cnet
import Mathlib.Algebra.Order.Field.Basic
import Mathlib.Algebra.Order.Field.Rat
import Mathlib.Tactic.Ring
import Mathlib.Tactic.Linarith
import Mathlib.Tactic.NormNum
import Mathlib.Tactic.FieldSimp
/-
Fourth wave, (e) — static tie of `Model/CnetLearn.lean` (`step`, `consults`, `candCrash`, `leftWeight`, `childPar`, `side`) to the
bodies of the `while node_stack:` loops of /repo/deeprob/spn/structure/cnet.py (`BinaryCNet.fit`) and
/repo/deeprob/spn/learning/cnet_bayesian.py (`learn_cnet_bd`, `learn_cnet_bic`, `select_cand_cuts`) — C18.

`Gen.S4cnetFitStep` / `Gen.S4cnetBdStep` / `Gen.S4cnetBicStep` are the loop bodies executed symbolically on the current
AST (pop side, stop rules, the two row sides, `np.delete` of the cut column, `del new_scope[idx]`, the weights formula, the
order of the two `append`s, the attributes set on the node).  Scores are oracles on both sides: the answer of
`__select_variable_entropy`, resp. the values left by the candidate search, are parameters of the generated definitions
and the model's script entry (`Dec.stop` / `Dec.cut v`) is their outcome.
-/
set_option linter.unusedSectionVars false
set_option linter.unusedSimpArgs false
set_option linter.unusedVariables false
namespace Deeprob.Struct4
open Deeprob Deeprob.CnetLearn

variable {α : Type} [Field α] [LinearOrder α]

/-- a node of the model's table as the `BinaryCNet` object of the code: over the variables `0 … n-1` the column indices
are the scope (`col_indices = scope` at the root, and both lose the same position at every cut) -/
def toS4 (nd : Node α) : Gen.S4CNode Unit := { scope := nd.scope, rows := nd.rows, cols := nd.scope }

/-- the model's table cell for a freshly created child object, queued with the parameter `p` -/
def ofS4 (p : α) (c : Gen.S4CNode Unit) : Node α := { rows := c.rows, scope := c.scope, par := p }

/-- column `k` of the partition of node `nd` when `col_indices[k]` is the variable `v` -/
def cutcolOf (data : List (List Nat)) (nd : Node α) (v : Nat) : List Int :=
  nd.rows.map (fun r => ((cellOf data r v : Nat) : Int))

theorem side_as_coded (data : List (List Nat)) (nd : Node α) (v b : Nat) :
    Gen.Py3.rowsWhere nd.rows ((cutcolOf data nd v).map (fun a => a == ((b : Nat) : Int))) = side data v b nd.rows := by
  unfold cutcolOf side
  rw [Struct3.rowsWhere_map]
  congr 1
  funext r
  by_cases h : cellOf data r v = b
  · simp [h]
  · have : ¬ ((cellOf data r v : Int) = (b : Int)) := by omega
    simp [h, this]

theorem delete_as_erase (scope : List Nat) (v : Nat) :
    Gen.Py3.delete scope (scope.idxOf v) = scope.erase v := (List.erase_eq_eraseIdx_of_idxOf rfl).symm

theorem getI_idxOf (scope : List Nat) (v : Nat) (hv : v ∈ scope) :
    Gen.Py4.getI scope ((scope.idxOf v : Nat) : Int) 0 = v := by
  unfold Gen.Py4.getI
  have hn : ¬ (((scope.idxOf v : Nat) : Int) < 0) := by omega
  have h := List.idxOf_lt_length_iff.2 hv
  simp [hn, List.getD_eq_getElem?_getD, List.getElem?_eq_getElem h]

theorem natCast_beq_one (n : Nat) : (((n : Nat) : Int) == 1) = (n == 1) := by
  by_cases h : n = 1
  · subst h; rfl
  · have h' : ¬ ((n : Int) = 1) := by omega
    simp [h, h']

/-- the two children and the weights a cut on `v` produces, as the model's `step` computes them -/
def cutOf (k : CnetLearn.Kind) (data : List (List Nat)) (nd : Node α) (v : Nat) : Gen.S4CNode Unit × Gen.S4CNode Unit × α :=
  ({ scope := nd.scope.erase v, rows := side data v 0 nd.rows, cols := nd.scope.erase v },
   { scope := nd.scope.erase v, rows := side data v 1 nd.rows, cols := nd.scope.erase v },
   leftWeight k nd.par (side data v 0 nd.rows).length nd.rows.length)

/-! ### `BinaryCNet.fit` -/

/-- **one iteration of `fit` as coded.**  With `alpha` = the node's parameter and the answer
`(selIdx, meanEntropy, maxGain)` of `__select_variable_entropy`:
* the node becomes a leaf (`fit_clt(partition, alpha)`, nothing pushed) iff the model does not consult the oracle
  (`n_samples <= min_n_samples or n_features <= min_n_features`) or the oracle's answer is a stop
  (`mean_entropy < min_mean_entropy or max_info_gain <= 0`);
* otherwise the cut variable is `node.scope[best_or_idx]`, the children get the rows with value 0 / 1 in that column, the
  scope and the column indices without that position, the weights are `leftWeight .fit` and its complement, and the LEFT
  child is pushed before the RIGHT one at the back of the stack (`node.children = [left, right]`) -/
theorem fitStep_as_coded (cfg : Cfg) (hk : cfg.kind = .fit) (data : List (List Nat)) (nd : Node α)
    (stack : List (Gen.S4CNode Unit)) (v : Nat) (hv : v ∈ nd.scope) (mme me mg : α) :
    Gen.S4cnetFitStep (toS4 nd) stack (fun _ => cutcolOf data nd v) nd.par mme (cfg.minSamples : Int) (cfg.minFeatures : Int)
        ((nd.scope.idxOf v : Nat) : Int) me mg =
      (if !consults cfg nd.rows.length nd.scope.length || (decide (me < mme) || decide (mg ≤ 0)) then
         (stack, [], [], none, "fit_clt(partition, alpha)")
       else
         let c := cutOf CnetLearn.Kind.fit data nd v
         (stack ++ [c.1, c.2.1], [c.1, c.2.1], [c.2.2, 1 - c.2.2], some v, "unchanged")) := by
  unfold Gen.S4cnetFitStep consults
  have e0 : ((0 : Nat) : Int) = (0 : Int) := rfl
  have e1 : ((1 : Nat) : Int) = (1 : Int) := rfl
  have s0 := side_as_coded data nd v 0
  have s1 := side_as_coded data nd v 1
  rw [e0] at s0; rw [e1] at s1
  simp only [hk, toS4, Nat.cast_le, Int.cast_zero, Int.cast_natCast, Int.cast_ofNat, Int.cast_one, Int.toNat_natCast,
    s0, s1, delete_as_erase, getI_idxOf nd.scope v hv, cutOf, leftWeight]
  by_cases h1 : (decide (nd.rows.length ≤ cfg.minSamples) || decide (nd.scope.length ≤ cfg.minFeatures)) = true
  · simp only [h1, if_true, Bool.not_true, Bool.not_false, Bool.true_or]
  · simp only [h1, Bool.false_eq_true, if_false, Bool.not_false, Bool.not_true, Bool.false_or]
    by_cases h2 : (decide (me < mme) || decide (mg ≤ 0)) = true
    · simp only [h2, if_true]
    · simp only [h2, Bool.false_eq_true, if_false]
      norm_num

/-- **the model's `step` at a cut is the generated iteration** (`fit`): the cell of the node receives the split with the
coded weights, the two coded child objects are appended to the table in the coded order and queued at the back -/
theorem step_fit_cut_as_coded (cfg : Cfg) (hk : cfg.kind = .fit) (data : List (List Nat)) (s : St α) (i : Nat) (q : List Nat)
    (sc : List Dec) (v : Nat) (nd : Node α) (hnd : getN s.nodes i = nd) (hq : s.queue = i :: q) (hs : s.script = .cut v :: sc)
    (hc : consults cfg nd.rows.length nd.scope.length = true) (hv : v ∈ nd.scope)
    (mme me mg : α) (hgo : (decide (me < mme) || decide (mg ≤ 0)) = false) :
    step cfg data s = .ok
      (let G := Gen.S4cnetFitStep (toS4 nd) ([] : List (Gen.S4CNode Unit)) (fun _ => cutcolOf data nd v) nd.par mme
        (cfg.minSamples : Int) (cfg.minFeatures : Int) ((nd.scope.idxOf v : Nat) : Int) me mg
       { nodes := s.nodes.set i { nd with split := some { v := (G.2.2.2.1).getD 0, w0 := G.2.2.1.getD 0 0, w1 := G.2.2.1.getD 1 0,
                                                            l := s.nodes.length, r := s.nodes.length + 1 } }
                    ++ G.2.1.map (ofS4 (childPar cfg.kind nd.par)),
         queue := q ++ [s.nodes.length, s.nodes.length + 1], script := sc }) := by
  have hG := fitStep_as_coded cfg hk data nd [] v hv mme me mg
  simp only [hc, hgo, Bool.not_true, Bool.or_false, Bool.false_eq_true, if_false] at hG
  simp only [hG]
  unfold step
  have hcand : candCrash cfg nd.scope.length = false := by simp [candCrash, hk]
  have hcont : nd.scope.contains v = true := by simpa using hv
  have hkind : (cfg.kind != CnetLearn.Kind.fit) = false := by simp [hk]
  have hself : (CnetLearn.Kind.fit != CnetLearn.Kind.fit) = false := by decide
  simp only [hself, hq, hs, hnd, hc, Bool.not_true, Bool.false_eq_true, if_false, hcand, hcont, hkind, Bool.false_and, cutOf, List.map_cons,
    List.map_nil, ofS4, List.getD_cons_zero, List.getD_cons_succ, Option.getD_some, hk, childPar]

/-- the start of `fit` and its end: the stack starts as the single temporary root over all rows and all columns (scope =
columns = `0 … n-1`), nodes are taken from the FRONT (`pop(0)`), and `or_id`, `children`, `weights`, `clt` are copied from
the temporary root to `self` (`clt`: the F11 repair, the model's `keepRootClt = true`) -/
theorem fit_frame_as_coded (nRows nCols : Nat) (p : α) (script : List Dec) :
    (Gen.S4cnetFitInit (nRows : Int) (nCols : Int)).map (ofS4 p) = (init nRows nCols p script).nodes ∧
    Gen.S4cnetFitPop = "pop(0)" ∧ Gen.S4cnetFitCopies = ["or_id", "children", "weights", "clt"] := by
  refine ⟨?_, by decide, by decide⟩
  simp [Gen.S4cnetFitInit, init, ofS4]

/-! ### `learn_cnet_bd`, `learn_cnet_bic` -/

/-- the outcome of a score-based iteration: `none` = the node is left as it is, `some v` = cut on `v` -/
def scoreOutcome (k : CnetLearn.Kind) (data : List (List Nat)) (nd : Node α) (v : Nat) (better : Bool) :
    List (Gen.S4CNode Unit) × List α × Option Nat × String :=
  if nd.scope.length = 1 ∨ better = false then ([], [], none, "unchanged")
  else
    let c := cutOf k data nd v
    ([{ c.1 with clt := some () }, { c.2.1 with clt := some () }], [c.2.2, 1 - c.2.2], some v, "None")

/-- **one iteration of `learn_cnet_bd` as coded**: nothing happens at a single-variable node or when the best candidate
does not beat the node's own score (`best_cnet_score > node_clt_score`); otherwise the cut is on
`node.scope[best_or_idx]`, `node.clt = None`, weights `leftWeight .bd` (`(n₀ + ess/2) / (n + ess)`) and complement, the
children carry the best trees and are queued LEFT then RIGHT with HALF the node's equivalent sample size and their scores -/
theorem bdStep_as_coded (data : List (List Nat)) (nd : Node α) (score ess : α) (stack : List (Gen.S4CNode Unit × α × α))
    (v : Nat) (hv : v ∈ nd.scope) (ncand : Int) (best sl sr : α) :
    Gen.S4cnetBdStep (toS4 nd) nd.par score ess stack (fun _ => cutcolOf data nd v) ncand best ((nd.scope.idxOf v : Nat) : Int)
        () () sl sr =
      (let o := scoreOutcome CnetLearn.Kind.bd data nd v (decide (score < best))
       (stack ++ (o.1.zip [sl, sr]).map (fun cs => (cs.1, childPar CnetLearn.Kind.bd nd.par, cs.2)), o.1, o.2.1, o.2.2.1, o.2.2.2)) := by
  unfold Gen.S4cnetBdStep scoreOutcome
  have e0 : ((0 : Nat) : Int) = (0 : Int) := rfl
  have e1 : ((1 : Nat) : Int) = (1 : Int) := rfl
  have s0 := side_as_coded data nd v 0
  have s1 := side_as_coded data nd v 1
  rw [e0] at s0; rw [e1] at s1
  simp only [toS4, Int.cast_natCast, Int.cast_ofNat, Int.cast_one, Int.toNat_natCast,
    s0, s1, delete_as_erase, getI_idxOf nd.scope v hv, cutOf, leftWeight, childPar]
  by_cases h1 : nd.scope.length = 1
  · simp [h1]
  · have h1' : ¬ ((nd.scope.length : Int) = 1) := by omega
    by_cases h2 : score < best
    · simp [h1, h1', h2]
    · simp [h1, h1', h2]

/-- **one iteration of `learn_cnet_bic` as coded**: as for BDeu, with the weights of `fit`
(`(n₀ + alpha) / (n + 2·alpha)`, the same `alpha` at every depth) and entries `[child, score]` -/
theorem bicStep_as_coded (data : List (List Nat)) (nd : Node α) (score : α) (stack : List (Gen.S4CNode Unit × α))
    (v : Nat) (hv : v ∈ nd.scope) (ncand : Int) (best sl sr : α) :
    Gen.S4cnetBicStep (toS4 nd) score nd.par stack (fun _ => cutcolOf data nd v) ncand best ((nd.scope.idxOf v : Nat) : Int)
        () () sl sr =
      (let o := scoreOutcome CnetLearn.Kind.bic data nd v (decide (score < best))
       (stack ++ (o.1.zip [sl, sr]), o.1, o.2.1, o.2.2.1, o.2.2.2)) := by
  unfold Gen.S4cnetBicStep scoreOutcome
  have e0 : ((0 : Nat) : Int) = (0 : Int) := rfl
  have e1 : ((1 : Nat) : Int) = (1 : Int) := rfl
  have s0 := side_as_coded data nd v 0
  have s1 := side_as_coded data nd v 1
  rw [e0] at s0; rw [e1] at s1
  simp only [toS4, Int.cast_natCast, Int.cast_ofNat, Int.cast_one, Int.toNat_natCast,
    s0, s1, delete_as_erase, getI_idxOf nd.scope v hv, cutOf, leftWeight]
  by_cases h1 : nd.scope.length = 1
  · simp [h1]
  · have h1' : ¬ ((nd.scope.length : Int) = 1) := by omega
    by_cases h2 : score < best
    · simp [h1, h1', h2]
    · simp [h1, h1', h2]

/-- **the model's `step` at a cut is the generated iteration** (BDeu): when the best candidate beats the node's score the
two coded child objects, queued with the coded (halved) equivalent sample size, are the new table cells, and the node's
cell receives the coded cut variable and weights.  (The candidate search never returns a variable with an empty side, and
`n_cand_cuts` does not make `select_cand_cuts` return a scalar: the two `error` exits of the model.) -/
theorem step_bd_cut_as_coded (cfg : Cfg) (hk : cfg.kind = .bd) (data : List (List Nat)) (s : St α) (i : Nat) (q : List Nat)
    (sc : List Dec) (v : Nat) (nd : Node α) (hnd : getN s.nodes i = nd) (hq : s.queue = i :: q) (hs : s.script = .cut v :: sc)
    (hsc : nd.scope.length ≠ 1) (hcr : candCrash cfg nd.scope.length = false) (hv : v ∈ nd.scope)
    (hl : (side data v 0 nd.rows).isEmpty = false) (hr : (side data v 1 nd.rows).isEmpty = false)
    (score ess best sl sr : α) (hbest : score < best) :
    step cfg data s = .ok
      (let G := Gen.S4cnetBdStep (toS4 nd) nd.par score ess ([] : List (Gen.S4CNode Unit × α × α)) (fun _ => cutcolOf data nd v)
        (cfg.nCand : Int) best ((nd.scope.idxOf v : Nat) : Int) () () sl sr
       { nodes := s.nodes.set i { nd with split := some { v := (G.2.2.2.1).getD 0, w0 := G.2.2.1.getD 0 0, w1 := G.2.2.1.getD 1 0,
                                                            l := s.nodes.length, r := s.nodes.length + 1 } }
                    ++ G.1.map (fun c => ofS4 c.2.1 { c.1 with clt := none }),
         queue := q ++ [s.nodes.length, s.nodes.length + 1], script := sc }) := by
  have hG := bdStep_as_coded data nd score ess [] v hv (cfg.nCand : Int) best sl sr
  simp only [hG, scoreOutcome, hsc, hbest, decide_true, false_or, Bool.true_eq_false, if_false, cutOf, List.zip_cons_cons,
    List.zip_nil_right, List.map_cons, List.map_nil, List.nil_append, ofS4, List.getD_cons_zero, List.getD_cons_succ,
    Option.getD_some]
  unfold step
  have hcons : consults cfg nd.rows.length nd.scope.length = true := by
    unfold consults; simp [hk, hsc]
  have hcont : nd.scope.contains v = true := by simpa using hv
  have hself : (CnetLearn.Kind.bd != CnetLearn.Kind.fit) = true := by decide
  simp only [hq, hs, hnd, hcons, Bool.not_true, Bool.false_eq_true, if_false, hcr, hcont, hk, hself, Bool.true_and, hl, hr,
    Bool.or_false]

/-- the same for the BIC learner (`alpha` unchanged at every depth) -/
theorem step_bic_cut_as_coded (cfg : Cfg) (hk : cfg.kind = .bic) (data : List (List Nat)) (s : St α) (i : Nat) (q : List Nat)
    (sc : List Dec) (v : Nat) (nd : Node α) (hnd : getN s.nodes i = nd) (hq : s.queue = i :: q) (hs : s.script = .cut v :: sc)
    (hsc : nd.scope.length ≠ 1) (hcr : candCrash cfg nd.scope.length = false) (hv : v ∈ nd.scope)
    (hl : (side data v 0 nd.rows).isEmpty = false) (hr : (side data v 1 nd.rows).isEmpty = false)
    (score best sl sr : α) (hbest : score < best) :
    step cfg data s = .ok
      (let G := Gen.S4cnetBicStep (toS4 nd) score nd.par ([] : List (Gen.S4CNode Unit × α)) (fun _ => cutcolOf data nd v)
        (cfg.nCand : Int) best ((nd.scope.idxOf v : Nat) : Int) () () sl sr
       { nodes := s.nodes.set i { nd with split := some { v := (G.2.2.2.1).getD 0, w0 := G.2.2.1.getD 0 0, w1 := G.2.2.1.getD 1 0,
                                                            l := s.nodes.length, r := s.nodes.length + 1 } }
                    ++ G.1.map (fun c => ofS4 nd.par { c.1 with clt := none }),
         queue := q ++ [s.nodes.length, s.nodes.length + 1], script := sc }) := by
  have hG := bicStep_as_coded data nd score [] v hv (cfg.nCand : Int) best sl sr
  simp only [hG, scoreOutcome, hsc, hbest, decide_true, false_or, Bool.true_eq_false, if_false, cutOf, List.zip_cons_cons,
    List.zip_nil_right, List.map_cons, List.map_nil, List.nil_append, ofS4, List.getD_cons_zero, List.getD_cons_succ,
    Option.getD_some]
  unfold step
  have hcons : consults cfg nd.rows.length nd.scope.length = true := by
    unfold consults; simp [hk, hsc]
  have hcont : nd.scope.contains v = true := by simpa using hv
  have hself : (CnetLearn.Kind.bic != CnetLearn.Kind.fit) = true := by decide
  simp only [hq, hs, hnd, hcons, Bool.not_true, Bool.false_eq_true, if_false, hcr, hcont, hk, hself, Bool.true_and, hl, hr,
    Bool.or_false, childPar]

/-- **when the score-based learners consult the oracle, and when they crash**: scores are computed iff
`len(node.scope) != 1` (the model's `consults`), the candidate loop runs over `select_cand_cuts(…, n_cand_cuts=k)` with
`k = min(n_cand_cuts, len(node.scope))`, and that function returns a scalar (so the `for` raises `TypeError`: the
model's `candCrash`) iff `k == 1` -/
theorem candidates_as_coded (cfg : Cfg) (hk : cfg.kind ≠ .fit) (nd : Node α) :
    consults cfg nd.rows.length nd.scope.length = !(((nd.scope.length : Nat) : Int) == 1) ∧
    candCrash cfg nd.scope.length = Gen.S4selectCandScalar (Gen.S4cnetBdK (toS4 nd) (cfg.nCand : Int)) ∧
    Gen.S4cnetBdK (toS4 nd) (cfg.nCand : Int) = Gen.S4cnetBicK (toS4 nd) (cfg.nCand : Int) ∧
    Gen.S4cnetBdPop = "pop(0)" ∧ Gen.S4cnetBicPop = "pop(0)" := by
  refine ⟨?_, ?_, rfl, by decide, by decide⟩
  · unfold consults
    cases hkk : cfg.kind with
    | fit => exact absurd hkk hk
    | bd => simp [bne]
    | bic => simp [bne]
  · unfold candCrash Gen.S4selectCandScalar Gen.S4cnetBdK toS4
    have hne : (cfg.kind != Kind.fit) = true := by
      cases hkk : cfg.kind with
      | fit => exact absurd hkk hk
      | bd => rfl
      | bic => rfl
    have hm : min (cfg.nCand : Int) ((nd.scope.length : Nat) : Int) = ((min cfg.nCand nd.scope.length : Nat) : Int) := by
      simp [Nat.cast_min]
    simp only [hne, Bool.true_and, hm]
    exact (natCast_beq_one _).symm

/-- non-vacuity: six rows over the variables `[0, 1, 2]`, cut on variable 1 with `alpha = 1/10` -/
example :
    let data : List (List Nat) := [[0, 1, 0], [1, 0, 0], [1, 1, 1], [0, 0, 1], [1, 1, 0], [0, 1, 1]]
    let nd : Node ℚ := { rows := [0, 1, 2, 3, 4, 5], scope := [0, 1, 2], par := 1 / 10 }
    Gen.S4cnetFitStep (toS4 nd) [] (fun _ => cutcolOf data nd 1) (1 / 10 : ℚ) (1 / 100) 2 1 1 (1 / 2) (1 / 5)
      = ([{ scope := [0, 2], rows := [1, 3], cols := [0, 2] }, { scope := [0, 2], rows := [0, 2, 4, 5], cols := [0, 2] }],
         [{ scope := [0, 2], rows := [1, 3], cols := [0, 2] }, { scope := [0, 2], rows := [0, 2, 4, 5], cols := [0, 2] }],
         [21 / 62, 41 / 62], some 1, "unchanged") := by
  have h := fitStep_as_coded (α := ℚ) { kind := .fit, minSamples := 2, minFeatures := 1 } rfl
    [[0, 1, 0], [1, 0, 0], [1, 1, 1], [0, 0, 1], [1, 1, 0], [0, 1, 1]]
    { rows := [0, 1, 2, 3, 4, 5], scope := [0, 1, 2], par := 1 / 10 } [] 1 (by decide) (1 / 100) (1 / 2) (1 / 5)
  simp only at h ⊢
  rw [show (([0, 1, 2] : List Nat).idxOf 1 : Int) = 1 from by decide] at h
  rw [show (((2 : Nat) : Int)) = 2 from rfl, show (((1 : Nat) : Int)) = 1 from rfl] at h
  rw [h]
  norm_num [consults, cutOf, side, cellOf, leftWeight]

/-- non-vacuity (BDeu, BIC, candidates): the same node, best candidate score 3 against the node's own score 2 -/
example :
    let data : List (List Nat) := [[0, 1, 0], [1, 0, 0], [1, 1, 1], [0, 0, 1], [1, 1, 0], [0, 1, 1]]
    let nd : Node ℚ := { rows := [0, 1, 2, 3, 4, 5], scope := [0, 1, 2], par := 1 / 10 }
    (Gen.S4cnetBdStep (toS4 nd) nd.par 2 (1 / 10) [] (fun _ => cutcolOf data nd 1) 10 3 (([0, 1, 2].idxOf 1 : Nat) : Int) () () 5 6).2.2.1
      = [leftWeight CnetLearn.Kind.bd (1 / 10 : ℚ) 2 6, 1 - leftWeight CnetLearn.Kind.bd (1 / 10 : ℚ) 2 6] ∧
    (Gen.S4cnetBicStep (toS4 nd) 2 nd.par [] (fun _ => cutcolOf data nd 1) 10 3 (([0, 1, 2].idxOf 1 : Nat) : Int) () () 5 6).2.2.2.1 = some 1 := by
  intro data nd
  constructor
  · rw [bdStep_as_coded data nd 2 (1 / 10) [] 1 (by decide) 10 3 5 6]
    simp [scoreOutcome, cutOf, nd, side, cellOf, data]
    norm_num
  · rw [bicStep_as_coded data nd 2 [] 1 (by decide) 10 3 5 6]
    simp [scoreOutcome, nd]
    norm_num

example : candCrash { kind := .bd, nCand := 1 } 3 = true ∧
    Gen.S4selectCandScalar (Gen.S4cnetBdK (toS4 ({ rows := [], scope := [0, 1, 2], par := 0 } : Node ℚ)) 1) = true := by
  refine ⟨by decide, ?_⟩
  have h := (candidates_as_coded { kind := .bd, nCand := 1 } (by decide) ({ rows := [], scope := [0, 1, 2], par := 0 } : Node ℚ)).2.1
  rw [show candCrash { kind := .bd, nCand := 1 } ({ rows := [], scope := [0, 1, 2], par := 0 } : Node ℚ).scope.length = true from by decide] at h
  exact h.symm

/-- non-vacuity of `step_fit_cut_as_coded`: the machine's step on a one-node table -/
example :
    let data : List (List Nat) := [[0, 1, 0], [1, 0, 0], [1, 1, 1], [0, 0, 1], [1, 1, 0], [0, 1, 1]]
    let nd : Node ℚ := { rows := [0, 1, 2, 3, 4, 5], scope := [0, 1, 2], par := 1 / 10 }
    ∃ s', step { kind := .fit, minSamples := 2, minFeatures := 1 } data { nodes := [nd], queue := [0], script := [.cut 1] } = .ok s' ∧
      s'.queue = [1, 2] :=
  ⟨_, step_fit_cut_as_coded { kind := .fit, minSamples := 2, minFeatures := 1 } rfl _ _ 0 [] [] 1 _ rfl rfl rfl (by decide) (by decide)
      (1 / 100) (1 / 2) (1 / 5) (by norm_num), rfl⟩

/-- non-vacuity of `step_bd_cut_as_coded` / `step_bic_cut_as_coded` -/
example :
    let data : List (List Nat) := [[0, 1, 0], [1, 0, 0], [1, 1, 1], [0, 0, 1], [1, 1, 0], [0, 1, 1]]
    let nd : Node ℚ := { rows := [0, 1, 2, 3, 4, 5], scope := [0, 1, 2], par := 1 / 10 }
    (∃ s', step { kind := .bd, nCand := 3 } data { nodes := [nd], queue := [0], script := [.cut 1] } = .ok s' ∧ s'.queue = [1, 2]) ∧
    (∃ s', step { kind := .bic, nCand := 3 } data { nodes := [nd], queue := [0], script := [.cut 1] } = .ok s' ∧ s'.queue = [1, 2]) :=
  ⟨⟨_, step_bd_cut_as_coded { kind := .bd, nCand := 3 } rfl _ _ 0 [] [] 1 _ rfl rfl rfl (by decide) (by decide) (by decide)
      (by decide) (by decide) 2 (1 / 10) 3 5 6 (by norm_num), rfl⟩,
   ⟨_, step_bic_cut_as_coded { kind := .bic, nCand := 3 } rfl _ _ 0 [] [] 1 _ rfl rfl rfl (by decide) (by decide) (by decide)
      (by decide) (by decide) 2 3 5 6 (by norm_num), rfl⟩⟩

end Deeprob.Struct4
