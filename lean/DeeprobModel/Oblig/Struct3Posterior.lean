import DeeprobModel.Oblig.Struct3Inference
import DeeprobModel.Model.Posterior
import DeeprobModel.Spec.Softmax
import DeeprobModel.Props.C20
/-
Third wave, (e) — static tie of `Model/Posterior.lean` (`posteriorRow`) and `Spec/Softmax.lean` (`classLL`, `logSoftmax`)
to /repo/deeprob/spn/models/sklearn.py (`SPNClassifier.predict_log_proba`, `predict_proba`, `predict`) — C20.

`Gen.S3predictLogProba` is the last two statements of `predict_log_proba` read on one row of `X` (`lls[class_ids].T` has
one row per sample and one column per child of the root, `np.log(self.spn_.weights)` is broadcast along the rows,
`log_softmax(…, axis=1)` normalises inside the row).  The pinned (defective, F13) version had no `.T` and `axis=0`: both are
rejected by the row-wise reader.
-/
set_option linter.unusedSectionVars false
set_option linter.unusedSimpArgs false
set_option linter.unusedVariables false
namespace Deeprob.Struct3
open Deeprob

variable {F : Type} [Field F] [LinearOrder F] [IsStrictOrderedRing F]

theorem zipWith_log_add (E : ExpLog F) (w lls : List F) :
    List.zipWith (fun a b => a + b) (w.map (fun a => E.log a)) lls = classLL E w lls := by
  unfold classLL
  induction w generalizing lls with
  | nil => simp
  | cons x xs ih => cases lls with
    | nil => simp
    | cons l ls => simp only [List.map_cons, List.zipWith_cons_cons, ih]

/-- **`predict_log_proba`** is `log_softmax(log w + lls[class_ids].T, axis=1)` — the specification function of `Props/C20` -/
theorem predict_log_proba_as_coded (E : ExpLog F) (w lls : List F) :
    Gen.S3predictLogProba E w lls = logSoftmax E (classLL E w lls) := by
  unfold Gen.S3predictLogProba logSoftmax
  simp only [zipWith_log_add, sum_eq_tsum]

/-- **`predict_proba`** is `np.exp(predict_log_proba)` — hence, on positive priors and class likelihoods, the posterior row
of the model (`Props/C20.softmax_is_posterior`) -/
theorem predict_proba_as_coded (E : ExpLog F) (w : List F) (L : List (List F)) (r : Nat)
    (hw : ∀ x ∈ w, 0 < x) (hl : ∀ x ∈ colOf L r, 0 < x) :
    Gen.S3predictProba E w ((colOf L r).map E.log) = posteriorRow w L r := by
  unfold Gen.S3predictProba
  rw [predict_log_proba_as_coded]
  exact C20.softmax_is_posterior E w L r hw hl

/-- non-vacuity at ℝ with the usual `exp` / `log`: 2 classes, w = (1/4, 3/4), row 0 of the example of `Props/C20` -/
example : Gen.S3predictProba realExpLog C20.exWR ((colOf C20.exLR 0).map realExpLog.log) = posteriorRow C20.exWR C20.exLR 0 :=
  predict_proba_as_coded realExpLog C20.exWR C20.exLR 0 C20.exWR_pos (C20.exLR_pos 0 (by norm_num))

example : Gen.S3predictLogProba realExpLog C20.exWR [0, 0] = logSoftmax realExpLog (classLL realExpLog C20.exWR [0, 0]) :=
  predict_log_proba_as_coded realExpLog C20.exWR [0, 0]

/-- **`predict`**: label appended last and missing, completed in place by `inference.mpe`, last column returned — the branch
chosen at the root by `sum_mpe` (`Oblig/StructTopDown.sum_mpe_as_coded`), which is `predictBranch` -/
theorem predict_as_coded :
    Gen.S3predictSteps = ["hstack([X, nan])", "inference.mpe(spn, data, inplace=True)", "data[:, -1]"] := by decide

end Deeprob.Struct3
