import DeeprobModel.Generated.Consts
import DeeprobModel.Generated.Formulas
import DeeprobModel.Model.TopDown
import Mathlib.Algebra.Order.Field.Basic
import Mathlib.Algebra.Order.Field.Rat
import Mathlib.Tactic.Ring
import Mathlib.Tactic.Linarith
import Mathlib.Tactic.NormNum
/-
Fourth wave, (g) — static tie of the sampler branch law of `Model/TopDown.lean` (`branchPmf`, the weights `wᵢ · Lᵢ / L` of
`topDownPmf`) to /repo/deeprob/spn/algorithms/sampling.py (`sum_sample`, `leaf_sample`, `sample`) — C07.

The Gumbel-max identity (trusted, DESIGN §4.6) says: `argmax_i (s_i + G_i)` with i.i.d. standard right-skewed Gumbel `G_i`
is a draw from `Categorical(exp s_i / Σ_j exp s_j)`.  What is PROVED here is that the scores `s_i` the code feeds to that
identity are `log(wᵢ · Lᵢ)`, i.e. that `exp s_i / Σ_j exp s_j` is the model's `branchPmf`; that the noise enters
additively, one independent entry per (row, child); that the branch is the arg-max along the children axis; and that
leaves delegate to their own `sample`.  (The law, location and scale of the noise: `Oblig/C07.lean`.)
-/
set_option linter.unusedSectionVars false
set_option linter.unusedSimpArgs false
set_option linter.unusedVariables false
namespace Deeprob.Struct4
open Deeprob Deeprob.TCirc

variable {F : Type} [Field F] [LinearOrder F] [IsStrictOrderedRing F]

/-- **the scores of `sum_sample` as coded**: `lls + np.log(node.weights) + gumbel` per (row, child): the noise is added to
`s = log Lᵢ + log wᵢ`, and `exp s = wᵢ · Lᵢ` — the numerator of the model's branch law -/
theorem sumSampleEntry_as_coded (E : ExpLog F) (w l g : F) (hw : 0 < w) (hl : 0 < l) :
    Gen.S4sumSampleEntry E (E.log l) w g = Gen.S4sumSampleEntry E (E.log l) w 0 + g ∧
    E.exp (Gen.S4sumSampleEntry E (E.log l) w 0) = w * l := by
  unfold Gen.S4sumSampleEntry
  refine ⟨by ring, ?_⟩
  rw [add_zero, E.exp_add, E.exp_log l hl, E.exp_log w hw, mul_comm]

/- NOTE (round 5): no `ExpLog ℚ` exists (`SamplingFacts.expLog_rat_empty`), so this example is satisfied vacuously; the genuine witness
over the reals is in `Props/RealWitnesses.lean` / `Props/SamplingFacts.lean`. -/
example (E : ExpLog ℚ) : E.exp (Gen.S4sumSampleEntry E (E.log (1 / 2)) (1 / 4) 0) = 1 / 4 * (1 / 2) :=
  (sumSampleEntry_as_coded E (1 / 4) (1 / 2) 0 (by norm_num) (by norm_num)).2

/-- **the branch law**: normalising the exponentiated noise-free scores by the value `L` of the sum node gives exactly the
model's `branchPmf L ws ls` (whose entries the Gumbel-max identity turns into the law of the arg-max) -/
theorem branchPmf_as_coded (E : ExpLog F) (L : F) (ws ls : List F) (hw : ∀ w ∈ ws, 0 < w) (hl : ∀ l ∈ ls, 0 < l) :
    branchPmf L ws ls = List.zipWith (fun w l => E.exp (Gen.S4sumSampleEntry E (E.log l) w 0) / L) ws ls := by
  unfold branchPmf
  induction ws generalizing ls with
  | nil => rfl
  | cons w ws ih =>
    cases ls with
    | nil => rfl
    | cons l ls =>
      simp only [List.zipWith_cons_cons]
      rw [(sumSampleEntry_as_coded E w l 0 (hw w (by simp)) (hl l (by simp))).2,
        ih ls (fun a ha => hw a (by simp [ha])) (fun a ha => hl a (by simp [ha]))]

/- NOTE (round 5): no `ExpLog ℚ` exists (`SamplingFacts.expLog_rat_empty`), so this example is satisfied vacuously; the genuine witness
over the reals is in `Props/RealWitnesses.lean` / `Props/SamplingFacts.lean`. -/
example (E : ExpLog ℚ) :
    branchPmf (1 / 4 : ℚ) [1 / 4, 3 / 4] [1 / 2, 1 / 6] =
      List.zipWith (fun w l => E.exp (Gen.S4sumSampleEntry E (E.log l) w 0) / (1 / 4)) [1 / 4, 3 / 4] [1 / 2, 1 / 6] :=
  branchPmf_as_coded E _ _ _ (by intro w hw; simp at hw; rcases hw with rfl | rfl <;> norm_num)
    (by intro l hl; simp at hl; rcases hl with rfl | rfl <;> norm_num)

/-- **selector, axis, leaves, the pass**: the branch is `np.argmax(scores, axis=1)` (over the children of the sum node, per
row); `leaf_sample` returns `node.sample(x)`; `sample` evaluates the circuit bottom-up once and runs `eval_top_down` with
these two functions on the stored log-values of the input rows (the `e` of `topDownPmf e x`) -/
theorem sumSample_frame_as_coded :
    Gen.S4sumSampleSelector = "argmax" ∧ Gen.S4sumSampleAxis = some 1 ∧ Gen.S4leafSample = "node.sample(x)" ∧
    Gen.S4sampleTopDown = ["log_likelihood(root, x, return_results=True)",
      "eval_top_down(root, x, lls, leaf_func=leaf_sample, sum_func=sum_sample)"] := by decide

/-- non-vacuity of `branchPmf_as_coded`'s right-hand side shape: at a sum node with weights `1/4, 3/4` over children of value
`1/2, 1/6` the branch law is `1/2, 1/2` -/
example : branchPmf (1 / 4 : ℚ) [1 / 4, 3 / 4] [1 / 2, 1 / 6] = [1 / 2, 1 / 2] := by
  simp [branchPmf]; norm_num

end Deeprob.Struct4
