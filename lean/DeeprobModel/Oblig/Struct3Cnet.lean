import DeeprobModel.Generated.Consts
import DeeprobModel.Model.Cnet
import Mathlib.Data.List.Basic
import Mathlib.Algebra.Order.Field.Rat
import Mathlib.Tactic.NormNum
/-
Third wave, (c) — static tie of `Model/Cnet.lean` (`cnetRun`, `cnetBatch`) to
/repo/deeprob/spn/structure/cnet.py (`BinaryCNet.log_likelihood`, the routing loop) — C18.

`Gen.S3cnetOrStep` is the OR-node part of the loop body executed symbolically on the current AST: which children are
pushed (in which order, with which row / column indices) and which updates `log_likes[rows] += np.log(node.weights[k])`
are made.  The model works in the linear domain (`+= log w` ↦ `*= w`) and does not track column indices (it reads the
cut variable by name): `cols_aligned` states the alignment that justifies it.
-/
set_option linter.unusedSectionVars false
set_option linter.unusedSimpArgs false
set_option linter.unusedVariables false
namespace Deeprob.Struct3
open Deeprob

/-- the cut value of a row as the integer the code compares with `0` / `1` (missing / NaN: neither) -/
def cutVal : Option Nat → Int
  | none => -1
  | some k => (k : Int)

theorem cutVal_eq (o : Option Nat) (k : Nat) : (cutVal o == (k : Int)) = (o == some k) := by
  cases o with
  | none =>
    have h : ((-1 : Int) == (k : Int)) = false := by
      cases hh : ((-1 : Int) == (k : Int))
      · rfl
      · have := beq_iff_eq.1 hh; omega
    simp [cutVal, h]
  | some j => simp [cutVal]

theorem rowsWhere_map {β γ : Type} (l : List β) (f : β → γ) (g : γ → Bool) :
    Gen.Py3.rowsWhere l ((l.map f).map g) = l.filter (fun r => g (f r)) := by
  unfold Gen.Py3.rowsWhere
  induction l with
  | nil => rfl
  | cons x xs ih =>
    simp only [List.map_cons, List.zip_cons_cons, List.filter_cons]
    by_cases h : g (f x) = true
    · simp only [h, if_true, List.map_cons, ih]
    · simp only [h, Bool.false_eq_true, if_false, ih]

variable {α : Type} [Zero α] [One α] [Add α] [Mul α]

/-- **the OR-node iteration as coded**: rows whose cut value is 0 go to `children[0]` and receive `weights[0]`, rows whose
cut value is 1 go to `children[1]` and receive `weights[1]`; `children[0]` is pushed before `children[1]`, both at the
back of the work list -/
theorem cnetRun_or_as_coded (rows : Nat → Ev) (fuel : Nat) (s : List Nat) (v : Nat) (w0 w1 : α) (c0 c1 : CNet α)
    (idxs : List Nat) (q : List (CNet α × List Nat)) (acc : List α) (cols : List Nat) (nodeIdx : Nat) :
    cnetRun rows (fuel + 1) ((.or s v w0 w1 c0 c1, idxs) :: q) acc =
      (let st := Gen.S3cnetOrStep idxs cols nodeIdx (idxs.map (fun r => cutVal (rows r v)))
       cnetRun rows fuel (q ++ st.1.map (fun p => (if p.1 = 0 then c0 else c1, p.2.1)))
         (st.2.foldl (fun a p => mulAt a p.1 (fun _ => if p.2 = 0 then w0 else w1)) acc)) := by
  simp only [cnetRun, Gen.S3cnetOrStep, rowsWhere_map, cutVal_eq, List.map_cons, List.map_nil, List.foldl_cons, List.foldl_nil,
    if_true, Nat.one_ne_zero, if_false, Nat.cast_zero, Nat.cast_one]
  have h0 : ∀ o : Option Nat, (cutVal o == (0 : Int)) = (o == some 0) := fun o => by simpa using cutVal_eq o 0
  have h1 : ∀ o : Option Nat, (cutVal o == (1 : Int)) = (o == some 1) := fun o => by simpa using cutVal_eq o 1
  simp only [h0, h1]

/-- **the leaf iteration, the pop side, the start** — `log_likes[node.row_indices] += node.clt.log_likelihood(partition)`
(row `j` of the partition is row `row_indices[j]` of the batch), `node_stack.pop(0)` = head of the model's list, rows
`arange(n_samples)`, `log_likes = zeros` (ones in the linear domain) -/
theorem cnetRun_leaf_as_coded (rows : Nat → Ev) (fuel : Nat) (s : List Nat) (f : Ev → α) (idxs : List Nat)
    (q : List (CNet α × List Nat)) (acc : List α) :
    cnetRun rows (fuel + 1) ((.leaf s f, idxs) :: q) acc = cnetRun rows fuel q (mulAt acc idxs (fun r => f (rows r))) ∧
    Gen.S3cnetLeafAdds = ("node.row_indices", "node.clt.log_likelihood(partition).squeeze()") ∧ Gen.S3cnetPop = "pop(0)" :=
  ⟨rfl, by decide, by decide⟩

theorem cnetBatch_init_as_coded (rows : Nat → Ev) (n m : Nat) (c : CNet α) :
    cnetBatch rows n c = cnetRun rows c.size [(c, (Gen.S3cnetInit n m).1)] (List.replicate n 1) := rfl

/-- **column alignment**: while `node.col_indices` lists the columns of `node.scope` in order (true at the root of a
network over `0 .. n-1`: `Gen.S3cnetInit`), the cut column `col_indices[node_idx]` is the column of the cut variable and
the children's `np.delete(col_indices, node_idx)` is the scope with the cut variable erased (what `cnetWellFormedB`
requires of the children's scopes) — so reading the cut variable by name, as the model does, is reading the coded column -/
theorem cols_aligned (s : List Nat) (v : Nat) (hv : v ∈ s) :
    s.getD (Gen.S3cnetNodeIdx s v) 0 = v ∧
    (∀ rowIdx cutcol, ∀ p ∈ (Gen.S3cnetOrStep rowIdx s (Gen.S3cnetNodeIdx s v) cutcol).1, p.2.2 = s.erase v) := by
  unfold Gen.S3cnetNodeIdx
  constructor
  · have h := List.idxOf_lt_length_iff.2 hv
    simp [List.getD_eq_getElem?_getD, List.getElem?_eq_getElem h]
  · intro rowIdx cutcol p hp
    simp only [Gen.S3cnetOrStep, List.mem_cons, List.not_mem_nil, or_false] at hp
    have he : Gen.Py3.delete s (s.idxOf v) = s.erase v := (List.erase_eq_eraseIdx_of_idxOf rfl).symm
    rcases hp with h | h <;> (rw [h]; exact he)

/-- non-vacuity: four rows routed at an OR node on variable 1 with weights 1/4, 3/4 -/
example :
    let rows : Nat → Ev := fun r => Ev.ofList ([[some 0, some 1], [some 1, some 0], [some 1, some 1], [some 0, some 0]].getD r [])
    Gen.S3cnetOrStep [0, 1, 2, 3] [0, 1] (Gen.S3cnetNodeIdx [0, 1] 1) ([0, 1, 2, 3].map (fun r => cutVal (rows r 1)))
      = ([(0, [1, 3], [0]), (1, [0, 2], [0])], [([1, 3], 0), ([0, 2], 1)]) ∧
    cnetRun rows 1 [(.or [0, 1] 1 ((1:ℚ)/4) (3/4) (.leaf [0] (fun _ => 1)) (.leaf [0] (fun _ => 1)), [0, 1, 2, 3])] [1, 1, 1, 1]
      = [3/4, 1/4, 3/4, 1/4] := by
  refine ⟨by decide, ?_⟩
  rw [cnetRun_or_as_coded (cols := [0, 1]) (nodeIdx := 1)]
  simp [Gen.S3cnetOrStep, Gen.Py3.rowsWhere, Gen.Py3.delete, cutVal, Ev.ofList, cnetRun, mulAt, List.zipIdx]

end Deeprob.Struct3
