import DeeprobModel.Generated.Consts
import DeeprobModel.Generated.Formulas
import DeeprobModel.Model.TopDown
import Mathlib.Algebra.Order.Field.Basic
import Mathlib.Tactic.Linarith
import Mathlib.Tactic.LinearCombination
import Mathlib.Tactic.NormNum
import Mathlib.Tactic.SplitIfs
/-
Static tie of `Model/TopDown.lean` (`mpeBr`, `bernIdx`, `catMode`) to /repo/deeprob/spn/algorithms/inference.py
(`sum_mpe`) and /repo/deeprob/spn/structure/leaf.py (`Bernoulli.mpe`, `Categorical.mpe`) — C06.
-/
set_option linter.unusedSectionVars false
set_option linter.unusedTactic false
set_option linter.unreachableTactic false
namespace Deeprob.Oblig.StructTopDown
open Deeprob Deeprob.TCirc

variable {F : Type} [Field F] [LinearOrder F] [IsStrictOrderedRing F]

/-- the laws of `ExpLog` give `log (w·v) = log v + log w` on positives -/
theorem log_mul (E : ExpLog F) (w v : F) (hw : 0 < w) (hv : 0 < v) : E.log (w * v) = E.log v + E.log w := by
  have h : w * v = E.exp (E.log v + E.log w) := by rw [E.exp_add, E.exp_log v hv, E.exp_log w hw, mul_comm]
  rw [h, E.log_exp]

/-- **`sum_mpe` reduces `lls + log(weights)` with `argmax` along the children axis**: the entry of child `i` is the
logarithm of `wᵢ · valueᵢ`, the quantity the model's `mpeBr` maximises (`argmax (zipWith (·*·) ws values)`; `log` is
increasing — trusted, as for every log-domain comparison) -/
theorem sum_mpe_as_coded (E : ExpLog F) (w v : F) (hw : 0 < w) (hv : 0 < v) :
    Gen.sumMpeSelector = "argmax" ∧ Gen.sumMpeAxis = some 1 ∧
    Gen.sumMpeScore E (E.log v) w = E.log (w * v) := by
  refine ⟨by decide, by decide, ?_⟩
  unfold Gen.sumMpeScore
  have h := log_mul E w v hw hv
  linear_combination -h

theorem mpeBr_is_argmax_of_products {α : Type} [Zero α] [One α] [Add α] [Mul α] [LT α] [DecidableLT α]
    (e : Ev) (sc : List Nat) (ws : List α) (cs : List (TCirc α)) :
    mpeBr e sc ws cs = argmax (List.zipWith (· * ·) ws (cs.map (eval e))) := rfl

/-- **`Bernoulli.mpe` writes `0 if p < 0.5 else 1`** — a tie goes to 1: on the model's table `[1 - p, p]` this is `bernIdx` -/
theorem bernIdx_as_coded (p : F) : ((bernIdx [1 - p, p] : Nat) : F) = Gen.bernMpe p := by
  unfold bernIdx Gen.bernMpe
  simp only [List.getD_cons_zero, List.getD_cons_succ]
  split_ifs <;> first | (simp; done) | (exfalso; linarith) | (exfalso; norm_num at *; linarith)

/-- **`Categorical.mpe` writes `categories[probabilities.argmax()]`**: first maximal index of the probability table,
the model's `catMode` (categories are `0..n-1` in the exported tables) -/
theorem catMode_as_coded :
    Gen.catMpeSelector = "argmax" ∧ Gen.catMpeArg = "self.probabilities" ∧ Gen.catMpeTable = "self.categories" ∧
    Gen.catMpeAxis = none := by decide

theorem catMode_uses_argmax {α : Type} [Zero α] [One α] [Add α] [Mul α] [LT α] [DecidableLT α]
    (v : Nat) (tbl : List α) (x : Ev) (h : x v = none) : catMode v tbl x = x.set v (argmax tbl) := by
  simp [catMode, h]

end Deeprob.Oblig.StructTopDown
