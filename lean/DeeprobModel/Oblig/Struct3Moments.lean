import DeeprobModel.Oblig.Struct3Inference
import DeeprobModel.Model.Moments
/-
Third wave, (d) — static tie of `Model/Moments.lean` (`MCirc.moment`, `MCirc.momentApi`, `momNode`) to
/repo/deeprob/spn/algorithms/moments.py (`moment`, `leaf_moment`) — C19.

`moment` runs the evaluation recursion (`eval_bottom_up` with `node_func = node_likelihood`, tied to the model in
`Struct3Inference`) on a matrix with one ROW PER VARIABLE; `leaf_moment` answers, in row `v`, the leaf's raw moment when
`v` is in the leaf's scope and 1 otherwise.  Leaf closed forms (`node.moment`) stay opaque.
-/
set_option linter.unusedSectionVars false
set_option linter.unusedSimpArgs false
set_option linter.unusedVariables false
namespace Deeprob.Struct3
open Deeprob

variable {F : Type} [Field F] [LinearOrder F] [IsStrictOrderedRing F]

/-- **`leaf_moment`**: `m = ones(len(x)); m[node.scope] = node.moment(k=order)` read at entry `v` -/
theorem leaf_moment_as_coded (s : List Nat) (f : Ev → F) (mom : Nat → Nat → F) (k v : Nat) :
    MCirc.moment k v (.leaf s f mom) = Gen.S3leafMoment s (mom k) v := by
  simp only [MCirc.moment, Gen.S3leafMoment]

example : Gen.S3leafMoment [2, 5] (fun _ => (7:ℚ)/3) 5 = 7/3 ∧ Gen.S3leafMoment [2, 5] (fun _ => (7:ℚ)/3) 4 = 1 := by
  constructor <;> simp [Gen.S3leafMoment]

/-- **the moment recursion is the evaluation recursion** (`node_func = node_likelihood` of inference.py): at a sum the
`np.dot` of the children's moments with the weights, at a product their product — over ALL children (a child whose scope
does not contain `v` contributes the `1` of its leaves) -/
theorem moment_inner_as_coded (k v : Nat) (s : List Nat) (ws : List F) (cs : List (MCirc F)) :
    Gen.S3momentNodeFunc = "inference.node_likelihood" ∧
    MCirc.moment k v (.sum s ws cs) = Gen.S3nodeLikelihood (Gen.S3sumLikelihood ws) (cs.map (MCirc.moment k v)) ∧
    MCirc.moment k v (.prod s cs) = Gen.S3nodeLikelihood Gen.S3productLikelihood (cs.map (MCirc.moment k v)) := by
  refine ⟨by decide, ?_, ?_⟩
  · rw [node_likelihood_as_coded, sum_likelihood_as_coded]; simp only [MCirc.moment]
  · rw [node_likelihood_as_coded, product_likelihood_as_coded]; simp only [MCirc.moment]

example : MCirc.moment 1 0 (.sum [0] [(1:ℚ)/4, 3/4] [MCirc.cat 0 [1/2, 1/2], MCirc.cat 0 [0, 1]])
    = Gen.S3nodeLikelihood (Gen.S3sumLikelihood [(1:ℚ)/4, 3/4]) [1/2, 1] := by
  rw [(moment_inner_as_coded 1 0 _ _ _).2.1]
  simp [MCirc.moment, MCirc.cat, tblMoment, sumVar, powN, natC, List.range, List.range.loop]

/-- the node-table version (`momNode`) stores `node_likelihood` of the children's stored values at inner nodes and the
`leaf_moment` entry at leaves -/
theorem momNode_as_coded (k v : Nat) (moms vals : List F) (x : NNode F) :
    momNode k v moms vals x = match x.kind with
      | .leaf => Gen.S3leafMoment x.scope (fun _ => x.leaf.rawMoment k (moms.getD vals.length 0)) v
      | .sum => Gen.S3evalForwardInner (N := Nat) id (fun _ => x.ch)
          (fun _ => Gen.S3nodeLikelihood (Gen.S3sumLikelihood x.ws)) (fun c => vals.getD c 0) 0
      | .prod => Gen.S3evalForwardInner (N := Nat) id (fun _ => x.ch)
          (fun _ => Gen.S3nodeLikelihood Gen.S3productLikelihood) (fun c => vals.getD c 0) 0 := by
  unfold Gen.S3evalForwardInner momNode
  cases hx : x.kind <;>
    simp only [node_likelihood_as_coded, sum_likelihood_as_coded, product_likelihood_as_coded, id, Gen.S3leafMoment]

/-- **the exits of `moment`**: negative order raises, order 0 returns ones without a pass, otherwise the bottom-up pass -/
theorem momentApi_as_coded (c : MCirc F) (order : Int) :
    Gen.S3momentExits = ["raise", "ones", "bottom_up"] ∧
    MCirc.momentApi c order = match Gen.S3momentCase order with
      | 0 => none
      | 1 => some ((List.range c.scope.length).map (fun _ => 1))
      | _ => some ((List.range c.scope.length).map (fun v => MCirc.moment order.toNat v c)) := by
  refine ⟨by decide, ?_⟩
  unfold MCirc.momentApi Gen.S3momentCase
  by_cases h1 : order < 0
  · simp [h1]
  · by_cases h2 : order = 0
    · simp [h1, h2]
    · simp [h1, h2]

example : MCirc.momentApi (MCirc.cat 0 [(1:ℚ)/2, 1/2]) (-1) = none ∧ Gen.S3momentCase (-1) = 0 ∧ Gen.S3momentCase 0 = 1 ∧
    Gen.S3momentCase 3 = 2 := by
  refine ⟨?_, by decide, by decide, by decide⟩
  rw [(momentApi_as_coded _ _).2]; rfl

end Deeprob.Struct3
