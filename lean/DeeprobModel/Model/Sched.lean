import DeeprobModel.Model.Net
/-
Schedules of the layer-parallel evaluators (A layer, computable, no Mathlib).

Mirrors `parallel_layerwise_eval`, `eval_bottom_up` (`eval_forward`) and `eval_top_down` (`eval_backward`) in
/repo/deeprob/spn/algorithms/evaluation.py and `topological_order_layered` in
/repo/deeprob/spn/structure/node.py.

A layer is a list of tasks (one per node of the layer); a task is a list of actions on the shared arrays
`masks` (row = node id), `x` (cell = (sample, variable)) and `ls` (row = node id). joblib's threading
backend may interleave the actions of the tasks of ONE layer in any way that keeps each task's own order
(`Interleaving`); layers are separated by a barrier (`parallel(...)` returns before the next layer starts).
-/
namespace Deeprob.Sched

abbrev Mask := List Bool

/-- `a |= b` on boolean rows (rows of one table have one length; the longer tail is kept otherwise) -/
def orMask : Mask → Mask → Mask
  | a :: as, b :: bs => (a || b) :: orMask as bs
  | [], bs => bs
  | as, [] => as

/-- `masks[n.id] & (branch == i)`; `none` = no selector (product node) -/
def selMask (m : Mask) : Option Mask → Mask
  | none => m
  | some sel => List.zipWith (· && ·) m sel

def setF {β : Type} (t : Nat → β) (i : Nat) (v : β) : Nat → β := fun j => if j = i then v else t j

/-- shared arrays -/
structure SState where
  masks : Nat → Mask
  cells : Nat → Nat → Int
  ls : Nat → List Int

/-- atomic actions.
* `orInto row val`  — `masks[row] |= val` with a resolved right-hand side;
* `orFrom dst src sel` — `masks[c.id] |= masks[n.id] & (branch == i)` (`sel = none` for a product node),
  the statement as written in `eval_backward`: reads row `src` of the same table;
* `setCell r c v` — one cell of `x[mask] = leaf_func(...)`;
* `evalRow i reads f` — `ls[n.id] = node_func(n, stack(ls[c.id] for c in children))` of `eval_forward`. -/
inductive Act where
  | orInto (row : Nat) (val : Mask)
  | orFrom (dst src : Nat) (sel : Option Mask)
  | setCell (r c : Nat) (v : Int)
  | evalRow (i : Nat) (reads : List Nat) (f : List (List Int) → List Int)

def apply (s : SState) : Act → SState
  | .orInto r v => { s with masks := setF s.masks r (orMask (s.masks r) v) }
  | .orFrom d src sel => { s with masks := setF s.masks d (orMask (s.masks d) (selMask (s.masks src) sel)) }
  | .setCell r c v => { s with cells := fun r' c' => if r' = r ∧ c' = c then v else s.cells r' c' }
  | .evalRow i rs f => { s with ls := setF s.ls i (f (rs.map s.ls)) }

def run (s : SState) (σ : List Act) : SState := σ.foldl apply s

/-- sufficient condition for two actions of different tasks to commute: different arrays, different
rows / cells, or both OR-updates of `masks` that do not read a row the other one writes -/
def compat : Act → Act → Bool
  | .orInto _ _, .orInto _ _ => true
  | .orInto r _, .orFrom _ s _ => r != s
  | .orFrom _ s _, .orInto r _ => r != s
  | .orFrom d s _, .orFrom d' s' _ => d != s' && d' != s
  | .setCell r c _, .setCell r' c' _ => !(r == r' && c == c')
  | .evalRow i rs _, .evalRow j rs' _ => i != j && !rs.contains j && !rs'.contains i
  | .orInto _ _, .setCell _ _ _ => true
  | .orInto _ _, .evalRow _ _ _ => true
  | .orFrom _ _ _, .setCell _ _ _ => true
  | .orFrom _ _ _, .evalRow _ _ _ => true
  | .setCell _ _ _, .orInto _ _ => true
  | .setCell _ _ _, .orFrom _ _ _ => true
  | .setCell _ _ _, .evalRow _ _ _ => true
  | .evalRow _ _ _, .orInto _ _ => true
  | .evalRow _ _ _, .orFrom _ _ _ => true
  | .evalRow _ _ _, .setCell _ _ _ => true

/-! ### the non-atomic variant (pinned `eval_top_down`: `masks[c.id] |= …` is a read-modify-write) -/

/-- `read task row`: the task loads `masks[row]` into its private register;
`write task row val`: it stores `register | val` back. -/
inductive NAct where
  | read (task row : Nat)
  | write (task row : Nat) (val : Mask)
deriving Repr, DecidableEq

structure NState where
  masks : Nat → Mask
  reg : Nat → Mask

def napply (s : NState) : NAct → NState
  | .read t r => { s with reg := setF s.reg t (s.masks r) }
  | .write t r v => { s with masks := setF s.masks r (orMask (s.reg t) v) }

def nrun (s : NState) (σ : List NAct) : NState := σ.foldl napply s

/-- the two halves of `masks[row] |= val` executed by task `t` -/
def splitOr (t row : Nat) (val : Mask) : List NAct := [.read t row, .write t row val]

/-! ### recorded traces and the lock discipline (Appendix A of DESIGN.md) -/

inductive AKind where
  | or | write | read
deriving Repr, DecidableEq, Inhabited

/-- one recorded access: kind, array name, the rows / cells touched (a row `i` is the cell `(i, 0)`),
whether the shared lock was held -/
structure Access where
  kind : AKind
  array : String
  cells : List (Nat × Nat)
  locked : Bool
deriving Repr, DecidableEq, Inhabited

structure TaskTrace where
  task : Nat
  acts : List Access
deriving Repr, DecidableEq, Inhabited

def Access.isWrite (a : Access) : Bool := a.kind != .read

def conflict (a b : Access) : Bool :=
  a.array == b.array && a.cells.any (fun c => b.cells.contains c) && (a.isWrite || b.isWrite)

/-- a conflicting pair is tolerated only if both are OR-updates performed under the lock -/
def okPair (a b : Access) : Bool :=
  !conflict a b || (a.kind == .or && b.kind == .or && a.locked && b.locked)

/-- `Disciplined` as a computable check on the recorded traces of one layer -/
def disciplinedB (layer : List TaskTrace) : Bool :=
  layer.all fun t => layer.all fun u =>
    t.task == u.task || t.acts.all fun a => u.acts.all fun b => okPair a b

/-- first offending pair `(task, index of access, task, index of access)` in enumeration order -/
def firstOffending (layer : List TaskTrace) : Option (Nat × Nat × Nat × Nat) :=
  layer.findSome? fun t => layer.findSome? fun u =>
    if t.task == u.task then none else
      (List.range t.acts.length).findSome? fun i => (List.range u.acts.length).findSome? fun j =>
        match t.acts[i]?, u.acts[j]? with
        | some a, some b => if okPair a b then none else some (t.task, i, u.task, j)
        | _, _ => none

/-- the accesses an action performs (what the hook records for it); `locked` = the task holds the
shared lock around its mask updates -/
def Act.accesses (locked : Bool) : Act → List Access
  | .orInto r _ => [{ kind := .or, array := "masks", cells := [(r, 0)], locked := locked }]
  | .orFrom d s _ => [{ kind := .read, array := "masks", cells := [(s, 0)], locked := false },
                      { kind := .or, array := "masks", cells := [(d, 0)], locked := locked }]
  | .setCell r c _ => [{ kind := .write, array := "x", cells := [(r, c)], locked := false }]
  | .evalRow i rs _ => [{ kind := .read, array := "ls", cells := rs.map (fun r => (r, 0)), locked := false },
                        { kind := .write, array := "ls", cells := [(i, 0)], locked := false }]

/-- a model task: its id, whether it takes the lock, its action list -/
structure MTask where
  task : Nat
  locked : Bool
  acts : List Act

def MTask.trace (t : MTask) : TaskTrace := { task := t.task, acts := t.acts.flatMap (Act.accesses t.locked) }

/-! ### `topological_order_layered` -/

section layers
variable {α : Type}

/-- `num_outgoings` after the counting loop `for node in bfs(root): for c in node.children: num_outgoings[c] += 1` -/
def indeg (n : Net α) (root : Nat) : Nat → Int :=
  fun c => (((Net.collect n root).flatMap (Net.chOf n)).count c : Nat)

/-- `num_outgoings[c] -= 1; if num_outgoings[c] == 0: layer.append(c)` -/
def procEdge (st : (Nat → Int) × List Nat) (c : Nat) : (Nat → Int) × List Nat :=
  let cnt := setF st.1 c (st.1 c - 1)
  if cnt c = 0 then (cnt, st.2 ++ [c]) else (cnt, st.2)

/-- `for node in ordering[-1]: for c in node.children: …` -/
def procLayer (n : Net α) (cnt : Nat → Int) (last : List Nat) : (Nat → Int) × List Nat :=
  (last.flatMap (Net.chOf n)).foldl procEdge (cnt, [])

/-- the `while True:` loop; `acc` = completed layers, `last = ordering[-1]` -/
def layersGo (n : Net α) : Nat → (Nat → Int) → List (List Nat) → List Nat → Option ((Nat → Int) × List (List Nat))
  | 0, _, _, _ => none
  | fuel+1, cnt, acc, last =>
    let r := procLayer n cnt last
    if r.2.isEmpty then some (r.1, acc ++ [last]) else layersGo n fuel r.1 (acc ++ [last]) r.2

/-- `topological_order_layered(root)`; `none` = "not a DAG" (or, in the model only, fuel exhausted — which
cannot happen, the layers being disjoint non-empty subsets of the reachable nodes) -/
def layers (n : Net α) (root : Nat) : Option (List (List Nat)) :=
  let R := Net.collect n root
  let cnt0 := indeg n root
  if cnt0 root ≠ 0 then none else
  match layersGo n (R.length + 1) cnt0 [] [root] with
  | none => none
  | some (cnt, L) => if (R.map cnt).sum ≠ 0 then none else some L

/-- position of the layer containing `v` -/
def layerIndex (L : List (List Nat)) (v : Nat) : Nat := L.findIdx (fun l => l.contains v)

/-- what the theorems need to know about the node list `R = collect n root` (re-checked by the driver) -/
def reachOKB (n : Net α) (root : Nat) (R : List Nat) : Bool :=
  R.contains root &&
  R.all (fun p => (Net.chOf n p).all (fun c => R.contains c)) &&
  R.all (fun v => v == root || R.any (fun p => (Net.chOf n p).contains v))

end layers

end Deeprob.Sched
