import DeeprobModel.Model.GraphOrder
import DeeprobModel.Model.F32
/-
A layer for C13, binary Chow-Liu trees — deeprob/spn/structure/io.py:
`binary_clt_to_digraph`, `digraph_to_binary_clt`, `save_binary_clt_json`, `load_binary_clt_json`.

The NetworkX objects the code goes through are modelled as far as the code uses them:
* `nx.DiGraph`: nodes in insertion order, each with its attribute dict (or none: a node created by `add_edge`)
  and its successor list in insertion order; `add_node` on an existing id updates the attributes in place;
  `add_edge(u, v)` creates missing endpoints (at the end, without attributes) and appends `v` to the successors of
  `u` unless it is already there;
* `node_link_data` / `node_link_graph`: nodes as iterated; edges as `G.edges()` iterates them, i.e. grouped by
  source in node order; reading adds the nodes, then the edges;
* `is_arborescence(G)`: `is_tree(G) and max in-degree ≤ 1`, `is_tree`: `len(G) - 1 == number_of_edges` and weakly
  connected (raises on the empty graph);
* `bfs_predecessors(G, source)`: breadth-first search with a `seen` set over the successor lists, yielding
  `(node, predecessor)`.
Numbers: the document holds `round8` of the stored (log-domain) parameters; the constructor
`BinaryCLT(scope, tree=…, params=…)` stores `np.array(params, dtype=np.float32)` (`Io32.load32`), checks the scope
(non-empty, no duplicates: `Node.__init__`), `len(tree) == len(scope)`, exactly one `-1`, the shape `(n, 2, 2)` and recomputes `bfs = compute_bfs_ordering(tree)`.
NOT modelled: the constructor's `np.allclose(exp(params).sum(axis=2), 1)` (transcendental; the reload of a
normalised table passes it, the perturbation is `≤ ½·10⁻⁸` in the log domain). No Mathlib.
-/
namespace Deeprob.GraphIo
open Deeprob

/-- the fields of a `BinaryCLT` that are written: `scope`, `tree`, `params` (log domain, as stored) -/
structure CltObj where
  scope : List Nat
  tree : List Int
  params : List (List (List Rat))
deriving DecidableEq, Repr, Inhabited

/-- `self.root` and `self.bfs` as the constructor computes them from `tree` -/
def CltObj.root (o : CltObj) : Option Nat := rootIdx o.tree
def CltObj.bfs (o : CltObj) : Option (List Nat) := computeBfsOrdering o.tree

/-- node attributes `{'scope': …, 'weight': …}` -/
structure CAttr where
  scope : Nat
  weight : List (List Rat)
deriving DecidableEq, Repr, Inhabited

/-! ### `nx.DiGraph` -/

structure GNode where
  id : Nat
  attr : Option CAttr
  succ : List Nat
deriving DecidableEq, Repr, Inhabited

abbrev DiGraph := List GNode

def hasNode (g : DiGraph) (i : Nat) : Bool := g.any (fun x => x.id == i)

/-- `G.add_node(i, **attr)` -/
def addNode (g : DiGraph) (i : Nat) (a : Option CAttr) : DiGraph :=
  if hasNode g i then g.map (fun x => if x.id == i then { x with attr := (a <|> x.attr) } else x)
  else g ++ [{ id := i, attr := a, succ := [] }]

/-- `G.add_edge(u, v)` -/
def addEdge (g : DiGraph) (e : Nat × Nat) : DiGraph :=
  let g1 := if hasNode g e.1 then g else g ++ [{ id := e.1, attr := none, succ := [] }]
  let g2 := if hasNode g1 e.2 then g1 else g1 ++ [{ id := e.2, attr := none, succ := [] }]
  g2.map (fun x => if x.id == e.1 && !(x.succ.contains e.2) then { x with succ := x.succ ++ [e.2] } else x)

def nodeIds (g : DiGraph) : List Nat := g.map (·.id)
/-- `G.edges()` -/
def edgesOf (g : DiGraph) : List (Nat × Nat) := g.flatMap (fun x => x.succ.map (fun v => (x.id, v)))
def inDegree (g : DiGraph) (v : Nat) : Nat := ((edgesOf g).filter (fun e => e.2 == v)).length
def succOf (g : DiGraph) (u : Nat) : List Nat := match g.find? (fun x => x.id == u) with | some x => x.succ | none => []
def attrOf (g : DiGraph) (u : Nat) : Option CAttr := match g.find? (fun x => x.id == u) with | some x => x.attr | none => none

/-! ### the document (`node_link_data`) -/

structure CDoc where
  nodes : List (Nat × Option CAttr)
  edges : List (Nat × Nat)
deriving DecidableEq, Repr, Inhabited

def docOfGraph (g : DiGraph) : CDoc := { nodes := g.map (fun x => (x.id, x.attr)), edges := edgesOf g }

/-- `node_link_graph(doc, directed=True, multigraph=False)` -/
def graphOfDoc (d : CDoc) : DiGraph :=
  d.edges.foldl addEdge (d.nodes.foldl (fun g na => addNode g na.1 na.2) [])

/-! ### `binary_clt_to_digraph` -/

/-- `np.around(clt.params[node_id].astype(np.float64), 8).tolist()` -/
def roundTable (t : List (List Rat)) : List (List Rat) := t.map (fun row => row.map round8)

/-- `{'scope': clt.scope[node_id], 'weight': weight}` -/
def nodeAttr (o : CltObj) (i : Nat) : CAttr :=
  { scope := o.scope.getD i 0, weight := roundTable (o.params.getD i []) }

/-- the second loop: `if parent_node_id != -1: graph.add_edge(int(parent_node_id), node_id)` -/
def encEdge (g : DiGraph) (pi : Int × Nat) : DiGraph :=
  if pi.1 = -1 then g else addEdge g (pi.1.toNat, pi.2)

/-- `binary_clt_to_digraph(clt)`.  `none`: an entry below `-1` (NetworkX would create a node with a negative id),
or a `scope` / `params` shorter than `tree` (`IndexError`) — neither can hold for a constructed `BinaryCLT`. -/
def cltToDigraph (o : CltObj) : Option DiGraph :=
  if o.tree.any (fun p => p < -1) || o.scope.length < o.tree.length || o.params.length < o.tree.length then none
  else
    let g0 : DiGraph := (List.range o.tree.length).foldl (fun g i => addNode g i (some (nodeAttr o i))) []
    some (o.tree.zipIdx.foldl encEdge g0)

/-- `save_binary_clt_json`: the document written to the file -/
def cltEncode (o : CltObj) : Option CDoc := (cltToDigraph o).map docOfGraph

/-! ### `is_arborescence` -/

/-- one round of the component search: add every node adjacent (either direction) to a node already found -/
def expand (g : DiGraph) (S : List Nat) : List Nat :=
  S ++ (nodeIds g).filter (fun v => !S.contains v &&
    S.any (fun u => (succOf g u).contains v || (succOf g v).contains u))

/-- `k` rounds -/
def rounds (g : DiGraph) : Nat → List Nat → List Nat
  | 0, S => S
  | k+1, S => rounds g k (expand g S)

/-- the weakly connected component of the first node (`2·len(G)` rounds are more than any path needs) -/
def component (g : DiGraph) : List Nat :=
  match g with
  | [] => []
  | x :: _ => rounds g (2 * g.length) [x.id]

def weaklyConnected (g : DiGraph) : Bool := (nodeIds g).all (fun v => (component g).contains v)

/-- **what `networkx.is_arborescence` checks**: non-empty (it raises otherwise), `n - 1` edges, weakly connected,
maximum in-degree at most 1 -/
def isArborescence (g : DiGraph) : Bool :=
  !g.isEmpty && ((edgesOf g).length + 1 == g.length) && weaklyConnected g &&
  (nodeIds g).all (fun v => inDegree g v ≤ 1)

/-! ### `bfs_predecessors` -/

/-- breadth-first search from the queue, `seen` = everything ever enqueued; yields `(node, predecessor)` -/
def bfsPreds (g : DiGraph) : Nat → List Nat → List Nat → List (Nat × Nat)
  | 0, _, _ => []
  | _, [], _ => []
  | fuel+1, q :: qs, seen =>
    let new := (succOf g q).filter (fun c => !seen.contains c)
    new.map (fun c => (c, q)) ++ bfsPreds g fuel (qs ++ new) (seen ++ new)

/-! ### `digraph_to_binary_clt` and the constructor -/

def allSomeL {β : Type} : List (Option β) → Option (List β)
  | [] => some []
  | none :: _ => none
  | some x :: xs => (allSomeL xs).map (fun r => x :: r)

/-- `l[i] = v` on a Python list: `IndexError` (`none`) when out of range -/
def setAt {β : Type} (l : Option (List (Option β))) (i : Nat) (v : β) : Option (List (Option β)) :=
  l.bind (fun a => if i < a.length then some (a.set i (some v)) else none)

/-- shape `(n, 2, 2)` -/
def shapeOK (n : Nat) (params : List (List (List Rat))) : Bool :=
  params.length == n && params.all (fun t => t.length == 2 && t.all (fun row => row.length == 2))

/-- `BinaryCLT(scope, tree=tree, params=params)` with `store` the cast applied to the numbers (`id`: exact document
numbers; `Io32.load32`: `np.array(params, dtype=np.float32)`) -/
def mkClt (store : Rat → Rat) (scope : List Nat) (tree : List Int) (params : List (List (List Rat))) : Option CltObj :=
  -- `Node.__init__`: the scope must be non-empty and free of duplicates
  if scope.isEmpty || !(decide scope.Nodup) then none
  else if tree.length != scope.length then none
  else match rootIdx tree, computeBfsOrdering tree with
    | some _, some _ =>
      if shapeOK scope.length params then
        some { scope := scope, tree := tree, params := params.map (fun t => t.map (fun row => row.map store)) }
      else none
    | _, _ => none

/-- the three arrays `scope`, `tree`, `params` while they are being filled -/
abbrev Arrays := List (Option Nat) × List (Option Int) × List (Option (List (List Rat)))

/-- one round of the filling loop: `attr = graph.nodes[node_id]` (a node without attributes: `KeyError`),
`tree[node_id] = parent_id; scope[node_id] = attr['scope']; params[node_id] = attr['weight']` -/
def fillStep (g : DiGraph) (acc : Option Arrays) (cp : Nat × Int) : Option Arrays :=
  acc.bind (fun (sc, tr, pa) =>
    match attrOf g cp.1 with
    | none => none
    | some a =>
      match setAt (some sc) cp.1 a.scope, setAt (some tr) cp.1 cp.2, setAt (some pa) cp.1 a.weight with
      | some sc', some tr', some pa' => some (sc', tr', pa')
      | _, _, _ => none)

/-- `digraph_to_binary_clt(graph)` -/
def digraphToClt (store : Rat → Rat) (g : DiGraph) : Option CltObj :=
  if !isArborescence g then none
  else match (nodeIds g).find? (fun v => inDegree g v == 0) with
    | none => none
    | some root =>
      let n := g.length
      -- the root first, then `for node_id, parent_id in bfs_predecessors(graph, source=root_id)`
      let pairs := (root, (-1 : Int)) :: (bfsPreds g n [root] [root]).map (fun cp => (cp.1, (cp.2 : Int)))
      match pairs.foldl (fillStep g) (some (List.replicate n none, List.replicate n none, List.replicate n none)) with
      | none => none
      | some (sc, tr, pa) =>
        match allSomeL sc, allSomeL tr, allSomeL pa with
        | some scope, some tree, some params => mkClt store scope tree params
        | _, _, _ => none

/-- `load_binary_clt_json`, numbers kept exactly as written in the document -/
def cltDecode (d : CDoc) : Option CltObj := digraphToClt id (graphOfDoc d)

/-- `load_binary_clt_json` with the float32 storage of the constructor -/
def cltLoad32 (d : CDoc) : Option CltObj := digraphToClt Io32.load32 (graphOfDoc d)

/-- documents of `gens` save/load generations (float32 storage) -/
def cltGenDocs : Nat → CltObj → List (Option CDoc)
  | 0, _ => []
  | g+1, o => cltEncode o :: (match (cltEncode o).bind cltLoad32 with
      | some o' => cltGenDocs g o'
      | none => [])

end Deeprob.GraphIo
