import DeeprobModel.Model.Clt
/-
A layer for C11: Chow-Liu fitting of a binary CLT.

Python mirrored (all in /repo/deeprob):
* `utils/statistics.py::estimate_priors_joints`   → `dot`, `cell`, `prior`, `joint`
* `spn/structure/cltree.py::BinaryCLT.compute_clt_parameters` → `paIdx`, `rawParam`, `cpt`, `cptTable`
* `utils/graph.py::maximum_spanning_tree` is *not* re-implemented (it calls SciPy); instead its result
  (a predecessor vector) is *checked*: `isRootedSpanningTree`, `cycleOK`, and for small instances
  compared with the exhaustive maximum `mstBrute`.

No Mathlib import: everything here is compiled into the driver and executed at `α = Rat`.
-/
namespace Deeprob
namespace CltFit

/-! ### counts -/

/-- `counts_ones[i, j] = np.dot(data.T, data)[i, j] = Σ_rows x_i · x_j`
(a row shorter than the index reads as 0) -/
def dot : List (List Nat) → Nat → Nat → Nat
  | [], _, _ => 0
  | x :: xs, i, j => x.getD i 0 * x.getD j 0 + dot xs i j

/-- `counts_features[i] = np.diag(counts_ones)[i]` -/
def ones (X : List (List Nat)) (i : Nat) : Nat := dot X i i

/-- S-level: the true co-occurrence count `#{rows : x_i = a ∧ x_j = b}` -/
def cnt2 (X : List (List Nat)) (i j a b : Nat) : Nat :=
  X.countP (fun x => x.getD i 0 == a && x.getD j 0 == b)

/-- S-level: `#{rows : x_i = a}` -/
def cnt1 (X : List (List Nat)) (i a : Nat) : Nat :=
  X.countP (fun x => x.getD i 0 == a)

/-- every entry of the data matrix is 0 or 1 (Bool version, run by the driver) -/
def isBinary (X : List (List Nat)) : Bool := X.all (fun x => x.all (fun v => v ≤ 1))

section carrier
variable {α : Type} [Zero α] [One α] [Add α] [Sub α] [Mul α] [Div α] [NatCast α]

/-- the four inclusion–exclusion cells *before* smoothing, in the carrier's arithmetic, exactly as coded:
```
joints[:, :, 0, 0] = n_samples - counts_cols - counts_rows + counts_ones
joints[:, :, 0, 1] = counts_cols - counts_ones
joints[:, :, 1, 0] = counts_rows - counts_ones
joints[:, :, 1, 1] = counts_ones
```
with `counts_cols[i, j] = counts_features[j]`, `counts_rows[i, j] = counts_features[i]`.
The value indices are read as `0` / non-zero. -/
def cell (X : List (List Nat)) (i j a b : Nat) : α :=
  let n : α := (X.length : α)
  let ci : α := (ones X i : α)
  let cj : α := (ones X j : α)
  let cij : α := (dot X i j : α)
  match a, b with
  | 0, 0 => n - cj - ci + cij
  | 0, _+1 => cj - cij
  | _+1, 0 => ci - cij
  | _+1, _+1 => cij

/-- `n_samples + 4 * alpha` -/
def denom (X : List (List Nat)) (al : α) : α := (X.length : α) + ((4 : Nat) : α) * al

/-- `priors[:, 1] = (counts_features + 2 * alpha) / (n_samples + 4 * alpha)`;
`priors[:, 0] = 1.0 - priors[:, 1]` -/
def prior (X : List (List Nat)) (al : α) (i k : Nat) : α :=
  let p1 : α := ((ones X i : α) + ((2 : Nat) : α) * al) / denom X al
  match k with
  | 0 => 1 - p1
  | _+1 => p1

/-- `joints = (joints + alpha) / (n_samples + 4 * alpha)` followed by the diagonal correction
```
joints[idx, idx, 0, 0] = priors[:, 0];  joints[idx, idx, 0, 1] = 0.0
joints[idx, idx, 1, 0] = 0.0;           joints[idx, idx, 1, 1] = priors[:, 1]
```
`joint X al i j a b` = `joints[i, j, a, b]` = estimate of `P(X_i = a, X_j = b)`. -/
def joint (X : List (List Nat)) (al : α) (i j a b : Nat) : α :=
  if i = j then
    match a, b with
    | 0, 0 => prior X al i 0
    | 0, _+1 => 0
    | _+1, 0 => 0
    | _+1, _+1 => prior X al i 1
  else (cell X i j a b + al) / denom X al

/-! ### `compute_clt_parameters` -/

/-- NumPy row index used for variable `i`: `tree[i]`, where the root's `-1` wraps to the last row. -/
def paIdx (pred : List Int) (i : Nat) : Nat :=
  let p := pred.getD i (-1)
  if p < 0 then pred.length - 1 else p.toNat

/-- `params = np.einsum('ikl,il->ilk', joints[vs, tree], np.reciprocal(priors[tree]))` then
`params[root_id] = priors[root_id]`:
`rawParam … i l k = joints[i, tree[i], k, l] * (1 / priors[tree[i], l])`, root row = prior (both `l`). -/
def rawParam (X : List (List Nat)) (al : α) (pred : List Int) (root : Nat) (i l k : Nat) : α :=
  if i = root then prior X al root k
  else joint X al i (paIdx pred i) k l * (1 / prior X al (paIdx pred i) l)

/-- `params /= np.sum(params, axis=2, keepdims=True)`: `cpt … i l k = P(X_i = k | X_pa = l)` -/
def cpt (X : List (List Nat)) (al : α) (pred : List Int) (root : Nat) (i l k : Nat) : α :=
  rawParam X al pred root i l k / (rawParam X al pred root i l 0 + rawParam X al pred root i l 1)

/-- the `(N, 2, 2)` tensor (in the linear domain; the code stores its `np.log`) -/
def cptTable (X : List (List Nat)) (al : α) (pred : List Int) (root : Nat) : List (List (List α)) :=
  (List.range pred.length).map (fun i =>
    [0, 1].map (fun l => [0, 1].map (fun k => cpt X al pred root i l k)))

end carrier

/-! ### predecessor vectors as rooted spanning trees -/

/-- parent of `i`: `pred[i]` when it is a valid index, `none` for `-1` / out of range -/
def parent (pred : List Int) (i : Nat) : Option Nat :=
  let p := pred.getD i (-1)
  if 0 ≤ p ∧ p.toNat < pred.length then some p.toNat else none

/-- `i` reaches `root` by following `pred` in at most `fuel` steps -/
def reaches (pred : List Int) (root : Nat) : Nat → Nat → Bool
  | 0, i => i == root
  | f+1, i => i == root || (match parent pred i with
      | some p => reaches pred root f p
      | none => false)

/-- the predecessor vector encodes a spanning tree rooted at `root`: `root` is in range and is the only
entry `-1`, every other entry is a valid index, and every vertex reaches `root` in `< n` steps. -/
def isRootedSpanningTree (pred : List Int) (root : Nat) : Bool :=
  decide (root < pred.length) && (pred.getD root 0 == -1) &&
  (List.range pred.length).all (fun i => i == root || (parent pred i).isSome) &&
  (List.range pred.length).all (fun i => reaches pred root (pred.length - 1) i)

/-- number of `pred` steps from `i` until a vertex without parent (fuel-bounded) -/
def depth (pred : List Int) : Nat → Nat → Nat
  | 0, _ => 0
  | f+1, i => match parent pred i with
      | some p => depth pred f p + 1
      | none => 0

/-- tree path between `u` and `v`, as the list of *child end-points* `c` of its edges `(c, pred[c])`:
climb from the deeper end until the two meet. `none` when the fuel runs out or a parent is missing. -/
def treePath (pred : List Int) : Nat → Nat → Nat → Option (List Nat)
  | 0, u, v => if u = v then some [] else none
  | f+1, u, v =>
    if u = v then some [] else
    if depth pred pred.length v ≤ depth pred pred.length u then
      match parent pred u with
      | some p => (treePath pred f p v).map (fun cs => u :: cs)
      | none => none
    else
      match parent pred v with
      | some p => (treePath pred f u p).map (fun cs => v :: cs)
      | none => none

/-- all non-tree pairs `u < v` with their tree path -/
def cyclePairs (pred : List Int) : List (Nat × Nat × Option (List Nat)) :=
  (List.range pred.length).flatMap (fun v => (List.range v).filterMap (fun u =>
    if parent pred u = some v ∨ parent pred v = some u then none
    else some (u, v, treePath pred (2 * pred.length) u v)))

section weights
variable {α : Type} [Zero α] [Add α]

/-- weight of the tree edge below `c` (0 for the root) -/
def edgeW (w : Nat → Nat → α) (pred : List Int) (c : Nat) : α :=
  match parent pred c with
  | some p => w c p
  | none => 0

/-- total weight of the tree: `Σ_{i ≠ root} w i pred[i]` -/
def treeWeight (w : Nat → Nat → α) (pred : List Int) : α :=
  tsum ((List.range pred.length).map (edgeW w pred))

variable [LT α] [DecidableLT α]

/-- **cycle property certificate**: every non-tree edge `(u, v)` is no heavier than every tree edge on the
tree path between `u` and `v`. -/
def cycleOK (w : Nat → Nat → α) (pred : List Int) : Bool :=
  (cyclePairs pred).all (fun uvp => match uvp.2.2 with
    | none => false
    | some cs => cs.all (fun c => !(decide (edgeW w pred c < w uvp.1 uvp.2.1))))

/-- undirected weight actually used by `scipy.sparse.csgraph.minimum_spanning_tree` on the negated matrix:
Kruskal sorts *both* directed entries `(i,j)` and `(j,i)` as candidate edges, so the heavier one decides.
(The float32 MI matrix of the implementation is symmetric only up to one ulp.) -/
def symMax (w : Nat → Nat → α) (i j : Nat) : α := if w i j < w j i then w j i else w i j

/-- all length-`k` vectors with entries in `0..n-1` -/
def allVecs (n : Nat) : Nat → List (List Int)
  | 0 => [[]]
  | k+1 => (allVecs n k).flatMap (fun t => (List.range n).map (fun (p : Nat) => (Int.ofNat p) :: t))

/-- every predecessor vector on `n` vertices rooted at vertex 0 that encodes a spanning tree
(each labelled spanning tree appears exactly once: root it at 0) -/
def allTrees (n : Nat) : List (List Int) :=
  match n with
  | 0 => []
  | m+1 => ((allVecs (m+1) m).map (fun t => (-1 : Int) :: t)).filter (fun t => isRootedSpanningTree t 0)

def maxOpt : Option α → α → Option α
  | none, s => some s
  | some b, s => if b < s then some s else some b

/-- maximum total weight over **all** labelled spanning trees on `n` vertices, by exhaustive enumeration
(`n^(n-1)` candidate vectors, use for `n ≤ 7`) -/
def mstBrute (w : Nat → Nat → α) (n : Nat) : Option α :=
  (allTrees n).foldl (fun best t => maxOpt best (treeWeight w t)) none

end weights

section margins
variable {α : Type} [Zero α] [Add α] [Sub α]
/-- the slacks `w(tree edge) − w(non-tree edge)` of every (non-tree edge, tree-path edge) incidence -/
def cycleMargins (w : Nat → Nat → α) (pred : List Int) : List α :=
  (cyclePairs pred).flatMap (fun uvp => match uvp.2.2 with
    | none => []
    | some cs => cs.map (fun c => edgeW w pred c - w uvp.1 uvp.2.1))
end margins

end CltFit
end Deeprob
