import DeeprobModel.Model.Sum
/-
Circuits as trees (the semantics the properties talk about). Every node stores its
scope, as the Python objects do; validity compares stored scopes as sets.
-/
namespace Deeprob

inductive Circ (α : Type) where
  | leaf (scope : List Nat) (f : Ev → α)                    -- any leaf: value under evidence
  | sum  (scope : List Nat) (ws : List α) (cs : List (Circ α))
  | prod (scope : List Nat) (cs : List (Circ α))

namespace Circ
variable {α : Type} [Zero α] [One α] [Add α] [Mul α]

def scope : Circ α → List Nat
  | leaf s _ => s
  | sum s _ _ => s
  | prod s _ => s

/-- mixture / product semantics; a leaf answers for itself (missing ⇒ marginal). -/
def eval (e : Ev) : Circ α → α
  | leaf _ f => f e
  | sum _ ws cs => wsum ws (cs.map (eval e))
  | prod _ cs => lprod (cs.map (eval e))

/-- table leaf over one discrete variable: Bernoulli / Categorical / indicator.
Missing ⇒ 1; observed `k` ⇒ `tbl[k]` (0 outside the table). -/
def catLeafFn (v : Nat) (tbl : List α) : Ev → α := fun e =>
  match e v with
  | none => 1
  | some k => tbl.getD k 0

def catLeaf (v : Nat) (tbl : List α) : Circ α := .leaf [v] (catLeafFn v tbl)

end Circ
end Deeprob
