import DeeprobModel.Model.Sum
/-
A layer for property C15 (normalizing flows): index arithmetic and per-coordinate formulas of
  /repo/deeprob/flows/layers/autoregressive.py   (MADE degrees / masks, MAF step)
  /repo/deeprob/flows/layers/coupling.py         (coupling masks, coupling step, coupling block)
  /repo/deeprob/flows/utils.py                   (squeeze / unsqueeze, batch-norm, logit)
  /repo/deeprob/flows/models/realnvp.py          (build_permutation_matrix, conv2d / conv_transpose2d
                                                  down/up-scaling, chunk / cat bookkeeping)
  /repo/deeprob/flows/models/base.py             (apply_backward / apply_forward chaining, log_prob)
  /repo/deeprob/torch/utils.py                   (MaskedLinear)
No Mathlib import: everything here is computable and is executed by the driver.

Tensors are modelled as functions `Nat → α` on the *flat* (row-major, contiguous) index; a batch
dimension is just a further leading dimension.  Conditioner networks are uninterpreted functions
`(Nat → α) → Nat → α`; `exp`, `log`, `sqrt`, `sigmoid` are passed as explicit function arguments
(the theorems instantiate them with the fields of `Deeprob.ExpLog`).
-/
namespace Deeprob.Flows

/-! ## 1. MADE degrees and masks (`AutoregressiveLayer`) -/

/-- `degrees[0]` of `build_degrees_sequential`: `np.arange(n)` or `np.arange(n-1, -1, -1)`. -/
def inputDegreesSeq (n : Nat) (reverse : Bool) : List Nat :=
  if reverse then (List.range n).map (fun i => n - 1 - i) else List.range n

/-- Hidden degrees of `build_degrees_sequential`: `np.arange(units) % (n - 1)`.
(For `n = 1` numpy's `% 0` yields 0 with a warning whereas Lean's `% 0` is the identity; the
property is stated for `n ≥ 2`, and the mask theorem holds for *any* degree lists anyway.) -/
def hiddenDegreesSeq (n units : Nat) : List Nat := (List.range units).map (fun k => k % (n - 1))

/-- `AutoregressiveLayer.build_degrees_sequential(depth, units, reverse)`. -/
def buildDegreesSequential (n depth units : Nat) (reverse : Bool) : List (List Nat) :=
  inputDegreesSeq n reverse :: List.replicate depth (hiddenDegreesSeq n units)

/-- `np.min` of a (non-empty) list. -/
def listMin (l : List Nat) : Nat := l.foldl min (l.headD 0)

/-- Hidden layers of `build_degrees_random`: layer `k` is drawn by
`random_state.randint(np.min(degrees[-1]), n - 1, units)`, i.e. every entry lies in
`[min prev, n - 1)`.  The random draw is treated as *any* assignment in that range. -/
def hiddenAdmissible (n units : Nat) : List Nat → List (List Nat) → Bool
  | _, [] => true
  | prev, h :: hs =>
      h.length == units && h.all (fun v => decide (listMin prev ≤ v) && decide (v < n - 1))
        && hiddenAdmissible n units h hs

/-- Admissible outputs of `build_degrees_random(depth, units, random_state)`: `degrees[0]` is a
shuffle of `np.arange(n)`, followed by `depth` hidden layers within the sampled ranges. -/
def degreesRandomOK (n depth units : Nat) (degs : List (List Nat)) : Bool :=
  match degs with
  | [] => false
  | d0 :: hs => d0.isPerm (List.range n) && hs.length == depth && hiddenAdmissible n units d0 hs

/-- `np.less_equal(d1[None, :], d2[:, None])`: entry `[o][i] = (d1[i] ≤ d2[o])`. -/
def maskLE (d1 d2 : List Nat) : List (List Bool) := d2.map (fun b => d1.map (fun a => decide (a ≤ b)))

/-- `np.less(d1[None, :], d2[:, None])`: entry `[o][i] = (d1[i] < d2[o])`. -/
def maskLT (d1 d2 : List Nat) : List (List Bool) := d2.map (fun b => d1.map (fun a => decide (a < b)))

/-- `AutoregressiveLayer.build_masks(degrees)`: `≤`-masks for `zip(degrees[:-1], degrees[1:])`,
then the strict output mask between `degrees[-1]` and `degrees[0]`. -/
def buildMasks (degs : List (List Nat)) : List (List (List Bool)) :=
  List.zipWith maskLE degs degs.tail ++ [maskLT (degs.getLastD []) (degs.headD [])]

/-- `np.tile(masks[-1], reps=(2, 1))`: the output mask stacked twice (rows `0..n-1` produce the
translations `t`, rows `n..2n-1` the log-scales `s`). -/
def tileMask (M : List (List Bool)) : List (List Bool) := M ++ M

/-- The masks as registered in the `MaskedLinear` modules of `self.network`:
`masks[:-1]` followed by the tiled output mask. -/
def conditionerMasks (degs : List (List Nat)) : List (List (List Bool)) :=
  List.zipWith maskLE degs degs.tail ++ [tileMask (maskLT (degs.getLastD []) (degs.headD []))]

/-- Entry `[o][i]` of a mask (out of range = 0). -/
def entry (M : List (List Bool)) (o i : Nat) : Bool := (M.getD o []).getD i false

/-- Connectivity through a stack of masks: is there a chain of units, one per mask, all of whose
mask entries are 1, from input `j` of the first mask to output `i` of the last one?
(= entry `[i][j]` of the boolean product `M_L ⋯ M_1`.) -/
def reachB : List (List (List Bool)) → Nat → Nat → Bool
  | [], j, i => j == i
  | M :: Ms, j, i => (List.range M.length).any (fun k => entry M k j && reachB Ms k i)

/-- Dependency matrix `[i][j]` (output `i` may read input `j`) of a MADE with the given masks. -/
def depMatrix (Ms : List (List (List Bool))) (n : Nat) : List (List Bool) :=
  (List.range n).map (fun i => (List.range n).map (fun j => reachB Ms j i))

/-- `np.argsort(ordering)` for an `ordering` that is a permutation of `0..n-1` (the only case that
occurs: `degrees[0]` is `arange`, reversed `arange` or a shuffle of `arange`): position `k` holds
the index whose degree is `k`. -/
def invOrdering (ordering : List Nat) : List Nat :=
  (List.range ordering.length).map (fun k => ordering.idxOf k)

section Linear
variable {α : Type} [Zero α] [Add α] [Mul α]

/-- `MaskedLinear.forward`: `F.linear(x, mask * weight, bias)`, output unit `o`:
`bias[o] + Σ_{i<nin} (mask[o][i] * W[o][i]) * x[i]`. -/
def maskedLinear (M : List (List Bool)) (nin : Nat) (W : Nat → Nat → α) (b : Nat → α)
    (x : Nat → α) : Nat → α :=
  fun o => b o + sumVar nin (fun i => (if entry M o i then W o i else 0) * x i)

/-- A feed-forward stack `nn.Sequential(*layers)`: apply the layers left to right. -/
def chainLayers (fs : List ((Nat → α) → (Nat → α))) (x : Nat → α) : Nat → α :=
  fs.foldl (fun y f => f y) x

end Linear

/-! ## 2. Autoregressive (MAF) layer -/

section Maf
variable {α : Type} [Zero α] [Add α] [Sub α] [Neg α] [Mul α]

/-- In-place write `x[:, i] = v`. -/
def upd (x : Nat → α) (i : Nat) (v : α) : Nat → α := fun k => if k = i then v else x k

/-- `AutoregressiveLayer.apply_backward` (one pass): `u = (x - t) * exp(-s)`,
`inv_log_det_jacobian = -sum(s)`, with `t, s = chunk(network(x))`, `s = scale_act(s)`.
`t s : (Nat → α) → Nat → α` are the two output heads as uninterpreted functions of the input. -/
def mafBackward (exp : α → α) (n : Nat) (t s : (Nat → α) → Nat → α) (x : Nat → α) :
    (Nat → α) × α :=
  (fun i => (x i - t x i) * exp (-(s x i)), -(sumVar n (s x)))

/-- Body of the loop `for i in self.inv_ordering:` of `apply_forward`: the network is re-evaluated
on the current `x`, then `x[:, i] = u[:, i] * exp(s[:, i]) + t[:, i]`, `ldj[:, i] = s[:, i]`. -/
def mafLoop (exp : α → α) (t s : (Nat → α) → Nat → α) (u : Nat → α) :
    List Nat → (Nat → α) × (Nat → α) → (Nat → α) × (Nat → α)
  | [], st => st
  | i :: rest, (x, l) =>
      mafLoop exp t s u rest (upd x i (u i * exp (s x i) + t x i), upd l i (s x i))

/-- `AutoregressiveLayer.apply_forward` (no-grad branch; the autograd branch computes the same
values): start from `zeros_like(u)`, run the loop over `inv_ordering`, sum the collected `s`. -/
def mafForward (exp : α → α) (n : Nat) (order : List Nat) (t s : (Nat → α) → Nat → α)
    (u : Nat → α) : (Nat → α) × α :=
  let r := mafLoop exp t s u order (fun _ => 0, fun _ => 0)
  (r.1, sumVar n r.2)

end Maf

/-! ## 3. Coupling layers -/

/-- `CouplingLayer1d.build_alternating_masks` (+ the `reverse` swap): `mask = arange(n) % 2`,
swapped with `1 - mask` if `reverse`. `true` = mask value 1 = coordinate fed to the conditioner. -/
def alternatingMask (reverse : Bool) (k : Nat) : Bool := (k % 2 == 1) != reverse

/-- `CouplingLayer2d.build_checkerboard_masks` (+ `reverse`), on the flat index of a `(C,H,W)`
tensor: `mask[0,h,w] = (0 + h + w) % 2`, broadcast over channels. -/
def checkerboardMask (H W : Nat) (reverse : Bool) (k : Nat) : Bool :=
  (((k / W) % H + k % W) % 2 == 1) != reverse

/-- Effective mask of a channel-wise coupling on a `(C,H,W)` tensor (`C` even): without `reverse`
`my, mx = chunk(x, 2, dim=1)`, i.e. the *second* half of the channels is the conditioning part. -/
def channelwiseMask (C H W : Nat) (reverse : Bool) (k : Nat) : Bool :=
  if reverse then decide (k < (C / 2) * H * W) else decide ((C / 2) * H * W ≤ k)

section Coupling
variable {α : Type} [Zero α] [One α] [Add α] [Sub α] [Neg α] [Mul α]

/-- The registered buffer `mask` (float 0/1). -/
def maskVal (m : Nat → Bool) (k : Nat) : α := if m k then 1 else 0
/-- The registered buffer `inv_mask = 1.0 - mask`. -/
def invMaskVal (m : Nat → Bool) (k : Nat) : α := 1 - maskVal m k

/-- `CouplingLayer1d.apply_backward` / the non-channelwise branch of `CouplingLayer2d.apply_backward`
(same formulas on the flattened tensor). `T S` are the two heads of the conditioner (for the
additive case `T` is the whole output `z`). -/
def couplingBackward (exp : α → α) (affine : Bool) (n : Nat) (m : Nat → Bool)
    (T S : (Nat → α) → Nat → α) (x : Nat → α) : (Nat → α) × α :=
  let mx : Nat → α := fun k => maskVal m k * x k
  let t : Nat → α := fun k => invMaskVal m k * T mx k
  if affine then
    let s : Nat → α := fun k => invMaskVal m k * S mx k
    (fun k => (x k - t k) * exp (-(s k)), -(sumVar n s))
  else
    (fun k => x k - t k, 0)

/-- `CouplingLayer1d.apply_forward` / non-channelwise `CouplingLayer2d.apply_forward`. -/
def couplingForward (exp : α → α) (affine : Bool) (n : Nat) (m : Nat → Bool)
    (T S : (Nat → α) → Nat → α) (u : Nat → α) : (Nat → α) × α :=
  let mu : Nat → α := fun k => maskVal m k * u k
  let t : Nat → α := fun k => invMaskVal m k * T mu k
  if affine then
    let s : Nat → α := fun k => invMaskVal m k * S mu k
    (fun k => u k * exp (s k) + t k, sumVar n s)
  else
    (fun k => u k + t k, 0)

/-- First chunk of `torch.chunk(x, 2, dim=1)` on the flat index (`half` = elements per chunk),
zero-padded outside the chunk so that a conditioner cannot read the other chunk. -/
def chunkFst (half : Nat) (x : Nat → α) : Nat → α := fun k => if k < half then x k else 0
/-- Second chunk of `torch.chunk(x, 2, dim=1)`: everything from flat index `half` on (the real
tensor ends at `2·half`; the model's fictitious coordinates beyond are simply carried along). -/
def chunkSnd (half : Nat) (x : Nat → α) : Nat → α := fun k => x (half + k)
/-- `torch.cat([a, z], dim=1)` with `a` of `half` elements. -/
def cat2 (half : Nat) (a z : Nat → α) : Nat → α := fun k => if k < half then a k else z (k - half)

/-- Channel-wise branch of `CouplingLayer2d.apply_backward`; `half = (C/2)·H·W`. -/
def chanBackward (exp : α → α) (affine reverse : Bool) (half : Nat)
    (T S : (Nat → α) → Nat → α) (x : Nat → α) : (Nat → α) × α :=
  let mx := if reverse then chunkFst half x else chunkSnd half x
  let my := if reverse then chunkSnd half x else chunkFst half x
  let my' : Nat → α := if affine then fun k => (my k - T mx k) * exp (-(S mx k))
                       else fun k => my k - T mx k
  (if reverse then cat2 half mx my' else cat2 half my' mx,
   if affine then -(sumVar half (S mx)) else 0)

/-- Channel-wise branch of `CouplingLayer2d.apply_forward`. -/
def chanForward (exp : α → α) (affine reverse : Bool) (half : Nat)
    (T S : (Nat → α) → Nat → α) (u : Nat → α) : (Nat → α) × α :=
  let mu := if reverse then chunkFst half u else chunkSnd half u
  let mv := if reverse then chunkSnd half u else chunkFst half u
  let mv' : Nat → α := if affine then fun k => mv k * exp (S mu k) + T mu k
                       else fun k => mv k + T mu k
  (if reverse then cat2 half mu mv' else cat2 half mv' mu,
   if affine then sumVar half (S mu) else 0)

end Coupling

/-! ## 5. Squeeze / unsqueeze as flat-index maps -/

/-- Row-major multi-index of flat index `d` in a 5-D shape `(·, s2, s3, s4, s5)`
(the leading extent is irrelevant for the decoding). -/
def dec5 (s2 s3 s4 s5 d : Nat) : Nat × Nat × Nat × Nat × Nat :=
  (d / s5 / s4 / s3 / s2, d / s5 / s4 / s3 % s2, d / s5 / s4 % s3, d / s5 % s4, d % s5)

/-- Row-major flat index of a multi-index in shape `(·, s2, s3, s4, s5)`. -/
def enc5 (s2 s3 s4 s5 : Nat) (i : Nat × Nat × Nat × Nat × Nat) : Nat :=
  (((i.1 * s2 + i.2.1) * s3 + i.2.2.1) * s4 + i.2.2.2.1) * s5 + i.2.2.2.2

/-- `squeeze_depth2d`: `x.reshape(n, c, h//2, 2, w//2, 2).permute(0, 1, 3, 5, 2, 4)
.reshape(n, 4c, h//2, w//2)`. For the flat index `d` of the *result* (shape `(n·c, 2, 2, h//2,
w//2)` before the final reshape) return the flat index of the source element (shape
`(n·c, h//2, 2, w//2, 2)`): result axes `(c, a, b, i, j)` read source axes `(c, i, a, j, b)`. -/
def squeezeSrc (h w d : Nat) : Nat :=
  let m := dec5 2 2 (h / 2) (w / 2) d
  enc5 (h / 2) 2 (w / 2) 2 (m.1, m.2.2.2.1, m.2.1, m.2.2.2.2, m.2.2.1)

/-- `unsqueeze_depth2d` on an input of size `(n, C, H, W)`: `x.reshape(n, C//4, 2, 2, H, W)
.permute(0, 1, 4, 2, 5, 3).reshape(n, C//4, 2H, 2W)`. Result axes `(c, i, a, j, b)` read source
axes `(c, a, b, i, j)`. -/
def unsqueezeSrc (H W d : Nat) : Nat :=
  let m := dec5 H 2 W 2 d
  enc5 2 2 H W (m.1, m.2.2.1, m.2.2.2.2, m.2.1, m.2.2.2.1)

/-- `squeeze_depth2d` as a tensor operation (gather). -/
def squeeze {α : Type} (h w : Nat) (x : Nat → α) : Nat → α := fun d => x (squeezeSrc h w d)
/-- `unsqueeze_depth2d` as a tensor operation on an input of spatial size `H × W`. -/
def unsqueeze {α : Type} (H W : Nat) (x : Nat → α) : Nat → α := fun d => x (unsqueezeSrc H W d)

/-! ## 6. RealNVP2d down/up-scaling permutation -/

/-- `ordering[q, 0, a, b]` of `build_permutation_matrix`. -/
def orderingBit (q a b : Nat) : Bool :=
  match q with
  | 0 => a == 0 && b == 0
  | 1 => a == 1 && b == 1
  | 2 => a == 0 && b == 1
  | 3 => a == 1 && b == 0
  | _ => false

/-- `weights[r, ci, a, b]` after `weights[4*i:4*i+4, i:i+1] = ordering`. -/
def preWeight (r ci a b : Nat) : Bool := (ci == r / 4) && orderingBit (r % 4) a b

/-- `permutation[o]` for `permutation = [4*i + j for j in [0,1,2,3] for i in range(channels)]`
(position `o = j*channels + i`). -/
def permIndex (c o : Nat) : Nat := 4 * (o % c) + o / c

/-- `build_permutation_matrix(c)[o, ci, a, b] = weights[permutation][o, ci, a, b]` (as a bit). -/
def permWeight (c o ci a b : Nat) : Bool := preWeight (permIndex c o) ci a b

/-- Kernel offset `(a, b)` selected by quarter `q`. -/
def quarterPos (q : Nat) : Nat × Nat :=
  match q with
  | 0 => (0, 0)
  | 1 => (1, 1)
  | 2 => (0, 1)
  | _ => (1, 0)

/-- Quarter selecting kernel offset `(a, b)`. -/
def posQuarter (a b : Nat) : Nat :=
  if a == 0 then (if b == 0 then 0 else 2) else (if b == 0 then 3 else 1)

/-- The unique `(ci, a, b)` with `permWeight c o ci a b = 1` (for `o < 4c`). -/
def permSrc (c o : Nat) : Nat × Nat × Nat := (o % c, (quarterPos (o / c)).1, (quarterPos (o / c)).2)

section Conv
variable {α : Type} [Zero α] [One α] [Add α] [Mul α]

/-- `F.conv2d(x, perm_matrix, stride=2)` on a `(c, h, w)` input, result `(4c, h//2, w//2)`:
`out[o, y, x] = Σ_ci Σ_a Σ_b W[o, ci, a, b] * in[ci, 2y + a, 2x + b]` (flat indices). -/
def convPerm (c h w : Nat) (x : Nat → α) : Nat → α := fun d =>
  let xx := d % (w / 2)
  let y := d / (w / 2) % (h / 2)
  let o := d / (w / 2) / (h / 2)
  sumVar c (fun ci => sumVar 2 (fun a => sumVar 2 (fun b =>
    (if permWeight c o ci a b then 1 else 0) * x ((ci * h + (2 * y + a)) * w + (2 * xx + b)))))

/-- `F.conv_transpose2d(x, perm_matrix, stride=2)` on a `(4c, h//2, w//2)` input, result `(c, h, w)`.
With kernel 2 and stride 2 the receptive fields do not overlap, so each output position `(Y, X)`
receives exactly the kernel offset `(Y % 2, X % 2)` of input position `(Y / 2, X / 2)`:
`out[ci, Y, X] = Σ_o W[o, ci, Y%2, X%2] * in[o, Y/2, X/2]`. -/
def convTPerm (c h w : Nat) (x : Nat → α) : Nat → α := fun d =>
  let X := d % w
  let Y := d / w % h
  let ci := d / w / h
  sumVar (4 * c) (fun o =>
    (if permWeight c o ci (Y % 2) (X % 2) then 1 else 0) * x ((o * (h / 2) + Y / 2) * (w / 2) + X / 2))

end Conv

/-- Flat source index read by `convPerm` at destination `d` (gather form). -/
def convPermSrc (c h w d : Nat) : Nat :=
  let xx := d % (w / 2)
  let y := d / (w / 2) % (h / 2)
  let o := d / (w / 2) / (h / 2)
  let s := permSrc c o
  (s.1 * h + (2 * y + s.2.1)) * w + (2 * xx + s.2.2)

/-- Flat source index read by `convTPerm` at destination `d` (gather form). -/
def convTPermSrc (c h w d : Nat) : Nat :=
  let X := d % w
  let Y := d / w % h
  let ci := d / w / h
  ((posQuarter (Y % 2) (X % 2) * c + ci) * (h / 2) + Y / 2) * (w / 2) + X / 2

/-! ## 6b. Multi-scale loops of `RealNVP2d.apply_backward / apply_forward` -/

/-- The operations of one (non-last) scale `i` of `RealNVP2d`: the coupling block `layers[i]`,
`F.conv2d(·, perm_matrices[i], stride=2)`, `F.conv_transpose2d(·, perm_matrices[i], stride=2)`,
`torch.chunk(·, 2, dim=1)` and `torch.cat([x, z], dim=1)`. -/
structure ScaleFns (X Z β : Type) where
  bwd : X → X × β
  fwd : X → X × β
  down : X → X
  up : X → X
  split : X → X × Z
  join : X × Z → X

section MultiScale
variable {X Z β : Type} [Zero β] [Add β]

/-- First loop of `RealNVP2d.apply_backward` over the non-last blocks: block backward, downscale,
chunk, `slices.append(z)` (the list of slices is kept as a stack, newest first). -/
def msBwdDown : List (ScaleFns X Z β) → X → β → List Z → X × β × List Z
  | [], x, a, zs => (x, a, zs)
  | s :: ss, x, a, zs =>
      msBwdDown ss (s.split (s.down (s.bwd x).1)).1 (a + (s.bwd x).2)
        ((s.split (s.down (s.bwd x).1)).2 :: zs)

/-- `for i in range(len(self.layers) - 2, -1, -1): x = cat([x, slices[i]]); x = conv_transpose2d(x)`;
the scales are passed in reverse order, matching the stack of slices. -/
def msUp : List (ScaleFns X Z β) → X → List Z → X
  | s :: ss, x, z :: zs => msUp ss (s.up (s.join (x, z))) zs
  | _, x, _ => x

/-- `RealNVP2d.apply_backward`; `last = layers[-1].apply_backward`. -/
def msBackward (scales : List (ScaleFns X Z β)) (last : X → X × β) (x : X) : X × β :=
  let r := msBwdDown scales x 0 []
  let y := last r.1
  (msUp scales.reverse y.1 r.2.2, r.2.1 + y.2)

/-- First loop of `RealNVP2d.apply_forward`: downscale and chunk through all scales. -/
def msFwdDown : List (ScaleFns X Z β) → X → List Z → X × List Z
  | [], x, zs => (x, zs)
  | s :: ss, x, zs => msFwdDown ss (s.split (s.down x)).1 ((s.split (s.down x)).2 :: zs)

/-- Second loop of `RealNVP2d.apply_forward` below the last block (scales in reverse order):
`x = cat([x, slices[i]]); x = conv_transpose2d(x); x, ldj = layers[i].apply_forward(x)`. -/
def msFwdUp : List (ScaleFns X Z β) → X → β → List Z → X × β
  | s :: ss, x, a, z :: zs =>
      msFwdUp ss (s.fwd (s.up (s.join (x, z)))).1 (a + (s.fwd (s.up (s.join (x, z)))).2) zs
  | _, x, a, _ => (x, a)

/-- `RealNVP2d.apply_forward`; `last = layers[-1].apply_forward`. -/
def msForward (scales : List (ScaleFns X Z β)) (last : X → X × β) (u : X) : X × β :=
  let r := msFwdDown scales u []
  let y := last r.1
  msFwdUp scales.reverse y.1 (0 + y.2) r.2

end MultiScale

/-! ## 7. Batch normalisation (eval mode) and logit preprocessing -/

section BnLogit
variable {α : Type} [Zero α] [One α] [Add α] [Sub α] [Neg α] [Mul α] [Div α]

/-- `BatchNormLayer1d.apply_backward` with `self.training = False`; `half` is the literal `0.5`. -/
def bn1dBackward (exp log sqrt : α → α) (half eps : α) (n : Nat) (w b mean var : Nat → α)
    (x : Nat → α) : (Nat → α) × α :=
  (fun k => (x k - mean k) / sqrt (var k + eps) * exp (w k) + b k,
   sumVar n (fun k => w k - half * log (var k + eps)))

/-- `BatchNormLayer1d.apply_forward`. -/
def bn1dForward (exp log sqrt : α → α) (half eps : α) (n : Nat) (w b mean var : Nat → α)
    (u : Nat → α) : (Nat → α) × α :=
  (fun k => (u k - b k) * exp (-(w k)) * sqrt (var k + eps) + mean k,
   sumVar n (fun k => -(w k) + half * log (var k + eps)))

/-- `BatchNormLayer2d.apply_backward` (eval) on the flat index of a `(C, H, W)` tensor;
`grid = H·W`, `gridA` its value in `α`; parameters are per channel `k / grid`. -/
def bn2dBackward (exp log sqrt : α → α) (half eps : α) (C grid : Nat) (gridA : α)
    (w b mean var : Nat → α) (x : Nat → α) : (Nat → α) × α :=
  (fun k => (x k - mean (k / grid)) / sqrt (var (k / grid) + eps) * exp (w (k / grid)) + b (k / grid),
   sumVar C (fun c => w c - half * log (var c + eps)) * gridA)

/-- `BatchNormLayer2d.apply_forward`. -/
def bn2dForward (exp log sqrt : α → α) (half eps : α) (C grid : Nat) (gridA : α)
    (w b mean var : Nat → α) (u : Nat → α) : (Nat → α) × α :=
  (fun k => (u k - b (k / grid)) * exp (-(w (k / grid))) * sqrt (var (k / grid) + eps) + mean (k / grid),
   sumVar C (fun c => half * log (var c + eps) - w c) * gridA)

/-- The cached buffer `ldj = -dims * log(1 - 2α)` of `LogitLayer`. -/
def logitConst (log : α → α) (alpha dimsA : α) : α := -(dimsA * log (1 - (1 + 1) * alpha))

/-- `LogitLayer.apply_backward`. -/
def logitBackward (log : α → α) (alpha dimsA : α) (n : Nat) (x : Nat → α) : (Nat → α) × α :=
  let x' : Nat → α := fun k => alpha + (1 - (1 + 1) * alpha) * x k
  (fun k => log (x' k) - log (1 - x' k),
   -(sumVar n (fun k => log (x' k) + log (1 - x' k)) + logitConst log alpha dimsA))

/-- `LogitLayer.apply_forward`. -/
def logitForward (log sigmoid : α → α) (alpha dimsA : α) (n : Nat) (u : Nat → α) : (Nat → α) × α :=
  let p : Nat → α := fun k => sigmoid (u k)
  (fun k => (p k - alpha) / (1 - (1 + 1) * alpha),
   sumVar n (fun k => log (p k) + log (1 - p k)) + logitConst log alpha dimsA)

end BnLogit

/-! ## 8. Chaining (`NormalizingFlow.apply_backward / apply_forward / forward`) -/

section Chain
variable {X β : Type} [Zero β] [Add β]

/-- `NormalizingFlow.apply_backward`: `ildj = 0.0; for layer in layers: x, d = layer(x); ildj += d`. -/
def chainRun (ls : List (X → X × β)) (x : X) : X × β :=
  ls.foldl (fun st l => ((l st.1).1, st.2 + (l st.1).2)) (x, 0)

/-- `NormalizingFlow.forward` (log-likelihood) without preprocessing:
`prior + inv_log_det_jacobian` where `x, ildj = apply_backward(x)`, `prior = Σ base.log_prob(x)`. -/
def flowLogProb (bwd : X → X × β) (baseLogDensity : X → β) (x : X) : β :=
  baseLogDensity (bwd x).1 + (bwd x).2

end Chain

end Deeprob.Flows
