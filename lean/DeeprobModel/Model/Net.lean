import DeeprobModel.Model.Clt
/-
Circuits as the code stores them: a table of nodes, children referenced by table index
(= Python object identity, so sharing is visible). Mirrors node.py / validity.py / filter.py.
-/
namespace Deeprob

inductive Kind where
  | sum | prod | leaf
deriving DecidableEq, Repr, Inhabited

inductive LeafP (α : Type) where
  | cat (v : Nat) (tbl : List α)        -- Bernoulli / Categorical: dense table indexed by value
  | ext (v : Nat)                        -- continuous leaf: density of the observed value is supplied per row
  | clt (pred : List Int) (cpt : List (List (List α)))   -- binary Chow-Liu tree over the node's scope
  | absent
deriving Inhabited

structure NNode (α : Type) where
  id : Nat
  kind : Kind
  scope : List Nat
  ch : List Nat
  ws : List α
  leaf : LeafP α
deriving Inhabited

abbrev Net (α : Type) := List (NNode α)

namespace Net
variable {α : Type}

def node? (n : Net α) (i : Nat) : Option (NNode α) := n[i]?
def chOf (n : Net α) (i : Nat) : List Nat := match n[i]? with | some x => x.ch | none => []

/-- `bfs(root)`: nodes in discovery order. State = (queue, seen-in-discovery-order). -/
def bfsAux (n : Net α) : Nat → List Nat → List Nat → List Nat
  | 0, _, seen => seen
  | _, [], seen => seen
  | fuel+1, q :: qs, seen =>
    let new := (chOf n q).foldl (fun acc c => if (seen ++ acc).contains c then acc else acc ++ [c]) []
    bfsAux n fuel (qs ++ new) (seen ++ new)

/-- `collect_nodes(root)` -/
def collect (n : Net α) (root : Nat) : List Nat := bfsAux n (n.length + 1) [root] [root]

def scopeEqB (a b : List Nat) : Bool := a.all (fun v => b.contains v) && b.all (fun v => a.contains v)
def nodupB : List Nat → Bool
  | [] => true
  | x :: xs => !xs.contains x && nodupB xs
def maxL (l : List Nat) : Nat := l.foldl max 0
def minL : List Nat → Nat
  | [] => 0
  | x :: xs => xs.foldl min x

inductive Verdict where
  | accept
  | labeled (why : String)
  | smooth (why : String)
  | decomposable (why : String)
deriving DecidableEq, Repr

def Verdict.toString : Verdict → String
  | .accept => "accept"
  | .labeled w => "reject:labeled:" ++ w
  | .smooth w => "reject:smooth:" ++ w
  | .decomposable w => "reject:decomposable:" ++ w

/-- `is_labeled` as coded -/
def isLabeled (n : Net α) (nodes : List Nat) : Option String :=
  let ids := nodes.map (fun i => match n[i]? with | some x => x.id | none => 0)
  if !nodupB ids then some "repeated"
  else if minL ids != 0 then some "min"
  else if maxL ids != ids.length - 1 then some "max"
  else none

/-- `is_smooth` as coded: first offending sum node in BFS order -/
def isSmooth (n : Net α) (nodes : List Nat) : Option String :=
  nodes.findSome? (fun i => match n[i]? with
    | some x => if x.kind = .sum then
        (if x.ch.length == 0 then some "nochildren"
         else if x.ch.length != x.ws.length then some "weights"
         else if x.ch.any (fun c => !scopeEqB (match n[c]? with | some y => y.scope | none => []) x.scope) then some "scopes"
         else none) else none
    | none => none)

def childScopes (n : Net α) (x : NNode α) : List Nat :=
  (x.ch.map (fun c => match n[c]? with | some y => y.scope | none => [])).flatten

/-- `is_decomposable` as coded on the repaired tree (F2): the concatenated child scopes must be
duplicate-free and equal, as a set, to the node's scope -/
def isDecomposable (n : Net α) (nodes : List Nat) : Option String :=
  nodes.findSome? (fun i => match n[i]? with
    | some x => if x.kind = .prod then
        (if x.ch.length == 0 then some "nochildren"
         else if !nodupB (childScopes n x) || !scopeEqB x.scope (childScopes n x) then some "scopes"
         else none) else none
    | none => none)

/-- the pinned tree's test (union only) — kept for the witness theorem `unionOnly_unsound` -/
def isDecomposableUnionOnly (n : Net α) (nodes : List Nat) : Option String :=
  nodes.findSome? (fun i => match n[i]? with
    | some x => if x.kind = .prod then
        (if x.ch.length == 0 then some "nochildren"
         else if !scopeEqB x.scope (childScopes n x) then some "scopes"
         else none) else none
    | none => none)

/-- `check_spn(root, labeled, smooth, decomposable)` -/
def checkSpn (n : Net α) (root : Nat) (labeled smooth decomposable : Bool) : Verdict :=
  let nodes := collect n root
  match (if labeled then isLabeled n nodes else none) with
  | some w => .labeled w
  | none => match (if smooth then isSmooth n nodes else none) with
    | some w => .smooth w
    | none => match (if decomposable then isDecomposable n nodes else none) with
      | some w => .decomposable w
      | none => .accept

/-- children-first storage order (what the exporter promises and the driver re-checks) -/
def wellOrderedB (n : Net α) : Bool :=
  (List.range n.length).all (fun i => (chOf n i).all (fun c => c < i))

end Net

section eval
variable {α : Type} [Zero α] [One α] [Add α] [Mul α]

/-- value of a leaf under evidence; `d` = supplied density for `ext` leaves -/
def LeafP.fn (scope : List Nat) (d : α) : LeafP α → Ev → α
  | .cat v tbl => Circ.catLeafFn v tbl
  | .ext v => fun e => match e v with | Option.none => 1 | some _ => d
  | .clt pred cpt => Clt.value scope pred cpt
  | .absent => fun _ => 0

def evalNode (e : Ev) (dens : List α) (vals : List α) (x : NNode α) : α :=
  match x.kind with
  | .leaf => x.leaf.fn x.scope (dens.getD vals.length 0) e
  | .sum => wsum x.ws (x.ch.map (fun c => vals.getD c 0))
  | .prod => lprod (x.ch.map (fun c => vals.getD c 0))

/-- bottom-up evaluation: one value per node, filled children-first (`eval_bottom_up`) -/
def evalNet (e : Ev) (dens : List α) (net : Net α) : List α :=
  net.foldl (fun vals x => vals ++ [evalNode e dens vals x]) []

/-- unfolding of node `i` into a tree (sharing is duplicated); fuel ≥ i+1 is enough for
children-first tables -/
def toTree (net : Net α) (dens : List α) : Nat → Nat → Circ α
  | 0, _ => .leaf [] (fun _ => 0)
  | fuel+1, i => match net[i]? with
     | none => .leaf [] (fun _ => 0)
     | some x => match x.kind with
        | .leaf => .leaf x.scope (x.leaf.fn x.scope (dens.getD i 0))
        | .sum => .sum x.scope x.ws (x.ch.map (toTree net dens fuel))
        | .prod => .prod x.scope (x.ch.map (toTree net dens fuel))

end eval
end Deeprob
