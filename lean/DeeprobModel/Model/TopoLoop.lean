import DeeprobModel.Generated.Consts
import DeeprobModel.Model.RewriteNet
import DeeprobModel.Model.Sched
/-
The loops of `topological_order` / `topological_order_layered` (/repo/deeprob/spn/structure/node.py) AS EXTRACTED from the source
(`Gen.S5topoInit / RootGuard / Step / Result`, `Gen.S5layeredInit / RootGuard / Step / Result`, written by tools/listprog.py on every
run), iterated and instantiated on the node table of the model: node objects = table rows (`Nat`), `n.children` = `Net.chOf`,
the dictionary of counters = a total function `Nat → Int` (a missing key reads 0, as `defaultdict(int)` does), `d[k] = v` =
`Sched.setF`, `bfs(root)` = `Net.collect`, `sum(d.values())` = the sum over the keys present = the nodes of `bfs(root)`.
Also the hand-written Kahn machine as a step function (`kahnStepM`, the body of `Net.kahnLoop`).
Executable (the driver runs these next to the real code: ops `s5_topo`, `s5_layers`); the theorems about them are in
`Oblig/Struct5Topo.lean` and `Props/E2ETopo.lean`.  No Mathlib.
-/
namespace Deeprob.Oblig.Struct5T
open Deeprob Deeprob.Net Deeprob.Sched

/-- the dictionary of counters: a total table, 0 where the Python dictionary has no key -/
abbrev Cnt := Nat → Int

/-- `d[k]` -/
def getC (d : Cnt) (k : Nat) : Int := d k
/-- `defaultdict(int)` -/
def emptyC : Cnt := fun _ => 0
/-- `sum(d.values())`: the keys present are the nodes of `bfs(root)` (the root is entered explicitly, every other key is a child
of a node of `bfs(root)`, and those are exactly the other nodes of `bfs(root)`) -/
def sumC (R : List Nat) (d : Cnt) : Int := (R.map d).sum

variable {α : Type}

/-! ### the hand-written machine of `topological_order`: the body of `Net.kahnLoop` as a step function -/

/-- one iteration of `while queue:` of the MODEL (`Net.kahnLoop`): state = (queue, counters as a list, ordering) -/
def kahnStepM (t : Net α) : List Nat × List Nat × List Nat → List Nat × List Nat × List Nat
  | ([], cnt, ord) => ([], cnt, ord)
  | (q :: qs, cnt, ord) =>
    let r := kahnVisit cnt (chOf t q)
    (qs ++ r.2, r.1, ord ++ [q])

def kahnRunM (t : Net α) : Nat → List Nat × List Nat × List Nat → List Nat × List Nat × List Nat
  | 0, s => s
  | n+1, s => kahnRunM t n (kahnStepM t s)

/-! ### the extracted loops, iterated -/

/-- one iteration of the EXTRACTED loop of `topological_order` on the table -/
def genTopoStep (t : Net α) (s : List Nat × Cnt × List Nat) : List Nat × Cnt × List Nat :=
  Gen.S5topoStep (chOf t) getC setF s.1 s.2.1 s.2.2

def genTopoRun (t : Net α) : Nat → List Nat × Cnt × List Nat → List Nat × Cnt × List Nat
  | 0, s => s
  | n+1, s => genTopoRun t n (genTopoStep t s)

/-- the counters the EXTRACTED prologue of `topological_order` computes -/
def genTopoCounts (t : Net α) (root : Nat) : Cnt := Gen.S5topoInit (chOf t) getC setF emptyC (collect t) root

/-- the state in which the extracted loop of `topological_order` ends (`length + 1` iterations: enough for the queue to run
empty — `E2ETopo.e2e_topo_queue_empty` — and further iterations change nothing) -/
def genTopoState (t : Net α) (root : Nat) : List Nat × Cnt × List Nat :=
  genTopoRun t (t.length + 1) ([root], genTopoCounts t root, [])

/-- `topological_order(root)` as extracted: prologue, root test, loop, cycle test -/
def genTopo (t : Net α) (root : Nat) : Option (List Nat) :=
  if Gen.S5topoRootGuard getC (genTopoCounts t root) root then none
  else
    let s := genTopoState t root
    Gen.S5topoResult (sumC (collect t root)) s.2.1 s.2.2

/-- the counters the EXTRACTED prologue of `topological_order_layered` computes -/
def genLayeredCounts (t : Net α) (root : Nat) : Cnt := Gen.S5layeredInit (chOf t) getC setF emptyC (collect t) root

/-- one iteration of the EXTRACTED loop of `topological_order_layered` (the `IndexError` branch of `ordering[-1]` is given the
value "stop, state unchanged"; it is never taken: `genLayersGo_eq`) -/
def genLayeredStep (t : Net α) (s : Cnt × List (List Nat)) : Bool × Cnt × List (List Nat) :=
  Gen.S5layeredStep (chOf t) getC setF (true, s.1, s.2) s.1 s.2

/-- the extracted `while True:` loop: iterate until the `break` condition holds (`none` = fuel exhausted) -/
def genLayersGo (t : Net α) : Nat → Cnt × List (List Nat) → Option (Cnt × List (List Nat))
  | 0, _ => none
  | fuel+1, s =>
    let r := genLayeredStep t s
    if r.1 then some r.2 else genLayersGo t fuel r.2

/-- `topological_order_layered(root)` as extracted: prologue, root test, loop, cycle test -/
def genLayers (t : Net α) (root : Nat) : Option (List (List Nat)) :=
  let R := collect t root
  if Gen.S5layeredRootGuard getC (genLayeredCounts t root) root then none
  else
    match genLayersGo t (R.length + 1) (genLayeredCounts t root, [[root]]) with
    | none => none
    | some s => Gen.S5layeredResult (sumC R) s.1 s.2

/-! ### the generators `bfs` / `dfs_post_order` as extracted (`Gen.S5bfsStep`, `Gen.S5dfsStep`), iterated -/

/-- identity membership of a node in the set of seen nodes (the set is kept as a list) -/
def isInL (c : Nat) (s : List Nat) : Bool := s.contains c

/-- one iteration of the EXTRACTED loop of `bfs`: state = (queue, seen, yielded so far) -/
def genBfsStep (t : Net α) (s : List Nat × List Nat × List Nat) : List Nat × List Nat × List Nat :=
  Gen.S5bfsStep (chOf t) isInL s.1 s.2.1 s.2.2

def genBfsRun (t : Net α) : Nat → List Nat × List Nat × List Nat → List Nat × List Nat × List Nat
  | 0, s => s
  | n+1, s => genBfsRun t n (genBfsStep t s)

/-- the state in which the extracted loop of `bfs` ends (`length + 1` iterations empty the queue: `E2ETopo.e2e_bfs`) -/
def genBfsState (t : Net α) (root : Nat) : List Nat × List Nat × List Nat :=
  genBfsRun t (t.length + 1) ([root], [root], [])

/-- `list(bfs(root))` as extracted: everything the generator yields -/
def genBfs (t : Net α) (root : Nat) : List Nat := (genBfsState t root).2.2

/-- one iteration of the EXTRACTED loop of `dfs_post_order`: state = (stack, seen, yielded so far) -/
def genDfsStep (t : Net α) (s : List Nat × List Nat × List Nat) : List Nat × List Nat × List Nat :=
  Gen.S5dfsStep (chOf t) isInL s.1 s.2.1 s.2.2

def genDfsRun (t : Net α) : Nat → List Nat × List Nat × List Nat → List Nat × List Nat × List Nat
  | 0, s => s
  | n+1, s => genDfsRun t n (genDfsStep t s)

/-- the state after `2·(length + 1)` iterations of the extracted loop of `dfs_post_order` (every iteration either yields a node or
pushes at least one unseen node) -/
def genDfsState (t : Net α) (root : Nat) : List Nat × List Nat × List Nat :=
  genDfsRun t (2 * (t.length + 1)) ([root], [root], [])

/-- `list(dfs_post_order(root))` as extracted -/
def genDfs (t : Net α) (root : Nat) : List Nat := (genDfsState t root).2.2

/-- the hand-written machine of `dfs_post_order`: look at the top of the stack; if all its children have been seen, pop and yield
it; otherwise push its unseen children (first occurrence only) in child order, marking them seen -/
def dfsStepM (t : Net α) : List Nat × List Nat × List Nat → List Nat × List Nat × List Nat
  | (stack, seen, out) =>
    match stack.getLast? with
    | none => (stack, seen, out)
    | some v =>
      if (chOf t v).all (fun c => seen.contains c) then (stack.dropLast, seen, out ++ [v])
      else
        let new := (chOf t v).foldl (fun acc c => if (seen ++ acc).contains c then acc else acc ++ [c]) []
        (stack ++ new, seen ++ new, out)

end Deeprob.Oblig.Struct5T
