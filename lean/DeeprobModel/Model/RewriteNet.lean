import DeeprobModel.Model.Net
import DeeprobModel.Model.Rewrite
/-
A layer, NET level: `prune` and `marginalize` of /repo/deeprob/spn/algorithms/structure.py on the node
table (children referenced by table index = Python object identity, so sharing is visible), followed by
`assign_ids` (node.py) and the canonical export used by the harness (`children_first` in harness/spn.py).

Python mutates node objects in place and keeps `nodes_map : id -> replacement object`. Here
  * `t   : Net α`      = the node objects after mutation, stored at their ORIGINAL table index,
  * `rep : List Nat`   = `nodes_map` (index of the replacement object).
A replacement is always an original node object (possibly mutated), never a new one, exactly as in the code.

Order of the pass. The code walks `reversed(topological_order(root))`, a children-first order of the nodes
reachable from the root. One step reads only entries of descendants of the node it processes, so every
children-first order produces the same `nodes_map` on the reachable nodes. `prunePass` walks the table in
storage order (children-first: `wellOrderedB`); `prunePassOrd` walks any given order, and `pruneNetKahn`
instantiates it with the code's own order. The driver evaluates both and reports whether they agree.

No Mathlib import (compiled into the driver).
-/
namespace Deeprob
namespace Net
variable {α : Type}

def kindOf (t : Net α) (i : Nat) : Kind := match t[i]? with | some x => x.kind | none => .leaf
def wsOf (t : Net α) (i : Nat) : List α := match t[i]? with | some x => x.ws | none => []
def scopeAt (t : Net α) (i : Nat) : List Nat := match t[i]? with | some x => x.scope | none => []

/-! ### `topological_order` (node.py): Kahn's algorithm with the code's queue discipline -/

def incr (cnt : List Nat) (c : Nat) : List Nat := cnt.set c (cnt.getD c 0 + 1)

/-- `num_outgoings`: `for node in bfs(root): for c in node.children: num_outgoings[c] += 1` -/
def kahnCounts (t : Net α) (root : Nat) : List Nat :=
  (collect t root).foldl (fun cnt i => (chOf t i).foldl incr cnt) (List.replicate t.length 0)

/-- one `for c in node.children: num_outgoings[c] -= 1; if num_outgoings[c] == 0: queue.append(c)` -/
def kahnVisit (cnt : List Nat) (ch : List Nat) : List Nat × List Nat :=
  ch.foldl (fun (st : List Nat × List Nat) c =>
    let k := st.1.getD c 0
    (st.1.set c (k - 1), if k == 1 then st.2 ++ [c] else st.2)) (cnt, [])

/-- `while queue: node = queue.popleft(); ordering.append(node); …` ; state = (queue, counts, ordering) -/
def kahnLoop (t : Net α) : Nat → List Nat → List Nat → List Nat → List Nat × List Nat
  | 0, _, cnt, ord => (cnt, ord)
  | _, [], cnt, ord => (cnt, ord)
  | fuel+1, q :: qs, cnt, ord =>
    let r := kahnVisit cnt (chOf t q)
    kahnLoop t fuel (qs ++ r.2) r.1 (ord ++ [q])

/-- `topological_order(root)`: `none` where the code returns `None` (cycle found) -/
def kahn (t : Net α) (root : Nat) : Option (List Nat) :=
  let cnt := kahnCounts t root
  if cnt.getD root 0 != 0 then none
  else
    let r := kahnLoop t (t.length + 1) [root] cnt []
    if r.1.all (fun k => k == 0) then some r.2 else none

/-! ### canonical export: harness/spn.py `children_first` (post-order over object identity) -/

def dfsPost (t : Net α) : Nat → List Nat → Nat → List Nat
  | 0, out, _ => out
  | fuel+1, out, i =>
    if out.contains i then out else ((chOf t i).foldl (dfsPost t fuel) out) ++ [i]

def posIn (order : List Nat) (i : Nat) : Nat := order.idxOf i

/-- `assign_ids(r)` followed by the harness export: nodes reachable from `r` in children-first order,
children as positions in that order, `id` = position in `topological_order(r)`.
Returns the table and, for every exported node, the index it had in `t`. -/
def exportFrom (t : Net α) (r : Nat) : Option (Net α × List Nat) :=
  match kahn t r with
  | none => none
  | some ko =>
    let order := dfsPost t (t.length + 1) [] r
    some (order.map (fun i => match t[i]? with
        | some x => { x with id := posIn ko i, ch := x.ch.map (posIn order) }
        | none => default), order)

/-! ### `prune` -/
section prune
variable [Zero α] [Add α] [Mul α]

/-- `children_weights[k] += w` on an insertion-ordered dictionary keyed by node identity
(`defaultdict(float)`: a new key starts from `0.0`) -/
def accAdd (acc : List (Nat × α)) (k : Nat) (w : α) : List (Nat × α) :=
  match acc with
  | [] => [(k, 0 + w)]
  | (k', w') :: r => if k' = k then (k', w' + w) :: r else (k', w') :: accAdd r k w

/-- Sum branch of `prune`: the `(object, weight)` contributions in the order the two nested loops visit them -/
def sumItems (t : Net α) (rep : List Nat) (cn : List Nat) (ws : List α) : List (Nat × α) :=
  ((cn.zip ws).map (fun (p : Nat × α) =>
    if kindOf t p.1 = .sum then
      (((chOf t p.1).map (fun g => rep.getD g g)).zip (wsOf t p.1)).map (fun (q : Nat × α) => (q.1, p.2 * q.2))
    else [(p.1, p.2)])).flatten

/-- Product branch of `prune`: children of Product children are taken over -/
def prodItems (t : Net α) (rep : List Nat) (cn : List Nat) : List Nat :=
  (cn.map (fun c => if kindOf t c = .prod then (chOf t c).map (fun g => rep.getD g g) else [c])).flatten

/-- `len(children_nodes) == 1` -/
def single? : List Nat → Option Nat
  | [c] => some c
  | _ => none

/-- `len(children) == 1` after `children, weights = zip(*children_weights.items())` -/
def singleKey? : List (Nat × α) → Option Nat
  | [p] => some p.1
  | _ => none

/-- `children_weights` after the two nested loops of the Sum branch -/
def sumAcc (t : Net α) (rep : List Nat) (x : NNode α) : List (Nat × α) :=
  (sumItems t rep (x.ch.map (fun c => rep.getD c c)) x.ws).foldl (fun a (p : Nat × α) => accAdd a p.1 p.2) []

/-- one iteration of `for node in reversed(nodes)` in `prune`; returns the mutated node object and
`nodes_map[node.id]`. `repaired = true`: with the single-child collapse after `zip(*children_weights.items())`;
`repaired = false`: the pinned tree. -/
def pruneStep (repaired : Bool) (t : Net α) (rep : List Nat) (i : Nat) (x : NNode α) : NNode α × Nat :=
  match x.kind with
  | .leaf => (x, i)
  | .prod =>
    match single? (x.ch.map (fun c => rep.getD c c)) with
    | some c => (x, c)
    | none => ({ x with ch := prodItems t rep (x.ch.map (fun c => rep.getD c c)) }, i)
  | .sum =>
    match single? (x.ch.map (fun c => rep.getD c c)) with
    | some c => (x, c)
    | none =>
      match (if repaired then singleKey? (sumAcc t rep x) else none) with
      | some g => (x, g)
      | none => ({ x with ch := (sumAcc t rep x).map Prod.fst, ws := (sumAcc t rep x).map Prod.snd }, i)

/-- the pass in storage order -/
def prunePass (repaired : Bool) (net : Net α) : Net α × List Nat :=
  net.foldl (fun (st : Net α × List Nat) x =>
    let r := pruneStep repaired st.1 st.2 st.1.length x
    (st.1 ++ [r.1], st.2 ++ [r.2])) ([], [])

/-- the pass in a given order over the full table (`nodes_map` initialised to the identity) -/
def prunePassOrd (repaired : Bool) (net : Net α) (ord : List Nat) : Net α × List Nat :=
  ord.foldl (fun (st : Net α × List Nat) i =>
    match st.1[i]? with
    | none => st
    | some x =>
      let r := pruneStep repaired st.1 st.2 i x
      (st.1.set i r.1, st.2.set i r.2)) (net, List.range net.length)

/-- `prune(root)` (repaired) / the pinned behaviour, followed by `assign_ids` and the canonical export -/
def pruneNetWith (repaired : Bool) (net : Net α) (root : Nat) : Option (Net α × List Nat) :=
  let st := prunePass repaired net
  exportFrom st.1 (st.2.getD root root)

def pruneNet (net : Net α) (root : Nat) : Option (Net α × List Nat) := pruneNetWith true net root
def pruneNetOld (net : Net α) (root : Nat) : Option (Net α × List Nat) := pruneNetWith false net root

/-- the same with the code's own iteration order `reversed(topological_order(root))` -/
def pruneNetKahn (repaired : Bool) (net : Net α) (root : Nat) : Option (Net α × List Nat) :=
  match kahn net root with
  | none => none
  | some ko =>
    let st := prunePassOrd repaired net ko.reverse
    exportFrom st.1 (st.2.getD root root)

end prune

/-! ### `marginalize` -/

/-- inner node of the first pass of `marginalize` once the `None` children are filtered out (`cn`):
`if not children_nodes: None`, `elif len(children_nodes) == 1: children_nodes[0]`, else the node object itself
with `scope` / `children` overwritten (Product: concatenated child scopes, Sum: first child's scope; weights untouched) -/
def margNode (t : Net α) (i : Nat) (x : NNode α) (cn : List Nat) : NNode α × Option Nat :=
  match cn with
  | [] => (x, none)
  | [c] => (x, some c)
  | c0 :: _ =>
    (if x.kind = .prod then { x with scope := (cn.map (scopeAt t)).flatten, ch := cn }
     else { x with scope := scopeAt t c0, ch := cn }, some i)

/-- one iteration of the first pass of `marginalize`; `none` = `nodes_map[node.id] = None`.
Leaves: only single-variable leaves (`len(node.scope) == 1`: kept iff `node.scope[0] in keep_scope`); tables with
Chow-Liu leaves are rejected by `marginalizeNet` before the pass. -/
def margStepNet (keep : List Nat) (t : Net α) (rep : List (Option Nat)) (i : Nat) (x : NNode α) :
    NNode α × Option Nat :=
  if x.kind = .leaf then (x, if keep.contains (x.scope.headD 0) then some i else none)
  else margNode t i x (x.ch.filterMap (fun c => rep.getD c none))

def margPass (keep : List Nat) (net : Net α) : Net α × List (Option Nat) :=
  net.foldl (fun (st : Net α × List (Option Nat)) x =>
    let r := margStepNet keep st.1 st.2 st.1.length x
    (st.1 ++ [r.1], st.2 ++ [r.2])) ([], [])

/-- leaves the first pass cannot treat: `"clt"` (handled in the code through `to_pc()`, not modelled at
net level) or `"multivariate"` (`NotImplementedError`) -/
def margUnsupported (net : Net α) (nodes : List Nat) : Option String :=
  nodes.findSome? (fun i => match net[i]? with
    | some x => if x.kind = .leaf then
        (match x.leaf with
         | .clt _ _ => some "clt"
         | _ => if x.scope.length != 1 then some "multivariate" else none)
      else none
    | none => none)

/-- `marginalize(root, keep_scope)`: argument checks, first pass, `assign_ids`, `prune(root, copy=False)`,
canonical export -/
def marginalizeNetWith [Zero α] [Add α] [Mul α] (repaired : Bool) (keep : List Nat) (net : Net α) (root : Nat) :
    Except String (Net α × List Nat) :=
  match margGuard keep (scopeAt net root) with
  | some why => .error ("reject:" ++ why)
  | none =>
    match margUnsupported net (collect net root) with
    | some why => .error ("unsupported:" ++ why)
    | none =>
      let st := margPass keep net
      match st.2.getD root none with
      | none => .error "none"
      | some r1 =>
        match pruneNetWith repaired st.1 r1 with
        | none => .error "cycle"
        | some res => .ok res

def marginalizeNet [Zero α] [Add α] [Mul α] (keep : List Nat) (net : Net α) (root : Nat) :
    Except String (Net α × List Nat) := marginalizeNetWith true keep net root

/-! ### normal form of a stored circuit (what C09 promises about the result) -/

def normalFormB (t : Net α) (root : Nat) : Bool :=
  (collect t root).all (fun i => match t[i]? with
    | some x => match x.kind with
      | .leaf => true
      | k => decide (2 ≤ x.ch.length) && x.ch.all (fun c => decide (kindOf t c ≠ k))
    | none => false)

end Net
end Deeprob
