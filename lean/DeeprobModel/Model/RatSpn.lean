import DeeprobModel.Model.Circ
/-
A layer for C16: RAT-SPN region graphs, the index buffers of `RegionGraphLayer`, the
(un)padding gathers and the unrolling of the layered network into a tree circuit.
Mirrors /repo/deeprob/utils/region.py, /repo/deeprob/spn/layers/ratspn.py,
/repo/deeprob/spn/models/ratspn.py.  No Mathlib import (compiled into the driver).
-/
namespace Deeprob
namespace RatSpn

/-! ### `sorted(...)` on tuples of ints -/

/-- insert into an ascending list -/
def insSorted (a : Nat) : List Nat → List Nat
  | [] => [a]
  | b :: l => if a ≤ b then a :: b :: l else b :: insSorted a l

/-- Python `sorted` on a list of ints (the result of sorting is unique, so any algorithm mirrors it). -/
def isort : List Nat → List Nat
  | [] => []
  | a :: l => insSorted a (isort l)

/-! ### region.py -/

/-- Constructor guards of `RegionGraph.__init__` (region.py):
`n_features > 0`, `depth > 0`, `depth <= int(np.log2(n_features))`. -/
def accepted (n depth : Nat) : Bool :=
  decide (0 < n) && decide (0 < depth) && decide (depth ≤ Nat.log2 n)

/-- Body of the inner loop of `RegionGraph.random_layers` (region.py):
`mid = len(r) // 2; permutation = random_state.permutation(r); p0 = sorted(permutation[:mid]);
p1 = sorted(permutation[mid:])`.  The oracle `ρ` stands for `random_state.permutation`
(theorems assume only `(ρ r).Perm r`).  The *second* half receives the extra element. -/
def splitRegion (ρ : List Nat → List Nat) (r : List Nat) : List Nat × List Nat :=
  let mid := r.length / 2
  let p := ρ r
  (isort (p.take mid), isort (p.drop mid))

/-- `partitions` list built in one iteration of `random_layers` -/
def nextPartitions (ρ : List Nat → List Nat) (rs : List (List Nat)) : List (List Nat × List Nat) :=
  rs.map (splitRegion ρ)

/-- `regions` list built in one iteration of `random_layers`: `p0, p1` appended per parent, in order -/
def nextRegions (ρ : List Nat → List Nat) (rs : List (List Nat)) : List (List Nat) :=
  rs.flatMap (fun r => [(splitRegion ρ r).1, (splitRegion ρ r).2])

/-- `layers[2*k]` of `random_layers` for one repetition (`items = range(n)`) -/
def regionLevel (ρ : List Nat → List Nat) (n : Nat) : Nat → List (List Nat)
  | 0 => [List.range n]
  | k + 1 => nextRegions ρ (regionLevel ρ n k)

/-- `layers[2*k+1]` of `random_layers` for one repetition -/
def partitionLevel (ρ : List Nat → List Nat) (n k : Nat) : List (List Nat × List Nat) :=
  nextPartitions ρ (regionLevel ρ n k)

/-- `RegionGraph.make_layers(reps)[2*k]`: the root layer is `[items]` once, every other layer is the
concatenation over the repetitions (`ρ t` = the permutation oracle in force during repetition `t`). -/
def regionLayer (ρ : Nat → List Nat → List Nat) (n reps k : Nat) : List (List Nat) :=
  if k = 0 then [List.range n] else (List.range reps).flatMap (fun t => regionLevel (ρ t) n k)

/-- `RegionGraph.make_layers(reps)[2*k+1]` -/
def partitionLayer (ρ : Nat → List Nat → List Nat) (n reps k : Nat) : List (List Nat × List Nat) :=
  (List.range reps).flatMap (fun t => partitionLevel (ρ t) n k)

/-- leaf regions handed to the base layer: `rg_layers[0]` in models/ratspn.py (`reversed(make_layers)`). -/
def leafRegions (ρ : Nat → List Nat → List Nat) (n depth reps : Nat) : List (List Nat) :=
  regionLayer ρ n reps depth

/-- Same layers, with every region tagged by its repetition: one uniform `flatMap` per level
(used by the proofs; `taggedLevel_untag` shows it is `regionLayer`). -/
def taggedNext (ρ : Nat → List Nat → List Nat) (rs : List (Nat × List Nat)) : List (Nat × List Nat) :=
  rs.flatMap (fun tr => [(tr.1, (splitRegion (ρ tr.1) tr.2).1), (tr.1, (splitRegion (ρ tr.1) tr.2).2)])

def taggedLevel (ρ : Nat → List Nat → List Nat) (n reps : Nat) : Nat → List (Nat × List Nat)
  | 0 => (List.range reps).map (fun t => (t, List.range n))
  | k + 1 => taggedNext ρ (taggedLevel ρ n reps k)

/-- The oracle induced by one permutation `π` of all the features: a region is ordered by position
in `π`.  Every outcome of `random_layers` is obtained this way (take for `π` the concatenation of the
draws of the last level) and conversely. -/
def oracleOfPerm (π : List Nat) : List Nat → List Nat := fun r => π.filter (fun v => r.contains v)

/-! ### layers/ratspn.py : RegionGraphLayer.__init__ -/

/-- `self.pad = -self.in_features % (2 ** self.rg_depth)` (Python modulo, result in `[0, 2^d)`) -/
def padOf (n d : Nat) : Nat := (2 ^ d - n % 2 ^ d) % 2 ^ d

/-- `self.dimension = (in_features + pad) // 2 ** rg_depth` -/
def dimOf (n d : Nat) : Nat := (n + padOf n d) / 2 ^ d

/-- `mask[i] = mask[i] + (mask[i][-1],) * n_dummy` with `n_dummy = dimension - len(region)`
(only applied when `n_dummy > 0`; Nat subtraction truncates at 0 like the guard). -/
def maskRow (dim : Nat) (r : List Nat) : List Nat :=
  r ++ List.replicate (dim - r.length) (r.getLastD 0)

/-- `pad_mask[i, :, -n_dummy:] = True` on a zero row of width `dimension` -/
def padMaskRow (dim : Nat) (r : List Nat) : List Bool :=
  List.replicate (dim - (dim - r.length)) false ++ List.replicate (dim - r.length) true

/-- `self.mask` (rows of the `(len(regions), dimension)` tensor) -/
def maskBuf (n d : Nat) (regions : List (List Nat)) : List (List Nat) :=
  if 0 < padOf n d then regions.map (maskRow (dimOf n d)) else regions

/-- `self.pad_mask[:, 0, :]` (buffer only exists when `pad > 0`; otherwise modelled as all-false) -/
def padMaskBuf (n d : Nat) (regions : List (List Nat)) : List (List Bool) :=
  if 0 < padOf n d then regions.map (padMaskRow (dimOf n d))
  else regions.map (fun r => List.replicate r.length false)

/-- row `t` of `torch.reshape(buf, [-1, w])` of a row-major buffer -/
def reshapeRow {β : Type} (w : Nat) (buf : List (List β)) (t : Nat) : List β :=
  (buf.flatten.drop (t * w)).take w

/-- number of rows of `torch.reshape(buf, [-1, w])` -/
def reshapeRows {β : Type} (w : Nat) (buf : List (List β)) : Nat := buf.flatten.length / w

/-- stable insertion of index `i` (smaller than every index in the list) by key -/
def insIdx (key : Nat → Nat) (i : Nat) : List Nat → List Nat
  | [] => [i]
  | j :: l => if key i ≤ key j then i :: j :: l else j :: insIdx key i l

def argsortAux (key : Nat → Nat) : List Nat → List Nat
  | [] => []
  | i :: l => insIdx key i (argsortAux key l)

/-- `torch.argsort(row)` (ties resolved by position; the theorems hold for every tie-breaking) -/
def argsort (row : List Nat) : List Nat :=
  argsortAux (fun i => row.getD i 0) (List.range row.length)

/-- row `t` of `torch.reshape(self.mask, [-1, in_features_pad])` -/
def maskFlat (n d : Nat) (regions : List (List Nat)) (t : Nat) : List Nat :=
  reshapeRow (n + padOf n d) (maskBuf n d regions) t

/-- row `t` of `torch.reshape(self.pad_mask, [-1, in_features_pad])` -/
def padFlat (n d : Nat) (regions : List (List Nat)) (t : Nat) : List Bool :=
  reshapeRow (n + padOf n d) (padMaskBuf n d regions) t

/-- row `t` of `self.inv_mask = argsort(reshape(mask, [-1, in_features_pad]), dim=1)` -/
def invMask (n d : Nat) (regions : List (List Nat)) (t : Nat) : List Nat :=
  argsort (maskFlat n d regions t)

/-- row `t` of `self.inv_pad_mask = gather(reshape(pad_mask), dim=1, index=inv_mask)` -/
def invPadMask (n d : Nat) (regions : List (List Nat)) (t : Nat) : List Bool :=
  (invMask n d regions t).map (fun p => (padFlat n d regions t).getD p false)

/-! ### RegionGraphLayer.unpad_samples -/

/-- `torch.gather(x, dim=1, index=idx)` on one row -/
def gatherRow {β : Type} (x : List β) (idx : List Nat) : List β := idx.filterMap (fun p => x[p]?)

/-- boolean-mask selection `samples[sel]` on one row -/
def selectRow {β : Type} (x : List β) (sel : List Bool) : List β :=
  ((x.zip sel).filter (fun p => p.2)).map (fun p => p.1)

/-- REPAIRED `unpad_samples` on one row belonging to repetition `t`:
`samples = gather(x, inv_mask[t]); if pad > 0: samples = samples[~inv_pad_mask[t]]`. -/
def unpad {β : Type} (n d : Nat) (regions : List (List Nat)) (t : Nat) (x : List β) : List β :=
  let s := gatherRow x (invMask n d regions t)
  if 0 < padOf n d then selectRow s ((invPadMask n d regions t).map (fun b => !b)) else s

/-- PINNED `unpad_samples`: `samples[inv_pad_mask[t]]` (keeps the dummies, drops the features). -/
def unpadOld {β : Type} (n d : Nat) (regions : List (List Nat)) (t : Nat) (x : List β) : List β :=
  let s := gatherRow x (invMask n d regions t)
  if 0 < padOf n d then selectRow s (invPadMask n d regions t) else s

/-- the positions of the padded row read by the repaired `unpad`, in output order -/
def unpadIdx (n d : Nat) (regions : List (List Nat)) (t : Nat) : List Nat :=
  if 0 < padOf n d then selectRow (invMask n d regions t) ((invPadMask n d regions t).map (fun b => !b))
  else invMask n d regions t

/-- the positions read by the pinned selection -/
def unpadOldIdx (n d : Nat) (regions : List (List Nat)) (t : Nat) : List Nat :=
  if 0 < padOf n d then selectRow (invMask n d regions t) (invPadMask n d regions t)
  else invMask n d regions t

/-- `x[:, self.mask]` restricted to repetition `t`, flattened: what sits at each position of the
padded row (a dummy position repeats the last variable of its region). -/
def scatter {β : Type} (n d : Nat) (regions : List (List Nat)) (t : Nat) (x : List β) : List β :=
  gatherRow x (maskFlat n d regions t)

/-- `torch.where(torch.isnan(x), samples, x)` of `RegionGraphLayer.mpe` on one row -/
def completeRow {β : Type} (x : List (Option β)) (samples : List β) : List β :=
  (x.zip samples).map (fun p => match p.1 with | some v => v | none => p.2)

/-! ### top-down index propagation (ProductLayer.sample / RootLayer) -/

/-- `ProductLayer.sample`: `idx_group -> [2g, 2g+1]`, `idx_offset -> [o // in_nodes, o % in_nodes]` -/
def prodDown (inNodes : Nat) (groups offsets : List Nat) : List Nat × List Nat :=
  (groups.flatMap (fun g => [2 * g, 2 * g + 1]),
   offsets.flatMap (fun o => [o / inNodes, o % inNodes]))

/-- leaf region indices reached from top-level partition `g` after `depth` product layers -/
def leafGroups (g : Nat) : Nat → List Nat
  | 0 => [g]
  | k + 1 => (leafGroups g k).flatMap (fun i => [2 * i, 2 * i + 1])

/-! ### unrolling into a tree circuit -/

section unroll
variable {α : Type} [Zero α] [One α] [Add α] [Mul α]

/-- constant-one factor of a dummy position (`x.masked_fill_(self.pad_mask, 0.0)` in log space) -/
def dummy : Circ α := .leaf [] (fun _ => 1)

/-- Base distribution of leaf region `i`, channel `c` (RegionGraphLayer.forward): the product over
the `dimension` positions of the mask row; position `k` holds the univariate leaf `lf i c k` over
variable `mask[i][k]`, or the constant one if `pad_mask[i][k]`.  Missing (NaN) inputs are handled by
the leaf function itself (`nan_to_num_` ⇒ log-density 0 ⇒ factor 1). -/
def baseNode (lf : Nat → Nat → Nat → Ev → α) (mrow : List Nat) (prow : List Bool) (region : List Nat)
    (i c : Nat) : Circ α :=
  .prod region ((List.range mrow.length).map (fun k =>
    if prow.getD k false then dummy else .leaf [mrow.getD k 0] (lf i c k)))

/-- A layer of the network as a table `group index → node index → circuit`, plus its shape. -/
structure Table (α : Type) where
  groups : Nat
  nodes : Nat
  at_ : Nat → Nat → Circ α

/-- base layer table -/
def baseTable (lf : Nat → Nat → Nat → Ev → α) (n d : Nat) (regions : List (List Nat)) (batch : Nat) : Table α :=
  { groups := regions.length, nodes := batch,
    at_ := fun i c => baseNode lf ((maskBuf n d regions).getD i []) ((padMaskBuf n d regions).getD i [])
      (regions.getD i []) i c }

/-- `ProductLayer.forward`: partition `j` pairs regions `2j` (mask `True`) and `2j+1`; output node
`a * in_nodes + b` is the product of node `a` of the first and node `b` of the second. -/
def prodTable (T : Table α) : Table α :=
  { groups := T.groups / 2, nodes := T.nodes * T.nodes,
    at_ := fun j t =>
      let a := T.at_ (2 * j) (t / T.nodes)
      let b := T.at_ (2 * j + 1) (t % T.nodes)
      .prod (a.scope ++ b.scope) [a, b] }

/-- `SumLayer.forward`: region `j`, output node `o` mixes the `in_nodes` nodes of partition `j`
with weights `w j o` (= `softmax(self.weight[j, o])`). -/
def sumTable (w : Nat → Nat → List α) (outNodes : Nat) (T : Table α) : Table α :=
  { groups := T.groups, nodes := outNodes,
    at_ := fun j o => .sum (T.at_ j 0).scope (w j o) ((List.range T.nodes).map (T.at_ j)) }

/-- the inner layers of `RatSpn.__init__`: product, (sum, product)* — `depth` products and
`depth-1` sums; `w l` are the weights of the `l`-th sum layer counted from the leaves. -/
def innerTables (w : Nat → Nat → Nat → List α) (rgSum : Nat) : Nat → Nat → Table α → Table α
  | 0, _, T => T
  | 1, _, T => prodTable T
  | k + 2, l, T => innerTables w rgSum (k + 1) (l + 1) (sumTable (w l) rgSum (prodTable T))

/-- `RootLayer.forward` for class `y`: mixture over the flattened `(in_partitions, in_nodes)` table -/
def rootNode (wroot : List α) (n : Nat) (T : Table α) : Circ α :=
  .sum (List.range n) wroot
    ((List.range T.groups).flatMap (fun g => (List.range T.nodes).map (fun t => T.at_ g t)))

/-- The whole RAT-SPN as a tree circuit for one class output. -/
def unroll (ρ : Nat → List Nat → List Nat) (n depth reps batch rgSum : Nat)
    (lf : Nat → Nat → Nat → Ev → α) (w : Nat → Nat → Nat → List α) (wroot : List α) : Circ α :=
  rootNode wroot n
    (innerTables w rgSum depth 0 (baseTable lf n depth (leafRegions ρ n depth reps) batch))

end unroll

end RatSpn
end Deeprob
