import DeeprobModel.Model.Clt
/-
Binary Chow-Liu trees, continued (deeprob/spn/structure/cltree.py): conversion to a circuit
(`to_pc`, `get_scopes`), the decoding pass of `mpe` and the pmf of the (repaired) conditional
sampler.  Linear domain, generic carrier.  No Mathlib import (A layer, computable).
-/
namespace Deeprob

namespace Circ
variable {α : Type}

/-- `Product(children=cs)` with `scope=None` (deeprob/spn/structure/node.py, `Product.__init__`):
the stored scope is the concatenation of the child scopes in child order. -/
def mkProd (cs : List (Circ α)) : Circ α := .prod (cs.map scope).flatten cs

/-- `Sum(children=cs, weights=ws)` with `scope=None` (node.py, `Sum.__init__`): the stored scope is
`children[0].scope`. -/
def mkSum (ws : List α) (cs : List (Circ α)) : Circ α :=
  .sum (match cs with | [] => [] | c :: _ => scope c) ws cs

/-- stored scopes of all product nodes (pre-order, with repetitions) -/
def prodScopes : Circ α → List (List Nat)
  | leaf _ _ => []
  | sum _ _ cs => (cs.map prodScopes).flatten
  | prod s cs => s :: (cs.map prodScopes).flatten

end Circ

namespace RTree
/-- all sub-trees (the tree itself first, pre-order) -/
def subtrees : RTree → List RTree
  | node i cs => node i cs :: (cs.map subtrees).flatten
end RTree

namespace Clt

/-- variable ids (scope labels) of a tree of local indices, root first, pre-order -/
def lab (scope : List Nat) (t : RTree) : List Nat := t.vars.map (fun i => scope.getD i 0)

section pc
variable {α : Type} [Zero α] [One α] [Add α] [Mul α]

/-- table of `Bernoulli(v, p=0.0)` (`k = 0`: `[1, 0]`) and `Bernoulli(v, p=1.0)` (`k ≠ 0`: `[0, 1]`),
the two indicator leaves `to_pc` creates for every tree node -/
def indicator (k : Nat) : List α := if k = 0 then [1, 0] else [0, 1]

/-- the scope `to_pc` stores at the nodes built for the sub-tree `t`: own variable first, then
the stored scopes of the children's circuits in **reverse** child order (the post-order stack
of `to_pc` pops the last child first, so the buffers hold the children's sums reversed) -/
def pcScope (scope : List Nat) : RTree → List Nat
  | .node i cs => scope.getD i 0 :: ((cs.map (pcScope scope)).reverse).flatten

/-- `BinaryCLT.to_pc`, unfolded into a tree: `pc scope cpt t l` is the entry that `to_pc` appends to
`neg_buffer` (`l = 0`) / `pos_buffer` (`l = 1`) when it finishes the tree node `t`:
`Sum(children=[neg_prod, pos_prod], weights=factors[v][l])` with
`neg_prod = Product([Bernoulli(v,p=0)] + neg_buffer[-n:])`, `pos_prod = Product([Bernoulli(v,p=1)] + pos_buffer[-n:])`;
for a tree leaf the sum is directly over the two indicator leaves.  (In Python the two sums for
`l = 0, 1` share their children; as a tree they are duplicated.)  -/
def pc (scope : List Nat) (cpt : List (List (List α))) : RTree → Nat → Circ α
  | .node i cs, l =>
    let v := scope.getD i 0
    let ws := [cptAt cpt i l 0, cptAt cpt i l 1]
    if cs.isEmpty then
      Circ.mkSum ws [Circ.catLeaf v (indicator 0), Circ.catLeaf v (indicator 1)]
    else
      Circ.mkSum ws
        [Circ.mkProd (Circ.catLeaf v (indicator 0) :: (cs.map (fun c => pc scope cpt c 0)).reverse),
         Circ.mkProd (Circ.catLeaf v (indicator 1) :: (cs.map (fun c => pc scope cpt c 1)).reverse)]

/-- what `BinaryCLT.to_pc` returns: `pos_buffer[0]`, i.e. the sum built for the root with the weights of
ROW 1 of the root's table (the comment in the code, "equivalently neg_buffer[0]", relies on the two rows
of the root being equal).  Python raises if there is not exactly one `-1`; the model returns a zero leaf. -/
def toPc (scope : List Nat) (pred : List Int) (cpt : List (List (List α))) : Circ α :=
  match rootOf pred with
  | none => .leaf [] (fun _ => 0)
  | some r => pc scope cpt (build pred pred.length r) 1

/-- `BinaryCLT.get_scopes`, the list pushed on `scopes_stack` when the post-order walk finishes the
tree node `t` (same stack discipline as `to_pc`: the last child is finished first): a tree leaf pushes
`[v]`; an inner node pushes the children's lists (last child first) followed by its own variable. -/
def getScopeTop (scope : List Nat) : RTree → List Nat
  | .node i cs => ((cs.map (getScopeTop scope)).reverse).flatten ++ [scope.getD i 0]

/-- `BinaryCLT.get_scopes`, the returned list `scopes`: the merged scope of every INNER tree node, in
the order the walk finishes them (children, last child first, before their parent); leaves record nothing. -/
def getScopes (scope : List Nat) : RTree → List (List Nat)
  | .node i cs =>
    ((cs.map (getScopes scope)).reverse).flatten ++
      (if cs.isEmpty then [] else [getScopeTop scope (.node i cs)])

/-- complete-evidence value of the sub-tree in RTree form: `Π_j cpt[j, x[parent j], x[j]]`,
the root of the sub-tree reading row `l` -/
def treeJoint (scope : List Nat) (cpt : List (List (List α))) (x : Nat → Nat) : RTree → Nat → α
  | .node i cs, l =>
    cptAt cpt i l (x (scope.getD i 0)) * lprod (cs.map (fun c => treeJoint scope cpt x c (x (scope.getD i 0))))

end pc

section sample
variable {α : Type} [Zero α] [One α] [Add α] [Mul α]

/-- `messages[j, row, k]` of `message_passing(..., return_lls=False)` in the linear domain: the product
over the children `cs` of `j` of their upward messages for the value `k` of `j` -/
def msgAt (scope : List Nat) (cpt : List (List (List α))) (cs : List RTree) (k : Nat) (e : Ev) : α :=
  lprod (cs.map (fun c => up scope cpt c k e))

/-- completion of the evidence `e` by the assignment `x` (observed entries win) -/
def _root_.Deeprob.Ev.fill (e : Ev) (x : Nat → Nat) : Ev := fun v =>
  match e v with
  | some o => some o
  | none => some (x v)

/-- the Bernoulli parameter the PINNED `BinaryCLT.sample` passes to `ss.bernoulli.rvs` for the root:
`exp(params[root, 0, 1] + messages[root, mask, 1])` (un-normalised) -/
def oldRootParam (scope : List Nat) (cpt : List (List (List α))) (r : Nat) (cs : List RTree) (e : Ev) : α :=
  cptAt cpt r 0 1 * msgAt scope cpt cs 1 e

/-- the Bernoulli parameter the PINNED `BinaryCLT.sample` uses for a non-root variable `j` whose parent
has value `p`: `exp(params[j, p, 1] + messages[j, mask, p])` (un-normalised, and the message is indexed
by the parent's value instead of the variable's own value) -/
def oldChildParam (scope : List Nat) (cpt : List (List (List α))) (j : Nat) (cs : List RTree) (p : Nat) (e : Ev) : α :=
  cptAt cpt j p 1 * msgAt scope cpt cs p e

variable [Div α]

/-- normalised local conditional of the REPAIRED sampler:
`q_j(k | parent = p) = cpt[j,p,k]·msg_j[k] / Σ_k' cpt[j,p,k']·msg_j[k']` -/
def localCond (scope : List Nat) (cpt : List (List (List α))) (j : Nat) (cs : List RTree) (p k : Nat) (e : Ev) : α :=
  cptAt cpt j p k * msgAt scope cpt cs k e /
    sumVar 2 (fun k' => cptAt cpt j p k' * msgAt scope cpt cs k' e)

/-- probability that the repaired `BinaryCLT.sample` completes the evidence `e` with the values `x`
on the sub-tree `t` whose parent has value `l`: product over the missing variables, root to leaves,
of the local conditionals (each variable reads the value just given to its parent) -/
def samplePmf (scope : List Nat) (cpt : List (List (List α))) : RTree → Nat → Ev → (Nat → Nat) → α
  | .node i cs, l, e, x =>
    match e (scope.getD i 0) with
    | some o => lprod (cs.map (fun c => samplePmf scope cpt c o e x))
    | none =>
      localCond scope cpt i cs l (x (scope.getD i 0)) e *
        lprod (cs.map (fun c => samplePmf scope cpt c (x (scope.getD i 0)) e x))

/-- the sampler's pmf for the whole tree (the root reads row 0 of its table) -/
def samplePmfTree (scope : List Nat) (pred : List Int) (cpt : List (List (List α))) (e : Ev) (x : Nat → Nat) : α :=
  match rootOf pred with
  | none => 0
  | some r => samplePmf scope cpt (build pred pred.length r) 0 e x

end sample

section mpe
variable {α : Type} [Zero α] [One α] [Mul α] [Max α] [LT α] [DecidableLT α]

/-- `message_passing(..., reduce='mpe')`: the same recursion as `up`, with `max` in place of `+`
(`np.max(parent_msg, axis=2)` instead of `logsumexp`) -/
def upMax (scope : List Nat) (cpt : List (List (List α))) (t : RTree) (l : Nat) (e : Ev) : α :=
  @up α _ _ ⟨max⟩ _ scope cpt t l e

/-- `messages[j, row, k]` of `message_passing(..., return_lls=False, reduce='mpe')`, linear domain -/
def msgMax (scope : List Nat) (cpt : List (List (List α))) (cs : List RTree) (k : Nat) (e : Ev) : α :=
  lprod (cs.map (fun c => upMax scope cpt c k e))

/-- `np.argmax` over two entries: the first index on ties -/
def argmax2 (a b : α) : Nat := if a < b then 1 else 0

/-- the decoding pass of `BinaryCLT.mpe` on the sub-tree `t` whose parent received the value `l`
(the root: row 0): the list of `(variable id, value)` in pre-order.  An observed variable keeps its
value; a missing one gets `argmax_k cpt[j, l, k] * messages[j, k]`; the children read the value
just assigned.  (Python walks in BFS order; every value depends only on the parent's value, so the
order of the walk does not matter.) -/
def decodeList (scope : List Nat) (cpt : List (List (List α))) : RTree → Nat → Ev → List (Nat × Nat)
  | .node i cs, l, e =>
    let o := match e (scope.getD i 0) with
      | some o => o
      | none => argmax2 (cptAt cpt i l 0 * msgMax scope cpt cs 0 e) (cptAt cpt i l 1 * msgMax scope cpt cs 1 e)
    (scope.getD i 0, o) :: (cs.map (fun c => decodeList scope cpt c o e)).flatten

/-- overwrite the evidence with a list of assignments (the first assignment of a variable wins) -/
def _root_.Deeprob.Ev.over (as : List (Nat × Nat)) (e : Ev) : Ev := fun w =>
  match as.find? (fun p => p.1 == w) with
  | some p => some p.2
  | none => e w

/-- the row returned by `mpe` restricted to the sub-tree -/
def decode (scope : List Nat) (cpt : List (List (List α))) (t : RTree) (l : Nat) (e : Ev) : Ev :=
  Ev.over (decodeList scope cpt t l e) e

/-- `BinaryCLT.mpe` on one row -/
def mpe (scope : List Nat) (pred : List Int) (cpt : List (List (List α))) (e : Ev) : Ev :=
  match rootOf pred with
  | none => e
  | some r => decode scope cpt (build pred pred.length r) 0 e

end mpe

end Clt
end Deeprob
