import DeeprobModel.Model.Net
import DeeprobModel.Model.TopDown
/-
A layer: the top-down pass as the code runs it, on the stored node table (sharing visible), ONE row.
Mirrors /repo/deeprob/spn/algorithms/evaluation.py `eval_top_down` / `eval_backward` with
`sum_func = sum_mpe`, `leaf_func = leaf_mpe` (/repo/deeprob/spn/algorithms/inference.py `mpe`).
No Mathlib import.
-/
namespace Deeprob

section
variable {α : Type} [Zero α] [One α] [Add α] [Mul α] [LT α] [DecidableLT α]

/-- `Leaf.mpe` of a stored leaf. `bern` = the Python object is a `Bernoulli` (tie → 1), otherwise a
`Categorical` (first arg-max). `ext` / `clt` leaves are not modelled here (identity). -/
def LeafP.mode (bern : Bool) : LeafP α → Ev → Ev
  | .cat v tbl => if bern then TCirc.bernMode v tbl else TCirc.catMode v tbl
  | _ => fun x => x

/-- law of `Leaf.sample` of a stored table leaf -/
def LeafP.cond : LeafP α → Ev → Ev → α
  | .cat v tbl => TCirc.catCond v tbl
  | _ => fun _ _ => 0

/-- unfolding of node `i` into a tree *with* the top-down leaf data; forgetting it gives `toTree` -/
def toTTree (net : Net α) (dens : List α) (isBern : Nat → Bool) : Nat → Nat → TCirc α
  | 0, _ => .leaf [] (fun _ => 0) (fun x => x) (fun _ _ => 0)
  | fuel+1, i => match net[i]? with
     | none => .leaf [] (fun _ => 0) (fun x => x) (fun _ _ => 0)
     | some x => match x.kind with
        | .leaf => .leaf x.scope (x.leaf.fn x.scope (dens.getD i 0)) (x.leaf.mode (isBern i)) x.leaf.cond
        | .sum => .sum x.scope x.ws (x.ch.map (toTTree net dens isBern fuel))
        | .prod => .prod x.scope (x.ch.map (toTTree net dens isBern fuel))

/-- state of the pass for one row: `masks[:, row]` and `x[row]` -/
structure TDState where
  reach : Nat → Bool
  row : Ev

/-- `sum_mpe` on the stored table: first arg-max of `wᵢ · vals[childᵢ]` (`vals` = `lls`, linear domain) -/
def sumMpeNet (vals : List α) (x : NNode α) : Nat :=
  argmax (List.zipWith (· * ·) x.ws (x.ch.map (fun c => vals.getD c 0)))

/-- `eval_backward(n)` for one row:
* not reached (`masks[n.id]` false): nothing happens (leaf writes an empty block, `|= False`);
* leaf: `x[mask, scope] = leaf.mpe(x[mask, scope])`;
* product: `masks[c.id] |= masks[n.id]` for every child;
* sum: `masks[c.id] |= masks[n.id] & (branch == i)` — only the chosen child. -/
def tdStep (net : Net α) (vals : List α) (isBern : Nat → Bool) (st : TDState) (i : Nat) : TDState :=
  match net[i]? with
  | none => st
  | some x =>
    if st.reach i then
      match x.kind with
      | .leaf => { st with row := writeScope x.scope (x.leaf.mode (isBern i) st.row) st.row }
      | .prod => { st with reach := fun j => x.ch.contains j || st.reach j }
      | .sum => { st with reach := fun j => (x.ch[sumMpeNet vals x]? == some j) || st.reach j }
    else st

/-- the pass over a given visiting order (`ordering` of `eval_top_down`): `masks[root.id] = True`,
then `eval_backward` on every node of the order -/
def mpeNetOrd (ord : List Nat) (e : Ev) (dens : List α) (net : Net α) (root : Nat) (isBern : Nat → Bool) : TDState :=
  ord.foldl (tdStep net (evalNet e dens net) isBern) ⟨fun j => j == root, e⟩

/-- `mpe(root, x)` for one row; visiting order = reverse storage order (parents before children in
a children-first table — a topological order like `topological_order(root)`) -/
def mpeNet (e : Ev) (dens : List α) (net : Net α) (root : Nat) (isBern : Nat → Bool) : Ev :=
  (mpeNetOrd (List.range net.length).reverse e dens net root isBern).row

end
end Deeprob
