import DeeprobModel.Model.Em
/-
A layer for C14 — the backward pass `eval_backward` (deeprob/spn/algorithms/gradient.py) and the statistics of
`expectation_maximization` (deeprob/spn/learning/em.py) AS CODED: in the log domain, on float32 tables whose
entries were floored at `-1e31` by `node_log_likelihood` (`np.maximum(lls, -1e31)`, deeprob/spn/algorithms/inference.py).

What the code does with a zero-valued node (read off the source, reproduced by `harness/demos/demo_embackward.py`):
 * `lls` never holds `-inf`: `log 0` is floored to the float32 number `F ≈ -1e31`, for leaves and inner nodes alike;
   a product of several zero-valued children has `2F, 3F, …` before the floor and `F` after it;
 * nothing is masked and nothing is NaN: the product rule `grads[n] + lls[n] - lls[c]` is evaluated left to right in
   float32; the spacing of float32 numbers near `1e31` is about `7.6e23`, so `a + F = F` for every ordinary finite `a`
   (the finite part is absorbed) and `F - F = 0.0` exactly: for a zero-valued child `c` of a (then zero-valued)
   product `n` the code obtains `(grads[n] + F) - F = 0.0`, i.e. the gradient `1` in the linear domain, whatever
   `grads[n]` and the values of the siblings are — the "0/0 floored" entry of DESIGN §0.2 row C14;
 * gradients themselves are not floored: `F`, `2F`, `3F`, … accumulate along a path (each of them means "zero":
   `exp` underflows), and `np.log(0)` of a zero weight gives a true `-inf`;
 * `logsumexp` of the cached contributions of all parents: finite entries dominate, among floor multiples the
   largest survives, `-inf` is neutral.

The carrier `LogV α` is a hand-written log domain with bottom. The finite part is stored by its EXPONENTIAL
(`fin a` is the float `log a`), so that the model is exact at `α = ℚ`: `+` of logs is `*`, `-` is `/`, `logsumexp`
is `+`. No Mathlib here; everything is computable and run by the driver (`Driver/OpsEmBackward.lean`).
-/
namespace Deeprob

/-- a float32 log-value as the backward pass meets it -/
inductive LogV (α : Type) where
  /-- the finite float `log a` (`a ≠ 0`), stored by its exponential -/
  | fin (a : α)
  /-- about `(k+1)·(-1e31)`: `k+1` floored zeros were added up and every finite part was absorbed -/
  | low (k : Nat)
  /-- `-inf` (`np.log(0.0)` of a zero weight; the empty `logsumexp`) -/
  | bot
  /-- a value the model does not track: `+1e31`-like numbers, `+inf`, NaN (never met on non-negative circuits:
  part of `C14.coded_grads_rel`) -/
  | top
deriving DecidableEq, Repr, Inhabited

namespace LogV
variable {α : Type}

/-- float32 `x + y` -/
def add [Mul α] : LogV α → LogV α → LogV α
  | top, _ => top
  | _, top => top
  | bot, _ => bot
  | _, bot => bot
  | fin a, fin b => fin (a * b)
  | fin _, low k => low k
  | low k, fin _ => low k
  | low j, low k => low (j + k + 1)

/-- float32 `x - l` where `l` is an entry of a floored log-likelihood table (`fin _` or `low 0`); any other second
argument, and `finite - F = +1e31`, is `top` -/
def sub [One α] [Div α] : LogV α → LogV α → LogV α
  | top, _ => top
  | _, top => top
  | _, bot => top
  | _, low (_+1) => top
  | bot, _ => bot
  | fin a, fin b => fin (a / b)
  | low k, fin _ => low k
  | fin _, low 0 => top
  | low 0, low 0 => fin 1
  | low (k+1), low 0 => low k

/-- `logsumexp` of two entries (`np.logaddexp`); the code's `logsumexp(cached_grads[n], axis=0)` is the fold of
this operation over the cached list, starting from `bot` -/
def lse [Add α] : LogV α → LogV α → LogV α
  | top, _ => top
  | _, top => top
  | bot, y => y
  | x, bot => x
  | fin a, fin b => fin (a + b)
  | fin a, low _ => fin a
  | low _, fin b => fin b
  | low j, low k => low (min j k)

/-- `np.log(v)` of a non-negative number -/
def ofLin [Zero α] [DecidableEq α] (v : α) : LogV α := if v = 0 then bot else fin v

/-- `np.maximum(x, -1e31)` -/
def floorLL : LogV α → LogV α
  | bot => low 0
  | low _ => low 0
  | x => x

/-- the entry of `lls` for a node of linear value `v`: `max(log v, -1e31)` -/
def llOf [Zero α] [DecidableEq α] (v : α) : LogV α := floorLL (ofLin v)

/-- `np.exp(x)`: floor multiples and `-inf` underflow to `0`; `none` = not a number the model tracks -/
def expL [Zero α] : LogV α → Option α
  | fin a => some a
  | low _ => some 0
  | bot => some 0
  | top => none

end LogV

open LogV

section
variable {α : Type} [Zero α] [One α] [Add α] [Mul α] [Div α] [DecidableEq α]

/-- the table `lls` that `log_likelihood(root, batch, return_results=True)` hands to `eval_backward`, one row:
the log of every node value, floored -/
def codedLls (vals : List α) : List (LogV α) := vals.map llOf

/-- `cached_grads[c.id].append(...)` for every child of node `i` (whose final gradient is `g`), as coded:
a sum sends `g + np.log(w)`, a product sends `g + lls[i] - lls[c]` (evaluated left to right). The cached list of a
child is kept as its running `logsumexp`. A child index outside the table counts as a node of value 0, as in
`sendDown`. -/
def sendDownC (lls : List (LogV α)) (x : NNode α) (i : Nat) (g : LogV α) (grads : List (LogV α)) : List (LogV α) :=
  match x.kind with
  | .sum => (x.ch.zip x.ws).foldl
      (fun gr cw => gr.set cw.1 (lse (gr.getD cw.1 bot) (add g (ofLin cw.2)))) grads
  | .prod => x.ch.foldl
      (fun gr c => gr.set c (lse (gr.getD c bot) (sub (add g (lls.getD i (low 0))) (lls.getD c (low 0))))) grads
  | .leaf => grads

/-- `eval_backward(root, lls)` as coded, one row: `grads[root] = 0.0`, then the nodes in topological order (the table
is children-first: decreasing index), each one taking the `logsumexp` of what its parents cached and sending its
own contributions down -/
def backwardC (net : Net α) (lls : List (LogV α)) (root : Nat) : List (LogV α) :=
  (List.range net.length).reverse.foldl
    (fun grads i => match net[i]? with
      | some x => sendDownC lls x i (grads.getD i bot) grads
      | none => grads)
    ((List.replicate net.length bot).set root (fin 1))

/-- `children_ll - root_ll + grads[node.id]` for the children of sum node `i` (em.py; the argument of `np.exp`) -/
def statSumC (lls grads : List (LogV α)) (root i : Nat) (x : NNode α) : List (LogV α) :=
  x.ch.map (fun c => add (sub (lls.getD c (low 0)) (lls.getD root (low 0))) (grads.getD i bot))

/-- `lls[node.id] - root_ll + grads[node.id]` for leaf `i` (em.py; the argument of `np.exp`) -/
def statLeafC (lls grads : List (LogV α)) (root i : Nat) : LogV α :=
  add (sub (lls.getD i (low 0)) (lls.getD root (low 0))) (grads.getD i bot)

/-- what `Sum.em_step` makes of the statistics of one row: `self.weights * stats` (linear domain) -/
def respSumC (lls grads : List (LogV α)) (root i : Nat) (x : NNode α) : List (Option α) :=
  List.zipWith (fun w s => (expL s).map (fun d => w * d)) x.ws (statSumC lls grads root i x)

/-! ### the forward pass as coded (`eval_bottom_up` with `node_log_likelihood`), one row -/

/-- `node_log_likelihood`: a leaf is `max(log value, -1e31)`; a product `max(np.sum(children), -1e31)`; a sum
`max(logsumexp(children, b=weights), -1e31)` -/
def evalNodeC (leafVal : α) (lls : List (LogV α)) (x : NNode α) : LogV α :=
  match x.kind with
  | .leaf => llOf leafVal
  | .prod => floorLL (x.ch.foldl (fun acc c => add acc (lls.getD c (low 0))) (fin 1))
  | .sum => floorLL ((x.ch.zip x.ws).foldl (fun acc cw => lse acc (add (ofLin cw.2) (lls.getD cw.1 (low 0)))) bot)

/-- the table of log-likelihoods as coded, filled children-first; the value of a leaf is the one `evalNode` uses -/
def forwardC (e : Ev) (dens : List α) (net : Net α) : List (LogV α) :=
  net.foldl (fun lls x => lls ++ [evalNodeC (x.leaf.fn x.scope (dens.getD lls.length 0) e) lls x]) []

end

end Deeprob
