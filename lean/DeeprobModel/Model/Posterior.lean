import DeeprobModel.Model.Sum
/-
A layer for C20 — `deeprob/spn/models/sklearn.py`, `SPNClassifier`.

The classifier's circuit is a root sum (weights `w_k` = class priors, `learn_classifier`) over one sub-circuit
per class. `predict_log_proba` evaluates all nodes with the label missing (`lls`), takes the class-major table
`lls[class_ids]` (shape classes × rows, entry `log L_k(x_r)`), adds the log priors and soft-maxes over the
classes. In the linear domain that is the posterior table below. `predict` runs `mpe` with the label missing;
at the root `sum_mpe` takes `np.argmax(lls + log w)` (first maximal index). No Mathlib here.
-/
namespace Deeprob

section
variable {α : Type} [Zero α] [One α] [Add α] [Mul α] [Div α]

/-- column `r` of the class-major table: `L_k(x_r)` for every class `k` -/
def colOf (L : List (List α)) (r : Nat) : List α := L.map (fun row => row.getD r 0)

/-- `w_k · L_k(x_r)` for every class `k` (the exponentials of `class_ll[:, r]`) -/
def classScores (w : List α) (L : List (List α)) (r : Nat) : List α :=
  List.zipWith (fun wk lk => wk * lk) w (colOf L r)

/-- `Σ_j w_j · L_j(x_r)` -/
def evidenceOf (w : List α) (L : List (List α)) (r : Nat) : α := wsum w (colOf L r)

/-- row `r` of `predict_proba`: the class posterior `w_k L_k(x_r) / Σ_j w_j L_j(x_r)` -/
def posteriorRow (w : List α) (L : List (List α)) (r : Nat) : List α :=
  (classScores w L r).map (fun s => s / evidenceOf w L r)

def posterior (w : List α) (L : List (List α)) (r k : Nat) : α := (posteriorRow w L r).getD k 0

/-- `predict_proba` for `nRows` rows (row-major: rows × classes) -/
def posteriorTable (w : List α) (L : List (List α)) (nRows : Nat) : List (List α) :=
  (List.range nRows).map (posteriorRow w L)

/-- what the pinned `predict_log_proba` exponentiates to (finding F13): the priors are broadcast along the
*row* axis of the class-major table (needs rows = classes) and the soft-max runs over the rows:
entry `[k][r] = w_r·L_k(x_r) / Σ_r' w_r'·L_k(x_r')`. -/
def pinnedTable (w : List α) (L : List (List α)) : List (List α) :=
  L.map (fun row => (List.zipWith (fun wr l => wr * l) w row).map (fun s => s / wsum w row))

end

section
variable {α : Type} [LT α] [DecidableLT α]

/-- scan for `np.argmax`: remaining values, index of the next value, best value so far and its index -/
def postArgmaxAux : List α → Nat → α → Nat → Nat
  | [], _, _, bi => bi
  | x :: xs, i, b, bi => if b < x then postArgmaxAux xs (i+1) x i else postArgmaxAux xs (i+1) b bi

/-- `np.argmax`: index of the first maximal entry (0 on the empty list) -/
def argmaxL : List α → Nat
  | [] => 0
  | x :: xs => postArgmaxAux xs 1 x 0

end

section
variable {α : Type} [Zero α] [One α] [Add α] [Mul α] [Div α] [LT α] [DecidableLT α]

/-- `predict` for row `r`: index of the root branch chosen by `sum_mpe` (in the linear domain) -/
def predictBranch (w : List α) (L : List (List α)) (r : Nat) : Nat := argmaxL (classScores w L r)

/-- arg-max of a row of `predict_proba` -/
def predictFromProba (w : List α) (L : List (List α)) (r : Nat) : Nat := argmaxL (posteriorRow w L r)

end
end Deeprob
