import DeeprobModel.Model.Circ
/-
A layer, TREE level: `prune` and `marginalize` of
/repo/deeprob/spn/algorithms/structure.py written as bottom-up recursions on tree circuits.

On trees there is no object identity, so the `children_weights` dictionary of `prune` (which merges
children that are the *same object*) has nothing to merge; the DAG-faithful model with sharing,
merging and the final `assign_ids` relabelling is `Model/RewriteNet.lean`.

No Mathlib import (compiled into the driver).
-/
namespace Deeprob
namespace Circ
variable {α : Type}

/-- what a Product parent takes over from one (already pruned) child:
structure.py `prune`, Product branch: `if not isinstance(child, Product): children.append(child)`
else `children.extend(child.children)` -/
def prodKids : Circ α → List (Circ α)
  | prod _ cs => cs
  | c => [c]

/-- `prune`, Product branch: the new children list -/
def absorbProd (cs : List (Circ α)) : List (Circ α) := (cs.map prodKids).flatten

/-- what a Sum parent takes over from one (already pruned) child reached with weight `w`:
structure.py `prune`, Sum branch: `children_weights[child] += node.weights[i]` for a non-Sum child,
`children_weights[sum_child] += node.weights[i] * child.weights[j]` for the children of a Sum child -/
def sumKids [Mul α] (w : α) : Circ α → List (α × Circ α)
  | sum _ ws cs => (ws.zip cs).map (fun p => (w * p.1, p.2))
  | c => [(w, c)]

/-- `prune`, Sum branch: the (weight, child) items in insertion order (no merging on trees) -/
def absorbSum [Mul α] (ws : List α) (cs : List (Circ α)) : List (α × Circ α) :=
  ((ws.zip cs).map (fun p => sumKids p.1 p.2)).flatten

/-- rebuild a Product from its pruned children: `if len(children_nodes) == 1: nodes_map[node.id] = children_nodes[0]`
else absorb -/
def rwProd (s : List Nat) (cs' : List (Circ α)) : Circ α :=
  match cs' with
  | [c] => c
  | _ => prod s (absorbProd cs')

/-- rebuild a Sum from its pruned children (single child ⇒ that child, else absorb) -/
def rwSum [Mul α] (s : List Nat) (ws : List α) (cs' : List (Circ α)) : Circ α :=
  match cs' with
  | [c] => c
  | _ => sum s ((absorbSum ws cs').map Prod.fst) ((absorbSum ws cs').map Prod.snd)

/-- structure.py `prune` on a tree: children first (`for node in reversed(nodes)`), leaves skipped -/
def prune [Mul α] : Circ α → Circ α
  | leaf s f => leaf s f
  | sum s ws cs => rwSum s ws (cs.map prune)
  | prod s cs => rwProd s (cs.map prune)

/-- `marginalize`, inner Product node after its children were replaced and the `None`s filtered out:
`if not children_nodes: None`, `elif len == 1: children_nodes[0]`, else
`scope = sum(map(lambda n: n.scope, children_nodes), [])`, `children = children_nodes` -/
def margProd (cs' : List (Circ α)) : Option (Circ α) :=
  match cs' with
  | [] => none
  | [c] => some c
  | _ => some (prod (cs'.map scope).flatten cs')

/-- `marginalize`, inner Sum node: `scope = children_nodes[0].scope`, weights untouched -/
def margSum (ws : List α) (cs' : List (Circ α)) : Option (Circ α) :=
  match cs' with
  | [] => none
  | [c] => some c
  | c :: r => some (sum (scope c) ws (c :: r))

/-- the first pass of structure.py `marginalize` (before the final `prune`).
A leaf over exactly one variable is kept iff `node.scope[0] in keep_scope`; every other leaf
(BinaryCLT in the code: `marginalize(node.to_pc(), clt_scope, copy=False)` or `None`) is delegated to
`margLeaf scope fn keep`. -/
def margStep (margLeaf : List Nat → (Ev → α) → List Nat → Option (Circ α)) (keep : List Nat) :
    Circ α → Option (Circ α)
  | leaf s f => match s with
      | [v] => if keep.contains v then some (leaf s f) else none
      | _ => margLeaf s f keep
  | sum _ ws cs => margSum ws (cs.filterMap (margStep margLeaf keep))
  | prod _ cs => margProd (cs.filterMap (margStep margLeaf keep))

/-- structure.py `marginalize` after its argument checks: first pass, then `prune(root, copy=False)` -/
def marginalize [Mul α] (margLeaf : List Nat → (Ev → α) → List Nat → Option (Circ α)) (keep : List Nat)
    (c : Circ α) : Option (Circ α) :=
  (margStep margLeaf keep c).map prune

end Circ

/-- duplicate-freeness as the code tests it (`len(keep_scope) != len(set(keep_scope))`) -/
def nodupNatB : List Nat → Bool
  | [] => true
  | x :: xs => !xs.contains x && nodupNatB xs

/-- the three argument checks at the top of structure.py `marginalize`, in the order of the `raise`s;
`none` = accepted, `some reason` = `ValueError` -/
def margGuard (keep scope : List Nat) : Option String :=
  if keep.isEmpty then some "empty"
  else if !nodupNatB keep then some "duplicates"
  else if !keep.all (fun v => scope.contains v) then some "subset"
  else none

end Deeprob
