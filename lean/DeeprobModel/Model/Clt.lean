import DeeprobModel.Model.Circ
/-
Binary Chow-Liu trees (deeprob/spn/structure/cltree.py, deeprob/utils/graph.py), linear domain,
generic carrier (ℚ: marginals; max-times: MPE).
-/
namespace Deeprob

/-- rooted tree over local variable indices, children in increasing index order
(`build_tree_structure` appends children while enumerating the predecessor vector) -/
inductive RTree where
  | node (i : Nat) (cs : List RTree)
deriving Repr, Inhabited

namespace RTree
def idx : RTree → Nat | node i _ => i
def kids : RTree → List RTree | node _ cs => cs
/-- local indices of the sub-tree, root first, pre-order -/
def vars : RTree → List Nat
  | node i cs => i :: (cs.map vars).flatten
end RTree

namespace Clt

/-- children of `j` in the predecessor vector, increasing index -/
def childrenOf (pred : List Int) (j : Nat) : List Nat :=
  (List.range pred.length).filter (fun c => pred.getD c (-1) == (j : Int))

/-- `build_tree_structure`: unfold the predecessor vector from node `i` (fuel = #variables) -/
def build (pred : List Int) : Nat → Nat → RTree
  | 0, i => .node i []
  | fuel+1, i => .node i ((childrenOf pred i).map (build pred fuel))

/-- index of the root: the position of the only `-1`; `none` if there is not exactly one -/
def rootOf (pred : List Int) : Option Nat :=
  match (List.range pred.length).filter (fun c => pred.getD c 0 == -1) with
  | [r] => some r
  | _ => none

/-- the predecessor vector encodes a rooted spanning tree: exactly one root and the unfolding
from it reaches every variable exactly once -/
def isTree (pred : List Int) : Bool :=
  match rootOf pred with
  | none => false
  | some r =>
    let vs := (build pred pred.length r).vars
    vs.length == pred.length && (List.range pred.length).all (fun i => vs.contains i)

/-- `compute_bfs_ordering`: breadth-first order of the rooted tree (fuel-bounded queue) -/
def bfsOrder (pred : List Int) : Nat → List Nat → List Nat
  | 0, _ => []
  | _, [] => []
  | fuel+1, q :: qs => q :: bfsOrder pred fuel (qs ++ childrenOf pred q)

variable {α : Type} [Zero α] [One α] [Add α] [Mul α]

/-- table entry `P(X_i = k | parent = l)`; the variables are binary: zero outside {0,1} -/
def cptAt (cpt : List (List (List α))) (i l k : Nat) : α :=
  if k < 2 then ((cpt.getD i []).getD l []).getD k 0 else 0

/-- upward message of the sub-tree rooted at `t` for parent value `l`
(`message_passing`: observed ⇒ one term, missing ⇒ reduce over both values) -/
def up (scope : List Nat) (cpt : List (List (List α))) : RTree → Nat → Ev → α
  | .node i cs, l, e => match e (scope.getD i 0) with
    | some o => cptAt cpt i l o * lprod (cs.map (fun c => up scope cpt c o e))
    | none => sumVar 2 (fun k => cptAt cpt i l k * lprod (cs.map (fun c => up scope cpt c k e)))

/-- value of the whole tree under evidence (root uses row 0 of its table) -/
def value (scope : List Nat) (pred : List Int) (cpt : List (List (List α))) (e : Ev) : α :=
  match rootOf pred with
  | none => 0
  | some r => up scope cpt (build pred pred.length r) 0 e

/-- the vectorised full-evidence path `sum(params[vs, x[:, tree], x[:, vs]])`: the root's
"parent value" is whatever sits in the last column (NumPy index -1). -/
def joint (scope : List Nat) (pred : List Int) (cpt : List (List (List α))) (x : Nat → Nat) : α :=
  let n := pred.length
  lprod ((List.range n).map (fun i =>
    let p := pred.getD i (-1)
    let pa := if p < 0 then n - 1 else p.toNat
    cptAt cpt i (x (scope.getD pa 0)) (x (scope.getD i 0))))

end Clt
end Deeprob
