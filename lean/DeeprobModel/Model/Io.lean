import DeeprobModel.Model.Sum
/-
A layer for C13 — `deeprob/spn/structure/io.py` (`spn_to_digraph`, `digraph_to_spn`, JSON node-link files).

Numbers. `spn_to_digraph` writes every float parameter through `round(float(x), 8)` (sum weights, NumPy / Python
float scalars) or `np.around(x.astype(float64), 8).tolist()` (arrays). Python's `round(x, 8)` is the correctly
rounded decimal rounding, ties to even, of the exact binary value; `np.around` is `rint(x·10⁸)/10⁸` (also
ties-to-even on the product). `round8` below is the exact rational round-half-even to 8 decimals. What the file
holds is the float64 nearest to it, and `np.around` can differ from it by float64 rounding of the product —
both are float effects outside the model (absorbed by the tolerance of the correspondence check).
All theorems about `round8` (error ≤ ½·10⁻⁸, idempotence, monotonicity, fixed points on the 10⁻⁸ grid) hold for
the tie-to-even rule as coded; no "no tie" hypothesis is needed.

Graph. `nx.DiGraph` is a *simple* digraph: `add_edge(c.id, node.id, idx=i)` for a (child, parent) pair that is
already present only overwrites the attribute `idx`. `graph.edges` is iterated in some order (grouped by source);
`digraph_to_spn` fills `parent.children[idx]`, padding with `None`. No Mathlib here.
-/
namespace Deeprob

/-- nearest integer, ties to the even one -/
def roundHalfEven (y : Rat) : Int :=
  let f := y.floor
  let r := y - (f : Rat)
  if r < 1/2 then f else if 1/2 < r then f + 1 else if f % 2 = 0 then f else f + 1

/-- round-half-even to `d` decimals, exact -/
def roundN (d : Nat) (q : Rat) : Rat := (roundHalfEven (q * (10 : Rat) ^ d) : Rat) / (10 : Rat) ^ d

/-- `round(x, 8)` / `np.around(x, 8)` -/
def round8 (q : Rat) : Rat := roundN 8 q

/-- a node as held in memory: class name (`Sum`, `Product`, or a leaf class), scope, sum weights, the leaf's
float parameters flattened in `params_dict()` order, children ids in order -/
structure MNode where
  id : Nat
  cls : String
  scope : List Nat
  weights : List Rat
  params : List Rat
  ch : List Nat
deriving DecidableEq, Repr, Inhabited

/-- a circuit in memory, nodes listed in `topological_order(root)` -/
abbrev Model := List MNode

/-- node of the node-link document: attributes only -/
structure DocNode where
  id : Nat
  cls : String
  scope : List Nat
  weights : List Rat
  params : List Rat
deriving DecidableEq, Repr, Inhabited

/-- link `child → parent` with its attribute `idx` -/
structure Edge where
  child : Nat
  parent : Nat
  idx : Nat
deriving DecidableEq, Repr, Inhabited

structure Doc where
  nodes : List DocNode
  edges : List Edge
deriving DecidableEq, Repr, Inhabited

/-- `graph.add_node(node.id, **attr)` with the rounded attributes -/
def encodeNode (n : MNode) : DocNode :=
  { id := n.id, cls := n.cls, scope := n.scope, weights := n.weights.map round8, params := n.params.map round8 }

/-- the `add_edge` calls of one node, in order -/
def nodeEdges (n : MNode) : List Edge := n.ch.zipIdx.map (fun ci => { child := ci.1, parent := n.id, idx := ci.2 })

/-- all `add_edge` calls, in the order `spn_to_digraph` makes them -/
def insertedEdges (m : Model) : List Edge := m.flatMap nodeEdges

/-- `nx.DiGraph.add_edge`: one edge per (child, parent) pair; a repeated pair only updates `idx` -/
def addEdge (es : List Edge) (e : Edge) : List Edge :=
  if es.any (fun x => x.child == e.child && x.parent == e.parent) then
    es.map (fun x => if x.child == e.child && x.parent == e.parent then { x with idx := e.idx } else x)
  else es ++ [e]

/-- `spn_to_digraph` (and the JSON text: `node_link_data` lists nodes and links as they are iterated) -/
def encode (m : Model) : Doc :=
  { nodes := m.map encodeNode, edges := (insertedEdges m).foldl addEdge [] }

/-- `parent_node.children[idx] = child`, after padding with `None` up to `idx` -/
def place (l : List (Option Nat)) (idx child : Nat) : List (Option Nat) :=
  (l ++ List.replicate (idx + 1 - l.length) none).set idx (some child)

/-- the children list `digraph_to_spn` builds for the node with id `p`: the links into `p`, in document order
(links into other nodes do not touch this list, so the single loop of the code splits per parent) -/
def childrenOf (es : List Edge) (p : Nat) : List (Option Nat) :=
  (es.filter (fun e => e.parent == p)).foldl (fun l e => place l e.idx e.child) []

/-- all entries present -/
def allSome : List (Option Nat) → Option (List Nat)
  | [] => some []
  | none :: _ => none
  | some x :: xs => (allSome xs).map (fun r => x :: r)

/-- `digraph_to_spn`: `none` when some child slot stays `None` (the loaded object is then unusable: evaluation
raises `AttributeError` on the `None` child) -/
def decode (d : Doc) : Option Model :=
  d.nodes.mapM (fun n => (allSome (childrenOf d.edges n.id)).map (fun ch =>
    ({ id := n.id, cls := n.cls, scope := n.scope, weights := n.weights, params := n.params, ch := ch } : MNode)))

/-- what a reload holds: the same node with its float parameters rounded -/
def roundNode (n : MNode) : MNode := { n with weights := n.weights.map round8, params := n.params.map round8 }

end Deeprob
