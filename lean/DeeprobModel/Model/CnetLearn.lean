import DeeprobModel.Model.Cnet
/-
The three cutset-network LEARNERS as a work-queue machine (A layer, computable, no Mathlib).

Mirrors
* `BinaryCNet.fit`                       (/repo/deeprob/spn/structure/cnet.py),
* `learn_cnet_bd`, `learn_cnet_bic`      (/repo/deeprob/spn/learning/cnet_bayesian.py):
the `while node_stack:` loop with `node_stack.pop(0)` / `node_stack.append(left); node_stack.append(right)`
(a FIFO queue: the OR tree grows breadth-first), the row / column index partitions
(`row_indices[partition[:, i] == 0]`, `row_indices[partition[:, i] == 1]`, `np.delete(col_indices, i)`,
`del new_scope[i]`), the branch weights, and the stop rules that do not look at scores.

Everything that depends on SCORES (entropies, information gains, BDeu / BIC scores, the Chow-Liu trees
that enter them) is an ORACLE, supplied as a script consumed in the order in which the code visits
the nodes: one entry per node at which the code computes scores,
  * `Dec.stop`   — the code decides not to split (`mean_entropy < min_mean_entropy or max_info_gain <= 0`
                   in `fit`; `not (best_cnet_score > node_clt_score)` in the two score-based learners);
  * `Dec.cut v`  — the code splits on `node.scope[best_or_idx] = v`.
The Chow-Liu tree fitted at a leaf is opaque: a leaf of the learned tree records exactly the rows and the
scope it is fitted on (`LTree.leaf rows scope`), and `toCNet` plugs in a leaf-distribution oracle.

Data: `List (List Nat)` (row `r`, column `v`); the scope of the root is `range nCols` so column index and
variable coincide (`fit` sets `self.scope = list(range(n_features))`, the two other learners build
`BinaryCNet(scope=list(range(n_features)))`), and `del new_scope[best_or_idx]` removes
`v = scope[best_or_idx]` = `scope.erase v` (scopes are duplicate-free).

The smoothing parameter `par` carried by every node is
  * `alpha` for `fit` and `learn_cnet_bic` (the same at every depth):
        `left_weight = (len(left_row_indices) + alpha) / (len(node.row_indices) + 2 * alpha)`
  * `node_ess` for `learn_cnet_bd` (`ess` at the root, HALVED at every level: the children are queued
    with `node_ess / 2`):
        `left_weight = (len(left_row_indices) + node_ess / 2) / (len(node.row_indices) + node_ess)`
and always `right_weight = 1 - left_weight`.
-/
namespace Deeprob.CnetLearn

/-- which learner -/
inductive Kind where
  | fit | bd | bic
deriving Repr, DecidableEq, Inhabited

/-- hyper-parameters that matter without looking at scores.
`minSamples`, `minFeatures`: `min_n_samples`, `min_n_features` of `fit` (ignored by the others);
`nCand`: `n_cand_cuts` of `learn_cnet_bd` / `learn_cnet_bic` (ignored by `fit`);
`keepRootClt = true` is the repaired `fit` (`self.clt = root.clt`, commit a1c9cf6, defect F11),
`false` the pinned one (the tree fitted at an unsplit temporary root is lost). -/
structure Cfg where
  kind : Kind
  minSamples : Nat := 10
  minFeatures : Nat := 1
  nCand : Nat := 10
  keepRootClt : Bool := true
deriving Repr, DecidableEq, Inhabited

/-- one oracle answer -/
inductive Dec where
  | stop
  | cut (v : Nat)
deriving Repr, DecidableEq, Inhabited

/-- `data[r, v]` (a missing cell reads as 0, like `CltFit.dot`) -/
def cellOf (data : List (List Nat)) (r v : Nat) : Nat := (data.getD r []).getD v 0

/-- `node.row_indices[partition[:, i] == b]` where column `i` of the partition is variable `v` -/
def side (data : List (List Nat)) (v b : Nat) (rows : List Nat) : List Nat :=
  rows.filter (fun r => cellOf data r v == b)

/-- does the code compute scores at a node with `nRows` rows over `nScope` variables?
`fit`: not when `n_samples <= min_n_samples or n_features <= min_n_features` (`fit_clt` and `continue`);
`learn_cnet_bd` / `learn_cnet_bic`: not when `len(node.scope) == 1` (`continue`). -/
def consults (cfg : Cfg) (nRows nScope : Nat) : Bool :=
  match cfg.kind with
  | .fit => !(decide (nRows ≤ cfg.minSamples) || decide (nScope ≤ cfg.minFeatures))
  | _ => nScope != 1

/-- `k = min(n_cand_cuts, len(node.scope))`; with `k == 1` `select_cand_cuts` returns the scalar
`np.argmax(info_gains)` and `for i in search_indices:` raises `TypeError` -/
def candCrash (cfg : Cfg) (nScope : Nat) : Bool :=
  cfg.kind != .fit && min cfg.nCand nScope == 1

section carrier
variable {α : Type} [Zero α] [One α] [Add α] [Sub α] [Mul α] [Div α] [NatCast α]

/-- `left_weight` exactly as coded by each learner (`n0 = len(left_row_indices)`, `n = len(node.row_indices)`) -/
def leftWeight (k : Kind) (par : α) (n0 n : Nat) : α :=
  match k with
  | .bd => ((n0 : α) + par / ((2 : Nat) : α)) / ((n : α) + par)
  | _ => ((n0 : α) + par) / ((n : α) + ((2 : Nat) : α) * par)

/-- the parameter the children are queued with: `node_ess / 2` (BDeu), unchanged otherwise -/
def childPar (k : Kind) (par : α) : α :=
  match k with
  | .bd => par / ((2 : Nat) : α)
  | _ => par

/-- `node.or_id, node.weights, node.children` of a split node (`l`, `r`: table indices of the children) -/
structure Split (α : Type) where
  v : Nat
  w0 : α
  w1 : α
  l : Nat
  r : Nat
deriving Repr, DecidableEq

/-- a `BinaryCNet` object under construction: `row_indices`, `scope` (= `col_indices`), the smoothing
parameter it was queued with, and the split once it has been made. A cell without split is a leaf
(it holds / will hold a Chow-Liu tree over `rows × scope`). -/
structure Node (α : Type) where
  rows : List Nat
  scope : List Nat
  par : α
  split : Option (Split α) := none
deriving Repr, DecidableEq

instance : Inhabited (Node α) := ⟨{ rows := [], scope := [], par := 0 }⟩

/-- machine state: node table (index = creation order, 0 = root), the FIFO `node_stack` (head = next
`pop(0)`) of table indices, the rest of the oracle script. -/
structure St (α : Type) where
  nodes : List (Node α)
  queue : List Nat
  script : List Dec

def getN (tbl : List (Node α)) (i : Nat) : Node α := tbl.getD i default

/-- one iteration of `while node_stack:`.
`.error "raises: …"` = the Python code raises there; any other `.error` = the script is not the record of a
run of the code (exhausted, cut variable outside the scope, or — score-based learners only — a cut on a
variable with an empty side: such candidates are skipped by `if len(left_row_indices) == 0 or
len(right_row_indices) == 0: continue`, so `best_or_idx` is never one of them). -/
def step (cfg : Cfg) (data : List (List Nat)) (s : St α) : Except String (St α) :=
  match s.queue with
  | [] => .ok s
  | i :: q =>
    let nd := getN s.nodes i
    if !consults cfg nd.rows.length nd.scope.length then
      -- the node stays a leaf over (rows, scope); no score is computed
      .ok { s with queue := q }
    else if candCrash cfg nd.scope.length then
      .error "raises: TypeError ('numpy.int64' object is not iterable): n_cand_cuts == 1"
    else
      match s.script with
      | [] => .error "script exhausted"
      | .stop :: sc => .ok { s with queue := q, script := sc }
      | .cut v :: sc =>
        if !nd.scope.contains v then .error s!"cut variable {v} is not in the scope of the node" else
        let l := side data v 0 nd.rows
        let r := side data v 1 nd.rows
        if cfg.kind != .fit && (l.isEmpty || r.isEmpty) then
          .error s!"cut variable {v} has an empty side: the score-based learners skip such candidates"
        else
          let w0 : α := leftWeight cfg.kind nd.par l.length nd.rows.length
          let sc' := nd.scope.erase v
          let p' := childPar cfg.kind nd.par
          let id := s.nodes.length
          .ok { nodes := s.nodes.set i { nd with split := some { v := v, w0 := w0, w1 := 1 - w0, l := id, r := id + 1 } }
                           ++ [{ rows := l, scope := sc', par := p' }, { rows := r, scope := sc', par := p' }],
                queue := q ++ [id, id + 1],
                script := sc }

/-- `while node_stack:` with fuel (`queue.length + 2 * script.length` iterations always suffice:
`run_queue_empty` in Lemmas/CnetLearnLemmas.lean) -/
def run (cfg : Cfg) (data : List (List Nat)) : Nat → St α → Except String (St α)
  | 0, s => .ok s
  | f+1, s =>
    match s.queue with
    | [] => .ok s
    | _ :: _ => match step cfg data s with
      | .ok s' => run cfg data f s'
      | .error e => .error e

/-- `root = BinaryCNet(scope=list(range(n_features))); root.assign_indices(np.arange(n_samples),
np.arange(n_features)); node_stack = [root]` -/
def init (nRows nCols : Nat) (par : α) (script : List Dec) : St α :=
  { nodes := [{ rows := List.range nRows, scope := List.range nCols, par := par }],
    queue := [0], script := script }

/-! ### the returned structure -/

/-- learned OR tree; a leaf records the rows and the scope its Chow-Liu tree is fitted on -/
inductive LTree (α : Type) where
  | leaf (rows scope : List Nat)
  | or (rows scope : List Nat) (v : Nat) (w0 w1 : α) (c0 c1 : LTree α)
deriving Repr, DecidableEq, Inhabited

namespace LTree
def rows : LTree α → List Nat
  | leaf r _ => r | or r _ _ _ _ _ _ => r
def scope : LTree α → List Nat
  | leaf _ s => s | or _ s _ _ _ _ _ => s
def isLeaf : LTree α → Bool
  | leaf _ _ => true | or _ _ _ _ _ _ _ => false
/-- number of OR nodes -/
def nOr : LTree α → Nat
  | leaf _ _ => 0 | or _ _ _ _ _ c0 c1 => 1 + nOr c0 + nOr c1
/-- the leaves with the path leading to them: `(cut variable, value)` from the root downwards -/
def leaves : LTree α → List (List (Nat × Nat) × List Nat × List Nat)
  | leaf r s => [([], r, s)]
  | or _ _ v _ _ c0 c1 =>
      (leaves c0).map (fun x => ((v, 0) :: x.1, x.2)) ++ (leaves c1).map (fun x => ((v, 1) :: x.1, x.2))
/-- the OR nodes in pre-order: `(rows, scope, v, w0, w1, |left rows|, |right rows|)` -/
def orNodes : LTree α → List (List Nat × List Nat × Nat × α × α × Nat × Nat)
  | leaf _ _ => []
  | or r s v w0 w1 c0 c1 => (r, s, v, w0, w1, c0.rows.length, c1.rows.length) :: (orNodes c0 ++ orNodes c1)
end LTree

/-- unfolding of table cell `i` (children have larger indices than their parent, so `size - i` fuel suffices) -/
def toTree (tbl : List (Node α)) : Nat → Nat → LTree α
  | 0, i => .leaf (getN tbl i).rows (getN tbl i).scope
  | fuel+1, i =>
    let x := getN tbl i
    match x.split with
    | none => .leaf x.rows x.scope
    | some s => .or x.rows x.scope s.v s.w0 s.w1 (toTree tbl fuel s.l) (toTree tbl fuel s.r)

/-- the whole loop; the final state (the driver wants the unread part of the script) -/
def learnSt (cfg : Cfg) (data : List (List Nat)) (nCols : Nat) (par : α) (script : List Dec) :
    Except String (St α) :=
  run cfg data (2 * script.length + 1) (init data.length nCols par script)

/-- what the learner returns.
`fit` works on a temporary `root` and ends with `self.or_id = root.or_id; self.children = root.children;
self.weights = root.weights; self.clt = root.clt` — the last assignment is the F11 repair: without it
(`keepRootClt = false`) a root that was never split leaves `self` with neither children nor a tree, and
`log_likelihood` raises (`'NoneType' object is not subscriptable`). The score-based learners return `root`
itself, whose tree was fitted before the loop. -/
def learn (cfg : Cfg) (data : List (List Nat)) (nCols : Nat) (par : α) (script : List Dec) :
    Except String (LTree α) :=
  match learnSt cfg data nCols par script with
  | .error e => .error e
  | .ok s =>
    if !s.queue.isEmpty then .error "fuel exhausted" else
    if cfg.kind == .fit && !cfg.keepRootClt && (getN s.nodes 0).split.isNone then
      .error "raises: the root was never split and its Chow-Liu tree is not copied (F11)"
    else .ok (toTree s.nodes s.nodes.length 0)

/-! ### from the learned tree to the evaluated object -/

/-- `lf rows scope` is the distribution of the Chow-Liu tree the code fits on `data[rows][:, scope]`
(with `alpha`, resp. the Bayesian posterior parameters with `node_ess`): opaque -/
def toCNet (lf : List Nat → List Nat → Ev → α) : LTree α → CNet α
  | .leaf r s => .leaf s (lf r s)
  | .or _ s v w0 w1 c0 c1 => .or s v w0 w1 (toCNet lf c0) (toCNet lf c1)

/-- does training row `r` agree with a path? -/
def agrees (data : List (List Nat)) (path : List (Nat × Nat)) (r : Nat) : Bool :=
  path.all (fun vb => cellOf data r vb.1 == vb.2)

/-- scope left after cutting the variables of a path -/
def scopeAfter (scope : List Nat) (path : List (Nat × Nat)) : List Nat :=
  path.foldl (fun s vb => s.erase vb.1) scope

end carrier

/-! ### canonical text (at any carrier with a printer) -/

def natsStr (l : List Nat) : String := " ".intercalate (l.map toString)

/-- `L(rows=…;scope=…)`, `O{scope}[v=…;w=w0,w1](left,right)` -/
def LTree.render {α : Type} (sh : α → String) : LTree α → String
  | .leaf r s => s!"L(rows={natsStr r};scope={natsStr s})"
  | .or _ s v w0 w1 c0 c1 =>
      "O{" ++ natsStr s ++ "}[v=" ++ toString v ++ ";w=" ++ sh w0 ++ "," ++ sh w1 ++ "](" ++
        LTree.render sh c0 ++ "," ++ LTree.render sh c1 ++ ")"

def pathStr (p : List (Nat × Nat)) : String := " ".intercalate (p.map (fun vb => s!"{vb.1}:{vb.2}"))

/-- one `path=…|rows=…|scope=…` item per leaf, left to right, joined by `;` -/
def LTree.renderLeaves {α : Type} (t : LTree α) : String :=
  ";".intercalate (t.leaves.map (fun x => s!"path={pathStr x.1}|rows={natsStr x.2.1}|scope={natsStr x.2.2}"))

end Deeprob.CnetLearn
