/-
Raw moments of the Gaussian leaf (`deeprob/spn/structure/leaf.py: Gaussian.moment` = `scipy.stats.norm.moment(k, mean, stddev)`)
as polynomials in the parameters, by the recurrence m₀ = 1, m₁ = μ, m_{k+2} = μ·m_{k+1} + (k+1)·σ²·m_k.
Computable at ℚ (run by the driver); the integrals they equal are proved in `Props/GaussTheory.lean`.  No Mathlib.
-/
namespace Deeprob.GaussQ

/-- `(m_k, m_{k+1})` -/
def momPair {α : Type} [Add α] [Mul α] [OfNat α 1] [NatCast α] (mu sigma : α) : Nat → α × α
  | 0 => (1, mu)
  | k+1 =>
    let p := momPair mu sigma k
    (p.2, mu * p.2 + ((k + 1 : Nat) : α) * (sigma * sigma) * p.1)

/-- the raw moment `E[X^k]` of `N(mu, sigma²)` -/
def gaussRawMoment {α : Type} [Add α] [Mul α] [OfNat α 1] [NatCast α] (k : Nat) (mu sigma : α) : α :=
  (momPair mu sigma k).1

end Deeprob.GaussQ
