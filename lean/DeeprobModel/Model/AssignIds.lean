import DeeprobModel.Model.RewriteNet
/-
A layer: `assign_ids(root)` of /repo/deeprob/spn/structure/node.py on the node table.

    nodes = topological_order(root)
    if nodes is None: raise ValueError(...)
    next_id = 0
    for node in nodes: node.id = next_id; next_id += 1

Only the node objects listed by `topological_order(root)` are touched; every other row of the table keeps
its id. `none` = the `ValueError` ("not a DAG"). No Mathlib import.
(`Net.exportFrom` in Model/RewriteNet.lean performs the same relabelling fused with the harness export.)
-/
namespace Deeprob
namespace Net
variable {α : Type}

/-- `node.id = position of node in nodes` for the listed nodes -/
def relabel (t : Net α) (ko : List Nat) : Net α :=
  t.mapIdx (fun i x => if ko.contains i then { x with id := posIn ko i } else x)

/-- `assign_ids(root)` -/
def assignIds (t : Net α) (root : Nat) : Option (Net α) := (kahn t root).map (relabel t)

end Net
end Deeprob
