import DeeprobModel.Generated.Consts
set_option linter.unusedVariables false
/-
The loops of `BinaryCLT.message_passing`, `BinaryCLT.mpe` (cltree.py) as GENERATED (`Gen.S5cltMessagePassing`,
`Gen.S5cltMpeLoop`: traversal, slot written, slots read, statements around the loop, what is returned — fragments
`cltree.message_passing.loop`, `cltree.mpe.loop`), instantiated on ONE row with the numerical content of an iteration
(`msgRowBody`, `rootRowValue`, `mpePre`, `mpeBody`).  The bodies receive only the entries of the state the source reads:
an iteration of the upward pass at `j` sees `messages[tree[j]]` and `messages[j]`, nothing else, and writes `messages[tree[j]]`;
an iteration of the decoding pass at `j` sees `x[tree[j]]` and writes `x[j]` (when the row is selected by the mask).
`Oblig/Struct5Clt.lean` shows that these instances ARE the fourth-wave definitions `Gen.S4cltMessages`, `Gen.S4cltRootValue`,
`Gen.S4cltMpe` (whose loop bodies were extracted from the source), so the bodies below are pinned by the source as well.
No Mathlib (the driver executes these definitions: ops `s5_clt_mp`, `s5_clt_mpe`).
-/
namespace Deeprob.CltLoop
open Deeprob.Gen

variable {α : Type}

/-- one iteration of the upward pass at position `j`, seen from the two entries of `messages` it reads:
`rowP = messages[tree[j]]` (read by `+=`), `rowJ = messages[j]`; the result is the new `messages[tree[j]]` -/
def msgRowBody [Zero α] [Add α] (params : Int → Int → Int → α) (lse mx : List α → α) (x : List (Option Nat)) (obs : List Bool)
    (reduce : String) (j : Int) (rowP rowJ : List α) : List α :=
  let mask := Py4.getI obs j false
  let o : Int := ((Py3.val (Py4.getI x j none) : Nat) : Int)
  let pm := (Py4.vec2 (fun l => Py4.vec2 (fun k => params j l k))).map (fun row => List.zipWith (fun a b => a + b) row rowJ)
  if mask then List.zipWith (fun a b => a + b) rowP ((Py4.vec2 (fun l => params j l o)).map (fun a => a + (Py4.getI rowJ o 0)))
  else if reduce == "mar" then List.zipWith (fun a b => a + b) rowP (pm.map lse)
  else List.zipWith (fun a b => a + b) rowP (pm.map mx)

/-- the value returned with `return_lls=True`, from `messages[self.root]` alone -/
def rootRowValue [Zero α] [Add α] (params : Int → Int → Int → α) (root : Int) (lse : List α → α) (x : List (Option Nat))
    (obs : List Bool) (msg : List α) : Option α :=
  let o : Int := ((Py3.val (Py4.getI x root none) : Nat) : Int)
  if Py4.getI obs root false then some ((params root (0 : Int) o) + (Py4.getI msg o 0))
  else some (lse (List.zipWith (fun a b => a + b) (Py4.vec2 (params root (0 : Int))) msg))

/-- `message_passing(x, obs, return_lls, reduce)` on ONE row: the GENERATED loop skeleton with the bodies above
(`.inl` = the messages, `.inr` = the value; `none` = the entry of `np.empty` never written) -/
def messagePassing [Zero α] [Add α] (params : Int → Int → Int → α) (root : Int) (bfs tree : List Int) (lse mx : List α → α)
    (x : List (Option Nat)) (obs : List Bool) (return_lls : Bool) (reduce : String) : List (List α) ⊕ Option α :=
  Gen.S5cltMessagePassing (fun m i => Py4.getI m i []) Py4.updI root bfs tree (msgRowBody params lse mx x obs reduce)
    (rootRowValue params root lse x obs) (List.replicate (((x.length : Nat) : Int)).toNat [(0 : α), 0]) return_lls

/-- the messages `mpe` / `sample` read: `messages[i, row, :]` of the result (nothing when the values were asked for) -/
def msgsOf (r : List (List α) ⊕ Option α) : Int → List α :=
  match r with
  | .inl m => fun i => Py4.getI m i []
  | .inr _ => fun _ => []

/-- the store before the loop of `mpe`: the root entry, when it is missing in the INPUT row `x0` -/
def mpePre [Add α] [LT α] [DecidableLT α] (params : Int → Int → Int → α) (root : Int) (x0 : List (Option Nat))
    (messages : Int → List α) : Option (Option Nat) :=
  if Py4.getI (x0.map Py3.isnan) root false then
    some (some (Py4.argmax (List.zipWith (fun a b => a + b) (Py4.vec2 (params root (0 : Int))) (messages root))))
  else none

/-- one iteration of the decoding loop at `j`, seen from the entry `xp = x[tree[j]]` it reads -/
def mpeBody [Add α] [LT α] [DecidableLT α] (params : Int → Int → Int → α) (x0 : List (Option Nat))
    (messages : Int → List α) (j : Int) (xp : Option Nat) : Option (Option Nat) :=
  if Py4.getI (x0.map Py3.isnan) j false then
    some (some (Py4.argmax (List.zipWith (fun a b => a + b) (Py4.vec2 (params j ((Py3.val xp : Nat) : Int))) (messages j))))
  else none

/-- `mpe` on ONE row as the GENERATED skeleton renders it, for ANY implementation `mp` of `self.message_passing`
(arguments: data row, mask of the observed entries, `return_lls`, `reduce`) -/
def mpeWith [Add α] [LT α] [DecidableLT α] (params : Int → Int → Int → α) (root : Int) (bfs tree : List Int)
    (mp : List (Option Nat) → List Bool → Bool → String → Int → List α) (x : List (Option Nat)) : List (Option Nat) :=
  Gen.S5cltMpeLoop (fun (x : List (Option Nat)) i => Py4.getI x i none) (fun x i v => Py4.setI x i.toNat v) root bfs tree
    (fun x rl rd => mp x ((x.map Py3.isnan).map (fun b => !b)) rl rd) (mpePre params root x) (mpeBody params x) x

/-- `mpe` on ONE row with the generated `message_passing` composed in: two generated loops, no hand-written one.
`zero` / `add` of the upward pass are passed explicitly (linear domain: `1`, `*`) -/
def mpe [Zero α] [Add α] [LT α] [DecidableLT α] (params : Int → Int → Int → α) (root : Int) (bfs tree : List Int)
    (lse mx : List α → α) (x : List (Option Nat)) : List (Option Nat) :=
  mpeWith params root bfs tree (fun x obs rl rd => msgsOf (messagePassing params root bfs tree lse mx x obs rl rd)) x

end Deeprob.CltLoop
