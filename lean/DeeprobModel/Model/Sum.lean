/-
A-layer / S-layer shared basics: evidence, finite completion sums.
No Mathlib import: this file is executed by the driver at `α = Rat`.
-/
namespace Deeprob

/-- Evidence: `none` = NaN / missing, `some k` = observed value `k`. -/
abbrev Ev := Nat → Option Nat

/-- Overwrite one entry of the evidence. -/
def Ev.set (e : Ev) (v k : Nat) : Ev := fun w => if w = v then some k else e w

/-- Evidence from a row (list of optional values, variable `i` at position `i`). -/
def Ev.ofList (row : List (Option Nat)) : Ev := fun v => (row.getD v none)

section
variable {α : Type} [Zero α] [One α] [Add α] [Mul α]

/-- `Σ_{k<n} f k`. -/
def sumVar (n : Nat) (f : Nat → α) : α := (List.range n).foldr (fun k acc => f k + acc) 0

/-- `sumOver dom S e f` = Σ over every completion of the missing entries of `e` among the
variables listed in `S` (variable `v` ranges over `0..dom v-1`) of `f`. -/
def sumOver (dom : Nat → Nat) : List Nat → Ev → (Ev → α) → α
  | [],      e, f => f e
  | v :: vs, e, f => match e v with
      | some _ => sumOver dom vs e f
      | none   => sumVar (dom v) (fun k => sumOver dom vs (e.set v k) f)

/-- Σ of a list. -/
def tsum : List α → α
  | [] => 0
  | x :: xs => x + tsum xs

/-- Σ wᵢ·xᵢ (stops at the shorter list, like `zip`). -/
def wsum : List α → List α → α
  | w :: ws, x :: xs => w * x + wsum ws xs
  | _, _ => 0

/-- Π of a list. -/
def lprod : List α → α
  | [] => 1
  | x :: xs => x * lprod xs

end
end Deeprob
