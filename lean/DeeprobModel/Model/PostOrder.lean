import DeeprobModel.Model.Clt
/-
The explicit-stack post-order walk of `BinaryCLT.to_pc` and `BinaryCLT.get_scopes`
(deeprob/spn/structure/cltree.py), as coded, for an arbitrary "combine" step:

    nodes_stack = [root]; last_node_visited = None
    while nodes_stack:
        node = nodes_stack[-1]
        if node.is_leaf() or (last_node_visited in node.get_children()):
            <taken = buffer[-len(children):]; del buffer[-len(children):]   (inner nodes only)>
            buffer.append(combine(node, taken))
            last_node_visited = nodes_stack.pop()
        else:
            nodes_stack.extend(node.get_children())

Lists are in the orientation of the Python lists (top of the stack = LAST element, `append` = at the end).
`TreeNode` has no `__eq__`, so `last_node_visited in node.get_children()` is an identity test; the model identifies a
tree node by its id (`RTree.idx`), which is injective on the nodes of a tree built from a well-formed predecessor vector.
No Mathlib.
-/
namespace Deeprob.PostOrder

/-- loop state: `nodes_stack`, `last_node_visited` (its id), the buffer -/
structure St (β : Type) where
  stack : List RTree
  last : Option Nat
  buf : List β

/-- `last_node_visited in node.get_children()` -/
def lastInKids (last : Option Nat) (cs : List RTree) : Bool :=
  match last with
  | none => false
  | some l => (cs.map RTree.idx).contains l

/-- one iteration of `while nodes_stack:` (identity once the stack is empty: the loop has ended) -/
def step {β : Type} (comb : RTree → List β → β) (s : St β) : St β :=
  match s.stack.getLast? with
  | none => s
  | some node =>
    let cs := node.kids
    if cs.isEmpty then
      { stack := s.stack.dropLast, last := some node.idx, buf := s.buf ++ [comb node []] }
    else if lastInKids s.last cs then
      let k := cs.length
      { stack := s.stack.dropLast, last := some node.idx,
        buf := s.buf.take (s.buf.length - k) ++ [comb node (s.buf.drop (s.buf.length - k))] }
    else
      { s with stack := s.stack ++ cs }

/-- `fuel` iterations -/
def run {β : Type} (comb : RTree → List β → β) : Nat → St β → St β
  | 0, s => s
  | n+1, s => run comb n (step comb s)

/-- what the walk leaves on the buffer for the sub-tree `t`: the children's results arrive in REVERSE child order
(the children are pushed in order, so the last child is finished first) -/
def fold {β : Type} (comb : RTree → List β → β) : RTree → β
  | .node i cs => comb (.node i cs) ((cs.map (fold comb)).reverse)

/-- number of loop iterations the walk spends on the sub-tree `t` -/
def steps : RTree → Nat
  | .node _ cs => if cs.isEmpty then 1 else 2 + (cs.map steps).sum

/-- number of nodes -/
def size : RTree → Nat
  | .node _ cs => 1 + (cs.map size).sum

/-- the whole loop, from `([root], None, [])` -/
def walk {β : Type} (comb : RTree → List β → β) (root : RTree) : St β :=
  run comb (2 * size root) { stack := [root], last := none, buf := [] }

end Deeprob.PostOrder
