import DeeprobModel.Model.Circ
/-
A layer: the top-down pass (`eval_top_down`) on tree circuits, specialised to MPE
(`mpe` / `sum_mpe` / `leaf_mpe`) and to the law of the sampler (`sample` / `sum_sample` /
`leaf_sample`).  No Mathlib import: executed by the driver at `α = Rat`.

Python being mirrored
* /repo/deeprob/spn/algorithms/evaluation.py  `eval_top_down` / `eval_backward`
* /repo/deeprob/spn/algorithms/inference.py   `mpe`, `sum_mpe`, `leaf_mpe`
* /repo/deeprob/spn/algorithms/sampling.py    `sample`, `sum_sample`, `leaf_sample`
* /repo/deeprob/spn/structure/leaf.py         `Bernoulli.mpe/sample`, `Categorical.mpe/sample`
-/
namespace Deeprob

/-! ### `np.argmax`: first index of the maximum -/
section argmax
variable {α : Type} [LT α] [DecidableLT α]

/-- scan state: `i` = index of the next element, `bi`/`bv` = best index / value so far; the best
is replaced only by a *strictly* larger element, so the first maximiser wins (`np.argmax`). -/
def argmaxAux : List α → Nat → Nat → α → Nat
  | [], _, bi, _ => bi
  | x :: xs, i, bi, bv => if bv < x then argmaxAux xs (i+1) i x else argmaxAux xs (i+1) bi bv

/-- `np.argmax(l)` (0 on the empty list) -/
def argmax : List α → Nat
  | [] => 0
  | x :: xs => argmaxAux xs 1 0 x

end argmax

/-- `x[mask, scope] = y[mask, scope]`: overwrite the columns listed in `s` only -/
def writeScope (s : List Nat) (y x : Ev) : Ev := fun v => if s.contains v then y v else x v

/-! ### circuits whose leaves can also complete and sample -/

/-- A tree circuit whose leaves carry, besides the value function `f` (as `Circ.leaf`),
* `mode : Ev → Ev`  — `Leaf.mpe`: fills the missing entries of the leaf's scope, keeps observed ones;
* `cond : Ev → Ev → α` — the law of `Leaf.sample`: `cond e x` = probability that the leaf completes
  evidence `e` to `x` (on the leaf's scope). -/
inductive TCirc (α : Type) where
  | leaf (scope : List Nat) (f : Ev → α) (mode : Ev → Ev) (cond : Ev → Ev → α)
  | sum  (scope : List Nat) (ws : List α) (cs : List (TCirc α))
  | prod (scope : List Nat) (cs : List (TCirc α))

namespace TCirc
variable {α : Type}

/-- forget the top-down data: the circuit the bottom-up theorems talk about -/
def toCirc : TCirc α → Circ α
  | leaf s f _ _ => .leaf s f
  | sum s ws cs => .sum s ws (cs.map toCirc)
  | prod s cs => .prod s (cs.map toCirc)

def scope : TCirc α → List Nat
  | leaf s _ _ _ => s
  | sum s _ _ => s
  | prod s _ => s

/-- bottom-up value (`lls` of the node, in the linear domain) -/
def eval [Zero α] [One α] [Add α] [Mul α] (e : Ev) (c : TCirc α) : α := Circ.eval e c.toCirc

/-! ### the generic top-down pass
`br p ws cs`  = branch index chosen at the sum node reached by path `p` (`sum_func`);
`fill p mode` = what the leaf reached by path `p` returns for its block of columns (`leaf_func`).
A path is the list of child positions from the root, innermost first.  The row is threaded through
the visit exactly like the in-place array `x` of `eval_top_down`; a leaf writes only its own
columns (`x[np.ix_(mask, n.scope)] = …`); a product forwards to all children; a sum to the chosen
child only (`masks[c.id] |= masks[n.id] & (branch == i)`). -/
mutual
def pass (br : List Nat → List α → List (TCirc α) → Nat) (fill : List Nat → (Ev → Ev) → Ev → Ev) :
    List Nat → TCirc α → Ev → Ev
  | p, .leaf s _ m _, x => writeScope s (fill p m x) x
  | p, .sum _ ws cs, x => passAt br fill p (br p ws cs) (br p ws cs) cs x
  | p, .prod _ cs, x => passAll br fill p 0 cs x
/-- visit child number `k` of the list (nothing if out of range); `i` = its position for the path -/
def passAt (br : List Nat → List α → List (TCirc α) → Nat) (fill : List Nat → (Ev → Ev) → Ev → Ev) :
    List Nat → Nat → Nat → List (TCirc α) → Ev → Ev
  | _, _, _, [], x => x
  | p, i, 0, c :: _, x => pass br fill (i :: p) c x
  | p, i, k+1, _ :: cs, x => passAt br fill p i k cs x
/-- visit all children left to right, `j` = position of the head -/
def passAll (br : List Nat → List α → List (TCirc α) → Nat) (fill : List Nat → (Ev → Ev) → Ev → Ev) :
    List Nat → Nat → List (TCirc α) → Ev → Ev
  | _, _, [], x => x
  | p, j, c :: cs, x => passAll br fill p (j+1) cs (pass br fill (j :: p) c x)
end

mutual
/-- scopes of the leaves visited by the pass, in visiting order (does not depend on the row) -/
def reached (br : List Nat → List α → List (TCirc α) → Nat) : List Nat → TCirc α → List (List Nat)
  | _, .leaf s _ _ _ => [s]
  | p, .sum _ ws cs => reachedAt br p (br p ws cs) (br p ws cs) cs
  | p, .prod _ cs => reachedAll br p 0 cs
def reachedAt (br : List Nat → List α → List (TCirc α) → Nat) : List Nat → Nat → Nat → List (TCirc α) → List (List Nat)
  | _, _, _, [] => []
  | p, i, 0, c :: _ => reached br (i :: p) c
  | p, i, k+1, _ :: cs => reachedAt br p i k cs
def reachedAll (br : List Nat → List α → List (TCirc α) → Nat) : List Nat → Nat → List (TCirc α) → List (List Nat)
  | _, _, [] => []
  | p, j, c :: cs => reached br (j :: p) c ++ reachedAll br p (j+1) cs
end

section mpe
variable [Zero α] [One α] [Add α] [Mul α] [LT α] [DecidableLT α]

/-- `sum_mpe`: `np.argmax(lls + np.log(node.weights), axis=1)` in the linear domain — the first
index maximising `wᵢ · value(childᵢ)`; values are those of the *input* row `e` (`lls` is computed
before the pass starts). -/
def mpeBr (e : Ev) : List Nat → List α → List (TCirc α) → Nat :=
  fun _ ws cs => argmax (List.zipWith (· * ·) ws (cs.map (eval e)))

/-- `leaf_mpe`: the leaf's own `mpe` -/
def mpeFill : List Nat → (Ev → Ev) → Ev → Ev := fun _ m => m

/-- `mpe(root, x)` on a tree, one row -/
def mpeDescent (e : Ev) (c : TCirc α) : Ev := pass (mpeBr e) mpeFill [] c e

end mpe

section pmf
variable [Zero α] [One α] [Add α] [Mul α] [Div α]

/-- law of the branch drawn by `sum_sample`: `argmax(lls + log w + Gumbel)` is a draw from
`Categorical(wᵢ·Lᵢ / Σⱼ wⱼ·Lⱼ)` (Gumbel-max identity, trusted, needs the right-skewed standard
Gumbel); `L` = value of the sum node = `Σⱼ wⱼ·Lⱼ`. -/
def branchPmf (L : α) (ws ls : List α) : List α := List.zipWith (fun w l => w * l / L) ws ls

/-- the pmf induced by `sample(root, x)` on a tree, one row: probability that evidence `e` is
completed to `x`. Sum: mixture over the branch law; product: independent children; leaf: its own
conditional. -/
def topDownPmf (e x : Ev) : TCirc α → α
  | leaf _ _ _ cd => cd e x
  | sum _ ws cs =>
      wsum (branchPmf (wsum ws (cs.map (fun c => Circ.eval e c.toCirc))) ws (cs.map (fun c => Circ.eval e c.toCirc)))
           (cs.map (topDownPmf e x))
  | prod _ cs => lprod (cs.map (topDownPmf e x))

end pmf

/-! ### table leaves (Bernoulli / Categorical) -/
section leaves
variable [Zero α] [One α] [Add α] [Mul α] [LT α] [DecidableLT α]

/-- `Categorical.mpe`: `x[isnan(x)] = categories[probabilities.argmax()]` (categories `0..n-1`) -/
def catMode (v : Nat) (tbl : List α) : Ev → Ev := fun x =>
  match x v with
  | none => x.set v (argmax tbl)
  | some _ => x

/-- `Bernoulli.mpe`: `x[isnan(x)] = 0 if self.p < 0.5 else 1` on the table `[1-p, p]`:
`p < 0.5 ↔ p < 1-p`, so the value is 0 iff `tbl[1] < tbl[0]` — a tie goes to **1**
(unlike `argmax`). -/
def bernIdx (tbl : List α) : Nat := if tbl.getD 1 0 < tbl.getD 0 0 then 0 else 1

def bernMode (v : Nat) (tbl : List α) : Ev → Ev := fun x =>
  match x v with
  | none => x.set v (bernIdx tbl)
  | some _ => x

/-- law of `Bernoulli.sample` / `Categorical.sample`: a missing entry is drawn from the table,
an observed one is kept -/
def catCond (v : Nat) (tbl : List α) : Ev → Ev → α := fun e x =>
  match e v with
  | none => (match x v with | some k => tbl.getD k 0 | none => 1)
  | some _ => 1

/-- Categorical leaf with its top-down data -/
def catT (v : Nat) (tbl : List α) : TCirc α := .leaf [v] (Circ.catLeafFn v tbl) (catMode v tbl) (catCond v tbl)
/-- Bernoulli leaf (`tbl = [1-p, p]`) with its top-down data -/
def bernT (v : Nat) (tbl : List α) : TCirc α := .leaf [v] (Circ.catLeafFn v tbl) (bernMode v tbl) (catCond v tbl)

end leaves

end TCirc
end Deeprob
