import DeeprobModel.Model.RatSpn
import DeeprobModel.Model.TopDown
/-
A layer for C16 (sampling / MPE clause): the layer-wise top-down pass of `RatSpn.sample` and
`RatSpn.mpe`, modelled on the index tensors `idx_group`, `idx_offset` exactly as the layers propagate
them.  No Mathlib import (compiled into the driver).

Python being mirrored
* /repo/deeprob/spn/models/ratspn.py   `RatSpn.forward`, `RatSpn.mpe`, `RatSpn.sample`
* /repo/deeprob/spn/layers/ratspn.py   `RegionGraphLayer.forward / mpe / sample / unpad_samples`,
  `BernoulliLayer.distribution_mode`, `ProductLayer.forward / mpe / sample`,
  `SumLayer.forward / mpe / sample`, `RootLayer.forward / mpe / sample`

Shapes: `idx_group`, `idx_offset` are `(n_samples, m)` integer tensors; one row of each is modelled
(`Idx = List Nat × List Nat`, both lists of length `m`; `m = 1` below the root, doubled by every
product layer).  Everything is in the linear domain (`exp` of the log-likelihoods of the code):
`arg max (x + log w) = arg max (w · exp x)`, `Categorical(logits = log w)` has pmf `w`.
-/
namespace Deeprob
namespace RatSample
open RatSpn

/-- A Bernoulli RAT-SPN: the description `RatSpn.unroll` consumes, with the leaves given by their
tables `[1-p, p]` (`p = sigmoid(logits[i, c, k])`), the soft-max rows of the sum layers
(`w l j o = softmax(layers[2l+1].weight[j, o])`, `l` counted from the leaves) and of the root layer
(`wroot y = softmax(root_layer.weight[y])`). -/
structure Spec (α : Type) where
  ρ : Nat → List Nat → List Nat
  n : Nat
  depth : Nat
  reps : Nat
  batch : Nat
  rgSum : Nat
  classes : Nat
  tbl : Nat → Nat → Nat → List α
  w : Nat → Nat → Nat → List α
  wroot : Nat → List α

namespace Spec
variable {α : Type} (S : Spec α)

/-- `rg_layers[0]`: the leaf regions handed to the base layer -/
def regs : List (List Nat) := leafRegions S.ρ S.n S.depth S.reps
/-- row `i` of `base_layer.mask` (`dimension` columns) -/
def mrow (i : Nat) : List Nat := (maskBuf S.n S.depth S.regs).getD i []
/-- row `i` of `base_layer.pad_mask[:, 0, :]` -/
def prow (i : Nat) : List Bool := (padMaskBuf S.n S.depth S.regs).getD i []

end Spec

/-- a layer output for one input row: `groups × nodes` entries (regions/partitions × nodes) -/
structure Tab (β : Type) where
  groups : Nat
  nodes : Nat
  at_ : Nat → Nat → β

/-- one row of the pair `(idx_group, idx_offset)` -/
abbrev Idx := List Nat × List Nat

/-- `ProductLayer.sample` (= `ProductLayer.mpe`) on one row -/
def prodDownI (inNodes : Nat) (io : Idx) : Idx := prodDown inNodes io.1 io.2

/-- the flattened `(in_partitions * in_nodes)` view used by `RootLayer` -/
def flat {β : Type} (V : Tab β) : List β :=
  (List.range V.groups).flatMap (fun g => (List.range V.nodes).map (fun t => V.at_ g t))

/-! ### bottom-up: the forward pass (`lls`) in the linear domain -/
section values
variable {α : Type} [Zero α] [One α] [Add α] [Mul α]

/-- `RegionGraphLayer.forward`: `x[:, mask]` gathers variable `mask[i][k]` at position `k` of region
`i`; NaN ⇒ log-density 0 (`nan_to_num_`), dummy position ⇒ 0 (`masked_fill_(pad_mask, 0)`); sum over
the `dimension` positions.  Linear domain: product, factor 1 for missing / dummy. -/
def baseVal (S : Spec α) (e : Ev) : Tab α :=
  { groups := S.regs.length, nodes := S.batch,
    at_ := fun i c => lprod ((List.range (S.mrow i).length).map (fun k =>
      if (S.prow i).getD k false then 1 else Circ.catLeafFn ((S.mrow i).getD k 0) (S.tbl i c k) e)) }

/-- `ProductLayer.forward`: output node `a * in_nodes + b` of partition `j` = node `a` of region `2j`
times node `b` of region `2j+1` -/
def prodVal (V : Tab α) : Tab α :=
  { groups := V.groups / 2, nodes := V.nodes * V.nodes,
    at_ := fun j t => V.at_ (2 * j) (t / V.nodes) * V.at_ (2 * j + 1) (t % V.nodes) }

/-- `SumLayer.forward`: `logsumexp(x + log_softmax(weight))` -/
def sumVal (w : Nat → Nat → List α) (outNodes : Nat) (V : Tab α) : Tab α :=
  { groups := V.groups, nodes := outNodes,
    at_ := fun j o => wsum (w j o) ((List.range V.nodes).map (fun t => V.at_ j t)) }

/-- the inner layers of `RatSpn.forward` (product, (sum, product)*): same recursion as
`RatSpn.innerTables`; `k` = number of product layers still to apply, `l` = index of the next sum layer -/
def innerVal (w : Nat → Nat → Nat → List α) (rgSum : Nat) : Nat → Nat → Tab α → Tab α
  | 0, _, V => V
  | 1, _, V => prodVal V
  | k + 2, l, V => innerVal w rgSum (k + 1) (l + 1) (sumVal (w l) rgSum (prodVal V))

/-- `RootLayer.forward` for one class -/
def rootVal (wroot : List α) (V : Tab α) : α := wsum wroot (flat V)

/-- input of the root layer (`x` after the loop over `self.layers`) -/
def topVal (S : Spec α) (e : Ev) : Tab α := innerVal S.w S.rgSum S.depth 0 (baseVal S e)

/-- `exp(RatSpn.forward(x)[y])` -/
def forward (S : Spec α) (y : Nat) (e : Ev) : α := rootVal (S.wroot y) (topVal S e)

end values

/-! ### top-down: `RatSpn.mpe` -/
section mpe
variable {α : Type} [Zero α] [One α] [Add α] [Mul α] [LT α] [DecidableLT α]

/-- `SumLayer.mpe`: `x = x[arange, idx_group]; w = log_softmax(weight[idx_group, idx_offset]);
idx_offset = argmax(x + w, dim=2)` — first maximiser (`torch.argmax`), `V` = the layer's input `lls[i]` -/
def sumMpe (w : Nat → Nat → List α) (V : Tab α) (io : Idx) : Idx :=
  (io.1, List.zipWith (fun g o =>
    argmax (List.zipWith (· * ·) (w g o) ((List.range V.nodes).map (fun t => V.at_ g t)))) io.1 io.2)

/-- the loop `for i in range(len(self.layers) - 1, -1, -1): idx = self.layers[i].mpe(lls[i], idx)`;
`V` = input of the lowest of the `2k-1` layers handled (`lls` of that layer): the upper layers are
processed first, on the values they received in the forward pass -/
def mpeDown (w : Nat → Nat → Nat → List α) (rgSum : Nat) : Nat → Nat → Tab α → Idx → Idx
  | 0, _, _, io => io
  | 1, _, V, io => prodDownI V.nodes io
  | k + 2, l, V, io =>
      prodDownI V.nodes
        (sumMpe (w l) (prodVal V) (mpeDown w rgSum (k + 1) (l + 1) (sumVal (w l) rgSum (prodVal V)) io))

/-- `RootLayer.mpe`: `idx = argmax(flatten(x) + log_softmax(weight)[y]); (idx // in_nodes, idx % in_nodes)` -/
def rootMpe (wroot : List α) (V : Tab α) : Idx :=
  let idx := argmax (List.zipWith (· * ·) wroot (flat V))
  ([idx / V.nodes], [idx % V.nodes])

/-- `torch.flatten(mode[idx_group, idx_offset], start_dim=1)` with `BernoulliLayer.distribution_mode`
(`probs >= 0.5`, a tie goes to 1 = `TCirc.bernIdx`): the `dimension` modes of every selected leaf,
dummies included -/
def modes (S : Spec α) (io : Idx) : List Nat :=
  (io.1.zip io.2).flatMap (fun go =>
    (List.range (S.mrow go.1).length).map (fun k => TCirc.bernIdx (S.tbl go.1 go.2 k)))

/-- index pair reaching the base layer in `RatSpn.mpe(x, y)` -/
def mpeIdx (S : Spec α) (y : Nat) (e : Ev) : Idx :=
  mpeDown S.w S.rgSum S.depth 0 (baseVal S e) (rootMpe (S.wroot y) (topVal S e))

/-- `RatSpn.mpe(x, y)` on one row: forward pass collecting `lls`, root arg-max, top-down loop, then
`RegionGraphLayer.mpe`: modes of the selected leaves, `unpad_samples` (repetition
`idx_group[:, 0] // 2**rg_depth`), `torch.where(isnan(x), samples, x)` -/
def mpeRow (S : Spec α) (y : Nat) (row : List (Option Nat)) : List Nat :=
  let io := mpeIdx S y (Ev.ofList row)
  completeRow row (unpad S.n S.depth S.regs (io.1.headD 0 / 2 ^ S.depth) (modes S io))

/-- `y = torch.argmax(self.root_layer(x), dim=1)` when no class is given (`y = 0` for one class) -/
def mpeClass (S : Spec α) (e : Ev) : Nat :=
  if S.classes = 1 then 0 else argmax ((List.range S.classes).map (fun y => forward S y e))

end mpe

/-! ### top-down: one outcome of `RatSpn.sample` (the draws are oracles) -/

/-- `SumLayer.sample` given its draws: entry `j` of the new `idx_offset` is the draw `ch j` -/
def sumPick (ch : Nat → Nat) (io : Idx) : Idx := (io.1, (List.range io.1.length).map ch)

/-- the loop of `RatSpn.sample`; `m` = `in_nodes` of the lowest product layer handled, `ch l` = the
draws of sum layer `l` -/
def sampleDown (ch : Nat → Nat → Nat) (rgSum : Nat) : Nat → Nat → Nat → Idx → Idx
  | 0, _, _, io => io
  | 1, _, m, io => prodDownI m io
  | k + 2, l, m, io => prodDownI m (sumPick (ch l) (sampleDown ch rgSum (k + 1) (l + 1) rgSum io))

/-- `RatSpn.sample` for the outcome "root draws flat index `r`, sum layer `l` draws `ch l j` at
position `j`, the selected leaf at position `j` draws `dr j k` at its column `k`" -/
def sampleRow {α : Type} (S : Spec α) (r : Nat) (ch : Nat → Nat → Nat) (dr : Nat → Nat → Nat) : List Nat :=
  let topNodes := if S.depth = 1 then S.batch * S.batch else S.rgSum * S.rgSum
  let io := sampleDown ch S.rgSum S.depth 0 S.batch ([r / topNodes], [r % topNodes])
  unpad S.n S.depth S.regs (io.1.headD 0 / 2 ^ S.depth)
    ((List.range io.1.length).flatMap (fun j => (List.range (S.mrow (io.1.getD j 0)).length).map (dr j)))

/-! ### top-down: the law of the pass (pmf transformer) -/
section pmf
variable {α : Type} [Zero α] [One α] [Add α] [Mul α] [Div α]

/-- expectation over independent draws `is[j] ~ Categorical(ps[j])` on `0..m-1`
(`distributions.Categorical(logits=w).sample()` draws every entry of the row independently) -/
def expect (m : Nat) : List (List α) → (List Nat → α) → α
  | [], f => f []
  | p :: ps, f => sumVar m (fun i => p.getD i 0 * expect m ps (fun is => f (i :: is)))

/-- a sum layer seen from above: the new offsets are drawn from `law g o` (a pmf on the `m` input
nodes), the continuation `κ` = probability that the rest of the pass yields the target row -/
def sumStep (law : Nat → Nat → List α) (m : Nat) (κ : Idx → α) (io : Idx) : α :=
  expect m (List.zipWith law io.1 io.2) (fun os' => κ (io.1, os'))

/-- law used by `SumLayer.sample`: the soft-max weights of the selected output node -/
def lawSample (w : Nat → Nat → List α) (_V : Tab α) : Nat → Nat → List α := w

/-- law of the evidence-conditioned pass (the sampling analogue of `SumLayer.mpe`):
`wᵢ · xᵢ / Σⱼ wⱼ · xⱼ` with `x` = the layer's input under the evidence -/
def lawCond (w : Nat → Nat → List α) (V : Tab α) : Nat → Nat → List α := fun g o =>
  let vals := (List.range V.nodes).map (fun t => V.at_ g t)
  TCirc.branchPmf (wsum (w g o) vals) (w g o) vals

/-- the top-down loop as a pmf transformer.  `law l V` = branch law of sum layer `l` whose input is
`V` (only `V.nodes` is used by `lawSample`), `κ` = law of the base layer -/
def pmfDown (law : Nat → Tab α → Nat → Nat → List α) (w : Nat → Nat → Nat → List α) (rgSum : Nat) :
    Nat → Nat → Tab α → (Idx → α) → Idx → α
  | 0, _, _, κ, io => κ io
  | 1, _, V, κ, io => κ (prodDownI V.nodes io)
  | k + 2, l, V, κ, io =>
      pmfDown law w rgSum (k + 1) (l + 1) (sumVal (w l) rgSum (prodVal V))
        (sumStep (law l (prodVal V)) (prodVal V).nodes (fun io' => κ (prodDownI V.nodes io'))) io

/-- `RootLayer.sample`: flat index `idx ~ pm`, `(idx // in_nodes, idx % in_nodes)` -/
def rootStep (pm : List α) (V : Tab α) (κ : Idx → α) : α :=
  sumVar (V.groups * V.nodes) (fun idx => pm.getD idx 0 * κ ([idx / V.nodes], [idx % V.nodes]))

/-- law of the base layer on the variables it owns: every non-dummy column `k` of a selected leaf
`(g, o)` contributes `tbl[x v]` if variable `v = mask[g][k]` is missing in `e` (drawn) and 1 if it is
observed (kept); the dummy columns are drawn too but `unpad_samples` drops them (factor 1, tables sum
to one).  `x` is the target completion. -/
def basePmf (S : Spec α) (e x : Ev) (io : Idx) : α :=
  lprod ((io.1.zip io.2).map (fun go =>
    lprod ((List.range (S.mrow go.1).length).map (fun k =>
      if (S.prow go.1).getD k false then 1
      else TCirc.catCond ((S.mrow go.1).getD k 0) (S.tbl go.1 go.2 k) e x))))

/-- **law of `RatSpn.sample(·, y)`**: probability that the pass returns the complete row `x`
(no evidence enters `sample`; every variable is drawn) -/
def samplePmf (S : Spec α) (y : Nat) (x : Ev) : α :=
  let V0 := baseVal S (fun _ => none)
  rootStep (S.wroot y) (innerVal S.w S.rgSum S.depth 0 V0)
    (pmfDown (fun l => lawSample (S.w l)) S.w S.rgSum S.depth 0 V0 (basePmf S (fun _ => none) x))

/-- **law of the evidence-conditioned layer-wise pass** (what `RatSpn.mpe` does with `argmax`
replaced by a draw from the normalised `w · x`): probability that evidence `e` is completed to `x` -/
def condPmf (S : Spec α) (y : Nat) (e x : Ev) : α :=
  let V0 := baseVal S e
  let Vt := innerVal S.w S.rgSum S.depth 0 V0
  rootStep (TCirc.branchPmf (rootVal (S.wroot y) Vt) (S.wroot y) (flat Vt)) Vt
    (pmfDown (fun l => lawCond (S.w l)) S.w S.rgSum S.depth 0 V0 (basePmf S e x))

/-! #### the base layer at the level of the padded row (`RegionGraphLayer.sample` as coded) -/

/-- the Bernoulli tables of all `dimension` columns (dummies included) of the selected leaves, in the
order of `torch.flatten(samples[arange, idx_group, idx_offset], start_dim=1)` -/
def colTables (S : Spec α) (io : Idx) : List (List α) :=
  (io.1.zip io.2).flatMap (fun go => (List.range (S.mrow go.1).length).map (fun k => S.tbl go.1 go.2 k))

/-- `RegionGraphLayer.sample` on one row as coded: *every* column of every selected leaf is drawn from its
table (values in `{0, 1}`), the draws are flattened to a padded row `s`, and `unpad_samples` (repetition
`idx_group[:, 0] // 2**rg_depth`) gathers the features and drops the dummies.  Probability that the
returned row is `xrow`. -/
def baseRowPmf (S : Spec α) (xrow : List Nat) (io : Idx) : α :=
  expect 2 (colTables S io)
    (fun s => if unpad S.n S.depth S.regs (io.1.headD 0 / 2 ^ S.depth) s = xrow then 1 else 0)

/-- law of `RatSpn.sample(·, y)` at the level of the returned row (dummy columns drawn and dropped) -/
def sampleRowPmf (S : Spec α) (y : Nat) (xrow : List Nat) : α :=
  let V0 := baseVal S (fun _ => none)
  rootStep (S.wroot y) (innerVal S.w S.rgSum S.depth 0 V0)
    (pmfDown (fun l => lawSample (S.w l)) S.w S.rgSum S.depth 0 V0 (baseRowPmf S xrow))

/-- `RatSpn.sample(n)` without a class and `out_classes > 1`: `y = torch.randint(out_classes)` is uniform,
so the law is the uniform mixture of the class laws -/
def sampleAnyClassPmf (S : Spec α) (x : Ev) : α :=
  sumVar S.classes (fun y => samplePmf S y x) / sumVar S.classes (fun _ => 1)

end pmf

/-! ### the same network as a tree circuit with top-down data (`TCirc`) -/
section tcirc
variable {α : Type} [Zero α] [One α] [Add α] [Mul α] [LT α] [DecidableLT α]

/-- constant-one factor of a dummy position: completes nothing, draws nothing -/
def dummyT : TCirc α := .leaf [] (fun _ => 1) (fun x => x) (fun _ _ => 1)

/-- `RatSpn.baseNode` with Bernoulli leaves -/
def baseNodeT (tbl : Nat → List α) (mrow : List Nat) (prow : List Bool) (region : List Nat) : TCirc α :=
  .prod region ((List.range mrow.length).map (fun k =>
    if prow.getD k false then dummyT else TCirc.bernT (mrow.getD k 0) (tbl k)))

def baseT (S : Spec α) : Tab (TCirc α) :=
  { groups := S.regs.length, nodes := S.batch,
    at_ := fun i c => baseNodeT (S.tbl i c) (S.mrow i) (S.prow i) (S.regs.getD i []) }

def prodT (T : Tab (TCirc α)) : Tab (TCirc α) :=
  { groups := T.groups / 2, nodes := T.nodes * T.nodes,
    at_ := fun j t =>
      let a := T.at_ (2 * j) (t / T.nodes)
      let b := T.at_ (2 * j + 1) (t % T.nodes)
      .prod (a.scope ++ b.scope) [a, b] }

def sumT (w : Nat → Nat → List α) (outNodes : Nat) (T : Tab (TCirc α)) : Tab (TCirc α) :=
  { groups := T.groups, nodes := outNodes,
    at_ := fun j o => .sum (T.at_ j 0).scope (w j o) ((List.range T.nodes).map (fun t => T.at_ j t)) }

def innerT (w : Nat → Nat → Nat → List α) (rgSum : Nat) : Nat → Nat → Tab (TCirc α) → Tab (TCirc α)
  | 0, _, T => T
  | 1, _, T => prodT T
  | k + 2, l, T => innerT w rgSum (k + 1) (l + 1) (sumT (w l) rgSum (prodT T))

def rootT (wroot : List α) (n : Nat) (T : Tab (TCirc α)) : TCirc α :=
  .sum (List.range n) wroot (flat T)

/-- `RatSpn.unroll` with the top-down data of the leaves: `(unrollT S y).toCirc = unroll …` -/
def unrollT (S : Spec α) (y : Nat) : TCirc α :=
  rootT (S.wroot y) S.n (innerT S.w S.rgSum S.depth 0 (baseT S))

/-- the leaf functions `RatSpn.unroll` receives for `S` -/
def lfOf (S : Spec α) : Nat → Nat → Nat → Ev → α := fun i c k =>
  Circ.catLeafFn ((S.mrow i).getD k 0) (S.tbl i c k)

/-- the tree circuit of class `y` (what C16's `unroll_valid`, `ratspn_marg`, `ratspn_normalised` talk about) -/
def circ (S : Spec α) (y : Nat) : Circ α :=
  unroll S.ρ S.n S.depth S.reps S.batch S.rgSum (lfOf S) S.w (S.wroot y)

end tcirc

end RatSample
end Deeprob
