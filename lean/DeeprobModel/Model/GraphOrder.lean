import DeeprobModel.Model.Clt
import DeeprobModel.Model.CltFit
/-
A layer for the ORDER in which `BinaryCLT.message_passing` visits the variables
(deeprob/utils/graph.py: `build_tree_structure`, `compute_bfs_ordering`;
 deeprob/spn/structure/cltree.py: `message_passing`, `log_likelihood`).

`Model/Clt.lean` unfolds the predecessor vector into an inductive tree and recurses on that; the code
does something else: it computes a breadth-first order ONCE (constructor / JSON load: `compute_bfs_ordering`;
`fit`: SciPy's `breadth_first_order`), and `message_passing` walks `reversed(self.bfs[1:])` accumulating the
messages in an array with one slot per variable.  This file models exactly that: children lists filled
while enumerating the vector, the FIFO queue, and the array pass over an ARBITRARY list of variables
(the code's list is `reversed(bfs[1:])`).  No Mathlib: compiled into the driver.
-/
namespace Deeprob.GraphIo

/-! ### Python indexing -/

/-- `l[p]` for a Python list / NumPy axis of length `n`: negative indices wrap once, anything else raises
`IndexError` (`none`) -/
def pyIndex (n : Nat) (p : Int) : Option Nat :=
  if 0 ≤ p then (if p.toNat < n then some p.toNat else none)
  else if -(n : Int) ≤ p then some (p + (n : Int)).toNat else none

/-! ### `build_tree_structure` (scope = None) -/

/-- `tree.count(-1) != 1 → ValueError`; `root_idx = tree.index(-1)` -/
def rootIdx (tree : List Int) : Option Nat :=
  if tree.count (-1) = 1 then some (tree.idxOf (-1)) else none

/-- one iteration of `for node_id, parent_id in enumerate(tree)`: `nodes[node_id].set_parent(nodes[parent_id])`
appends `node_id` to the children list of `nodes[parent_id]` (a fresh node has no parent, so `set_parent`
always takes effect); `none` = `IndexError` -/
def addChild (acc : Option (List (List Nat))) (ip : Int × Nat) : Option (List (List Nat)) :=
  acc.bind (fun ch =>
    if ip.1 = -1 then some ch
    else (pyIndex ch.length ip.1).map (fun p => ch.modify p (fun l => l ++ [ip.2])))

/-- the children lists of all `TreeNode`s after the loop (index = node id) -/
def childLists (tree : List Int) : Option (List (List Nat)) :=
  tree.zipIdx.foldl addChild (some (List.replicate tree.length []))

/-- `build_tree_structure(tree)`: the root's id and every node's children list -/
def buildTreeStructure (tree : List Int) : Option (Nat × List (List Nat)) :=
  match rootIdx tree with
  | none => none
  | some r => (childLists tree).map (fun ch => (r, ch))

/-! ### `compute_bfs_ordering` -/

/-- the `while nodes_queue` loop: `popleft`, append the id, `extend(children)`.
Every node id is appended to exactly one children list, so at most `n` nodes are ever popped: fuel `n`
never runs out with a non-empty queue. -/
def bfsLoop (ch : List (List Nat)) : Nat → List Nat → List Nat
  | 0, _ => []
  | _, [] => []
  | fuel+1, q :: qs => q :: bfsLoop ch fuel (qs ++ ch.getD q [])

/-- `compute_bfs_ordering(tree)`; `none` = the exception raised by `build_tree_structure` -/
def computeBfsOrdering (tree : List Int) : Option (List Nat) :=
  (buildTreeStructure tree).map (fun rc => bfsLoop rc.2 tree.length [rc.1])

/-! ### well-formed predecessor vectors -/

/-- **the decidable predicate**: exactly one entry `-1` (at `r`), every other entry is an index `< n`, and
every index reaches `r` by following the vector in at most `n - 1` steps (no cycle) -/
def wellFormedPred (tree : List Int) : Bool :=
  match rootIdx tree with
  | some r => CltFit.isRootedSpanningTree tree r
  | none => false

abbrev WellFormedPred (tree : List Int) : Prop := wellFormedPred tree = true

/-- depth of a node: number of steps to the root -/
def depthOf (tree : List Int) (i : Nat) : Nat := CltFit.depth tree tree.length i

/-- level `k` of the breadth-first traversal: the root; then the children, in index order, of the nodes of
the previous level, in the order of the previous level -/
def level (tree : List Int) (r : Nat) : Nat → List Nat
  | 0 => [r]
  | k+1 => (level tree r k).flatMap (Clt.childrenOf tree)

/-- whenever `a` comes before `b` in the list, `b` is not a child of `a`; on a list that contains every non-root
variable exactly once this says: every child is visited before its parent -/
def childFirst (tree : List Int) : List Nat → Bool
  | [] => true
  | a :: rest => rest.all (fun b => CltFit.parent tree b != some a) && childFirst tree rest

/-! ### the array-based bottom-up pass of `message_passing` -/

section pass
variable {α : Type} [Zero α] [One α] [Add α] [Mul α]

/-- `messages[j, ·, k]` of one row -/
def sel (m : α × α) (k : Nat) : α := if k = 0 then m.1 else m.2

/-- what node `j` sends to its parent, for parent value `l`, given its own slot `m = messages[j]`:
observed `v`: `params[j, l, v] + messages[j, v]`; missing: the reduction over `k` of
`params[j, l, k] + messages[j, k]` (log domain; here: linear domain, `+` of the carrier = `logsumexp`
for 'mar', `max` for 'mpe') -/
def outMsg (cpt : List (List (List α))) (row : Nat → Option Nat) (j : Nat) (m : α × α) (l : Nat) : α :=
  match row j with
  | some v => Clt.cptAt cpt j l v * sel m v
  | none => sumVar 2 (fun k => Clt.cptAt cpt j l k * sel m k)

/-- `messages[self.tree[j]] += …` for both parent values (log domain `+=` is `*=` here); `self.tree[j]` is a
NumPy index: `-1` is the LAST slot -/
def passStep (tree : List Int) (cpt : List (List (List α))) (row : Nat → Option Nat)
    (M : List (α × α)) (j : Nat) : List (α × α) :=
  match pyIndex M.length (tree.getD j (-1)) with
  | none => M
  | some p =>
    let m := M.getD j (1, 1)
    M.modify p (fun t => (t.1 * outMsg cpt row j m 0, t.2 * outMsg cpt row j m 1))

/-- the loop `for j in order` starting from `messages = zeros` (log 0 ↦ 1) -/
def arrayPass (tree : List Int) (cpt : List (List (List α))) (row : Nat → Option Nat) (order : List Nat) :
    List (α × α) :=
  order.foldl (passStep tree cpt row) (List.replicate tree.length (1, 1))

/-- the last lines of `message_passing` (`return_lls=True`): the root reads ROW 0 of its table;
missing root: `logsumexp` whatever `reduce` is -/
def rootValue (cpt : List (List (List α))) (row : Nat → Option Nat) (r : Nat) (M : List (α × α)) : α :=
  outMsg cpt row r (M.getD r (1, 1)) 0

/-- array pass in a given order followed by the root step -/
def passValue (tree : List Int) (cpt : List (List (List α))) (row : Nat → Option Nat) (r : Nat)
    (order : List Nat) : α :=
  rootValue cpt row r (arrayPass tree cpt row order)

/-- `message_passing(x, obs_mask, return_lls=True)` on one row, as the object built from `tree` runs it:
`self.root` is the position of the `-1`, `self.bfs = compute_bfs_ordering(tree)`, order `reversed(bfs[1:])` -/
def codeValue (tree : List Int) (cpt : List (List (List α))) (row : Nat → Option Nat) : Option α :=
  match rootIdx tree, computeBfsOrdering tree with
  | some r, some bfs => some (passValue tree cpt row r bfs.tail.reverse)
  | _, _ => none

end pass

end Deeprob.GraphIo
