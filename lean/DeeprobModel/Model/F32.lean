import DeeprobModel.Model.Io
/-
A layer for C13, float storage — what `deeprob/spn/structure/io.py` + the constructors do to ONE stored number
over repeated save/load generations.

Storage dtypes (read off the constructors that `digraph_to_spn` / `digraph_to_binary_clt` call):
* `Sum.weights` (`node.py`, `Sum.__init__`): a *list* becomes `np.array(weights, dtype=np.float32)`; an `ndarray`
  argument is kept as passed (so a float64 array stays float64 in memory until the first reload);
  `em_init`/`em_step` store float32.
* `Categorical.probabilities`: `np.array(probabilities, np.float32)`; `Isotonic.densities/breaks`: float32 when a
  list is passed (always the case on reload; `fit` casts with `astype(np.float32)`); `BinaryCLT.params`:
  `np.array(params, dtype=np.float32)`.
* `Bernoulli.p`, `Gaussian.mean/stddev`, `Uniform.start/width`: stored as passed — on reload the Python `float`
  (binary64) that `json.load` produced.

Writer: `round(float(x), 8)` is CPython's correctly rounded decimal rounding (dtoa mode 3, ties-to-even on the exact
binary value) followed by a correctly rounded `strtod`; `json.dumps` prints the shortest round-tripping repr and
`json.load` reads it back to the same binary64. Hence: document number `save y = round8 y` (exact decimal),
value handed to the constructor `parse d = f64 d`, stored value `f32 (f64 d)` (a single float64→float32 rounding by
NumPy) or `f64 d`.
For arrays the writer is `np.around(x.astype(float64), 8)` = `rint(x·10⁸)/10⁸` in binary64: for a float32 `x` the
product has ≤ 24 + 19 significant bits, so it is exact, `rint` is the exact round-half-even and the division of two
exact binary64 numbers is correctly rounded — again `f64 (round8 x)`.

`fpr p emin` is IEEE-754 round-to-nearest, ties-to-even, to precision `p` with least quantum exponent `emin`
(gradual underflow), on exact rationals, WITHOUT overflow (faithful for |q| < 2^emax·(2 − 2^(−p)), i.e.
|q| < 2¹²⁸ − 2¹⁰³ for binary32). No Mathlib here.
-/
namespace Deeprob.Io32
open Deeprob

/-- `2^e` for an integer exponent -/
def pow2 (e : Int) : Rat := if 0 ≤ e then (2 : Rat) ^ e.toNat else 1 / (2 : Rat) ^ (-e).toNat

/-- absolute value (core `Rat` has no `abs` without Mathlib) -/
def absQ (q : Rat) : Rat := if q < 0 then -q else q

/-- `⌊log₂ |q|⌋` for `q ≠ 0`: the difference of the bit lengths of numerator and denominator, corrected by one
comparison -/
def ilog2 (q : Rat) : Int :=
  let e0 : Int := (Nat.log2 q.num.natAbs : Int) - (Nat.log2 q.den : Int)
  if pow2 e0 ≤ absQ q then e0 else e0 - 1

/-- exponent of the quantum (unit in the last place) used to round `q`: `max (⌊log₂|q|⌋ − (p−1)) emin` -/
def qexp (p : Nat) (emin : Int) (q : Rat) : Int := max (ilog2 q - ((p : Int) - 1)) emin

/-- round to nearest, ties to even, `p` significant bits, least quantum `2^emin`, no overflow -/
def fpr (p : Nat) (emin : Int) (q : Rat) : Rat :=
  (roundHalfEven (q / pow2 (qexp p emin q)) : Rat) * pow2 (qexp p emin q)

/-- IEEE-754 binary32 (`numpy.float32`): 24 significant bits, least subnormal `2⁻¹⁴⁹` -/
def f32 (q : Rat) : Rat := fpr 24 (-149) q

/-- IEEE-754 binary64 (Python `float`, `numpy.float64`): 53 significant bits, least subnormal `2⁻¹⁰⁷⁴` -/
def f64 (q : Rat) : Rat := fpr 53 (-1074) q

/-- document number written for the in-memory value `y` -/
def save (y : Rat) : Rat := round8 y

/-- `json.load`: the binary64 nearest to the decimal -/
def parse (d : Rat) : Rat := f64 d

/-- value stored by a constructor that casts to float32 -/
def load32 (d : Rat) : Rat := f32 (f64 d)

/-- value stored by a constructor that keeps the Python float -/
def load64 (d : Rat) : Rat := f64 d

/-- the array writer `np.around(x.astype(np.float64), 8)` as NumPy computes it in binary64: multiply by `1e8`
(rounded), `rint`, divide by `1e8` (rounded). `around64_eq_save_of_f32` (Lemmas/F32Lemmas.lean): on float32 inputs
this is `f64 (round8 x)`; on float64 inputs it can differ from the correctly rounded `round(x, 8)`. -/
def around64 (x : Rat) : Rat := f64 ((roundHalfEven (f64 (x * (10 : Rat) ^ 8)) : Rat) / (10 : Rat) ^ 8)

/-- `gens` generations of one stored number: `[d₁, y₁, d₂, y₂, …]` with `dᵢ₊₁ = save yᵢ`, `yᵢ₊₁ = load dᵢ₊₁` -/
def chain (load : Rat → Rat) : Nat → Rat → List Rat
  | 0, _ => []
  | g + 1, y => let d := save y; let y' := load d; d :: y' :: chain load g y'

/-- which leaf classes store their float parameters as float32 arrays (the others keep Python floats) -/
def paramsAreF32 (cls : String) : Bool :=
  cls == "Categorical" || cls == "Isotonic" || cls == "BinaryCLT"

/-- the in-memory node the constructors build from a document node's attributes -/
def storeNode (n : MNode) : MNode :=
  { n with weights := n.weights.map load32,
           params := if paramsAreF32 n.cls then n.params.map load32 else n.params.map load64 }

/-- `load_spn_json`: `digraph_to_spn` followed by the constructors' casts (`none`: a child slot stayed `None`) -/
def loadDoc (d : Doc) : Option Model := (decode d).map (fun m => m.map storeNode)

/-- total version (an unloadable document gives the empty model) -/
def loadModel (d : Doc) : Model := (loadDoc d).getD []

/-- the documents of `gens` successive generations starting from the in-memory model `m` -/
def genDocs : Nat → Model → List Doc
  | 0, _ => []
  | g + 1, m => encode m :: genDocs g (loadModel (encode m))

end Deeprob.Io32
