import DeeprobModel.Model.Moments
/-
A layer for C14 — `deeprob/spn/learning/em.py`, `deeprob/spn/algorithms/gradient.py`, and the `em_step`
methods of `structure/node.py` (Sum), `structure/leaf.py` (Bernoulli, Categorical, Gaussian),
`structure/cltree.py` (BinaryCLT).

Per-entry update formulas are NOT written here: the assemblers below take them as arguments and are
instantiated with the generated definitions (`Deeprob.Gen.*` in proofs, `Deeprob.GenRat.*` in the driver).
What is hand-written is only what NumPy does around the formulas (which sums are taken over which axis).
No Mathlib here.
-/
namespace Deeprob

section
variable {α : Type} [Zero α] [One α] [Add α] [Mul α]

/-- column `i` of a row-major data matrix -/
def dataCol (data : List (List α)) (i : Nat) : List α := data.map (fun row => row.getD i 0)

/-- `Sum.em_step(stats, step_size)`: `stats` has one row per child (already summed over the batch: `ss`).
`unnorm w s` = entry of `unnorm_weights`, `new eta w s Z` = entry of the new `self.weights`,
`Z = np.sum(unnorm_weights)`. -/
def sumStepWith (unnorm : α → α → α) (new : α → α → α → α → α) (eta : α) (ws ss : List α) : List α :=
  let Z := tsum (List.zipWith unnorm ws ss)
  List.zipWith (fun w s => new eta w s Z) ws ss

/-- `Bernoulli.em_step(stats, data, step_size)`: `S1 = np.dot(stats, data)`, `T = np.sum(stats)` -/
def bernStepWith (new : α → α → α → α → α) (eta p : α) (stats data : List α) : α :=
  new eta p (wsum stats data) (tsum stats)

/-- `np.sum(stats[data == d])` -/
def catStat (stats : List α) (data : List Nat) (d : Nat) : α :=
  tsum (List.zipWith (fun s x => if x = d then s else 0) stats data)

/-- all per-category statistics, categories `0 .. K-1` -/
def catStats (K : Nat) (stats : List α) (data : List Nat) : List α := (List.range K).map (catStat stats data)

/-- `Categorical.em_step`: one entry per category `d` (dense categories `0..K-1`) -/
def catStepWith (new : α → α → α → α → α → α) (eta : α) (ps : List α) (stats : List α) (data : List Nat) : List α :=
  List.zipWith (fun p Sd => new eta p Sd (tsum stats) (natC ps.length)) ps (catStats ps.length stats data)

/-- sufficient statistics of `Gaussian.em_step`: `T = Σ stats`, `Sx = Σ stats·data` -/
def gaussT (stats : List α) : α := tsum stats
def gaussSx (stats data : List α) : α := wsum stats data

end

section
variable {α : Type} [Zero α] [One α] [Add α] [Mul α] [Sub α]

/-- `V = Σ stats·(data − mean)²` for the already re-estimated `mean` -/
def gaussV (stats data : List α) (mean : α) : α := wsum stats (data.map (fun x => (x - mean) * (x - mean)))

end

/-- the per-entry formulas of `BinaryCLT.em_step` (generated), bundled -/
structure CltEmFns (α : Type) where
  prior1 : α → α → α            -- P T ↦ priors[:,1]
  prior0 : α → α → α            -- P T ↦ priors[:,0]
  cond1 : α → α                 -- C1 ↦ conditional_stats[:,1]
  cond0 : α → α → α            -- P C1 ↦ conditional_stats[:,0]
  cell1 : α → α → α → α        -- C T Pp ↦ params[:,:,1]
  cell0 : α → α → α → α        -- C T Pp ↦ params[:,:,0]
  new : α → α → α → α → α      -- eta old q Z ↦ entry after mixing and re-normalisation by the row sum Z

section
variable {α : Type} [Zero α] [One α] [Add α] [Mul α]

/-- `self.tree[i]` used as a NumPy column index: `-1` (the root's entry) is the last column -/
def cltPaIdx (pred : List Int) (i : Nat) : Nat := match pred.getD i (-1) with
  | Int.ofNat p => p
  | Int.negSucc _ => pred.length - 1

/-- `priors_stats[i] = Σ_r stats[r]·data[r, i]` -/
def cltP (stats : List α) (data : List (List α)) (i : Nat) : α := wsum stats (dataCol data i)

/-- `Σ_r stats[r]·data[r, i]·data[r, tree[i]]` -/
def cltC1 (pred : List Int) (stats : List α) (data : List (List α)) (i : Nat) : α :=
  wsum stats (List.zipWith (fun a b => a * b) (dataCol data i) (dataCol data (cltPaIdx pred i)))

/-- `priors[i, b]` -/
def cltPrior (f : CltEmFns α) (stats : List α) (data : List (List α)) (i b : Nat) : α :=
  if b = 0 then f.prior0 (cltP stats data i) (tsum stats) else f.prior1 (cltP stats data i) (tsum stats)

/-- `conditional_stats[i, b]` -/
def cltCond (f : CltEmFns α) (pred : List Int) (stats : List α) (data : List (List α)) (i b : Nat) : α :=
  if b = 0 then f.cond0 (cltP stats data i) (cltC1 pred stats data i) else f.cond1 (cltC1 pred stats data i)

/-- re-estimated `params[i, b, j]`: the root's two rows are its prior, the others the smoothed conditional -/
def cltQ (f : CltEmFns α) (pred : List Int) (stats : List α) (data : List (List α)) (i b j : Nat) : α :=
  if pred.getD i (-1) < 0 then cltPrior f stats data i j
  else if j = 0 then f.cell0 (cltCond f pred stats data i b) (tsum stats) (cltPrior f stats data (cltPaIdx pred i) b)
  else f.cell1 (cltCond f pred stats data i b) (tsum stats) (cltPrior f stats data (cltPaIdx pred i) b)

/-- one CPT row after mixing and the explicit re-normalisation `params /= np.sum(params, axis=2)` -/
def cltNewRow (f : CltEmFns α) (eta o0 o1 q0 q1 : α) : List α :=
  let Z := f.new eta o0 q0 1 + f.new eta o1 q1 1
  [f.new eta o0 q0 Z, f.new eta o1 q1 Z]

/-- `BinaryCLT.em_step`, linear domain. `pred[i]` = parent of variable `i` (`-1` at the root), `old[i][b][j]`
= `exp(self.params[i, b, j])` = P(X_i = j | X_pa(i) = b), `data[r][i]` ∈ {0,1}.
Returns the new table in the linear domain (the code stores its `log`). -/
def cltStepWith (f : CltEmFns α) (eta : α) (pred : List Int) (old : List (List (List α)))
    (stats : List α) (data : List (List α)) : List (List (List α)) :=
  let oldAt : Nat → Nat → Nat → α := fun i b j => ((old.getD i []).getD b []).getD j 0
  (List.range pred.length).map (fun i => (List.range 2).map (fun b =>
    cltNewRow f eta (oldAt i b 0) (oldAt i b 1) (cltQ f pred stats data i b 0) (cltQ f pred stats data i b 1)))

end

/-! ### one EM iteration on the parameters (`expectation_maximization`, body of the loop) -/

/-- all generated per-entry formulas, bundled (instantiated with `Gen.*` in proofs, `GenRat.*` in the driver) -/
structure EmFns (α : Type) where
  sumUnnorm : α → α → α
  sumNew : α → α → α → α → α
  bernNew : α → α → α → α → α
  catNew : α → α → α → α → α → α
  gaussMeanReest : α → α → α
  gaussMeanNew : α → α → α → α → α
  gaussStdArg : α → α → α
  gaussStdOf : α → α → α → α
  clt : CltEmFns α

/-- the parameters EM updates. Node kinds, scopes, children and CLT tree shapes are not part of this state:
`em_step` never touches them (`em_structure_unchanged` holds by construction of the type). -/
structure EmParams (α : Type) where
  sums : List (List α)                    -- weights of every sum node
  berns : List α                          -- `p` of every Bernoulli leaf
  cats : List (List α)                    -- probabilities of every Categorical leaf
  gauss : List (α × α)                    -- (mean, stddev) of every Gaussian leaf
  clts : List (List (List (List α)))      -- linear-domain CPT of every BinaryCLT leaf

/-- what one iteration feeds to the `em_step` calls: responsibilities (`stats`) and the batch columns -/
structure EmBatch (α : Type) where
  sumStats : List (List α)                -- per sum node, per child: `np.sum(stats, axis=1)`
  bern : List (List α × List α)           -- per Bernoulli leaf: (stats, data column)
  cat : List (List α × List Nat)          -- per Categorical leaf: (stats, data column as category indices)
  gauss : List (List α × List α)          -- per Gaussian leaf: (stats, data column)
  clt : List (List α × List (List α))     -- per CLT leaf: (stats, data[:, scope])

section
variable {α : Type} [Zero α] [One α] [Add α] [Mul α] [Sub α]

/-- `Gaussian.em_step` with the square root as a parameter (`np.sqrt`; no law about it is ever needed) -/
def gaussStepWith (f : EmFns α) (sqrt : α → α) (eta : α) (ms : α × α) (stats data : List α) : α × α :=
  let T := gaussT stats
  let Sx := gaussSx stats data
  let mean' := f.gaussMeanReest Sx T
  (f.gaussMeanNew eta ms.1 Sx T, f.gaussStdOf eta ms.2 (sqrt (f.gaussStdArg (gaussV stats data mean') T)))

/-- the body of the EM loop after the backward pass: every sum node and every leaf takes its `em_step` -/
def emStep (f : EmFns α) (sqrt : α → α) (eta : α) (cltPreds : List (List Int)) (p : EmParams α) (b : EmBatch α) :
    EmParams α :=
  { sums := List.zipWith (fun ws ss => sumStepWith f.sumUnnorm f.sumNew eta ws ss) p.sums b.sumStats
    berns := List.zipWith (fun q sd => bernStepWith f.bernNew eta q sd.1 sd.2) p.berns b.bern
    cats := List.zipWith (fun ps sd => catStepWith f.catNew eta ps sd.1 sd.2) p.cats b.cat
    gauss := List.zipWith (fun ms sd => gaussStepWith f sqrt eta ms sd.1 sd.2) p.gauss b.gauss
    clts := List.zipWith (fun (po : List Int × List (List (List α))) sd => cltStepWith f.clt eta po.1 po.2 sd.1 sd.2)
              (cltPreds.zip p.clts) b.clt }

/-- `num_iter` iterations; `batches t` is what iteration `t` sees -/
def emIterate (f : EmFns α) (sqrt : α → α) (eta : α) (cltPreds : List (List Int)) (batches : Nat → EmBatch α) :
    Nat → EmParams α → EmParams α
  | 0, p => p
  | n+1, p => emStep f sqrt eta cltPreds (emIterate f sqrt eta cltPreds batches n p) (batches n)

end

/-! ### the backward pass (`eval_backward`), linear domain, division-free -/

section
variable {α : Type} [Zero α] [One α] [Add α] [Mul α]

/-- contributions a node with gradient `g` sends to its children (`cached_grads[c.id].append(...)`):
a sum sends `g·w_c`; a product sends `g·Π_{siblings} val` (the code's `grads + lls[node] − lls[c]`, without the
division). -/
def sendDown (vals : List α) (x : NNode α) (g : α) (grads : List α) : List α :=
  match x.kind with
  | .sum => (x.ch.zip x.ws).foldl (fun gr cw => gr.set cw.1 (gr.getD cw.1 0 + g * cw.2)) grads
  | .prod => x.ch.zipIdx.foldl (fun gr cj =>
      gr.set cj.1 (gr.getD cj.1 0 + g * lprod ((x.ch.eraseIdx cj.2).map (fun c => vals.getD c 0)))) grads
  | .leaf => grads

/-- `eval_backward(root, lls)`: `grads[i] = ∂ root / ∂ node_i`. The table is children-first, so decreasing index
is a topological order (parents first); the gradient of a node is final when it is reached, being the sum
(`logsumexp`) of what its parents sent. -/
def backward (net : Net α) (vals : List α) (root : Nat) : List α :=
  (List.range net.length).reverse.foldl
    (fun grads i => match net[i]? with
      | some x => sendDown vals x (grads.getD i 0) grads
      | none => grads)
    ((List.replicate net.length 0).set root 1)

end

section
variable {α : Type} [Zero α] [One α] [Add α] [Mul α] [Div α]

/-- responsibilities of the children of sum node `i` for one row: `exp(children_ll − root_ll + grads[i])` -/
def respSum (vals grads : List α) (root i : Nat) (x : NNode α) : List α :=
  x.ch.map (fun c => vals.getD c 0 * grads.getD i 0 / vals.getD root 0)

/-- responsibility of leaf `i` for one row: `exp(lls[i] − root_ll + grads[i])` -/
def respLeaf (vals grads : List α) (root i : Nat) : α := vals.getD i 0 * grads.getD i 0 / vals.getD root 0

end

/-! ### the same pass on tree-shaped circuits: one parent per node, so the gradient of a node is the product of
what is sent along its unique path from the root -/

namespace Circ
variable {α : Type} [Zero α] [One α] [Add α] [Mul α]

/-- the circuit with the sub-circuit at `path` (child indices from the root) replaced by the constant `x` -/
def plug (x : α) : List Nat → Circ α → Circ α
  | [], _ => .leaf [] (fun _ => x)
  | j :: p, .sum s ws cs => .sum s ws (cs.modify j (plug x p))
  | j :: p, .prod s cs => .prod s (cs.modify j (plug x p))
  | _ :: _, .leaf s f => .leaf s f

/-- `grads` at the node reached by `path`: `1` at the root, `·w_j` through a sum, `·Π siblings` through a product -/
def gradAlong (e : Ev) : List Nat → Circ α → α
  | [], _ => 1
  | j :: p, .sum _ ws cs => match cs[j]? with
      | some c => ws.getD j 0 * gradAlong e p c
      | none => 0
  | j :: p, .prod _ cs => match cs[j]? with
      | some c => lprod ((cs.eraseIdx j).map (eval e)) * gradAlong e p c
      | none => 0
  | _ :: _, .leaf _ _ => 0

/-- the sub-circuit at `path` -/
def subAt : List Nat → Circ α → Option (Circ α)
  | [], c => some c
  | j :: p, .sum _ _ cs => match cs[j]? with
      | some c => subAt p c
      | none => none
  | j :: p, .prod _ cs => match cs[j]? with
      | some c => subAt p c
      | none => none
  | _ :: _, .leaf _ _ => none

/-- `path` leads to a node -/
def validPath : List Nat → Circ α → Prop
  | [], _ => True
  | j :: p, .sum _ ws cs => j < ws.length ∧ ∃ c, cs[j]? = some c ∧ validPath p c
  | j :: p, .prod _ cs => ∃ c, cs[j]? = some c ∧ validPath p c
  | _ :: _, .leaf _ _ => False

end Circ

end Deeprob
