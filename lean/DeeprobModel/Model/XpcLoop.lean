import DeeprobModel.Generated.Consts
import DeeprobModel.Model.PostOrderR
import DeeprobModel.Model.Xpc
/-
The loop of `build_xpc` (deeprob/spn/learning/xpc.py) AS EXTRACTED from the source (`Gen.S5buildXpcStep`), iterated and
instantiated on the model's partition trees and circuits.  Executable (the driver runs it next to the real code and next to the
hand-written `buildXpc`: op `s5_xpc`); the theorems about it are in `Oblig/Struct5Xpc.lean` and `Props/E2EXpc.lean`.  No Mathlib.

Objects.  The model's partition tree `Part α` has no object identity, the loop's test `last_part_visited in part.sub_partitions`
is identity (`Partition` defines no `__eq__`).  The `Partition` OBJECTS are modelled by `PTree (Part α)`: `Part.number p n` gives every
node of `p` its pre-order number (from `n`) as id — one object per node, as `Partition.__init__` creates them — and the node's own
sub-tree as payload (what the object's fields `row_ids`, `col_ids`, `is_conj`, … are read from).
-/
namespace Deeprob

namespace Part
variable {α : Type}

mutual
/-- number of partitions of the tree -/
def size : Part α → Nat
  | .leaf .. => 1
  | .horiz _ _ subs => 1 + sizeL subs
  | .vert _ _ subs => 1 + sizeL subs
termination_by structural p => p
def sizeL : List (Part α) → Nat
  | [] => 0
  | s :: ss => size s + sizeL ss
termination_by structural l => l
end

open Deeprob.PostOrder in
mutual
/-- the `Partition` objects of the tree: pre-order numbers from `n` as identities, the sub-tree itself as payload -/
def number : Part α → Nat → PTree (Part α)
  | .leaf r c a b d par, n => .node n (.leaf r c a b d par) []
  | .horiz r c subs, n => .node n (.horiz r c subs) (numberL subs (n + 1))
  | .vert r c subs, n => .node n (.vert r c subs) (numberL subs (n + 1))
termination_by structural p => p
def numberL : List (Part α) → Nat → List (PTree (Part α))
  | [], _ => []
  | s :: ss, n => number s n :: numberL ss (n + size s)
termination_by structural l => l
end

mutual
/-- every inner node has sub-partitions and carries the kind `is_horizontally_partitioned()` answers for it (`Part.ofNode`): the
trees the driver's parser builds, and the only ones that describe a Python partition tree (a `Partition` has no kind of its own) -/
def wellTaggedB : Part α → Bool
  | .leaf .. => true
  | .horiz rows _ subs => !subs.isEmpty && isHorizB rows subs && wellTaggedBL subs
  | .vert rows _ subs => !subs.isEmpty && !isHorizB rows subs && wellTaggedBL subs
termination_by structural p => p
def wellTaggedBL : List (Part α) → Bool
  | [] => true
  | s :: ss => wellTaggedB s && wellTaggedBL ss
termination_by structural l => l
end

end Part

namespace XC
variable {α : Type}
/-- the attribute `children` of `Sum` / `Product` nodes (read by the loop only after `isinstance` said so) -/
def children : XC α → List (XC α)
  | .sum _ _ cs => cs
  | .prod _ cs => cs
  | _ => []
/-- `isinstance(c, Product)` -/
def isProduct : XC α → Bool
  | .prod .. => true
  | _ => false
/-- `isinstance(c, Sum)` -/
def isSum : XC α → Bool
  | .sum .. => true
  | _ => false
end XC

namespace Oblig.Struct5X
open Deeprob.PostOrder

/-- `Partition.is_partitioned`: `len(self.sub_partitions) != 0` -/
def isPartitioned {π : Type} (t : PTree π) : Bool := t.kids.length != 0
/-- identity membership, objects identified by their id -/
def isInP {π : Type} (o : Option (PTree π)) (cs : List (PTree π)) : Bool := lastInKidsR (o.map PTree.id) cs

section
variable {π C W : Type} (isHoriz : PTree π → Bool) (rowIds : PTree π → List Nat) (children : C → List C) (isProduct isSum : C → Bool)
  (div : Nat → Nat → W) (mkSum : List W → List C → C) (mkProduct : List C → C) (buildLeaf : PTree π → C)

/-- the extracted loop, `fuel` iterations -/
def genRunX : Nat → List (PTree π) × Option (PTree π) × List C → List (PTree π) × Option (PTree π) × List C
  | 0, s => s
  | n+1, s => genRunX n (Gen.S5buildXpcStep isPartitioned isHoriz PTree.kids rowIds isInP children isProduct isSum div mkSum mkProduct
      buildLeaf s.1 s.2.1 s.2.2)

end

section
variable {α : Type}

/-- `part.row_ids` -/
def rowIdsP (t : PTree (Part α)) : List Nat := t.pay.rows

/-- `Partition.is_horizontally_partitioned`: `len(self.row_ids) > len(self.sub_partitions[0].row_ids)` when partitioned -/
def isHorizP (t : PTree (Part α)) : Bool :=
  match t.kids with
  | [] => false
  | s :: _ => decide (s.pay.rows.length < t.pay.rows.length)

/-- `build_leaf(data, part, use_clt, trees_dict, det, alpha)`: the model's `buildLeaf` on the fields of the object (an inner
partition without sub-partitions is an artefact of `Part`, no Python object: the empty sum) -/
def buildLeafP [Zero α] [One α] (useClt det : Bool) (t : PTree (Part α)) : XC α :=
  match t.pay with
  | .leaf _ cols isConj isNaive disc par => buildLeaf useClt det cols isConj isNaive disc par
  | _ => XC.mkSum [] []

end
end Oblig.Struct5X

namespace E2EXpc
open Deeprob.PostOrder Deeprob.Oblig.Struct5X
variable {α : Type} [Zero α] [One α] [Div α] [NatCast α]

/-- the state of the extracted loop after `fuel` iterations, started from `([part_root], None, [])` on the objects of `p` -/
def genXpcState (useClt det : Bool) (p : Part α) (fuel : Nat) : List (PTree (Part α)) × Option (PTree (Part α)) × List (XC α) :=
  genRunX isHorizP rowIdsP XC.children XC.isProduct XC.isSum (fun a b => (a : α) / (b : α)) XC.mkSum XC.mkProd
    (buildLeafP useClt det) fuel ([Part.number p 0], none, [])

/-- `build_xpc` as extracted: run the extracted loop until the stack is empty (`2·size` iterations are enough, and further
iterations change nothing), return `pc_nodes_stack[0]` (`none` = `IndexError`); `assign_ids` relabels ids only -/
def genBuildXpc (useClt det : Bool) (p : Part α) : Option (XC α) :=
  (genXpcState useClt det p (2 * sizeR (Part.number p 0))).2.2.head?

end E2EXpc
end Deeprob
