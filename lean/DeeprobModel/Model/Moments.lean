import DeeprobModel.Model.Net
/-
A layer for C19 — `deeprob/spn/algorithms/moments.py`.

`moment(root, order)` runs `eval_bottom_up` on the n×n matrix of ones with
  * `leaf_func = leaf_moment`: `m = ones(n); m[node.scope] = node.moment(k=order)` — per variable `v`
    (row `v` of the matrix) a leaf answers its raw moment if `v` is in its scope and `1` otherwise;
  * `node_func = node_likelihood`: `Sum.likelihood` = `np.dot(x, weights)`, `Product.likelihood` = product.
So for every variable the recursion is the evaluation recursion with other leaf values.  No Mathlib here.
-/
namespace Deeprob

section
variable {α : Type} [Zero α] [One α] [Add α] [Mul α]

/-- `x ^ k` by repeated multiplication (runs at any carrier) -/
def powN (x : α) : Nat → α
  | 0 => 1
  | k+1 => x * powN x k

/-- the natural number `n` in the carrier -/
def natC : Nat → α
  | 0 => 0
  | n+1 => natC n + 1

/-- value of variable `v` in a row, as an element of the carrier (`0` if missing) -/
def valC (x : Ev) (v : Nat) : α := match x v with
  | some j => natC j
  | none => 0

/-- raw moment of order `k` of a dense table indexed by value: `Σ_j j^k · tbl[j]`
(`scipy.stats.rv_discrete(values=(categories, probabilities)).moment(k)`; for `[1-p, p]` and `k ≥ 1` this
is `p` = `scipy.stats.bernoulli.moment(k, p)`) -/
def tblMoment (k : Nat) (tbl : List α) : α :=
  sumVar tbl.length (fun j => powN (natC j) k * tbl.getD j 0)

/-- Tree circuits whose leaves also carry their raw-moment functional `mom k v`
(`Leaf.moment(k)`, for the variable `v` of the leaf's scope). -/
inductive MCirc (α : Type) where
  | leaf (scope : List Nat) (f : Ev → α) (mom : Nat → Nat → α)
  | sum  (scope : List Nat) (ws : List α) (cs : List (MCirc α))
  | prod (scope : List Nat) (cs : List (MCirc α))

namespace MCirc

def scope : MCirc α → List Nat
  | leaf s _ _ => s
  | sum s _ _ => s
  | prod s _ => s

/-- forget the moment functionals -/
def toCirc : MCirc α → Circ α
  | leaf s f _ => .leaf s f
  | sum s ws cs => .sum s ws (cs.map toCirc)
  | prod s cs => .prod s (cs.map toCirc)

/-- `moment(root, order=k)[v]` for `k ≥ 1`: `leaf_moment` at the leaves, `node_likelihood` inside. -/
def moment (k v : Nat) : MCirc α → α
  | leaf s _ mom => if s.contains v then mom k v else 1
  | sum _ ws cs => wsum ws (cs.map (moment k v))
  | prod _ cs => lprod (cs.map (moment k v))

/-- table leaf (Bernoulli / Categorical) with its closed-form raw moments -/
def cat (v : Nat) (tbl : List α) : MCirc α :=
  .leaf [v] (Circ.catLeafFn v tbl) (fun k _ => tblMoment k tbl)

/-- `moment(root, order)` as the API returns it: `none` = `ValueError` (negative order); order 0 skips the
computation and returns ones; the result has one entry per variable id `0 .. len(scope)-1`. -/
def momentApi (c : MCirc α) (order : Int) : Option (List α) :=
  if order < 0 then none
  else if order = 0 then some ((List.range c.scope.length).map (fun _ => 1))
  else some ((List.range c.scope.length).map (fun v => moment order.toNat v c))

end MCirc

/-- raw moment a stored leaf reports: tables in closed form, other leaves from the supplied list
(`moms[i]` = `node.moment(k)` of the `i`-th stored node, e.g. the Gaussian / Uniform / histogram value) -/
def LeafP.rawMoment (k : Nat) (supplied : α) : LeafP α → α
  | .cat _ tbl => tblMoment k tbl
  | _ => supplied

def momNode (k v : Nat) (moms : List α) (vals : List α) (x : NNode α) : α :=
  match x.kind with
  | .leaf => if x.scope.contains v then x.leaf.rawMoment k (moms.getD vals.length 0) else 1
  | .sum => wsum x.ws (x.ch.map (fun c => vals.getD c 0))
  | .prod => lprod (x.ch.map (fun c => vals.getD c 0))

/-- `moment(root, order = k)` row `v` on the stored node table, filled children-first like
`eval_bottom_up` does: one value per node. -/
def momentNet (k v : Nat) (moms : List α) (net : Net α) : List α :=
  net.foldl (fun vals x => vals ++ [momNode k v moms vals x]) []

/-- unfolding of stored node `i` into a tree with moment functionals (same shape as `toTree`) -/
def toMTree (net : Net α) (dens : List α) (moms : Nat → List α) : Nat → Nat → MCirc α
  | 0, _ => .leaf [] (fun _ => 0) (fun _ _ => 0)
  | fuel+1, i => match net[i]? with
     | none => .leaf [] (fun _ => 0) (fun _ _ => 0)
     | some x => match x.kind with
        | .leaf => .leaf x.scope (x.leaf.fn x.scope (dens.getD i 0))
                      (fun k _ => x.leaf.rawMoment k ((moms k).getD i 0))
        | .sum => .sum x.scope x.ws (x.ch.map (toMTree net dens moms fuel))
        | .prod => .prod x.scope (x.ch.map (toMTree net dens moms fuel))

end
end Deeprob
