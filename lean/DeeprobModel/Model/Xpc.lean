import DeeprobModel.Model.CltPc
import DeeprobModel.Spec.Validity
/-
XPC structure learner (deeprob/spn/learning/xpc.py: `build_xpc`, `build_leaf`, `build_disjunction`,
`build_trees_dict`, `learn_xpc`, `learn_expc`; deeprob/spn/utils/partitioning.py: `Partition`).

The random partition tree (`generate_random_partitioning`) is an ORACLE: the model takes the tree
`utils['part_root']` as data (`Part`) together with the leaf parameters the code computed (`LeafPar`)
and mirrors what `build_xpc` does with it.  A layer: computable, no Mathlib (runs in the driver at `Rat`).
-/
namespace Deeprob

/-- circuits as `build_xpc` produces them (trees; Python never shares nodes here):
`Bernoulli(scope=[v], p)` with `q0 = pmf(0)`, `q1 = pmf(1)`; `BinaryCLT(scope, tree, params)`;
`Sum`; `Product`. -/
inductive XC (α : Type) where
  | bern (v : Nat) (q0 q1 : α)
  | clt (scope : List Nat) (pred : List Int) (cpt : List (List (List α)))
  | sum (scope : List Nat) (ws : List α) (cs : List (XC α))
  | prod (scope : List Nat) (cs : List (XC α))
deriving Inhabited

namespace XC
variable {α : Type}

def scope : XC α → List Nat
  | bern v _ _ => [v]
  | clt s _ _ => s
  | sum s _ _ => s
  | prod s _ => s

/-- `Product(children=cs)` (node.py): stored scope = concatenation of the child scopes -/
def mkProd (cs : List (XC α)) : XC α := .prod (cs.map scope).flatten cs

/-- `Sum(children=cs, weights=ws)` (node.py): stored scope = `children[0].scope` -/
def mkSum (ws : List α) (cs : List (XC α)) : XC α :=
  .sum (match cs with | [] => [] | c :: _ => scope c) ws cs

mutual
/-- stored scopes of all product nodes (pre-order) -/
def prodScopes : XC α → List (List Nat)
  | bern _ _ _ => []
  | clt _ _ _ => []
  | sum _ _ cs => prodScopesL cs
  | prod s cs => s :: prodScopesL cs
termination_by structural x => x
/-- `(cs.map prodScopes).flatten` (`prodScopesL_eq`), spelled out so that the recursion is structural -/
def prodScopesL : List (XC α) → List (List Nat)
  | [] => []
  | c :: cs => prodScopes c ++ prodScopesL cs
termination_by structural l => l
end

/-- `BinaryCLT.get_scopes()` of one CLT leaf (Model/CltPc.lean: `Clt.getScopes` on the unfolded
predecessor vector); Python raises when there is not exactly one root, the model answers `[]` -/
def cltGetScopes (scope : List Nat) (pred : List Int) : List (List Nat) :=
  match Clt.rootOf pred with
  | some r => Clt.getScopes scope (Clt.build pred pred.length r)
  | none => []

mutual
/-- `get_scopes()` of every CLT leaf of the circuit -/
def cltScopes : XC α → List (List Nat)
  | bern _ _ _ => []
  | clt s p _ => cltGetScopes s p
  | sum _ _ cs => cltScopesL cs
  | prod _ cs => cltScopesL cs
termination_by structural x => x
/-- `(cs.map cltScopes).flatten` (`cltScopesL_eq`) -/
def cltScopesL : List (XC α) → List (List Nat)
  | [] => []
  | c :: cs => cltScopes c ++ cltScopesL cs
termination_by structural l => l
end

/-- the family the structured-decomposability clause of C04 talks about: scopes of all product nodes
together with the scopes implied by the Chow-Liu leaves -/
def sdScopes (x : XC α) : List (List Nat) := prodScopes x ++ cltScopes x

/-- semantics: the tree circuit of Model/Circ.lean (Bernoulli = table leaf, CLT = message passing) -/
def toCirc [Zero α] [One α] [Add α] [Mul α] : XC α → Circ α
  | bern v q0 q1 => Circ.catLeaf v [q0, q1]
  | clt s p c => .leaf s (Clt.value s p c)
  | sum s ws cs => .sum s ws (cs.map toCirc)
  | prod s cs => .prod s (cs.map toCirc)

end XC

/-- oracle values of one leaf partition: what `build_leaf` read from the data slice / fitted.
Only the fields of the branch taken by `build_leaf` are looked at.
* `row0` : first row of the data slice (`data_slice[0]`, conjunction leaf);
* `tbl`  : per column `(pmf 0, pmf 1)` of the `Bernoulli` fitted by `learn_mle`;
* `ws`   : the smoothed weights `(counts + alpha) / Σ` of `build_disjunction`;
* `cltScope, cltPred, cltCpt` : scope, tree and CPTs (linear domain) of the fitted `BinaryCLT`
  (with `trees_dict` the first two are `trees_dict[len(scope)]`). -/
structure LeafPar (α : Type) where
  row0 : List Nat := []
  tbl : List (α × α) := []
  ws : List α := []
  cltScope : List Nat := []
  cltPred : List Int := []
  cltCpt : List (List (List α)) := []
deriving Inhabited

/-- the partition tree `utils['part_root']` (`Partition`: `row_ids`, `col_ids`, `sub_partitions`,
`is_conj`, `is_naive`, `disc_assignments` — `[]` stands for `None`).  `horiz` / `vert` is the answer of
`is_horizontally_partitioned()` (see `Part.ofNode`). -/
inductive Part (α : Type) where
  | leaf (rows cols : List Nat) (isConj isNaive : Bool) (disc : List (List Nat)) (par : LeafPar α)
  | horiz (rows cols : List Nat) (subs : List (Part α))     -- row split ⇒ sum
  | vert (rows cols : List Nat) (subs : List (Part α))      -- column split ⇒ product
deriving Inhabited

namespace Part
variable {α : Type}

def rows : Part α → List Nat
  | leaf r _ _ _ _ _ => r
  | horiz r _ _ => r
  | vert r _ _ => r

def cols : Part α → List Nat
  | leaf _ c _ _ _ _ => c
  | horiz _ c _ => c
  | vert _ c _ => c

def subs : Part α → List (Part α)
  | leaf .. => []
  | horiz _ _ s => s
  | vert _ _ s => s

/-- `Partition.is_horizontally_partitioned`: `len(self.row_ids) > len(self.sub_partitions[0].row_ids)` -/
def isHorizB (rows : List Nat) (subs : List (Part α)) : Bool :=
  match subs with
  | [] => false
  | s :: _ => decide (s.rows.length < rows.length)

/-- an inner partition as `build_xpc` classifies it -/
def ofNode (rows cols : List Nat) (subs : List (Part α)) : Part α :=
  if isHorizB rows subs then .horiz rows cols subs else .vert rows cols subs

end Part

section build
variable {α : Type} [Zero α] [One α]

/-- `Bernoulli(scope=[v], p=float(k))` for `k ∈ {0, 1}` (an indicator) -/
def XC.ind (v k : Nat) : XC α := if k = 0 then .bern v 1 0 else .bern v 0 1

/-- `Product(children=[Bernoulli(scope=[scope[k]], p=float(a[k])) for k in range(len(scope))])` -/
def conjProd (cols a : List Nat) : XC α := XC.mkProd (List.zipWith XC.ind cols a)

/-- `learn_mle(data_slice, [Bernoulli]*n, …, scope, alpha)` (learning/leaf.py): one fitted `Bernoulli`
when `len(scope) == 1`, else `learn_naive_factorization`: `Product(scope)` over one fitted `Bernoulli`
per column -/
def learnMle (cols : List Nat) (tbl : List (α × α)) : XC α :=
  match cols, tbl with
  | [v], [q] => .bern v q.1 q.2
  | _, _ => .prod cols (List.zipWith (fun v (q : α × α) => XC.bern v q.1 q.2) cols tbl)

/-- `build_disjunction(data_slice, scope, assignments, alpha)`: one product of indicators per assignment;
`Sum(children=prod_nodes, weights=weights) if len(prod_nodes) > 1 else prod_nodes[0]`
(Python raises `IndexError` for zero assignments; the model answers an empty sum, excluded by `LeafInv`) -/
def buildDisjunction (cols : List Nat) (assign : List (List Nat)) (ws : List α) : XC α :=
  let prods : List (XC α) := assign.map (conjProd cols)
  if 1 < prods.length then XC.mkSum ws prods else prods.headD (XC.mkSum [] [])

/-- the branch of `build_leaf` that learns the naive factorisation rather than the disjunction:
`not det or part.disc_assignments.shape[0] == 2 ** part.disc_assignments.shape[1]` -/
def mleBranch (det : Bool) (disc : List (List Nat)) : Bool :=
  !det || disc.length == 2 ^ (disc.headD []).length

/-- `build_leaf(data, part, use_clt, trees_dict, det, alpha)`.  (`part.disc_assignments is None` together
with `det` and `not use_clt` makes Python raise `AttributeError`; the model then builds the empty
disjunction, excluded by `LeafInv`.) -/
def buildLeaf (useClt det : Bool) (cols : List Nat) (isConj isNaive : Bool) (disc : List (List Nat))
    (par : LeafPar α) : XC α :=
  if isConj then conjProd cols par.row0
  else if isNaive || !useClt then
    if mleBranch det disc then learnMle cols par.tbl
    else buildDisjunction cols disc par.ws
  else .clt par.cltScope par.cltPred par.cltCpt

/-- the children a product node of `build_xpc` takes over from a child `c`:
`c.children if isinstance(c, Product) or (isinstance(c, Sum) and len(c.children) == 1) else [c]` -/
def flattenChild : XC α → List (XC α)
  | .prod _ cs => cs
  | .sum s ws cs => if cs.length = 1 then cs else [.sum s ws cs]
  | c => [c]

variable [Div α] [NatCast α]

mutual
/-- **`build_xpc`** — the post-order stack walk is structural recursion on the partition tree: the
circuits of the sub-partitions come back in `sub_partitions` order; a horizontal split becomes
`Sum(weights=[len(sub.row_ids) / len(part.row_ids) …])` (no smoothing), a vertical split a `Product`
over the (one level) flattened children. -/
def buildXpc (useClt det : Bool) : Part α → XC α
  | .leaf _ cols isConj isNaive disc par => buildLeaf useClt det cols isConj isNaive disc par
  | .horiz rows _ subs =>
      XC.mkSum (subs.map (fun s => (s.rows.length : α) / (rows.length : α))) (buildXpcL useClt det subs)
  | .vert _ _ subs => XC.mkProd ((buildXpcL useClt det subs).flatMap flattenChild)
termination_by structural p => p
/-- `subs.map (buildXpc useClt det)` (`buildXpcL_eq`): the circuits of the sub-partitions, in
`sub_partitions` order -/
def buildXpcL (useClt det : Bool) : List (Part α) → List (XC α)
  | [] => []
  | s :: ss => buildXpc useClt det s :: buildXpcL useClt det ss
termination_by structural l => l
end

/-- `learn_expc`, the root: `Sum(weights=np.full(ensemble_dim, 1 / ensemble_dim), children=xpc_l)` -/
def buildExpc (useClt det : Bool) (parts : List (Part α)) : XC α :=
  XC.mkSum (parts.map (fun _ => (1 : α) / (parts.length : α))) (parts.map (buildXpc useClt det))

end build

/-! ### the input invariant -/

section inv
variable {α : Type}

/-- what `build_leaf` needs from the oracle values of a leaf so that Python does not raise and the
shapes fit (branch by branch, same cascade as `buildLeaf`) -/
def LeafInv (useClt det : Bool) (cols : List Nat) (isConj isNaive : Bool) (disc : List (List Nat))
    (par : LeafPar α) : Prop :=
  if isConj then par.row0.length = cols.length
  else if isNaive || !useClt then
    if mleBranch det disc then par.tbl.length = cols.length
    else disc ≠ [] ∧ (∀ a ∈ disc, a.length = cols.length) ∧ (1 < disc.length → par.ws.length = disc.length)
  else Clt.isTree par.cltPred = true ∧ par.cltScope.length = par.cltPred.length ∧ par.cltScope.Nodup ∧
    scopeEq par.cltScope cols

/-- **`PartInv`** — the shape `generate_random_partitioning` guarantees.
* every partition: rows and columns non-empty and duplicate-free;
* horizontal split: at least one sub-partition, sub-row-sets non-empty, pairwise disjoint with union
  `rows` (their concatenation is a permutation of `rows`), same column set;
* vertical split: the sub-column-sets partition the columns (concatenation is a permutation of `cols`),
  same rows;
* leaf: `LeafInv`. -/
def PartInv (useClt det : Bool) : Part α → Prop
  | .leaf rows cols isConj isNaive disc par =>
      rows ≠ [] ∧ rows.Nodup ∧ cols ≠ [] ∧ cols.Nodup ∧ LeafInv useClt det cols isConj isNaive disc par
  | .horiz rows cols subs =>
      rows ≠ [] ∧ rows.Nodup ∧ cols ≠ [] ∧ cols.Nodup ∧ subs ≠ [] ∧
      (subs.map Part.rows).flatten.Perm rows ∧
      ∀ s ∈ subs, s.rows ≠ [] ∧ scopeEq s.cols cols ∧ PartInv useClt det s
  | .vert rows cols subs =>
      rows ≠ [] ∧ rows.Nodup ∧ cols ≠ [] ∧ cols.Nodup ∧
      (subs.map Part.cols).flatten.Perm cols ∧
      ∀ s ∈ subs, s.rows.Perm rows ∧ PartInv useClt det s

/-- Boolean set equality of two lists -/
def sameSetB (a b : List Nat) : Bool := a.all (fun v => b.contains v) && b.all (fun v => a.contains v)

def nodupB (l : List Nat) : Bool :=
  match l with
  | [] => true
  | x :: xs => !xs.contains x && nodupB xs

def leafInvB (useClt det : Bool) (cols : List Nat) (isConj isNaive : Bool) (disc : List (List Nat))
    (par : LeafPar α) : Bool :=
  if isConj then par.row0.length == cols.length
  else if isNaive || !useClt then
    if mleBranch det disc then par.tbl.length == cols.length
    else !disc.isEmpty && disc.all (fun a => a.length == cols.length) &&
      (!decide (1 < disc.length) || par.ws.length == disc.length)
  else Clt.isTree par.cltPred && par.cltScope.length == par.cltPred.length && nodupB par.cltScope &&
    sameSetB par.cltScope cols

mutual
/-- the decision procedure for `PartInv` the driver runs (`partInvB_iff` in Lemmas/XpcLemmas.lean) -/
def partInvB (useClt det : Bool) : Part α → Bool
  | .leaf rows cols isConj isNaive disc par =>
      !rows.isEmpty && nodupB rows && !cols.isEmpty && nodupB cols &&
      leafInvB useClt det cols isConj isNaive disc par
  | .horiz rows cols subs =>
      !rows.isEmpty && nodupB rows && !cols.isEmpty && nodupB cols && !subs.isEmpty &&
      (subs.map Part.rows).flatten.isPerm rows &&
      subs.all (fun s => !s.rows.isEmpty && sameSetB s.cols cols) &&
      partInvBL useClt det subs
  | .vert rows cols subs =>
      !rows.isEmpty && nodupB rows && !cols.isEmpty && nodupB cols &&
      (subs.map Part.cols).flatten.isPerm cols &&
      subs.all (fun s => s.rows.isPerm rows) && partInvBL useClt det subs
termination_by structural p => p
/-- `subs.all (partInvB useClt det)` (`partInvBL_iff`) -/
def partInvBL (useClt det : Bool) : List (Part α) → Bool
  | [] => true
  | s :: ss => partInvB useClt det s && partInvBL useClt det ss
termination_by structural l => l
end

end inv

/-! ### structured decomposability: `build_trees_dict` -/

namespace Xpc

/-- `[t + len(scope) if t != ROOT else t for t in trees[k]]` -/
def shiftPred (off : Nat) (t : List Int) : List Int := t.map (fun x => if x = -1 then x else x + (off : Int))

/-- `tree.index(ROOT, start)` (`tree.length` when absent — Python raises) -/
def rootIdxFrom (tree : List Int) (start : Nat) : Nat := start + (tree.drop start).idxOf (-1)

/-- one round of the concatenation loop of `build_trees_dict`:
`tree += shifted trees[k]; tree[tree.index(ROOT)] = tree.index(ROOT, len(scope)); scope += scopes[k]` -/
def concatStep (acc : List Int × List Nat) (tk : List Int) (sk : List Nat) : List Int × List Nat :=
  let tree := acc.1 ++ shiftPred acc.2.length tk
  (tree.set (rootIdxFrom tree 0) ((rootIdxFrom tree acc.2.length : Nat) : Int), acc.2 ++ sk)

/-- the loop, over the blocks in ACCUMULATION order (`trees[-1], trees[-2], …, trees[0]`): the entries
`tree_dict[len(scope)] = [tree, scope]` in the order Python stores them (the last accumulator, which
covers all variables, is not stored) -/
def dictLoop (acc : List Int × List Nat) : List (List Int × List Nat) → List (List Int × List Nat)
  | [] => []
  | (tk, sk) :: rest => acc :: dictLoop (concatStep acc tk sk) rest

/-- **`build_trees_dict`** after the spanning trees have been computed (`trees[k]` = predecessor vector of
the maximum spanning tree over `scopes[k]`, an ORACLE), `scopes = conj_vars_l + [free_vars]`:
the list of stored `(tree, scope)` pairs; the dictionary key is `len(scope)`. -/
def treesDict (trees : List (List Int)) (scopes : List (List Nat)) : List (List Int × List Nat) :=
  match (trees.zip scopes).reverse with
  | [] => []
  | b :: rest => dictLoop b rest

/-- `trees_dict[n]` (a later store overwrites an earlier one with the same key; `none` = `KeyError`) -/
def dictLookup (d : List (List Int × List Nat)) (n : Nat) : Option (List Int × List Nat) :=
  d.reverse.find? (fun e => e.2.length == n)

/-! ### the sd discipline (`sd = True`: `uncond_vars` is never shuffled, so the conjunction variables are
taken from the fixed ordering block by block)

`scopes = conj_vars_l + [free_vars]` (Python order, `free_vars` only when non-empty), `trees[k]` the
spanning tree over `scopes[k]`.  A partition at DEPTH `d` (below `d` horizontal splits) has the columns
`C d = scopes[d] ∪ scopes[d+1] ∪ …`; its vertical split separates the block `scopes[d]` (conjunction /
naive / disjunction leaf) from a partition at depth `d + 1`; a Chow-Liu leaf at depth `d` takes tree and
scope from `trees_dict[len(cols)]`. -/

/-- the columns of a partition at depth `d` -/
def colsAt (scopes : List (List Nat)) (d : Nat) : List Nat := (scopes.drop d).flatten

/-- the blocks are non-empty, pairwise disjoint, and every `trees[k]` is a rooted tree over `scopes[k]` -/
def blocksOkB (trees : List (List Int)) (scopes : List (List Nat)) : Bool :=
  trees.length == scopes.length && nodupB scopes.flatten &&
  (trees.zip scopes).all (fun e => Clt.isTree e.1 && e.1.length == e.2.length)

/-- does `build_leaf` take its last branch (a `BinaryCLT`) for this leaf? -/
def isCltLeaf (useClt isConj isNaive : Bool) : Bool := !isConj && !(isNaive || !useClt)

variable {α : Type}

/-- the leaf that a vertical split puts first: `Partition(col_ids=cond_vars, is_naive=True, is_conj=…)` -/
def blockLeafB (block : List Nat) : Part α → Bool
  | .leaf _ cols isConj isNaive _ _ => sameSetB cols block && (isConj || isNaive)
  | _ => false

mutual
/-- **the sd discipline**, decided on the exported tree: `sdAtB … d p` = "`p` is a partition at depth `d`" -/
def sdAtB (useClt : Bool) (dict : List (List Int × List Nat)) (scopes : List (List Nat)) :
    Part α → Nat → Bool
  | .leaf _ cols isConj isNaive _ par, d =>
      sameSetB cols (colsAt scopes d) &&
      (!isCltLeaf useClt isConj isNaive || dictLookup dict cols.length == some (par.cltPred, par.cltScope))
  | .horiz _ cols subs, d => sameSetB cols (colsAt scopes d) && sdAllB useClt dict scopes subs d
  | .vert _ cols subs, d => sameSetB cols (colsAt scopes d) && sdVertB useClt dict scopes subs d
termination_by structural p => p
/-- every sub-partition of a horizontal split is at the same depth -/
def sdAllB (useClt : Bool) (dict : List (List Int × List Nat)) (scopes : List (List Nat)) :
    List (Part α) → Nat → Bool
  | [], _ => true
  | s :: ss, d => sdAtB useClt dict scopes s d && sdAllB useClt dict scopes ss d
termination_by structural l => l
/-- a vertical split: `[a]` (all rows satisfied one assignment: a single sub-partition with the same
rows and columns) or `[block leaf, partition one level deeper]` -/
def sdVertB (useClt : Bool) (dict : List (List Int × List Nat)) (scopes : List (List Nat)) :
    List (Part α) → Nat → Bool
  | [], _ => false
  | a :: rest, d =>
    match rest with
    | [] => sdAtB useClt dict scopes a d
    | b :: rest' =>
      match rest' with
      | [] => blockLeafB (scopes.getD d []) a && sdAtB useClt dict scopes b (d + 1)
      | _ :: _ => false
termination_by structural l => l
end

def sdInvB (useClt : Bool) (trees : List (List Int)) (scopes : List (List Nat)) (p : Part α) : Bool :=
  sdAtB useClt (treesDict trees scopes) scopes p 0

end Xpc
end Deeprob
