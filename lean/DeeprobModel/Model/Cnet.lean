import DeeprobModel.Model.Net
/-
A layer for C18 — `deeprob/spn/structure/cnet.py` (`BinaryCNet`).

An OR tree: an inner node cuts on the binary variable `or_id` (`v`), has weights `[w0, w1]` and two children
over the scope with `v` removed; a node with a fitted `clt` is a leaf (its value is the Chow-Liu tree's).
`BinaryCNet.log_likelihood` routes the rows of a batch breadth-first through the tree with a queue of
(node, row indices): rows whose cut value is 0 go left and get `log w0` added, rows whose cut value is 1 go right
and get `log w1`; at a leaf the CLT's log-likelihood of the remaining columns is added. Linear domain here
(products instead of sums of logs). No Mathlib.
-/
namespace Deeprob

inductive CNet (α : Type) where
  | leaf (scope : List Nat) (f : Ev → α)
  | or (scope : List Nat) (v : Nat) (w0 w1 : α) (c0 c1 : CNet α)

namespace CNet
variable {α : Type}

def scope : CNet α → List Nat
  | leaf s _ => s
  | or s _ _ _ _ _ => s

def size : CNet α → Nat
  | leaf _ _ => 1
  | or _ _ _ _ c0 c1 => 1 + size c0 + size c1

end CNet

section
variable {α : Type} [Zero α] [One α] [Add α] [Mul α]

/-- recursive semantics: product of the branch weights selected by the row at the cut variables, times the value
of the leaf reached. A row whose cut value is neither 0 nor 1 (or missing) is routed to no child by the code and
receives no further factor: value 1 from there on (outside what the property speaks about: complete binary rows). -/
def cnetEval (x : Ev) : CNet α → α
  | .leaf _ f => f x
  | .or _ v w0 w1 c0 c1 => match x v with
      | some 0 => w0 * cnetEval x c0
      | some 1 => w1 * cnetEval x c1
      | _ => 1

/-- `log_likes[idxs] += g` in the linear domain -/
def mulAt (acc : List α) (idxs : List Nat) (g : Nat → α) : List α :=
  acc.zipIdx.map (fun ar => if idxs.contains ar.2 then ar.1 * g ar.2 else ar.1)

/-- the queue loop of `BinaryCNet.log_likelihood`: `rows r` is row `r` of the batch; the queue holds
(node, `row_indices`); `acc` is `exp(log_likes)`. `fuel` bounds the number of `pop(0)`s. -/
def cnetRun (rows : Nat → Ev) : Nat → List (CNet α × List Nat) → List α → List α
  | 0, _, acc => acc
  | _, [], acc => acc
  | fuel+1, (node, idxs) :: q, acc => match node with
    | .leaf _ f => cnetRun rows fuel q (mulAt acc idxs (fun r => f (rows r)))
    | .or _ v w0 w1 c0 c1 =>
      let l := idxs.filter (fun r => rows r v == some 0)
      let rr := idxs.filter (fun r => rows r v == some 1)
      cnetRun rows fuel (q ++ [(c0, l), (c1, rr)]) (mulAt (mulAt acc l (fun _ => w0)) rr (fun _ => w1))

/-- `BinaryCNet.likelihood(x)` for a batch of `n` rows -/
def cnetBatch (rows : Nat → Ev) (n : Nat) (c : CNet α) : List α :=
  cnetRun rows c.size [(c, List.range n)] (List.replicate n 1)

end

section
variable {α : Type} [Zero α] [One α] [Add α] [Mul α] [DecidableEq α] [LT α] [DecidableLT α]

/-- Boolean validator of the OR-tree structure a learner returns: at every OR node the scope is duplicate-free,
the cut variable belongs to it and is binary, both children are over exactly the scope without the cut variable,
and the weights are `(w, 1 − w)` with `0 < w < 1` (stated as `w0 + w1 = 1`, both positive). -/
def cnetWellFormedB (dom : Nat → Nat) : CNet α → Bool
  | .leaf _ _ => true
  | .or s v w0 w1 c0 c1 =>
      Net.nodupB s && s.contains v && (dom v == 2) &&
      (c0.scope == s.erase v) && (c1.scope == s.erase v) &&
      decide (w0 + w1 = 1) && decide (0 < w0) && decide (0 < w1) &&
      cnetWellFormedB dom c0 && cnetWellFormedB dom c1

end
end Deeprob
