/-
A layer — the univariate leaf families of `deeprob/spn/structure/leaf.py`, exactly (no floats):
`Isotonic` (a histogram realised with `scipy.stats.rv_histogram`), `Uniform`, `Bernoulli`, `Categorical`.
No Mathlib import: executed by the driver at `α = Rat` (`Driver/OpsLeafQ.lean`), proved at an ordered field /
at `ℝ` in `Lemmas/LeafLemmas.lean`, `Lemmas/LeafIntegral.lean`, `Props/LeafTheory.lean`.

What the code does (scipy 1.18 `_continuous_distns.py`, class `rv_histogram`; `Isotonic.__init__` / `fit` call
`ss.rv_histogram(histogram=(densities, breaks))`, i.e. `density=None`):

    self._hbin_widths = self._hbins[1:] - self._hbins[:-1]
    bins_vary = not np.allclose(self._hbin_widths, self._hbin_widths[0])
    if density is None and bins_vary:   warn; density = True          -- numbers are HEIGHTS
    elif not density:                   self._hpdf = self._hpdf / self._hbin_widths   -- numbers are COUNTS
    self._hpdf = self._hpdf / float(np.sum(self._hpdf * self._hbin_widths))           -- Z = Σ hᵢ·wᵢ
    self._hcdf = np.cumsum(self._hpdf * self._hbin_widths)
    self._hpdf = np.hstack([0.0, self._hpdf, 0.0]);  self._hcdf = np.hstack([0.0, self._hcdf])
    _pdf(x) = self._hpdf[np.searchsorted(self._hbins, x, side='right')]       -- bins are [bᵢ, bᵢ₊₁)
    _cdf(x) = np.interp(x, self._hbins, self._hcdf)
    _ppf(u) = np.interp(u, self._hcdf, self._hbins)
    _munp(n) = np.sum(self._hpdf[1:-1] * (self._hbins[1:]**(n+1) - self._hbins[:-1]**(n+1)) / (n+1))

So with the default `density=None` the `densities` parameter is read as HEIGHTS when the bin widths vary (beyond
`np.allclose`, `rtol = 1e-5`, `atol = 1e-8`) and as COUNTS (divided by the widths) when they do not; in both cases
the result is renormalised by `Z = Σ hᵢ·wᵢ`. For exactly equal widths the two readings coincide. The constructor's
requirement `sum(densities) ≈ 1` is irrelevant for the realised distribution.
-/
namespace Deeprob.LeafTheory

section Hist
variable {α : Type} [Zero α] [One α] [Add α] [Sub α] [Mul α] [Div α] [LT α] [DecidableLT α]

/-- `_hbins[1:] - _hbins[:-1]` -/
def widths : List α → List α
  | lo :: hi :: bs => (hi - lo) :: widths (hi :: bs)
  | _ => []

/-- absolute value from `<` and `0 - x` only -/
def absC (x : α) : α := if x < 0 then 0 - x else x

/-- `not np.allclose(w, w[0])`: some `|wᵢ − w₀| > atol + rtol·|w₀|` (NumPy defaults `rtol = 1e-5`, `atol = 1e-8`
are passed by the caller) -/
def binsVary (atol rtol : α) : List α → Bool
  | [] => false
  | w0 :: ws => (w0 :: ws).any (fun w => decide (atol + rtol * absC w0 < absC (w - w0)))

/-- the heights `rv_histogram` works with under `density=None`: the numbers themselves when the widths vary,
the numbers divided by the widths otherwise -/
def isoHeights (atol rtol : α) (d b : List α) : List α :=
  if binsVary atol rtol (widths b) then d else List.zipWith (fun x w => x / w) d (widths b)

/-- `Z = np.sum(_hpdf * _hbin_widths)` = Σ hᵢ·(bᵢ₊₁ − bᵢ) -/
def histZ : List α → List α → α
  | h :: hs, lo :: hi :: bs => h * (hi - lo) + histZ hs (hi :: bs)
  | _, _ => 0

/-- the un-normalised height at `x` for `b₀ ≤ x`: `searchsorted(side='right')` puts `x = bᵢ` into the bin to its
RIGHT (bins are `[bᵢ, bᵢ₊₁)`); beyond the last break the padding `0` -/
def histRaw (x : α) : List α → List α → α
  | h :: hs, _ :: hi :: bs => if x < hi then h else histRaw x hs (hi :: bs)
  | _, _ => 0

/-- `rv_histogram.pdf(x)` on the whole line -/
def histPdf (hs b : List α) (x : α) : α :=
  match b with
  | [] => 0
  | b0 :: _ => if x < b0 then 0 else histRaw x hs b / histZ hs b

/-- last break (`distribution.b`) -/
def lastB : α → List α → α
  | lo, [] => lo
  | _, hi :: bs => lastB hi bs

/-- `Isotonic.likelihood`: `x ≤ a` or `x ≥ b` (both END POINTS included) answers the out-of-support constant
`ood` (`np.finfo(np.float32).eps` after fix F1), everything else `distribution.pdf(x)` -/
def isoLik (ood : α) (hs b : List α) (x : α) : α :=
  match b with
  | [] => ood
  | b0 :: bs => if b0 < x ∧ x < lastB b0 bs then histPdf hs b x else ood

/-- `zip(_hbins[1:], _hcdf[1:])` with `_hcdf = cumsum(_hpdf/Z * widths)` (sequential accumulation from `acc`) -/
def histKnots (z : α) : α → List α → List α → List (α × α)
  | acc, h :: hs, lo :: hi :: bs =>
      (hi, acc + h / z * (hi - lo)) :: histKnots z (acc + h / z * (hi - lo)) hs (hi :: bs)
  | _, _, _ => []

/-- inner loop of `numpy.interp` (`compiled_base.c`, `arr_interp`) once `xj ≤ x` is known: advance while the next
knot is `≤ x` (for sorted knots: `j` = last index with `xp[j] ≤ x`, what `binary_search_with_guess` returns), then
`slope·(x − xp[j]) + fp[j]` with `slope = (fp[j+1] − fp[j]) / (xp[j+1] − xp[j])`; at the last knot `fp[j]`.
(The code's extra branch `xp[j] == x → fp[j]` returns the same value: `slope·0 + fp[j]`.) -/
def interpAux (x : α) : α → α → List (α × α) → α
  | _, fj, [] => fj
  | xj, fj, (xk, fk) :: rest =>
      if x < xk then (fk - fj) / (xk - xj) * (x - xj) + fj else interpAux x xk fk rest

/-- `numpy.interp(x, xp, fp)` on the zipped knots; `left = fp[0]`, `right = fp[-1]` -/
def interp (x : α) : List (α × α) → α
  | [] => 0
  | (x0, f0) :: rest => if x < x0 then f0 else interpAux x x0 f0 rest

/-- all knots `zip(_hbins, _hcdf)` -/
def cdfKnots (hs b : List α) : List (α × α) :=
  match b with
  | [] => []
  | b0 :: _ => (b0, 0) :: histKnots (histZ hs b) 0 hs b

/-- `rv_histogram._cdf(x) = np.interp(x, _hbins, _hcdf)` -/
def histCdf (hs b : List α) (x : α) : α := interp x (cdfKnots hs b)

/-- `rv_histogram._ppf(u) = np.interp(u, _hcdf, _hbins)` -/
def histPpf (hs b : List α) (u : α) : α := interp u ((cdfKnots hs b).map Prod.swap)

/-- `rv_continuous.cdf`: `x ≥ b ⇒ 1`, `a < x < b ⇒ _cdf(x)`, otherwise `0` -/
def isoCdf (hs b : List α) (x : α) : α :=
  match b with
  | [] => 0
  | b0 :: bs => if b0 < x then (if x < lastB b0 bs then histCdf hs b x else 1) else 0

/-- `rv_continuous.ppf`: `q = 0 ⇒ a`, `q = 1 ⇒ b`, `0 < q < 1 ⇒ _ppf(q)`, otherwise NaN (`bad`).
`Isotonic.sample` is `distribution.ppf(np.random.rand(n))`. -/
def isoPpf (bad : α) (hs b : List α) (u : α) : α :=
  match b with
  | [] => bad
  | b0 :: bs =>
    if 0 < u ∧ u < 1 then histPpf hs b u
    else if u < 0 then bad else if 1 < u then bad
    else if u < 1 then b0 else lastB b0 bs

/-- closed form of the un-normalised cdf for `b₀ ≤ x`: Σ over the bins left of `x` of `hᵢ·wᵢ`, plus the part of
the bin containing `x` -/
def histCdfRaw (x : α) : List α → List α → α
  | h :: hs, lo :: hi :: bs => if x < hi then h * (x - lo) else h * (hi - lo) + histCdfRaw x hs (hi :: bs)
  | _, _ => 0

/-- Σ hᵢ·I(bᵢ, min(x, bᵢ₊₁)) over the bins that start left of `x` (`I a b` stands for `∫_a^b g`) -/
def histInt (I : α → α → α) (x : α) : List α → List α → α
  | h :: hs, lo :: hi :: bs => if x < hi then h * I lo x else h * I lo hi + histInt I x hs (hi :: bs)
  | _, _ => 0

/-- index of the first maximal entry (`np.argmax`) -/
def argmaxAux : Nat → α → Nat → List α → Nat
  | bi, _, _, [] => bi
  | bi, bv, i, x :: xs => if bv < x then argmaxAux i x (i + 1) xs else argmaxAux bi bv (i + 1) xs

def argmaxFirst : List α → Nat
  | [] => 0
  | x :: xs => argmaxAux 0 x 1 xs

/-- `Isotonic.mpe`: `idx = np.argmax(self.densities)` — of the PARAMETER `densities`, first maximal — and the
midpoint `(breaks[idx] + breaks[idx+1]) / 2.0` of that bin -/
def isoMode (d b : List α) : α :=
  let i := argmaxFirst d
  (b.getD i 0 + b.getD (i + 1) 0) / (1 + 1)

end Hist

section Moments
variable {α : Type} [Zero α] [One α] [Add α] [Sub α] [Mul α] [Div α] [NatCast α] [Pow α Nat]

/-- `_munp(k)` with normalising constant `z`: Σ (hᵢ/z)·(bᵢ₊₁^{k+1} − bᵢ^{k+1})/(k+1) -/
def histMomentZ (z : α) (k : Nat) : List α → List α → α
  | h :: hs, lo :: hi :: bs =>
      h / z * ((hi ^ (k + 1) - lo ^ (k + 1)) / ((k + 1 : Nat) : α)) + histMomentZ z k hs (hi :: bs)
  | _, _ => 0

end Moments

section Moments2
variable {α : Type} [Zero α] [One α] [Add α] [Sub α] [Mul α] [Div α] [NatCast α] [Pow α Nat] [LT α] [DecidableLT α]

/-- `rv_histogram._munp(k)` -/
def histMoment (k : Nat) (hs b : List α) : α := histMomentZ (histZ hs b) k hs b

/-- `Isotonic.moment(k)` = `rv_continuous.moment`: order 0 answers `1.0` without looking at the histogram,
orders ≥ 1 go to `_munp` (`_stats` gives nothing for `rv_histogram`) -/
def isoMoment (k : Nat) (hs b : List α) : α := if k = 0 then 1 else histMoment k hs b

/-! ### Uniform(start, width) — `ss.uniform(loc=start, scale=width)` -/

/-- `ss.uniform.pdf(x, start, width)`: `1/width` on the CLOSED interval `[start, start+width]`, `0` outside -/
def uniPdf (s w x : α) : α := if x < s then 0 else if s + w < x then 0 else 1 / w

/-- `ss.uniform.cdf`: `(x − start)/width` clamped to `[0, 1]` -/
def uniCdf (s w x : α) : α := if x < s then 0 else if s + w < x then 1 else (x - s) / w

/-- `ss.uniform.ppf(u) = start + width·u` (`Uniform.sample` = `ss.uniform.rvs` = `start + width·U`) -/
def uniPpf (s w u : α) : α := s + w * u

/-- raw moment of order `k`: `((s+w)^{k+1} − s^{k+1}) / ((k+1)·w)`, written as the one-bin histogram -/
def uniMoment (s w : α) (k : Nat) : α := if k = 0 then 1 else histMoment k [1] [s, s + w]

/-- `Uniform.mpe` fills the LEFT EDGE `start` (known finding F17), as coded -/
def uniMode (s _w : α) : α := s

end Moments2

section Discrete
variable {α : Type} [Zero α] [One α] [Add α] [Sub α] [Mul α] [Div α] [LT α] [DecidableLT α]

/-- `ss.bernoulli.pmf(x, p)` on integers -/
def bernPmf (p : α) (x : Int) : α := if x = 1 then p else if x = 0 then 1 - p else 0

/-- `ss.bernoulli.cdf` -/
def bernCdf (p : α) (x : Int) : α := if x < 0 then 0 else if x < 1 then 1 - p else 1

/-- `ss.bernoulli.moment(k, p)`: 1 for `k = 0`, `p` for every `k ≥ 1` -/
def bernMoment (p : α) (k : Nat) : α := if k = 0 then 1 else p

/-- `Bernoulli.mpe`: `0 if self.p < 0.5 else 1` (tie towards 1) -/
def bernMode (p : α) : Int := if p < 1 / (1 + 1) then 0 else 1

/-- `rv_discrete(values=(categories, probabilities)).pmf(x)`: the probability listed with the category VALUE `x`
(scipy sorts by category and rejects repeated categories, so "first match" is "the match") -/
def catPmf : List Int → List α → Int → α
  | c :: cs, p :: ps, x => if x = c then p else catPmf cs ps x
  | _, _, _ => 0

/-- `rv_discrete.cdf(x)` = Σ_{c ≤ x} p_c -/
def catCdf : List Int → List α → Int → α
  | c :: cs, p :: ps, x => (if c ≤ x then p else 0) + catCdf cs ps x
  | _, _, _ => 0

/-- `Categorical.mpe`: `self.categories[self.probabilities.argmax()]` — the CATEGORY (not the index) listed at
the first maximal probability, in the order the leaf stores them -/
def catMode (cats : List Int) (ps : List α) : Int := cats.getD (argmaxFirst ps) 0

/-- the dense table indexed by VALUE `0 .. n-1` that the circuit theory (`Circ.catLeaf`) and the exporter
`harness/spn.py leaf_entry` use for a Categorical leaf with non-negative categories: entry `j` is `pmf(j)` -/
def denseTbl (cats : List Int) (ps : List α) (n : Nat) : List α :=
  (List.range n).map (fun j => catPmf cats ps (Int.ofNat j))

end Discrete

section DiscreteMoments
variable {α : Type} [Zero α] [Add α] [Mul α] [IntCast α] [Pow α Nat]

/-- `rv_discrete.moment(k)` = Σ_c c^k · p_c, over category VALUES -/
def catMoment (k : Nat) : List Int → List α → α
  | c :: cs, p :: ps => ((c : Int) : α) ^ k * p + catMoment k cs ps
  | _, _ => 0

/-- the mutant that uses the INDEX instead of the category value -/
def idxMoment (k : Nat) (i : Nat) : List α → α
  | p :: ps => (((i : Nat) : Int) : α) ^ k * p + idxMoment k (i + 1) ps
  | [] => 0

end DiscreteMoments

/-! ### input validation and `Rat`-only helpers for the driver -/

/-- breaks strictly increasing (decidable form) -/
def incrB : List Rat → Bool
  | lo :: hi :: bs => decide (lo < hi) && incrB (hi :: bs)
  | _ => true

/-- `x.astype(np.int64)`: truncation towards zero (`Categorical.likelihood` casts its input) -/
def truncZ (q : Rat) : Int := Int.tdiv q.num (q.den : Int)

/-- NumPy's `allclose` defaults -/
def atolDefault : Rat := 1 / 100000000
def rtolDefault : Rat := 1 / 100000

/-- `np.finfo(np.float32).eps = 2⁻²³` -/
def oodDefault : Rat := 1 / 8388608

/-- `Isotonic` as coded, from its parameters -/
def isoHs (d b : List Rat) : List Rat := isoHeights atolDefault rtolDefault d b

end Deeprob.LeafTheory
