/-
The explicit-stack post-order walk of `build_xpc` (deeprob/spn/learning/xpc.py), as coded, for an arbitrary "combine" step.
Same machine as `Model/PostOrder.lean` (`BinaryCLT.to_pc` / `get_scopes`) with the two differences of this loop:

    partitions_stack = [part_root]; last_part_visited = None
    while partitions_stack:
        part = partitions_stack[-1]
        if not part.is_partitioned() or (last_part_visited in part.sub_partitions):
            <taken = buffer[-len(subs):]; buffer = buffer[:len(buffer) - len(subs)]   (partitioned nodes only)>
            buffer.append(combine(part, taken))
            last_part_visited = partitions_stack.pop()
        else:
            partitions_stack.extend(part.sub_partitions[::-1])          # REVERSED: the FIRST child is on top

so the children are finished in `sub_partitions` order and their results arrive on the buffer in that order
(`foldR`: no reversal).  The tree carries a payload at every node (`PTree π`: the partition's own data) and an id: `Partition`
defines no `__eq__`, so `last_part_visited in part.sub_partitions` is OBJECT IDENTITY; the id stands for the object's address,
and the walk is correct for pairwise distinct ids (`Lemmas/PostOrderRLemmas.lean: runR_eq_foldR`, witness `distinct_ids_neededR`).
Lists are in the orientation of the Python lists (top of the stack = LAST element, `append` = at the end).  No Mathlib, no imports.
-/
namespace Deeprob.PostOrder

/-- a tree of objects: identity (`id`), the object's own data (`pay`), its children in order -/
inductive PTree (π : Type) where
  | node (id : Nat) (pay : π) (kids : List (PTree π))

namespace PTree
variable {π : Type}
def id : PTree π → Nat | node i _ _ => i
def pay : PTree π → π | node _ p _ => p
def kids : PTree π → List (PTree π) | node _ _ cs => cs
/-- ids of the sub-tree, root first, pre-order -/
def ids : PTree π → List Nat
  | node i _ cs => i :: (cs.map ids).flatten
end PTree

/-- loop state: `partitions_stack`, `last_part_visited` (its id), the buffer -/
structure StR (π β : Type) where
  stack : List (PTree π)
  last : Option Nat
  buf : List β

/-- `last_part_visited in part.sub_partitions` (identity) -/
def lastInKidsR {π : Type} (last : Option Nat) (cs : List (PTree π)) : Bool :=
  match last with
  | none => false
  | some l => (cs.map PTree.id).contains l

/-- one iteration of `while partitions_stack:` (identity once the stack is empty: the loop has ended) -/
def stepR {π β : Type} (comb : PTree π → List β → β) (s : StR π β) : StR π β :=
  match s.stack.getLast? with
  | none => s
  | some node =>
    let cs := node.kids
    if cs.isEmpty then
      { stack := s.stack.dropLast, last := some node.id, buf := s.buf ++ [comb node []] }
    else if lastInKidsR s.last cs then
      let k := cs.length
      { stack := s.stack.dropLast, last := some node.id,
        buf := s.buf.take (s.buf.length - k) ++ [comb node (s.buf.drop (s.buf.length - k))] }
    else
      { s with stack := s.stack ++ cs.reverse }

/-- `fuel` iterations -/
def runR {π β : Type} (comb : PTree π → List β → β) : Nat → StR π β → StR π β
  | 0, s => s
  | n+1, s => runR comb n (stepR comb s)

/-- what the walk leaves on the buffer for the sub-tree `t`: the children's results arrive in CHILD order
(the children are pushed reversed, so the first child is finished first) -/
def foldR {π β : Type} (comb : PTree π → List β → β) : PTree π → β
  | .node i p cs => comb (.node i p cs) (cs.map (foldR comb))

/-- number of loop iterations the walk spends on the sub-tree `t` -/
def stepsR {π : Type} : PTree π → Nat
  | .node _ _ cs => if cs.isEmpty then 1 else 2 + (cs.map stepsR).sum

/-- number of nodes -/
def sizeR {π : Type} : PTree π → Nat
  | .node _ _ cs => 1 + (cs.map sizeR).sum

/-- the whole loop, from `([root], None, [])` -/
def walkR {π β : Type} (comb : PTree π → List β → β) (root : PTree π) : StR π β :=
  runR comb (2 * sizeR root) { stack := [root], last := none, buf := [] }

end Deeprob.PostOrder
