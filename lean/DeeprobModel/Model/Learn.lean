/-
LearnSPN as a work-queue machine (A layer, computable, no Mathlib).

Mirrors `learn_spn` in /repo/deeprob/spn/learning/learnspn.py (the `while tasks:` loop over a
`collections.deque` of `Task`s), `split_rows_clusters` (/repo/deeprob/spn/learning/splitting/rows.py),
`split_cols_clusters` (/repo/deeprob/spn/learning/splitting/cols.py), `learn_naive_factorization`
(/repo/deeprob/spn/learning/leaf.py) and `learn_classifier` (/repo/deeprob/spn/learning/wrappers.py).

Everything that depends on the *values* of the data is an ORACLE answer, supplied as a script that
is consumed in the order in which the code consults the data:
  * `Ans.zeroVar pos` — for the task just popped, the positions (inside the task's scope) of the columns
    whose variance `np.isclose(np.var(task.data, axis=0), 0.0)` reports as zero;
  * `Ans.rows labels` — the array returned by `split_rows_func(task.data, …)`, one label per row;
  * `Ans.cols labels` — the array returned by `split_cols_func(task.data, …)`, one label per column.
Data slices are represented by the list of ROW IDS and the list of COLUMN IDS (= scope) they consist of;
leaf learning is abstract: a leaf records exactly the rows and the scope it was fitted on.
-/
namespace Deeprob.Learn

/-- `class Task(NamedTuple)`; `data` is represented by `rows` (row ids, in data order) × `scope`. -/
structure Task where
  parent : Nat
  rows : List Nat
  scope : List Nat
  noColsSplit : Bool := false
  noRowsSplit : Bool := false
  isFirst : Bool := false
deriving Repr, DecidableEq, Inhabited

/-- node kinds of the growing structure. `naive` is the result of `learn_naive_factorization(data, scope)`:
a `Product(scope)` whose children are the univariate leaves `learn_leaf(data[:, [i]], [scope[i]])`
(expanded by `toTree`). -/
inductive Kind where
  | sum | prod | leaf | naive
deriving Repr, DecidableEq, Inhabited

/-- a cell of the node table. `weights` are kept as exact pairs `(|slice|, |rows|)` (Python stores the
float `len(local_data) / n_samples`). `parts` is a ghost field fixed at creation: for a sum the row
slices in label order, for a product the scope slices in label order. -/
structure Node where
  kind : Kind
  scope : List Nat
  rows : List Nat
  children : List Nat := []
  weights : List (Nat × Nat) := []
  parts : List (List Nat) := []
deriving Repr, DecidableEq, Inhabited

/-- one oracle consultation -/
inductive Ans where
  | zeroVar (pos : List Nat)
  | rows (labels : List Int)
  | cols (labels : List Int)
deriving Repr, DecidableEq, Inhabited

/-- hyper-parameters; `front = true` is the repaired re-queue (`tasks.appendleft`), `front = false` the
pinned one (`tasks.append`). -/
structure Cfg where
  minRows : Nat
  minCols : Nat
  front : Bool
deriving Repr, DecidableEq, Inhabited

/-- machine state: node table (index = creation order, index 0 is `tmp_node`), the deque (head = left
end), and the rest of the oracle script. -/
structure St where
  nodes : List Node
  queue : List Task
  script : List Ans
deriving Repr, DecidableEq, Inhabited

/-- table lookup (total: a default cell outside the table) -/
def getN (tbl : List Node) (i : Nat) : Node := tbl.getD i default

def St.node (s : St) (i : Nat) : Node := getN s.nodes i
def St.size (s : St) : Nat := s.nodes.length

/-! ### `np.unique` and the cluster slicing -/

/-- insertion into a strictly increasing list (no duplicates) -/
def insertSorted (x : Int) : List Int → List Int
  | [] => [x]
  | y :: ys => if x < y then x :: y :: ys else if x = y then y :: ys else y :: insertSorted x ys

/-- `np.unique(clusters)`: the distinct labels in increasing order -/
def uniqSorted (l : List Int) : List Int := l.foldr insertSorted []

/-- the items whose label is `c`, in the original order (`data[clusters == c, :]`, `scope[clusters == c]`) -/
def pick {β : Type} (labels : List Int) (items : List β) (c : Int) : List β :=
  ((labels.zip items).filter (fun p => p.1 == c)).map (·.2)

/-- the slices of `split_rows_clusters` / `split_cols_clusters`: one per distinct label, in `np.unique` order -/
def slicesOf {β : Type} (labels : List Int) (items : List β) : List (List β) :=
  (uniqSorted labels).map (pick labels items)

/-- `weights.append(len(local_data) / n_samples)` as an exact pair -/
def weightsOf (slices : List (List Nat)) (n : Nat) : List (Nat × Nat) := slices.map (fun r => (r.length, n))

/-! ### table updates -/

/-- `parent.children.append(c)` -/
def addChild (tbl : List Node) (p c : Nat) : List Node :=
  tbl.set p { getN tbl p with children := (getN tbl p).children ++ [c] }

/-- `tasks.appendleft(t)` (repaired) or `tasks.append(t)` (pinned) -/
def requeue (front : Bool) (q : List Task) (t : Task) : List Task := if front then t :: q else q ++ [t]

/-- the boolean vector `zero_var_idx` from the oracle's positions -/
def zvMask (pos : List Nat) (n : Nat) : List Bool := (List.range n).map (fun i => pos.contains i)

/-- `[task.scope[i] for i, in np.argwhere(mask)]` -/
def selectBy (mask : List Bool) (scope : List Nat) (b : Bool) : List Nat :=
  ((mask.zip scope).filter (fun p => p.1 == b)).map (·.2)

/-- the five operations -/
inductive Op where
  | remFeatures | createLeaf | splitNaive | splitRows | splitCols
deriving Repr, DecidableEq, Inhabited

/-- the selection cascade of `learn_spn` (the `if np.all … elif np.any … elif … else` chain) -/
def selectOp (cfg : Cfg) (t : Task) (zv : List Bool) : Op :=
  if zv.all id then .splitNaive
  else if zv.any id then .remFeatures
  else if t.noRowsSplit || decide (t.scope.length < cfg.minCols) || decide (t.rows.length < cfg.minRows) then .createLeaf
  else if t.noColsSplit || t.isFirst then .splitRows
  else .splitCols

/-- common tail of the five operations: the new node `x` gets the next index `id = len(table)` (followed by
`extra`, the naive factorisation hanging under a REM_FEATURES product), the sub-tasks are appended at the
back of the deque (`tasks.append`), and `task.parent.children.append(node)`. -/
def attach (s : St) (t : Task) (q : List Task) (sc : List Ans) (x : Node) (extra : Option Node)
    (newTasks : List Task) : St :=
  { nodes := addChild (s.nodes ++ x :: extra.toList) t.parent s.size,
    queue := q ++ newTasks, script := sc }

/-- one iteration of `while tasks:`. `.error` = the script does not answer the question the code asks
(exhausted, wrong kind, wrong length — in Python a wrong-length label array raises inside
`split_*_clusters`). -/
def step (cfg : Cfg) (s : St) : Except String St :=
  match s.queue with
  | [] => .ok s
  | t :: q =>
    match s.script with
    | .zeroVar pos :: sc =>
      if pos.any (fun i => decide (t.scope.length ≤ i)) then .error "zero_var position out of range" else
      let zv := zvMask pos t.scope.length
      let id := s.size
      match selectOp cfg t zv with
      | .splitNaive =>
          -- node = learn_naive_factorization(task.data, …, task.scope); task.parent.children.append(node)
          .ok (attach s t q sc { kind := .naive, scope := t.scope, rows := t.rows } none [])
      | .remFeatures =>
          -- node = Product(task.scope); node.children.append(naive(rem_scope));
          -- tasks.append(Task(node, data[:, ~zv], oth_scope, is_first = task.is_first and len(tasks) == 0))
          let rem := selectBy zv t.scope true
          let oth := selectBy zv t.scope false
          .ok (attach s t q sc
                { kind := .prod, scope := t.scope, rows := t.rows, children := [id + 1], parts := [rem, oth] }
                (some { kind := .naive, scope := rem, rows := t.rows })
                [{ parent := id, rows := t.rows, scope := oth, isFirst := t.isFirst && q.isEmpty }])
      | .createLeaf =>
          -- leaf = learn_leaf_func(task.data, …, task.scope); task.parent.children.append(leaf)
          .ok (attach s t q sc { kind := .leaf, scope := t.scope, rows := t.rows } none [])
      | .splitRows =>
          match sc with
          | .rows labels :: sc' =>
            if labels.length ≠ t.rows.length then .error "rows answer: wrong number of labels" else
            let sl := slicesOf labels t.rows
            if sl.length = 1 then
              -- tasks.append(Task(task.parent, task.data, task.scope, no_cols_split=False, no_rows_split=True))
              .ok { s with queue := requeue cfg.front q { parent := t.parent, rows := t.rows, scope := t.scope,
                                                            noColsSplit := false, noRowsSplit := true },
                           script := sc' }
            else
              -- node = Sum(task.scope, weights=weights); tasks.append(Task(node, local_data, task.scope)) …
              .ok (attach s t q sc'
                    { kind := .sum, scope := t.scope, rows := t.rows,
                      weights := weightsOf sl t.rows.length, parts := sl } none
                    (sl.map (fun r => { parent := id, rows := r, scope := t.scope })))
          | _ => .error "expected a rows answer"
      | .splitCols =>
          match sc with
          | .cols labels :: sc' =>
            if labels.length ≠ t.scope.length then .error "cols answer: wrong number of labels" else
            let sl := slicesOf labels t.scope
            if sl.length = 1 then
              -- tasks.append(Task(task.parent, task.data, task.scope, no_cols_split=True, no_rows_split=False))
              .ok { s with queue := requeue cfg.front q { parent := t.parent, rows := t.rows, scope := t.scope,
                                                            noColsSplit := true, noRowsSplit := false },
                           script := sc' }
            else
              -- node = Product(task.scope); tasks.append(Task(node, local_data, scopes[i])) …
              .ok (attach s t q sc'
                    { kind := .prod, scope := t.scope, rows := t.rows, parts := sl } none
                    (sl.map (fun c => { parent := id, rows := t.rows, scope := c })))
          | _ => .error "expected a cols answer"
    | _ => .error "expected a zero_var answer"

/-- `while tasks:` with fuel (every successful iteration consumes at least one script entry, so
`script.length + 1` is always enough) -/
def run (cfg : Cfg) : Nat → St → Except String St
  | 0, s => .ok s
  | f+1, s =>
    match s.queue with
    | [] => .ok s
    | _ :: _ => match step cfg s with
      | .ok s' => run cfg f s'
      | .error e => .error e

/-- `tmp_node = Product(initial_scope); tasks.append(Task(tmp_node, data, initial_scope, is_first=True))`
on an arbitrary row-id list / scope (used by the classifier wrapper on class slices) -/
def initOn (rows scope : List Nat) (script : List Ans) : St :=
  { nodes := [{ kind := .prod, scope := scope, rows := rows, parts := [scope] }],
    queue := [{ parent := 0, rows := rows, scope := scope, isFirst := true }],
    script := script }

def init (nRows nCols : Nat) (script : List Ans) : St := initOn (List.range nRows) (List.range nCols) script

/-! ### the returned structure -/

inductive Tree where
  | leaf (rows scope : List Nat)
  | prod (rows scope : List Nat) (ch : List Tree)
  | sum (rows scope : List Nat) (ws : List (Nat × Nat)) (ch : List Tree)
deriving Repr, Inhabited

namespace Tree
def rows : Tree → List Nat
  | leaf r _ => r | prod r _ _ => r | sum r _ _ _ => r
def scope : Tree → List Nat
  | leaf _ s => s | prod _ s _ => s | sum _ s _ _ => s
def ch : Tree → List Tree
  | leaf _ _ => [] | prod _ _ c => c | sum _ _ _ c => c
end Tree

/-- unfolding of node `i` (children have larger indices than their parent, so `size - i` fuel suffices) -/
def toTree (tbl : List Node) : Nat → Nat → Tree
  | 0, _ => .leaf [] []
  | fuel+1, i =>
    let x := getN tbl i
    match x.kind with
    | .leaf => .leaf x.rows x.scope
    | .naive => .prod x.rows x.scope (x.scope.map (fun v => .leaf x.rows [v]))
    | .prod => .prod x.rows x.scope (x.children.map (toTree tbl fuel))
    | .sum => .sum x.rows x.scope x.weights (x.children.map (toTree tbl fuel))

/-- `root = tmp_node.children[0]` -/
def rootId (s : St) : Option Nat := (s.node 0).children.head?

def result (s : St) : Option Tree := (rootId s).map (toTree s.nodes s.size)

/-- whole run: `.ok none` never happens on a finished run (see `learn_final_valid`) -/
def learn (cfg : Cfg) (nRows nCols : Nat) (script : List Ans) : Except String St :=
  run cfg (script.length + 1) (init nRows nCols script)

/-! ### classifier wrapper -/

/-- one `learn_spn` call on the slice `rows × range nCols`, as a tree -/
def learnOn (cfg : Cfg) (rows : List Nat) (nCols : Nat) (script : List Ans) : Except String Tree :=
  match run cfg (script.length + 1) (initOn rows (List.range nCols) script) with
  | .error e => .error e
  | .ok s =>
    if !s.queue.isEmpty then .error "script exhausted before the deque" else
    match result s with
    | none => .error "no root"
    | some t => .ok t

/-- the `for c in unique_classes:` loop: one branch per class slice, scripts consumed in the same order -/
def learnBranches (cfg : Cfg) (nCols : Nat) : List (List Nat) → List (List Ans) → Except String (List Tree)
  | [], _ => .ok []
  | r :: rs, scs =>
    match learnOn cfg r nCols (scs.headD []) with
    | .error e => .error e
    | .ok t => match learnBranches cfg nCols rs scs.tail with
      | .error e => .error e
      | .ok ts => .ok (t :: ts)

/-- `learn_classifier` without the final `prune`: one `learn_spn` per class value in `np.unique` order on
`data[classes == c]`, root `Sum(children, weights = len(local_data) / n_samples)`. `classes` is the class
column (one label per row), `scripts` holds one oracle script per class, in `np.unique` order. -/
def learnClassifier (cfg : Cfg) (classes : List Int) (nCols : Nat) (scripts : List (List Ans)) :
    Except String Tree :=
  let rows := List.range classes.length
  let slices := slicesOf classes rows
  match learnBranches cfg nCols slices scripts with
  | .error e => .error e
  | .ok ts => .ok (.sum rows (List.range nCols) (weightsOf slices classes.length) ts)

/-! ### canonical text -/

def natsStr (l : List Nat) : String := " ".intercalate (l.map toString)

def showW (w : List (Nat × Nat)) (i : Nat) : String :=
  match w[i]? with
  | some p => s!"{p.1}/{p.2}"
  | none => "?"

def withWeights (w : List (Nat × Nat)) : Nat → List String → List String
  | _, [] => []
  | i, s :: ss => (showW w i ++ ":" ++ s) :: withWeights w (i + 1) ss

/-- `L(rows=…;scope=…)`, `P{scope}(child,…)`, `S{scope}[num/den:child,…]` -/
def Tree.render : Tree → String
  | .leaf r s => s!"L(rows={natsStr r};scope={natsStr s})"
  | .prod _ s c => "P{" ++ natsStr s ++ "}(" ++ ",".intercalate (c.map Tree.render) ++ ")"
  | .sum _ s w c => "S{" ++ natsStr s ++ "}[" ++ ",".intercalate (withWeights w 0 (c.map Tree.render)) ++ "]"

end Deeprob.Learn
