import DeeprobModel.Model.RewriteNet
import DeeprobModel.Model.CltPc
/-
A layer, NET level, Chow-Liu-tree leaves in `marginalize` (/repo/deeprob/spn/algorithms/structure.py):

    if isinstance(node, BinaryCLT):
        clt_scope = list(keep_scope_s.intersection(node.scope))
        if clt_scope: nodes_map[node.id] = marginalize(node.to_pc(), clt_scope, copy=False)
        else:         nodes_map[node.id] = None

`pcNet` is `BinaryCLT.to_pc` (cltree.py) as a node TABLE with the sharing the code creates (the two sums built for a
tree node share their two products / indicator leaves). `expandWith` replaces every Chow-Liu leaf of a table by the
table of its `to_pc()`; `marginalizeNetClt` marginalises the expanded table. The code instead marginalises (and prunes)
each converted leaf separately and prunes the whole once more at the end; `prune` works bottom-up, reads only
descendants and is idempotent (Props/C09NetKahn.lean `pruneNet_idem`), so pruning sub-circuits first does not change
the result of the final `prune`.

No Mathlib import (compiled into the driver).
-/
namespace Deeprob
namespace Net
variable {α : Type}

/-- a node whose children live `off` positions further down the table -/
def shiftNode (off : Nat) (x : NNode α) : NNode α := { x with ch := x.ch.map (fun c => c + off) }
def shiftNet (off : Nat) (t : Net α) : Net α := t.map (shiftNode off)

/-- store tables one after the other; returns the body and, per table, the positions of its last two entries
(the sums `to_pc` appends to `neg_buffer` / `pos_buffer`) -/
def placeTables (kids : List (Net α)) : Net α × List (Nat × Nat) :=
  kids.foldl (fun (st : Net α × List (Nat × Nat)) T =>
    (st.1 ++ shiftNet st.1.length T,
     st.2 ++ [(st.1.length + (T.length - 2), st.1.length + (T.length - 1))])) ([], [])

end Net

namespace Clt
variable {α : Type} [Zero α] [One α]

/-- `Bernoulli(v, p=0.0)` (`k = 0`) / `Bernoulli(v, p=1.0)` (`k ≠ 0`) -/
def bern (v k : Nat) : NNode α :=
  { id := 0, kind := .leaf, scope := [v], ch := [], ws := [], leaf := .cat v (indicator k) }

/-- `BinaryCLT.to_pc` for the sub-tree `t`, as a table: the tables of the children in the order the post-order
stack finishes them (last child first), then the two indicator leaves, (for an inner tree node) the two products
`[leaves[l]] + buffer[-n:]`, and the two sums with the rows `factors[v][0]`, `factors[v][1]` — the LAST TWO entries
are what is appended to `neg_buffer` and `pos_buffer`. Ids are left 0 (`assign_ids` runs later). -/
def pcNet (scope : List Nat) (cpt : List (List (List α))) : RTree → Net α
  | .node i cs =>
    let v := scope.getD i 0
    let placed := Net.placeTables ((cs.map (pcNet scope cpt)).reverse)
    let n := placed.1.length
    let w0 := [cptAt cpt i 0 0, cptAt cpt i 0 1]
    let w1 := [cptAt cpt i 1 0, cptAt cpt i 1 1]
    if cs.isEmpty then
      placed.1 ++ [bern v 0, bern v 1,
        { id := 0, kind := .sum, scope := [v], ch := [n, n+1], ws := w0, leaf := .absent },
        { id := 0, kind := .sum, scope := [v], ch := [n, n+1], ws := w1, leaf := .absent }]
    else
      let sc := pcScope scope (.node i cs)
      placed.1 ++ [bern v 0, bern v 1,
        { id := 0, kind := .prod, scope := sc, ch := n :: placed.2.map Prod.fst, ws := [], leaf := .absent },
        { id := 0, kind := .prod, scope := sc, ch := (n+1) :: placed.2.map Prod.snd, ws := [], leaf := .absent },
        { id := 0, kind := .sum, scope := sc, ch := [n+2, n+3], ws := w0, leaf := .absent },
        { id := 0, kind := .sum, scope := sc, ch := [n+2, n+3], ws := w1, leaf := .absent }]

/-- the table of `BinaryCLT.to_pc()`; its root `pos_buffer[0]` is the last entry -/
def toPcNet (scope : List Nat) (pred : List Int) (cpt : List (List (List α))) : Net α :=
  match rootOf pred with
  | none => [{ id := 0, kind := .leaf, scope := [], ch := [], ws := [], leaf := .absent }]
  | some r => pcNet scope cpt (build pred pred.length r)

end Clt

namespace Net
variable {α : Type} [Zero α] [One α]

/-- one node of the expansion: a Chow-Liu leaf is replaced by the table of its `to_pc()`, every other node is
copied with its children renamed. State: new table, new index of every old node, densities of the new table. -/
def expandStep (dens : List α) (st : Net α × List Nat × List α) (x : NNode α) : Net α × List Nat × List α :=
  match x.kind, x.leaf with
  | .leaf, .clt pred cpt =>
    let T := Clt.toPcNet x.scope pred cpt
    (st.1 ++ shiftNet st.1.length T, st.2.1 ++ [st.1.length + (T.length - 1)], st.2.2 ++ List.replicate T.length 0)
  | _, _ =>
    (st.1 ++ [{ x with ch := x.ch.map (fun c => st.2.1.getD c 0) }], st.2.1 ++ [st.1.length],
     st.2.2 ++ [dens.getD st.2.1.length 0])

/-- the table with every Chow-Liu leaf converted, the new index of every old node, and the supplied densities of
continuous leaves carried over to the new indices -/
def expandWith (dens : List α) (net : Net α) : Net α × List Nat × List α :=
  net.foldl (expandStep dens) ([], [], [])

/-- `marginalize(root, keep_scope)` on tables that may contain Chow-Liu leaves. The second component of the result
lists, for every exported node, its index in the EXPANDED table `(expandWith [] net).1` (as `marginalizeNet` does for
the table it is given). -/
def marginalizeNetClt [Add α] [Mul α] (keep : List Nat) (net : Net α) (root : Nat) :
    Except String (Net α × List Nat) :=
  let X := expandWith [] net
  marginalizeNet keep X.1 (X.2.1.getD root 0)

end Net
end Deeprob
