import DeeprobModel.Generated.Consts
import DeeprobModel.Model.PostOrder
import DeeprobModel.Model.CltPc
import DeeprobModel.Model.GraphOrder
/-
The loops of `BinaryCLT.to_pc` / `BinaryCLT.get_scopes` AS EXTRACTED from the source (`Gen.S5toPcStep`, `Gen.S5getScopesStep`),
iterated and instantiated on the model's trees and circuits.  Executable (the driver runs these next to the real code: ops
`s5_topc`, `s5_scopes`); the theorems about them are in `Oblig/Struct5ToPc.lean` and `Props/E2EToPc.lean`.  No Mathlib.
-/
namespace Deeprob.Oblig.Struct5
open Deeprob Deeprob.PostOrder Deeprob.Clt

/-- `TreeNode.is_leaf` -/
def isLeaf (t : RTree) : Bool := t.kids.isEmpty
/-- identity membership, nodes identified by their index -/
def isIn (o : Option RTree) (cs : List RTree) : Bool := lastInKids (o.map RTree.idx) cs

section
variable {C W : Type} (getId : RTree → Nat) (mkB : Nat → Nat → C) (mkP : List C → C) (mkS : List C → W → C) (factors : Nat → Nat → W)

/-- the extracted loop, `fuel` iterations -/
def genRun : Nat → List RTree × Option RTree × List C × List C → List RTree × Option RTree × List C × List C
  | 0, s => s
  | n+1, s => genRun n (Gen.S5toPcStep getId isLeaf RTree.kids isIn mkB mkP mkS factors s.1 s.2.1 s.2.2.1 s.2.2.2)

/-- the extracted loop of `get_scopes`, `fuel` iterations -/
def genRunS : Nat → List RTree × Option RTree × List (List Nat) × List (List Nat) →
    List RTree × Option RTree × List (List Nat) × List (List Nat)
  | 0, s => s
  | n+1, s => genRunS n (Gen.S5getScopesStep getId isLeaf RTree.kids isIn s.1 s.2.1 s.2.2.1 s.2.2.2)

end

section
variable {α : Type} [Zero α] [One α] [Add α] [Mul α]

/-- `factors[label][row]` with `factors = {self.scope[i]: np.exp(self.params[i])}`: the row of the variable carrying that label -/
def factorsOf (scope : List Nat) (cpt : List (List (List α))) (label row : Nat) : List α :=
  [cptAt cpt (scope.idxOf label) row 0, cptAt cpt (scope.idxOf label) row 1]

end
end Deeprob.Oblig.Struct5

namespace Deeprob.E2EToPc
open Deeprob Deeprob.Clt Deeprob.PostOrder Deeprob.Oblig.Struct5
variable {α : Type} [Zero α] [One α] [Add α] [Mul α]

/-- `BinaryCLT.to_pc` as extracted: build the tree, run the extracted loop until the stack is empty (`2·size` iterations are
enough, and further iterations change nothing), return `pos_buffer[0]` -/
def genToPcLoop (scope : List Nat) (tree : List Int) (cpt : List (List (List α))) : Option (Circ α) :=
  match GraphIo.rootIdx tree with
  | none => none
  | some r =>
    let t := build tree tree.length r
    (genRun (fun t => scope.getD t.idx 0) (fun v p => Circ.catLeaf v (indicator p)) Circ.mkProd (fun cs w => Circ.mkSum w cs)
      (factorsOf scope cpt) (2 * size t) ([t], none, [], [])).2.2.2.head?

/-- `BinaryCLT.get_scopes` as extracted: same walk, `scopes` is returned -/
def genGetScopesLoop (scope : List Nat) (tree : List Int) : Option (List (List Nat)) :=
  match GraphIo.rootIdx tree with
  | none => none
  | some r =>
    let t := build tree tree.length r
    some (genRunS (fun t => scope.getD t.idx 0) (2 * size t) ([t], none, [], [])).2.2.2

end Deeprob.E2EToPc
