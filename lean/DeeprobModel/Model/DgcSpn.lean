import DeeprobModel.Model.Circ
/-
A layer for C17: the layer schedule of a DGC-SPN, the output sizes, the scope of every
cell as a product of two 1-D pixel sets, and the unrolling into a tree circuit.
Mirrors /repo/deeprob/spn/models/dgcspn.py (DgcSpn.__init__) and
/repo/deeprob/spn/layers/dgcspn.py (SpatialProductLayer / SpatialSumLayer / SpatialRootLayer).
No Mathlib import (compiled into the driver).
-/
namespace Deeprob
namespace DgcSpn

/-- `depth = int(np.ceil(np.log2(D)))` (dgcspn.py, DgcSpn.__init__): least `k` with `D ≤ 2^k`. -/
def clog2 (D : Nat) : Nat := if D ≤ 1 then 0 else Nat.log2 (D - 1) + 1

inductive PadMode where
  | valid | full | final
deriving DecidableEq, Repr

def PadMode.toString : PadMode → String
  | .valid => "valid" | .full => "full" | .final => "final"

/-- arguments of one `SpatialProductLayer` (kernel is always `(2, 2)`) -/
structure ProdCfg where
  padding : PadMode
  stride : Nat
  dilation : Nat
  depthwise : Bool
deriving Repr

/-- Constructor guards of `DgcSpn.__init__` that concern shapes: square input,
`0 <= n_pooling <= depth`.  (`n_pooling` is a Nat here, so `0 <=` is implicit.) -/
def accepted (h w nPooling : Nat) : Bool := decide (h = w) && decide (nPooling ≤ clog2 h)

/-- `depthwise` argument handling: a list of length in `[1, depth+1]` is extended by its last flag. -/
def dwFlags (depth : Nat) (l : List Bool) : Option (List Bool) :=
  if l.length = 0 ∨ l.length > depth + 1 then none
  else some (l ++ List.replicate (depth + 1 - l.length) (l.getLastD false))

/-- effective kernel size `ke = (k - 1) * dilation + 1` with `k = 2` -/
def keff (cfg : ProdCfg) : Nat := (2 - 1) * cfg.dilation + 1

/-- `self.pad` along one axis as `(before, after)`: `valid` → `(0,0)`; `full` → `(ke-1, ke-1)`;
`final` → `(0, (ke-1)*2 - in)` (one-sided: only right / bottom; may be negative = crop for `F.pad`). -/
def pads (cfg : ProdCfg) (inSize : Nat) : Nat × Int :=
  match cfg.padding with
  | .valid => (0, 0)
  | .full => (keff cfg - 1, ((keff cfg - 1 : Nat) : Int))
  | .final => (0, (((keff cfg - 1) * 2 : Nat) : Int) - (inSize : Int))

/-- `out = int(np.ceil((pad_before + pad_after + in - ke + 1) / stride))` -/
def outSize (cfg : ProdCfg) (inSize : Nat) : Nat :=
  let pp := pads cfg inSize
  let num : Int := (pp.1 : Int) + pp.2 + (inSize : Int) - (keff cfg : Int) + 1
  ((num + (cfg.stride : Int) - 1) / (cfg.stride : Int)).toNat

/-- `out_c = in_c if depthwise else in_c ** (kh * kw)` -/
def outChannels (cfg : ProdCfg) (inC : Nat) : Nat := if cfg.depthwise then inC else inC ^ 4

/-! ### 1-D scopes -/

/-- `F.pad` along one axis on the list of cell scopes (padded cells are constant one, i.e. log 0,
so their scope is empty); a negative amount crops. -/
def padded (padL : Nat) (padR : Int) (xs : List (List Nat)) : List (List Nat) :=
  List.replicate padL [] ++
    (if 0 ≤ padR then xs ++ List.replicate padR.toNat [] else xs.take (xs.length - padR.natAbs))

/-- 1-D scope of the first kernel tap of output cell `j`: padded input cell `j*stride` -/
def tap0 (cfg : ProdCfg) (xs : List (List Nat)) (j : Nat) : List Nat :=
  (padded (pads cfg xs.length).1 (pads cfg xs.length).2 xs).getD (j * cfg.stride) []

/-- 1-D scope of the second kernel tap of output cell `j`: padded input cell `j*stride + dilation` -/
def tap1 (cfg : ProdCfg) (xs : List (List Nat)) (j : Nat) : List Nat :=
  (padded (pads cfg xs.length).1 (pads cfg xs.length).2 xs).getD (j * cfg.stride + cfg.dilation) []

/-- 1-D scopes after one product layer: `out[j] = in_p[j*stride] * in_p[j*stride + dilation]`
(`F.conv2d` with a 2-tap kernel of ones). -/
def prodScopes (cfg : ProdCfg) (xs : List (List Nat)) : List (List Nat) :=
  (List.range (outSize cfg xs.length)).map (fun j => tap0 cfg xs j ++ tap1 cfg xs j)

/-- configuration of product layer `i`: the body of the loop `for i in range(depth + 1)` of
`DgcSpn.__init__`: `i < n_pooling`: `valid`, stride 2, dilation 1; otherwise `final` if `i == depth`
else `full`, stride 1, dilation `2 ** (i - n_pooling)`. -/
def cfgAt (D p : Nat) (dw : Nat → Bool) (i : Nat) : ProdCfg :=
  if i < p then { padding := .valid, stride := 2, dilation := 1, depthwise := dw i }
  else { padding := if i = clog2 D then .final else .full, stride := 1, dilation := 2 ^ (i - p),
         depthwise := dw i }

/-- the product layers of the network, in order -/
def schedule (D p : Nat) (dw : Nat → Bool) : List ProdCfg :=
  (List.range (clog2 D + 1)).map (cfgAt D p dw)

/-- 1-D scopes of the base layer: cell `j` is pixel coordinate `j` -/
def baseScopes (D : Nat) : List (List Nat) := (List.range D).map (fun j => [j])

/-- 1-D scopes after running the given product layers (sum layers do not change scopes) -/
def runScopes (cfgs : List ProdCfg) (xs : List (List Nat)) : List (List Nat) :=
  cfgs.foldl (fun acc cfg => prodScopes cfg acc) xs

/-- 1-D scopes after each product layer of the network (one list of cell scopes per layer) -/
def scopeTrace (cfgs : List ProdCfg) (xs : List (List Nat)) : List (List (List Nat)) :=
  match cfgs with
  | [] => []
  | cfg :: rest => prodScopes cfg xs :: scopeTrace rest (prodScopes cfg xs)

/-- 1-D scopes of the cells entering the root layer -/
def finalScopes (D p : Nat) : List (List Nat) := runScopes (schedule D p (fun _ => true)) (baseScopes D)

/-- spatial size after the first `i` product layers (sum layers keep the size) -/
def sizeAfter (D p : Nat) (dw : Nat → Bool) : Nat → Nat
  | 0 => D
  | i + 1 => outSize (cfgAt D p dw i) (sizeAfter D p dw i)

/-- 1-D scopes of the cells after the first `i` product layers -/
def stage (D p : Nat) (dw : Nat → Bool) : Nat → List (List Nat)
  | 0 => baseScopes D
  | i + 1 => prodScopes (cfgAt D p dw i) (stage D p dw i)

/-- channel count of the last product layer (= `in_features[0]` of the root layer) -/
def lastCh (D p : Nat) (dw : Nat → Bool) (batch sumCh : Nat) : Nat :=
  outChannels (cfgAt D p dw (clog2 D)) (if clog2 D = 0 then batch else sumCh)

/-- one line of the layer table: (kind, stride, dilation, pad before, pad after, out c, out size) -/
structure LayerInfo where
  kind : String
  stride : Nat
  dilation : Nat
  padBefore : Nat
  padAfter : Int
  outC : Nat
  outS : Nat

/-- all inner layers of `DgcSpn.__init__` with their shapes: product layer `i` (input channels `n_batch`
for `i = 0`, else `sum_channels`), then (if `i ≠ depth`) a sum layer with `sum_channels` output channels
and unchanged spatial size. -/
def layerInfos (D p batch sumCh : Nat) (dw : Nat → Bool) : List LayerInfo :=
  (List.range (clog2 D + 1)).flatMap (fun i =>
    let cfg := cfgAt D p dw i
    let s := sizeAfter D p dw i
    let pl : LayerInfo :=
      { kind := "prod:" ++ cfg.padding.toString
        stride := cfg.stride
        dilation := cfg.dilation
        padBefore := (pads cfg s).1
        padAfter := (pads cfg s).2
        outC := outChannels cfg (if i = 0 then batch else sumCh)
        outS := sizeAfter D p dw (i + 1) }
    if i = clog2 D then [pl]
    else [pl, { kind := "sum", stride := 1, dilation := 1, padBefore := 0, padAfter := 0,
                outC := sumCh, outS := sizeAfter D p dw (i + 1) }])

/-- input variable index of pixel `(ch, x, y)` in the flattened `(C, D, D)` input -/
def pix (D ch x y : Nat) : Nat := ch * D * D + x * D + y

/-- all variables `(ch, x, y)` with `x ∈ R`, `y ∈ S`: the 2-D scope `R × S` over all channels -/
def pixels (C D : Nat) (R S : List Nat) : List Nat :=
  (List.range C).flatMap (fun ch => R.flatMap (fun x => S.map (fun y => pix D ch x y)))

/-! ### unrolling into a tree circuit -/
section unroll
variable {α : Type} [Zero α] [One α] [Add α] [Mul α]

/-- a padded cell: constant one (log 0), empty scope -/
def one : Circ α := .leaf [] (fun _ => 1)

/-- a layer output as a table `channel → row → column → circuit` with its shape -/
structure Grid (α : Type) where
  ch : Nat
  size : Nat
  at_ : Nat → Nat → Nat → Circ α

/-- `SpatialGaussianLayer.forward`: cell `(b, r, c)` is the product over the input channels of the
univariate leaves `lf b ch r c` (NaN ⇒ factor one is the leaf function's business). -/
def baseGrid (lf : Nat → Nat → Nat → Nat → Ev → α) (C D batch : Nat) : Grid α :=
  { ch := batch, size := D,
    at_ := fun b r c => .prod (pixels C D [r] [c])
      ((List.range C).map (fun ch => .leaf [pix D ch r c] (lf b ch r c))) }

/-- read of the padded input (`F.pad(x, self.pad)`): padding cells are `one` -/
def padAt (G : Grid α) (padL : Nat) (ch r c : Nat) : Circ α :=
  if padL ≤ r ∧ r - padL < G.size ∧ padL ≤ c ∧ c - padL < G.size then G.at_ ch (r - padL) (c - padL) else one

/-- input channel used by output channel `o` at kernel tap `t = 2*a + b`:
depthwise: `o` itself; otherwise digit `t` (most significant first) of `o` in base `in_c`
(`kernel_ids = product(range(in_c), repeat=4)` in SpatialProductLayer.__init__). -/
def tapChannel (cfg : ProdCfg) (inC o t : Nat) : Nat :=
  if cfg.depthwise then o else (o / inC ^ (3 - t)) % inC

/-- `SpatialProductLayer.forward` -/
def prodGrid (cfg : ProdCfg) (G : Grid α) : Grid α :=
  let pl := (pads cfg G.size).1
  { ch := outChannels cfg G.ch, size := outSize cfg G.size,
    at_ := fun o r c =>
      let r0 := r * cfg.stride
      let r1 := r * cfg.stride + cfg.dilation
      let c0 := c * cfg.stride
      let c1 := c * cfg.stride + cfg.dilation
      let k00 := padAt G pl (tapChannel cfg G.ch o 0) r0 c0
      let k01 := padAt G pl (tapChannel cfg G.ch o 1) r0 c1
      let k10 := padAt G pl (tapChannel cfg G.ch o 2) r1 c0
      let k11 := padAt G pl (tapChannel cfg G.ch o 3) r1 c1
      .prod (k00.scope ++ (k01.scope ++ (k10.scope ++ k11.scope))) [k00, k01, k10, k11] }

/-- `SpatialSumLayer.forward`: per cell mixture over the input channels with weights
`w o r c` (= `softmax(self.weight, dim=1)[o, :, r, c]`). -/
def sumGrid (w : Nat → Nat → Nat → List α) (outCh : Nat) (G : Grid α) : Grid α :=
  { ch := outCh, size := G.size,
    at_ := fun o r c => .sum (G.at_ 0 r c).scope (w o r c) ((List.range G.ch).map (fun ch => G.at_ ch r c)) }

/-- the inner layers: product `i`, then a sum layer unless it is the last product -/
def innerGrids (w : Nat → Nat → Nat → Nat → List α) (sumCh : Nat) : List ProdCfg → Nat → Grid α → Grid α
  | [], _, G => G
  | [cfg], _, G => prodGrid cfg G
  | cfg :: cfg' :: rest, l, G => innerGrids w sumCh (cfg' :: rest) (l + 1) (sumGrid (w l) sumCh (prodGrid cfg G))

/-- `SpatialRootLayer.forward` for one class: mixture over the flattened `(c, h, w)` cells -/
def rootNode (wroot : List α) (C D : Nat) (G : Grid α) : Circ α :=
  .sum (pixels C D (List.range D) (List.range D)) wroot
    ((List.range G.ch).flatMap (fun ch => (List.range G.size).flatMap (fun r =>
      (List.range G.size).map (fun c => G.at_ ch r c))))

/-- the whole DGC-SPN as a tree circuit for one class output -/
def unroll (C D p batch sumCh : Nat) (dw : Nat → Bool) (lf : Nat → Nat → Nat → Nat → Ev → α)
    (w : Nat → Nat → Nat → Nat → List α) (wroot : List α) : Circ α :=
  rootNode wroot C D (innerGrids w sumCh (schedule D p dw) 0 (baseGrid lf C D batch))

end unroll

end DgcSpn
end Deeprob
