import DeeprobModel.Model.Learn
/-
Termination measure of the LearnSPN work-queue machine (A layer, computable, no Mathlib).

`learn_spn` (/repo/deeprob/spn/learning/learnspn.py) is a `while tasks:` loop. Nothing in the code bounds the
number of iterations explicitly; it halts because every task carries three flags that let a *failed* split
be retried at most twice on the same slice (`SPLIT_COLS` fails → `no_cols_split=True` → `SPLIT_ROWS` fails →
`no_rows_split=True` → `CREATE_LEAF`) and every *successful* operation hands strictly smaller slices on.

The measure is a weighted count of the pending tasks:

    phase t  = 0 if no_rows_split, 1 if no_cols_split or is_first, 2 otherwise   (retries still allowed)
    area t   = max(#rows, 1) * max(#cols, 1)
    weight t = 5 * area t - 4 + phase t            (always ≥ 1)
    measure  = Σ weight over the deque             (the deque ORDER is irrelevant: holds for `append` and
                                                    `appendleft` re-queues alike)

`B nRows nCols cfg = 5 * max(nRows,1) * max(nCols,1) - 3` is the weight of the initial task (is_first ⇒
phase 1), hence a bound on the number of loop iterations (Lemmas/LearnTermLemmas.lean, Props/C05Term.lean).
The bound is attained for every `nRows` when `nCols = 1` (peel one row per row split; see `tightScript`).
-/
namespace Deeprob.LearnTerm
open Deeprob.Learn

/-- how many more failed splits the flags of the task still allow -/
def phase (t : Task) : Nat :=
  if t.noRowsSplit then 0 else if t.noColsSplit || t.isFirst then 1 else 2

/-- size of the slice (`task.data.shape`), degenerate dimensions counted as 1 -/
def area (t : Task) : Nat := max t.rows.length 1 * max t.scope.length 1

/-- the potential of one pending task -/
def weight (t : Task) : Nat := 5 * area t - 4 + phase t

/-- the potential of a deque -/
def qmeasure (q : List Task) : Nat := (q.map weight).sum

/-- the termination measure of a machine state -/
def measure (s : St) : Nat := qmeasure s.queue

/-- the iteration bound: `measure (init nRows nCols script)`; it does not depend on the hyper-parameters
(larger `min_rows_slice` / `min_cols_slice` only make the loop shorter) nor on the re-queue discipline. -/
def B (nRows nCols : Nat) (_cfg : Cfg) : Nat := 5 * (max nRows 1 * max nCols 1) - 3

/-- `run` that also counts the iterations of `while tasks:` it performed -/
def runCount (cfg : Cfg) : Nat → St → Except String (St × Nat)
  | 0, s => .ok (s, 0)
  | f+1, s =>
    match s.queue with
    | [] => .ok (s, 0)
    | _ :: _ => match step cfg s with
      | .ok s' => match runCount cfg f s' with
        | .ok (s'', n) => .ok (s'', n + 1)
        | .error e => .error e
      | .error e => .error e

/-- the measures of the successive states of a run (state before iteration 0, 1, …, and the final one) -/
def measureTrace (cfg : Cfg) : Nat → St → List Nat
  | 0, s => [measure s]
  | f+1, s =>
    match s.queue with
    | [] => [measure s]
    | _ :: _ => match step cfg s with
      | .ok s' => measure s :: measureTrace cfg f s'
      | .error _ => [measure s]

/-- the adversarial oracle that attains `B n 1 cfg` on an `n × 1` data set (`min_rows_slice = min_cols_slice
= 1`): every row split peels off the first row, every column split (one column) fails, the row split of a
single row fails. `tightFrom k` is the script of a fresh (phase 2) task with `k` rows. -/
def tightOne : List Ans := [.zeroVar [], .cols [0], .zeroVar [], .rows [0], .zeroVar []]

def tightFrom : Nat → List Ans
  | 0 => []
  | 1 => tightOne
  | k+2 => [.zeroVar [], .cols [0], .zeroVar [], .rows (0 :: List.replicate (k+1) 1)]
            ++ tightOne ++ tightFrom (k+1)

def tightScript (n : Nat) : List Ans :=
  match n with
  | 0 => []
  | 1 => [.zeroVar [], .rows [0], .zeroVar []]
  | k+2 => [.zeroVar [], .rows (0 :: List.replicate (k+1) 1)] ++ tightOne ++ tightFrom (k+1)

end Deeprob.LearnTerm
