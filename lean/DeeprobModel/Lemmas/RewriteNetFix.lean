import DeeprobModel.Lemmas.RewriteNetLabel
set_option linter.unusedSectionVars false
set_option linter.unusedSimpArgs false
set_option linter.unusedVariables false
/-
Structural theory of the net-level `prune`, part 5: tables in normal form are fixed points of the pass, and the
canonical export of an exported table is the identity relabelling (up to the ids, which need Kahn's order).
-/
namespace Deeprob
open Net
variable {α : Type} [CommSemiring α]

/-- normal form of EVERY entry of a table, with what `prune` needs in addition to `normalFormB` to leave a sum
untouched: one weight per child and pairwise distinct children (coinciding children would be merged) -/
def NetNF (net : Net α) : Prop :=
  ∀ (i : Nat) (x : NNode α), net[i]? = some x → x.kind ≠ .leaf →
    2 ≤ x.ch.length ∧ (∀ c ∈ x.ch, kindOf net c ≠ x.kind) ∧
    (x.kind = .sum → x.ws.length = x.ch.length ∧ x.ch.Nodup)

theorem flatten_singletons {β : Type} (l : List β) : (l.map (fun p => [p])).flatten = l := by
  induction l with
  | nil => rfl
  | cons a l ih => simp [ih]

theorem prodItems'_id (t : Net α) (cn : List Nat) (h : ∀ c ∈ cn, kindOf t c ≠ .prod) : prodItems' t cn = cn := by
  unfold prodItems'
  have : cn.map (fun c => if kindOf t c = .prod then chOf t c else [c]) = cn.map (fun c => [c]) := by
    apply List.map_congr_left; intro c hc; simp [h c hc]
  rw [this, flatten_singletons]

theorem sumItems'_id (t : Net α) (cn : List Nat) (ws : List α) (h : ∀ c ∈ cn, kindOf t c ≠ .sum) :
    sumItems' t cn ws = cn.zip ws := by
  unfold sumItems'
  have : (cn.zip ws).map (fun (p : Nat × α) =>
      if kindOf t p.1 = .sum then ((chOf t p.1).zip (wsOf t p.1)).map (fun (q : Nat × α) => (q.1, p.2 * q.2))
      else [(p.1, p.2)]) = (cn.zip ws).map (fun p => [p]) := by
    apply List.map_congr_left; intro p hp; simp [h p.1 (List.of_mem_zip hp).1]
  rw [this, flatten_singletons]

theorem accAdd_new (a : List (Nat × α)) (k : Nat) (w : α) (h : k ∉ a.map Prod.fst) : accAdd a k w = a ++ [(k, w)] := by
  induction a with
  | nil => simp [accAdd]
  | cons p r ih =>
    obtain ⟨k', w'⟩ := p
    simp only [List.map_cons, List.mem_cons, not_or] at h
    unfold accAdd
    have : ¬ k' = k := fun e => h.1 e.symm
    simp only [this, if_false, ih h.2, List.cons_append]

theorem foldl_accAdd_nodup (items a0 : List (Nat × α)) (h : ((a0 ++ items).map Prod.fst).Nodup) :
    items.foldl (fun a (p : Nat × α) => accAdd a p.1 p.2) a0 = a0 ++ items := by
  induction items generalizing a0 with
  | nil => simp
  | cons p r ih =>
    simp only [List.foldl_cons]
    have hp : p.1 ∉ a0.map Prod.fst := by
      intro hm
      rw [List.map_append, List.nodup_append] at h
      exact h.2.2 p.1 hm p.1 (by simp) rfl
    rw [accAdd_new a0 p.1 p.2 hp, ih _ (by simpa using h)]
    simp

theorem foldl_accAdd_keys_nodup (items a0 : List (Nat × α)) (h : (a0.map Prod.fst).Nodup) :
    ((items.foldl (fun a (p : Nat × α) => accAdd a p.1 p.2) a0).map Prod.fst).Nodup := by
  induction items generalizing a0 with
  | nil => exact h
  | cons p r ih => simp only [List.foldl_cons]; exact ih _ (accAdd_keys_nodup a0 p.1 p.2 h)

theorem sumAcc'_keys_nodup (t : Net α) (cn : List Nat) (ws : List α) : ((sumAcc' t cn ws).map Prod.fst).Nodup :=
  foldl_accAdd_keys_nodup _ [] (by simp)

theorem node_eta (x : NNode α) : ({ x with ch := x.ch } : NNode α) = x := by cases x; rfl
theorem node_eta2 (x : NNode α) : ({ x with ch := x.ch, ws := x.ws } : NNode α) = x := by cases x; rfl

/-- **a table in normal form is a fixed point of the pass** (pinned or repaired) -/
theorem prunePass_fix (b : Bool) (net : Net α) (hw : WellOrdered net) (hnf : NetNF net) :
    prunePass b net = (net, List.range net.length) := by
  have S := prunePass_sol b net hw
  generalize h1 : (prunePass b net).1 = t at S
  generalize h2 : (prunePass b net).2 = rep at S
  have key : ∀ k, k < net.length → rep.getD k k = k ∧ t[k]? = net[k]? := by
    intro k
    induction k using Nat.strong_induction_on with
    | _ k ih =>
      intro hk
      have hx : net[k]? = some net[k] := List.getElem?_eq_getElem hk
      generalize net[k] = x at hx
      have hch := hw k x hx
      have hrc : repCh rep x = x.ch := by
        unfold repCh
        exact map_getD_id rep x.ch (fun c hc => (ih c (hch c hc) (by have := hch c hc; omega)).1)
      have hkind : ∀ c ∈ x.ch, kindOf t c ≠ x.kind ∨ x.kind = .leaf := by
        intro c hc
        by_cases hl : x.kind = .leaf
        · exact Or.inr hl
        · left; rw [sol_kindOf b net t rep hw S c]; exact (hnf k x hx hl).2.1 c hc
      rcases sol_outcome b net t rep hw S k x hx with ⟨hkd, e, r⟩ | ⟨hkd, c, hc, e, r⟩ | ⟨hkd, hlen, e, r⟩ |
          ⟨hkd, hlen, _, p, hp, e, r⟩ | ⟨hkd, hlen, hb, e, r⟩
      · exact ⟨r, by rw [e, hx]⟩
      · rw [hrc] at hc
        have := (hnf k x hx hkd).1
        rw [hc] at this; simp at this
      · rw [hrc, prodItems'_id t x.ch (fun c hc => by
            rcases hkind c hc with h | h
            · rw [hkd] at h; exact h
            · rw [hkd] at h; cases h)] at e
        exact ⟨r, by rw [e, hx]⟩
      · obtain ⟨h2, h3, h4⟩ := hnf k x hx (by rw [hkd]; simp)
        obtain ⟨h5, h6⟩ := h4 hkd
        have hacc : sumAcc' t (repCh rep x) x.ws = x.ch.zip x.ws := by
          unfold sumAcc'
          rw [hrc, sumItems'_id t x.ch x.ws (fun c hc => by
            rcases hkind c hc with h | h
            · rw [hkd] at h; exact h
            · rw [hkd] at h; cases h)]
          rw [foldl_accAdd_nodup _ [] (by simp [List.map_fst_zip (Nat.le_of_eq h5.symm), h6])]
          simp
        rw [hacc] at hp
        have := congrArg List.length hp
        simp [List.length_zip, h5] at this
        omega
      · obtain ⟨h2, h3, h4⟩ := hnf k x hx (by rw [hkd]; simp)
        obtain ⟨h5, h6⟩ := h4 hkd
        have hacc : sumAcc' t (repCh rep x) x.ws = x.ch.zip x.ws := by
          unfold sumAcc'
          rw [hrc, sumItems'_id t x.ch x.ws (fun c hc => by
            rcases hkind c hc with h | h
            · rw [hkd] at h; exact h
            · rw [hkd] at h; cases h)]
          rw [foldl_accAdd_nodup _ [] (by simp [List.map_fst_zip (Nat.le_of_eq h5.symm), h6])]
          simp
        rw [hacc, List.map_fst_zip (Nat.le_of_eq h5.symm), List.map_snd_zip (Nat.le_of_eq h5)] at e
        exact ⟨r, by rw [e, hx]⟩
  have ht : t = net := by
    apply List.ext_getElem? 
    intro k
    rcases Nat.lt_or_ge k net.length with h | h
    · exact (key k h).2
    · rw [List.getElem?_eq_none (by rw [S.lt]; exact h), List.getElem?_eq_none h]
  have hr : rep = List.range net.length := by
    apply List.ext_getElem
    · simp [S.lr]
    · intro k h1 h2
      have hk : k < net.length := by rw [← S.lr]; exact h1
      have := (key k hk).1
      rw [List.getD_eq_getElem?_getD, List.getElem?_eq_getElem h1] at this
      simp only [Option.getD_some] at this
      simp [this]
  exact Prod.ext (h1.trans ht) (h2.trans hr)

/-! ### children of a rebuilt sum are pairwise distinct -/

theorem sol_fixed_sum_nodup (b : Bool) (net t : Net α) (rep : List Nat) (hw : WellOrdered net) (S : Sol b net t rep)
    (k : Nat) (hk : k < net.length) (hfix : rep.getD k k = k) (hs : kindOf t k = .sum) : (chOf t k).Nodup := by
  have hx : net[k]? = some net[k] := List.getElem?_eq_getElem hk
  generalize net[k] = x at hx
  obtain ⟨R1, R2, R3⟩ := reads_facts t rep k x (hw k x hx) (fun j hj => S.basic j (by omega))
  have hall := items_all (α := α) t (x.ch.map (fun c => rep.getD c c)) (fun g => g < k) (fun c hc => (R1 c hc).1)
    (by intro c hc hnl g hg; have := R3 c hc g hg; have := (R1 c hc).1; omega)
  rcases sol_outcome b net t rep hw S k x hx with ⟨hkd, e, r⟩ | ⟨hkd, c, hc, e, r⟩ | ⟨hkd, hlen, e, r⟩ |
      ⟨hkd, hlen, _, p, hp, e, r⟩ | ⟨hkd, hlen, hb, e, r⟩
  · rw [kindOf_some t k x e, hkd] at hs; cases hs
  · have := (R1 c (by unfold repCh at hc; rw [hc]; simp)).1
    omega
  · rw [kindOf_some t k _ e] at hs; simp only [hkd] at hs; cases hs
  · have : p.1 ∈ (sumAcc' t (repCh rep x) x.ws).map Prod.fst := by rw [hp]; simp
    rw [mem_sumAcc'_keys] at this
    have := hall.2 x.ws p.1 this
    omega
  · rw [chOf_some t k _ e]
    exact sumAcc'_keys_nodup t _ _

/-! ### the post-order of an exported table -/

theorem posIn_inj (order : List Nat) (a b : Nat) (ha : a ∈ order) (h : posIn order a = posIn order b) : a = b := by
  have h1 : posIn order a < order.length := List.idxOf_lt_length_iff.2 ha
  have h2 : posIn order b < order.length := by rw [← h]; exact h1
  have e1 : order[posIn order a] = a := List.getElem_idxOf h1
  have e2 : order[posIn order b] = b := List.getElem_idxOf h2
  rw [← e1, ← e2]
  congr 1

theorem contains_map_posIn (order acc : List Nat) (i : Nat) (hi : i ∈ order) :
    (acc.map (posIn order)).contains (posIn order i) = acc.contains i := by
  rw [Bool.eq_iff_iff]
  simp only [List.contains_iff_mem, List.mem_map]
  constructor
  · rintro ⟨a, ha, he⟩
    rw [posIn_inj order i a hi he.symm]; exact ha
  · intro h; exact ⟨i, h, rfl⟩

/-- **the post-order commutes with the relabelling of the export** -/
theorem dfsPost_export (t : Net α) (ht : ChLt t) (order : List Nat) (f : Nat → Nat) (hcl : Closed t order)
    (hlt : ∀ i ∈ order, i < t.length) :
    ∀ fuel fuel' acc i, i < fuel → posIn order i < fuel' → (∀ a ∈ acc, a ∈ order) → i ∈ order →
      dfsPost (exportTable t order f) fuel' (acc.map (posIn order)) (posIn order i)
        = (dfsPost t fuel acc i).map (posIn order) := by
  intro fuel
  induction fuel with
  | zero => intro _ _ i hi; omega
  | succ fl ih =>
    intro fuel' acc i hif hif' hacc hi
    obtain ⟨fl', rfl⟩ : ∃ fl', fuel' = fl' + 1 := ⟨fuel' - 1, by omega⟩
    have hp : posIn order i < order.length := List.idxOf_lt_length_iff.2 hi
    have hget : order[posIn order i] = i := List.getElem_idxOf hp
    unfold dfsPost
    rw [contains_map_posIn order acc i hi]
    by_cases hin : acc.contains i = true
    · simp only [hin, if_true]
    · rw [if_neg hin, if_neg hin, export_chOf t order f hcl hlt _ hp, hget]
      have hmemcl := closed_mem t order hcl
      have fold : ∀ (cs acc : List Nat), (∀ c ∈ cs, c < fl ∧ posIn order c < fl' ∧ c ∈ order) →
          (∀ a ∈ acc, a ∈ order) →
          (cs.map (posIn order)).foldl (dfsPost (exportTable t order f) fl') (acc.map (posIn order))
            = (cs.foldl (dfsPost t fl) acc).map (posIn order) := by
        intro cs
        induction cs with
        | nil => intro acc _ _; rfl
        | cons c cs ihc =>
          intro acc hcs hacc
          obtain ⟨c1, c2, c3⟩ := hcs c List.mem_cons_self
          simp only [List.map_cons, List.foldl_cons]
          rw [ih fl' acc c c1 c2 hacc c3]
          apply ihc _ (fun d hd => hcs d (List.mem_cons_of_mem _ hd))
          intro a ha
          rcases dfsPost_sub t (fun a => a ∈ order) hmemcl fl acc c c3 a ha with h | h
          · exact hacc a h
          · exact h
      rw [fold (chOf t i) acc ?_ hacc]
      · simp
      · intro c hc
        have h1 := chOf_lt t ht i c hc
        have h2 : posIn order c < posIn order i := by
          have := hcl _ hp c (by rw [hget]; exact hc)
          exact idxOf_lt_of_mem_take order _ c this
        exact ⟨by omega, by omega, hmemcl i hi c hc⟩

theorem posIn_range (n c : Nat) (h : c < n) : posIn (List.range n) c = c := by
  have := List.nodup_range.idxOf_getElem (xs := List.range n) c (by simpa using h)
  simpa [posIn] using this

/-- entries of the identity export -/
theorem exportTable_range (out : Net α) (ht : ChLt out) (f : Nat → Nat) (p : Nat) (x : NNode α)
    (hx : out[p]? = some x) : (exportTable out (List.range out.length) f)[p]? = some { x with id := f p } := by
  have hp : p < out.length := (List.getElem?_eq_some_iff.1 hx).1
  unfold exportTable
  rw [List.getElem?_map, List.getElem?_range hp]
  simp only [Option.map_some, hx]
  congr 2
  conv => rhs; rw [← List.map_id x.ch]
  apply List.map_congr_left
  intro c hc
  exact posIn_range _ c (by have := ht p x hx c hc; omega)

/-- two tables that differ at most in the ids -/
def sameUpToIds (a b : Net α) : Prop :=
  a.map (fun x => { x with id := 0 }) = b.map (fun x => { x with id := 0 })

/-- **exporting an exported table changes nothing but (possibly) the ids** -/
theorem exportFrom_export (t : Net α) (ht : ChLt t) (r : Nat) (hr : r < t.length) (f : Nat → Nat)
    (res : Net α × List Nat) :
    let order := dfsPost t (t.length + 1) [] r
    let out := exportTable t order f
    exportFrom out (out.length - 1) = some res →
      res.2 = List.range out.length ∧ sameUpToIds res.1 out ∧
      ∃ ko', kahn out (out.length - 1) = some ko' ∧ res.1 = exportTable out (List.range out.length) (posIn ko') := by
  intro order out h
  have ho : OrderOK t r order := orderOK_dfsPost t ht r hr
  have hlen : out.length = order.length := exportTable_length _ _ _
  have hne : order.length ≠ 0 := fun h0 => ho.ne (List.eq_nil_of_length_eq_zero h0)
  have hcl : ChLt out := export_chLt t order f ho.closed ho.lt
  have hrmem : r ∈ order := List.mem_of_getElem? ho.last
  have hlastpos : posIn order r = order.length - 1 := by
    have hp : order.length - 1 < order.length := by omega
    have h1 := ho.last
    rw [List.getElem?_eq_getElem hp] at h1
    have := posIn_getElem order ho.nodup _ hp
    rw [Option.some.inj h1] at this; exact this
  have hdfs : dfsPost out (out.length + 1) [] (out.length - 1) = List.range out.length := by
    have := dfsPost_export t ht order f ho.closed ho.lt (t.length + 1) (out.length + 1) [] r (by omega)
      (by rw [hlastpos, hlen]; omega) (by simp) hrmem
    rw [hlastpos, ← hlen] at this
    simp only [List.map_nil] at this
    rw [this]
    show order.map (posIn order) = _
    rw [map_posIn_self order ho.nodup, hlen]
  obtain ⟨ko', hk', hord', he'⟩ := exportFrom_unpack out _ res.1 res.2 h
  rw [hdfs] at hord'
  refine ⟨hord', ?_, ko', hk', by rw [he', hord']⟩
  rw [he', hord']
  unfold sameUpToIds
  apply List.ext_getElem?
  intro p
  simp only [List.getElem?_map]
  cases hx : out[p]? with
  | none =>
    have : (exportTable out (List.range out.length) (posIn ko'))[p]? = none := by
      rw [List.getElem?_eq_none_iff] at hx ⊢
      rw [exportTable_length]; simpa using hx
    rw [this]
  | some x => rw [exportTable_range out hcl _ p x hx]; rfl

end Deeprob
