import DeeprobModel.Model.LeafQ
import Mathlib.Algebra.Order.Field.Basic
import Mathlib.Tactic.Ring
import Mathlib.Tactic.Linarith
import Mathlib.Tactic.FieldSimp
import Mathlib.Tactic.Positivity
import Mathlib.Tactic.SplitIfs
set_option linter.unusedSimpArgs false
set_option linter.unusedVariables false
set_option linter.unusedSectionVars false
/-
Algebra of the histogram leaf (`Model/LeafQ.lean`) over any linearly ordered field (so at `ℚ`, where the driver
computes, and at `ℝ`, where the integrals live): sign facts, `numpy.interp` on monotone knots (monotone,
bounded, and the two interpolations on swapped knots are inverse to each other), the closed form of the cdf.
-/
namespace Deeprob.LeafTheory
variable {α : Type} [Field α] [LinearOrder α] [IsStrictOrderedRing α]

/-- strictly increasing breaks -/
def Incr : List α → Prop
  | lo :: hi :: bs => lo < hi ∧ Incr (hi :: bs)
  | _ => True

/-- all heights non-negative -/
def NonNeg (hs : List α) : Prop := ∀ h ∈ hs, 0 ≤ h

/-- all heights positive -/
def AllPos (hs : List α) : Prop := ∀ h ∈ hs, 0 < h

theorem Incr.tail {lo hi : α} {bs : List α} (h : Incr (lo :: hi :: bs)) : Incr (hi :: bs) := h.2
theorem Incr.head_lt {lo hi : α} {bs : List α} (h : Incr (lo :: hi :: bs)) : lo < hi := h.1

theorem NonNeg.tail {h : α} {hs : List α} (hn : NonNeg (h :: hs)) : NonNeg hs :=
  fun x hx => hn x (List.mem_cons_of_mem _ hx)
theorem NonNeg.head {h : α} {hs : List α} (hn : NonNeg (h :: hs)) : 0 ≤ h := hn h (List.mem_cons_self ..)
theorem AllPos.tail {h : α} {hs : List α} (hn : AllPos (h :: hs)) : AllPos hs :=
  fun x hx => hn x (List.mem_cons_of_mem _ hx)
theorem AllPos.head {h : α} {hs : List α} (hn : AllPos (h :: hs)) : 0 < h := hn h (List.mem_cons_self ..)
theorem AllPos.nonNeg {hs : List α} (hn : AllPos hs) : NonNeg hs := fun x hx => (hn x hx).le

theorem incr_le_lastB : ∀ (bs : List α) (lo : α), Incr (lo :: bs) → lo ≤ lastB lo bs
  | [], lo, _ => le_refl _
  | hi :: bs, lo, h => le_trans h.1.le (by simpa [lastB] using incr_le_lastB bs hi h.2)

/-! ### signs -/

theorem histZ_nonneg : ∀ (hs : List α) (lo : α) (bs : List α), NonNeg hs → Incr (lo :: bs) → 0 ≤ histZ hs (lo :: bs)
  | [], _, _, _, _ => by simp [histZ]
  | _ :: _, _, [], _, _ => by simp [histZ]
  | h :: hs, lo, hi :: bs, hn, hi' => by
      simp only [histZ]
      have := histZ_nonneg hs hi bs hn.tail hi'.tail
      have h1 : 0 ≤ h * (hi - lo) := mul_nonneg hn.head (sub_nonneg.2 hi'.1.le)
      linarith

theorem histZ_pos : ∀ (hs : List α) (lo : α) (bs : List α), AllPos hs → Incr (lo :: bs) → hs ≠ [] → bs ≠ [] →
    0 < histZ hs (lo :: bs)
  | [], _, _, _, _, h, _ => absurd rfl h
  | _ :: _, _, [], _, _, _, h => absurd rfl h
  | h :: hs, lo, hi :: bs, hn, hi', _, _ => by
      simp only [histZ]
      have := histZ_nonneg hs hi bs hn.tail.nonNeg hi'.tail
      have h1 : 0 < h * (hi - lo) := mul_pos hn.head (sub_pos.2 hi'.1)
      linarith

theorem histRaw_nonneg (x : α) : ∀ (hs : List α) (b : List α), NonNeg hs → 0 ≤ histRaw x hs b
  | [], _, _ => by simp [histRaw]
  | _ :: _, [], _ => by simp [histRaw]
  | _ :: _, [_], _ => by simp [histRaw]
  | h :: hs, lo :: hi :: bs, hn => by
      simp only [histRaw]
      split_ifs
      · exact hn.head
      · exact histRaw_nonneg x hs (hi :: bs) hn.tail

theorem histPdf_nonneg' (hs b : List α) (x : α) (hn : NonNeg hs) (hb : Incr b) : 0 ≤ histPdf hs b x := by
  cases b with
  | nil => simp [histPdf]
  | cons b0 bs =>
    simp only [histPdf]
    split_ifs
    · exact le_refl _
    · exact div_nonneg (histRaw_nonneg x hs _ hn) (histZ_nonneg hs b0 bs hn hb)

/-- for `x` at or beyond the last break the closed-form cdf is the whole mass -/
theorem histCdfRaw_ge_last (x : α) : ∀ (hs : List α) (lo : α) (bs : List α), Incr (lo :: bs) → lastB lo bs ≤ x →
    histCdfRaw x hs (lo :: bs) = histZ hs (lo :: bs)
  | [], _, _, _, _ => by simp [histCdfRaw, histZ]
  | _ :: _, _, [], _, _ => by simp [histCdfRaw, histZ]
  | h :: hs, lo, hi :: bs, hb, hx => by
      simp only [histCdfRaw, histZ]
      have h1 : hi ≤ x := le_trans (incr_le_lastB bs hi hb.tail) (by simpa [lastB] using hx)
      rw [if_neg (not_lt.2 h1), histCdfRaw_ge_last x hs hi bs hb.tail (by simpa [lastB] using hx)]

theorem histCdfRaw_nonneg (x : α) : ∀ (hs : List α) (lo : α) (bs : List α), NonNeg hs → Incr (lo :: bs) → lo ≤ x →
    0 ≤ histCdfRaw x hs (lo :: bs)
  | [], _, _, _, _, _ => by simp [histCdfRaw]
  | _ :: _, _, [], _, _, _ => by simp [histCdfRaw]
  | h :: hs, lo, hi :: bs, hn, hb, hx => by
      simp only [histCdfRaw]
      split_ifs with hlt
      · exact mul_nonneg hn.head (sub_nonneg.2 hx)
      · have := histCdfRaw_nonneg x hs hi bs hn.tail hb.tail (not_lt.1 hlt)
        have h1 : 0 ≤ h * (hi - lo) := mul_nonneg hn.head (sub_nonneg.2 hb.1.le)
        linarith

/-! ### `numpy.interp` on monotone knots -/

/-- both coordinates weakly increasing along the knots, starting from `(xj, fj)` -/
def KnotsW : α → α → List (α × α) → Prop
  | _, _, [] => True
  | xj, fj, (xk, fk) :: rest => xj ≤ xk ∧ fj ≤ fk ∧ KnotsW xk fk rest

/-- first coordinates strictly, second coordinates weakly increasing -/
def KnotsOK : α → α → List (α × α) → Prop
  | _, _, [] => True
  | xj, fj, (xk, fk) :: rest => xj < xk ∧ fj ≤ fk ∧ KnotsOK xk fk rest

/-- both coordinates strictly increasing -/
def KnotsSS : α → α → List (α × α) → Prop
  | _, _, [] => True
  | xj, fj, (xk, fk) :: rest => xj < xk ∧ fj < fk ∧ KnotsSS xk fk rest

/-- second coordinate of the last knot -/
def lastY : α → List (α × α) → α
  | fj, [] => fj
  | _, (_, fk) :: rest => lastY fk rest

theorem KnotsOK.weak : ∀ {rest : List (α × α)} {xj fj : α}, KnotsOK xj fj rest → KnotsW xj fj rest
  | [], _, _, _ => trivial
  | (_, _) :: _, _, _, h => ⟨h.1.le, h.2.1, KnotsOK.weak h.2.2⟩

theorem KnotsOK.weak_swap : ∀ {rest : List (α × α)} {xj fj : α}, KnotsOK xj fj rest →
    KnotsW fj xj (rest.map Prod.swap)
  | [], _, _, _ => trivial
  | (_, _) :: _, _, _, h => ⟨h.2.1, h.1.le, KnotsOK.weak_swap h.2.2⟩

theorem KnotsSS.ok : ∀ {rest : List (α × α)} {xj fj : α}, KnotsSS xj fj rest → KnotsOK xj fj rest
  | [], _, _, _ => trivial
  | (_, _) :: _, _, _, h => ⟨h.1, h.2.1.le, KnotsSS.ok h.2.2⟩

theorem KnotsSS.ok_swap : ∀ {rest : List (α × α)} {xj fj : α}, KnotsSS xj fj rest →
    KnotsOK fj xj (rest.map Prod.swap)
  | [], _, _, _ => trivial
  | (_, _) :: _, _, _, h => ⟨h.2.1, h.1.le, KnotsSS.ok_swap h.2.2⟩

theorem swap_swap_knots (rest : List (α × α)) : (rest.map Prod.swap).map Prod.swap = rest := by
  simp [List.map_map]

theorem lastY_swap_swap : ∀ (rest : List (α × α)) (xj fj : α), KnotsW xj fj rest → fj ≤ lastY fj rest
  | [], _, _, _ => le_refl _
  | (xk, fk) :: rest, _, _, h => le_trans h.2.1 (by simpa [lastY] using lastY_swap_swap rest xk fk h.2.2)

/-- the interpolant never goes below the knot it starts from -/
theorem le_interpAux (x : α) : ∀ (rest : List (α × α)) (xj fj : α), KnotsW xj fj rest → xj ≤ x →
    fj ≤ interpAux x xj fj rest
  | [], _, _, _, _ => by simp [interpAux]
  | (xk, fk) :: rest, xj, fj, h, hx => by
      simp only [interpAux]
      split_ifs with hlt
      · have h1 : 0 < xk - xj := by linarith
        have h2 : 0 ≤ (fk - fj) / (xk - xj) * (x - xj) :=
          mul_nonneg (div_nonneg (sub_nonneg.2 h.2.1) h1.le) (sub_nonneg.2 hx)
        linarith
      · exact le_trans h.2.1 (le_interpAux x rest xk fk h.2.2 (not_lt.1 hlt))

/-- … and never above the last knot -/
theorem interpAux_le_last (x : α) : ∀ (rest : List (α × α)) (xj fj : α), KnotsW xj fj rest → xj ≤ x →
    interpAux x xj fj rest ≤ lastY fj rest
  | [], _, _, _, _ => by simp [interpAux, lastY]
  | (xk, fk) :: rest, xj, fj, h, hx => by
      simp only [interpAux, lastY]
      split_ifs with hlt
      · have h1 : 0 < xk - xj := by linarith
        have h3 : (fk - fj) / (xk - xj) * (x - xj) ≤ (fk - fj) / (xk - xj) * (xk - xj) :=
          mul_le_mul_of_nonneg_left (by linarith) (div_nonneg (sub_nonneg.2 h.2.1) h1.le)
        rw [div_mul_cancel₀ _ h1.ne'] at h3
        have := lastY_swap_swap rest xk fk h.2.2
        linarith
      · exact interpAux_le_last x rest xk fk h.2.2 (not_lt.1 hlt)

/-- beyond the last knot: its value -/
theorem interpAux_beyond (x : α) : ∀ (rest : List (α × α)) (xj fj : α),
    (∀ k ∈ rest, k.1 ≤ x) → interpAux x xj fj rest = lastY fj rest
  | [], _, _, _ => by simp [interpAux, lastY]
  | (xk, fk) :: rest, xj, fj, h => by
      simp only [interpAux, lastY]
      rw [if_neg (not_lt.2 (h (xk, fk) (List.mem_cons_self ..)))]
      exact interpAux_beyond x rest xk fk (fun k hk => h k (List.mem_cons_of_mem _ hk))

/-- monotone in the query point -/
theorem interpAux_mono {x x' : α} (hxx : x ≤ x') : ∀ (rest : List (α × α)) (xj fj : α), KnotsW xj fj rest → xj ≤ x →
    interpAux x xj fj rest ≤ interpAux x' xj fj rest
  | [], _, _, _, _ => by simp [interpAux]
  | (xk, fk) :: rest, xj, fj, h, hx => by
      simp only [interpAux]
      by_cases h1 : x < xk
      · have hpos : 0 < xk - xj := by linarith
        have hs : 0 ≤ (fk - fj) / (xk - xj) := div_nonneg (sub_nonneg.2 h.2.1) hpos.le
        rw [if_pos h1]
        by_cases h2 : x' < xk
        · rw [if_pos h2]
          have := mul_le_mul_of_nonneg_left (sub_le_sub_right hxx xj) hs
          linarith
        · rw [if_neg h2]
          have h3 : (fk - fj) / (xk - xj) * (x - xj) ≤ (fk - fj) / (xk - xj) * (xk - xj) :=
            mul_le_mul_of_nonneg_left (by linarith) hs
          rw [div_mul_cancel₀ _ hpos.ne'] at h3
          have := le_interpAux x' rest xk fk h.2.2 (not_lt.1 h2)
          linarith
      · have h2 : ¬ x' < xk := not_lt.2 (le_trans (not_lt.1 h1) hxx)
        rw [if_neg h1, if_neg h2]
        exact interpAux_mono hxx rest xk fk h.2.2 (not_lt.1 h1)

/-- **the two interpolations on swapped knots are inverse to each other**: for knots with strictly increasing
first and weakly increasing second coordinates, `interp (interp u (swap K)) K = u` for every `u` between the
first and the last second coordinate. -/
theorem interpAux_inverse (u : α) : ∀ (rest : List (α × α)) (xj fj : α), KnotsOK xj fj rest → fj ≤ u →
    u ≤ lastY fj rest →
    interpAux (interpAux u fj xj (rest.map Prod.swap)) xj fj rest = u
  | [], xj, fj, _, h1, h2 => by
      simp only [List.map_nil, interpAux]
      exact le_antisymm h1 (by simpa [lastY] using h2)
  | (xk, fk) :: rest, xj, fj, h, h1, h2 => by
      simp only [List.map_cons, Prod.swap_prod_mk, interpAux]
      by_cases hlt : u < fk
      · rw [if_pos hlt]
        have hf : 0 < fk - fj := by linarith
        have hx : 0 < xk - xj := sub_pos.2 h.1
        have hq : (u - fj) / (fk - fj) < 1 := (div_lt_one hf).2 (by linarith)
        have ht : (xk - xj) / (fk - fj) * (u - fj) + xj < xk := by
          have : (xk - xj) / (fk - fj) * (u - fj) = (xk - xj) * ((u - fj) / (fk - fj)) := by
            field_simp
          rw [this]
          have := mul_lt_mul_of_pos_left hq hx
          linarith
        rw [if_pos ht]
        field_simp
        ring
      · rw [if_neg hlt]
        have hge : xk ≤ interpAux u fk xk (rest.map Prod.swap) :=
          le_interpAux u _ fk xk (KnotsOK.weak_swap h.2.2) (not_lt.1 hlt)
        rw [if_neg (not_lt.2 hge)]
        exact interpAux_inverse u rest xk fk h.2.2 (not_lt.1 hlt) (by simpa [lastY] using h2)

/-! ### the knots of a histogram -/

theorem histKnots_ok (z : α) (hz : 0 < z) : ∀ (hs : List α) (lo : α) (bs : List α) (acc : α), NonNeg hs →
    Incr (lo :: bs) → KnotsOK lo acc (histKnots z acc hs (lo :: bs))
  | [], _, _, _, _, _ => by simp [histKnots, KnotsOK]
  | _ :: _, _, [], _, _, _ => by simp [histKnots, KnotsOK]
  | h :: hs, lo, hi :: bs, acc, hn, hb => by
      simp only [histKnots, KnotsOK]
      refine ⟨hb.1, ?_, histKnots_ok z hz hs hi bs _ hn.tail hb.tail⟩
      have : 0 ≤ h / z * (hi - lo) := mul_nonneg (div_nonneg hn.head hz.le) (sub_nonneg.2 hb.1.le)
      linarith

theorem histKnots_ss (z : α) (hz : 0 < z) : ∀ (hs : List α) (lo : α) (bs : List α) (acc : α), AllPos hs →
    Incr (lo :: bs) → KnotsSS lo acc (histKnots z acc hs (lo :: bs))
  | [], _, _, _, _, _ => by simp [histKnots, KnotsSS]
  | _ :: _, _, [], _, _, _ => by simp [histKnots, KnotsSS]
  | h :: hs, lo, hi :: bs, acc, hn, hb => by
      simp only [histKnots, KnotsSS]
      refine ⟨hb.1, ?_, histKnots_ss z hz hs hi bs _ hn.tail hb.tail⟩
      have : 0 < h / z * (hi - lo) := mul_pos (div_pos hn.head hz) (sub_pos.2 hb.1)
      linarith

/-- **closed form of `np.interp(x, _hbins, _hcdf)`**: the accumulated mass plus the closed-form partial mass -/
theorem interpAux_histKnots (z : α) (hz : z ≠ 0) (x : α) : ∀ (hs : List α) (lo : α) (bs : List α) (acc : α),
    Incr (lo :: bs) → lo ≤ x →
    interpAux x lo acc (histKnots z acc hs (lo :: bs)) = acc + histCdfRaw x hs (lo :: bs) / z
  | [], _, _, _, _, _ => by simp [histKnots, interpAux, histCdfRaw]
  | _ :: _, _, [], _, _, _ => by simp [histKnots, interpAux, histCdfRaw]
  | h :: hs, lo, hi :: bs, acc, hb, hx => by
      simp only [histKnots, interpAux, histCdfRaw]
      have hw : hi - lo ≠ 0 := (sub_pos.2 hb.1).ne'
      split_ifs with hlt
      · field_simp
        ring
      · rw [interpAux_histKnots z hz x hs hi bs _ hb.tail (not_lt.1 hlt)]
        field_simp
        ring

theorem lastY_histKnots (z : α) (hz : z ≠ 0) : ∀ (hs : List α) (lo : α) (bs : List α) (acc : α),
    lastY acc (histKnots z acc hs (lo :: bs)) = acc + histZ hs (lo :: bs) / z
  | [], _, _, _ => by simp [histKnots, lastY, histZ]
  | _ :: _, _, [], _ => by simp [histKnots, lastY, histZ]
  | h :: hs, lo, hi :: bs, acc => by
      simp only [histKnots, lastY, histZ]
      rw [lastY_histKnots z hz hs hi bs]
      field_simp
      ring

theorem histKnots_fst_le (z : α) : ∀ (hs : List α) (lo : α) (bs : List α) (acc : α), Incr (lo :: bs) →
    ∀ k ∈ histKnots z acc hs (lo :: bs), k.1 ≤ lastB lo bs
  | [], _, _, _, _ => by simp [histKnots]
  | _ :: _, _, [], _, _ => by simp [histKnots]
  | h :: hs, lo, hi :: bs, acc, hb => by
      intro k hk
      simp only [histKnots, List.mem_cons] at hk
      rcases hk with rfl | hk
      · simpa [lastB] using incr_le_lastB bs hi hb.tail
      · simpa [lastB] using histKnots_fst_le z hs hi bs _ hb.tail k hk

end Deeprob.LeafTheory
