import DeeprobModel.Lemmas.FlowsLemmas
import Mathlib.LinearAlgebra.Matrix.Block
import Mathlib.Data.Fin.Tuple.Sort
import Mathlib.Algebra.BigOperators.Fin
import Mathlib.Algebra.Order.BigOperators.Ring.Finset
/-
Determinant part of property C15: a matrix that is triangular with respect to a degree assignment
has determinant `∏ diag`; `exp` of a finite sum; log|det| of the Jacobian patterns of the layers.

No calculus is formalised: the theorems speak about *any* matrix `J` with the stated diagonal and
vanishing pattern (that the true Jacobian of a layer has this pattern is (i) the dependency
structure proved in `Props/C15.lean` and (ii) the elementary derivative `∂(x·e^s + t)/∂x = e^s`).
-/
open Matrix BigOperators

namespace Deeprob.Flows

section Det
variable {n : Nat} {R : Type} [CommRing R]

/-- A square matrix whose off-diagonal entry `(i, j)` vanishes whenever `deg i ≤ deg j` (row `i` may
only read columns of strictly smaller degree, besides its own) has determinant `∏ᵢ Jᵢᵢ`. -/
theorem det_triangular_by_degree' (J : Matrix (Fin n) (Fin n) R) (deg : Fin n → ℕ)
    (h : ∀ i j, i ≠ j → deg i ≤ deg j → J i j = 0) : J.det = ∏ i, J i i := by
  let σ := Tuple.sort deg
  have hmono : Monotone (deg ∘ σ) := Tuple.monotone_sort deg
  have hlow : (J.submatrix σ σ).IsLowerTriangular := by
    intro i j hij
    have hij' : i < j := hij
    show J (σ i) (σ j) = 0
    apply h
    · exact fun e => (ne_of_lt hij') (σ.injective e)
    · exact hmono (le_of_lt hij')
  have hdet := det_of_isLowerTriangular _ hlow
  rw [det_submatrix_equiv_self] at hdet
  rw [hdet]
  exact Equiv.prod_comp σ (fun i => J i i)

end Det

section SumBridge
variable {α : Type} [AddCommMonoid α]

theorem sumVar_eq_sum (n : Nat) (f : Nat → α) : sumVar n f = ∑ i : Fin n, f i := by
  induction n with
  | zero => rfl
  | succ n ih => rw [sumVar_succ, ih, Fin.sum_univ_castSucc]; rfl

end SumBridge

section ExpSum
variable {F : Type} [Field F] [LinearOrder F] (E : ExpLog F)

theorem exp_sum {ι : Type} (s : Finset ι) (f : ι → F) : E.exp (∑ i ∈ s, f i) = ∏ i ∈ s, E.exp (f i) := by
  classical
  induction s using Finset.induction_on with
  | empty => simp [E.exp_zero]
  | insert a s ha ih => rw [Finset.sum_insert ha, Finset.prod_insert ha, E.exp_add, ih]

/-- Division-free form: `det J = exp (Σ dᵢ)` for a degree-triangular matrix with diagonal `exp dᵢ`. -/
theorem det_eq_exp_sum {n : Nat} (J : Matrix (Fin n) (Fin n) F) (deg : Fin n → ℕ) (d : Fin n → F)
    (hdiag : ∀ i, J i i = E.exp (d i)) (h : ∀ i j, i ≠ j → deg i ≤ deg j → J i j = 0) :
    J.det = E.exp (∑ i, d i) := by
  rw [det_triangular_by_degree' J deg h, exp_sum]
  exact Finset.prod_congr rfl (fun i _ => hdiag i)

variable [IsStrictOrderedRing F]

/-- `log |det J| = Σ dᵢ` for a degree-triangular matrix with diagonal `exp dᵢ`. -/
theorem logabsdet_eq_sum {n : Nat} (J : Matrix (Fin n) (Fin n) F) (deg : Fin n → ℕ) (d : Fin n → F)
    (hdiag : ∀ i, J i i = E.exp (d i)) (h : ∀ i j, i ≠ j → deg i ≤ deg j → J i j = 0) :
    E.log |J.det| = ∑ i, d i := by
  rw [det_eq_exp_sum E J deg d hdiag h, abs_of_pos (E.exp_pos _), E.log_exp]

/-- Chain rule for reported log-dets: if `a = log|det J₁|` and `b = log|det J₂|` (both Jacobians
invertible) then `a + b = log|det (J₂ * J₁)|`. -/
theorem logabsdet_mul {n : Nat} (J1 J2 : Matrix (Fin n) (Fin n) F) (h1 : J1.det ≠ 0) (h2 : J2.det ≠ 0) :
    E.log |(J2 * J1).det| = E.log |J1.det| + E.log |J2.det| := by
  rw [det_mul, abs_mul, log_mul E (abs_pos.2 h2) (abs_pos.2 h1), add_comm]

end ExpSum

section DiagLogDet
variable {F : Type} [Field F] [LinearOrder F] [IsStrictOrderedRing F] (E : ExpLog F)

theorem log_prod {ι : Type} (s : Finset ι) (f : ι → F) (hf : ∀ i ∈ s, 0 < f i) :
    E.log (∏ i ∈ s, f i) = ∑ i ∈ s, E.log (f i) := by
  classical
  induction s using Finset.induction_on with
  | empty => simp [log_one E]
  | insert a s ha ih =>
    rw [Finset.prod_insert ha, Finset.sum_insert ha,
      log_mul E (hf a (Finset.mem_insert_self a s))
        (Finset.prod_pos (fun i hi => hf i (Finset.mem_insert_of_mem hi))),
      ih (fun i hi => hf i (Finset.mem_insert_of_mem hi))]

/-- `log|det J| = Σ log dₖ` for a diagonal matrix with positive diagonal `d`. -/
theorem logabsdet_diag {n : Nat} (J : Matrix (Fin n) (Fin n) F) (d : Fin n → F)
    (hoff : ∀ i j, i ≠ j → J i j = 0) (hdiag : ∀ k, J k k = d k) (hpos : ∀ k, 0 < d k) :
    E.log |J.det| = ∑ k, E.log (d k) := by
  rw [det_triangular_by_degree' J (fun _ => 0) (fun i j hij _ => hoff i j hij)]
  simp only [hdiag]
  rw [abs_of_pos (Finset.prod_pos (fun i _ => hpos i)), log_prod E _ _ (fun i _ => hpos i)]

theorem log_div {a b : F} (ha : 0 < a) (hb : 0 < b) : E.log (a / b) = E.log a - E.log b := by
  have h : a = a / b * b := (div_mul_cancel₀ a (ne_of_gt hb)).symm
  have := log_mul E (div_pos ha hb) hb
  rw [← h] at this
  rw [this, add_sub_cancel_right]

omit [IsStrictOrderedRing F] in
theorem sqrt_pos {a : F} (ha : 0 < a) : 0 < E.sqrt a :=
  lt_of_le_of_ne (E.sqrt_nonneg a) (Ne.symm (sqrt_ne_zero E ha))

/-- `log √a = ½ log a` (with `half + half = 1`). -/
theorem log_sqrt (half : F) (hhalf : half + half = 1) {a : F} (ha : 0 < a) :
    E.log (E.sqrt a) = half * E.log a := by
  have h := log_mul E (sqrt_pos E ha) (sqrt_pos E ha)
  rw [E.sqrt_sq a (le_of_lt ha)] at h
  rw [h]
  linear_combination (-(E.log (E.sqrt a))) * hhalf

end DiagLogDet

section SumDiv
variable {α : Type} [CommSemiring α]

theorem sumVar_add_range (a b : Nat) (f : Nat → α) :
    sumVar (a + b) f = sumVar a f + sumVar b (fun k => f (a + k)) := by
  induction b with
  | zero => simp [sumVar]
  | succ b ih => rw [← Nat.add_assoc, sumVar_succ, sumVar_succ, ih, add_assoc]

theorem sumVar_const (n : Nat) (c : α) : sumVar n (fun _ => c) = (n : α) * c := by
  induction n with
  | zero => simp [sumVar]
  | succ n ih => rw [sumVar_succ, ih]; push_cast; ring

/-- Per-channel parameters broadcast over a grid: `Σ_{k < C·g} f(k / g) = (Σ_{c < C} f c) · g`. -/
theorem sumVar_div_grid (C g : Nat) (f : Nat → α) :
    sumVar (C * g) (fun k => f (k / g)) = sumVar C f * (g : α) := by
  induction C with
  | zero => simp [sumVar]
  | succ C ih =>
    rw [Nat.succ_mul, sumVar_add_range, ih, sumVar_succ]
    have : sumVar g (fun k => f ((C * g + k) / g)) = sumVar g (fun _ => f C) := by
      apply sumVar_congr'
      intro k hk
      rw [mul_add_div' _ _ _ hk]
    rw [this, sumVar_const]
    ring

end SumDiv

end Deeprob.Flows
