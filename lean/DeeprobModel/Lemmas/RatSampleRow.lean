import DeeprobModel.Lemmas.RatSampleBase
set_option linter.unusedSimpArgs false
set_option linter.unusedVariables false
set_option linter.unusedSectionVars false
/-
C16 (MPE clause), part 5: architecture facts (the leaves selected by the pass are block `t` of the mask
buffers) and the final row identity.
-/
namespace Deeprob
namespace RatSample
open RatSpn TCirc Tensor

section arch
variable {α : Type} [Field α] [LinearOrder α] [IsStrictOrderedRing α]

theorem block_index_lt (reps t m j : Nat) (ht : t < reps) (hj : j < m) : t * m + j < reps * m := by
  have h1 : (t + 1) * m ≤ reps * m := Nat.mul_le_mul_right m (by omega)
  rw [Nat.add_mul, Nat.one_mul] at h1
  omega

theorem regs_block (S : Spec α) (hd : 0 < S.depth) (t j : Nat) (ht : t < S.reps) (hj : j < 2 ^ S.depth) :
    S.regs.getD (t * 2 ^ S.depth + j) [] = (regionLevel (S.ρ t) S.n S.depth).getD j [] := by
  have hb := leaf_block S.ρ S.n S.depth S.reps t hd ht
  have h1 : ((S.regs.drop (t * 2 ^ S.depth)).take (2 ^ S.depth))[j]? = S.regs[t * 2 ^ S.depth + j]? := by
    rw [List.getElem?_take, if_pos hj, List.getElem?_drop]
  unfold Spec.regs at h1 ⊢
  rw [hb] at h1
  simp only [List.getD_eq_getElem?_getD, h1]

theorem mrow_block (S : Spec α) (hρ : ∀ t r, (S.ρ t r).Perm r) (hd : 0 < S.depth) (t j : Nat) (ht : t < S.reps)
    (hj : j < 2 ^ S.depth) :
    S.mrow (t * 2 ^ S.depth + j) = maskRow (dimOf S.n S.depth) ((regionLevel (S.ρ t) S.n S.depth).getD j []) ∧
    S.prow (t * 2 ^ S.depth + j) = padMaskRow (dimOf S.n S.depth) ((regionLevel (S.ρ t) S.n S.depth).getD j []) := by
  have hlt : t * 2 ^ S.depth + j < (leafRegions S.ρ S.n S.depth S.reps).length := by
    rw [leafRegions_length S.ρ S.n S.depth S.reps hd]
    exact block_index_lt _ _ _ _ ht hj
  have hr := regs_block S hd t j ht hj
  unfold Spec.mrow Spec.prow
  unfold Spec.regs at hr ⊢
  rw [maskBuf_eq S.ρ hρ S.n S.depth S.reps hd, padMaskBuf_eq S.ρ hρ S.n S.depth S.reps hd,
    getD_map_of_lt _ _ _ hlt [] [], getD_map_of_lt _ _ _ hlt [] [], hr]
  exact ⟨rfl, rfl⟩

theorem level_getD_mem (S : Spec α) (t j : Nat) (hj : j < 2 ^ S.depth) :
    (regionLevel (S.ρ t) S.n S.depth).getD j [] ∈ regionLevel (S.ρ t) S.n S.depth := by
  have hl : j < (regionLevel (S.ρ t) S.n S.depth).length := by rw [level_length]; exact hj
  rw [List.getD_eq_getElem?_getD, List.getElem?_eq_getElem hl]
  exact List.getElem_mem hl

theorem rows_len (S : Spec α) (hρ : ∀ t r, (S.ρ t r).Perm r) (hd : 0 < S.depth) (t : Nat) (ht : t < S.reps) :
    ∀ g ∈ leafGroups t S.depth, (S.mrow g).length = dimOf S.n S.depth ∧ (S.prow g).length = dimOf S.n S.depth := by
  intro g hg
  rw [leafGroups_eq, List.mem_map] at hg
  obtain ⟨j, hj, rfl⟩ := hg
  rw [List.mem_range] at hj
  obtain ⟨h1, h2⟩ := mrow_block S hρ hd t j ht hj
  rw [h1, h2]
  exact ⟨maskRow_length _ _ (leaf_le_dim (S.ρ t) (hρ t) S.n S.depth _ (level_getD_mem S t j hj)), padMaskRow_length _ _⟩

theorem groups_mrow (S : Spec α) (hρ : ∀ t r, (S.ρ t r).Perm r) (hd : 0 < S.depth) (t : Nat) (ht : t < S.reps) :
    (leafGroups t S.depth).map S.mrow = (regionLevel (S.ρ t) S.n S.depth).map (maskRow (dimOf S.n S.depth)) ∧
    (leafGroups t S.depth).map S.prow = (regionLevel (S.ρ t) S.n S.depth).map (padMaskRow (dimOf S.n S.depth)) := by
  rw [leafGroups_eq, List.map_map, List.map_map]
  have hl := level_length (S.ρ t) S.n S.depth
  constructor
  · rw [← range_map_getD' (regionLevel (S.ρ t) S.n S.depth) [] (maskRow (dimOf S.n S.depth)), hl]
    apply List.map_congr_left
    intro j hj
    exact (mrow_block S hρ hd t j ht (List.mem_range.1 hj)).1
  · rw [← range_map_getD' (regionLevel (S.ρ t) S.n S.depth) [] (padMaskRow (dimOf S.n S.depth)), hl]
    apply List.map_congr_left
    intro j hj
    exact (mrow_block S hρ hd t j ht (List.mem_range.1 hj)).2

/-- the variables / dummy flags of the columns of the selected leaves are row `t` of the reshaped
`mask` / `pad_mask` buffers -/
theorem Zof_mask (S : Spec α) (hρ : ∀ t r, (S.ρ t r).Perm r) (hd : 0 < S.depth) (t : Nat) (ht : t < S.reps)
    (os : List Nat) (hos : os.length = (leafGroups t S.depth).length) :
    (Zof S (leafGroups t S.depth, os)).map (fun z => z.1) = maskFlat S.n S.depth S.regs t ∧
    (Zof S (leafGroups t S.depth, os)).map (fun z => z.2.1) = padFlat S.n S.depth S.regs t := by
  have hfst : ((leafGroups t S.depth).zip os).map Prod.fst = leafGroups t S.depth :=
    List.map_fst_zip (by omega)
  obtain ⟨hm, hp⟩ := groups_mrow S hρ hd t ht
  unfold Spec.regs
  rw [maskFlat_rep S.ρ hρ S.n S.depth S.reps t hd ht, padFlat_rep S.ρ hρ S.n S.depth S.reps t hd ht, ← hm, ← hp]
  unfold Zof
  simp only [List.map_flatMap]
  constructor
  · have h1 : ∀ go ∈ (leafGroups t S.depth).zip os, (steps S go).map (fun z => z.1) = S.mrow go.1 := by
      intro go _
      unfold steps
      rw [List.map_map]
      exact range_map_getD (S.mrow go.1) 0
    have h2 : ((leafGroups t S.depth).zip os).map (fun go => S.mrow go.1) = (leafGroups t S.depth).map S.mrow := by
      conv => rhs; rw [← hfst]
      rw [List.map_map]; rfl
    rw [List.flatMap_congr h1, List.flatMap_def, h2]
  · have h1 : ∀ go ∈ (leafGroups t S.depth).zip os, (steps S go).map (fun z => z.2.1) = S.prow go.1 := by
      intro go hgo
      have hg : go.1 ∈ leafGroups t S.depth := (List.of_mem_zip (a := go.1) (b := go.2) hgo).1
      obtain ⟨l1, l2⟩ := rows_len S hρ hd t ht go.1 hg
      unfold steps
      rw [List.map_map, l1, ← l2]
      exact range_map_getD (S.prow go.1) false
    have h2 : ((leafGroups t S.depth).zip os).map (fun go => S.prow go.1) = (leafGroups t S.depth).map S.prow := by
      conv => rhs; rw [← hfst]
      rw [List.map_map]; rfl
    rw [List.flatMap_congr h1, List.flatMap_def, h2]

theorem leafGroups_head (t d : Nat) : (leafGroups t d).headD 0 / 2 ^ d = t := by
  rw [leafGroups_eq]
  have hp := two_pow_pos d
  obtain ⟨m, hm⟩ : ∃ m, 2 ^ d = m + 1 := ⟨2 ^ d - 1, by omega⟩
  rw [hm, List.range_succ_eq_map]
  simp only [List.map_cons, List.headD_cons, Nat.add_zero]
  rw [← hm]
  exact Nat.mul_div_cancel _ hp

/-- **the row of the layer-wise MPE pass is the row written by the MPE descent of the unrolled
circuit** (lemma form of `ratspn_mpe_is_descent`) -/
theorem mpeRow_eq_descent (S : Spec α) (y : Nat) (row : List (Option Nat))
    (hρ : ∀ t r, (S.ρ t r).Perm r) (hacc : accepted S.n S.depth = true) (hreps : 0 < S.reps)
    (hb : 0 < S.batch) (hs : 0 < S.rgSum) (hrow : row.length = S.n) :
    (mpeRow S y row).map some = (List.range S.n).map (mpeDescent (Ev.ofList row) (unrollT S y)) := by
  obtain ⟨hn, hd, h2⟩ := (accepted_iff S.n S.depth).1 hacc
  have hp2 := two_pow_pos S.depth
  -- shape of the root layer input
  have hG : (topVal S (Ev.ofList row)).groups = S.reps := by
    unfold topVal
    rw [innerVal_groups]
    simp only [baseVal, Spec.regs]
    rw [leafRegions_length S.ρ S.n S.depth S.reps hd]
    exact Nat.mul_div_cancel _ hp2
  have hN : 0 < (topVal S (Ev.ofList row)).nodes :=
    innerVal_nodes_pos S.w S.rgSum hs S.depth 0 (baseVal S (Ev.ofList row)) hb
  rw [mpeDescent_eq_fold S y (Ev.ofList row) hb hs (by rw [hG]; exact hreps)]
  -- the root choice and the repetition it selects
  have hidx : argmax (List.zipWith (· * ·) (S.wroot y) (flat (topVal S (Ev.ofList row))))
      < S.reps * (topVal S (Ev.ofList row)).nodes := by
    apply argmax_lt_of_pos _ _ (Nat.mul_pos hreps hN)
    simp only [List.length_zipWith, flat_length, hG]
    exact Nat.min_le_right _ _
  generalize hidxdef : argmax (List.zipWith (· * ·) (S.wroot y) (flat (topVal S (Ev.ofList row)))) = idx at hidx
  have ht : idx / (topVal S (Ev.ofList row)).nodes < S.reps :=
    Nat.div_lt_of_lt_mul (by rw [Nat.mul_comm]; exact hidx)
  generalize htdef : idx / (topVal S (Ev.ofList row)).nodes = t at ht
  have hio : mpeIdx S y (Ev.ofList row) =
      mpeDown S.w S.rgSum S.depth 0 (baseVal S (Ev.ofList row)) ([t], [idx % (topVal S (Ev.ofList row)).nodes]) := by
    unfold mpeIdx rootMpe
    simp only [hidxdef, htdef]
  have hio1 : (mpeIdx S y (Ev.ofList row)).1 = leafGroups t S.depth := by
    rw [hio]; exact mpeDown_groups S.w S.rgSum t S.depth 0 _ _
  have hio2 : (mpeIdx S y (Ev.ofList row)).2.length = (leafGroups t S.depth).length := by
    rw [← hio1, hio]
    exact mpeDown_len S.w S.rgSum S.depth 0 _ _ (by simp)
  -- the columns
  have hZ : Zof S (mpeIdx S y (Ev.ofList row)) = Zof S (leafGroups t S.depth, (mpeIdx S y (Ev.ofList row)).2) := by
    rw [← hio1]
  obtain ⟨hA, hB⟩ := Zof_mask S hρ hd t ht _ hio2
  rw [← hZ] at hA hB
  have hM := Zof_modes S (mpeIdx S y (Ev.ofList row))
  generalize Zof S (mpeIdx S y (Ev.ofList row)) = Z at hA hB hM
  have hZlen : Z.length = S.n + padOf S.n S.depth := by
    have := congrArg List.length hA
    rw [List.length_map] at this
    rw [this]
    exact maskFlat_len S.ρ hρ S.n S.depth S.reps t hd ht
  have hnd : ((Z.filter (fun z => !z.2.1)).map (fun z => z.1)).Nodup := by
    have hperm := nonpad_perm S.ρ hρ S.n S.depth S.reps t hd ht
    have hz : (maskFlat S.n S.depth S.regs t).zip (padFlat S.n S.depth S.regs t) = Z.map (fun z => (z.1, z.2.1)) := by
      rw [← hA, ← hB, List.zip_map']
    unfold Spec.regs at hz
    rw [hz, List.filter_map, List.map_map] at hperm
    exact hperm.nodup_iff.2 List.nodup_range
  -- the row
  unfold mpeRow
  simp only
  rw [hio1, leafGroups_head, ← hM]
  have hslen : (Z.map (fun z => z.2.2)).length = S.n + padOf S.n S.depth := by rw [List.length_map, hZlen]
  unfold Spec.regs
  rw [unpad_eq_gather S.ρ hρ S.n S.depth S.reps t hd ht _ hslen]
  have hkeys := unpadIdx_keys S.ρ hρ S.n S.depth S.reps t hd ht
  have hfil := unpadIdx_eq_filter S.ρ hρ S.n S.depth S.reps t hd ht
  have hul : (unpadIdx S.n S.depth (leafRegions S.ρ S.n S.depth S.reps) t).length = S.n := by
    have := congrArg List.length hkeys
    simpa using this
  have hmemU : ∀ p ∈ unpadIdx S.n S.depth (leafRegions S.ρ S.n S.depth S.reps) t,
      p < (Z.map (fun z => z.2.2)).length := by
    intro p hp
    rw [hfil, List.mem_filter] at hp
    rw [hslen]
    exact mem_invMask_lt S.ρ hρ S.n S.depth S.reps t hd ht p hp.1
  have hgl := gatherRow_length (Z.map (fun z => z.2.2)) _ hmemU
  apply List.ext_getElem
  · simp [completeRow, hgl, hul, hrow]
  · intro i h1 h2
    simp only [List.length_map, List.length_range] at h2
    have hiU : i < (unpadIdx S.n S.depth (leafRegions S.ρ S.n S.depth S.reps) t).length := by rw [hul]; exact h2
    -- the position read for variable `i`
    generalize hpdef : (unpadIdx S.n S.depth (leafRegions S.ρ S.n S.depth S.reps) t)[i] = p
    have hpmem : p ∈ unpadIdx S.n S.depth (leafRegions S.ρ S.n S.depth S.reps) t := by
      rw [← hpdef]; exact List.getElem_mem hiU
    have hpZ : p < Z.length := by have := hmemU p hpmem; simpa using this
    have hpnp : (padFlat S.n S.depth (leafRegions S.ρ S.n S.depth S.reps) t).getD p false = false := by
      rw [hfil, List.mem_filter] at hpmem
      simpa using hpmem.2
    have hpkey : (maskFlat S.n S.depth (leafRegions S.ρ S.n S.depth S.reps) t).getD p 0 = i := by
      have := congrArg (fun l => l[i]?) hkeys
      simp only [List.getElem?_map, List.getElem?_eq_getElem hiU, hpdef, Option.map_some,
        List.getElem?_range h2] at this
      exact Option.some.inj this
    unfold Spec.regs at hA hB
    rw [← hA] at hpkey
    rw [← hB] at hpnp
    simp only [List.getD_eq_getElem?_getD, List.getElem?_map, List.getElem?_eq_getElem hpZ, Option.map_some,
      Option.getD_some] at hpkey hpnp
    have hzmem : (i, false, Z[p].2.2) ∈ Z := by
      have : Z[p] = (i, false, Z[p].2.2) := by
        rw [← hpkey, ← hpnp]
      rw [← this]
      exact List.getElem_mem hpZ
    have hsamp : (gatherRow (Z.map (fun z => z.2.2)) (unpadIdx S.n S.depth (leafRegions S.ρ S.n S.depth S.reps) t))[i]?
        = some Z[p].2.2 := by
      rw [gatherRow_getElem? _ _ hmemU i, List.getElem?_eq_getElem hiU, hpdef]
      simp [List.getElem?_map, List.getElem?_eq_getElem hpZ]
    have hfold := foldl_step_at i Z[p].2.2 Z (Ev.ofList row) hnd hzmem
    have hirow : i < row.length := by rw [hrow]; exact h2
    simp only [List.getElem_map, List.getElem_range]
    rw [hfold]
    have hil : i < (gatherRow (Z.map (fun z => z.2.2)) (unpadIdx S.n S.depth (leafRegions S.ρ S.n S.depth S.reps) t)).length := by
      rw [hgl, hul]; exact h2
    have hsamp' := hsamp
    rw [List.getElem?_eq_getElem hil] at hsamp'
    have hsv := Option.some.inj hsamp'
    simp only [completeRow, List.getElem_map, List.getElem_zip, hsv, Ev.ofList, List.getD_eq_getElem?_getD,
      List.getElem?_eq_getElem hirow, Option.getD_some]
    cases row[i] <;> rfl

end arch

end RatSample
end Deeprob
