import DeeprobModel.Model.PostOrder
import Mathlib.Data.List.Induction
import Mathlib.Data.List.Nodup
import Mathlib.Data.List.Lattice
/-
The explicit-stack post-order walk of `to_pc` / `get_scopes` (`Model/PostOrder.lean`) computes the recursive `fold`:
`run_eq_fold`.  Needs pairwise distinct node ids (`t.vars.Nodup`): the test `last_node_visited in node.get_children()`
recognises "my children are done" by the identity of the node finished last.
-/
namespace Deeprob.PostOrder
open Deeprob

variable {β : Type} (comb : RTree → List β → β)

theorem run_add (n m : Nat) (s : St β) : run comb (n + m) s = run comb m (run comb n s) := by
  induction n generalizing s with
  | zero => simp [run]
  | succ n ih => rw [Nat.succ_add]; simp only [run]; exact ih _

theorem step_done (s : St β) (h : s.stack = []) : step comb s = s := by
  unfold step; simp [h]

theorem run_done (n : Nat) (s : St β) (h : s.stack = []) : run comb n s = s := by
  induction n with
  | zero => rfl
  | succ n ih => simp only [run]; rw [step_done comb s h]; exact ih

theorem step_leaf (S : List RTree) (i : Nat) (l : Option Nat) (B : List β) :
    step comb ⟨S ++ [.node i []], l, B⟩ = ⟨S, some i, B ++ [comb (.node i []) []]⟩ := by
  simp [step, RTree.kids, RTree.idx]

theorem step_push (S : List RTree) (i : Nat) (cs : List RTree) (hne : cs ≠ []) (l : Option Nat) (B : List β)
    (h : lastInKids l cs = false) :
    step comb ⟨S ++ [.node i cs], l, B⟩ = ⟨S ++ [.node i cs] ++ cs, l, B⟩ := by
  have : cs.isEmpty = false := by cases cs <;> simp_all
  simp [step, RTree.kids, this, h]

theorem step_comb (S : List RTree) (i : Nat) (cs : List RTree) (hne : cs ≠ []) (l : Option Nat) (B X : List β)
    (hX : X.length = cs.length) (h : lastInKids l cs = true) :
    step comb ⟨S ++ [.node i cs], l, B ++ X⟩ = ⟨S, some i, B ++ [comb (.node i cs) X]⟩ := by
  have : cs.isEmpty = false := by cases cs <;> simp_all
  simp [step, RTree.kids, RTree.idx, this, h, ← hX]

/-- the id of the node finished last is not an id of the sub-tree -/
def Fresh (l : Option Nat) (t : RTree) : Prop := ∀ x, l = some x → x ∉ t.vars

theorem idx_mem_vars (t : RTree) : t.idx ∈ t.vars := by
  cases t with
  | node i cs => simp [RTree.idx, RTree.vars]

/-- what `last_node_visited` is after a list of siblings on top of the stack has been finished -/
def lastAfter (l : Option Nat) (cs : List RTree) : Option Nat :=
  match cs with
  | [] => l
  | c :: _ => some c.idx

theorem walk_siblings (cs : List RTree)
    (ih : ∀ c ∈ cs, c.vars.Nodup → ∀ (S : List RTree) (l : Option Nat) (B : List β), Fresh l c →
      run comb (steps c) ⟨S ++ [c], l, B⟩ = ⟨S, some c.idx, B ++ [fold comb c]⟩) :
    ((cs.map RTree.vars).flatten).Nodup → ∀ (S : List RTree) (l : Option Nat) (B : List β), (∀ c ∈ cs, Fresh l c) →
      run comb ((cs.map steps).sum) ⟨S ++ cs, l, B⟩ = ⟨S, lastAfter l cs, B ++ (cs.map (fold comb)).reverse⟩ := by
  induction cs using List.reverseRecOn with
  | nil => intro _ S l B _; simp [run, lastAfter]
  | append_singleton init c ihl =>
    intro hnd S l B hf
    have hnd' : (init.map RTree.vars).flatten.Nodup ∧ c.vars.Nodup ∧
        ∀ (a : ℕ) (x : RTree), x ∈ init → a ∈ x.vars → ∀ (b : ℕ), b ∈ c.vars → ¬a = b := by
      simpa [List.nodup_append] using hnd
    obtain ⟨hni, hnc, hdis⟩ := hnd'
    have e1 : ((init ++ [c]).map steps).sum = steps c + (init.map steps).sum := by simp [Nat.add_comm]
    rw [e1, run_add, ← List.append_assoc,
      ih c (by simp) hnc (S ++ init) l B (hf c (by simp))]
    rw [ihl (fun c' hc' => ih c' (by simp [hc'])) hni S (some c.idx) (B ++ [fold comb c])]
    · cases init with
      | nil => simp [lastAfter]
      | cons c0 rest => simp [lastAfter]
    · intro c' hc' x hx hmem
      cases hx
      exact hdis _ c' hc' hmem _ (idx_mem_vars c) rfl

/-- **walk_subtree**: a sub-tree on top of the stack, entered with a `last_node_visited` that is not one of its nodes, is
consumed in `steps t` iterations, leaving the stack below it untouched, `last_node_visited = t` and `fold t` appended to
the buffer. -/
theorem walk_subtree : (t : RTree) → t.vars.Nodup → ∀ (S : List RTree) (l : Option Nat) (B : List β), Fresh l t →
    run comb (steps t) ⟨S ++ [t], l, B⟩ = ⟨S, some t.idx, B ++ [fold comb t]⟩
  | .node i cs, hnd, S, l, B, hf => by
    by_cases hcs : cs = []
    · subst hcs
      simp [steps, run, step_leaf, fold, RTree.idx]
    · have hemp : cs.isEmpty = false := by cases cs <;> simp_all
      have hnd' : i ∉ (cs.map RTree.vars).flatten ∧ (cs.map RTree.vars).flatten.Nodup := by
        simpa [RTree.vars] using hnd
      have hpush : lastInKids l cs = false := by
        cases l with
        | none => rfl
        | some x =>
          simp only [lastInKids]
          rw [Bool.eq_false_iff]
          intro hcon
          have hx : x ∈ cs.map RTree.idx := List.contains_iff_mem.1 hcon
          obtain ⟨c, hc, rfl⟩ := List.mem_map.1 hx
          refine hf c.idx rfl ?_
          simp only [RTree.vars, List.mem_cons]
          exact Or.inr (List.mem_flatten.2 ⟨_, List.mem_map.2 ⟨c, hc, rfl⟩, idx_mem_vars c⟩)
      have hsteps : steps (.node i cs) = 1 + ((cs.map steps).sum + 1) := by
        simp [steps, hemp]; omega
      rw [hsteps, run_add, run_add]
      simp only [run]
      rw [step_push comb S i cs hcs l B hpush]
      rw [walk_siblings comb cs (fun c hc hn S l B hf => walk_subtree c hn S l B hf) hnd'.2 (S ++ [RTree.node i cs]) l B]
      · have hlast : lastInKids (lastAfter l cs) cs = true := by
          cases cs with
          | nil => exact absurd rfl hcs
          | cons c rest => simp [lastAfter, lastInKids]
        rw [step_comb comb S i cs hcs _ B _ (by simp) hlast]
        simp [fold, RTree.idx]
      · intro c hc x hx hmem
        refine hf x hx ?_
        simp only [RTree.vars, List.mem_cons]
        exact Or.inr (List.mem_flatten.2 ⟨_, List.mem_map.2 ⟨c, hc, rfl⟩, hmem⟩)

theorem sum_steps_le (cs : List RTree) (h : ∀ c ∈ cs, steps c ≤ 2 * size c) :
    (cs.map steps).sum ≤ 2 * (cs.map size).sum := by
  induction cs with
  | nil => simp
  | cons c rest ih =>
    have h1 := h c (by simp)
    have h2 := ih (fun c' hc' => h c' (by simp [hc']))
    simp only [List.map_cons, List.sum_cons]
    omega

theorem steps_le : (t : RTree) → steps t ≤ 2 * size t
  | .node i cs => by
    have h := sum_steps_le cs (fun c hc => steps_le c)
    simp only [steps, size]
    split <;> omega

/-- **run_eq_fold**: on a tree with pairwise distinct node ids the loop of `to_pc` / `get_scopes`, started from
`([root], None, [])`, ends with an empty stack and exactly one buffer entry, the recursive `fold` of the root. -/
theorem run_eq_fold (t : RTree) (hnd : t.vars.Nodup) :
    walk comb t = ⟨[], some t.idx, [fold comb t]⟩ := by
  unfold walk
  obtain ⟨d, hd⟩ := Nat.exists_eq_add_of_le (steps_le t)
  rw [hd, run_add]
  have := walk_subtree comb t hnd [] none [] (fun x hx => by cases hx)
  simp only [List.nil_append] at this
  rw [this]
  exact run_done comb d _ rfl

/-- distinct ids are needed: with two nodes carrying the id 1 (the root's second child and the first child's own child) the
walk mistakes "my sibling is done" for "my children are done" and combines too early. -/
def badTree : RTree := .node 0 [.node 2 [.node 1 []], .node 1 []]

/-- a `combine` that records the shape: own id and what it was handed -/
def showComb (t : RTree) (xs : List (List Nat)) : List Nat := t.idx :: xs.flatten

theorem distinct_ids_needed :
    (walk showComb badTree).buf = [[0, 2, 1]] ∧ fold showComb badTree = [0, 1, 2, 1] := by
  constructor <;>
  simp [walk, run, step, size, badTree, fold, showComb, RTree.kids, RTree.idx, lastInKids]

end Deeprob.PostOrder
