import DeeprobModel.Lemmas.XpcSdLemmas
import Mathlib.Tactic.Push
set_option linter.unusedSimpArgs false
set_option linter.unusedVariables false
/-
Part III of the sd argument: the tree `build_trees_dict` stores for the columns of depth `d` is the chain
of the block trees (the root of every block tree hangs under the root of the previous block), hence every
scope `get_scopes()` reports for a Chow-Liu leaf using it is admissible (`Xpc.InFamily`).
-/
namespace Deeprob
open List

namespace Clt

/-! ### unfolding a predecessor vector with more fuel than needed -/

theorem build_succ (P : List Int) (f i : Nat) :
    build P (f + 1) i = .node i ((childrenOf P i).map (build P f)) := rfl

theorem build_stable_succ (P : List Int) : ∀ (f i : Nat), build P (f + 1) i = build P f i →
    build P (f + 2) i = build P (f + 1) i
  | 0, i, h => by
    rw [build_succ, build] at h
    have hnil : childrenOf P i = [] := by
      have := RTree.node.inj h
      simpa using this.2
    simp [build_succ, hnil]
  | f + 1, i, h => by
    rw [build_succ P (f + 1), build_succ P f] at h
    have hmap := (RTree.node.inj h).2
    rw [build_succ P (f + 2), build_succ P (f + 1)]
    congr 1
    apply List.map_congr_left
    intro c hc
    have hc' : build P (f + 1) c = build P f c := by
      have := List.map_inj_left.1 hmap c hc
      exact this
    exact build_stable_succ P f c hc'

theorem build_stable (P : List Int) (f i : Nat) (h : build P (f + 1) i = build P f i) :
    ∀ k, build P (f + k) i = build P f i
  | 0 => rfl
  | 1 => h
  | k + 2 => by
    have h1 := build_stable P f i h (k + 1)
    have h2 : ∀ j, build P (f + j + 1) i = build P (f + j) i := by
      intro j
      induction j with
      | zero => exact h
      | succ j ih => exact build_stable_succ P (f + j) i ih
    rw [show f + (k + 2) = f + (k + 1) + 1 from by omega, h2 (k + 1), h1]

theorem vars_length_pos (t : RTree) : 1 ≤ t.vars.length := by
  cases t with
  | node i cs => simp [RTree.vars]

theorem length_le_flatten_of_mem {β : Type} {l : List β} {L : List (List β)} (h : l ∈ L) :
    l.length ≤ L.flatten.length := by
  induction L with
  | nil => simp at h
  | cons a L ih =>
    rcases List.mem_cons.1 h with rfl | h
    · simp
    · have := ih h; rw [List.flatten_cons, List.length_append]; omega

/-- if one more unit of fuel changes the unfolding, the unfolding already has more nodes than fuel -/
theorem build_grow (P : List Int) : ∀ (f i : Nat), build P (f + 1) i ≠ build P f i →
    f + 2 ≤ (build P (f + 1) i).vars.length
  | 0, i, h => by
    rw [build_succ, build] at h
    have hne : childrenOf P i ≠ [] := by
      intro hnil; apply h; simp [hnil]
    rw [build_succ]
    obtain ⟨c, cs, hc⟩ := List.exists_cons_of_ne_nil hne
    simp only [RTree.vars, hc, List.map_cons, List.flatten_cons, List.length_cons, List.length_append]
    have := vars_length_pos (build P 0 c)
    omega
  | f + 1, i, h => by
    have hex : ∃ c ∈ childrenOf P i, build P (f + 1) c ≠ build P f c := by
      by_contra hcon
      push Not at hcon
      apply h
      rw [build_succ P (f + 1), build_succ P f]
      congr 1
      exact List.map_congr_left hcon
    obtain ⟨c, hc, hne⟩ := hex
    have ih := build_grow P f c hne
    rw [build_succ P (f + 1)]
    simp only [RTree.vars, List.length_cons]
    have hm : (build P (f + 1) c).vars ∈ ((childrenOf P i).map (build P (f + 1))).map RTree.vars :=
      List.mem_map_of_mem (List.mem_map_of_mem hc)
    have := length_le_flatten_of_mem hm
    omega

/-- **fuel stability**: for a well-formed predecessor vector any fuel `≥ length - 1` unfolds the same tree -/
theorem isTree_stable {P : List Int} {r : Nat} (ht : isTree P = true) (hr : rootOf P = some r) :
    ∀ f, P.length ≤ f + 1 → build P f r = build P P.length r := by
  obtain ⟨r', hr', hperm⟩ := isTree_perm ht
  rw [hr] at hr'; cases hr'
  have hlen : (build P P.length r).vars.length = P.length := by rw [hperm.length_eq]; simp
  have hpos : 1 ≤ P.length := by rw [← hlen]; exact vars_length_pos _
  obtain ⟨m, hm⟩ : ∃ m, P.length = m + 1 := ⟨P.length - 1, by omega⟩
  have hstep : build P (m + 1) r = build P m r := by
    by_contra hne
    have := build_grow P m r hne
    rw [← hm, hlen] at this
    omega
  intro f hf
  obtain ⟨k, rfl⟩ : ∃ k, f = m + k := ⟨f - m, by omega⟩
  rw [build_stable P m r hstep k, hm, hstep]

/-- the same for the sub-trees below the root -/
theorem isTree_child_stable {Q : List Int} {s c : Nat} (ht : isTree Q = true) (hr : rootOf Q = some s)
    (hc : c ∈ childrenOf Q s) : ∀ f, Q.length ≤ f + 1 → build Q f c = build Q (Q.length - 1) c := by
  have hst := isTree_stable ht hr
  -- a root with a child: at least two variables
  have hq2 : 2 ≤ Q.length := by
    obtain ⟨r', hr', hperm⟩ := isTree_perm ht
    rw [hr] at hr'; cases hr'
    have hlen : (build Q Q.length s).vars.length = Q.length := by rw [hperm.length_eq]; simp
    have hcl := childrenOf_lt Q s c hc
    obtain ⟨m, hm⟩ : ∃ m, Q.length = m + 1 := ⟨Q.length - 1, by omega⟩
    rw [hm, build_succ] at hlen
    simp only [RTree.vars, List.length_cons] at hlen
    have hmem : (build Q m c).vars ∈ ((childrenOf Q s).map (build Q m)).map RTree.vars :=
      List.mem_map_of_mem (List.mem_map_of_mem hc)
    have h1 := length_le_flatten_of_mem hmem
    have h2 := vars_length_pos (build Q m c)
    omega
  obtain ⟨m, hm⟩ : ∃ m, Q.length = m + 2 := ⟨Q.length - 2, by omega⟩
  -- the root is stable from fuel m+1 on, so its children are stable from fuel m on
  have hchild : ∀ g, m ≤ g → build Q (g + 1) c = build Q g c := by
    intro g hg
    have h1 := hst (g + 2) (by omega)
    have h2 := hst (g + 1) (by omega)
    have h3 : build Q (g + 2) s = build Q (g + 1) s := by rw [h1, h2]
    rw [build_succ Q (g + 1), build_succ Q g] at h3
    exact List.map_inj_left.1 (RTree.node.inj h3).2 c hc
  intro f hf
  obtain ⟨k, rfl⟩ : ∃ k, f = m + 1 + k := ⟨f - (m + 1), by omega⟩
  have := build_stable Q (m + 1) c (hchild (m + 1) (by omega)) k
  rw [this, hm]
  rfl

/-! ### entries of a well-formed predecessor vector -/

theorem rootOf_some {P : List Int} {r : Nat} (h : rootOf P = some r) :
    r < P.length ∧ P.getD r 0 = -1 ∧ ∀ c, c < P.length → P.getD c 0 = -1 → c = r := by
  unfold rootOf at h
  have hfil : (List.range P.length).filter (fun c => P.getD c 0 == -1) = [r] := by
    split at h
    · rename_i r' heq; cases h; exact heq
    · cases h
  have hmem : ∀ c, c ∈ (List.range P.length).filter (fun c => P.getD c 0 == -1) ↔ c = r := by
    intro c; rw [hfil]; simp
  have hr := (hmem r).2 rfl
  rw [List.mem_filter, List.mem_range] at hr
  refine ⟨hr.1, by simpa using hr.2, ?_⟩
  intro c hc hcm
  exact (hmem c).1 (List.mem_filter.2 ⟨List.mem_range.2 hc, by simpa using hcm⟩)

theorem mem_vars_build (P : List Int) : ∀ (f i x : Nat), i < P.length → x ∈ (build P f i).vars →
    x = i ∨ ∃ p, p < P.length ∧ x ∈ childrenOf P p
  | 0, i, x, hi, hx => by simp [build, RTree.vars] at hx; exact Or.inl hx
  | f + 1, i, x, hi, hx => by
    rw [build_succ] at hx
    simp only [RTree.vars, List.mem_cons, List.mem_flatten, List.mem_map] at hx
    rcases hx with rfl | ⟨l, ⟨t, ⟨c, hc, rfl⟩, rfl⟩, hxl⟩
    · exact Or.inl rfl
    · rcases mem_vars_build P f c x (childrenOf_lt P i c hc) hxl with rfl | h
      · exact Or.inr ⟨i, hi, hc⟩
      · exact Or.inr h

/-- every non-root entry of a well-formed predecessor vector is the index of a variable -/
theorem isTree_parent {P : List Int} {r : Nat} (ht : isTree P = true) (hr : rootOf P = some r) :
    ∀ j, j < P.length → j ≠ r → ∃ p, p < P.length ∧ P.getD j (-1) = (p : Int) := by
  obtain ⟨r', hr', hperm⟩ := isTree_perm ht
  rw [hr] at hr'; cases hr'
  intro j hj hne
  have hjm : j ∈ (build P P.length r).vars := hperm.mem_iff.2 (List.mem_range.2 hj)
  rcases mem_vars_build P P.length r j (rootOf_some hr).1 hjm with h | ⟨p, hp, hjp⟩
  · exact absurd h hne
  · exact ⟨p, hp, mem_childrenOf hjp⟩

end Clt
/-! ### one round of the concatenation loop of `build_trees_dict` -/

namespace Xpc
open Clt

/-- the vector after one round: `P` with its root re-hung under the root `s` of the shifted `Q` -/
def concatPred (P Q : List Int) (r s : Nat) : List Int :=
  (P ++ shiftPred P.length Q).set r ((P.length + s : Nat) : Int)

section round
variable {P Q : List Int} {r s : Nat}

theorem getD_in (l : List Int) {i : Nat} (hi : i < l.length) (a : Int) : l.getD i a = l[i] := by
  simp [List.getD_eq_getElem?_getD, hi]

theorem concatPred_length : (concatPred P Q r s).length = P.length + Q.length := by
  simp [concatPred, shiftPred]

theorem concatPred_left (hr : r < P.length) {c : Nat} (hc : c < P.length) (hne : c ≠ r) (a : Int) :
    (concatPred P Q r s).getD c a = P.getD c a := by
  unfold concatPred
  rw [List.getD_eq_getElem?_getD, List.getD_eq_getElem?_getD, List.getElem?_set_ne (Ne.symm hne),
    List.getElem?_append_left hc]

theorem concatPred_root (hr : r < P.length) (a : Int) :
    (concatPred P Q r s).getD r a = ((P.length + s : Nat) : Int) := by
  unfold concatPred
  rw [List.getD_eq_getElem?_getD, List.getElem?_set_self (by simp; omega)]
  rfl

theorem concatPred_right (hr : r < P.length) {j : Nat} (hj : j < Q.length) (a : Int) :
    (concatPred P Q r s).getD (P.length + j) a =
      if Q.getD j a = -1 then -1 else Q.getD j a + (P.length : Int) := by
  unfold concatPred
  rw [List.getD_eq_getElem?_getD, List.getElem?_set_ne (by omega), List.getElem?_append_right (by omega)]
  simp only [Nat.add_sub_cancel_left, shiftPred, List.getElem?_map, List.getD_eq_getElem?_getD,
    List.getElem?_eq_getElem hj, Option.map_some, Option.getD_some]
  by_cases h : Q[j] = -1 <;> simp [h]

/-- entries of `P`: the root holds `-1`, every other one a variable index `< |P|` -/
theorem entryP (htP : isTree P = true) (hrP : rootOf P = some r) {c : Nat} (hc : c < P.length) : (c = r ∧ P.getD c (-1) = -1) ∨
    (c ≠ r ∧ ∃ p, p < P.length ∧ P.getD c (-1) = (p : Int)) := by
  by_cases h : c = r
  · left
    refine ⟨h, ?_⟩
    rw [h, CltFit.getD_irrel P (rootOf_some hrP).1 (-1) 0]; exact (rootOf_some hrP).2.1
  · right; exact ⟨h, isTree_parent htP hrP c hc h⟩

theorem entryQ (htQ : isTree Q = true) (hrQ : rootOf Q = some s) {j : Nat} (hj : j < Q.length) : (j = s ∧ Q.getD j (-1) = -1) ∨
    (j ≠ s ∧ ∃ p, p < Q.length ∧ Q.getD j (-1) = (p : Int)) := by
  by_cases h : j = s
  · left
    refine ⟨h, ?_⟩
    rw [h, CltFit.getD_irrel Q (rootOf_some hrQ).1 (-1) 0]; exact (rootOf_some hrQ).2.1
  · right; exact ⟨h, isTree_parent htQ hrQ j hj h⟩

theorem childrenOf_concat_left (htP : isTree P = true) (hrP : rootOf P = some r) (htQ : isTree Q = true)
    (hrQ : rootOf Q = some s) {i : Nat} (hi : i < P.length) :
    childrenOf (concatPred P Q r s) i = childrenOf P i := by
  have hr := (rootOf_some hrP).1
  unfold childrenOf
  rw [concatPred_length, List.range_add, List.filter_append]
  have h2 : ((List.range Q.length).map (P.length + ·)).filter
      (fun c => (concatPred P Q r s).getD c (-1) == (i : Int)) = [] := by
    rw [List.filter_eq_nil_iff]
    intro c hc
    obtain ⟨j, hj, rfl⟩ := List.mem_map.1 hc
    have hj' := List.mem_range.1 hj
    rw [concatPred_right hr hj', beq_iff_eq]
    rcases entryQ htQ hrQ hj' with ⟨_, h⟩ | ⟨_, p, _, h⟩
    · rw [h, if_pos rfl]; omega
    · rw [h, if_neg (by omega)]; omega
  rw [h2, List.append_nil]
  apply List.filter_congr
  intro c hc
  have hc' := List.mem_range.1 hc
  rcases entryP htP hrP hc' with ⟨hcr, h⟩ | ⟨hne, p, _, h⟩
  · rw [hcr, concatPred_root hr, ← hcr, h, Bool.eq_iff_iff, beq_iff_eq, beq_iff_eq]
    constructor <;> intro hh <;> (push_cast at hh <;> omega)
  · rw [concatPred_left hr hc' hne]

theorem childrenOf_concat_right (htP : isTree P = true) (hrP : rootOf P = some r) (htQ : isTree Q = true)
    (hrQ : rootOf Q = some s) (c : Nat) :
    childrenOf (concatPred P Q r s) (P.length + c) =
      (if c = s then [r] else []) ++ (childrenOf Q c).map (P.length + ·) := by
  have hr := (rootOf_some hrP).1
  unfold childrenOf
  rw [concatPred_length, List.range_add, List.filter_append]
  congr 1
  · split
    · rename_i hcs
      apply filter_range_singleton _ r _ hr
      intro c' hc'
      rw [beq_iff_eq]
      rcases entryP htP hrP hc' with ⟨hcr, h⟩ | ⟨hne, p, hp, h⟩
      · rw [hcr, concatPred_root hr]
        constructor
        · intro _; rfl
        · intro _; rw [hcs]
      · rw [concatPred_left hr hc' hne, h]
        constructor
        · intro hh; push_cast at hh <;> omega
        · intro hh; exact absurd hh hne
    · rename_i hcs
      rw [List.filter_eq_nil_iff]
      intro c' hc'
      have hc'' := List.mem_range.1 hc'
      rw [beq_iff_eq]
      rcases entryP htP hrP hc'' with ⟨hcr, h⟩ | ⟨hne, p, hp, h⟩
      · rw [hcr, concatPred_root hr]
        intro hh; push_cast at hh <;> omega
      · rw [concatPred_left hr hc'' hne, h]
        intro hh; push_cast at hh <;> omega
  · rw [List.filter_map]
    congr 1
    apply List.filter_congr
    intro j hj
    have hj' := List.mem_range.1 hj
    simp only [Function.comp]
    rw [concatPred_right hr hj', Bool.eq_iff_iff, beq_iff_eq, beq_iff_eq]
    rcases entryQ htQ hrQ hj' with ⟨_, h⟩ | ⟨_, p, _, h⟩
    · rw [h, if_pos rfl]
      constructor <;> intro hh <;> (push_cast at hh <;> omega)
    · rw [h, if_neg (by omega)]
      constructor <;> intro hh <;> (push_cast at hh ⊢ <;> omega)

end round
/-- the same tree over the indices shifted by `m` -/
def _root_.Deeprob.RTree.shift (m : Nat) : RTree → RTree
  | .node i cs => .node (m + i) (cs.map (RTree.shift m))

theorem shift_node (m i : Nat) (cs : List RTree) :
    (RTree.node i cs).shift m = .node (m + i) (cs.map (RTree.shift m)) := by
  rw [RTree.shift]

section build
variable {P Q : List Int} {r s : Nat}

theorem build_concat_left (htP : isTree P = true) (hrP : rootOf P = some r) (htQ : isTree Q = true)
    (hrQ : rootOf Q = some s) : ∀ (f i : Nat), i < P.length →
      build (concatPred P Q r s) f i = build P f i
  | 0, i, _ => rfl
  | f + 1, i, hi => by
    rw [build_succ, build_succ, childrenOf_concat_left htP hrP htQ hrQ hi]
    congr 1
    apply List.map_congr_left
    intro c hc
    exact build_concat_left htP hrP htQ hrQ f c (childrenOf_lt P i c hc)

theorem child_ne_root (htQ : isTree Q = true) (hrQ : rootOf Q = some s) {c c' : Nat}
    (h : c' ∈ childrenOf Q c) : c' ≠ s := by
  intro hcs
  have h1 := mem_childrenOf h
  rcases entryQ htQ hrQ (childrenOf_lt Q c c' h) with ⟨_, h2⟩ | ⟨hne, _⟩
  · rw [h2] at h1; omega
  · exact hne hcs

theorem build_concat_right (htP : isTree P = true) (hrP : rootOf P = some r) (htQ : isTree Q = true)
    (hrQ : rootOf Q = some s) : ∀ (f c : Nat), c ≠ s →
      build (concatPred P Q r s) f (P.length + c) = (build Q f c).shift P.length
  | 0, c, _ => by simp [build, shift_node]
  | f + 1, c, hne => by
    rw [build_succ, build_succ, childrenOf_concat_right htP hrP htQ hrQ c, if_neg hne, List.nil_append,
      shift_node, List.map_map, List.map_map]
    congr 1
    apply List.map_congr_left
    intro c' hc'
    simp only [Function.comp]
    exact build_concat_right htP hrP htQ hrQ f c' (child_ne_root htQ hrQ hc')

/-- **the tree after one round**: the old tree hangs as first child under the root of the shifted block tree -/
theorem build_concat_root (htP : isTree P = true) (hrP : rootOf P = some r) (htQ : isTree Q = true)
    (hrQ : rootOf Q = some s) :
    build (concatPred P Q r s) (P.length + Q.length) (P.length + s) =
      .node (P.length + s) (build P P.length r ::
        (childrenOf Q s).map (fun c => (build Q (Q.length - 1) c).shift P.length)) := by
  have hq : 1 ≤ Q.length := by have := (rootOf_some hrQ).1; omega
  obtain ⟨g, hg⟩ : ∃ g, P.length + Q.length = g + 1 := ⟨P.length + Q.length - 1, by omega⟩
  rw [hg, build_succ, childrenOf_concat_right htP hrP htQ hrQ s, if_pos rfl]
  simp only [List.singleton_append, List.map_cons, List.map_map]
  congr 2
  · rw [build_concat_left htP hrP htQ hrQ g r (rootOf_some hrP).1]
    exact isTree_stable htP hrP g (by omega)
  · apply List.map_congr_left
    intro c hc
    simp only [Function.comp]
    rw [build_concat_right htP hrP htQ hrQ g c (child_ne_root htQ hrQ hc),
      isTree_child_stable htQ hrQ hc g (by omega)]

end build

/-! ### the new vector is again a well-formed tree; labels of the pieces -/

theorem vars_shift (m : Nat) : (t : RTree) → (t.shift m).vars = t.vars.map (m + ·)
  | .node i cs => by
    rw [shift_node, RTree.vars, RTree.vars, List.map_cons, List.map_flatten, List.map_map, List.map_map]
    congr 2
    apply List.map_congr_left
    intro c hc
    exact vars_shift m c

theorem subtrees_shift (m : Nat) : (t : RTree) → (t.shift m).subtrees = t.subtrees.map (RTree.shift m)
  | .node i cs => by
    rw [shift_node, RTree.subtrees, RTree.subtrees, List.map_cons, shift_node, List.map_flatten,
      List.map_map, List.map_map]
    congr 2
    apply List.map_congr_left
    intro c hc
    exact subtrees_shift m c

theorem lab_shift (S B : List Nat) (t : RTree) : lab (S ++ B) (t.shift S.length) = lab B t := by
  unfold lab
  rw [vars_shift, List.map_map]
  apply List.map_congr_left
  intro i _
  simp only [Function.comp, List.getD_eq_getElem?_getD]
  rw [List.getElem?_append_right (by omega)]
  simp

theorem below_vars (n : Nat) : (t : RTree) → t.Below n → ∀ i ∈ t.vars, i < n
  | .node j cs, hb, i, hi => by
    unfold RTree.Below at hb
    rw [RTree.vars] at hi
    rcases List.mem_cons.1 hi with rfl | hi
    · exact hb.1
    · obtain ⟨l, hl, hil⟩ := List.mem_flatten.1 hi
      obtain ⟨c, hc, rfl⟩ := List.mem_map.1 hl
      exact below_vars n c (hb.2 c hc) i hil

theorem below_subtree (n : Nat) : (t : RTree) → t.Below n → ∀ u ∈ t.subtrees, u.Below n
  | .node j cs, hb, u, hu => by
    rcases (subtrees_node j cs u).1 hu with rfl | ⟨c, hc, huc⟩
    · exact hb
    · unfold RTree.Below at hb
      exact below_subtree n c (hb.2 c hc) u huc

theorem lab_below (S B : List Nat) (t : RTree) (hb : t.Below S.length) : lab (S ++ B) t = lab S t := by
  unfold lab
  apply List.map_congr_left
  intro i hi
  have := below_vars _ t hb i hi
  simp only [List.getD_eq_getElem?_getD]
  rw [List.getElem?_append_left this]

section wf
variable {P Q : List Int} {r s : Nat}

theorem vars_concat (htP : isTree P = true) (hrP : rootOf P = some r) (htQ : isTree Q = true)
    (hrQ : rootOf Q = some s) :
    (build (concatPred P Q r s) (P.length + Q.length) (P.length + s)).vars.Perm
      (List.range (P.length + Q.length)) := by
  obtain ⟨r', hr', hpP⟩ := isTree_perm htP
  rw [hrP] at hr'; cases hr'
  obtain ⟨s', hs', hpQ⟩ := isTree_perm htQ
  rw [hrQ] at hs'; cases hs'
  have hq : 1 ≤ Q.length := by have := (rootOf_some hrQ).1; omega
  have hQv : (build Q Q.length s).vars =
      s :: ((childrenOf Q s).map (fun c => (build Q (Q.length - 1) c).vars)).flatten := by
    obtain ⟨g, hg⟩ : ∃ g, Q.length = g + 1 := ⟨Q.length - 1, by omega⟩
    rw [hg, build_succ, RTree.vars, List.map_map]
    rfl
  rw [build_concat_root htP hrP htQ hrQ, RTree.vars, List.map_cons, List.flatten_cons, List.map_map]
  have hmap : ((childrenOf Q s).map (RTree.vars ∘ fun c => (build Q (Q.length - 1) c).shift P.length)).flatten =
      (((childrenOf Q s).map (fun c => (build Q (Q.length - 1) c).vars)).flatten).map (P.length + ·) := by
    rw [List.map_flatten, List.map_map]
    congr 1
    apply List.map_congr_left
    intro c _
    simp only [Function.comp, vars_shift]
  rw [hmap, List.range_add]
  have h1 : ((build Q Q.length s).vars.map (P.length + ·)).Perm ((List.range Q.length).map (P.length + ·)) :=
    hpQ.map _
  rw [hQv, List.map_cons] at h1
  exact (List.perm_middle.symm).trans (hpP.append h1)

theorem rootOf_concat (htP : isTree P = true) (hrP : rootOf P = some r) (htQ : isTree Q = true)
    (hrQ : rootOf Q = some s) : rootOf (concatPred P Q r s) = some (P.length + s) := by
  have hr := (rootOf_some hrP).1
  have hs := (rootOf_some hrQ).1
  apply rootOf_eq _ _ (by rw [concatPred_length]; omega)
  intro c hc
  rw [concatPred_length] at hc
  by_cases hcm : c < P.length
  · rcases entryP htP hrP hcm with ⟨hcr, h⟩ | ⟨hne, p, _, h⟩
    · rw [hcr, concatPred_root hr]
      constructor
      · intro hh; push_cast at hh <;> omega
      · intro hh; omega
    · rw [concatPred_left hr hcm hne, CltFit.getD_irrel P hcm 0 (-1), h]
      constructor
      · intro hh; omega
      · intro hh; omega
  · obtain ⟨j, rfl⟩ : ∃ j, c = P.length + j := ⟨c - P.length, by omega⟩
    have hj : j < Q.length := by omega
    rw [concatPred_right hr hj, CltFit.getD_irrel Q hj 0 (-1)]
    rcases entryQ htQ hrQ hj with ⟨hjs, h⟩ | ⟨hne, p, _, h⟩
    · rw [h, if_pos rfl, hjs]; simp
    · rw [h, if_neg (by omega)]
      constructor
      · intro hh; omega
      · intro hh; omega

theorem isTree_of_perm {N : List Int} {r' : Nat} (hr : rootOf N = some r')
    (hp : (build N N.length r').vars.Perm (List.range N.length)) : isTree N = true := by
  unfold isTree
  rw [hr]
  simp only [Bool.and_eq_true, beq_iff_eq, List.all_eq_true, List.mem_range, List.contains_iff_mem]
  refine ⟨by rw [hp.length_eq]; simp, ?_⟩
  intro i hi
  exact hp.mem_iff.2 (List.mem_range.2 hi)

theorem isTree_concat (htP : isTree P = true) (hrP : rootOf P = some r) (htQ : isTree Q = true)
    (hrQ : rootOf Q = some s) : isTree (concatPred P Q r s) = true := by
  apply isTree_of_perm (rootOf_concat htP hrP htQ hrQ)
  rw [concatPred_length]
  exact vars_concat htP hrP htQ hrQ

end wf

/-! ### `concatStep` is `concatPred`; the invariant of the loop -/

theorem idxOf_unique (l : List Int) (a : Int) (r : Nat) (hr : r < l.length) (h1 : l[r] = a)
    (h2 : ∀ j, (hj : j < l.length) → l[j] = a → j = r) : l.idxOf a = r := by
  have hmem : a ∈ l := h1 ▸ List.getElem_mem hr
  have hlt : l.idxOf a < l.length := List.idxOf_lt_length_iff.2 hmem
  exact h2 _ hlt (List.getElem_idxOf hlt)

section step
variable {P Q : List Int} {r s : Nat}

theorem rootIdx_left (htP : isTree P = true) (hrP : rootOf P = some r) (X : List Int) :
    rootIdxFrom (P ++ X) 0 = r := by
  have hr := (rootOf_some hrP).1
  unfold rootIdxFrom
  rw [List.drop_zero, Nat.zero_add]
  have hmem : (-1 : Int) ∈ P := by
    have := (rootOf_some hrP).2.1
    rw [getD_in P hr] at this
    exact this ▸ List.getElem_mem hr
  rw [List.idxOf_append_of_mem hmem]
  apply idxOf_unique P (-1) r hr
  · have := (rootOf_some hrP).2.1
    rwa [getD_in P hr] at this
  · intro j hj hh
    exact (rootOf_some hrP).2.2 j hj (by rw [getD_in P hj]; exact hh)

theorem rootIdx_right (htQ : isTree Q = true) (hrQ : rootOf Q = some s) (P : List Int) :
    rootIdxFrom (P ++ shiftPred P.length Q) P.length = P.length + s := by
  have hs := (rootOf_some hrQ).1
  unfold rootIdxFrom
  rw [List.drop_left]
  congr 1
  have hlen : (shiftPred P.length Q).length = Q.length := by simp [shiftPred]
  have hget : ∀ j, (hj : j < Q.length) → (shiftPred P.length Q)[j]'(by rw [hlen]; exact hj) =
      if Q[j] = -1 then -1 else Q[j] + (P.length : Int) := by
    intro j hj
    simp only [shiftPred, List.getElem_map]
    by_cases h : Q[j] = -1 <;> simp [h]
  apply idxOf_unique _ (-1) s (by rw [hlen]; exact hs)
  · rw [hget s hs]
    have := (rootOf_some hrQ).2.1
    rw [getD_in Q hs] at this
    rw [this]; simp
  · intro j hj hh
    rw [hlen] at hj
    rw [hget j hj] at hh
    rcases entryQ htQ hrQ hj with ⟨hjs, _⟩ | ⟨_, p, _, h⟩
    · exact hjs
    · rw [getD_in Q hj] at h
      rw [h, if_neg (by omega)] at hh
      omega

theorem concatStep_eq (htP : isTree P = true) (hrP : rootOf P = some r) (htQ : isTree Q = true)
    (hrQ : rootOf Q = some s) (S B : List Nat) (hl : P.length = S.length) :
    concatStep (P, S) Q B = (concatPred P Q r s, S ++ B) := by
  unfold concatStep concatPred
  simp only
  rw [← hl, rootIdx_left htP hrP, rootIdx_right htQ hrQ]

end step

section loop
variable {trees : List (List Int)} {scopes : List (List Nat)}

/-- invariant of the accumulator `(tree, scope)` once the blocks `d, d+1, …` have been merged -/
structure AccOK (trees : List (List Int)) (scopes : List (List Nat)) (d : Nat) (acc : List Int × List Nat) :
    Prop where
  tree : isTree acc.1 = true
  len : acc.1.length = acc.2.length
  cols : scopeEq acc.2 (colsAt scopes d)
  fam : ∀ u ∈ (blockTree acc.1).subtrees, InFamily trees scopes (lab acc.2 u)

theorem colsAt_succ {d : Nat} (hd : d < scopes.length) :
    colsAt scopes d = scopes.getD d [] ++ colsAt scopes (d + 1) := by
  unfold colsAt
  rw [List.drop_eq_getElem_cons hd, List.flatten_cons]
  simp [List.getD_eq_getElem?_getD, hd]

theorem accOK_base (hb : BlocksOk trees scopes) {d : Nat} (hd : d + 1 = scopes.length) :
    AccOK trees scopes d (trees.getD d [], scopes.getD d []) := by
  have hdl : d < scopes.length := by omega
  obtain ⟨ht, hl⟩ := hb.tree d hdl
  refine ⟨ht, hl, ?_, ?_⟩
  · rw [colsAt_succ hdl]
    have : colsAt scopes (d + 1) = [] := by
      unfold colsAt; rw [List.drop_eq_nil_of_le (by omega)]; rfl
    rw [this, List.append_nil]
    exact scopeEq_refl _
  · intro u hu
    exact Or.inr ⟨d, hdl, u, hu, scopeEq_refl _⟩

/-- one round of the loop keeps the invariant -/
theorem accOK_step (hb : BlocksOk trees scopes) {d : Nat} (hd : d < scopes.length) (acc : List Int × List Nat)
    (h : AccOK trees scopes (d + 1) acc) :
    AccOK trees scopes d (concatStep acc (trees.getD d []) (scopes.getD d [])) := by
  obtain ⟨P, S⟩ := acc
  obtain ⟨htP, hl, hcols, hfam⟩ := h
  simp only at htP hl hcols hfam
  obtain ⟨htQ, hlQ⟩ := hb.tree d hd
  obtain ⟨r, hrP, hpP⟩ := isTree_perm htP
  obtain ⟨s, hrQ, hpQ⟩ := isTree_perm htQ
  set Q := trees.getD d [] with hQ
  set B := scopes.getD d [] with hB
  rw [concatStep_eq htP hrP htQ hrQ S B hl]
  have htN := isTree_concat htP hrP htQ hrQ
  have hrN := rootOf_concat htP hrP htQ hrQ
  have hlenN : (concatPred P Q r s).length = (S ++ B).length := by
    rw [concatPred_length, List.length_append, hl, hlQ]
  have hcolsN : scopeEq (S ++ B) (colsAt scopes d) := by
    rw [colsAt_succ hd]
    intro v
    simp only [List.mem_append]
    rw [hcols v]; tauto
  refine ⟨htN, hlenN, hcolsN, ?_⟩
  -- the sub-trees of the new tree
  intro u hu
  have hbt : blockTree (concatPred P Q r s) =
      .node (P.length + s) (build P P.length r ::
        (childrenOf Q s).map (fun c => (build Q (Q.length - 1) c).shift P.length)) := by
    unfold blockTree
    rw [hrN, concatPred_length]
    exact build_concat_root htP hrP htQ hrQ
  have hbtP : blockTree P = build P P.length r := by unfold blockTree; rw [hrP]
  have hbtQ : blockTree Q = build Q Q.length s := by unfold blockTree; rw [hrQ]
  rw [hbt] at hu
  rcases (subtrees_node _ _ u).1 hu with rfl | ⟨c, hc, huc⟩
  · -- the whole tree: all columns of depth d
    rw [← hbt]
    have hperm : (lab (S ++ B) (blockTree (concatPred P Q r s))).Perm (S ++ B) := by
      unfold blockTree
      rw [hrN]
      apply lab_build_perm _ hlenN.symm
      rw [concatPred_length]
      exact vars_concat htP hrP htQ hrQ
    exact Or.inl ⟨d, (scopeEq_of_perm hperm).trans hcolsN⟩
  · rcases List.mem_cons.1 hc with rfl | hc
    · -- inside the old tree: same labels as before
      have hbelow : u.Below S.length := by
        rw [← hl]
        exact below_subtree _ _ (build_below P P.length r (rootOf_some hrP).1) u huc
      rw [lab_below S B u hbelow]
      exact hfam u (hbtP ▸ huc)
    · -- inside the shifted block tree, strictly below its root
      obtain ⟨c', hc', rfl⟩ := List.mem_map.1 hc
      rw [subtrees_shift] at huc
      obtain ⟨u', hu', rfl⟩ := List.mem_map.1 huc
      rw [hl, lab_shift]
      have hq : 1 ≤ Q.length := by have := (rootOf_some hrQ).1; omega
      have hu'' : u' ∈ (blockTree Q).subtrees := by
        rw [hbtQ]
        obtain ⟨g, hg⟩ : ∃ g, Q.length = g + 1 := ⟨Q.length - 1, by omega⟩
        rw [hg, build_succ]
        refine (subtrees_node _ _ u').2 (Or.inr ⟨build Q g c', List.mem_map_of_mem hc', ?_⟩)
        have : Q.length - 1 = g := by omega
        rw [this] at hu'
        exact hu'
      exact Or.inr ⟨d, hd, u', hu'', scopeEq_refl _⟩

theorem dictLoop_ok (hb : BlocksOk trees scopes) : ∀ (d : Nat) (acc : List Int × List Nat), d ≤ scopes.length →
    AccOK trees scopes d acc →
    ∀ e ∈ dictLoop acc ((trees.zip scopes).take d).reverse, ∃ d', AccOK trees scopes d' e
  | 0, acc, _, _, e, he => by simp [dictLoop] at he
  | d + 1, acc, hd, hacc, e, he => by
    have hdl : d < (trees.zip scopes).length := by simp [hb.len]; omega
    rw [List.take_succ_eq_append_getElem hdl, List.reverse_append, List.reverse_singleton, List.singleton_append] at he
    have hz : (trees.zip scopes)[d] = (trees.getD d [], scopes.getD d []) := by
      have h1 : d < trees.length := by rw [hb.len]; omega
      have h2 : d < scopes.length := by omega
      simp [List.getD_eq_getElem?_getD, h1, h2]
    rw [hz] at he
    simp only [dictLoop, List.mem_cons] at he
    rcases he with rfl | he
    · exact ⟨d + 1, hacc⟩
    · exact dictLoop_ok hb d _ (by omega) (accOK_step hb (by omega) acc hacc) e he

/-- every stored pair of `build_trees_dict` satisfies the invariant -/
theorem treesDict_ok (hb : BlocksOk trees scopes) :
    ∀ e ∈ treesDict trees scopes, ∃ d, AccOK trees scopes d e := by
  intro e he
  unfold treesDict at he
  rcases Nat.eq_zero_or_pos scopes.length with h0 | hpos
  · have : trees.zip scopes = [] := by
      have : scopes = [] := List.eq_nil_of_length_eq_zero h0
      simp [this]
    rw [this] at he
    simp at he
  · obtain ⟨d, hd⟩ : ∃ d, scopes.length = d + 1 := ⟨scopes.length - 1, by omega⟩
    have hzl : (trees.zip scopes).length = d + 1 := by simp [hb.len, hd]
    have hsplit : trees.zip scopes = (trees.zip scopes).take d ++ [(trees.getD d [], scopes.getD d [])] := by
      have hdl : d < (trees.zip scopes).length := by omega
      have h1 : d < trees.length := by rw [hb.len]; omega
      have h2 : d < scopes.length := by omega
      have hz : (trees.zip scopes)[d] = (trees.getD d [], scopes.getD d []) := by
        simp [List.getD_eq_getElem?_getD, h1, h2]
      rw [← hz, ← List.take_succ_eq_append_getElem hdl, ← hzl, List.take_length]
    rw [hsplit, List.reverse_append, List.reverse_singleton, List.singleton_append] at he
    simp only at he
    exact dictLoop_ok hb d _ (by omega) (accOK_base hb hd.symm) e he

/-- **Part III** — every scope `get_scopes()` reports for a Chow-Liu leaf that takes its tree and scope from
`trees_dict` is admissible -/
theorem chain_inFamily (hb : BlocksOk trees scopes) :
    ∀ e ∈ treesDict trees scopes, ∀ x ∈ XC.cltGetScopes e.2 e.1, InFamily trees scopes x := by
  intro e he x hx
  obtain ⟨d, hacc⟩ := treesDict_ok hb e he
  obtain ⟨r, hr, _⟩ := isTree_perm hacc.tree
  unfold XC.cltGetScopes at hx
  rw [hr] at hx
  simp only at hx
  obtain ⟨u, hu, _, rfl⟩ := (mem_getScopes e.2 x _).1 hx
  have hbt : blockTree e.1 = build e.1 e.1.length r := by unfold blockTree; rw [hr]
  exact inFamily_of_scopeEq (scopeEq_of_perm (getScopeTop_perm e.2 u)) (hacc.fam u (hbt ▸ hu))

end loop

end Xpc

end Deeprob
