import DeeprobModel.Lemmas.RewriteNetProps
set_option linter.unusedSectionVars false
set_option linter.unusedSimpArgs false
set_option linter.unusedVariables false
/-
Structural theory of the net-level `prune`, part 2: the canonical export (`dfsPost`, `exportTable`,
`exportFrom` = `assign_ids` + harness `children_first`).

* `dfsPost_sub`, `dfsPost_nodup` — the post-order lists only nodes reachable from its start, each once;
* `exportFrom_unpack`            — what a successful export consists of;
* `export_node`                  — entry `p` of the exported table is node `order[p]` with children renamed by
                                   position; kinds and scopes of children are read off the source table;
* `collect_lt_of_chLt`           — BFS of a children-first table stays inside the table.
-/
namespace Deeprob
open Net
variable {α : Type} [CommSemiring α]

/-! ### the post-order -/

/-- everything the post-order adds satisfies any predicate that holds at the start and is closed under children -/
theorem dfsPost_sub (t : Net α) (Q : Nat → Prop) (hQ : ∀ i, Q i → ∀ c ∈ chOf t i, Q c) :
    ∀ fuel out i, Q i → ∀ j ∈ dfsPost t fuel out i, j ∈ out ∨ Q j := by
  intro fuel
  induction fuel with
  | zero => intro out i _ j hj; left; simpa [dfsPost] using hj
  | succ fuel ih =>
    intro out i hi j hj
    unfold dfsPost at hj
    by_cases hin : out.contains i = true
    · simp only [hin, if_true] at hj; exact Or.inl hj
    · simp only [hin] at hj
      have fold : ∀ (cs : List Nat) (o : List Nat), (∀ c ∈ cs, Q c) →
          ∀ j ∈ cs.foldl (dfsPost t fuel) o, j ∈ o ∨ Q j := by
        intro cs
        induction cs with
        | nil => intro o _ j hj; exact Or.inl hj
        | cons c cs ihc =>
          intro o hq j hj
          simp only [List.foldl_cons] at hj
          rcases ihc _ (fun d hd => hq d (List.mem_cons_of_mem _ hd)) j hj with h | h
          · exact ih o c (hq c List.mem_cons_self) j h
          · exact Or.inr h
      rcases List.mem_append.1 hj with h | h
      · exact fold (chOf t i) out (hQ i hi) j h
      · right; simp at h; rw [h]; exact hi

theorem dfsPost_nodup (t : Net α) (ht : ChLt t) : ∀ fuel out i, out.Nodup → (dfsPost t fuel out i).Nodup := by
  intro fuel
  induction fuel with
  | zero => intro out i h; simpa [dfsPost] using h
  | succ fuel ih =>
    intro out i hnd
    unfold dfsPost
    by_cases hin : out.contains i = true
    · simp only [hin, if_true]; exact hnd
    · rw [if_neg hin]
      have hni : i ∉ out := by simpa using hin
      have fold : ∀ (cs : List Nat) (o : List Nat), o.Nodup → (cs.foldl (dfsPost t fuel) o).Nodup := by
        intro cs
        induction cs with
        | nil => intro o h; exact h
        | cons c cs ihc => intro o h; simp only [List.foldl_cons]; exact ihc _ (ih o c h)
      have hfold_le : ∀ (cs : List Nat) (o : List Nat), (∀ c ∈ cs, c < i) →
          ∀ j ∈ cs.foldl (dfsPost t fuel) o, j ∈ o ∨ j < i := by
        intro cs
        induction cs with
        | nil => intro o _ j hj; exact Or.inl hj
        | cons c cs ihc =>
          intro o hlt j hj
          simp only [List.foldl_cons] at hj
          rcases ihc _ (fun d hd => hlt d (List.mem_cons_of_mem _ hd)) j hj with h | h
          · rcases dfsPost_le t ht fuel o c j h with h | h
            · exact Or.inl h
            · right; have := hlt c List.mem_cons_self; omega
          · exact Or.inr h
      rw [List.nodup_append]
      refine ⟨fold _ _ hnd, by simp, ?_⟩
      intro a ha b hb
      simp at hb
      subst hb
      intro hab
      subst hab
      rcases hfold_le (chOf t a) out (chOf_lt t ht a) a ha with h | h
      · exact hni h
      · omega

/-! ### what a successful export consists of -/

theorem exportFrom_unpack (t : Net α) (r : Nat) (out : Net α) (order : List Nat)
    (h : exportFrom t r = some (out, order)) :
    ∃ ko, kahn t r = some ko ∧ order = dfsPost t (t.length + 1) [] r ∧ out = exportTable t order (posIn ko) := by
  unfold exportFrom at h
  cases hk : kahn t r with
  | none => rw [hk] at h; simp at h
  | some ko =>
    rw [hk] at h
    simp only [Option.some.injEq, Prod.mk.injEq] at h
    obtain ⟨hout, hord⟩ := h
    exact ⟨ko, rfl, hord.symm, by rw [← hout, hord]; rfl⟩

/-- facts about the post-order from `r` of a children-first table -/
structure OrderOK (t : Net α) (r : Nat) (order : List Nat) : Prop where
  closed : Closed t order
  nodup : order.Nodup
  lt : ∀ i ∈ order, i < t.length
  ne : order ≠ []
  last : order[order.length - 1]? = some r
  sub : ∀ (Q : Nat → Prop), (∀ i, Q i → ∀ c ∈ chOf t i, Q c) → Q r → ∀ i ∈ order, Q i

theorem orderOK_dfsPost (t : Net α) (ht : ChLt t) (r : Nat) (hr : r < t.length) :
    OrderOK t r (dfsPost t (t.length + 1) [] r) := by
  obtain ⟨hcl, hmem, _, hlast⟩ := dfsPost_spec t ht (t.length + 1) [] r (by omega) (by intro p hp; simp at hp)
  obtain ⟨s, hs⟩ := hlast (by simp)
  refine { closed := hcl, nodup := dfsPost_nodup t ht _ _ _ (by simp), lt := ?_, ne := ?_, last := ?_, sub := ?_ }
  · intro i hi
    rcases dfsPost_le t ht _ _ _ i hi with h | h
    · simp at h
    · omega
  · rw [hs]; simp
  · rw [hs]; simp
  · intro Q hQ hQr i hi
    rcases dfsPost_sub t Q hQ _ _ _ hQr i hi with h | h
    · simp at h
    · exact h

/-- entry `p` of the exported table -/
theorem export_node (t : Net α) (order : List Nat) (f : Nat → Nat) (hcl : Closed t order)
    (hlt : ∀ i ∈ order, i < t.length) (p : Nat) (hp : p < order.length) :
    ∃ y, t[order[p]]? = some y ∧
      (exportTable t order f)[p]? = some { y with id := f order[p], ch := y.ch.map (posIn order) } ∧
      ∀ c ∈ y.ch, posIn order c < p ∧ ∃ (h : posIn order c < order.length), order[posIn order c] = c := by
  have hi : order[p] < t.length := hlt _ (List.getElem_mem hp)
  have hy : t[order[p]]? = some t[order[p]] := List.getElem?_eq_getElem hi
  generalize t[order[p]] = y at hy
  refine ⟨y, hy, ?_, ?_⟩
  · unfold exportTable
    rw [List.getElem?_map, List.getElem?_eq_getElem hp]
    simp only [Option.map_some, hy]
  · intro c hc
    have hmem := hcl p hp c (by rw [chOf_some t _ y hy]; exact hc)
    have h1 := idxOf_lt_of_mem_take order p c hmem
    have h2 : posIn order c < order.length := by unfold posIn; omega
    exact ⟨h1, h2, List.getElem_idxOf h2⟩

theorem exportTable_length (t : Net α) (order : List Nat) (f : Nat → Nat) :
    (exportTable t order f).length = order.length := by simp [exportTable]

/-- kind and scope of an exported node are those of its source -/
theorem export_kind_scope (t : Net α) (order : List Nat) (f : Nat → Nat) (hcl : Closed t order)
    (hlt : ∀ i ∈ order, i < t.length) (p : Nat) (hp : p < order.length) :
    kindOf (exportTable t order f) p = kindOf t order[p] ∧ scopeOf (exportTable t order f) p = scopeOf t order[p] := by
  obtain ⟨y, hy, ho, _⟩ := export_node t order f hcl hlt p hp
  simp [kindOf, scopeOf, hy, ho]

/-- the exported table is children-first -/
theorem export_chLt (t : Net α) (order : List Nat) (f : Nat → Nat) (hcl : Closed t order)
    (hlt : ∀ i ∈ order, i < t.length) : ChLt (exportTable t order f) := by
  intro p z hz c hc
  have hp : p < order.length := by
    have := (List.getElem?_eq_some_iff.1 hz).1; rwa [exportTable_length] at this
  obtain ⟨y, hy, ho, hch⟩ := export_node t order f hcl hlt p hp
  rw [ho] at hz
  cases hz
  simp only [List.mem_map] at hc
  obtain ⟨c0, hc0, rfl⟩ := hc
  exact (hch c0 hc0).1

/-! ### BFS of a children-first table -/

theorem collect_lt_of_chLt (t : Net α) (ht : ChLt t) (root : Nat) (hr : root < t.length) :
    ∀ i ∈ collect t root, i ≤ root := by
  have hin : ∀ (i : Nat) (x : NNode α), t[i]? = some x → ∀ c ∈ x.ch, c < t.length :=
    fun i x hx c hc => lt_trans (ht i x hx c hc) (List.getElem?_eq_some_iff.1 hx).1
  intro i hi
  have hreach := (mem_collect_iff_reach t root hin i).1 hi
  clear hi
  induction hreach with
  | refl => exact Nat.le_refl _
  | tail _ hbc ih =>
    have := chOf_lt t ht _ _ hbc
    omega

/-! ### `prune` = pass + export -/

theorem sol_chLt (b : Bool) (net t : Net α) (rep : List Nat) (S : Sol b net t rep) : ChLt t := by
  intro i y hy c hc
  have hi : i < net.length := by rw [← S.lt]; exact (List.getElem?_eq_some_iff.1 hy).1
  exact (S.basic i hi).ch_lt c (by rw [chOf_some t i y hy]; exact hc)

/-- what a successful `prune` consists of -/
theorem pruneNetWith_unpack (b : Bool) (net : Net α) (root : Nat) (hw : WellOrdered net) (hr : root < net.length)
    (out : Net α) (order : List Nat) (h : pruneNetWith b net root = some (out, order)) :
    ∃ ko, kahn (prunePass b net).1 ((prunePass b net).2.getD root root) = some ko ∧
      OrderOK (prunePass b net).1 ((prunePass b net).2.getD root root) order ∧
      out = exportTable (prunePass b net).1 order (posIn ko) := by
  have S := prunePass_sol b net hw
  unfold pruneNetWith at h
  simp only at h
  obtain ⟨ko, hk, ho, he⟩ := exportFrom_unpack _ _ _ _ h
  refine ⟨ko, hk, ?_, he⟩
  rw [ho]
  apply orderOK_dfsPost _ (sol_chLt b net _ _ S)
  have := (S.basic root hr).rep_le
  rw [S.lt]; omega

/-- the set of replacements of the nodes of `P` -/
def RepOf (net : Net α) (rep : List Nat) (P : Nat → Prop) (r : Nat) : Prop :=
  ∃ j, j < net.length ∧ P j ∧ rep.getD j j = r

/-- every exported node is the replacement of a node of `P`, hence satisfies the invariant -/
theorem export_good (net t : Net α) (rep : List Nat) (hw : WellOrdered net) (S : Sol true net t rep)
    (P : Nat → Prop) (hP : ∀ i, P i → ∀ c ∈ chOf net i, P c) (hsh : ShapeOK net P)
    (root : Nat) (hr : root < net.length) (hPr : P root) (order : List Nat)
    (ho : OrderOK t (rep.getD root root) order) :
    ∀ i ∈ order, RepOf net rep P i ∧ GoodAt t rep P i := by
  have hgood : ∀ r, RepOf net rep P r → GoodAt t rep P r := by
    rintro r ⟨j, hj, hPj, rfl⟩
    exact sol_good net t rep hw S P hP hsh j hj hPj
  have hcl : ∀ i, RepOf net rep P i → ∀ c ∈ chOf t i, RepOf net rep P c := by
    intro i hi c hc
    obtain ⟨y, hy, hg⟩ := hgood i hi
    rw [chOf_some t i y hy] at hc
    rcases hg with ⟨_, h0⟩ | ⟨_, _, h3⟩
    · rw [h0] at hc; cases hc
    · obtain ⟨_, j, hj, hPj, hjc⟩ := h3 c hc
      obtain ⟨j0, hj0, _, hj0i⟩ := hi
      have := (S.basic j0 hj0).rep_le
      exact ⟨j, by omega, hPj, hjc⟩
  intro i hi
  have := ho.sub (RepOf net rep P) hcl ⟨root, hr, hPr, rfl⟩ i hi
  exact ⟨this, hgood i this⟩

end Deeprob
