import DeeprobModel.Model.Sched
import Mathlib.Data.List.Basic
import Mathlib.Data.List.Perm.Subperm
import Mathlib.Data.List.Nodup
import Mathlib.Data.List.Flatten
import Mathlib.Tactic.Common
import Mathlib.Tactic.Linarith
/-
Correctness of the modelled layered Kahn order (`Sched.layers`): whenever it returns `some L`,
the layers are duplicate-free, pairwise disjoint, cover exactly the node list `R = collect n root`,
and no edge leads from a layer to the same or an earlier layer.
-/
namespace Deeprob.Sched
open List

section fold

theorem procEdge_fst (st : (Nat → Int) × List Nat) (c v : Nat) :
    (procEdge st c).1 v = st.1 v - (if v = c then 1 else 0) := by
  have hc : setF st.1 c (st.1 c - 1) c = st.1 c - 1 := by simp [setF]
  unfold procEdge
  simp only [hc]
  by_cases h : v = c
  · subst h; by_cases h2 : st.1 v - 1 = 0 <;> simp [setF, h2]
  · by_cases h2 : st.1 c - 1 = 0 <;> simp [setF, h, h2]

theorem procEdge_snd (st : (Nat → Int) × List Nat) (c : Nat) :
    (procEdge st c).2 = if st.1 c - 1 = 0 then st.2 ++ [c] else st.2 := by
  have hc : setF st.1 c (st.1 c - 1) c = st.1 c - 1 := by simp [setF]
  unfold procEdge
  simp only [hc]
  by_cases h2 : st.1 c - 1 = 0 <;> simp [h2]

theorem fold_fst (es : List Nat) (st : (Nat → Int) × List Nat) (v : Nat) :
    (es.foldl procEdge st).1 v = st.1 v - (es.count v : Nat) := by
  induction es generalizing st with
  | nil => simp
  | cons c es ih =>
    rw [foldl_cons, ih, procEdge_fst, count_cons]
    by_cases h : v = c
    · subst h; simp; omega
    · have : (c == v) = false := by simp [Ne.symm h]
      simp [h, this]

/-- invariant used for duplicate-freeness: every node already listed (in earlier layers, the current layer
or the layer under construction) has a non-positive counter -/
def Good (listed : List Nat) (st : (Nat → Int) × List Nat) : Prop :=
  (listed ++ st.2).Nodup ∧ ∀ v ∈ listed ++ st.2, st.1 v ≤ 0

theorem good_step (listed : List Nat) (st : (Nat → Int) × List Nat) (c : Nat) (h : Good listed st) :
    Good listed (procEdge st c) := by
  obtain ⟨hn, hle⟩ := h
  refine ⟨?_, ?_⟩
  · rw [procEdge_snd]
    by_cases h0 : st.1 c - 1 = 0
    · rw [if_pos h0, ← append_assoc]
      refine Nodup.append hn (nodup_singleton c) ?_
      intro x hx hx'
      rw [mem_singleton] at hx'; subst hx'
      have := hle x hx; omega
    · rw [if_neg h0]; exact hn
  · intro v hv
    rw [procEdge_fst]
    rw [procEdge_snd] at hv
    by_cases h0 : st.1 c - 1 = 0
    · rw [if_pos h0, ← append_assoc, mem_append, mem_singleton] at hv
      rcases hv with hv | rfl
      · have := hle v hv; split <;> omega
      · simp; omega
    · rw [if_neg h0] at hv
      have := hle v hv; split <;> omega

theorem good_fold (listed : List Nat) (es : List Nat) (st : (Nat → Int) × List Nat) (h : Good listed st) :
    Good listed (es.foldl procEdge st) := by
  induction es generalizing st with
  | nil => exact h
  | cons c es ih => exact ih _ (good_step listed st c h)

theorem fold_snd_mono (es : List Nat) (st : (Nat → Int) × List Nat) :
    ∀ v ∈ st.2, v ∈ (es.foldl procEdge st).2 := by
  induction es generalizing st with
  | nil => intro v hv; exact hv
  | cons c es ih =>
    intro v hv
    refine ih _ v ?_
    rw [procEdge_snd]; split
    · exact mem_append_left _ hv
    · exact hv

theorem fold_snd_sub (es : List Nat) (st : (Nat → Int) × List Nat) :
    ∀ v ∈ (es.foldl procEdge st).2, v ∈ st.2 ∨ v ∈ es := by
  induction es generalizing st with
  | nil => intro v hv; exact Or.inl hv
  | cons c es ih =>
    intro v hv
    rcases ih _ v hv with h | h
    · rw [procEdge_snd] at h
      split at h
      · rcases mem_append.1 h with h | h
        · exact Or.inl h
        · rw [mem_singleton] at h; subst h; exact Or.inr (mem_cons_self ..)
      · exact Or.inl h
    · exact Or.inr (mem_cons_of_mem _ h)

/-- a counter that starts positive and ends non-positive has passed through zero: the node was appended -/
theorem fold_hit (es : List Nat) (st : (Nat → Int) × List Nat) (v : Nat)
    (h0 : 0 < st.1 v) (h1 : (es.foldl procEdge st).1 v ≤ 0) : v ∈ (es.foldl procEdge st).2 := by
  induction es generalizing st with
  | nil => simp at h1; omega
  | cons c es ih =>
    rw [foldl_cons] at h1 ⊢
    by_cases hp : 0 < (procEdge st c).1 v
    · exact ih _ hp h1
    · -- the counter reached zero at this very step
      refine fold_snd_mono es _ v ?_
      rw [procEdge_fst] at hp
      have hvc : v = c := by
        by_contra hne; simp [hne] at hp; omega
      subst hvc
      simp at hp
      rw [procEdge_snd, if_pos (by omega)]
      exact mem_append_right _ (mem_singleton_self _)

end fold

section outer
variable {α : Type} (n : Net α) (root : Nat)

/-- targets of the edges leaving the nodes of `P`, with multiplicity, in processing order -/
def edgesOf (P : List Nat) : List Nat := P.flatMap (Net.chOf n)

/-- the facts about `R = collect n root` that Kahn's algorithm relies on -/
structure ReachOK (R : List Nat) : Prop where
  root_mem : root ∈ R
  closed : ∀ p ∈ R, ∀ c ∈ Net.chOf n p, c ∈ R
  parent : ∀ v ∈ R, v = root ∨ ∃ p ∈ R, v ∈ Net.chOf n p

theorem reachOKB_iff (R : List Nat) : reachOKB n root R = true ↔ ReachOK n root R := by
  unfold reachOKB
  simp only [Bool.and_eq_true, contains_iff_mem, all_eq_true, any_eq_true, Bool.or_eq_true, beq_iff_eq]
  constructor
  · rintro ⟨⟨h1, h2⟩, h3⟩
    exact ⟨h1, h2, fun v hv => (h3 v hv).imp id (fun ⟨p, hp, hc⟩ => ⟨p, hp, hc⟩)⟩
  · rintro ⟨h1, h2, h3⟩
    exact ⟨⟨h1, h2⟩, fun v hv => (h3 v hv).imp id (fun ⟨p, hp, hc⟩ => ⟨p, hp, hc⟩)⟩

/-- no edge leads from a layer to the same or an earlier layer -/
def NoBack (L : List (List Nat)) : Prop :=
  L.Pairwise (fun A B => ∀ p ∈ B, ∀ c ∈ Net.chOf n p, c ∉ A) ∧ ∀ A ∈ L, ∀ p ∈ A, ∀ c ∈ Net.chOf n p, c ∉ A

/-- CAPACITY: distinct nodes of `R` carry at most the edges of `R` -/
theorem capacity (P R : List Nat) (hd : P.Nodup) (hs : P ⊆ R) (c : Nat) :
    count c (edgesOf n P) ≤ count c (edgesOf n R) := by
  obtain ⟨l, hp, hsub⟩ := subperm_of_subset hd hs
  have h1 : count c (edgesOf n l) = count c (edgesOf n P) := (hp.flatMap_right (Net.chOf n)).count_eq c
  have h2 : count c (edgesOf n l) ≤ count c (edgesOf n R) := by
    unfold edgesOf
    exact (hsub.flatMap _).count_le c
  omega

theorem flat_snoc (acc : List (List Nat)) (last : List Nat) : (acc ++ [last]).flatten = acc.flatten ++ last := by
  simp

theorem edgesOf_append (A B : List Nat) : edgesOf n (A ++ B) = edgesOf n A ++ edgesOf n B := by
  unfold edgesOf; exact flatMap_append

/-- loop invariant of `layersGo` -/
structure LInv (R : List Nat) (cnt : Nat → Int) (acc : List (List Nat)) (last : List Nat) : Prop where
  nodup : (acc.flatten ++ last).Nodup
  sub : ∀ v ∈ acc.flatten ++ last, v ∈ R
  cnt_eq : ∀ v, cnt v = (count v (edgesOf n R) : Int) - (count v (edgesOf n acc.flatten) : Int)
  nonpos : ∀ v ∈ acc.flatten ++ last, cnt v ≤ 0
  hit : ∀ v, 0 < count v (edgesOf n R) → cnt v ≤ 0 → v ∈ acc.flatten ++ last
  noback : NoBack n (acc ++ [last])
  root_mem : root ∈ acc.flatten ++ last

theorem linv_step (R : List Nat) (hR : ReachOK n root R) (cnt : Nat → Int) (acc : List (List Nat))
    (last : List Nat) (h : LInv n root R cnt acc last) :
    LInv n root R (procLayer n cnt last).1 (acc ++ [last]) (procLayer n cnt last).2 := by
  have hgood0 : Good (acc.flatten ++ last) (cnt, []) := by
    refine ⟨by simpa using h.nodup, fun v hv => ?_⟩
    simp only [append_nil] at hv; exact h.nonpos v hv
  have hgood : Good (acc.flatten ++ last) (procLayer n cnt last) := good_fold _ _ _ hgood0
  have hnew_sub : ∀ v ∈ (procLayer n cnt last).2, v ∈ R := by
    intro v hv
    rcases fold_snd_sub _ _ v hv with h0 | h0
    · simp at h0
    · obtain ⟨p, hp, hc⟩ := mem_flatMap.1 h0
      exact hR.closed p (h.sub p (mem_append_right _ hp)) v hc
  have hcnt : ∀ v, (procLayer n cnt last).1 v
      = (count v (edgesOf n R) : Int) - (count v (edgesOf n (acc ++ [last]).flatten) : Int) := by
    intro v
    unfold procLayer
    rw [fold_fst, flat_snoc, edgesOf_append, count_append]
    show cnt v - _ = _
    rw [h.cnt_eq v]
    unfold edgesOf
    push_cast; omega
  have hnodup : ((acc ++ [last]).flatten ++ (procLayer n cnt last).2).Nodup := by
    rw [flat_snoc]; exact hgood.1
  have hnonpos : ∀ v ∈ (acc ++ [last]).flatten ++ (procLayer n cnt last).2, (procLayer n cnt last).1 v ≤ 0 := by
    rw [flat_snoc]; exact hgood.2
  -- no edge from a new node back to a listed node
  have hclaim : ∀ p ∈ (procLayer n cnt last).2, ∀ c ∈ Net.chOf n p,
      c ∉ (acc ++ [last]).flatten ++ (procLayer n cnt last).2 := by
    intro p hp c hc hmem
    have hle := hnonpos c hmem
    rw [hcnt c] at hle
    have hpn : p ∉ (acc ++ [last]).flatten := by
      intro hin
      exact (nodup_append.1 hnodup).2.2 p hin p hp rfl
    have hd : ((acc ++ [last]).flatten ++ [p]).Nodup :=
      Nodup.append (nodup_append.1 hnodup).1 (nodup_singleton p)
        (by intro x hx hx'; rw [mem_singleton] at hx'; subst hx'; exact hpn hx)
    have hs : (acc ++ [last]).flatten ++ [p] ⊆ R := by
      intro x hx
      rcases mem_append.1 hx with hx | hx
      · rw [flat_snoc] at hx; exact h.sub x hx
      · rw [mem_singleton] at hx; subst hx; exact hnew_sub x hp
    have hcap := capacity n _ R hd hs c
    rw [edgesOf_append, count_append] at hcap
    have h1 : 1 ≤ count c (edgesOf n [p]) := by
      unfold edgesOf
      simp only [flatMap_cons, flatMap_nil, append_nil]
      exact count_pos_iff.2 hc
    omega
  refine ⟨hnodup, ?_, hcnt, hnonpos, ?_, ?_, ?_⟩
  · intro v hv
    rcases mem_append.1 hv with hv | hv
    · rw [flat_snoc] at hv; exact h.sub v hv
    · exact hnew_sub v hv
  · intro v hpos hle
    by_cases hc : cnt v ≤ 0
    · rw [flat_snoc]; exact mem_append_left _ (h.hit v hpos hc)
    · refine mem_append_right _ ?_
      unfold procLayer at hle ⊢
      exact fold_hit _ _ v (by simpa using hc) hle
  · obtain ⟨hp1, hp2⟩ := h.noback
    refine ⟨?_, ?_⟩
    · rw [pairwise_append]
      refine ⟨hp1, pairwise_singleton _ _, ?_⟩
      intro A hA B hB
      rw [mem_singleton] at hB; subst hB
      intro p hp c hc hcA
      exact hclaim p hp c hc (mem_append_left _ (mem_flatten.2 ⟨A, hA, hcA⟩))
    · intro A hA
      rcases mem_append.1 hA with hA | hA
      · exact hp2 A hA
      · rw [mem_singleton] at hA; subst hA
        intro p hp c hc hcA
        exact hclaim p hp c hc (mem_append_right _ hcA)
  · rw [flat_snoc]; exact mem_append_left _ h.root_mem

theorem layersGo_inv (R : List Nat) (hR : ReachOK n root R) (fuel : Nat) (cnt : Nat → Int)
    (acc : List (List Nat)) (last : List Nat) (h : LInv n root R cnt acc last)
    (cnt' : Nat → Int) (L : List (List Nat)) (hgo : layersGo n fuel cnt acc last = some (cnt', L)) :
    LInv n root R cnt' L [] := by
  induction fuel generalizing cnt acc last with
  | zero => simp [layersGo] at hgo
  | succ fuel ih =>
    have hstep := linv_step n root R hR cnt acc last h
    unfold layersGo at hgo
    simp only at hgo
    by_cases he : (procLayer n cnt last).2.isEmpty = true
    · rw [if_pos he] at hgo
      simp only [Option.some.injEq, Prod.mk.injEq] at hgo
      obtain ⟨h1, h2⟩ := hgo
      have : (procLayer n cnt last).2 = [] := isEmpty_iff.1 he
      rw [this] at hstep
      rw [← h1, ← h2]; exact hstep
    · rw [if_neg he] at hgo
      exact ih _ _ _ hstep hgo

theorem sum_zero_of_nonneg (l : List Int) (h0 : ∀ x ∈ l, 0 ≤ x) (hs : l.sum = 0) : ∀ x ∈ l, x = 0 := by
  induction l with
  | nil => intro x hx; simp at hx
  | cons a l ih =>
    have ha := h0 a (mem_cons_self ..)
    have hl : 0 ≤ l.sum := by
      clear ih hs
      induction l with
      | nil => simp
      | cons b l ih2 =>
        rw [sum_cons]
        have := h0 b (mem_cons_of_mem _ (mem_cons_self ..))
        have := ih2 (fun x hx => by
          rcases mem_cons.1 hx with rfl | hx
          · exact h0 _ (mem_cons_self ..)
          · exact h0 x (mem_cons_of_mem _ (mem_cons_of_mem _ hx)))
        omega
    rw [sum_cons] at hs
    intro x hx
    rcases mem_cons.1 hx with rfl | hx
    · omega
    · exact ih (fun x hx => h0 x (mem_cons_of_mem _ hx)) (by omega) x hx

/-- MAIN LEMMA: what a successful run of the modelled `topological_order_layered` guarantees -/
theorem layers_spec (L : List (List Nat)) (h : layers n root = some L)
    (hR : ReachOK n root (Net.collect n root)) :
    L.flatten.Nodup ∧ (∀ v, v ∈ L.flatten ↔ v ∈ Net.collect n root) ∧ NoBack n L := by
  unfold layers at h
  simp only at h
  by_cases h0 : indeg n root root ≠ 0
  · rw [if_pos h0] at h; exact absurd h (by simp)
  rw [if_neg h0] at h
  have h0' : indeg n root root = 0 := by simpa using h0
  cases hgo : layersGo n ((Net.collect n root).length + 1) (indeg n root) [] [root] with
  | none => rw [hgo] at h; exact absurd h (by simp)
  | some r =>
    obtain ⟨cnt', L'⟩ := r
    rw [hgo] at h
    simp only at h
    by_cases hs : (map cnt' (Net.collect n root)).sum ≠ 0
    · rw [if_pos hs] at h; exact absurd h (by simp)
    rw [if_neg hs] at h
    have hs' : (map cnt' (Net.collect n root)).sum = 0 := by simpa using hs
    have hL : L' = L := by simpa using h
    subst hL
    have hroot0 : count root (edgesOf n (Net.collect n root)) = 0 := by
      have := h0'; unfold indeg at this; unfold edgesOf; exact_mod_cast this
    have hinit : LInv n root (Net.collect n root) (indeg n root) [] [root] := by
      refine ⟨by simp, ?_, ?_, ?_, ?_, ?_, by simp⟩
      · intro v hv; simp at hv; subst hv; exact hR.root_mem
      · intro v; unfold indeg edgesOf; simp
      · intro v hv; simp at hv; subst hv; omega
      · intro v hpos hle
        unfold indeg at hle; unfold edgesOf at hpos
        have : (0 : Int) < ((count v (flatMap (Net.chOf n) (Net.collect n root)) : Nat) : Int) := by
          exact_mod_cast hpos
        omega
      · refine ⟨by simp, ?_⟩
        intro A hA p hp c hc hcA
        have hA' : A = [root] := by simpa using hA
        rw [hA'] at hp hcA
        have hp' : p = root := by simpa using hp
        have hc' : c = root := by simpa using hcA
        rw [hp', hc'] at hc
        have : 0 < count root (edgesOf n (Net.collect n root)) :=
          count_pos_iff.2 (mem_flatMap.2 ⟨root, hR.root_mem, hc⟩)
        omega
    have hfin := layersGo_inv n root _ hR _ _ _ _ hinit cnt' L' hgo
    have hnd : L'.flatten.Nodup := by simpa using hfin.nodup
    have hsub : ∀ v ∈ L'.flatten, v ∈ Net.collect n root := fun v hv => hfin.sub v (by simpa using hv)
    refine ⟨hnd, fun v => ⟨hsub v, ?_⟩, ?_⟩
    · intro hv
      have hnn : ∀ x ∈ map cnt' (Net.collect n root), 0 ≤ x := by
        intro x hx
        obtain ⟨w, _, rfl⟩ := mem_map.1 hx
        rw [hfin.cnt_eq w]
        have := capacity n L'.flatten _ hnd (fun x hx => hsub x hx) w
        omega
      have hz := sum_zero_of_nonneg _ hnn hs' (cnt' v) (mem_map.2 ⟨v, hv, rfl⟩)
      rcases hR.parent v hv with hvr | ⟨p, hp, hc⟩
      · rw [hvr]; simpa using hfin.root_mem
      · have hpos : 0 < count v (edgesOf n (Net.collect n root)) :=
          count_pos_iff.2 (mem_flatMap.2 ⟨p, hp, hc⟩)
        simpa using hfin.hit v hpos (by omega)
    · have := hfin.noback
      -- drop the trailing empty layer of the final invariant
      obtain ⟨hp1, hp2⟩ := this
      rw [pairwise_append] at hp1
      exact ⟨hp1.1, fun A hA => hp2 A (mem_append_left _ hA)⟩

end outer

end Deeprob.Sched
