import DeeprobModel.Lemmas.RewriteNetFix
import DeeprobModel.Lemmas.RewriteNetOrder
import DeeprobModel.Lemmas.KahnLemmas
set_option linter.unusedSectionVars false
set_option linter.unusedSimpArgs false
set_option linter.unusedVariables false
/-
`topological_order` (Kahn, `Net.kahn`) commutes with the relabelling of the canonical export:
`kahn (exportTable t order f) (n-1) = (kahn t r).map (posIn order)` (`kahn_export`). Consequence: exporting an
exported table reproduces it, ids included (`exportFrom_export_ids`).
-/
namespace Deeprob
open Net
variable {α : Type} [CommSemiring α]

/-! ### fuel of the loop -/

theorem kahnLoop_ord_len (t : Net α) : ∀ fuel q cnt ord, ord.length ≤ (kahnLoop t fuel q cnt ord).2.length := by
  intro fuel
  induction fuel with
  | zero => intro q cnt ord; simp [kahnLoop]
  | succ fl ih =>
    intro q cnt ord
    match q with
    | [] => simp [kahnLoop]
    | a :: qs =>
      simp only [kahnLoop]
      have := ih (qs ++ (kahnVisit cnt (chOf t a)).2) (kahnVisit cnt (chOf t a)).1 (ord ++ [a])
      simp at this; omega

/-- a run that stops before its fuel is exhausted does the same with any other sufficient fuel -/
theorem kahnLoop_fuel (t : Net α) : ∀ f1 f2 q cnt ord,
    (kahnLoop t f1 q cnt ord).2.length < ord.length + f1 → (kahnLoop t f1 q cnt ord).2.length < ord.length + f2 →
    kahnLoop t f2 q cnt ord = kahnLoop t f1 q cnt ord := by
  intro f1
  induction f1 with
  | zero => intro f2 q cnt ord h; simp [kahnLoop] at h
  | succ fl ih =>
    intro f2 q cnt ord h1 h2
    match q with
    | [] => cases f2 <;> simp [kahnLoop]
    | a :: qs =>
      simp only [kahnLoop] at h1 h2 ⊢
      have hge := kahnLoop_ord_len t fl (qs ++ (kahnVisit cnt (chOf t a)).2) (kahnVisit cnt (chOf t a)).1 (ord ++ [a])
      simp only [List.length_append, List.length_singleton] at hge
      match f2 with
      | 0 => omega
      | f2' + 1 =>
        simp only [kahnLoop]
        apply ih
        · simp only [List.length_append, List.length_singleton]; omega
        · simp only [List.length_append, List.length_singleton]; omega

/-! ### the simulation -/

section sim
variable (t : Net α) (order : List Nat) (f : Nat → Nat)

/-- counters of the exported table = counters of the source table read through the relabelling -/
def CRel (cnt cnt' : List Nat) : Prop :=
  cnt'.length = order.length ∧ ∀ i ∈ order, cnt'.getD (posIn order i) 0 = cnt.getD i 0

theorem kstep_sim (st st' : List Nat × List Nat) (c : Nat) (hc : c ∈ order) (hlen : c < st.1.length)
    (hrel : CRel order st.1 st'.1) (hq : st'.2 = st.2.map (posIn order)) :
    CRel order (Net.kstep st c).1 (Net.kstep st' (posIn order c)).1 ∧
      (Net.kstep st' (posIn order c)).2 = (Net.kstep st c).2.map (posIn order) := by
  have hk : st'.1.getD (posIn order c) 0 = st.1.getD c 0 := hrel.2 c hc
  have hpc : posIn order c < st'.1.length := by rw [hrel.1]; exact List.idxOf_lt_length_iff.2 hc
  constructor
  · refine ⟨by rw [Net.kstep_length]; exact hrel.1, ?_⟩
    intro i hi
    unfold Net.kstep
    simp only
    rw [Net.getD_set_nat, Net.getD_set_nat, hk, hrel.2 i hi]
    by_cases hic : i = c
    · subst hic; simp [hlen, hpc]
    · have : ¬ posIn order i = posIn order c := fun e => hic (posIn_inj order i c hi e)
      simp [hic, this]
  · unfold Net.kstep
    simp only
    rw [hk, hq]
    split <;> simp

theorem kfold_sim (ch : List Nat) : ∀ (st st' : List Nat × List Nat), (∀ c ∈ ch, c ∈ order ∧ c < st.1.length) →
    CRel order st.1 st'.1 → st'.2 = st.2.map (posIn order) →
    CRel order (ch.foldl Net.kstep st).1 ((ch.map (posIn order)).foldl Net.kstep st').1 ∧
      ((ch.map (posIn order)).foldl Net.kstep st').2 = (ch.foldl Net.kstep st).2.map (posIn order) := by
  induction ch with
  | nil => intro st st' _ h1 h2; exact ⟨h1, h2⟩
  | cons c cs ih =>
    intro st st' hch h1 h2
    obtain ⟨hc1, hc2⟩ := hch c List.mem_cons_self
    obtain ⟨g1, g2⟩ := kstep_sim order st st' c hc1 hc2 h1 h2
    simp only [List.map_cons, List.foldl_cons]
    apply ih _ _ _ g1 g2
    intro d hd
    rw [Net.kstep_length]
    exact hch d (List.mem_cons_of_mem _ hd)

theorem kfold_length (ch : List Nat) (st : List Nat × List Nat) : (ch.foldl Net.kstep st).1.length = st.1.length := by
  induction ch generalizing st with
  | nil => rfl
  | cons c cs ih => simp only [List.foldl_cons]; rw [ih, Net.kstep_length]

variable (hcl : Closed t order) (hlt : ∀ i ∈ order, i < t.length)
include hcl hlt

theorem export_chOf_pos (i : Nat) (hi : i ∈ order) :
    chOf (exportTable t order f) (posIn order i) = (chOf t i).map (posIn order) := by
  have hp : posIn order i < order.length := List.idxOf_lt_length_iff.2 hi
  have hget : order[posIn order i] = i := List.getElem_idxOf hp
  rw [export_chOf t order f hcl hlt _ hp, hget]

theorem kahnLoop_sim : ∀ fuel q cnt cnt' ord, (∀ a ∈ q, a ∈ order) → cnt.length = t.length → CRel order cnt cnt' →
    CRel order (kahnLoop t fuel q cnt ord).1
        (kahnLoop (exportTable t order f) fuel (q.map (posIn order)) cnt' (ord.map (posIn order))).1 ∧
      (kahnLoop (exportTable t order f) fuel (q.map (posIn order)) cnt' (ord.map (posIn order))).2
        = (kahnLoop t fuel q cnt ord).2.map (posIn order) := by
  intro fuel
  induction fuel with
  | zero => intro q cnt cnt' ord _ _ h; exact ⟨h, rfl⟩
  | succ fl ih =>
    intro q cnt cnt' ord hq hlen hrel
    match q with
    | [] => exact ⟨hrel, rfl⟩
    | a :: qs =>
      have ha := hq a List.mem_cons_self
      simp only [List.map_cons, kahnLoop]
      rw [export_chOf_pos t order f hcl hlt a ha, Net.kahnVisit_eq, Net.kahnVisit_eq]
      have hch : ∀ c ∈ chOf t a, c ∈ order ∧ c < cnt.length := by
        intro c hc
        have := closed_mem t order hcl a ha c hc
        exact ⟨this, by rw [hlen]; exact hlt c this⟩
      obtain ⟨g1, g2⟩ := kfold_sim order (chOf t a) (cnt, []) (cnt', []) hch hrel rfl
      have := ih (qs ++ ((chOf t a).foldl Net.kstep (cnt, [])).2) ((chOf t a).foldl Net.kstep (cnt, [])).1
        (((chOf t a).map (posIn order)).foldl Net.kstep (cnt', [])).1 (ord ++ [a]) ?_ ?_ g1
      · rw [g2]
        simpa using this
      · intro b hb
        rcases List.mem_append.1 hb with h | h
        · exact hq b (List.mem_cons_of_mem _ h)
        · rcases Net.kfold_snd_sub (chOf t a) (cnt, []) b h with h | h
          · simp at h
          · exact (hch b h).1
      · rw [kfold_length]; exact hlen

theorem count_map_posIn (l : List Nat) (i : Nat) (hi : i ∈ order) (hl : ∀ a ∈ l, a ∈ order) :
    List.count (posIn order i) (l.map (posIn order)) = List.count i l := by
  induction l with
  | nil => rfl
  | cons a l ih =>
    have ha := hl a List.mem_cons_self
    simp only [List.map_cons, List.count_cons, ih (fun b hb => hl b (List.mem_cons_of_mem _ hb))]
    congr 1
    by_cases e : a = i
    · subst e; simp
    · have : ¬ posIn order a = posIn order i := fun h => e (posIn_inj order a i ha h)
      simp [e, this]

end sim

/-- **Kahn's order of an exported table is the relabelled Kahn order of the source** -/
theorem kahn_export (t : Net α) (ht : Deeprob.ChLt t) (r : Nat) (hr : r < t.length) (f : Nat → Nat)
    (order : List Nat) (ho : OrderOK t r order) (ko : List Nat) (hk : kahn t r = some ko) :
    kahn (exportTable t order f) (order.length - 1) = some (ko.map (posIn order)) := by
  have hcl := ho.closed
  have hlt := ho.lt
  have hne : order.length ≠ 0 := fun h0 => ho.ne (List.eq_nil_of_length_eq_zero h0)
  have hrmem : r ∈ order := List.mem_of_getElem? ho.last
  have hlastpos : posIn order r = order.length - 1 := by
    have hp : order.length - 1 < order.length := by omega
    have h1 := ho.last
    rw [List.getElem?_eq_getElem hp] at h1
    have := posIn_getElem order ho.nodup _ hp
    rw [Option.some.inj h1] at this; exact this
  have hlen : (exportTable t order f).length = order.length := exportTable_length _ _ _
  have hclo : Deeprob.ChLt (exportTable t order f) := export_chLt t order f hcl hlt
  have hinT : Net.InRange t := by
    intro a c hc
    unfold chOf at hc
    cases hx : t[a]? with
    | none => rw [hx] at hc; cases hc
    | some x => rw [hx] at hc; exact lt_trans (ht a x hx c hc) (List.getElem?_eq_some_iff.1 hx).1
  have hinO : Net.InRange (exportTable t order f) := by
    intro a c hc
    unfold chOf at hc
    cases hx : (exportTable t order f)[a]? with
    | none => rw [hx] at hc; cases hc
    | some x => rw [hx] at hc; exact lt_trans (hclo a x hx c hc) (List.getElem?_eq_some_iff.1 hx).1
  obtain ⟨hkn, hkm, _⟩ := Net.kahn_spec t r hinT ko hk
  -- the collected nodes
  have hperm : (collect t r).Perm order := by
    rw [List.perm_ext_iff_of_nodup (collect_nodup _ _) ho.nodup]
    intro a
    rw [order_mem_iff_reach t r order ho a, mem_collect_iff_reach t r (inRangeTable_of_ChLt t ht) a]
  have hkolen : ko.length = order.length := by
    have : ko.Perm (collect t r) := (List.perm_ext_iff_of_nodup hkn (collect_nodup _ _)).2 hkm
    rw [this.length_eq, hperm.length_eq]
  have hcperm : (collect (exportTable t order f) (order.length - 1)).Perm ((collect t r).map (posIn order)) := by
    have h1 : (collect (exportTable t order f) (order.length - 1)).Perm (List.range order.length) := by
      rw [List.perm_ext_iff_of_nodup (collect_nodup _ _) List.nodup_range]
      intro a
      rw [List.mem_range]
      constructor
      · intro ha
        have := collect_lt_of_chLt _ hclo (order.length - 1) (by rw [hlen]; omega) a ha
        omega
      · intro hp
        rw [mem_collect_iff_reach _ _ (inRangeTable_of_ChLt _ hclo) a, ← hlastpos]
        have h1 := export_reach t r order ho f order[a]
          ((order_mem_iff_reach t r order ho _).1 (List.getElem_mem hp))
        rwa [posIn_getElem order ho.nodup a hp] at h1
    apply h1.trans
    rw [← map_posIn_self order ho.nodup]
    exact (hperm.map _).symm
  -- the initial counters
  have hcnt : CRel order (kahnCounts t r) (kahnCounts (exportTable t order f) (order.length - 1)) := by
    obtain ⟨l1, c1⟩ := Net.kahnCounts_spec t r hinT
    obtain ⟨l2, c2⟩ := Net.kahnCounts_spec (exportTable t order f) (order.length - 1) hinO
    refine ⟨by rw [l2, hlen], ?_⟩
    intro i hi
    rw [c1, c2]
    unfold Sched.edgesOf
    rw [(hcperm.flatMap_right _).count_eq, List.flatMap_map]
    have hcm : ∀ a ∈ collect t r, a ∈ order := fun a ha => hperm.mem_iff.1 ha
    have : (collect t r).flatMap (fun a => chOf (exportTable t order f) (posIn order a))
        = ((collect t r).flatMap (chOf t)).map (posIn order) := by
      rw [List.map_flatMap]
      apply List.flatMap_congr
      intro a ha
      exact export_chOf_pos t order f hcl hlt a (hcm a ha)
    rw [this]
    apply count_map_posIn t order hcl hlt _ i hi
    intro a ha
    obtain ⟨p, hp, hap⟩ := List.mem_flatMap.1 ha
    exact closed_mem t order hcl p (hcm p hp) a hap
  obtain ⟨h0, hall0, hord⟩ := Net.kahn_unfold t r ko hk
  have hl1 : (kahnCounts t r).length = t.length := (Net.kahnCounts_spec t r hinT).1
  -- fuel: the source run needs only `order.length + 1` rounds
  have hnle : order.length ≤ t.length := nodup_length_le order t.length ho.nodup hlt
  have hfuel : kahnLoop t (order.length + 1) [r] (kahnCounts t r) []
      = kahnLoop t (t.length + 1) [r] (kahnCounts t r) [] := by
    apply kahnLoop_fuel
    · rw [← hord, hkolen]; simp; omega
    · rw [← hord, hkolen]; simp
  obtain ⟨s1, s2⟩ := kahnLoop_sim t order f hcl hlt (order.length + 1) [r] (kahnCounts t r)
    (kahnCounts (exportTable t order f) (order.length - 1)) [] (by simpa using hrmem) hl1 hcnt
  rw [hfuel] at s1 s2
  simp only [List.map_cons, List.map_nil, hlastpos] at s1 s2
  unfold kahn
  simp only [hlen]
  have hroot0 : (kahnCounts (exportTable t order f) (order.length - 1)).getD (order.length - 1) 0 = 0 := by
    have := hcnt.2 r hrmem
    rw [hlastpos] at this
    rw [this]; exact h0
  rw [if_neg (by rw [hroot0]; decide)]
  have hz : (kahnLoop (exportTable t order f) (order.length + 1) [order.length - 1]
      (kahnCounts (exportTable t order f) (order.length - 1)) []).1.all (fun k => k == 0) = true := by
    rw [Net.all_zero_iff]
    intro v
    rcases Nat.lt_or_ge v order.length with hv | hv
    · have := s1.2 order[v] (List.getElem_mem hv)
      rw [posIn_getElem order ho.nodup v hv] at this
      rw [this]
      exact (Net.all_zero_iff _).1 hall0 _
    · rw [List.getD_eq_getElem?_getD, List.getElem?_eq_none (by rw [s1.1]; exact hv)]; rfl
  rw [if_pos hz, s2, ← hord]

theorem idxOf_map_posIn (order ko : List Nat) (a : Nat) (ha : a ∈ order) (hko : ∀ b ∈ ko, b ∈ order) :
    posIn (ko.map (posIn order)) (posIn order a) = posIn ko a := by
  unfold posIn
  induction ko with
  | nil => rfl
  | cons b ko ih =>
    have hb := hko b List.mem_cons_self
    simp only [List.map_cons, List.idxOf_cons]
    by_cases e : b = a
    · subst e; simp
    · have : ¬ List.idxOf b order = List.idxOf a order := fun h => e (posIn_inj order b a hb h)
      have ih' := ih (fun c hc => hko c (List.mem_cons_of_mem _ hc))
      have e' : (b == a) = false := by simpa using e
      have this' : (List.idxOf b order == List.idxOf a order) = false := by simpa using this
      simp only [e', this', cond_false, ih']

/-- **exporting an exported table reproduces it, ids included** -/
theorem exportFrom_export_ids (t : Net α) (ht : Deeprob.ChLt t) (r : Nat) (hr : r < t.length)
    (out : Net α) (order : List Nat) (h : exportFrom t r = some (out, order)) :
    exportFrom out (out.length - 1) = some (out, List.range out.length) := by
  obtain ⟨ko, hk, hord, he⟩ := exportFrom_unpack t r out order h
  have ho : OrderOK t r order := by rw [hord]; exact orderOK_dfsPost t ht r hr
  have hlen : out.length = order.length := by rw [he]; exact exportTable_length _ _ _
  have hk' := kahn_export t ht r hr (posIn ko) order ho ko hk
  rw [← he, ← hlen] at hk'
  have hcl : Deeprob.ChLt out := by rw [he]; exact export_chLt t order (posIn ko) ho.closed ho.lt
  -- the second export, up to the ids
  cases h2 : exportFrom out (out.length - 1) with
  | none =>
    exfalso
    unfold exportFrom at h2
    rw [hk'] at h2
    cases h2
  | some res =>
    have key := exportFrom_export t ht r hr (posIn ko) res
    simp only at key
    rw [← hord, ← he] at key
    obtain ⟨k1, _, ko', k3, k4⟩ := key h2
    rw [hk'] at k3
    have hko' : ko' = ko.map (posIn order) := (Option.some.inj k3).symm
    have hinT : Net.InRange t := by
      intro a c hc
      unfold chOf at hc
      cases hx : t[a]? with
      | none => rw [hx] at hc; cases hc
      | some x => rw [hx] at hc; exact lt_trans (ht a x hx c hc) (List.getElem?_eq_some_iff.1 hx).1
    obtain ⟨_, hkm, _⟩ := Net.kahn_spec t r hinT ko hk
    have hkosub : ∀ b ∈ ko, b ∈ order := by
      intro b hb
      rw [order_mem_iff_reach t r order ho b, ← mem_collect_iff_reach t r (inRangeTable_of_ChLt t ht) b]
      exact (hkm b).1 hb
    have htab : res.1 = out := by
      rw [k4]
      apply List.ext_getElem?
      intro p
      cases hx : out[p]? with
      | none =>
        rw [List.getElem?_eq_none_iff] at hx ⊢
        rw [exportTable_length]; simpa using hx
      | some x =>
        rw [exportTable_range out hcl _ p x hx]
        have hp : p < order.length := by rw [← hlen]; exact (List.getElem?_eq_some_iff.1 hx).1
        obtain ⟨y, hy, hoy, _⟩ := export_node t order (posIn ko) ho.closed ho.lt p hp
        rw [he, hoy] at hx
        cases hx
        congr 2
        rw [hko']
        have := idxOf_map_posIn order ko order[p] (List.getElem_mem hp) hkosub
        rw [posIn_getElem order ho.nodup p hp] at this
        exact this
    obtain ⟨r1, r2⟩ := res
    simp only at htab k1
    rw [htab, k1]

/-! ### the hypotheses on Kahn's order, discharged -/

theorem inRange_of_ChLt' (t : Net α) (ht : Deeprob.ChLt t) : Net.InRange t := by
  intro a c hc
  unfold chOf at hc
  cases hx : t[a]? with
  | none => rw [hx] at hc; cases hc
  | some x => rw [hx] at hc; exact lt_trans (ht a x hx c hc) (List.getElem?_eq_some_iff.1 hx).1

theorem kahnFacts_of_ChLt (t : Net α) (ht : Deeprob.ChLt t) (r : Nat) : KahnFacts t r := by
  intro ko hk
  obtain ⟨h1, h2, _⟩ := Net.kahn_spec t r (inRange_of_ChLt' t ht) ko hk
  exact ⟨h1, h2⟩

theorem kahnOrdOK_of_wellOrdered (net : Net α) (hw : WellOrdered net) (root : Nat) (ko : List Nat)
    (hk : kahn net root = some ko) : KahnOrdOK net root ko := by
  obtain ⟨h1, h2, _, h4, _⟩ := Net.kahn_spec net root (inRange_of_ChLt' net hw) ko hk
  exact ⟨h1, h2, h4⟩


end Deeprob
