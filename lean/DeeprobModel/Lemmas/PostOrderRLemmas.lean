import DeeprobModel.Model.PostOrderR
import Mathlib.Data.List.Induction
import Mathlib.Data.List.Nodup
import Mathlib.Data.List.Lattice
/-
The explicit-stack post-order walk of `build_xpc` (`Model/PostOrderR.lean`: children pushed REVERSED, payload at every node)
computes the recursive `foldR` — the children's results in CHILD order: `runR_eq_foldR`.  Needs pairwise distinct node ids
(`t.ids.Nodup`): the test `last_part_visited in part.sub_partitions` recognises "my children are done" by the identity of the
object finished last.  Same proof as `Lemmas/PostOrderLemmas.lean`, the siblings are consumed from the first to the last.
-/
namespace Deeprob.PostOrder

variable {π β : Type} (comb : PTree π → List β → β)

theorem runR_add (n m : Nat) (s : StR π β) : runR comb (n + m) s = runR comb m (runR comb n s) := by
  induction n generalizing s with
  | zero => simp [runR]
  | succ n ih => rw [Nat.succ_add]; simp only [runR]; exact ih _

theorem stepR_done (s : StR π β) (h : s.stack = []) : stepR comb s = s := by
  unfold stepR; simp [h]

theorem runR_done (n : Nat) (s : StR π β) (h : s.stack = []) : runR comb n s = s := by
  induction n with
  | zero => rfl
  | succ n ih => simp only [runR]; rw [stepR_done comb s h]; exact ih

theorem stepR_leaf (S : List (PTree π)) (i : Nat) (p : π) (l : Option Nat) (B : List β) :
    stepR comb ⟨S ++ [.node i p []], l, B⟩ = ⟨S, some i, B ++ [comb (.node i p []) []]⟩ := by
  simp [stepR, PTree.kids, PTree.id]

theorem stepR_push (S : List (PTree π)) (i : Nat) (p : π) (cs : List (PTree π)) (hne : cs ≠ []) (l : Option Nat) (B : List β)
    (h : lastInKidsR l cs = false) :
    stepR comb ⟨S ++ [.node i p cs], l, B⟩ = ⟨S ++ [.node i p cs] ++ cs.reverse, l, B⟩ := by
  have : cs.isEmpty = false := by cases cs <;> simp_all
  simp [stepR, PTree.kids, this, h]

theorem stepR_comb (S : List (PTree π)) (i : Nat) (p : π) (cs : List (PTree π)) (hne : cs ≠ []) (l : Option Nat) (B X : List β)
    (hX : X.length = cs.length) (h : lastInKidsR l cs = true) :
    stepR comb ⟨S ++ [.node i p cs], l, B ++ X⟩ = ⟨S, some i, B ++ [comb (.node i p cs) X]⟩ := by
  have : cs.isEmpty = false := by cases cs <;> simp_all
  simp [stepR, PTree.kids, PTree.id, this, h, ← hX]

/-- the id of the object finished last is not an id of the sub-tree -/
def FreshR (l : Option Nat) (t : PTree π) : Prop := ∀ x, l = some x → x ∉ t.ids

theorem id_mem_ids (t : PTree π) : t.id ∈ t.ids := by
  cases t with
  | node i p cs => simp [PTree.id, PTree.ids]

/-- what `last_part_visited` is after a list of siblings (pushed reversed) has been finished: the LAST sibling -/
def lastAfterR (l : Option Nat) (cs : List (PTree π)) : Option Nat :=
  match cs.getLast? with
  | none => l
  | some c => some c.id

theorem walk_siblingsR (cs : List (PTree π))
    (ih : ∀ c ∈ cs, c.ids.Nodup → ∀ (S : List (PTree π)) (l : Option Nat) (B : List β), FreshR l c →
      runR comb (stepsR c) ⟨S ++ [c], l, B⟩ = ⟨S, some c.id, B ++ [foldR comb c]⟩) :
    ((cs.map PTree.ids).flatten).Nodup → ∀ (S : List (PTree π)) (l : Option Nat) (B : List β), (∀ c ∈ cs, FreshR l c) →
      runR comb ((cs.map stepsR).sum) ⟨S ++ cs.reverse, l, B⟩ = ⟨S, lastAfterR l cs, B ++ cs.map (foldR comb)⟩ := by
  induction cs with
  | nil => intro _ S l B _; simp [runR, lastAfterR]
  | cons c rest ihl =>
    intro hnd S l B hf
    have hnd' : c.ids.Nodup ∧ (rest.map PTree.ids).flatten.Nodup ∧
        ∀ (a : ℕ), a ∈ c.ids → ∀ (b : ℕ) (x : PTree π), x ∈ rest → b ∈ x.ids → ¬a = b := by
      simpa [List.nodup_append] using hnd
    obtain ⟨hnc, hnr, hdis⟩ := hnd'
    have e1 : ((c :: rest).map stepsR).sum = stepsR c + (rest.map stepsR).sum := by simp
    rw [e1, runR_add, List.reverse_cons, ← List.append_assoc,
      ih c (by simp) hnc (S ++ rest.reverse) l B (hf c (by simp))]
    rw [ihl (fun c' hc' => ih c' (by simp [hc'])) hnr S (some c.id) (B ++ [foldR comb c])]
    · cases hr : rest.getLast? with
      | none =>
        have : rest = [] := by simpa using hr
        subst this
        simp [lastAfterR]
      | some z =>
        have hz : (c :: rest).getLast? = some z := by
          cases rest with
          | nil => simp at hr
          | cons r rs => simpa [List.getLast?_cons_cons] using hr
        simp [lastAfterR, hr, hz]
    · intro c' hc' x hx hmem
      cases hx
      exact hdis _ (id_mem_ids c) _ c' hc' hmem rfl

/-- **walk_subtreeR**: a sub-tree on top of the stack, entered with a `last_part_visited` that is not one of its nodes, is
consumed in `stepsR t` iterations, leaving the stack below it untouched, `last_part_visited = t` and `foldR t` appended to
the buffer. -/
theorem walk_subtreeR : (t : PTree π) → t.ids.Nodup → ∀ (S : List (PTree π)) (l : Option Nat) (B : List β), FreshR l t →
    runR comb (stepsR t) ⟨S ++ [t], l, B⟩ = ⟨S, some t.id, B ++ [foldR comb t]⟩
  | .node i p cs, hnd, S, l, B, hf => by
    by_cases hcs : cs = []
    · subst hcs
      simp [stepsR, runR, stepR_leaf, foldR, PTree.id]
    · have hemp : cs.isEmpty = false := by cases cs <;> simp_all
      have hnd' : i ∉ (cs.map PTree.ids).flatten ∧ (cs.map PTree.ids).flatten.Nodup := by
        simpa [PTree.ids] using hnd
      have hpush : lastInKidsR l cs = false := by
        cases l with
        | none => rfl
        | some x =>
          simp only [lastInKidsR]
          rw [Bool.eq_false_iff]
          intro hcon
          have hx : x ∈ cs.map PTree.id := List.contains_iff_mem.1 hcon
          obtain ⟨c, hc, rfl⟩ := List.mem_map.1 hx
          refine hf c.id rfl ?_
          simp only [PTree.ids, List.mem_cons]
          exact Or.inr (List.mem_flatten.2 ⟨_, List.mem_map.2 ⟨c, hc, rfl⟩, id_mem_ids c⟩)
      have hsteps : stepsR (.node i p cs) = 1 + ((cs.map stepsR).sum + 1) := by
        simp [stepsR, hemp]; omega
      rw [hsteps, runR_add, runR_add]
      simp only [runR]
      rw [stepR_push comb S i p cs hcs l B hpush]
      rw [walk_siblingsR comb cs (fun c hc hn S l B hf => walk_subtreeR c hn S l B hf) hnd'.2 (S ++ [PTree.node i p cs]) l B]
      · have hlast : lastInKidsR (lastAfterR l cs) cs = true := by
          cases hr : cs.getLast? with
          | none => exact absurd (by simpa using hr) hcs
          | some z =>
            have hz : z ∈ cs := List.mem_of_getLast? hr
            simp only [lastAfterR, hr, lastInKidsR]
            exact List.contains_iff_mem.2 (List.mem_map.2 ⟨z, hz, rfl⟩)
        rw [stepR_comb comb S i p cs hcs _ B _ (by simp) hlast]
        simp [foldR, PTree.id]
      · intro c hc x hx hmem
        refine hf x hx ?_
        simp only [PTree.ids, List.mem_cons]
        exact Or.inr (List.mem_flatten.2 ⟨_, List.mem_map.2 ⟨c, hc, rfl⟩, hmem⟩)

theorem sum_stepsR_le (cs : List (PTree π)) (h : ∀ c ∈ cs, stepsR c ≤ 2 * sizeR c) :
    (cs.map stepsR).sum ≤ 2 * (cs.map sizeR).sum := by
  induction cs with
  | nil => simp
  | cons c rest ih =>
    have h1 := h c (by simp)
    have h2 := ih (fun c' hc' => h c' (by simp [hc']))
    simp only [List.map_cons, List.sum_cons]
    omega

theorem stepsR_le : (t : PTree π) → stepsR t ≤ 2 * sizeR t
  | .node i p cs => by
    have h := sum_stepsR_le cs (fun c hc => stepsR_le c)
    simp only [stepsR, sizeR]
    split <;> omega

/-- **runR_eq_foldR**: on a tree of pairwise distinct objects the loop of `build_xpc`, started from `([root], None, [])`, ends
with an empty stack and exactly one buffer entry, the recursive `foldR` of the root (children's results in child order). -/
theorem runR_eq_foldR (t : PTree π) (hnd : t.ids.Nodup) :
    walkR comb t = ⟨[], some t.id, [foldR comb t]⟩ := by
  unfold walkR
  obtain ⟨d, hd⟩ := Nat.exists_eq_add_of_le (stepsR_le t)
  rw [hd, runR_add]
  have := walk_subtreeR comb t hnd [] none [] (fun x hx => by cases hx)
  simp only [List.nil_append] at this
  rw [this]
  exact runR_done comb d _ rfl

/-- distinct ids are needed: two nodes carry the id 1 (the root's first child and a grandchild of its second child).  The first
child `1` is finished first; when node `3` is then seen for the first time, `last_part_visited` (id 1) "is" its only child, so `3`
is combined at once with the buffer entry of the OTHER `1` and its own child is never visited. -/
def badTreeR : PTree Unit := .node 0 () [.node 1 () [], .node 2 () [.node 3 () [.node 1 () []]]]

/-- a `combine` that records the shape: own id and what it was handed -/
def showCombR (t : PTree Unit) (xs : List (List Nat)) : List Nat := t.id :: xs.flatten

theorem distinct_ids_neededR :
    (walkR showCombR badTreeR).buf = [[0, 2, 3, 1]] ∧ foldR showCombR badTreeR = [0, 1, 2, 3, 1] := by
  constructor <;>
  simp [walkR, runR, stepR, sizeR, badTreeR, foldR, showCombR, PTree.kids, PTree.id, lastInKidsR]

/-- non-vacuity of `runR_eq_foldR`: a three-level tree with distinct ids -/
example : walkR showCombR (.node 0 () [.node 1 () [], .node 2 () [.node 3 () []]]) = ⟨[], some 0, [[0, 1, 2, 3]]⟩ := by
  have h := runR_eq_foldR showCombR (.node 0 () [.node 1 () [], .node 2 () [.node 3 () []]]) (by simp [PTree.ids])
  rw [h]
  simp [foldR, showCombR, PTree.id]

end Deeprob.PostOrder
