import DeeprobModel.Model.TopDown
import Mathlib.Order.Defs.LinearOrder
import Mathlib.Order.Basic
/-
`argmax` = first index of the maximum (`np.argmax`).
-/
namespace Deeprob
variable {α : Type} [LinearOrder α]

/-- invariant of the scan: `pre` = elements already seen -/
theorem argmaxAux_spec (xs : List α) : ∀ (pre : List α) (i bi : Nat) (bv : α),
    pre.length = i → pre[bi]? = some bv → (∀ x ∈ pre, x ≤ bv) →
    (∀ j, j < bi → ∀ x, pre[j]? = some x → x < bv) →
    ∃ m, (pre ++ xs)[argmaxAux xs i bi bv]? = some m ∧ (∀ x ∈ pre ++ xs, x ≤ m) ∧
      (∀ j, j < argmaxAux xs i bi bv → ∀ x, (pre ++ xs)[j]? = some x → x < m) := by
  induction xs with
  | nil =>
    intro pre i bi bv _ hb hle hfirst
    exact ⟨bv, by simpa [argmaxAux] using hb, by simpa using hle, by simpa [argmaxAux] using hfirst⟩
  | cons x xs ih =>
    intro pre i bi bv hlen hb hle hfirst
    have hbi : bi < pre.length := by
      rcases Nat.lt_or_ge bi pre.length with h | h
      · exact h
      · rw [List.getElem?_eq_none h] at hb; cases hb
    have happ : pre ++ x :: xs = (pre ++ [x]) ++ xs := by simp
    rw [happ]
    unfold argmaxAux
    split
    · rename_i hlt
      apply ih (pre ++ [x]) (i+1) i x
      · simp [hlen]
      · rw [← hlen]; simp
      · intro y hy
        rcases List.mem_append.1 hy with h | h
        · exact le_of_lt (lt_of_le_of_lt (hle y h) hlt)
        · simp at h; rw [h]
      · intro j hj y hy
        rw [List.getElem?_append_left (by omega)] at hy
        exact lt_of_le_of_lt (hle y (List.mem_of_getElem? hy)) hlt
    · rename_i hnlt
      apply ih (pre ++ [x]) (i+1) bi bv
      · simp [hlen]
      · rw [List.getElem?_append_left hbi]; exact hb
      · intro y hy
        rcases List.mem_append.1 hy with h | h
        · exact hle y h
        · simp at h; rw [h]; exact not_lt.1 hnlt
      · intro j hj y hy
        rw [List.getElem?_append_left (by omega)] at hy
        exact hfirst j hj y hy

/-- `argmax l` is the position of a maximal element, and the first such position -/
theorem argmax_spec (l : List α) (h : l ≠ []) :
    ∃ m, l[argmax l]? = some m ∧ (∀ x ∈ l, x ≤ m) ∧ (∀ j, j < argmax l → ∀ x, l[j]? = some x → x < m) := by
  cases l with
  | nil => exact absurd rfl h
  | cons x xs =>
    have := argmaxAux_spec xs [x] 1 0 x rfl rfl (by simp) (by intro j hj; omega)
    simpa [argmax] using this

theorem argmax_lt_length (l : List α) (h : l ≠ []) : argmax l < l.length := by
  obtain ⟨m, hm, _⟩ := argmax_spec l h
  rcases Nat.lt_or_ge (argmax l) l.length with h1 | h1
  · exact h1
  · rw [List.getElem?_eq_none h1] at hm; cases hm

end Deeprob
