import DeeprobModel.Lemmas.MpeNetRefines
import DeeprobModel.Lemmas.TopDownExample
set_option linter.unusedSimpArgs false
set_option linter.unusedVariables false
set_option linter.unusedSectionVars false
/-
Table-level conditions that make the unfolded tree satisfy every hypothesis of the top-down theorems.
-/
namespace Deeprob
open TD
open TCirc
variable {α : Type} [CommSemiring α] [LinearOrder α] [IsStrictOrderedRing α]

/-- every stored leaf is a normalised non-negative table leaf over its own single variable; leaves
flagged `isBern` are binary -/
def CatLeaves (dom : Nat → Nat) (net : Net α) (isBern : Nat → Bool) : Prop :=
  ∀ (i : Nat) (x : NNode α), net[i]? = some x → x.kind = .leaf →
    ∃ v tbl, x.leaf = .cat v tbl ∧ x.scope = [v] ∧ tbl.length = dom v ∧ tsum tbl = 1 ∧ (∀ t ∈ tbl, 0 ≤ t) ∧
      (isBern i = true → dom v = 2)

/-- the weights of every stored sum node are non-negative -/
def NonNegW (net : Net α) : Prop :=
  ∀ (i : Nat) (x : NNode α), net[i]? = some x → x.kind = .sum → ∀ w ∈ x.ws, 0 ≤ w

theorem tdok_toTTree (dom : Nat → Nat) (net : Net α) (dens : List α) (isBern : Nat → Bool) (hw : WellOrdered net)
    (hok : ∀ i (x : NNode α), net[i]? = some x → NodeOK dom net dens i x)
    (hcat : CatLeaves dom net isBern) (hnw : NonNegW net) :
    ∀ i, i < net.length → TDOK dom (toTTree net dens isBern (i+1) i) := by
  intro i
  induction i using Nat.strong_induction_on with
  | _ i ih =>
    intro hi
    have hn : net[i]? = some net[i] := by simp [hi]
    have hc := hw i net[i] hn
    have hx := hok i net[i] hn
    have hsub : ∀ t ∈ (net[i]).ch.map (toTTree net dens isBern i), TDOK dom t := by
      intro t ht
      simp only [List.mem_map] at ht
      obtain ⟨c, hcm, rfl⟩ := ht
      have hck := hc c hcm
      rw [toTTree_fuel net dens isBern hw c i hck]
      exact ih c hck (by omega)
    have hscope : ∀ c ∈ (net[i]).ch, (toTTree net dens isBern i c).scope = scopeOf net c := by
      intro c hcm
      have hck := hc c hcm
      rw [toTTree_fuel net dens isBern hw c i hck]
      exact TT_scope net dens isBern c (by omega)
    have hmaps : ((net[i]).ch.map (toTTree net dens isBern i)).map scope = (net[i]).ch.map (scopeOf net) := by
      rw [List.map_map]; apply List.map_congr_left; intro c hcm; exact hscope c hcm
    unfold NodeOK at hx
    simp only [toTTree, hn]
    cases hk : (net[i]).kind with
    | sum =>
      rw [hk] at hx
      obtain ⟨hne, hlen, hsc⟩ := hx
      simp only
      apply TDOK.sum dom _ _ _ (by simpa using hne) (by simpa using hlen) (hnw i _ hn hk) _ hsub
      intro t ht
      simp only [List.mem_map] at ht
      obtain ⟨c, hcm, rfl⟩ := ht
      rw [hscope c hcm]; exact hsc c hcm
    | prod =>
      rw [hk] at hx
      obtain ⟨hnd, hsc⟩ := hx
      simp only
      exact TDOK.prod dom _ _ (by rw [hmaps]; exact hnd) (by rw [hmaps]; exact hsc) hsub
    | leaf =>
      obtain ⟨v, tbl, hleaf, hscope, hl, hs, h0, hb⟩ := hcat i _ hn hk
      simp only [hleaf, hscope, LeafP.fn, LeafP.mode, LeafP.cond]
      cases hbi : isBern i with
      | true =>
        have hd := hb hbi
        simp only [if_true]
        exact bernT_ok dom v tbl (hl.trans hd) hd hs h0
      | false =>
        simp only [Bool.false_eq_true, if_false]
        exact catT_ok dom v tbl hl hs h0

end Deeprob
