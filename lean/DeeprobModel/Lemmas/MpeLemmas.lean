import DeeprobModel.Lemmas.TopDownLemmas
import Mathlib.Algebra.Order.Ring.Defs
import Mathlib.Algebra.Order.GroupWithZero.Basic
import Mathlib.Tactic.Linarith
set_option linter.unusedSimpArgs false
set_option linter.unusedVariables false
set_option linter.unusedSectionVars false
/-
Order facts for the MPE descent: the arg-max branch of a positive sum node is positive.
-/
namespace Deeprob

namespace TD
section order
variable {α : Type} [CommSemiring α] [LinearOrder α] [IsStrictOrderedRing α]

theorem wsum_eq_tsum_zipWith (ws xs : List α) : wsum ws xs = tsum (List.zipWith (· * ·) ws xs) := by
  induction ws generalizing xs with
  | nil => simp [wsum, tsum]
  | cons w ws ih =>
    cases xs with
    | nil => simp [wsum, tsum]
    | cons x xs => simp [wsum, tsum, ih]

theorem tsum_pos_exists (l : List α) (h : 0 < tsum l) : ∃ x ∈ l, 0 < x := by
  induction l with
  | nil => simp [tsum] at h
  | cons x xs ih =>
    simp only [tsum] at h
    by_cases hx : 0 < x
    · exact ⟨x, List.mem_cons_self, hx⟩
    · have : 0 < tsum xs := by
        have hx' : x ≤ 0 := not_lt.1 hx
        by_contra hc
        have hc' : tsum xs ≤ 0 := not_lt.1 hc
        have : x + tsum xs ≤ 0 := add_nonpos hx' hc'
        exact absurd h (not_lt.2 this)
      obtain ⟨y, hy, hy0⟩ := ih this
      exact ⟨y, List.mem_cons_of_mem _ hy, hy0⟩

theorem wsum_nonneg (ws xs : List α) (hw : ∀ w ∈ ws, 0 ≤ w) (hx : ∀ x ∈ xs, 0 ≤ x) : 0 ≤ wsum ws xs := by
  induction ws generalizing xs with
  | nil => simp [wsum]
  | cons w ws ih =>
    cases xs with
    | nil => simp [wsum]
    | cons x xs =>
      simp only [wsum]
      exact add_nonneg (mul_nonneg (hw w List.mem_cons_self) (hx x List.mem_cons_self))
        (ih xs (fun a ha => hw a (List.mem_cons_of_mem _ ha)) (fun a ha => hx a (List.mem_cons_of_mem _ ha)))

theorem lprod_nonneg (xs : List α) (hx : ∀ x ∈ xs, 0 ≤ x) : 0 ≤ lprod xs := by
  induction xs with
  | nil => simp [lprod]
  | cons x xs ih =>
    simp only [lprod]
    exact mul_nonneg (hx x List.mem_cons_self) (ih (fun a ha => hx a (List.mem_cons_of_mem _ ha)))

theorem lprod_pos (xs : List α) (hx : ∀ x ∈ xs, 0 < x) : 0 < lprod xs := by
  induction xs with
  | nil => simp [lprod]
  | cons x xs ih =>
    simp only [lprod]
    exact mul_pos (hx x List.mem_cons_self) (ih (fun a ha => hx a (List.mem_cons_of_mem _ ha)))

theorem lprod_pos_imp (xs : List α) (hx : ∀ x ∈ xs, 0 ≤ x) (h : 0 < lprod xs) : ∀ x ∈ xs, 0 < x := by
  induction xs with
  | nil => simp
  | cons x xs ih =>
    simp only [lprod] at h
    have hx0 := hx x List.mem_cons_self
    have hxs : ∀ a ∈ xs, 0 ≤ a := fun a ha => hx a (List.mem_cons_of_mem _ ha)
    have h1 : 0 < x := pos_of_mul_pos_left h (lprod_nonneg xs hxs)
    have h2 : 0 < lprod xs := pos_of_mul_pos_right h hx0
    intro y hy
    rcases List.mem_cons.1 hy with rfl | hy
    · exact h1
    · exact ih hxs h2 y hy

theorem wsum_pos_of_term (ws xs : List α) (hw : ∀ w ∈ ws, 0 ≤ w) (hx : ∀ x ∈ xs, 0 ≤ x)
    (k : Nat) (w x : α) (hwk : ws[k]? = some w) (hxk : xs[k]? = some x) (h : 0 < w * x) : 0 < wsum ws xs := by
  induction ws generalizing xs k with
  | nil => simp at hwk
  | cons w0 ws ih =>
    cases xs with
    | nil => simp at hxk
    | cons x0 xs =>
      simp only [wsum]
      have hrest : 0 ≤ wsum ws xs :=
        wsum_nonneg ws xs (fun a ha => hw a (List.mem_cons_of_mem _ ha)) (fun a ha => hx a (List.mem_cons_of_mem _ ha))
      have hhead : 0 ≤ w0 * x0 := mul_nonneg (hw w0 List.mem_cons_self) (hx x0 List.mem_cons_self)
      cases k with
      | zero =>
        simp at hwk hxk; subst hwk; subst hxk
        exact add_pos_of_pos_of_nonneg h hrest
      | succ k =>
        simp at hwk hxk
        exact add_pos_of_nonneg_of_pos hhead
          (ih xs (fun a ha => hw a (List.mem_cons_of_mem _ ha)) (fun a ha => hx a (List.mem_cons_of_mem _ ha)) k hwk hxk)

/-- the first arg-max of `wᵢ·xᵢ` of a positive weighted sum is a positive term -/
theorem argmax_wsum_pos (ws xs : List α) (h : 0 < wsum ws xs) :
    ∃ w x, ws[argmax (List.zipWith (· * ·) ws xs)]? = some w ∧ xs[argmax (List.zipWith (· * ·) ws xs)]? = some x ∧ 0 < w * x := by
  rw [wsum_eq_tsum_zipWith] at h
  obtain ⟨y, hy, hy0⟩ := tsum_pos_exists _ h
  have hne : List.zipWith (· * ·) ws xs ≠ [] := List.ne_nil_of_mem hy
  obtain ⟨m, hm, hle, _⟩ := argmax_spec _ hne
  have hm0 : 0 < m := lt_of_lt_of_le hy0 (hle y hy)
  rw [List.getElem?_zipWith] at hm
  cases hw : ws[argmax (List.zipWith (· * ·) ws xs)]? with
  | none => simp [hw] at hm
  | some w =>
    cases hx : xs[argmax (List.zipWith (· * ·) ws xs)]? with
    | none => simp [hw, hx] at hm
    | some x =>
      simp [hw, hx] at hm
      exact ⟨w, x, rfl, rfl, hm ▸ hm0⟩

end order
end TD
open TD

namespace TCirc
variable {α : Type} [CommSemiring α] [LinearOrder α] [IsStrictOrderedRing α]

theorem eval_nonneg : ∀ (c : TCirc α), NonNeg c → ∀ e : Ev, 0 ≤ eval e c := by
  intro c
  induction c using TCirc.ind with
  | hl s f m cd => intro h e; unfold NonNeg at h; rw [eval_leaf]; exact h e
  | hs s ws cs ih =>
    intro h e; unfold NonNeg at h; rw [eval_sum]
    apply wsum_nonneg _ _ h.1
    intro x hx; simp only [List.mem_map] at hx
    obtain ⟨c, hc, rfl⟩ := hx
    exact ih c hc (h.2 c hc) e
  | hp s cs ih =>
    intro h e; unfold NonNeg at h; rw [eval_prod]
    apply lprod_nonneg
    intro x hx; simp only [List.mem_map] at hx
    obtain ⟨c, hc, rfl⟩ := hx
    exact ih c hc (h c hc) e

/-- the arg-max branch function answers with a child position on valid circuits -/
theorem mpeBr_ok (dom : Nat → Nat) (e : Ev) : ∀ (c : TCirc α), Circ.Valid dom c.toCirc → BrOK (mpeBr e) c := by
  intro c
  induction c using TCirc.ind with
  | hl s f m cd => intro _; unfold BrOK; trivial
  | hs s ws cs ih =>
    intro hval
    obtain ⟨hne, hlen, _, hvc⟩ := valid_sum.1 hval
    unfold BrOK
    refine ⟨?_, fun c hc => ih c hc (hvc c hc)⟩
    intro p
    have hl : (List.zipWith (· * ·) ws (cs.map (eval e))).length = cs.length := by simp [hlen]
    have hne' : List.zipWith (· * ·) ws (cs.map (eval e)) ≠ [] := by
      intro h; rw [h] at hl; simp at hl; exact hne (List.eq_nil_of_length_eq_zero hl.symm)
    have := argmax_lt_length _ hne'
    rw [hl] at this
    exact this
  | hp s cs ih =>
    intro hval
    obtain ⟨_, _, hvc⟩ := valid_prod.1 hval
    unfold BrOK
    exact fun c hc => ih c hc (hvc c hc)

theorem eval_congr' (dom : Nat → Nat) (c : TCirc α) (hv : Circ.Valid dom c.toCirc) (a b : Ev)
    (h : ∀ v ∈ c.scope, a v = b v) : eval a c = eval b c :=
  Circ.eval_congr dom c.toCirc hv a b (by simpa using h)

theorem passAll_outside' (br : List Nat → List α → List (TCirc α) → Nat) (fill : List Nat → (Ev → Ev) → Ev → Ev)
    (dom : Nat → Nat) (v : Nat) (p : List Nat) (cs : List (TCirc α))
    (hval : ∀ c ∈ cs, Circ.Valid dom c.toCirc) (hv : v ∉ (cs.map scope).flatten) (j : Nat) (x : Ev) :
    passAll br fill p j cs x v = x v :=
  passAll_outside br fill v p cs (fun c hc q y h => pass_outside br fill dom v c (hval c hc) q y h) hv j x

theorem passAll_mpe_pos (dom : Nat → Nat) (e : Ev) (p : List Nat) (cs : List (TCirc α))
    (hnd : (cs.map scope).flatten.Nodup) (hval : ∀ c ∈ cs, Circ.Valid dom c.toCirc)
    (IH : ∀ c ∈ cs, ∀ (q : List Nat) (x : Ev), (∀ v ∈ c.scope, x v = e v) → 0 < eval e c →
      0 < eval (pass (mpeBr e) mpeFill q c x) c)
    (hpos : ∀ c ∈ cs, 0 < eval e c) :
    ∀ (j : Nat) (x : Ev), (∀ v ∈ (cs.map scope).flatten, x v = e v) →
      ∀ c ∈ cs, 0 < eval (passAll (mpeBr e) mpeFill p j cs x) c := by
  induction cs with
  | nil => intro j x _ c hc; simp at hc
  | cons c cs ih =>
    intro j x hx d hd
    simp only [List.map_cons, List.flatten_cons] at hnd hx
    rw [List.nodup_append] at hnd
    obtain ⟨_, hnd2, hdisj⟩ := hnd
    have hvalc := hval c List.mem_cons_self
    have hvalcs : ∀ d ∈ cs, Circ.Valid dom d.toCirc := fun d hd => hval d (List.mem_cons_of_mem _ hd)
    simp only [passAll]
    have hhead : 0 < eval (pass (mpeBr e) mpeFill (j :: p) c x) c :=
      IH c List.mem_cons_self (j :: p) x (fun v hv => hx v (List.mem_append_left _ hv)) (hpos c List.mem_cons_self)
    have hx1 : ∀ v ∈ (cs.map scope).flatten, pass (mpeBr e) mpeFill (j :: p) c x v = e v := by
      intro v hv
      rw [pass_outside _ _ dom v c hvalc _ _ (fun hc => hdisj v hc v hv rfl)]
      exact hx v (List.mem_append_right _ hv)
    rcases List.mem_cons.1 hd with rfl | hd'
    · rw [eval_congr' dom d hvalc _ (pass (mpeBr e) mpeFill (j :: p) d x)]
      · exact hhead
      · intro v hv
        exact passAll_outside' _ _ dom v p cs hvalcs (fun hc => hdisj v hv v hc rfl) _ _
    · exact ih hnd2 hvalcs (fun d hd => IH d (List.mem_cons_of_mem _ hd))
        (fun d hd => hpos d (List.mem_cons_of_mem _ hd)) (j+1) _ hx1 d hd'

/-- core of `mpe_positive`, for any starting row that agrees with the evidence on the scope -/
theorem pass_mpe_pos (dom : Nat → Nat) (e : Ev) : ∀ (c : TCirc α), Circ.Valid dom c.toCirc → NonNeg c → LeafPos c →
    ∀ (p : List Nat) (x : Ev), (∀ v ∈ c.scope, x v = e v) → 0 < eval e c →
      0 < eval (pass (mpeBr e) mpeFill p c x) c := by
  intro c
  induction c using TCirc.ind with
  | hl s f m cd =>
    intro hval _ hlp p x hx hpos
    have hok := valid_leaf.1 hval
    unfold LeafPos at hlp
    simp only [scope] at hx
    rw [eval_leaf] at hpos ⊢
    simp only [pass, mpeFill]
    rw [hok.local_ (writeScope s (m x) x) (m x) (fun v hv => writeScope_mem _ _ _ hv)]
    apply hlp
    rw [hok.local_ x e hx]; exact hpos
  | hs s ws cs ih =>
    intro hval hnn hlp p x hx hpos
    obtain ⟨_, hlen, hsc, hvc⟩ := valid_sum.1 hval
    unfold NonNeg at hnn; unfold LeafPos at hlp
    simp only [scope] at hx
    rw [eval_sum] at hpos
    obtain ⟨w, l, hw, hl, hwl⟩ := argmax_wsum_pos ws (cs.map (eval e)) hpos
    simp only [pass, passAt_eq, mpeBr]
    generalize hk : argmax (List.zipWith (· * ·) ws (cs.map (eval e))) = k at hw hl
    rw [List.getElem?_map] at hl
    cases hck : cs[k]? with
    | none => simp [hck] at hl
    | some c =>
      simp [hck] at hl
      subst hl
      have hc : c ∈ cs := List.mem_of_getElem? hck
      have hw0 : 0 ≤ w := hnn.1 w (List.mem_of_getElem? hw)
      have hl0 : 0 < eval e c := pos_of_mul_pos_right hwl hw0
      have hwpos : 0 < w := pos_of_mul_pos_left hwl (le_of_lt hl0)
      have hy := ih c hc (hvc c hc) (hnn.2 c hc) (hlp c hc) (k :: p) x
        (fun v hv => hx v ((hsc c hc v).1 hv)) hl0
      simp only
      rw [eval_sum]
      apply wsum_pos_of_term ws _ hnn.1 _ k w _ hw (by rw [List.getElem?_map, hck]; rfl) (mul_pos hwpos hy)
      intro z hz; simp only [List.mem_map] at hz
      obtain ⟨d, hd, rfl⟩ := hz
      exact eval_nonneg d (hnn.2 d hd) _
  | hp s cs ih =>
    intro hval hnn hlp p x hx hpos
    obtain ⟨hnd, hsc, hvc⟩ := valid_prod.1 hval
    unfold NonNeg at hnn; unfold LeafPos at hlp
    simp only [scope] at hx
    rw [eval_prod] at hpos ⊢
    have hpos' : ∀ c ∈ cs, 0 < eval e c := by
      intro c hc
      apply lprod_pos_imp _ _ hpos (eval e c) (List.mem_map_of_mem hc)
      intro z hz; simp only [List.mem_map] at hz
      obtain ⟨d, hd, rfl⟩ := hz
      exact eval_nonneg d (hnn d hd) _
    simp only [pass]
    apply lprod_pos
    intro z hz; simp only [List.mem_map] at hz
    obtain ⟨d, hd, rfl⟩ := hz
    exact passAll_mpe_pos dom e p cs hnd hvc
      (fun c hc q y hy h0 => ih c hc (hvc c hc) (hnn c hc) (hlp c hc) q y hy h0) hpos' 0 x
      (fun v hv => hx v ((hsc v).1 hv)) d hd

end TCirc
end Deeprob
