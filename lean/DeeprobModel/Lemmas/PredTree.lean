import DeeprobModel.Lemmas.SpanningTree
import DeeprobModel.Lemmas.CltNorm
import Mathlib.Algebra.BigOperators.Fin
/-
C11 part 3, bridge: predecessor vectors (what the code returns, what the driver checks) ↔ edge finsets
(what `SpanTree.cycleProp_max` talks about).
-/
open Relation
set_option linter.unusedSimpArgs false
set_option linter.unusedVariables false

namespace Deeprob
namespace CltFit
open SpanTree

/-- parent of `i` as an element of `Fin n` (`i` itself when there is none) -/
def parFin (n : Nat) (pred : List Int) (i : Fin n) : Fin n :=
  match parent pred i with
  | some p => if h : p < n then ⟨p, h⟩ else i
  | none => i

/-- the undirected edge set `{ {i, pred[i]} : i ≠ root }` of a predecessor vector -/
def predEdges (n : Nat) (pred : List Int) (root : Nat) : Finset (Sym2 (Fin n)) :=
  (Finset.univ.filter (fun i : Fin n => i.val ≠ root)).image (fun i => s(i, parFin n pred i))

/-- a symmetric weight function as a function on undirected edges -/
def symW {α : Type} (w : Nat → Nat → α) (hs : ∀ a b, w a b = w b a) (n : Nat) : Sym2 (Fin n) → α :=
  Sym2.lift ⟨fun a b => w a b, fun a b => hs a b⟩

theorem parent_lt {pred : List Int} {i p : Nat} (h : parent pred i = some p) : i < pred.length := by
  by_contra hi
  unfold parent at h
  have : pred.getD i (-1) = -1 := by
    simp [List.getD_eq_getElem?_getD, List.getElem?_eq_none (Nat.le_of_not_lt hi)]
  simp only [this] at h
  simp at h

theorem parent_root_none {pred : List Int} {root : Nat} (h : isRootedSpanningTree pred root = true) :
    parent pred root = none := by
  obtain ⟨hr, hm, _, _⟩ := (isRST_iff pred root).mp h
  unfold parent
  rw [getD_irrel pred hr (-1) 0, hm]
  simp

theorem parFin_eq {n : Nat} {pred : List Int} (hn : pred.length = n) {i : Fin n} {p : Nat}
    (h : parent pred i = some p) : ∃ hp : p < n, parFin n pred i = ⟨p, hp⟩ := by
  have hp : p < n := hn ▸ (parent_some h).2
  refine ⟨hp, ?_⟩
  unfold parFin
  rw [h]; simp [hp]

theorem mem_predEdges_of_parent {n : Nat} {pred : List Int} {root : Nat}
    (hT : isRootedSpanningTree pred root = true) (hn : pred.length = n)
    {a b : Nat} (ha : a < n) (hb : b < n) (h : parent pred a = some b) :
    s((⟨a, ha⟩ : Fin n), ⟨b, hb⟩) ∈ predEdges n pred root := by
  unfold predEdges
  refine Finset.mem_image.mpr ⟨⟨a, ha⟩, ?_, ?_⟩
  · simp only [Finset.mem_filter, Finset.mem_univ, true_and]
    rintro rfl
    rw [parent_root_none hT] at h; cases h
  · obtain ⟨_, hp⟩ := parFin_eq hn (i := ⟨a, ha⟩) h
    rw [hp]

/-- lifting a walk on `Nat` vertices to `Fin n` -/
theorem lift_rtg {n : Nat} {R : Nat → Nat → Prop} {Q : Fin n → Fin n → Prop}
    (hstep : ∀ a b (ha : a < n), R a b → ∃ hb : b < n, Q ⟨a, ha⟩ ⟨b, hb⟩) {a b : Nat}
    (h : ReflTransGen R a b) : ∀ ha : a < n, ∃ hb : b < n, ReflTransGen Q ⟨a, ha⟩ ⟨b, hb⟩ := by
  induction h with
  | refl => exact fun ha => ⟨ha, .refl⟩
  | @tail b c _ hbc ih =>
    intro ha
    obtain ⟨hb, hab⟩ := ih ha
    obtain ⟨hc, hq⟩ := hstep b c hb hbc
    exact ⟨hc, hab.tail hq⟩

theorem reaches_sound (pred : List Int) (root : Nat) : ∀ (f i : Nat), reaches pred root f i = true →
    ReflTransGen (fun a b : Nat => parent pred a = some b) i root
  | 0, i, h => by
      simp only [reaches, beq_iff_eq] at h
      subst h; exact .refl
  | f+1, i, h => by
      simp only [reaches, Bool.or_eq_true, beq_iff_eq] at h
      rcases h with h | h
      · subst h; exact .refl
      · cases hp : parent pred i with
        | none => rw [hp] at h; cases h
        | some p =>
          rw [hp] at h
          exact ReflTransGen.head hp (reaches_sound pred root f p h)

/-- **Prop meaning of `isRootedSpanningTree`**: the edge set of the predecessor vector is a spanning tree -/
theorem predEdges_isSpanTree {n : Nat} {pred : List Int} {root : Nat}
    (hT : isRootedSpanningTree pred root = true) (hn : pred.length = n) :
    IsSpanTree (predEdges n pred root) := by
  obtain ⟨hr, hm, hp, hreach⟩ := (isRST_iff pred root).mp hT
  have hr' : root < n := hn ▸ hr
  have hto : ∀ a : Fin n, Reach (predEdges n pred root) a ⟨root, hr'⟩ := by
    intro a
    have h1 := reaches_sound pred root _ a.val (hreach a.val (hn ▸ a.isLt))
    obtain ⟨_, h2⟩ := lift_rtg (n := n) (Q := fun x y => s(x, y) ∈ predEdges n pred root)
      (fun x y hx hxy => ⟨hn ▸ (parent_some hxy).2,
        mem_predEdges_of_parent hT hn hx (hn ▸ (parent_some hxy).2) hxy⟩) h1 a.isLt
    exact h2
  refine ⟨fun a b => ReflTransGen.trans (hto a) (hto b).symm, ?_⟩
  unfold predEdges
  have h1 : (Finset.univ.filter (fun i : Fin n => i.val ≠ root)).card + 1 ≤ n := by
    have hsub : Finset.univ.filter (fun i : Fin n => i.val ≠ root) ⊆
        (Finset.univ : Finset (Fin n)).erase ⟨root, hr'⟩ := by
      intro i hi
      simp only [Finset.mem_filter, Finset.mem_univ, true_and] at hi
      exact Finset.mem_erase.mpr ⟨fun h => hi (by rw [h]), Finset.mem_univ _⟩
    have h2 := Finset.card_le_card hsub
    rw [Finset.card_erase_of_mem (Finset.mem_univ _), Finset.card_univ, Fintype.card_fin] at h2
    omega
  have := Finset.card_image_le (s := Finset.univ.filter (fun i : Fin n => i.val ≠ root))
    (f := fun i => s(i, parFin n pred i))
  rw [Fintype.card_fin]
  omega

theorem treePath_sound (pred : List Int) : ∀ (f u v : Nat) (cs : List Nat),
    treePath pred f u v = some cs →
    ReflTransGen (fun a b : Nat => ∃ c ∈ cs, (a = c ∧ parent pred c = some b) ∨
      (b = c ∧ parent pred c = some a)) u v
  | 0, u, v, cs, h => by
      simp only [treePath] at h
      split at h
      · rename_i huv; subst huv; exact .refl
      · cases h
  | f+1, u, v, cs, h => by
      simp only [treePath] at h
      split at h
      · rename_i huv; subst huv; exact .refl
      · split at h
        · cases hp : parent pred u with
          | none => rw [hp] at h; cases h
          | some p =>
            rw [hp] at h
            simp only [Option.map_eq_some_iff] at h
            obtain ⟨cs', hcs', rfl⟩ := h
            have ih := treePath_sound pred f p v cs' hcs'
            refine ReflTransGen.head ⟨u, List.mem_cons_self, Or.inl ⟨rfl, hp⟩⟩ ?_
            exact rtg_mono (fun a b ⟨c, hc, hh⟩ => ⟨c, List.mem_cons_of_mem _ hc, hh⟩) ih
        · cases hp : parent pred v with
          | none => rw [hp] at h; cases h
          | some p =>
            rw [hp] at h
            simp only [Option.map_eq_some_iff] at h
            obtain ⟨cs', hcs', rfl⟩ := h
            have ih := treePath_sound pred f u p cs' hcs'
            refine ReflTransGen.tail ?_ ⟨v, List.mem_cons_self, Or.inr ⟨rfl, hp⟩⟩
            exact rtg_mono (fun a b ⟨c, hc, hh⟩ => ⟨c, List.mem_cons_of_mem _ hc, hh⟩) ih


theorem paIdx_of_parent {pred : List Int} {i p : Nat} (h : parent pred i = some p) : paIdx pred i = p := by
  have h1 := (parent_some h).1
  unfold paIdx
  simp only [h1]
  have : ¬ ((p : Int) < 0) := by omega
  simp [this]

theorem reaches_self_loop {pred : List Int} {root i : Nat} (h : parent pred i = some i) (hi : i ≠ root) :
    ∀ f, reaches pred root f i = false
  | 0 => by simp [reaches, hi]
  | f+1 => by simp [reaches, hi, h, reaches_self_loop h hi f]

/-- in a rooted spanning tree every non-root vertex has a parent different from itself -/
theorem parent_of_isRST {pred : List Int} {root : Nat} (hT : isRootedSpanningTree pred root = true)
    {i : Nat} (hi : i < pred.length) (hir : i ≠ root) :
    ∃ p, parent pred i = some p ∧ p ≠ i ∧ p < pred.length ∧ paIdx pred i = p := by
  obtain ⟨hr, hm, hp, hreach⟩ := (isRST_iff pred root).mp hT
  rcases hp i hi with h | h
  · exact absurd h hir
  · obtain ⟨p, hp'⟩ := Option.isSome_iff_exists.mp h
    refine ⟨p, hp', ?_, (parent_some hp').2, paIdx_of_parent hp'⟩
    rintro rfl
    have := hreach p hi
    rw [reaches_self_loop hp' hir] at this
    cases this

theorem mem_cyclePairs {pred : List Int} {u v : Nat} (hv : v < pred.length) (huv : u < v)
    (hnt : ¬ (parent pred u = some v ∨ parent pred v = some u)) :
    (u, v, treePath pred (2 * pred.length) u v) ∈ cyclePairs pred := by
  unfold cyclePairs
  refine List.mem_flatMap.mpr ⟨v, List.mem_range.mpr hv, ?_⟩
  refine List.mem_filterMap.mpr ⟨u, List.mem_range.mpr huv, ?_⟩
  rw [if_neg hnt]

theorem symW_mk {α : Type} (w : Nat → Nat → α) (hs : ∀ a b, w a b = w b a) (n : Nat) (a b : Fin n) :
    symW w hs n s(a, b) = w a b := by
  simp [symW]

section order
variable {α : Type} [AddCommMonoid α] [LinearOrder α] [IsOrderedAddMonoid α]

omit [IsOrderedAddMonoid α] in
theorem cycleOK_heavy {w : Nat → Nat → α} {pred : List Int} (hc : cycleOK w pred = true) {u v : Nat}
    (hv : v < pred.length) (huv : u < v)
    (hnt : ¬ (parent pred u = some v ∨ parent pred v = some u)) :
    ∃ cs, treePath pred (2 * pred.length) u v = some cs ∧ ∀ c ∈ cs, w u v ≤ edgeW w pred c := by
  unfold cycleOK at hc
  have h := List.all_eq_true.mp hc _ (mem_cyclePairs hv huv hnt)
  simp only at h
  cases hp : treePath pred (2 * pred.length) u v with
  | none => rw [hp] at h; cases h
  | some cs =>
    rw [hp] at h
    refine ⟨cs, rfl, fun c hcm => ?_⟩
    have := List.all_eq_true.mp h c hcm
    simpa using this

omit [IsOrderedAddMonoid α] in
/-- **Prop meaning of `cycleOK`** (soundness): the Boolean certificate implies the cycle property of the
edge set of the predecessor vector -/
theorem cycleOK_sound (w : Nat → Nat → α) (hs : ∀ a b, w a b = w b a) {n : Nat} {pred : List Int}
    {root : Nat} (hT : isRootedSpanningTree pred root = true) (hn : pred.length = n)
    (hc : cycleOK w pred = true) : CycleProp (symW w hs n) (predEdges n pred root) := by
  have key : ∀ u v : Fin n, u.val < v.val → s(u, v) ∉ predEdges n pred root →
      ReflTransGen (fun a b => s(a, b) ∈ predEdges n pred root ∧
        symW w hs n s(u, v) ≤ symW w hs n s(a, b)) u v := by
    intro u v huv hnot
    have hnt : ¬ (parent pred u = some v ∨ parent pred v = some u) := by
      rintro (h | h)
      · exact hnot (mem_predEdges_of_parent hT hn u.isLt v.isLt h)
      · apply hnot; rw [Sym2.eq_swap]; exact mem_predEdges_of_parent hT hn v.isLt u.isLt h
    obtain ⟨cs, hcs, hheavy⟩ := cycleOK_heavy hc (hn ▸ v.isLt) huv hnt
    have h1 := treePath_sound pred _ u v cs hcs
    obtain ⟨_, h2⟩ := lift_rtg (n := n)
      (Q := fun a b => s(a, b) ∈ predEdges n pred root ∧
        symW w hs n s(u, v) ≤ symW w hs n s(a, b)) (by
      rintro a b ha ⟨c, hcm, ⟨rfl, hp⟩ | ⟨rfl, hp⟩⟩
      · have hb : b < n := hn ▸ (parent_some hp).2
        refine ⟨hb, mem_predEdges_of_parent hT hn ha hb hp, ?_⟩
        rw [symW_mk, symW_mk]
        have := hheavy a hcm
        simpa [edgeW, hp] using this
      · have hb : b < n := hn ▸ parent_lt hp
        refine ⟨hb, ?_, ?_⟩
        · rw [Sym2.eq_swap]; exact mem_predEdges_of_parent hT hn hb ha hp
        · rw [symW_mk, symW_mk]
          have := hheavy b hcm
          rw [show w a b = w b a from hs a b]
          simpa [edgeW, hp] using this) h1 u.isLt
    exact h2
  intro a b hab hnot
  rcases lt_trichotomy a.val b.val with h | h | h
  · exact key a b h hnot
  · exact absurd (Fin.ext h) hab
  · have hnot' : s(b, a) ∉ predEdges n pred root := by rwa [Sym2.eq_swap]
    have h1 := key b a h hnot'
    rw [Sym2.eq_swap (a := b) (b := a)] at h1
    exact rtg_symm (fun x y ⟨h2, h3⟩ => ⟨by rwa [Sym2.eq_swap], by rwa [Sym2.eq_swap (a := y)]⟩) h1

omit [AddCommMonoid α] [IsOrderedAddMonoid α] in
theorem symMax_symm (w : Nat → Nat → α) (a b : Nat) : symMax w a b = symMax w b a := by
  unfold symMax
  rcases lt_trichotomy (w a b) (w b a) with h | h | h
  · simp [h, not_lt_of_gt h]
  · simp [h]
  · simp [h, not_lt_of_gt h]

omit [LinearOrder α] [IsOrderedAddMonoid α] in
theorem tsum_append (l1 l2 : List α) : tsum (l1 ++ l2) = tsum l1 + tsum l2 := by
  induction l1 with
  | nil => simp [tsum]
  | cons x xs ih => simp [tsum, ih, add_assoc]

omit [LinearOrder α] [IsOrderedAddMonoid α] in
theorem tsum_map_range (g : Nat → α) (n : Nat) :
    tsum ((List.range n).map g) = ∑ i ∈ Finset.range n, g i := by
  induction n with
  | zero => simp [tsum]
  | succ n ih =>
    rw [List.range_succ, List.map_append, tsum_append, ih, Finset.sum_range_succ]
    simp [tsum]

omit [LinearOrder α] [IsOrderedAddMonoid α] in
/-- the computed `treeWeight` is the total weight of the edge set -/
theorem treeWeight_eq (w : Nat → Nat → α) (hs : ∀ a b, w a b = w b a) {n : Nat} {pred : List Int}
    {root : Nat} (hT : isRootedSpanningTree pred root = true) (hn : pred.length = n) :
    treeWeight w pred = ∑ e ∈ predEdges n pred root, symW w hs n e := by
  obtain ⟨hr, hm, hp, hreach⟩ := (isRST_iff pred root).mp hT
  have hST := predEdges_isSpanTree hT hn
  -- `i ↦ {i, pred[i]}` is injective on the non-root vertices (cardinalities)
  have hinj : Set.InjOn (fun i : Fin n => s(i, parFin n pred i))
      (Finset.univ.filter (fun i : Fin n => i.val ≠ root) : Finset (Fin n)) := by
    apply Finset.card_image_iff.mp
    apply le_antisymm Finset.card_image_le
    have h1 := connected_card _ hST.1
    have hsub : Finset.univ.filter (fun i : Fin n => i.val ≠ root) ⊆
        (Finset.univ : Finset (Fin n)).erase ⟨root, hn ▸ hr⟩ := by
      intro i hi
      simp only [Finset.mem_filter, Finset.mem_univ, true_and] at hi
      exact Finset.mem_erase.mpr ⟨fun h => hi (by rw [h]), Finset.mem_univ _⟩
    have h2 := Finset.card_le_card hsub
    rw [Finset.card_erase_of_mem (Finset.mem_univ _), Finset.card_univ, Fintype.card_fin] at h2
    rw [Fintype.card_fin] at h1
    unfold predEdges at h1
    omega
  unfold predEdges
  rw [Finset.sum_image hinj, Finset.sum_filter]
  unfold treeWeight
  rw [hn, tsum_map_range, ← Fin.sum_univ_eq_sum_range]
  apply Finset.sum_congr rfl
  intro i _
  by_cases hi : i.val = root
  · simp only [hi, ne_eq, not_true_eq_false, if_false]
    simp [edgeW, parent_root_none hT]
  · simp only [ne_eq, hi, not_false_eq_true, if_true]
    rcases hp i.val (hn ▸ i.isLt) with h | h
    · exact absurd h hi
    · obtain ⟨p, hp'⟩ := Option.isSome_iff_exists.mp h
      obtain ⟨hpn, hpf⟩ := parFin_eq hn hp'
      rw [hpf, symW_mk]
      simp [edgeW, hp']

/-- **`cycleOK_max`, edge-set form.** If the predecessor vector is a rooted spanning tree passing the
`cycleOK` certificate then *every* spanning tree on the same vertices (any connected edge set with at most
`n-1` edges) weighs at most `treeWeight w pred`. -/
theorem cycleOK_max_edges (w : Nat → Nat → α) (hs : ∀ a b, w a b = w b a) {n : Nat} {pred : List Int}
    {root : Nat} (hT : isRootedSpanningTree pred root = true) (hn : pred.length = n)
    (hc : cycleOK w pred = true) :
    ∀ T' : Finset (Sym2 (Fin n)), IsSpanTree T' → ∑ e ∈ T', symW w hs n e ≤ treeWeight w pred := by
  intro T' hT'
  rw [treeWeight_eq w hs hT hn]
  exact cycleProp_max (symW w hs n) _ (predEdges_isSpanTree hT hn) (cycleOK_sound w hs hT hn hc) T' hT'

/-- **`cycleOK_max`, predecessor-vector form.** -/
theorem cycleOK_max_pred (w : Nat → Nat → α) (hs : ∀ a b, w a b = w b a) {pred : List Int}
    {root : Nat} (hT : isRootedSpanningTree pred root = true) (hc : cycleOK w pred = true) :
    ∀ (pred' : List Int) (root' : Nat), pred'.length = pred.length →
      isRootedSpanningTree pred' root' = true → treeWeight w pred' ≤ treeWeight w pred := by
  intro pred' root' hlen hT'
  rw [treeWeight_eq w hs hT' hlen]
  exact cycleOK_max_edges w hs hT rfl hc _ (predEdges_isSpanTree hT' hlen)

end order
end CltFit
end Deeprob
