import DeeprobModel.Model.Sched
import Mathlib.Data.List.Basic
import Mathlib.Tactic.Common
/-
Commutation lemmas for the schedule model and the general "every interleaving equals the sequential run"
theorem.
-/
namespace Deeprob.Sched

/-- `σ` is a merge of the lists `ts` that keeps the order inside each list -/
inductive Interleaving {β : Type} : List (List β) → List β → Prop where
  | nil (ts : List (List β)) : (∀ t ∈ ts, t = []) → Interleaving ts []
  | cons (pre : List (List β)) (a : β) (rest : List β) (post : List (List β)) (σ : List β) :
      Interleaving (pre ++ rest :: post) σ → Interleaving (pre ++ (a :: rest) :: post) (a :: σ)

/-- `Interleaving.cons` with the two list shapes given by equations (convenient for concrete schedules) -/
theorem Interleaving.step {β : Type} {ts ts' : List (List β)} {σ : List β} (pre : List (List β)) (a : β)
    (rest : List β) (post : List (List β)) (h : ts = pre ++ (a :: rest) :: post)
    (h' : ts' = pre ++ rest :: post) (hi : Interleaving ts' σ) : Interleaving ts (a :: σ) := by
  subst h; subst h'; exact Interleaving.cons pre a rest post σ hi

/-- two actions commute as state transformers -/
def Comm (a b : Act) : Prop := ∀ s, apply (apply s a) b = apply (apply s b) a

theorem setF_same {β : Type} (t : Nat → β) (i : Nat) (v : β) : setF t i v i = v := by simp [setF]
theorem setF_ne {β : Type} (t : Nat → β) {i j : Nat} (v : β) (h : j ≠ i) : setF t i v j = t j := by simp [setF, h]

theorem setF_comm {β : Type} (t : Nat → β) {i j : Nat} (v w : β) (h : i ≠ j) :
    setF (setF t i v) j w = setF (setF t j w) i v := by
  funext k; unfold setF
  by_cases h1 : k = j <;> by_cases h2 : k = i
  · subst h1; subst h2; exact absurd rfl h
  · subst h1; simp [h2]
  · subst h2; simp [h]
  · simp [h1, h2]

theorem setF_setF {β : Type} (t : Nat → β) (i : Nat) (v w : β) : setF (setF t i v) i w = setF t i w := by
  funext k; unfold setF; by_cases h : k = i <;> simp [h]

theorem orMask_right_comm (m a b : Mask) : orMask (orMask m a) b = orMask (orMask m b) a := by
  induction m generalizing a b with
  | nil =>
    induction a generalizing b with
    | nil => cases b <;> simp [orMask]
    | cons x xs ih =>
      cases b with
      | nil => simp [orMask]
      | cons y ys => simp only [orMask]; rw [Bool.or_comm]; congr 1; exact ih ys
  | cons p ps ih =>
    cases a with
    | nil => cases b <;> simp [orMask]
    | cons x xs =>
      cases b with
      | nil => simp [orMask]
      | cons y ys => simp only [orMask, Bool.or_assoc]; rw [Bool.or_comm x y]; congr 1; exact ih xs ys

theorem orMask_idem (m a : Mask) : orMask (orMask m a) a = orMask m a := by
  induction m generalizing a with
  | nil =>
    induction a with
    | nil => simp [orMask]
    | cons x xs ih => simp only [orMask, Bool.or_self]; congr 1
  | cons p ps ih =>
    cases a with
    | nil => simp [orMask]
    | cons x xs => simp only [orMask, Bool.or_assoc, Bool.or_self]; congr 1; exact ih xs

/-- two OR-updates with state-independent right-hand sides commute (same row: OR is commutative and
associative; different rows: disjoint footprints) -/
theorem or_update_comm (m : Nat → Mask) (d1 d2 : Nat) (x1 x2 : Mask) :
    setF (setF m d1 (orMask (m d1) x1)) d2 (orMask ((setF m d1 (orMask (m d1) x1)) d2) x2)
      = setF (setF m d2 (orMask (m d2) x2)) d1 (orMask ((setF m d2 (orMask (m d2) x2)) d1) x1) := by
  by_cases h : d1 = d2
  · subst h
    simp only [setF_same, setF_setF]
    rw [orMask_right_comm]
  · have h' : d2 ≠ d1 := fun e => h e.symm
    rw [setF_ne _ _ h', setF_ne _ _ h, setF_comm _ _ _ h]

theorem compat_comm (a b : Act) (h : compat a b = true) : Comm a b := by
  intro s
  cases a with
  | orInto r v =>
    cases b with
    | orInto r' v' => simp only [apply]; rw [or_update_comm]
    | orFrom d' s' sel' =>
      have hs : s' ≠ r := by
        have := h; simp only [compat, bne_iff_ne] at this; exact fun e => this e.symm
      simp only [apply]
      rw [setF_ne _ _ hs]
      exact congrArg (fun m => ({ s with masks := m } : SState)) (or_update_comm s.masks r d' v _)
    | setCell _ _ _ => rfl
    | evalRow _ _ _ => rfl
  | orFrom d src sel =>
    cases b with
    | orInto r' v' =>
      have hs : src ≠ r' := by
        have := h; simp only [compat, bne_iff_ne] at this; exact fun e => this e.symm
      simp only [apply]
      rw [setF_ne _ _ hs]
      exact congrArg (fun m => ({ s with masks := m } : SState)) (or_update_comm s.masks d r' _ v')
    | orFrom d' s' sel' =>
      have h1 : s' ≠ d := by
        have := h; simp only [compat, Bool.and_eq_true, bne_iff_ne] at this; exact fun e => this.1 e.symm
      have h2 : src ≠ d' := by
        have := h; simp only [compat, Bool.and_eq_true, bne_iff_ne] at this; exact fun e => this.2 e.symm
      simp only [apply]
      rw [setF_ne _ _ h1, setF_ne _ _ h2]
      exact congrArg (fun m => ({ s with masks := m } : SState)) (or_update_comm s.masks d d' _ _)
    | setCell _ _ _ => rfl
    | evalRow _ _ _ => rfl
  | setCell r c v =>
    cases b with
    | orInto _ _ => rfl
    | orFrom _ _ _ => rfl
    | setCell r' c' v' =>
      have hne : ¬ (r = r' ∧ c = c') := by
        have := h; simp only [compat, Bool.not_eq_true', Bool.and_eq_false_iff, beq_eq_false_iff_ne] at this
        rintro ⟨e1, e2⟩; rcases this with h | h
        · exact h e1
        · exact h e2
      simp only [apply]
      congr 1
      funext x y
      by_cases h1 : x = r' ∧ y = c' <;> by_cases h2 : x = r ∧ y = c
      · exact absurd ⟨h2.1 ▸ h1.1, h2.2 ▸ h1.2⟩ hne
      · rw [if_pos h1, if_neg h2, if_pos h1]
      · rw [if_neg h1, if_pos h2, if_pos h2]
      · rw [if_neg h1, if_neg h2, if_neg h2, if_neg h1]
    | evalRow _ _ _ => rfl
  | evalRow i rs f =>
    cases b with
    | orInto _ _ => rfl
    | orFrom _ _ _ => rfl
    | setCell _ _ _ => rfl
    | evalRow j rs' f' =>
      have hc : i ≠ j ∧ j ∉ rs ∧ i ∉ rs' := by simpa [compat, and_assoc] using h
      obtain ⟨hij, hj, hi⟩ := hc
      simp only [apply]
      have e1 : rs'.map (setF s.ls i (f (rs.map s.ls))) = rs'.map s.ls :=
        List.map_congr_left (fun x hx => setF_ne _ _ (fun e => hi (e ▸ hx)))
      have e2 : rs.map (setF s.ls j (f' (rs'.map s.ls))) = rs.map s.ls :=
        List.map_congr_left (fun x hx => setF_ne _ _ (fun e => hj (e ▸ hx)))
      rw [e1, e2, setF_comm _ _ _ hij]

/-! ### every interleaving equals the sequential run -/

section generic
variable {β σT : Type} (ap : σT → β → σT)

/-- an action that commutes with every action of a block can be moved in front of the block -/
theorem foldl_move_front (a : β) (pre : List β)
    (h : ∀ b ∈ pre, ∀ s, ap (ap s a) b = ap (ap s b) a) (s : σT) (post : List β) :
    (pre ++ a :: post).foldl ap s = (a :: pre ++ post).foldl ap s := by
  induction pre generalizing s with
  | nil => rfl
  | cons b pre ih =>
    have hb := h b (List.mem_cons_self ..)
    have ih' := ih (fun c hc => h c (List.mem_cons_of_mem _ hc)) (ap s b)
    simp only [List.cons_append, List.foldl_cons] at ih' ⊢
    rw [ih', hb]

/-- the tasks' action lists pairwise commute across tasks -/
def CrossComm (ts : List (List β)) : Prop :=
  ts.Pairwise (fun t u => ∀ a ∈ t, ∀ b ∈ u, ∀ s, ap (ap s a) b = ap (ap s b) a)

theorem interleaving_foldl (ts : List (List β)) (σ : List β) (hi : Interleaving ts σ)
    (hc : CrossComm ap ts) (s : σT) : σ.foldl ap s = ts.flatten.foldl ap s := by
  induction hi generalizing s with
  | nil ts hall =>
    have : ts.flatten = [] := by
      rw [List.flatten_eq_nil_iff]; exact hall
    rw [this]
  | cons pre a rest post σ _ ih =>
    have hc' : CrossComm ap (pre ++ rest :: post) := by
      unfold CrossComm at hc ⊢
      rw [List.pairwise_append] at hc ⊢
      obtain ⟨h1, h2, h3⟩ := hc
      rw [List.pairwise_cons] at h2
      refine ⟨h1, ?_, ?_⟩
      · rw [List.pairwise_cons]
        exact ⟨fun u hu x hx => h2.1 u hu x (List.mem_cons_of_mem _ hx), h2.2⟩
      · intro t ht u hu
        rcases List.mem_cons.1 hu with rfl | hu
        · intro x hx y hy
          exact h3 t ht _ (List.mem_cons_self ..) x hx y (List.mem_cons_of_mem _ hy)
        · exact h3 t ht u (List.mem_cons_of_mem _ hu)
    have hpre : ∀ b ∈ pre.flatten, ∀ s, ap (ap s a) b = ap (ap s b) a := by
      intro b hb s
      obtain ⟨t, ht, hbt⟩ := List.mem_flatten.1 hb
      unfold CrossComm at hc
      rw [List.pairwise_append] at hc
      exact (hc.2.2 t ht _ (List.mem_cons_self ..) b hbt a (List.mem_cons_self ..) s).symm
    simp only [List.foldl_cons]
    rw [ih hc' (ap s a)]
    simp only [List.flatten_append, List.flatten_cons]
    have := foldl_move_front ap a pre.flatten hpre s (rest ++ post.flatten)
    simp only [List.cons_append, List.foldl_cons] at this
    rw [List.cons_append, this]

end generic

/-- GENERAL THEOREM: if the actions of different tasks pairwise commute, every interleaving of the tasks'
action lists produces the state of the sequential execution (task after task). -/
theorem run_interleaving (ts : List (List Act)) (σ : List Act) (hi : Interleaving ts σ)
    (hc : ts.Pairwise (fun t u => ∀ a ∈ t, ∀ b ∈ u, Comm a b)) (s : SState) :
    run s σ = run s ts.flatten :=
  interleaving_foldl apply ts σ hi (hc.imp (fun h a ha b hb s => h a ha b hb s)) s

end Deeprob.Sched
