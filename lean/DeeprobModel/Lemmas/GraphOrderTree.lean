import DeeprobModel.Lemmas.GraphOrderBfs
set_option linter.unusedSimpArgs false
set_option linter.unusedVariables false
/-
`WellFormedPred` (exactly one `-1`, every other entry an index, every index climbs to the root) is
equivalent to `Clt.isTree` (the unfolding `Clt.build` from the root lists every index exactly once).
-/
namespace Deeprob.GraphIo
open Deeprob Deeprob.Clt Deeprob.CltFit

/-! ### 7a. pre-order listing of the unfolding = its levels, up to order -/

/-- `k`-th generation below the nodes of `s` -/
def gen (tree : List Int) (s : List Nat) : Nat → List Nat
  | 0 => s
  | k+1 => (gen tree s k).flatMap (childrenOf tree)

theorem level_eq_gen (tree : List Int) (r : Nat) : ∀ k, level tree r k = gen tree [r] k
  | 0 => rfl
  | k+1 => by rw [level, gen, level_eq_gen tree r k]

theorem gen_append (tree : List Int) (a b : List Nat) : ∀ k, gen tree (a ++ b) k = gen tree a k ++ gen tree b k
  | 0 => rfl
  | k+1 => by rw [gen, gen, gen, gen_append tree a b k, List.flatMap_append]

theorem gen_nil (tree : List Int) : ∀ k, gen tree [] k = []
  | 0 => rfl
  | k+1 => by rw [gen, gen_nil tree k]; rfl

theorem gen_shift (tree : List Int) (s : List Nat) : ∀ k, gen tree s (k + 1) = gen tree (s.flatMap (childrenOf tree)) k
  | 0 => rfl
  | k+1 => by rw [gen, gen_shift tree s k]; rfl

theorem gen_singletons (tree : List Int) (k : Nat) : ∀ (l : List Nat), gen tree l k = l.flatMap (fun d => gen tree [d] k)
  | [] => by simp [gen_nil]
  | d :: l => by
    rw [show d :: l = [d] ++ l from rfl, gen_append, gen_singletons tree k l]
    simp

theorem flatMap_exchange {β γ δ : Type} (g : β → γ → List δ) (m : List γ) : ∀ (l : List β),
    (l.flatMap (fun d => m.flatMap (g d))).Perm (m.flatMap (fun k => l.flatMap (fun d => g d k)))
  | [] => by simp
  | d :: l => by
    simp only [List.flatMap_cons]
    refine (List.Perm.append_left _ (flatMap_exchange g m l)).trans ?_
    exact List.flatMap_append_perm m (g d) (fun k => l.flatMap (fun d => g d k))

theorem vars_build_perm (tree : List Int) : ∀ (f c : Nat),
    (build tree f c).vars.Perm ((List.range (f + 1)).flatMap (fun k => gen tree [c] k))
  | 0, c => by simp [build, RTree.vars, gen]
  | f + 1, c => by
    rw [build_succ, RTree.vars, List.map_map]
    have h1 : (((childrenOf tree c).map (RTree.vars ∘ build tree f)).flatten).Perm
        ((List.range (f + 1)).flatMap (fun k => gen tree [c] (k + 1))) := by
      rw [← List.flatMap_def]
      refine (List.Perm.flatMap_left _ (fun d _ => vars_build_perm tree f d)).trans ?_
      refine (flatMap_exchange (fun d k => gen tree [d] k) _ _).trans ?_
      apply List.Perm.of_eq
      apply List.flatMap_congr
      intro k _
      rw [gen_shift, ← gen_singletons]
      simp
    rw [List.range_succ_eq_map, List.flatMap_cons, List.flatMap_map]
    simp only [gen, List.singleton_append, Nat.succ_eq_add_one]
    exact List.Perm.cons c h1

/-! ### 7b. climbing -/

theorem reaches_self (tree : List Int) (c : Nat) : ∀ f, reaches tree c f c = true
  | 0 => by simp [reaches]
  | f+1 => by simp [reaches]

theorem reaches_extend {tree : List Int} {c d : Nat} (hp : parent tree d = some c) :
    ∀ (f x : Nat), reaches tree d f x = true → reaches tree c (f + 1) x = true
  | 0, x, hx => by
    simp only [reaches, beq_iff_eq] at hx
    subst hx
    simp [reaches, hp]
  | f + 1, x, hx => by
    simp only [reaches, Bool.or_eq_true, beq_iff_eq] at hx
    rcases hx with rfl | hx
    · simp [reaches, hp]
    · cases hpx : parent tree x with
      | none => rw [hpx] at hx; cases hx
      | some q =>
        rw [hpx] at hx
        have := reaches_extend hp f q hx
        rw [reaches]
        simp only [hpx, Bool.or_eq_true]
        right; exact this

theorem mem_vars_reaches (tree : List Int) : ∀ (f c x : Nat), c < tree.length →
    x ∈ (build tree f c).vars → reaches tree c f x = true
  | 0, c, x, _, hx => by
    simp [build, RTree.vars] at hx; subst hx; simp [reaches]
  | f + 1, c, x, hc, hx => by
    rw [build_succ] at hx
    simp only [RTree.vars, List.mem_cons, List.mem_flatten, List.mem_map] at hx
    rcases hx with rfl | ⟨l, ⟨t, ⟨d, hd, rfl⟩, rfl⟩, hxl⟩
    · exact reaches_self tree x _
    · obtain ⟨hdl, hde⟩ := mem_childrenOf_iff.1 hd
      exact reaches_extend (parent_of_entry hc hde) f x (mem_vars_reaches tree f d x hdl hxl)

/-! ### 7c. the equivalence -/

theorem WF.isTree {tree : List Int} {r : Nat} (h : WF tree r) : Clt.isTree tree = true := by
  have hr : Clt.rootOf tree = some r := by rw [← rootIdx_eq_rootOf]; exact h.root
  apply Xpc.isTree_of_perm hr
  refine (vars_build_perm tree tree.length r).trans ?_
  have hg : (fun k => gen tree [r] k) = level tree r := by
    funext k; exact (level_eq_gen tree r k).symm
  rw [hg, List.range_succ, List.flatMap_append]
  simp only [List.flatMap_cons, List.flatMap_nil, List.append_nil]
  rw [h.level_big (Nat.le_refl _), List.append_nil]
  exact h.levels_perm

theorem wf_of_isTree {tree : List Int} (ht : Clt.isTree tree = true) : WellFormedPred tree := by
  obtain ⟨r, hr, hperm⟩ := Clt.isTree_perm ht
  obtain ⟨hrl, hre, _⟩ := Clt.rootOf_some hr
  rw [wf_iff]
  refine ⟨r, by rw [rootIdx_eq_rootOf]; exact hr, ?_⟩
  rw [isRST_iff]
  refine ⟨hrl, hre, ?_, ?_⟩
  · intro i hi
    by_cases hir : i = r
    · exact Or.inl hir
    · right
      obtain ⟨p, hp, hpe⟩ := Clt.isTree_parent ht hr i hi hir
      rw [parent_of_entry hp hpe]; rfl
  · intro i hi
    have hmem : i ∈ (build tree tree.length r).vars := hperm.mem_iff.2 (List.mem_range.2 hi)
    rw [← Clt.isTree_stable ht hr (tree.length - 1) (by omega)] at hmem
    exact mem_vars_reaches tree _ r i hrl hmem

/-- **`Clt.build` succeeds (lists every index exactly once) iff the vector is well formed** -/
theorem wellFormedPred_iff_isTree (tree : List Int) : WellFormedPred tree ↔ Clt.isTree tree = true := by
  constructor
  · intro hw
    obtain ⟨r, h⟩ := WF.of_wf hw
    exact h.isTree
  · exact wf_of_isTree

end Deeprob.GraphIo
