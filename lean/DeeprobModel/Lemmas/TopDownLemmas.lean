import DeeprobModel.Spec.Dist
import DeeprobModel.Lemmas.CircLemmas
import DeeprobModel.Lemmas.ArgmaxLemmas
set_option linter.unusedSimpArgs false
set_option linter.unusedVariables false
set_option linter.unusedSectionVars false
/-
Structural facts about the generic top-down pass (`TCirc.pass`) and the reached leaves.
-/
namespace Deeprob

theorem FillsVar.refl (dom : Nat → Nat) (x : Ev) (v : Nat) : FillsVar dom x x v := Or.inl rfl

theorem FillsVar.trans {dom : Nat → Nat} {x y z : Ev} {v : Nat}
    (h1 : FillsVar dom x y v) (h2 : FillsVar dom y z v) : FillsVar dom x z v := by
  rcases h1 with h1 | ⟨h1, k, hk, h1'⟩
  · rcases h2 with h2 | ⟨h2, k, hk, h2'⟩
    · exact Or.inl (h2.trans h1)
    · exact Or.inr ⟨h1 ▸ h2, k, hk, h2'⟩
  · rcases h2 with h2 | ⟨h2, k', hk', h2'⟩
    · exact Or.inr ⟨h1, k, hk, h2.trans h1'⟩
    · rw [h1'] at h2; cases h2

theorem FillsVar.keeps {dom : Nat → Nat} {x y : Ev} {v : Nat} (h : FillsVar dom x y v) (hx : x v ≠ none) :
    y v = x v := by
  rcases h with h | ⟨h, _⟩
  · exact h
  · exact absurd h hx

theorem FillsVar.ne_none {dom : Nat → Nat} {x y : Ev} {v : Nat} (h : FillsVar dom x y v) (hx : x v ≠ none) :
    y v ≠ none := by rw [h.keeps hx]; exact hx

theorem writeScope_mem (s : List Nat) (y x : Ev) {v : Nat} (h : v ∈ s) : writeScope s y x v = y v := by
  simp [writeScope, h]
theorem writeScope_not_mem (s : List Nat) (y x : Ev) {v : Nat} (h : v ∉ s) : writeScope s y x v = x v := by
  simp [writeScope, h]

namespace TCirc
variable {α : Type}

/-- induction principle (children through membership) -/
theorem ind {motive : TCirc α → Prop}
    (hl : ∀ s f m cd, motive (.leaf s f m cd))
    (hs : ∀ s ws cs, (∀ c ∈ cs, motive c) → motive (.sum s ws cs))
    (hp : ∀ s cs, (∀ c ∈ cs, motive c) → motive (.prod s cs)) : ∀ c, motive c
  | .leaf s f m cd => hl s f m cd
  | .sum s ws cs => hs s ws cs (fun c _ => ind hl hs hp c)
  | .prod s cs => hp s cs (fun c _ => ind hl hs hp c)

@[simp] theorem scope_toCirc (c : TCirc α) : c.toCirc.scope = c.scope := by
  cases c <;> simp [toCirc, Circ.scope, scope]

theorem map_scope_toCirc (cs : List (TCirc α)) : (cs.map toCirc).map Circ.scope = cs.map scope := by
  rw [List.map_map]; apply List.map_congr_left; intro c _; simp

section valid
variable [Zero α] [One α] [Add α] [Mul α]

theorem valid_leaf {dom : Nat → Nat} {s f m cd} :
    Circ.Valid dom (TCirc.leaf (α := α) s f m cd).toCirc ↔ LeafOK dom s f := by
  simp only [toCirc]; unfold Circ.Valid; exact Iff.rfl

theorem valid_sum {dom : Nat → Nat} {s : List Nat} {ws : List α} {cs : List (TCirc α)} :
    Circ.Valid dom (TCirc.sum s ws cs).toCirc ↔
      cs ≠ [] ∧ ws.length = cs.length ∧ (∀ c ∈ cs, scopeEq c.scope s) ∧ ∀ c ∈ cs, Circ.Valid dom c.toCirc := by
  simp only [toCirc]; rw [Circ.Valid.eq_2]
  simp [List.forall_mem_map]

theorem valid_prod {dom : Nat → Nat} {s : List Nat} {cs : List (TCirc α)} :
    Circ.Valid dom (TCirc.prod s cs).toCirc ↔
      (cs.map scope).flatten.Nodup ∧ scopeEq (cs.map scope).flatten s ∧ ∀ c ∈ cs, Circ.Valid dom c.toCirc := by
  simp only [toCirc]; rw [Circ.Valid.eq_3]
  rw [map_scope_toCirc]
  simp [List.forall_mem_map]

theorem eval_sum (e : Ev) (s : List Nat) (ws : List α) (cs : List (TCirc α)) :
    eval e (.sum s ws cs) = wsum ws (cs.map (eval e)) := by
  simp [eval, toCirc, Circ.eval, List.map_map, Function.comp_def]; rfl

theorem eval_prod (e : Ev) (s : List Nat) (cs : List (TCirc α)) :
    eval e (.prod s cs) = lprod (cs.map (eval e)) := by
  simp [eval, toCirc, Circ.eval, List.map_map, Function.comp_def]; rfl

theorem eval_leaf (e : Ev) (s f m cd) : eval e (.leaf (α := α) s f m cd) = f e := by
  simp [eval, toCirc, Circ.eval]

end valid

/-! ### unfolding the helpers -/
variable (br : List Nat → List α → List (TCirc α) → Nat) (fill : List Nat → (Ev → Ev) → Ev → Ev)

theorem passAt_eq (p : List Nat) (i : Nat) : ∀ (k : Nat) (cs : List (TCirc α)) (x : Ev),
    passAt br fill p i k cs x = match cs[k]? with | some c => pass br fill (i :: p) c x | none => x
  | _, [], x => by simp [passAt]
  | 0, c :: cs, x => by simp [passAt]
  | k+1, c :: cs, x => by simp [passAt, passAt_eq p i k cs x]

theorem reachedAt_eq (p : List Nat) (i : Nat) : ∀ (k : Nat) (cs : List (TCirc α)),
    reachedAt br p i k cs = match cs[k]? with | some c => reached br (i :: p) c | none => []
  | _, [] => by simp [reachedAt]
  | 0, c :: cs => by simp [reachedAt]
  | k+1, c :: cs => by simp [reachedAt, reachedAt_eq p i k cs]

/-! ### observed entries kept, missing entries get domain values -/
theorem passAll_step (dom : Nat → Nat) (v : Nat) (p : List Nat) (cs : List (TCirc α))
    (IH : ∀ c ∈ cs, ∀ (q : List Nat) (x : Ev), FillsVar dom x (pass br fill q c x) v) :
    ∀ (j : Nat) (x : Ev), FillsVar dom x (passAll br fill p j cs x) v := by
  induction cs with
  | nil => intro j x; simp [passAll]; exact FillsVar.refl dom x v
  | cons c cs ih =>
    intro j x
    simp only [passAll]
    exact (IH c List.mem_cons_self (j :: p) x).trans
      (ih (fun d hd => IH d (List.mem_cons_of_mem _ hd)) (j+1) _)

theorem pass_step (dom : Nat → Nat) (v : Nat) : ∀ (c : TCirc α), FillOK dom fill c →
    ∀ (p : List Nat) (x : Ev), FillsVar dom x (pass br fill p c x) v := by
  intro c
  induction c using TCirc.ind with
  | hl s f m cd =>
    intro hf p x
    unfold FillOK at hf
    simp only [pass]
    by_cases hv : v ∈ s
    · unfold FillsVar; rw [writeScope_mem _ _ _ hv]; exact (hf p).step x v hv
    · unfold FillsVar; rw [writeScope_not_mem _ _ _ hv]; exact Or.inl rfl
  | hs s ws cs ih =>
    intro hf p x
    unfold FillOK at hf
    simp only [pass, passAt_eq]
    cases hk : cs[br p ws cs]? with
    | none => exact FillsVar.refl dom x v
    | some c => exact ih c (List.mem_of_getElem? hk) (hf c (List.mem_of_getElem? hk)) _ x
  | hp s cs ih =>
    intro hf p x
    unfold FillOK at hf
    simp only [pass]
    exact passAll_step br fill dom v p cs (fun c hc q y => ih c hc (hf c hc) q y) 0 x

/-! ### nothing outside the scope is written -/
section valid
variable [Zero α] [One α] [Add α] [Mul α]

theorem passAll_outside (v : Nat) (p : List Nat) (cs : List (TCirc α))
    (IH : ∀ c ∈ cs, ∀ (q : List Nat) (x : Ev), v ∉ c.scope → pass br fill q c x v = x v)
    (hv : v ∉ (cs.map scope).flatten) :
    ∀ (j : Nat) (x : Ev), passAll br fill p j cs x v = x v := by
  induction cs with
  | nil => intro j x; simp [passAll]
  | cons c cs ih =>
    intro j x
    simp only [List.map_cons, List.flatten_cons, List.mem_append, not_or] at hv
    simp only [passAll]
    rw [ih (fun d hd => IH d (List.mem_cons_of_mem _ hd)) hv.2, IH c List.mem_cons_self _ _ hv.1]

theorem pass_outside (dom : Nat → Nat) (v : Nat) : ∀ (c : TCirc α), Circ.Valid dom c.toCirc →
    ∀ (p : List Nat) (x : Ev), v ∉ c.scope → pass br fill p c x v = x v := by
  intro c
  induction c using TCirc.ind with
  | hl s f m cd =>
    intro _ p x hv
    simp only [scope] at hv
    simp only [pass]; exact writeScope_not_mem _ _ _ hv
  | hs s ws cs ih =>
    intro hval p x hv
    obtain ⟨_, _, hsc, hvc⟩ := valid_sum.1 hval
    simp only [scope] at hv
    simp only [pass, passAt_eq]
    cases hk : cs[br p ws cs]? with
    | none => rfl
    | some c =>
      have hc := List.mem_of_getElem? hk
      exact ih c hc (hvc c hc) _ x (fun h => hv ((hsc c hc v).1 h))
  | hp s cs ih =>
    intro hval p x hv
    obtain ⟨_, hsc, hvc⟩ := valid_prod.1 hval
    simp only [scope] at hv
    simp only [pass]
    exact passAll_outside br fill v p cs (fun c hc q y h => ih c hc (hvc c hc) q y h)
      (fun h => hv ((hsc v).1 h)) 0 x

/-! ### the whole scope is filled -/
theorem passAll_fills (dom : Nat → Nat) (v : Nat) (p : List Nat) (cs : List (TCirc α))
    (hstep : ∀ c ∈ cs, ∀ (q : List Nat) (x : Ev), FillsVar dom x (pass br fill q c x) v)
    (IH : ∀ c ∈ cs, ∀ (q : List Nat) (x : Ev), v ∈ c.scope → pass br fill q c x v ≠ none)
    (hv : v ∈ (cs.map scope).flatten) :
    ∀ (j : Nat) (x : Ev), passAll br fill p j cs x v ≠ none := by
  induction cs with
  | nil => simp at hv
  | cons c cs ih =>
    intro j x
    simp only [List.map_cons, List.flatten_cons, List.mem_append] at hv
    simp only [passAll]
    have hstep' : ∀ d ∈ cs, ∀ (q : List Nat) (x : Ev), FillsVar dom x (pass br fill q d x) v :=
      fun d hd => hstep d (List.mem_cons_of_mem _ hd)
    by_cases h1 : v ∈ (cs.map scope).flatten
    · exact ih hstep' (fun d hd => IH d (List.mem_cons_of_mem _ hd)) h1 (j+1) _
    · have hc : v ∈ c.scope := hv.resolve_right h1
      exact (passAll_step br fill dom v p cs hstep' (j+1) _).ne_none (IH c List.mem_cons_self _ x hc)

theorem pass_fills (dom : Nat → Nat) (v : Nat) : ∀ (c : TCirc α), Circ.Valid dom c.toCirc →
    BrOK br c → FillOK dom fill c →
    ∀ (p : List Nat) (x : Ev), v ∈ c.scope → pass br fill p c x v ≠ none := by
  intro c
  induction c using TCirc.ind with
  | hl s f m cd =>
    intro _ _ hf p x hv
    unfold FillOK at hf
    simp only [scope] at hv
    simp only [pass]; rw [writeScope_mem _ _ _ hv]; exact (hf p).fills x v hv
  | hs s ws cs ih =>
    intro hval hb hf p x hv
    obtain ⟨_, _, hsc, hvc⟩ := valid_sum.1 hval
    unfold BrOK at hb; unfold FillOK at hf
    simp only [scope] at hv
    simp only [pass, passAt_eq]
    have hlt := hb.1 p
    have hk : cs[br p ws cs]? = some cs[br p ws cs] := by simp [hlt]
    rw [hk]
    have hc : cs[br p ws cs] ∈ cs := List.getElem_mem hlt
    exact ih _ hc (hvc _ hc) (hb.2 _ hc) (hf _ hc) _ x ((hsc _ hc v).2 hv)
  | hp s cs ih =>
    intro hval hb hf p x hv
    obtain ⟨_, hsc, hvc⟩ := valid_prod.1 hval
    unfold BrOK at hb; unfold FillOK at hf
    simp only [scope] at hv
    simp only [pass]
    exact passAll_fills br fill dom v p cs
      (fun c hc q y => pass_step br fill dom v c (hf c hc) q y)
      (fun c hc q y h => ih c hc (hvc c hc) (hb c hc) (hf c hc) q y h)
      ((hsc v).2 hv) 0 x

end valid
end TCirc
end Deeprob
