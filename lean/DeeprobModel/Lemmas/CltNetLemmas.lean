import DeeprobModel.Lemmas.NetShift
import DeeprobModel.Lemmas.MargNetLemmas
import DeeprobModel.Lemmas.CltLemmas
set_option linter.unusedSectionVars false
set_option linter.unusedSimpArgs false
set_option linter.unusedVariables false
/-
The table of `BinaryCLT.to_pc()` (`Clt.pcNet`, Model/RewriteNetClt.lean): its last two entries evaluate to the upward
messages of the Chow-Liu tree (`pcNet_spec`), and it satisfies everything `marginalizeNetWith_eval` asks of a table
(`TableOK`).
-/
namespace Deeprob
open Net Clt
variable {α : Type} [CommSemiring α]

/-- what `marginalizeNetWith_eval` asks of a table -/
structure TableOK (T : Net α) : Prop where
  wo : WellOrdered T
  sumOK : NetSumOK T
  nodeOK : ∀ (i : Nat) (x : NNode α), T[i]? = some x → MargNodeOK T x

theorem scopeOf_append_left (a b : Net α) (c : Nat) (h : c < a.length) : scopeOf (a ++ b) c = scopeOf a c := by
  unfold scopeOf; rw [List.getElem?_append_left h]

theorem margNodeOK_congr (T T' : Net α) (x : NNode α) (h : ∀ c ∈ x.ch, scopeOf T' c = scopeOf T c)
    (hx : MargNodeOK T x) : MargNodeOK T' x := by
  unfold MargNodeOK at hx ⊢
  have hmap : x.ch.map (scopeOf T') = x.ch.map (scopeOf T) := List.map_congr_left h
  cases hk : x.kind with
  | sum => rw [hk] at hx; exact ⟨hx.1, fun c hc => by rw [h c hc]; exact hx.2 c hc⟩
  | prod => rw [hk] at hx; show scopeEq (x.ch.map (scopeOf T')).flatten x.scope; rw [hmap]; exact hx
  | leaf => rw [hk] at hx; exact hx

theorem tableOK_nil : TableOK ([] : Net α) :=
  ⟨by intro i x h; simp at h, by intro i x h; simp at h, by intro i x h; simp at h⟩

/-- appending one node whose children are already stored -/
theorem tableOK_snoc (a : Net α) (y : NNode α) (ha : TableOK a) (hch : ∀ c ∈ y.ch, c < a.length)
    (hs : y.kind = .sum → y.ws.length = y.ch.length ∧ tsum y.ws = 1) (hn : MargNodeOK a y) :
    TableOK (a ++ [y]) := by
  refine ⟨?_, ?_, ?_⟩
  · intro i x hx c hc
    rcases getElem?_snoc_cases a y x i hx with ⟨_, h⟩ | ⟨h1, h2⟩
    · exact ha.wo i x h c hc
    · subst h2; rw [h1]; exact hch c hc
  · intro i x hx hk
    rcases getElem?_snoc_cases a y x i hx with ⟨_, h⟩ | ⟨_, h2⟩
    · exact ha.sumOK i x h hk
    · subst h2; exact hs hk
  · intro i x hx
    rcases getElem?_snoc_cases a y x i hx with ⟨hi, h⟩ | ⟨_, h2⟩
    · apply margNodeOK_congr a _ x _ (ha.nodeOK i x h)
      intro c hc
      exact scopeOf_append_left a [y] c (by have := ha.wo i x h c hc; omega)
    · subst h2
      apply margNodeOK_congr a _ x _ hn
      intro c hc
      exact scopeOf_append_left a [x] c (hch c hc)

theorem getElem?_shiftNet (off : Nat) (T : Net α) (j : Nat) :
    (shiftNet off T)[j]? = (T[j]?).map (shiftNode off) := by
  unfold shiftNet; rw [List.getElem?_map]

theorem scopeOf_append_shift (a T : Net α) (c : Nat) :
    scopeOf (a ++ shiftNet a.length T) (c + a.length) = scopeOf T c := by
  unfold scopeOf
  rw [List.getElem?_append_right (by omega), Nat.add_sub_cancel, getElem?_shiftNet]
  cases T[c]? <;> rfl

/-- storing a table behind another one -/
theorem tableOK_append_shift (a T : Net α) (ha : TableOK a) (hT : TableOK T) :
    TableOK (a ++ shiftNet a.length T) := by
  have hcases : ∀ (i : Nat) (x : NNode α), (a ++ shiftNet a.length T)[i]? = some x →
      (i < a.length ∧ a[i]? = some x) ∨ (∃ j y, i = a.length + j ∧ T[j]? = some y ∧ x = shiftNode a.length y) := by
    intro i x hx
    rcases Nat.lt_or_ge i a.length with h | h
    · left; rw [List.getElem?_append_left h] at hx; exact ⟨h, hx⟩
    · right
      rw [List.getElem?_append_right h, getElem?_shiftNet] at hx
      cases hy : T[i - a.length]? with
      | none => rw [hy] at hx; cases hx
      | some y =>
        rw [hy] at hx
        exact ⟨i - a.length, y, by omega, hy, (Option.some.inj hx).symm⟩
  refine ⟨?_, ?_, ?_⟩
  · intro i x hx c hc
    rcases hcases i x hx with ⟨_, h⟩ | ⟨j, y, hi, hy, rfl⟩
    · exact ha.wo i x h c hc
    · simp only [shiftNode, List.mem_map] at hc
      obtain ⟨c0, hc0, rfl⟩ := hc
      have := hT.wo j y hy c0 hc0
      omega
  · intro i x hx hk
    rcases hcases i x hx with ⟨_, h⟩ | ⟨j, y, hi, hy, rfl⟩
    · exact ha.sumOK i x h hk
    · have := hT.sumOK j y hy hk
      simpa [shiftNode] using this
  · intro i x hx
    rcases hcases i x hx with ⟨hi, h⟩ | ⟨j, y, hi, hy, rfl⟩
    · apply margNodeOK_congr a _ x _ (ha.nodeOK i x h)
      intro c hc
      exact scopeOf_append_left a _ c (by have := ha.wo i x h c hc; omega)
    · have hy' := hT.nodeOK j y hy
      unfold MargNodeOK at hy' ⊢
      have hmap : (shiftNode a.length y).ch.map (scopeOf (a ++ shiftNet a.length T)) = y.ch.map (scopeOf T) := by
        simp only [shiftNode, List.map_map]
        apply List.map_congr_left; intro c _
        exact scopeOf_append_shift a T c
      cases hk : y.kind with
      | sum =>
        rw [hk] at hy'
        have hk' : (shiftNode a.length y).kind = .sum := hk
        rw [hk']
        refine ⟨by simpa [shiftNode] using hy'.1, ?_⟩
        intro c hc
        simp only [shiftNode, List.mem_map] at hc
        obtain ⟨c0, hc0, rfl⟩ := hc
        rw [scopeOf_append_shift a T c0]
        exact hy'.2 c0 hc0
      | prod =>
        rw [hk] at hy'
        have hk' : (shiftNode a.length y).kind = .prod := hk
        rw [hk']
        show scopeEq (((shiftNode a.length y).ch.map (scopeOf (a ++ shiftNet a.length T)))).flatten y.scope
        rw [hmap]; exact hy'
      | leaf =>
        rw [hk] at hy'
        have hk' : (shiftNode a.length y).kind = .leaf := hk
        rw [hk']
        exact hy'

theorem noDens_append (a b : Net α) (ha : NoDens a) (hb : NoDens b) : NoDens (a ++ b) := by
  intro x hx; rcases List.mem_append.1 hx with h | h
  · exact ha x h
  · exact hb x h

theorem noDens_shift (off : Nat) (T : Net α) (h : NoDens T) : NoDens (shiftNet off T) := by
  intro x hx hk
  simp only [shiftNet, List.mem_map] at hx
  obtain ⟨y, hy, rfl⟩ := hx
  exact h y hy hk

theorem getD_drop' (l : List α) (n j : Nat) : l.getD (n + j) 0 = (l.drop n).getD j 0 := by
  rw [List.getD_eq_getElem?_getD, List.getD_eq_getElem?_getD, List.getElem?_drop]

/-- value of a `NoDens` table stored behind another one -/
theorem nval_append_shift_noDens (e : Ev) (dens : List α) (a T : Net α) (hT : NoDens T) (j : Nat) (hj : j < T.length) :
    nval e dens (a ++ shiftNet a.length T) (a.length + j) = nval e dens T j := by
  rw [nval_append_shift e dens (dens.drop a.length) a T (fun j => getD_drop' dens _ j) j hj]
  unfold nval; rw [evalNet_noDens e _ dens T hT]

theorem placeTables_snoc (kids : List (Net α)) (T : Net α) :
    placeTables (kids ++ [T]) =
      ((placeTables kids).1 ++ shiftNet (placeTables kids).1.length T,
       (placeTables kids).2 ++ [((placeTables kids).1.length + (T.length - 2), (placeTables kids).1.length + (T.length - 1))]) := by
  simp [placeTables, List.foldl_append]

/-- what `placeTables` produces, given what its argument tables satisfy at their last two entries -/
theorem placeTables_spec (e : Ev) (dens : List α) (kids : List (Net α)) (hnd : ∀ K ∈ kids, NoDens K)
    (h2 : ∀ K ∈ kids, 2 ≤ K.length) :
    NoDens (placeTables kids).1 ∧
    (∀ p ∈ (placeTables kids).2, p.1 < (placeTables kids).1.length ∧ p.2 < (placeTables kids).1.length) ∧
    (placeTables kids).2.map (fun p => nval e dens (placeTables kids).1 p.1) = kids.map (fun K => nval e dens K (K.length - 2)) ∧
    (placeTables kids).2.map (fun p => nval e dens (placeTables kids).1 p.2) = kids.map (fun K => nval e dens K (K.length - 1)) ∧
    (placeTables kids).2.map (fun p => scopeOf (placeTables kids).1 p.1) = kids.map (fun K => scopeOf K (K.length - 2)) ∧
    (placeTables kids).2.map (fun p => scopeOf (placeTables kids).1 p.2) = kids.map (fun K => scopeOf K (K.length - 1)) ∧
    ((∀ K ∈ kids, TableOK K) → TableOK (placeTables kids).1) := by
  induction kids using List.reverseRecOn with
  | nil => simp [placeTables, NoDens, tableOK_nil]
  | append_singleton kids T ih =>
    obtain ⟨i1, i2, i3, i4, i5, i6, i7⟩ := ih (fun K hK => hnd K (List.mem_append_left _ hK))
      (fun K hK => h2 K (List.mem_append_left _ hK))
    have hT := hnd T (by simp)
    have hT2 := h2 T (by simp)
    rw [placeTables_snoc]
    generalize (placeTables kids).1 = body at *
    generalize (placeTables kids).2 = roots at *
    simp only
    have hold : ∀ p ∈ roots, ∀ (sel : Nat × Nat → Nat), (sel = Prod.fst ∨ sel = Prod.snd) →
        nval e dens (body ++ shiftNet body.length T) (sel p) = nval e dens body (sel p) ∧
        scopeOf (body ++ shiftNet body.length T) (sel p) = scopeOf body (sel p) := by
      intro p hp sel hsel
      have hlt : sel p < body.length := by rcases hsel with rfl | rfl; exact (i2 p hp).1; exact (i2 p hp).2
      exact ⟨nval_append_lt e dens body _ _ hlt, scopeOf_append_left body _ _ hlt⟩
    refine ⟨noDens_append _ _ i1 (noDens_shift _ _ hT), ?_, ?_, ?_, ?_, ?_, ?_⟩
    · intro p hp
      simp only [List.length_append, shiftNet, List.length_map]
      rcases List.mem_append.1 hp with h | h
      · have := i2 p h; omega
      · simp at h; subst h; simp only; omega
    · rw [List.map_append, List.map_append, ← i3]
      congr 1
      · apply List.map_congr_left; intro p hp; exact (hold p hp Prod.fst (Or.inl rfl)).1
      · simp only [List.map_cons, List.map_nil]
        rw [nval_append_shift_noDens e dens body T hT _ (by omega)]
    · rw [List.map_append, List.map_append, ← i4]
      congr 1
      · apply List.map_congr_left; intro p hp; exact (hold p hp Prod.snd (Or.inr rfl)).1
      · simp only [List.map_cons, List.map_nil]
        rw [nval_append_shift_noDens e dens body T hT _ (by omega)]
    · rw [List.map_append, List.map_append, ← i5]
      congr 1
      · apply List.map_congr_left; intro p hp; exact (hold p hp Prod.fst (Or.inl rfl)).2
      · simp only [List.map_cons, List.map_nil]
        rw [Nat.add_comm, scopeOf_append_shift]
    · rw [List.map_append, List.map_append, ← i6]
      congr 1
      · apply List.map_congr_left; intro p hp; exact (hold p hp Prod.snd (Or.inr rfl)).2
      · simp only [List.map_cons, List.map_nil]
        rw [Nat.add_comm, scopeOf_append_shift]
    · intro hok
      exact tableOK_append_shift body T (i7 (fun K hK => hok K (List.mem_append_left _ hK))) (hok T (by simp))

/-! ### the entries `to_pc` creates for one tree node -/

theorem getElem?_append_at {β : Type} (body L : List β) (k : Nat) : (body ++ L)[body.length + k]? = L[k]? := by
  rw [List.getElem?_append_right (by omega)]; congr 1; omega

theorem bern_fn (v k : Nat) (d : α) (e : Ev) :
    (bern (α := α) v k).leaf.fn (bern (α := α) v k).scope d e = Circ.catLeafFn v (indicator k) e := rfl

theorem margNodeOK_bern (T : Net α) (v k : Nat) : MargNodeOK T (bern (α := α) v k) := by
  unfold MargNodeOK bern
  exact ⟨v, rfl, Or.inl ⟨_, rfl⟩⟩

/-- the six entries of an inner tree node -/
def topInner (n v : Nat) (sc : List Nat) (roots : List (Nat × Nat)) (w0 w1 : List α) : Net α :=
  [bern v 0, bern v 1,
   { id := 0, kind := .prod, scope := sc, ch := n :: roots.map Prod.fst, ws := [], leaf := .absent },
   { id := 0, kind := .prod, scope := sc, ch := (n+1) :: roots.map Prod.snd, ws := [], leaf := .absent },
   { id := 0, kind := .sum, scope := sc, ch := [n+2, n+3], ws := w0, leaf := .absent },
   { id := 0, kind := .sum, scope := sc, ch := [n+2, n+3], ws := w1, leaf := .absent }]

/-- the four entries of a tree leaf -/
def topLeaf (n v : Nat) (w0 w1 : List α) : Net α :=
  [bern v 0, bern v 1,
   { id := 0, kind := .sum, scope := [v], ch := [n, n+1], ws := w0, leaf := .absent },
   { id := 0, kind := .sum, scope := [v], ch := [n, n+1], ws := w1, leaf := .absent }]

theorem topInner_val (e : Ev) (dens : List α) (body : Net α) (v : Nat) (sc : List Nat) (roots : List (Nat × Nat))
    (w0 w1 : List α) (hr : ∀ p ∈ roots, p.1 < body.length ∧ p.2 < body.length) (l : Nat) (hl : l < 2) :
    nval e dens (body ++ topInner body.length v sc roots w0 w1) (body.length + 4 + l) =
      wsum (if l = 0 then w0 else w1)
        [Circ.catLeafFn v (indicator 0) e * lprod (roots.map (fun p => nval e dens body p.1)),
         Circ.catLeafFn v (indicator 1) e * lprod (roots.map (fun p => nval e dens body p.2))] := by
  generalize hT : body ++ topInner body.length v sc roots w0 w1 = T
  have g : ∀ k, T[body.length + k]? = (topInner body.length v sc roots w0 w1)[k]? := by
    intro k; rw [← hT]; exact getElem?_append_at body _ k
  have hold : ∀ c, c < body.length → nval e dens T c = nval e dens body c := by
    intro c hc; rw [← hT]; exact nval_append_lt e dens body _ c hc
  have v0 : nval e dens T body.length = Circ.catLeafFn v (indicator 0) e := by
    rw [nval_unfold e dens T body.length (bern v 0) (by have := g 0; simpa [topInner] using this)
      (by intro c hc; simp [bern] at hc)]
    rfl
  have v1 : nval e dens T (body.length + 1) = Circ.catLeafFn v (indicator 1) e := by
    rw [nval_unfold e dens T (body.length + 1) (bern v 1) (by have := g 1; simpa [topInner] using this)
      (by intro c hc; simp [bern] at hc)]
    rfl
  have p0 : nval e dens T (body.length + 2)
      = Circ.catLeafFn v (indicator 0) e * lprod (roots.map (fun p => nval e dens body p.1)) := by
    rw [nval_unfold e dens T (body.length + 2) _ (by have := g 2; simpa [topInner] using this)
      (by intro c hc
          simp only [List.mem_cons, List.mem_map] at hc
          rcases hc with rfl | ⟨p, hp, rfl⟩
          · omega
          · have := (hr p hp).1; omega)]
    simp only [List.map_cons, lprod, v0, List.map_map]
    congr 2
    apply List.map_congr_left; intro p hp
    exact hold _ (hr p hp).1
  have p1 : nval e dens T (body.length + 3)
      = Circ.catLeafFn v (indicator 1) e * lprod (roots.map (fun p => nval e dens body p.2)) := by
    rw [nval_unfold e dens T (body.length + 3) _ (by have := g 3; simpa [topInner] using this)
      (by intro c hc
          simp only [List.mem_cons, List.mem_map] at hc
          rcases hc with rfl | ⟨p, hp, rfl⟩
          · omega
          · have := (hr p hp).2; omega)]
    simp only [List.map_cons, lprod, v1, List.map_map]
    congr 2
    apply List.map_congr_left; intro p hp
    exact hold _ (hr p hp).2
  have hl' : l = 0 ∨ l = 1 := by omega
  rcases hl' with rfl | rfl
  · rw [nval_unfold e dens T (body.length + 4 + 0) _ (by have := g 4; simpa [topInner] using this)
      (by intro c hc; simp at hc; omega)]
    simp only [List.map_cons, List.map_nil, p0, p1, if_true]
  · rw [nval_unfold e dens T (body.length + 4 + 1) _ (by have := g 5; simpa [topInner] using this)
      (by intro c hc; simp at hc; omega)]
    simp only [List.map_cons, List.map_nil, p0, p1]
    simp

theorem topLeaf_val (e : Ev) (dens : List α) (body : Net α) (v : Nat) (w0 w1 : List α) (l : Nat) (hl : l < 2) :
    nval e dens (body ++ topLeaf body.length v w0 w1) (body.length + 2 + l) =
      wsum (if l = 0 then w0 else w1) [Circ.catLeafFn v (indicator 0) e, Circ.catLeafFn v (indicator 1) e] := by
  generalize hT : body ++ topLeaf body.length v w0 w1 = T
  have g : ∀ k, T[body.length + k]? = (topLeaf body.length v w0 w1)[k]? := by
    intro k; rw [← hT]; exact getElem?_append_at body _ k
  have v0 : nval e dens T body.length = Circ.catLeafFn v (indicator 0) e := by
    rw [nval_unfold e dens T body.length (bern v 0) (by have := g 0; simpa [topLeaf] using this)
      (by intro c hc; simp [bern] at hc)]
    rfl
  have v1 : nval e dens T (body.length + 1) = Circ.catLeafFn v (indicator 1) e := by
    rw [nval_unfold e dens T (body.length + 1) (bern v 1) (by have := g 1; simpa [topLeaf] using this)
      (by intro c hc; simp [bern] at hc)]
    rfl
  have hl' : l = 0 ∨ l = 1 := by omega
  rcases hl' with rfl | rfl
  · rw [nval_unfold e dens T (body.length + 2 + 0) _ (by have := g 2; simpa [topLeaf] using this)
      (by intro c hc; simp at hc; omega)]
    simp only [List.map_cons, List.map_nil, v0, v1, if_true]
  · rw [nval_unfold e dens T (body.length + 2 + 1) _ (by have := g 3; simpa [topLeaf] using this)
      (by intro c hc; simp at hc; omega)]
    simp only [List.map_cons, List.map_nil, v0, v1]
    simp

theorem scopeOf_snoc_self (a : Net α) (y : NNode α) : scopeOf (a ++ [y]) a.length = y.scope := by
  unfold scopeOf; rw [List.getElem?_append_right (Nat.le_refl _)]; simp

theorem scopeOf_snoc_lt' (a : Net α) (y : NNode α) (c : Nat) (h : c < a.length) : scopeOf (a ++ [y]) c = scopeOf a c :=
  scopeOf_append_left a [y] c h

theorem topInner_ok (body : Net α) (v : Nat) (sc : List Nat) (roots : List (Nat × Nat)) (w0 w1 : List α)
    (hb : TableOK body) (hr : ∀ p ∈ roots, p.1 < body.length ∧ p.2 < body.length)
    (hS0 : scopeEq ([v] ++ (roots.map (fun p => scopeOf body p.1)).flatten) sc)
    (hS1 : scopeEq ([v] ++ (roots.map (fun p => scopeOf body p.2)).flatten) sc)
    (hw0 : w0.length = 2 ∧ tsum w0 = 1) (hw1 : w1.length = 2 ∧ tsum w1 = 1) :
    TableOK (body ++ topInner body.length v sc roots w0 w1) := by
  have a1 := tableOK_snoc body (bern v 0) hb (by intro c hc; simp [bern] at hc) (by intro h; simp [bern] at h)
    (margNodeOK_bern body v 0)
  have a2 := tableOK_snoc _ (bern v 1) a1 (by intro c hc; simp [bern] at hc) (by intro h; simp [bern] at h)
    (margNodeOK_bern _ v 1)
  have l1 : (body ++ [bern (α := α) v 0]).length = body.length + 1 := by simp
  have l2 : (body ++ [bern (α := α) v 0] ++ [bern v 1]).length = body.length + 2 := by simp
  have sroot : ∀ c, c < body.length → scopeOf (body ++ [bern (α := α) v 0] ++ [bern v 1]) c = scopeOf body c := by
    intro c hc
    rw [scopeOf_snoc_lt' _ _ c (by rw [l1]; omega), scopeOf_snoc_lt' _ _ c hc]
  have s0 : scopeOf (body ++ [bern (α := α) v 0] ++ [bern v 1]) body.length = [v] := by
    rw [scopeOf_snoc_lt' _ _ _ (by rw [l1]; omega), scopeOf_snoc_self]; rfl
  have s1 : scopeOf (body ++ [bern (α := α) v 0] ++ [bern v 1]) (body.length + 1) = [v] := by
    have := scopeOf_snoc_self (body ++ [bern (α := α) v 0]) (bern v 1)
    rw [l1] at this; exact this
  have a3 := tableOK_snoc _
    ({ id := 0, kind := .prod, scope := sc, ch := body.length :: roots.map Prod.fst, ws := [], leaf := .absent } : NNode α) a2
    (by intro c hc
        simp only [List.mem_cons, List.mem_map] at hc
        rcases hc with rfl | ⟨p, hp, rfl⟩
        · rw [l2]; omega
        · rw [l2]; have := (hr p hp).1; omega)
    (by intro h; cases h)
    (by unfold MargNodeOK
        show scopeEq _ sc
        simp only [List.map_cons, List.flatten_cons, s0, List.map_map]
        have : roots.map ((scopeOf (body ++ [bern (α := α) v 0] ++ [bern v 1])) ∘ Prod.fst)
            = roots.map (fun p => scopeOf body p.1) := by
          apply List.map_congr_left; intro p hp; exact sroot _ (hr p hp).1
        rw [this]; exact hS0)
  have l3 : (body ++ [bern (α := α) v 0] ++ [bern v 1] ++
      [({ id := 0, kind := .prod, scope := sc, ch := body.length :: roots.map Prod.fst, ws := [], leaf := .absent } : NNode α)]).length
      = body.length + 3 := by simp
  have a4 := tableOK_snoc _
    ({ id := 0, kind := .prod, scope := sc, ch := (body.length + 1) :: roots.map Prod.snd, ws := [], leaf := .absent } : NNode α) a3
    (by intro c hc
        simp only [List.mem_cons, List.mem_map] at hc
        rcases hc with rfl | ⟨p, hp, rfl⟩
        · rw [l3]; omega
        · rw [l3]; have := (hr p hp).2; omega)
    (by intro h; cases h)
    (by unfold MargNodeOK
        show scopeEq _ sc
        simp only [List.map_cons, List.flatten_cons, List.map_map]
        rw [scopeOf_snoc_lt' _ _ _ (by rw [l2]; omega), s1]
        have : roots.map ((scopeOf (body ++ [bern (α := α) v 0] ++ [bern v 1] ++
            [({ id := 0, kind := .prod, scope := sc, ch := body.length :: roots.map Prod.fst, ws := [], leaf := .absent } : NNode α)])) ∘ Prod.snd)
            = roots.map (fun p => scopeOf body p.2) := by
          apply List.map_congr_left; intro p hp
          simp only [Function.comp]
          rw [scopeOf_snoc_lt' _ _ _ (by rw [l2]; have := (hr p hp).2; omega)]
          exact sroot _ (hr p hp).2
        rw [this]; exact hS1)
  generalize ha4 : body ++ [bern (α := α) v 0] ++ [bern v 1] ++
      [({ id := 0, kind := .prod, scope := sc, ch := body.length :: roots.map Prod.fst, ws := [], leaf := .absent } : NNode α)] ++
      [({ id := 0, kind := .prod, scope := sc, ch := (body.length + 1) :: roots.map Prod.snd, ws := [], leaf := .absent } : NNode α)]
      = A4 at a4
  have l4 : A4.length = body.length + 4 := by rw [← ha4]; simp
  have sp0 : scopeOf A4 (body.length + 2) = sc := by
    rw [← ha4, scopeOf_snoc_lt' _ _ _ (by rw [l3]; omega)]
    have := scopeOf_snoc_self (body ++ [bern (α := α) v 0] ++ [bern v 1])
      ({ id := 0, kind := .prod, scope := sc, ch := body.length :: roots.map Prod.fst, ws := [], leaf := .absent } : NNode α)
    rw [l2] at this; exact this
  have sp1 : scopeOf A4 (body.length + 3) = sc := by
    rw [← ha4]
    have := scopeOf_snoc_self (body ++ [bern (α := α) v 0] ++ [bern v 1] ++
      [({ id := 0, kind := .prod, scope := sc, ch := body.length :: roots.map Prod.fst, ws := [], leaf := .absent } : NNode α)])
      ({ id := 0, kind := .prod, scope := sc, ch := (body.length + 1) :: roots.map Prod.snd, ws := [], leaf := .absent } : NNode α)
    rw [l3] at this; exact this
  have a5 := tableOK_snoc A4
    ({ id := 0, kind := .sum, scope := sc, ch := [body.length + 2, body.length + 3], ws := w0, leaf := .absent } : NNode α) a4
    (by intro c hc; simp at hc; rw [l4]; omega)
    (by intro _; exact ⟨by simpa using hw0.1, hw0.2⟩)
    (by unfold MargNodeOK
        refine ⟨by simp, ?_⟩
        intro c hc
        simp at hc
        rcases hc with rfl | rfl
        · rw [sp0]; exact scopeEq.rfl'
        · rw [sp1]; exact scopeEq.rfl')
  have a6 := tableOK_snoc _
    ({ id := 0, kind := .sum, scope := sc, ch := [body.length + 2, body.length + 3], ws := w1, leaf := .absent } : NNode α) a5
    (by intro c hc; simp at hc; simp [l4]; omega)
    (by intro _; exact ⟨by simpa using hw1.1, hw1.2⟩)
    (by unfold MargNodeOK
        refine ⟨by simp, ?_⟩
        intro c hc
        simp at hc
        rcases hc with rfl | rfl
        · rw [scopeOf_snoc_lt' _ _ _ (by rw [l4]; omega), sp0]; exact scopeEq.rfl'
        · rw [scopeOf_snoc_lt' _ _ _ (by rw [l4]; omega), sp1]; exact scopeEq.rfl')
  have : body ++ topInner body.length v sc roots w0 w1 = A4 ++
      [({ id := 0, kind := .sum, scope := sc, ch := [body.length + 2, body.length + 3], ws := w0, leaf := .absent } : NNode α)] ++
      [({ id := 0, kind := .sum, scope := sc, ch := [body.length + 2, body.length + 3], ws := w1, leaf := .absent } : NNode α)] := by
    rw [← ha4]; simp [topInner]
  rw [this]; exact a6

theorem topLeaf_ok (body : Net α) (v : Nat) (w0 w1 : List α) (hb : TableOK body)
    (hw0 : w0.length = 2 ∧ tsum w0 = 1) (hw1 : w1.length = 2 ∧ tsum w1 = 1) :
    TableOK (body ++ topLeaf body.length v w0 w1) := by
  have a1 := tableOK_snoc body (bern v 0) hb (by intro c hc; simp [bern] at hc) (by intro h; simp [bern] at h)
    (margNodeOK_bern body v 0)
  have a2 := tableOK_snoc _ (bern v 1) a1 (by intro c hc; simp [bern] at hc) (by intro h; simp [bern] at h)
    (margNodeOK_bern _ v 1)
  have l1 : (body ++ [bern (α := α) v 0]).length = body.length + 1 := by simp
  generalize ha2 : body ++ [bern (α := α) v 0] ++ [bern v 1] = A2 at a2
  have l2 : A2.length = body.length + 2 := by rw [← ha2]; simp
  have s0 : scopeOf A2 body.length = [v] := by
    rw [← ha2, scopeOf_snoc_lt' _ _ _ (by rw [l1]; omega), scopeOf_snoc_self]; rfl
  have s1 : scopeOf A2 (body.length + 1) = [v] := by
    rw [← ha2]
    have := scopeOf_snoc_self (body ++ [bern (α := α) v 0]) (bern v 1)
    rw [l1] at this; exact this
  have a3 := tableOK_snoc A2
    ({ id := 0, kind := .sum, scope := [v], ch := [body.length, body.length + 1], ws := w0, leaf := .absent } : NNode α) a2
    (by intro c hc; simp at hc; rw [l2]; omega)
    (by intro _; exact ⟨by simpa using hw0.1, hw0.2⟩)
    (by unfold MargNodeOK
        refine ⟨by simp, ?_⟩
        intro c hc
        simp at hc
        rcases hc with rfl | rfl
        · rw [s0]; exact scopeEq.rfl'
        · rw [s1]; exact scopeEq.rfl')
  have a4 := tableOK_snoc _
    ({ id := 0, kind := .sum, scope := [v], ch := [body.length, body.length + 1], ws := w1, leaf := .absent } : NNode α) a3
    (by intro c hc; simp at hc; simp [l2]; omega)
    (by intro _; exact ⟨by simpa using hw1.1, hw1.2⟩)
    (by unfold MargNodeOK
        refine ⟨by simp, ?_⟩
        intro c hc
        simp at hc
        rcases hc with rfl | rfl
        · rw [scopeOf_snoc_lt' _ _ _ (by rw [l2]; omega), s0]; exact scopeEq.rfl'
        · rw [scopeOf_snoc_lt' _ _ _ (by rw [l2]; omega), s1]; exact scopeEq.rfl')
  have : body ++ topLeaf body.length v w0 w1 = A2 ++
      [({ id := 0, kind := .sum, scope := [v], ch := [body.length, body.length + 1], ws := w0, leaf := .absent } : NNode α)] ++
      [({ id := 0, kind := .sum, scope := [v], ch := [body.length, body.length + 1], ws := w1, leaf := .absent } : NNode α)] := by
    rw [← ha2]; simp [topLeaf]
  rw [this]; exact a4

/-! ### the table of `to_pc()` -/

theorem pcNet_node (scope : List Nat) (cpt : List (List (List α))) (i : Nat) (cs : List RTree) :
    pcNet scope cpt (.node i cs) =
      if cs.isEmpty then
        (placeTables ((cs.map (pcNet scope cpt)).reverse)).1 ++
          topLeaf (placeTables ((cs.map (pcNet scope cpt)).reverse)).1.length (scope.getD i 0)
            [cptAt cpt i 0 0, cptAt cpt i 0 1] [cptAt cpt i 1 0, cptAt cpt i 1 1]
      else
        (placeTables ((cs.map (pcNet scope cpt)).reverse)).1 ++
          topInner (placeTables ((cs.map (pcNet scope cpt)).reverse)).1.length (scope.getD i 0)
            (pcScope scope (.node i cs)) (placeTables ((cs.map (pcNet scope cpt)).reverse)).2
            [cptAt cpt i 0 0, cptAt cpt i 0 1] [cptAt cpt i 1 0, cptAt cpt i 1 1] := by
  rw [pcNet]; rfl

/-- what the table of `to_pc()` for a sub-tree satisfies -/
structure PcSpec (scope : List Nat) (cpt : List (List (List α))) (t : RTree) : Prop where
  len : 2 ≤ (pcNet scope cpt t).length
  noDens : NoDens (pcNet scope cpt t)
  val : ∀ (e : Ev) (dens : List α) (l : Nat), l < 2 →
    nval e dens (pcNet scope cpt t) ((pcNet scope cpt t).length - 2 + l) = up scope cpt t l e
  sc : ∀ l, l < 2 → scopeOf (pcNet scope cpt t) ((pcNet scope cpt t).length - 2 + l) = pcScope scope t
  ok : (∀ j ∈ t.vars, ∀ l, l < 2 → cptAt cpt j l 0 + cptAt cpt j l 1 = 1) → TableOK (pcNet scope cpt t)

theorem noDens_top_inner (n v : Nat) (sc : List Nat) (roots : List (Nat × Nat)) (w0 w1 : List α) :
    NoDens (topInner n v sc roots w0 w1) := by
  intro x hx hk
  simp only [topInner, List.mem_cons, List.not_mem_nil, or_false] at hx
  rcases hx with rfl | rfl | rfl | rfl | rfl | rfl
  · exact ⟨v, _, rfl⟩
  · exact ⟨v, _, rfl⟩
  all_goals cases hk

theorem noDens_top_leaf (n v : Nat) (w0 w1 : List α) : NoDens (topLeaf n v w0 w1) := by
  intro x hx hk
  simp only [topLeaf, List.mem_cons, List.not_mem_nil, or_false] at hx
  rcases hx with rfl | rfl | rfl | rfl
  · exact ⟨v, _, rfl⟩
  · exact ⟨v, _, rfl⟩
  all_goals cases hk

/-- **the table of `to_pc()`**: its last two entries (what goes to `neg_buffer` / `pos_buffer`) evaluate to the
upward messages of the sub-tree for parent value 0 / 1 under every evidence, carry the scope `to_pc` stores, and the
table is children-first, smooth, with normalised sums when the rows of the conditional tables are -/
theorem pcNet_spec (scope : List Nat) (cpt : List (List (List α))) : (t : RTree) → PcSpec scope cpt t
  | .node i cs => by
    have ih : ∀ c ∈ cs, PcSpec scope cpt c := fun c _ => pcNet_spec scope cpt c
    generalize hK : (cs.map (pcNet scope cpt)).reverse = K
    have hKmem : ∀ T ∈ K, ∃ c ∈ cs, T = pcNet scope cpt c := by
      intro T hT
      rw [← hK, List.mem_reverse, List.mem_map] at hT
      obtain ⟨c, hc, rfl⟩ := hT; exact ⟨c, hc, rfl⟩
    have hnd : ∀ T ∈ K, NoDens T := by
      intro T hT; obtain ⟨c, hc, rfl⟩ := hKmem T hT; exact (ih c hc).noDens
    have h2 : ∀ T ∈ K, 2 ≤ T.length := by
      intro T hT; obtain ⟨c, hc, rfl⟩ := hKmem T hT; exact (ih c hc).len
    have hnode := pcNet_node scope cpt i cs
    rw [hK] at hnode
    have P := fun e dens => placeTables_spec (α := α) e dens K hnd h2
    generalize hbody : (placeTables K).1 = body at hnode P
    generalize hroots : (placeTables K).2 = roots at hnode P
    -- the values, scopes of the children's roots
    have hv : ∀ (e : Ev) (dens : List α) (l : Nat), l < 2 →
        lprod (roots.map (fun p => nval e dens body (if l = 0 then p.1 else p.2)))
          = lprod (cs.map (fun c => up scope cpt c l e)) := by
      intro e dens l hl
      obtain ⟨_, _, q3, q4, _⟩ := P e dens
      have hl' : l = 0 ∨ l = 1 := by omega
      rcases hl' with rfl | rfl
      · simp only [if_true]
        rw [q3, ← hK, List.map_reverse, lprod_reverse, List.map_map]
        congr 1
        apply List.map_congr_left; intro c hc
        have := (ih c hc).val e dens 0 (by omega)
        simpa using this
      · simp only [show (1 : Nat) ≠ 0 by decide, if_false]
        rw [q4, ← hK, List.map_reverse, lprod_reverse, List.map_map]
        congr 1
        apply List.map_congr_left; intro c hc
        have := (ih c hc).val e dens 1 (by omega)
        simp only [Function.comp]
        rw [← this]; congr 1
        have := (ih c hc).len; omega
    have hs : ∀ l, l < 2 → (roots.map (fun p => scopeOf body (if l = 0 then p.1 else p.2)))
        = (cs.map (pcScope scope)).reverse := by
      intro l hl
      obtain ⟨_, _, _, _, q5, q6, _⟩ := P (fun _ => none) []
      have hl' : l = 0 ∨ l = 1 := by omega
      rcases hl' with rfl | rfl
      · simp only [if_true]
        rw [q5, ← hK, List.map_reverse, List.map_map]
        congr 1
        apply List.map_congr_left; intro c hc
        have := (ih c hc).sc 0 (by omega)
        simpa using this
      · simp only [show (1 : Nat) ≠ 0 by decide, if_false]
        rw [q6, ← hK, List.map_reverse, List.map_map]
        congr 1
        apply List.map_congr_left; intro c hc
        have := (ih c hc).sc 1 (by omega)
        simp only [Function.comp]
        rw [← this]; congr 1
        have := (ih c hc).len; omega
    obtain ⟨q1, q2, _, _, _, _, q7⟩ := P (fun _ => none) []
    by_cases hcs : cs.isEmpty = true
    · -- a leaf of the tree
      have hcs' : cs = [] := List.isEmpty_iff.1 hcs
      subst hcs'
      simp only [List.isEmpty_nil, if_true] at hnode
      have hb0 : body = [] := by rw [← hbody, ← hK]; rfl
      subst hb0
      have hlen : (pcNet scope cpt (.node i [])).length = 4 := by rw [hnode]; rfl
      refine ⟨by omega, ?_, ?_, ?_, ?_⟩
      · rw [hnode]; exact noDens_append _ _ (by intro x hx; cases hx) (noDens_top_leaf _ _ _ _)
      · intro e dens l hl
        rw [hlen, hnode]
        have tv := topLeaf_val e dens ([] : Net α) (scope.getD i 0) [cptAt cpt i 0 0, cptAt cpt i 0 1]
          [cptAt cpt i 1 0, cptAt cpt i 1 1] l hl
        have e4 : 4 - 2 + l = ([] : Net α).length + 2 + l := by show 4 - 2 + l = 0 + 2 + l; omega
        rw [e4, tv, up_node]
        have hl' : l = 0 ∨ l = 1 := by omega
        rcases hl' with rfl | rfl <;> simp [wsum, lprod]
      · intro l hl
        rw [hlen, hnode]
        have hl' : l = 0 ∨ l = 1 := by omega
        rcases hl' with rfl | rfl <;> simp [scopeOf, topLeaf, pcScope]
      · intro hrows
        rw [hnode]
        have r0 := hrows i (by simp [RTree.vars]) 0 (by omega)
        have r1 := hrows i (by simp [RTree.vars]) 1 (by omega)
        exact topLeaf_ok [] _ _ _ tableOK_nil ⟨rfl, by simp only [tsum]; rw [add_zero]; exact r0⟩
          ⟨rfl, by simp only [tsum]; rw [add_zero]; exact r1⟩
    · -- an inner node of the tree
      simp only [hcs, if_false, Bool.false_eq_true] at hnode
      have hlen : (pcNet scope cpt (.node i cs)).length = body.length + 6 := by rw [hnode]; simp [topInner]
      have hrange : ∀ p ∈ roots, p.1 < body.length ∧ p.2 < body.length := q2
      refine ⟨by omega, ?_, ?_, ?_, ?_⟩
      · rw [hnode]; exact noDens_append _ _ q1 (noDens_top_inner _ _ _ _ _ _)
      · intro e dens l hl
        rw [hlen, hnode, show body.length + 6 - 2 + l = body.length + 4 + l by omega,
          topInner_val e dens body _ _ roots _ _ hrange l hl, up_node]
        have h0 := hv e dens 0 (by omega)
        have h1 := hv e dens 1 (by omega)
        simp only [if_true, show (1 : Nat) ≠ 0 by decide, if_false] at h0 h1
        rw [h0, h1]
        have hl' : l = 0 ∨ l = 1 := by omega
        rcases hl' with rfl | rfl <;> simp [wsum]
      · intro l hl
        rw [hlen, hnode, show body.length + 6 - 2 + l = body.length + (4 + l) by omega]
        unfold scopeOf
        rw [getElem?_append_at]
        have hl' : l = 0 ∨ l = 1 := by omega
        rcases hl' with rfl | rfl <;> simp [topInner]
      · intro hrows
        rw [hnode]
        have hkids : ∀ T ∈ K, TableOK T := by
          intro T hT
          obtain ⟨c, hc, rfl⟩ := hKmem T hT
          apply (ih c hc).ok
          intro j hj l hl
          apply hrows j _ l hl
          simp only [RTree.vars, List.mem_cons, List.mem_flatten, List.mem_map]
          exact Or.inr ⟨_, ⟨c, hc, rfl⟩, hj⟩
        have r0 := hrows i (by simp [RTree.vars]) 0 (by omega)
        have r1 := hrows i (by simp [RTree.vars]) 1 (by omega)
        have s0 := hs 0 (by omega)
        have s1 := hs 1 (by omega)
        simp only [if_true, show (1 : Nat) ≠ 0 by decide, if_false] at s0 s1
        apply topInner_ok body _ _ roots _ _ (q7 hkids) hrange
        · rw [s0]; rw [pcScope]; exact scopeEq.rfl'
        · rw [s1]; rw [pcScope]; exact scopeEq.rfl'
        · exact ⟨rfl, by simp only [tsum]; rw [add_zero]; exact r0⟩
        · exact ⟨rfl, by simp only [tsum]; rw [add_zero]; exact r1⟩

end Deeprob
