import DeeprobModel.Lemmas.RewriteNetValid
import DeeprobModel.Lemmas.RewriteNetLabel
import DeeprobModel.Lemmas.RewriteNetFix
set_option linter.unusedSectionVars false
set_option linter.unusedSimpArgs false
set_option linter.unusedVariables false
/-
Structural theory of the net-level `prune`, part 7: the shape theorems for the result of the repaired `prune`, stated
for an arbitrary set `P` of nodes that contains the root, is closed under children, and on which the local conditions
`ShapeOK` / `LocalOK` hold. `Props/C09NetMore.lean` instantiates `P` with `collect net root` and reads the conditions
off `check_spn`; `Props/C10NetMore.lean` uses them for the table left by the first pass of `marginalize`.
-/
namespace Deeprob
open Net
variable {α : Type} [CommSemiring α]

/-! ### Prop-level reading of `normalFormB` -/

/-- no inner node with fewer than two children, no sum child of a sum, no product child of a product — over the
nodes collected from `root` -/
def NormalFormSpec (t : Net α) (root : Nat) : Prop :=
  ∀ i ∈ collect t root, ∃ x, t[i]? = some x ∧
    (x.kind = .leaf ∨ (2 ≤ x.ch.length ∧ ∀ c ∈ x.ch, kindOf t c ≠ x.kind))

theorem normalFormB_iff (t : Net α) (root : Nat) : normalFormB t root = true ↔ NormalFormSpec t root := by
  unfold normalFormB NormalFormSpec
  rw [List.all_eq_true]
  apply forall_congr'; intro i
  apply imp_congr_right; intro _
  cases hx : t[i]? with
  | none => simp
  | some x =>
    simp only [Option.some.injEq, exists_eq_left']
    cases hk : x.kind <;> simp [List.all_eq_true]


/-! ### the general theorems -/

/-- normal form of the result, general form -/
theorem pruneNet_normal_form_of (net : Net α) (root : Nat) (hw : WellOrdered net) (hr : root < net.length)
    (P : Nat → Prop) (hPcl : ∀ i, P i → ∀ c ∈ chOf net i, P c) (hPr : P root) (hsh : ShapeOK net P)
    (out : Net α) (order : List Nat) (h : pruneNet net root = some (out, order)) :
    normalFormB out (out.length - 1) = true ∧
    ∀ p, p < out.length → ∃ x, out[p]? = some x ∧
      (x.kind = .leaf ∨ (2 ≤ x.ch.length ∧ ∀ c ∈ x.ch, kindOf out c ≠ x.kind)) := by
  have S := prunePass_sol true net hw
  obtain ⟨ko, hk, ho, he⟩ := pruneNetWith_unpack true net root hw hr out order h
  generalize (prunePass true net).1 = t at S hk ho he
  generalize (prunePass true net).2 = rep at S hk ho he
  have hin := inRange_of_wellOrdered net hw
  have hgood := export_good net t rep hw S P hPcl hsh root hr hPr order ho
  have hlen : out.length = order.length := by rw [he]; exact exportTable_length _ _ _
  have hall : ∀ p, p < out.length → ∃ x, out[p]? = some x ∧
      (x.kind = .leaf ∨ (2 ≤ x.ch.length ∧ ∀ c ∈ x.ch, kindOf out c ≠ x.kind)) := by
    intro p hp
    rw [hlen] at hp
    obtain ⟨y, hy, hoy, hch⟩ := export_node t order (posIn ko) ho.closed ho.lt p hp
    obtain ⟨_, y', hy', hg⟩ := hgood order[p] (List.getElem_mem hp)
    rw [hy] at hy'; cases hy'
    rw [he]
    refine ⟨_, hoy, ?_⟩
    rcases hg with ⟨h0, _⟩ | ⟨h1, _, h3⟩
    · exact Or.inl h0
    · right
      refine ⟨by simpa using h1, ?_⟩
      intro c hc
      simp only [List.mem_map] at hc
      obtain ⟨c0, hc0, rfl⟩ := hc
      obtain ⟨_, hlt, hget⟩ := hch c0 hc0
      rw [(export_kind_scope t order (posIn ko) ho.closed ho.lt _ hlt).1, hget]
      exact (h3 c0 hc0).1
  refine ⟨(normalFormB_iff out _).2 ?_, hall⟩
  intro i hi
  have hne : out.length ≠ 0 := by
    rw [hlen]; intro h0; exact ho.ne (List.eq_nil_of_length_eq_zero h0)
  have hcl : ChLt out := by rw [he]; exact export_chLt t order (posIn ko) ho.closed ho.lt
  have := collect_lt_of_chLt out hcl (out.length - 1) (by omega) i hi
  exact hall i (by omega)


/-- the result is children-first and satisfies `NetNF`, general form -/
theorem pruneNet_netNF_of (net : Net α) (root : Nat) (hw : WellOrdered net) (hr : root < net.length)
    (P : Nat → Prop) (hPcl : ∀ i, P i → ∀ c ∈ chOf net i, P c) (hPr : P root) (hsh : ShapeOK net P)
    (out : Net α) (order : List Nat) (h : pruneNet net root = some (out, order)) :
    WellOrdered out ∧ NetNF out := by
  have S := prunePass_sol true net hw
  obtain ⟨ko, hk, ho, he⟩ := pruneNetWith_unpack true net root hw hr out order h
  generalize (prunePass true net).1 = t at S hk ho he
  generalize (prunePass true net).2 = rep at S hk ho he
  have hin := inRange_of_wellOrdered net hw
  have hgood := export_good net t rep hw S P hPcl hsh root hr hPr order ho
  have hlen : out.length = order.length := by rw [he]; exact exportTable_length _ _ _
  have hcl : ChLt out := by rw [he]; exact export_chLt t order (posIn ko) ho.closed ho.lt
  refine ⟨hcl, ?_⟩
  intro p x hx hnl
  have hp : p < order.length := by rw [← hlen]; exact (List.getElem?_eq_some_iff.1 hx).1
  obtain ⟨y, hy, hoy, hch⟩ := export_node t order (posIn ko) ho.closed ho.lt p hp
  obtain ⟨⟨j, hj, hPj, hji⟩, y', hy', hg⟩ := hgood order[p] (List.getElem_mem hp)
  rw [hy] at hy'; cases hy'
  rw [he, hoy] at hx
  cases hx
  simp only at hnl
  rcases hg with ⟨h0, _⟩ | ⟨h1, h2, h3⟩
  · exact absurd h0 hnl
  · refine ⟨by simpa using h1, ?_, ?_⟩
    · intro c hc
      simp only [List.mem_map] at hc
      obtain ⟨c0, hc0, rfl⟩ := hc
      obtain ⟨_, hlt, hget⟩ := hch c0 hc0
      rw [he, (export_kind_scope t order (posIn ko) ho.closed ho.lt _ hlt).1, hget]
      exact (h3 c0 hc0).1
    · intro hks
      simp only at hks
      refine ⟨by simpa using h2 hks, ?_⟩
      show (y.ch.map (posIn order)).Nodup
      have hfix : rep.getD order[p] order[p] = order[p] := by rw [← hji]; exact (S.basic j hj).rep_fix
      have hnd := sol_fixed_sum_nodup true net t rep hw S order[p] (by rw [← S.lt]; exact ho.lt _ (List.getElem_mem hp))
        hfix (by rw [kindOf_some t _ y hy]; exact hks)
      rw [chOf_some t _ y hy] at hnd
      apply List.Nodup.map_on _ hnd
      intro a ha b hb hab
      obtain ⟨_, hlt, hget⟩ := hch a ha
      exact posIn_inj order a b (by rw [← hget]; exact List.getElem_mem hlt) hab


/-- smoothness, decomposability, root scope and duplicate-free scopes of the result, general form -/
theorem pruneNet_valid_of (net : Net α) (root : Nat) (hw : WellOrdered net) (hr : root < net.length)
    (P : Nat → Prop) (hPcl : ∀ i, P i → ∀ c ∈ chOf net i, P c) (hPr : P root) (hsh : ShapeOK net P)
    (hlo : LocalOK net P) (hnd : ∀ i, P i → (scopeOf net i).Nodup)
    (out : Net α) (order : List Nat) (h : pruneNet net root = some (out, order)) :
    Net.checkSpn out (out.length - 1) false true true = .accept ∧
    scopeEq (scopeOf out (out.length - 1)) (scopeOf net root) ∧
    (∀ (p : Nat) (x : NNode α), out[p]? = some x → (x.kind = .sum → SumOK out x) ∧ (x.kind = .prod → ProdOK out x)) ∧
    (∀ p, p < out.length → (scopeOf out p).Nodup) := by
  have S := prunePass_sol true net hw
  obtain ⟨ko, hk, ho, he⟩ := pruneNetWith_unpack true net root hw hr out order h
  generalize (prunePass true net).1 = t at S hk ho he
  generalize (prunePass true net).2 = rep at S hk ho he
  have hin := inRange_of_wellOrdered net hw
  have hgood := export_good net t rep hw S P hPcl hsh root hr hPr order ho
  have hval := sol_valid net t rep hw S P hPcl hsh hlo
  have hsc : ∀ i, scopeOf t i = scopeOf net i := fun i => sol_scopeAt true net t rep hw S i
  have hlen : out.length = order.length := by rw [he]; exact exportTable_length _ _ _
  have hne : out.length ≠ 0 := by
    rw [hlen]; intro h0; exact ho.ne (List.eq_nil_of_length_eq_zero h0)
  -- scope of exported entries
  have hosc : ∀ p (hp : p < order.length), scopeOf out p = scopeOf net order[p] := by
    intro p hp; rw [he, (export_kind_scope t order (posIn ko) ho.closed ho.lt p hp).2, hsc]
  -- members of `order` are replacements of collected nodes, hence collected
  have hmemP : ∀ i ∈ order, P i := by
    intro i hi
    obtain ⟨⟨j, hj, hPj, hji⟩, _⟩ := hgood i hi
    rw [← hji]
    exact (sol_closed true net t rep hw S P hPcl j hj hPj).1
  have hnodes : ∀ (p : Nat) (x : NNode α), out[p]? = some x → (x.kind = .sum → SumOK out x) ∧ (x.kind = .prod → ProdOK out x) := by
    intro p x hx
    have hp : p < order.length := by rw [← hlen]; exact (List.getElem?_eq_some_iff.1 hx).1
    obtain ⟨y, hy, hoy, hch⟩ := export_node t order (posIn ko) ho.closed ho.lt p hp
    obtain ⟨⟨j, hj, hPj, hji⟩, y', hy', hg⟩ := hgood order[p] (List.getElem_mem hp)
    rw [hy] at hy'; cases hy'
    obtain ⟨_, hv⟩ := hval j hj hPj
    rw [hji] at hv
    rw [he, hoy] at hx
    cases hx
    -- scopes of the renamed children
    have hchsc : ∀ c ∈ y.ch, scopeOf out (posIn order c) = scopeOf net c := by
      intro c hc
      obtain ⟨_, hlt, hget⟩ := hch c hc
      rw [hosc _ hlt, hget]
    have hmapsc : (y.ch.map (posIn order)).map (scopeOf out) = y.ch.map (scopeOf net) := by
      rw [List.map_map]; exact List.map_congr_left hchsc
    have hys : y.scope = scopeOf net order[p] := by rw [← hsc, scopeOf_get t _ y hy]
    have hinner : y.kind ≠ .leaf → 2 ≤ y.ch.length ∧ (y.kind = .sum → y.ws.length = y.ch.length) := by
      intro hnl
      rcases hg with ⟨h0, _⟩ | ⟨h1, h2, _⟩
      · exact absurd h0 hnl
      · exact ⟨h1, h2⟩
    constructor
    · intro hks
      simp only at hks
      obtain ⟨h1, h2⟩ := hinner (by rw [hks]; simp)
      refine ⟨?_, ?_, ?_⟩
      · show y.ch.map (posIn order) ≠ []
        intro h0; rw [List.map_eq_nil_iff] at h0; rw [h0] at h1; simp at h1
      · show y.ws.length = (y.ch.map (posIn order)).length
        rw [List.length_map]; exact h2 hks
      · intro c hc
        show scopeEq (scopeOf out c) y.scope
        simp only [List.mem_map] at hc
        obtain ⟨c0, hc0, rfl⟩ := hc
        rw [hchsc c0 hc0, hys]
        exact hv.1 (by rw [kindOf_some t _ y hy]; exact hks) c0 (by rw [chOf_some t _ y hy]; exact hc0)
    · intro hkp
      simp only at hkp
      obtain ⟨h1, _⟩ := hinner (by rw [hkp]; simp)
      obtain ⟨q1, q2⟩ := hv.2 (by rw [kindOf_some t _ y hy]; exact hkp)
      rw [chOf_some t _ y hy] at q1 q2
      refine ⟨?_, ?_, ?_, ?_⟩
      · show y.ch.map (posIn order) ≠ []
        intro h0; rw [List.map_eq_nil_iff] at h0; rw [h0] at h1; simp at h1
      · intro c hc
        simp only [List.mem_map] at hc
        obtain ⟨c0, hc0, rfl⟩ := hc
        obtain ⟨_, hlt, hget⟩ := hch c0 hc0
        rw [hchsc c0 hc0]
        exact hnd c0 (hmemP c0 (by rw [← hget]; exact List.getElem_mem hlt))
      · show ((y.ch.map (posIn order)).map (scopeOf out)).Pairwise List.Disjoint
        rw [hmapsc]; exact q1
      · show scopeEq ((y.ch.map (posIn order)).map (scopeOf out)).flatten y.scope
        rw [hmapsc, hys]; exact q2
  have hcl : ChLt out := by rw [he]; exact export_chLt t order (posIn ko) ho.closed ho.lt
  refine ⟨?_, ?_, hnodes, ?_⟩
  · rw [checkSpn_accept_iff_flags, isSmooth_eq_none_iff, isDecomposable_eq_none_iff]
    refine ⟨by simp, fun _ => ?_, fun _ => ?_⟩
    · intro i _ x hx hk; exact (hnodes i x hx).1 hk
    · intro i _ x hx hk; exact (hnodes i x hx).2 hk
  · have hp : out.length - 1 < order.length := by omega
    rw [hosc _ hp]
    have hrr : order[out.length - 1] = rep.getD root root := by
      have := ho.last; rw [← hlen, List.getElem?_eq_getElem hp] at this; exact Option.some.inj this
    rw [hrr]
    exact (hval root hr hPr).1
  · intro p hp
    rw [hlen] at hp
    rw [hosc p hp]
    exact hnd _ (hmemP _ (List.getElem_mem hp))


/-! ### reading the hypotheses off `check_spn` / `normalFormB` -/

/-- hypotheses of the shape theorems read off `check_spn` (only the smooth / decomposable verdicts are used) -/
theorem shapeOK_of_accept (net : Net α) (root : Nat) (l : Bool)
    (hacc : Net.checkSpn net root l true true = .accept)
    (hleaf : ∀ i ∈ collect net root, ∀ x, net[i]? = some x → x.kind = .leaf → x.ch = []) :
    ShapeOK net (fun i => i ∈ collect net root) := by
  rw [checkSpn_accept_iff_flags, isSmooth_eq_none_iff, isDecomposable_eq_none_iff] at hacc
  obtain ⟨_, hsm, hdc⟩ := hacc
  intro i x hi hx
  refine ⟨fun hk => ?_, fun hk => ?_, fun hk => hleaf i hi x hx hk⟩
  · obtain ⟨h1, h2, _⟩ := hsm rfl i hi x hx hk; exact ⟨h1, h2⟩
  · exact (hdc rfl i hi x hx hk).1

theorem localOK_of_accept (net : Net α) (root : Nat) (l : Bool)
    (hacc : Net.checkSpn net root l true true = .accept) :
    LocalOK net (fun i => i ∈ collect net root) := by
  rw [checkSpn_accept_iff_flags, isSmooth_eq_none_iff, isDecomposable_eq_none_iff] at hacc
  obtain ⟨_, hsm, hdc⟩ := hacc
  intro i x hi hx
  refine ⟨fun hk => ?_, fun hk => ?_⟩
  · exact (hsm rfl i hi x hx hk).2.2
  · obtain ⟨_, _, h3, h4⟩ := hdc rfl i hi x hx hk; exact ⟨h3, h4⟩

/-- `NetNF` from the run-time test `normalFormB` when every entry is reachable from the root; what `normalFormB`
does not look at (one weight per child, pairwise distinct children of sums) stays a hypothesis -/
theorem netNF_of_normalFormB (net : Net α) (root : Nat) (hall : ∀ i, i < net.length → i ∈ collect net root)
    (hnf : normalFormB net root = true)
    (hsum : ∀ (i : Nat) (x : NNode α), net[i]? = some x → x.kind = .sum → x.ws.length = x.ch.length ∧ x.ch.Nodup) :
    NetNF net := by
  intro i x hx hnl
  obtain ⟨x', hx', h⟩ := (normalFormB_iff net root).1 hnf i (hall i (List.getElem?_eq_some_iff.1 hx).1)
  rw [hx] at hx'; cases hx'
  rcases h with h | h
  · exact absurd h hnl
  · exact ⟨h.1, h.2, hsum i x hx⟩


end Deeprob
