import DeeprobModel.Lemmas.RatSampleRow
set_option linter.unusedSimpArgs false
set_option linter.unusedVariables false
set_option linter.unusedSectionVars false
/-
C16 (sampling / MPE clause), part 6: the hypotheses of the C07 / C06 theorems hold for the unrolled
RAT-SPN (`unrollT`): valid, non-negative, exact leaf samplers; shapes of the top-down index pairs.
-/
namespace Deeprob
namespace RatSample
open RatSpn TCirc Tensor

section wf
variable {α : Type} [Field α] [LinearOrder α] [IsStrictOrderedRing α]

/-- an accepted Bernoulli RAT-SPN with the parameter shapes the constructor allocates: the guards of
`RegionGraph.__init__` / `RatSpn.__init__`, permutation draws, weight rows of the allocated lengths
(`in_nodes` of the sum / root layers), non-negative weights (soft-max), Bernoulli tables `[1-p, p]`
(two non-negative entries summing to one). -/
structure Spec.WF (S : Spec α) : Prop where
  perm : ∀ t r, (S.ρ t r).Perm r
  acc : accepted S.n S.depth = true
  reps_pos : 0 < S.reps
  batch_pos : 0 < S.batch
  sum_pos : 0 < S.rgSum
  w_len : ∀ l j o, (S.w l j o).length = if l = 0 then S.batch * S.batch else S.rgSum * S.rgSum
  root_len : ∀ y, (S.wroot y).length = S.reps * (if S.depth = 1 then S.batch * S.batch else S.rgSum * S.rgSum)
  w_nonneg : ∀ l j o, ∀ a ∈ S.w l j o, 0 ≤ a
  root_nonneg : ∀ y, ∀ a ∈ S.wroot y, 0 ≤ a
  tbl_len : ∀ i c k, (S.tbl i c k).length = 2
  tbl_sum : ∀ i c k, tsum (S.tbl i c k) = 1
  tbl_nonneg : ∀ i c k, ∀ a ∈ S.tbl i c k, 0 ≤ a

/-- soft-max rows sum to one (needed only for statements about the *normalised* distribution) -/
structure Spec.Normalised (S : Spec α) : Prop where
  w_sum : ∀ l j o, tsum (S.w l j o) = 1
  root_sum : ∀ y, tsum (S.wroot y) = 1

theorem lfOf_leafOK (S : Spec α) (h : S.WF) : ∀ i c k, k < (S.regs.getD i []).length →
    LeafOK (fun _ => 2) [(S.regs.getD i []).getD k 0] (lfOf S i c k) := by
  intro i c k hk
  obtain ⟨_, hd, _⟩ := (accepted_iff S.n S.depth).1 h.acc
  have hi : i < S.regs.length := by
    by_contra hc
    have : S.regs.getD i [] = [] := by
      simp [List.getD_eq_getElem?_getD, List.getElem?_eq_none (Nat.le_of_not_lt hc)]
    rw [this] at hk; simp at hk
  have hm : (S.mrow i).getD k 0 = (S.regs.getD i []).getD k 0 := by
    unfold Spec.mrow Spec.regs at *
    rw [maskBuf_eq S.ρ h.perm S.n S.depth S.reps hd, getD_map_of_lt _ _ i hi [] []]
    exact maskRow_getD_lt _ _ k hk
  unfold lfOf
  rw [hm]
  exact Circ.catLeaf_ok _ _ _ (h.tbl_len i c k) (h.tbl_sum i c k)

/-- the unrolled circuit is valid (instance of `unroll_valid`) -/
theorem unrollT_valid (S : Spec α) (h : S.WF) (y : Nat) : Circ.Valid (fun _ => 2) (unrollT S y).toCirc := by
  obtain ⟨_, hd, _⟩ := (accepted_iff S.n S.depth).1 h.acc
  rw [unrollT_toCirc]
  exact unroll_valid_aux (fun _ => 2) S.ρ h.perm S.n S.depth S.reps S.batch S.rgSum hd h.reps_pos h.batch_pos
    h.sum_pos (lfOf S) (lfOf_leafOK S h) S.w h.w_len (S.wroot y) (h.root_len y)

/-- a predicate on nodes that holds at the base and is preserved by products and by the sums of every
layer holds at every inner node -/
theorem innerT_all (Q : TCirc α → Prop) (w : Nat → Nat → Nat → List α) (rgSum : Nat)
    (hprod : ∀ s cs, (∀ c ∈ cs, Q c) → Q (.prod s cs))
    (hsum : ∀ l j o s cs, (∀ c ∈ cs, Q c) → Q (.sum s (w l j o) cs)) :
    ∀ (k l : Nat) (T : Tab (TCirc α)), (∀ g t, Q (T.at_ g t)) → ∀ g t, Q ((innerT w rgSum k l T).at_ g t)
  | 0, _, T, h => by simpa [innerT] using h
  | 1, _, T, h => by
      intro g t
      simp only [innerT, prodT]
      apply hprod
      intro c hc
      simp only [List.mem_cons, List.not_mem_nil, or_false] at hc
      rcases hc with rfl | rfl <;> exact h _ _
  | k + 2, l, T, h => by
      simp only [innerT]
      apply innerT_all Q w rgSum hprod hsum (k + 1) (l + 1)
      intro g t
      simp only [sumT]
      apply hsum
      intro c hc
      obtain ⟨t', _, rfl⟩ := List.mem_map.1 hc
      simp only [prodT]
      apply hprod
      intro c hc
      simp only [List.mem_cons, List.not_mem_nil, or_false] at hc
      rcases hc with rfl | rfl <;> exact h _ _

theorem mem_flat {β : Type} (T : Tab β) {c : β} (h : c ∈ flat T) : ∃ g t, c = T.at_ g t := by
  unfold flat at h
  obtain ⟨g, _, hc⟩ := List.mem_flatMap.1 h
  obtain ⟨t, _, rfl⟩ := List.mem_map.1 hc
  exact ⟨g, t, rfl⟩

theorem unrollT_nonneg (S : Spec α) (h : S.WF) (y : Nat) : NonNeg (unrollT S y) := by
  unfold unrollT rootT
  unfold NonNeg
  refine ⟨h.root_nonneg y, ?_⟩
  intro c hc
  obtain ⟨g, t, rfl⟩ := mem_flat _ hc
  apply innerT_all NonNeg S.w S.rgSum
  · intro s cs hcs; unfold NonNeg; exact hcs
  · intro l j o s cs hcs; unfold NonNeg; exact ⟨h.w_nonneg l j o, hcs⟩
  · intro g t
    simp only [baseT, baseNodeT]
    unfold NonNeg
    intro c hc
    obtain ⟨k, _, rfl⟩ := List.mem_map.1 hc
    split
    · unfold dummyT NonNeg; intro e; exact zero_le_one
    · unfold bernT NonNeg; exact catLeafFn_nonneg _ _ (h.tbl_nonneg g t k)

theorem unrollT_leafExact (S : Spec α) (y : Nat) : LeafExact (unrollT S y) := by
  unfold unrollT rootT
  unfold LeafExact
  intro c hc
  obtain ⟨g, t, rfl⟩ := mem_flat _ hc
  apply innerT_all LeafExact S.w S.rgSum
  · intro s cs hcs; unfold LeafExact; exact hcs
  · intro l j o s cs hcs; unfold LeafExact; exact hcs
  · intro g t
    simp only [baseT, baseNodeT]
    unfold LeafExact
    intro c hc
    obtain ⟨k, _, rfl⟩ := List.mem_map.1 hc
    split
    · unfold dummyT LeafExact; intro e x _; simp
    · exact (C07_leaf _ _)
where
  C07_leaf (v : Nat) (tbl : List α) : LeafExact (bernT v tbl) := by
    unfold bernT LeafExact; exact catCond_exact v tbl

/-- `TCirc.eval` on `unrollT` is `Circ.eval` on `RatSpn.unroll` -/
theorem eval_unrollT (S : Spec α) (y : Nat) (e : Ev) : TCirc.eval e (unrollT S y) = Circ.eval e (circ S y) := by
  unfold TCirc.eval
  rw [unrollT_toCirc]

/-! ### shapes of one outcome of `RatSpn.sample` -/

theorem sampleDown_groups (ch : Nat → Nat → Nat) (rgSum g : Nat) :
    ∀ (k l m : Nat) (os : List Nat), (sampleDown ch rgSum k l m ([g], os)).1 = leafGroups g k
  | 0, _, _, os => by simp [sampleDown, leafGroups]
  | 1, _, _, os => by simp [sampleDown, prodDownI, prodDown, leafGroups]
  | k + 2, l, m, os => by
      simp only [sampleDown, prodDownI, prodDown, sumPick]
      rw [sampleDown_groups ch rgSum g (k + 1) (l + 1)]
      rfl

theorem mrow_len_of_lt (S : Spec α) (h : S.WF) (g : Nat) (hg : g < S.regs.length) :
    (S.mrow g).length = dimOf S.n S.depth := by
  obtain ⟨_, hd, _⟩ := (accepted_iff S.n S.depth).1 h.acc
  have hr : S.regs.getD g [] ∈ leafRegions S.ρ S.n S.depth S.reps := by
    unfold Spec.regs at hg ⊢
    rw [List.getD_eq_getElem?_getD, List.getElem?_eq_getElem hg]; exact List.getElem_mem hg
  unfold Spec.mrow
  unfold Spec.regs at hg hr ⊢
  rw [maskBuf_eq S.ρ h.perm S.n S.depth S.reps hd, getD_map_of_lt _ _ g hg [] []]
  exact maskRow_length _ _ (all_leaf_le_dim S.ρ h.perm S.n S.depth S.reps hd _ hr)


/-- every leaf of the unrolled circuit completes correctly with its mode -/
theorem unrollT_modeOK (S : Spec α) (y : Nat) : ModeOK (fun _ => 2) (unrollT S y) := by
  unfold unrollT rootT ModeOK FillOK
  intro c hc
  obtain ⟨g, t, rfl⟩ := mem_flat _ hc
  apply innerT_all (FillOK (fun _ => 2) mpeFill) S.w S.rgSum
  · intro s cs hcs; unfold FillOK; exact hcs
  · intro l j o s cs hcs; unfold FillOK; exact hcs
  · intro g t
    simp only [baseT, baseNodeT]
    unfold FillOK
    intro c hc
    obtain ⟨k, _, rfl⟩ := List.mem_map.1 hc
    split
    · unfold dummyT FillOK
      intro p
      exact ⟨fun x v hv => by simp at hv, fun x v hv => by simp at hv⟩
    · unfold bernT FillOK
      intro p
      exact bernMode_leafFill (fun _ => 2) _ _ rfl


end wf

end RatSample
end Deeprob
