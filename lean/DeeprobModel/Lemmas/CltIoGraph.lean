import DeeprobModel.Model.CltIo
import DeeprobModel.Lemmas.GraphOrderBfs
import Mathlib.Data.List.Count
set_option linter.unusedSimpArgs false
set_option linter.unusedVariables false
/-
C13 for binary Chow-Liu trees, part 1: the `nx.DiGraph` that `binary_clt_to_digraph` builds for a well-formed
tree, and the one `node_link_graph` rebuilds from its document, are the same canonical graph: node `i` with
its attributes and the successor list `children(i)` in index order.
-/
namespace Deeprob.GraphIo
open Deeprob Deeprob.Clt Deeprob.CltFit

/-- graph over the ids `0..n-1` given by attribute and successor functions -/
def Gn (n : Nat) (a : Nat → Option CAttr) (s : Nat → List Nat) : DiGraph :=
  (List.range n).map (fun i => { id := i, attr := a i, succ := s i })

theorem Gn_length (n : Nat) (a : Nat → Option CAttr) (s : Nat → List Nat) : (Gn n a s).length = n := by
  simp [Gn]

theorem hasNode_Gn (n : Nat) (a : Nat → Option CAttr) (s : Nat → List Nat) (i : Nat) :
    hasNode (Gn n a s) i = decide (i < n) := by
  unfold hasNode Gn
  rw [List.any_map]
  by_cases hi : i < n
  · simp only [hi, decide_true]
    rw [List.any_eq_true]
    exact ⟨i, List.mem_range.2 hi, by simp⟩
  · simp only [hi, decide_false]
    rw [Bool.eq_false_iff]
    intro hh
    rw [List.any_eq_true] at hh
    obtain ⟨x, hx, hxi⟩ := hh
    have h1 := List.mem_range.1 hx
    have h2 : x = i := by simpa using hxi
    omega

theorem Gn_congr {n : Nat} {a a' : Nat → Option CAttr} {s s' : Nat → List Nat}
    (ha : ∀ i, i < n → a i = a' i) (hs : ∀ i, i < n → s i = s' i) : Gn n a s = Gn n a' s' := by
  unfold Gn
  apply List.map_congr_left
  intro i hi
  have := List.mem_range.1 hi
  rw [ha i this, hs i this]

/-- the `add_node` loop -/
theorem addNode_loop (a : Nat → Option CAttr) : ∀ n,
    (List.range n).foldl (fun g i => addNode g i (a i)) [] = Gn n a (fun _ => [])
  | 0 => rfl
  | n + 1 => by
    rw [List.range_succ, List.foldl_append, addNode_loop a n]
    simp only [List.foldl_cons, List.foldl_nil]
    unfold addNode
    rw [hasNode_Gn]
    simp [Gn, List.range_succ]

/-- one `add_edge` between existing nodes -/
theorem addEdge_Gn (n : Nat) (a : Nat → Option CAttr) (s : Nat → List Nat) {u v : Nat} (hu : u < n) (hv : v < n)
    (hnew : v ∉ s u) :
    addEdge (Gn n a s) (u, v) = Gn n a (fun i => if i = u then s u ++ [v] else s i) := by
  unfold addEdge
  simp only [hasNode_Gn, hu, hv, decide_true, if_true]
  unfold Gn
  rw [List.map_map]
  apply List.map_congr_left
  intro i _
  simp only [Function.comp]
  by_cases hiu : i = u
  · subst hiu
    have : (s i).contains v = false := by simpa using hnew
    simp [this, hnew]
  · simp [hiu]

/-- a run of `add_edge` calls between existing nodes, no edge twice -/
theorem addEdge_fold (n : Nat) (a : Nat → Option CAttr) : ∀ (es : List (Nat × Nat)) (s : Nat → List Nat),
    (∀ e ∈ es, e.1 < n ∧ e.2 < n ∧ e.2 ∉ s e.1) → es.Nodup →
    es.foldl addEdge (Gn n a s) = Gn n a (fun i => s i ++ (es.filter (fun e => e.1 == i)).map (·.2))
  | [], s, _, _ => by simp
  | (u, v) :: es, s, hall, hnd => by
    rw [List.nodup_cons] at hnd
    obtain ⟨hu, hv, hnew⟩ := hall (u, v) (by simp)
    rw [List.foldl_cons, addEdge_Gn n a s hu hv hnew,
      addEdge_fold n a es _ (fun e he => by
        obtain ⟨h1, h2, h3⟩ := hall e (List.mem_cons_of_mem _ he)
        refine ⟨h1, h2, ?_⟩
        by_cases heu : e.1 = u
        · simp only [heu, if_true]
          intro hm
          rcases List.mem_append.1 hm with hm | hm
          · exact h3 (by rw [heu]; exact hm)
          · have : e.2 = v := by simpa using hm
            exact hnd.1 (by rw [← heu, ← this]; exact he)
        · simp only [heu, if_false]; exact h3) hnd.2]
    apply Gn_congr (fun _ _ => rfl)
    intro i _
    by_cases hiu : i = u
    · subst hiu; simp [List.filter_cons]
    · have : (u == i) = false := by simpa using (Ne.symm hiu)
      simp [hiu, List.filter_cons, this]

/-! ### the two edge lists -/

section tree
variable {tree : List Int} {r : Nat} (h : WF tree r)

/-- the `add_edge` calls of `binary_clt_to_digraph`, in order -/
def encEdges (tree : List Int) : List (Nat × Nat) :=
  (List.range tree.length).filterMap (fun i =>
    if tree.getD i (-1) = -1 then none else some ((tree.getD i (-1)).toNat, i))

theorem zipIdx_eq_map_range (tree : List Int) :
    tree.zipIdx = (List.range tree.length).map (fun i => (tree.getD i (-1), i)) := by
  apply List.ext_getElem
  · simp
  · intro i h1 h2
    have hi : i < tree.length := by simpa using h1
    simp [List.getD_eq_getElem?_getD, hi]

theorem encEdge_fold (tree : List Int) (g : DiGraph) :
    tree.zipIdx.foldl encEdge g = (encEdges tree).foldl addEdge g := by
  unfold encEdges
  rw [List.foldl_filterMap, zipIdx_eq_map_range, List.foldl_map]
  congr 1
  funext g i
  show encEdge g (tree.getD i (-1), i) = _
  unfold encEdge
  generalize tree.getD i (-1) = x
  by_cases hi : x = -1
  · simp only [hi, if_true]
  · simp only [hi, if_false]

include h in
theorem WF.encEdges_filter {j : Nat} :
    ((encEdges tree).filter (fun e => e.1 == j)).map (·.2) = Clt.childrenOf tree j := by
  unfold encEdges Clt.childrenOf
  rw [List.filter_filterMap, List.map_filterMap, ← List.filterMap_eq_filter]
  apply List.filterMap_congr
  intro i hi
  have hil := List.mem_range.1 hi
  have hmem : tree.getD i (-1) ∈ tree := by
    rw [List.getD_eq_getElem?_getD, List.getElem?_eq_getElem hil]; simp
  have hx := h.entriesOK _ hmem
  unfold Option.guard
  beta_reduce
  revert hx
  generalize tree.getD i (-1) = x
  intro hx
  rcases hx with he | ⟨he0, _⟩
  · subst he
    have : ¬ ((-1 : Int) = (j : Int)) := by omega
    simp [this]
  · have hne : x ≠ -1 := by omega
    by_cases hj : x = (j : Int)
    · have : x.toNat = j := by omega
      simp [hne, Option.filter, hj]
    · have : ¬ (x.toNat = j) := by omega
      simp [hne, Option.filter, hj, this]

theorem encEdges_snd (tree : List Int) :
    (encEdges tree).map (·.2) = (List.range tree.length).filter (fun i => tree.getD i (-1) != -1) := by
  unfold encEdges
  rw [List.map_filterMap, ← List.filterMap_eq_filter]
  apply List.filterMap_congr
  intro i _
  unfold Option.guard
  beta_reduce
  generalize tree.getD i (-1) = x
  by_cases hi : x = -1 <;> simp [hi]

theorem encEdges_nodup (tree : List Int) : (encEdges tree).Nodup := by
  apply List.Nodup.of_map (·.2)
  rw [encEdges_snd]
  exact List.Nodup.filter _ List.nodup_range

include h in
theorem WF.encEdges_lt : ∀ e ∈ encEdges tree, e.1 < tree.length ∧ e.2 < tree.length := by
  intro e he
  unfold encEdges at he
  rw [List.mem_filterMap] at he
  obtain ⟨i, hi, hie⟩ := he
  have hil := List.mem_range.1 hi
  have hmem : tree.getD i (-1) ∈ tree := by
    rw [List.getD_eq_getElem?_getD, List.getElem?_eq_getElem hil]; simp
  have hx := h.entriesOK _ hmem
  revert hx hie
  generalize tree.getD i (-1) = x
  intro hie hx
  by_cases hne : x = -1
  · rw [if_pos hne] at hie; cases hie
  · rw [if_neg hne] at hie
    cases hie
    rcases hx with he | ⟨_, he1⟩
    · exact absurd he hne
    · exact ⟨he1, hil⟩

/-- `G.edges()` of the canonical graph -/
def docEdges (tree : List Int) : List (Nat × Nat) :=
  (List.range tree.length).flatMap (fun p => (Clt.childrenOf tree p).map (fun c => (p, c)))

theorem flatMap_ite_range {β : Type} (L : Nat → List β) : ∀ (n j : Nat), j < n →
    (List.range n).flatMap (fun p => if p = j then L p else []) = L j
  | 0, j, hj => by omega
  | n + 1, j, hj => by
    rw [List.range_succ, List.flatMap_append]
    simp only [List.flatMap_cons, List.flatMap_nil, List.append_nil]
    by_cases hjn : j = n
    · subst hjn
      have : (List.range j).flatMap (fun p => if p = j then L p else []) = [] := by
        rw [List.flatMap_eq_nil_iff]
        intro p hp
        have := List.mem_range.1 hp
        simp [show p ≠ j by omega]
      simp [this]
    · rw [flatMap_ite_range L n j (by omega)]
      simp [show n ≠ j by omega]

theorem docEdges_filter (tree : List Int) {j : Nat} (hj : j < tree.length) :
    ((docEdges tree).filter (fun e => e.1 == j)).map (·.2) = Clt.childrenOf tree j := by
  unfold docEdges
  rw [List.filter_flatMap, List.map_flatMap]
  have : (fun p => (((Clt.childrenOf tree p).map (fun c => (p, c))).filter (fun e => e.1 == j)).map (·.2)) =
      (fun p => if p = j then Clt.childrenOf tree p else []) := by
    funext p
    by_cases hp : p = j
    · subst hp
      rw [List.filter_eq_self.2 (by simp)]
      simp [List.map_map, Function.comp_def]
    · rw [List.filter_eq_nil_iff.2 (by simp [hp])]
      simp [hp]
  rw [this, flatMap_ite_range _ _ _ hj]

theorem docEdges_nodup (tree : List Int) : (docEdges tree).Nodup := by
  unfold docEdges
  rw [List.nodup_flatMap]
  refine ⟨fun p _ => (childrenOf_nodup tree p).map (fun a b hab => by simpa using hab), ?_⟩
  apply List.nodup_range.imp
  intro p p' hne
  simp only [Function.onFun]
  intro e he he'
  rw [List.mem_map] at he he'
  obtain ⟨c, _, rfl⟩ := he
  obtain ⟨c', _, hc'⟩ := he'
  exact hne (by simpa using (congrArg Prod.fst hc').symm)

theorem docEdges_lt (tree : List Int) : ∀ e ∈ docEdges tree, e.1 < tree.length ∧ e.2 < tree.length := by
  intro e he
  unfold docEdges at he
  rw [List.mem_flatMap] at he
  obtain ⟨p, hp, he⟩ := he
  rw [List.mem_map] at he
  obtain ⟨c, hc, rfl⟩ := he
  exact ⟨List.mem_range.1 hp, (mem_childrenOf_iff.1 hc).1⟩

end tree

/-! ### the canonical graph -/

/-- node `i` ↦ attributes of variable `i`, successors = children in index order -/
def canon (o : CltObj) : DiGraph :=
  Gn o.tree.length (fun i => some (nodeAttr o i)) (Clt.childrenOf o.tree)

theorem edgesOf_canon (o : CltObj) : edgesOf (canon o) = docEdges o.tree := by
  unfold edgesOf canon Gn docEdges
  rw [List.flatMap_map]

theorem cltToDigraph_eq {o : CltObj} {r : Nat} (h : WF o.tree r) (hs : o.scope.length = o.tree.length)
    (hp : o.params.length = o.tree.length) : cltToDigraph o = some (canon o) := by
  unfold cltToDigraph
  have hany : o.tree.any (fun p => decide (p < -1)) = false := by
    rw [Bool.eq_false_iff]
    intro hh
    rw [List.any_eq_true] at hh
    obtain ⟨x, hx, hlt⟩ := hh
    have hlt' : x < -1 := by simpa using hlt
    rcases h.entriesOK x hx with he | ⟨he, _⟩ <;> omega
  rw [hany, hs, hp]
  simp only [Bool.false_or, Nat.lt_irrefl, decide_false, Bool.or_self]
  rw [if_neg (by simp)]
  congr 1
  rw [addNode_loop, encEdge_fold,
    addEdge_fold _ _ _ _ (fun e he => ⟨(h.encEdges_lt e he).1, (h.encEdges_lt e he).2, by simp⟩) (encEdges_nodup _)]
  unfold canon
  apply Gn_congr (fun _ _ => rfl)
  intro i _
  simp only [List.nil_append]
  exact h.encEdges_filter

theorem graphOfDoc_canon (o : CltObj) : graphOfDoc (docOfGraph (canon o)) = canon o := by
  unfold graphOfDoc docOfGraph
  simp only
  rw [edgesOf_canon]
  have hnodes : (canon o).map (fun x => (x.id, x.attr)) =
      (List.range o.tree.length).map (fun i => (i, some (nodeAttr o i))) := by
    unfold canon Gn; rw [List.map_map]; rfl
  rw [hnodes, List.foldl_map, addNode_loop (fun i => some (nodeAttr o i)),
    addEdge_fold _ _ _ _ (fun e he => ⟨(docEdges_lt _ e he).1, (docEdges_lt _ e he).2, by simp⟩) (docEdges_nodup _)]
  unfold canon
  apply Gn_congr (fun _ _ => rfl)
  intro i hi
  simp only [List.nil_append]
  exact docEdges_filter _ hi

end Deeprob.GraphIo
