import DeeprobModel.Model.CltFit
import Mathlib.Combinatorics.SimpleGraph.Acyclic
import Mathlib.Algebra.BigOperators.Group.Finset.Basic
import Mathlib.Algebra.Order.BigOperators.Group.Finset
import Mathlib.Logic.Relation
/-
C11 part 3: maximum spanning trees via the cycle property (exchange argument).

Representation: a graph on a finite vertex type `V` is a `Finset (Sym2 V)` of undirected edges;
reachability is the reflexive-transitive closure of "joined by an edge of `T`".
A *spanning tree* is a connected edge set with at most `|V| - 1` edges (equivalently, by
`IsSpanTree.isTree` and `isSpanTree_of_isTree`, Mathlib's `SimpleGraph.IsTree` of the graph it generates).
The only imported graph-theoretic fact is Mathlib's
`SimpleGraph.Connected.card_vert_le_card_edgeSet_add_one` (a connected graph has ≥ |V|-1 edges).
-/
open Relation

namespace Deeprob
namespace SpanTree

variable {V : Type} [Fintype V] [DecidableEq V]

/-- `a` and `b` are joined by a walk along edges of `T` -/
def Reach (T : Finset (Sym2 V)) : V → V → Prop := ReflTransGen (fun a b => s(a, b) ∈ T)

/-- connected, with at most `|V| - 1` edges -/
def IsSpanTree (T : Finset (Sym2 V)) : Prop :=
  (∀ a b, Reach T a b) ∧ T.card + 1 ≤ Fintype.card V

omit [Fintype V] [DecidableEq V] in
theorem rtg_mono {r p : V → V → Prop} (h : ∀ a b, r a b → p a b) {a b : V}
    (hab : ReflTransGen r a b) : ReflTransGen p a b := by
  induction hab with
  | refl => exact .refl
  | tail _ hbc ih => exact ih.tail (h _ _ hbc)

omit [Fintype V] [DecidableEq V] in
theorem rtg_symm {r : V → V → Prop} (hs : ∀ a b, r a b → r b a) {a b : V}
    (hab : ReflTransGen r a b) : ReflTransGen r b a := by
  induction hab with
  | refl => exact .refl
  | tail _ hbc ih => exact ReflTransGen.head (hs _ _ hbc) ih

omit [Fintype V] [DecidableEq V] in
theorem Reach.symm {T : Finset (Sym2 V)} {a b : V} (h : Reach T a b) : Reach T b a :=
  rtg_symm (fun x y (hxy : s(x, y) ∈ T) => show s(y, x) ∈ T by rwa [Sym2.eq_swap]) h

omit [Fintype V] [DecidableEq V] in
theorem Reach.mono {T T' : Finset (Sym2 V)} (hsub : T ⊆ T') {a b : V} (h : Reach T a b) : Reach T' a b :=
  rtg_mono (fun _ _ hxy => hsub hxy) h

omit [Fintype V] [DecidableEq V] in
/-- a walk from inside `A` to outside `A` uses an edge that leaves `A` -/
theorem crossing {r : V → V → Prop} {A : V → Prop} {u v : V} (h : ReflTransGen r u v)
    (hu : A u) (hv : ¬ A v) : ∃ x y, r x y ∧ A x ∧ ¬ A y := by
  induction h with
  | refl => exact absurd hu hv
  | @tail b c hab hbc ih =>
    by_cases hb : A b
    · exact ⟨b, c, hbc, hb, hv⟩
    · exact ih hb

omit [DecidableEq V] in
/-- a connected graph has at least `|V| - 1` edges (Mathlib, transported to edge finsets) -/
theorem connected_card (T : Finset (Sym2 V)) (hconn : ∀ a b, Reach T a b) :
    Fintype.card V ≤ T.card + 1 := by
  classical
  rcases isEmpty_or_nonempty V with hV | hV
  · simp
  let G : SimpleGraph V := SimpleGraph.fromEdgeSet (T : Set (Sym2 V))
  have hG : G.Connected := by
    refine ⟨fun a b => ?_⟩
    have h := hconn a b
    induction h with
    | refl => exact SimpleGraph.Reachable.refl _
    | @tail b c _ hbc ih =>
      by_cases hbc' : b = c
      · subst hbc'; exact ih
      · exact ih.trans (SimpleGraph.Adj.reachable (by
          rw [SimpleGraph.fromEdgeSet_adj]; exact ⟨by simpa using hbc, hbc'⟩))
  have h1 := hG.card_vert_le_card_edgeSet_add_one
  rw [Nat.card_eq_fintype_card] at h1
  have h2 : Nat.card G.edgeSet ≤ T.card := by
    have hsub : G.edgeSet ⊆ (T : Set (Sym2 V)) := by
      rw [SimpleGraph.edgeSet_fromEdgeSet]; exact Set.sdiff_subset
    calc Nat.card G.edgeSet ≤ Nat.card (T : Set (Sym2 V)) :=
          Nat.card_mono (Finset.finite_toSet T) hsub
      _ = T.card := by simp
  omega

omit [Fintype V] in
/-- after deleting the edge `s(u,v)`, every vertex reachable from `u` stays attached to `u` or to `v` -/
theorem split_erase (T : Finset (Sym2 V)) (u v z : V) (h : Reach T u z) :
    Reach (T.erase s(u, v)) u z ∨ Reach (T.erase s(u, v)) v z := by
  induction h with
  | refl => exact Or.inl ReflTransGen.refl
  | @tail b c _ hbc ih =>
    by_cases he : s(b, c) = s(u, v)
    · rcases Sym2.eq_iff.mp he with ⟨_, rfl⟩ | ⟨_, rfl⟩
      · exact Or.inr ReflTransGen.refl
      · exact Or.inl ReflTransGen.refl
    · have hm : s(b, c) ∈ T.erase s(u, v) := Finset.mem_erase.mpr ⟨he, hbc⟩
      rcases ih with h1 | h1
      · exact Or.inl (h1.tail hm)
      · exact Or.inr (h1.tail hm)

variable {α : Type} [AddCommMonoid α] [LinearOrder α] [IsOrderedAddMonoid α]

/-- **cycle property**: every non-tree edge `{u,v}` is joined inside `T` by a walk all of whose edges are
at least as heavy as `{u,v}` -/
def CycleProp (w : Sym2 V → α) (T : Finset (Sym2 V)) : Prop :=
  ∀ u v, u ≠ v → s(u, v) ∉ T → ReflTransGen (fun a b => s(a, b) ∈ T ∧ w s(u, v) ≤ w s(a, b)) u v

/-- one exchange step: a spanning tree `T'` containing a non-`T` edge can be modified into a spanning
tree that is no lighter and has one more edge in common with `T` -/
theorem exchange_step (w : Sym2 V → α) (T : Finset (Sym2 V)) (hc : CycleProp w T)
    (T' : Finset (Sym2 V)) (hT' : IsSpanTree T') (e : Sym2 V) (heT' : e ∈ T') (heT : e ∉ T) :
    ∃ T'', IsSpanTree T'' ∧ T'' \ T = (T' \ T).erase e ∧ ∑ x ∈ T', w x ≤ ∑ x ∈ T'', w x := by
  induction e using Sym2.ind with
  | h u v =>
  let E := T'.erase s(u, v)
  have hcardE : E.card + 1 = T'.card := by
    have := Finset.card_erase_of_mem heT'
    have : 0 < T'.card := Finset.card_pos.mpr ⟨_, heT'⟩
    show (T'.erase s(u, v)).card + 1 = T'.card
    omega
  have hdich : ∀ z, Reach E u z ∨ Reach E v z := fun z => split_erase T' u v z (hT'.1 u z)
  -- `v` is cut off from `u`
  have hv : ¬ Reach E u v := by
    intro huv
    have hall : ∀ z, Reach E u z := fun z => by
      rcases hdich z with h | h
      · exact h
      · exact ReflTransGen.trans huv h
    have hconn : ∀ a b, Reach E a b := fun a b => ReflTransGen.trans (hall a).symm (hall b)
    have := connected_card E hconn
    have := hT'.2
    omega
  have hne : u ≠ v := by rintro rfl; exact hv ReflTransGen.refl
  -- the heavy `T`-walk from `u` to `v` leaves the component of `u`
  obtain ⟨x, y, ⟨hxyT, hwxy⟩, hx, hy⟩ := crossing (A := fun z => Reach E u z) (hc u v hne heT)
    ReflTransGen.refl hv
  have hfE : s(x, y) ∉ E := fun hm => hy (ReflTransGen.tail hx hm)
  have hfe : s(x, y) ≠ s(u, v) := fun h => heT (h ▸ hxyT)
  have hfT' : s(x, y) ∉ T' := fun hm => hfE (Finset.mem_erase.mpr ⟨hfe, hm⟩)
  refine ⟨insert s(x, y) E, ⟨?_, ?_⟩, ?_, ?_⟩
  · -- connected
    have hsub : E ⊆ insert s(x, y) E := Finset.subset_insert _ _
    have hyv : Reach E v y := (hdich y).resolve_left hy
    have huv : Reach (insert s(x, y) E) u v :=
      ReflTransGen.trans (ReflTransGen.tail (Reach.mono hsub hx) (Finset.mem_insert_self _ _))
        (Reach.mono hsub hyv).symm
    have hall : ∀ z, Reach (insert s(x, y) E) u z := fun z => by
      rcases hdich z with h | h
      · exact Reach.mono hsub h
      · exact ReflTransGen.trans huv (Reach.mono hsub h)
    exact fun a b => ReflTransGen.trans (hall a).symm (hall b)
  · rw [Finset.card_insert_of_notMem hfE, hcardE]; exact hT'.2
  · ext g
    simp only [Finset.mem_sdiff, Finset.mem_insert, Finset.mem_erase, E]
    constructor
    · rintro ⟨h1 | ⟨h1, h2⟩, h3⟩
      · exact absurd (h1 ▸ hxyT) h3
      · exact ⟨h1, h2, h3⟩
    · rintro ⟨h1, h2, h3⟩
      exact ⟨Or.inr ⟨h1, h2⟩, h3⟩
  · rw [Finset.sum_insert hfE, ← Finset.add_sum_erase T' w heT']
    exact add_le_add_left hwxy _

omit [DecidableEq V] in
/-- **Maximum spanning tree ⇐ cycle property.** A spanning tree satisfying the cycle property is at least
as heavy as every spanning tree on the same vertices. -/
theorem cycleProp_max (w : Sym2 V → α) (T : Finset (Sym2 V)) (hT : IsSpanTree T) (hc : CycleProp w T) :
    ∀ T' : Finset (Sym2 V), IsSpanTree T' → ∑ e ∈ T', w e ≤ ∑ e ∈ T, w e := by
  classical
  intro T' hT'
  generalize hk : (T' \ T).card = k
  induction k generalizing T' with
  | zero =>
    have hsub : T' ⊆ T := Finset.sdiff_eq_empty_iff_subset.mp (Finset.card_eq_zero.mp hk)
    have h1 := connected_card T' hT'.1
    have h2 := hT.2
    have : T' = T := Finset.eq_of_subset_of_card_le hsub (by omega)
    rw [this]
  | succ k ih =>
    obtain ⟨e, he⟩ : (T' \ T).Nonempty := Finset.card_pos.mp (by omega)
    obtain ⟨heT', heT⟩ := Finset.mem_sdiff.mp he
    obtain ⟨T'', hT'', hdiff, hw⟩ := exchange_step w T hc T' hT' e heT' heT
    have hk' : (T'' \ T).card = k := by
      rw [hdiff, Finset.card_erase_of_mem he, hk]; rfl
    exact le_trans hw (ih T'' hT'' hk')


/-! ### agreement with Mathlib's `SimpleGraph.IsTree` -/

omit [Fintype V] [DecidableEq V] in
theorem connected_fromEdgeSet [Nonempty V] (T : Finset (Sym2 V)) (hconn : ∀ a b, Reach T a b) :
    (SimpleGraph.fromEdgeSet (T : Set (Sym2 V))).Connected := by
  refine ⟨fun a b => ?_⟩
  have h := hconn a b
  induction h with
  | refl => exact SimpleGraph.Reachable.refl _
  | @tail b c _ hbc ih =>
    by_cases hbc' : b = c
    · subst hbc'; exact ih
    · exact ih.trans (SimpleGraph.Adj.reachable (by
        rw [SimpleGraph.fromEdgeSet_adj]; exact ⟨by simpa using hbc, hbc'⟩))

omit [DecidableEq V] in
/-- a spanning tree in the sense of this file generates a Mathlib tree -/
theorem IsSpanTree.isTree {T : Finset (Sym2 V)} (h : IsSpanTree T) :
    (SimpleGraph.fromEdgeSet (T : Set (Sym2 V))).IsTree := by
  classical
  have hV : Nonempty V := by
    have := h.2
    exact Fintype.card_pos_iff.mp (by omega)
  rw [SimpleGraph.isTree_iff_connected_and_card]
  have hG := connected_fromEdgeSet T h.1
  refine ⟨hG, ?_⟩
  have h1 := hG.card_vert_le_card_edgeSet_add_one
  have h2 : Nat.card (SimpleGraph.fromEdgeSet (T : Set (Sym2 V))).edgeSet ≤ T.card := by
    have hsub : (SimpleGraph.fromEdgeSet (T : Set (Sym2 V))).edgeSet ⊆ (T : Set (Sym2 V)) := by
      rw [SimpleGraph.edgeSet_fromEdgeSet]; exact Set.sdiff_subset
    calc _ ≤ Nat.card (T : Set (Sym2 V)) := Nat.card_mono (Finset.finite_toSet T) hsub
      _ = T.card := by simp
  have h3 := h.2
  have h4 : Nat.card V = Fintype.card V := Nat.card_eq_fintype_card
  omega

omit [DecidableEq V] in
/-- every Mathlib tree on `V` is a spanning tree in the sense of this file (so `cycleProp_max`
quantifies over all of them) -/
theorem isSpanTree_of_isTree (G : SimpleGraph V) [DecidableRel G.Adj] (h : G.IsTree) :
    IsSpanTree G.edgeFinset := by
  refine ⟨fun a b => ?_, ?_⟩
  · obtain ⟨p⟩ := h.connected.preconnected a b
    induction p with
    | nil => exact .refl
    | cons hadj _ ih =>
      exact ReflTransGen.head (by simpa [SimpleGraph.mem_edgeFinset] using hadj) ih
  · have := h.card_edgeFinset
    omega

end SpanTree
end Deeprob
