import DeeprobModel.Model.Io
import Mathlib.Data.List.Basic
import Mathlib.Data.List.Perm.Basic
import Mathlib.Data.List.Nodup
import Mathlib.Data.List.Range
set_option linter.unusedSimpArgs false
set_option linter.unusedVariables false
/-
`decode ∘ encode` on node-link documents: placement of children by `idx` is order-independent, a simple
digraph keeps every edge when no (child, parent) pair repeats.
-/
namespace Deeprob

theorem place_length (l : List (Option Nat)) (i c : Nat) : (place l i c).length = max l.length (i+1) := by
  unfold place; simp only [List.length_set, List.length_append, List.length_replicate]; omega

theorem place_getD (l : List (Option Nat)) (i c j : Nat) :
    (place l i c).getD j none = if j = i then some c else l.getD j none := by
  unfold place
  rw [List.getD_eq_getElem?_getD, List.getElem?_set]
  by_cases h : i = j
  · subst h
    have : i < (l ++ List.replicate (i + 1 - l.length) none).length := by
      simp only [List.length_append, List.length_replicate]; omega
    rw [if_pos rfl, if_pos this, if_pos rfl]; rfl
  · rw [if_neg h, if_neg (fun hc => h hc.symm), List.getElem?_append, List.getD_eq_getElem?_getD]
    by_cases hj : j < l.length
    · rw [if_pos hj]
    · rw [if_neg hj, List.getElem?_replicate]
      have : l[j]? = none := List.getElem?_eq_none (by omega)
      rw [this]; split <;> rfl

/-- fill one children list from the links into one parent -/
def placeAll (l : List (Option Nat)) (es : List Edge) : List (Option Nat) :=
  es.foldl (fun l e => place l e.idx e.child) l

theorem placeAll_getD (es : List Edge) (hnd : (es.map (·.idx)).Nodup) (l : List (Option Nat)) (j : Nat) :
    (placeAll l es).getD j none = match es.find? (fun e => e.idx == j) with
      | some e => some e.child
      | none => l.getD j none := by
  induction es generalizing l with
  | nil => simp [placeAll]
  | cons e es ih =>
    simp only [List.map_cons, List.nodup_cons] at hnd
    have := ih hnd.2 (place l e.idx e.child)
    unfold placeAll at this ⊢
    simp only [List.foldl_cons]
    rw [this, List.find?_cons]
    by_cases h : e.idx = j
    · subst h
      have hnone : es.find? (fun e' => e'.idx == e.idx) = none := by
        rw [List.find?_eq_none]; intro x hx hc
        exact hnd.1 (List.mem_map.2 ⟨x, hx, by simpa using hc⟩)
      simp only [beq_self_eq_true, hnone]
      rw [place_getD, if_pos rfl]
    · have hb : (e.idx == j) = false := by simpa using h
      rw [hb]
      cases hf : es.find? (fun e' => e'.idx == j) with
      | some e' => rfl
      | none => simp only [place_getD]; rw [if_neg (fun hc => h hc.symm)]

theorem placeAll_length (es : List Edge) (l : List (Option Nat)) :
    l.length ≤ (placeAll l es).length ∧ (∀ e ∈ es, e.idx + 1 ≤ (placeAll l es).length) ∧
    ((placeAll l es).length = l.length ∨ ∃ e ∈ es, (placeAll l es).length = e.idx + 1) := by
  induction es generalizing l with
  | nil => simp [placeAll]
  | cons e es ih =>
    obtain ⟨h1, h2, h3⟩ := ih (place l e.idx e.child)
    unfold placeAll at h1 h2 h3 ⊢
    simp only [List.foldl_cons]
    rw [place_length] at h1 h3
    refine ⟨by omega, ?_, ?_⟩
    · intro e' he'
      rcases List.mem_cons.1 he' with rfl | he'
      · omega
      · exact h2 e' he'
    · rcases h3 with h3 | ⟨e', he', h3⟩
      · by_cases hm : l.length ≤ e.idx + 1
        · right; exact ⟨e, List.mem_cons_self, by omega⟩
        · left; omega
      · right; exact ⟨e', List.mem_cons_of_mem _ he', h3⟩

theorem mem_nodeEdges (n : MNode) (e : Edge) :
    e ∈ nodeEdges n ↔ e.parent = n.id ∧ n.ch[e.idx]? = some e.child := by
  unfold nodeEdges
  simp only [List.mem_map, List.mem_zipIdx_iff_getElem?]
  constructor
  · rintro ⟨⟨c, i⟩, h, rfl⟩; exact ⟨rfl, h⟩
  · rintro ⟨h1, h2⟩; exact ⟨(e.child, e.idx), h2, by cases e; simp_all⟩

theorem nodeEdges_idx (n : MNode) : (nodeEdges n).map (·.idx) = List.range n.ch.length := by
  unfold nodeEdges
  rw [List.map_map]
  have : ((fun e : Edge => e.idx) ∘ fun ci : Nat × Nat => ({ child := ci.1, parent := n.id, idx := ci.2 } : Edge)) = Prod.snd := by
    funext ci; rfl
  rw [this, List.zipIdx_map_snd, List.range_eq_range']

/-- **placement is order-independent**: the links into one node, in any order, rebuild its children list -/
theorem placeAll_perm (n : MNode) (es : List Edge) (hp : es.Perm (nodeEdges n)) :
    placeAll [] es = n.ch.map some := by
  have hnd : (es.map (·.idx)).Nodup := by
    rw [(hp.map _).nodup_iff, nodeEdges_idx]; exact List.nodup_range
  have hmem : ∀ e, e ∈ es ↔ e.parent = n.id ∧ n.ch[e.idx]? = some e.child := by
    intro e; rw [hp.mem_iff]; exact mem_nodeEdges n e
  have hlen : (placeAll [] es).length = n.ch.length := by
    obtain ⟨_, h2, h3⟩ := placeAll_length es []
    apply le_antisymm
    · rcases h3 with h3 | ⟨e, he, h3⟩
      · rw [h3]; simp
      · rw [h3]
        have := ((hmem e).1 he).2
        have hlt : e.idx < n.ch.length := by
          by_contra hc; rw [List.getElem?_eq_none (by omega)] at this; cases this
        omega
    · by_contra hc
      have hpos : 0 < n.ch.length := by omega
      have hk : n.ch.length - 1 < n.ch.length := by omega
      have he : ({ child := n.ch[n.ch.length - 1], parent := n.id, idx := n.ch.length - 1 } : Edge) ∈ es := by
        rw [hmem]; exact ⟨rfl, by simp [hk]⟩
      have := h2 _ he
      simp only at this; omega
  apply List.ext_getElem?
  intro j
  by_cases hj : j < n.ch.length
  · have hj' : j < (placeAll [] es).length := by omega
    have hget : (placeAll [] es)[j]? = some ((placeAll [] es).getD j none) := by
      rw [List.getD_eq_getElem?_getD, List.getElem?_eq_getElem hj']; rfl
    rw [hget, placeAll_getD es hnd [] j]
    have hin : ({ child := n.ch[j], parent := n.id, idx := j } : Edge) ∈ es := by
      rw [hmem]; exact ⟨rfl, by simp [hj]⟩
    cases hf : es.find? (fun e => e.idx == j) with
    | none =>
      rw [List.find?_eq_none] at hf
      exact absurd (by simp) (hf _ hin)
    | some e =>
      have h1 : e.idx = j := by simpa using List.find?_some hf
      have h2 := ((hmem e).1 (List.mem_of_find?_eq_some hf)).2
      rw [h1] at h2
      simp only [List.getElem?_map, h2, Option.map_some]
  · rw [List.getElem?_eq_none (by omega), List.getElem?_eq_none (by simp; omega)]

theorem allSome_map_some (l : List Nat) : allSome (l.map some) = some l := by
  induction l with
  | nil => rfl
  | cons x xs ih => simp [allSome, ih]

/-- two links between different (child, parent) pairs -/
def DiffPair (a b : Edge) : Prop := ¬ (a.child = b.child ∧ a.parent = b.parent)

theorem foldl_addEdge (es acc : List Edge) (h : (acc ++ es).Pairwise DiffPair) :
    es.foldl addEdge acc = acc ++ es := by
  induction es generalizing acc with
  | nil => simp
  | cons e es ih =>
    simp only [List.foldl_cons]
    have hnot : acc.any (fun x => x.child == e.child && x.parent == e.parent) = false := by
      rw [List.any_eq_false]; intro x hx hc
      rw [List.pairwise_append] at h
      have := h.2.2 x hx e List.mem_cons_self
      apply this
      simpa using hc
    have : addEdge acc e = acc ++ [e] := by unfold addEdge; rw [hnot]; simp
    rw [this, ih (acc ++ [e]) (by simpa using h)]
    simp

/-- ids are distinct and no node lists a child twice -/
structure NoRepeat (m : Model) : Prop where
  ids : (m.map (·.id)).Nodup
  children : ∀ n ∈ m, n.ch.Nodup

theorem insertedEdges_pairwise (m : Model) (h : NoRepeat m) : (insertedEdges m).Pairwise DiffPair := by
  unfold insertedEdges
  rw [List.pairwise_flatMap]
  constructor
  · intro n hn
    unfold nodeEdges
    rw [List.pairwise_map]
    have hnd := h.children n hn
    have : n.ch.zipIdx.Pairwise (fun a b => a.1 ≠ b.1) := by
      have h1 : (n.ch.zipIdx.map Prod.fst).Nodup := by rw [List.zipIdx_map_fst]; exact hnd
      rw [List.Nodup, List.pairwise_map] at h1; exact h1
    exact this.imp (fun hab hc => hab hc.1)
  · have hids := h.ids
    rw [List.Nodup, List.pairwise_map] at hids
    refine hids.imp ?_
    intro a b hab x hx y hy hc
    rw [mem_nodeEdges] at hx hy
    exact hab (by rw [← hx.1, ← hy.1]; exact hc.2)

theorem encode_edges (m : Model) (h : NoRepeat m) : (encode m).edges = insertedEdges m := by
  unfold encode
  simp only
  rw [foldl_addEdge _ [] (by simpa using insertedEdges_pairwise m h)]; simp

theorem filter_insertedEdges (m : Model) (hids : (m.map (·.id)).Nodup) (n : MNode) (hn : n ∈ m) :
    (insertedEdges m).filter (fun e => e.parent == n.id) = nodeEdges n := by
  unfold insertedEdges
  induction m with
  | nil => cases hn
  | cons a m ih =>
    simp only [List.map_cons, List.nodup_cons] at hids
    simp only [List.flatMap_cons, List.filter_append]
    have hself : ∀ x : MNode, (nodeEdges x).filter (fun e => e.parent == x.id) = nodeEdges x := by
      intro x; rw [List.filter_eq_self]; intro e he; simpa using ((mem_nodeEdges x e).1 he).1
    have hother : ∀ x : MNode, x.id ≠ n.id → (nodeEdges x).filter (fun e => e.parent == n.id) = [] := by
      intro x hx; rw [List.filter_eq_nil_iff]; intro e he hc
      exact hx (by rw [← ((mem_nodeEdges x e).1 he).1]; simpa using hc)
    rcases List.mem_cons.1 hn with rfl | hn'
    · rw [hself]
      have : (m.flatMap nodeEdges).filter (fun e => e.parent == n.id) = [] := by
        rw [List.filter_flatMap, List.flatMap_eq_nil_iff]
        intro x hx; apply hother
        intro hc; exact hids.1 (List.mem_map.2 ⟨x, hx, hc⟩)
      rw [this]; simp
    · have hne : a.id ≠ n.id := fun hc => hids.1 (List.mem_map.2 ⟨n, hn', hc.symm⟩)
      rw [hother a hne, ih hids.2 hn']; simp

theorem mapM_some {β γ : Type} (l : List β) (f : β → Option γ) (g : β → γ) (h : ∀ x ∈ l, f x = some (g x)) :
    l.mapM f = some (l.map g) := by
  induction l with
  | nil => rfl
  | cons x xs ih =>
    rw [List.mapM_cons, h x List.mem_cons_self, ih (fun y hy => h y (List.mem_cons_of_mem _ hy))]
    rfl

/-- auxiliary: the node a document node decodes to, with the children of the model node of the same id -/
def rebuild (m : Model) (d : DocNode) : MNode :=
  { id := d.id, cls := d.cls, scope := d.scope, weights := d.weights, params := d.params,
    ch := (match m.find? (fun n => n.id == d.id) with
      | some n => n.ch
      | none => []) }

/-- the round trip on any re-ordering of the links -/
theorem decode_perm_encode (m : Model) (h : NoRepeat m) (es : List Edge) (hp : es.Perm (encode m).edges) :
    decode { nodes := (encode m).nodes, edges := es } = some (m.map roundNode) := by
  rw [encode_edges m h] at hp
  unfold decode encode
  simp only
  rw [mapM_some (m.map encodeNode) _ (rebuild m)]
  · congr 1
    rw [List.map_map]
    apply List.map_congr_left
    intro n hn
    have hfind : m.find? (fun x => x.id == n.id) = some n := by
      have hids := h.ids
      clear hp h
      induction m with
      | nil => cases hn
      | cons a m ih =>
        simp only [List.map_cons, List.nodup_cons] at hids
        rw [List.find?_cons]
        rcases List.mem_cons.1 hn with rfl | hn'
        · simp
        · have : (a.id == n.id) = false := by
            simp only [beq_eq_false_iff_ne, ne_eq]
            intro hc; exact hids.1 (List.mem_map.2 ⟨n, hn', hc.symm⟩)
          rw [this]; exact ih hn' hids.2
    simp only [Function.comp, rebuild, encodeNode, roundNode]
    rw [hfind]
  · intro d hd
    simp only [List.mem_map] at hd
    obtain ⟨n, hn, rfl⟩ := hd
    have hfind : m.find? (fun x => x.id == (encodeNode n).id) = some n := by
      have hids := h.ids
      clear hp h
      induction m with
      | nil => cases hn
      | cons a m ih =>
        simp only [List.map_cons, List.nodup_cons] at hids
        rw [List.find?_cons]
        rcases List.mem_cons.1 hn with rfl | hn'
        · simp [encodeNode]
        · have : (a.id == (encodeNode n).id) = false := by
            simp only [beq_eq_false_iff_ne, ne_eq, encodeNode]
            intro hc; exact hids.1 (List.mem_map.2 ⟨n, hn', hc.symm⟩)
          rw [this]; exact ih hn' hids.2
    have hch : childrenOf es (encodeNode n).id = n.ch.map some := by
      unfold childrenOf
      have hp' := hp.filter (fun e => e.parent == (encodeNode n).id)
      have : (encodeNode n).id = n.id := rfl
      rw [this] at hp' ⊢
      rw [filter_insertedEdges m h.ids n hn] at hp'
      exact placeAll_perm n _ hp'
    rw [hch, allSome_map_some]; simp only [rebuild, hfind]; rfl

end Deeprob
