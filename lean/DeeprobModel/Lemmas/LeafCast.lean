import DeeprobModel.Lemmas.LeafCdf
import Mathlib.Data.Rat.Cast.Order
import Mathlib.Data.Real.Basic
import Mathlib.Tactic.NormNum
set_option linter.unusedSimpArgs false
set_option linter.unusedVariables false
set_option linter.unusedSectionVars false
/-
The rational model (what the driver computes at `ℚ`) and the real functions (what the integrals are about) agree
under the cast `ℚ → ℝ`: every function of `Model/LeafQ.lean` used by the property theorems commutes with it.
-/
namespace Deeprob.LeafTheory

/-- a list of rationals as a list of reals -/
def castL : List ℚ → List ℝ
  | [] => []
  | q :: l => (q : ℝ) :: castL l

theorem mem_castL : ∀ (l : List ℚ) (x : ℝ), x ∈ castL l → ∃ q ∈ l, (q : ℝ) = x
  | [], x, h => by simp [castL] at h
  | q :: l, x, h => by
      simp only [castL, List.mem_cons] at h
      rcases h with rfl | h
      · exact ⟨q, List.mem_cons_self .., rfl⟩
      · obtain ⟨q', hq', e⟩ := mem_castL l x h
        exact ⟨q', List.mem_cons_of_mem _ hq', e⟩

theorem castL_length : ∀ l : List ℚ, (castL l).length = l.length
  | [] => rfl
  | _ :: l => by simp [castL, castL_length l]

@[simp] theorem castL_nil : castL [] = [] := rfl
@[simp] theorem castL_cons (q : ℚ) (l : List ℚ) : castL (q :: l) = (q : ℝ) :: castL l := rfl

theorem incr_cast : ∀ b : List ℚ, Incr b → Incr (castL b)
  | [], _ => trivial
  | [_], _ => trivial
  | lo :: hi :: bs, h => by
      have h1 : ((lo : ℚ) : ℝ) < ((hi : ℚ) : ℝ) := by exact_mod_cast h.1
      exact ⟨h1, incr_cast (hi :: bs) h.2⟩

theorem nonNeg_cast (hs : List ℚ) (h : NonNeg hs) : NonNeg (castL hs) := by
  intro x hx
  obtain ⟨q, hq, hqx⟩ := mem_castL hs x hx
  rw [← hqx]
  exact_mod_cast h q hq

theorem allPos_cast (hs : List ℚ) (h : AllPos hs) : AllPos (castL hs) := by
  intro x hx
  obtain ⟨q, hq, hqx⟩ := mem_castL hs x hx
  rw [← hqx]
  exact_mod_cast h q hq

theorem histZ_cast : ∀ (hs b : List ℚ), ((histZ hs b : ℚ) : ℝ) = histZ (castL hs) (castL b)
  | [], _ => by simp [histZ]
  | _ :: _, [] => by simp [histZ]
  | _ :: _, [_] => by simp [histZ]
  | h :: hs, lo :: hi :: bs => by
      simp only [histZ, castL_cons]
      have ih := histZ_cast hs (hi :: bs)
      simp only [castL_cons] at ih
      rw [← ih]
      push_cast; rfl

theorem histRaw_cast (x : ℚ) : ∀ (hs b : List ℚ), ((histRaw x hs b : ℚ) : ℝ) = histRaw (x : ℝ) (castL hs) (castL b)
  | [], _ => by simp [histRaw]
  | _ :: _, [] => by simp [histRaw]
  | _ :: _, [_] => by simp [histRaw]
  | h :: hs, lo :: hi :: bs => by
      simp only [histRaw, castL_cons]
      have ih := histRaw_cast x hs (hi :: bs)
      simp only [castL_cons] at ih
      rw [← ih]
      by_cases hc : x < hi
      · have : (x : ℝ) < (hi : ℝ) := by exact_mod_cast hc
        simp [hc, this]
      · have : ¬ (x : ℝ) < (hi : ℝ) := by exact_mod_cast hc
        simp [hc, this]

theorem histPdf_cast (hs b : List ℚ) (x : ℚ) :
    ((histPdf hs b x : ℚ) : ℝ) = histPdf (castL hs) (castL b) (x : ℝ) := by
  cases b with
  | nil => simp [histPdf]
  | cons b0 bs =>
    simp only [histPdf, castL_cons]
    by_cases hc : x < b0
    · have : (x : ℝ) < (b0 : ℝ) := by exact_mod_cast hc
      simp [hc, this]
    · have : ¬ (x : ℝ) < (b0 : ℝ) := by exact_mod_cast hc
      rw [if_neg hc, if_neg this]
      push_cast
      rw [histRaw_cast, histZ_cast]; rfl

theorem lastB_cast : ∀ (bs : List ℚ) (lo : ℚ), ((lastB lo bs : ℚ) : ℝ) = lastB (lo : ℝ) (castL bs)
  | [], _ => rfl
  | hi :: bs, _ => by simp only [lastB, castL_cons]; exact lastB_cast bs hi

theorem histCdfRaw_cast (x : ℚ) : ∀ (hs b : List ℚ),
    ((histCdfRaw x hs b : ℚ) : ℝ) = histCdfRaw (x : ℝ) (castL hs) (castL b)
  | [], _ => by simp [histCdfRaw]
  | _ :: _, [] => by simp [histCdfRaw]
  | _ :: _, [_] => by simp [histCdfRaw]
  | h :: hs, lo :: hi :: bs => by
      simp only [histCdfRaw, castL_cons]
      have ih := histCdfRaw_cast x hs (hi :: bs)
      simp only [castL_cons] at ih
      rw [← ih]
      by_cases hc : x < hi
      · have : (x : ℝ) < (hi : ℝ) := by exact_mod_cast hc
        simp [hc, this]
      · have : ¬ (x : ℝ) < (hi : ℝ) := by exact_mod_cast hc
        simp [hc, this]

theorem histMomentZ_cast (z : ℚ) (k : ℕ) : ∀ (hs b : List ℚ),
    ((histMomentZ z k hs b : ℚ) : ℝ) = histMomentZ (z : ℝ) k (castL hs) (castL b)
  | [], _ => by simp [histMomentZ]
  | _ :: _, [] => by simp [histMomentZ]
  | _ :: _, [_] => by simp [histMomentZ]
  | h :: hs, lo :: hi :: bs => by
      simp only [histMomentZ, castL_cons]
      have ih := histMomentZ_cast z k hs (hi :: bs)
      simp only [castL_cons] at ih
      rw [← ih]
      push_cast; rfl

theorem histMoment_cast (k : ℕ) (hs b : List ℚ) :
    ((histMoment k hs b : ℚ) : ℝ) = histMoment k (castL hs) (castL b) := by
  simp only [histMoment]
  rw [histMomentZ_cast, histZ_cast]

/-- closed-form cdf under the cast (both sides through `isoCdf_closed`) -/
theorem isoCdf_cast (hs : List ℚ) (b0 : ℚ) (bs : List ℚ) (x : ℚ) (hb : Incr (b0 :: bs))
    (hz : histZ hs (b0 :: bs) ≠ 0) :
    ((isoCdf hs (b0 :: bs) x : ℚ) : ℝ) = isoCdf (castL hs) (castL (b0 :: bs)) (x : ℝ) := by
  have hz' : histZ (castL hs) (castL (b0 :: bs)) ≠ 0 := by
    rw [← histZ_cast]; exact_mod_cast hz
  have hb' := incr_cast _ hb
  simp only [castL_cons] at hz' hb' ⊢
  rw [isoCdf_closed hs b0 bs x hb hz, isoCdf_closed (castL hs) (b0 : ℝ) (castL bs) (x : ℝ) hb' hz']
  by_cases hc : x < b0
  · have : (x : ℝ) < (b0 : ℝ) := by exact_mod_cast hc
    simp [hc, this]
  · have : ¬ (x : ℝ) < (b0 : ℝ) := by exact_mod_cast hc
    rw [if_neg hc, if_neg this]
    push_cast
    rw [histCdfRaw_cast, histZ_cast]; rfl

end Deeprob.LeafTheory
