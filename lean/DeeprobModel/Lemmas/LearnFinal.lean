import DeeprobModel.Spec.LearnSpec
import DeeprobModel.Lemmas.LearnInv
import Mathlib.Data.List.Nodup
import Mathlib.Data.List.Perm.Lattice
/-
From the invariant to the finished structure: when the deque is empty the unfolding of the node table is
`Tree.Good`; and `Good` implies validity, proportional weights and routed rows.
-/
namespace Deeprob.Learn
open List

/-! ### consequences of `Good` -/

theorem Tree.Good.rows_ne : (t : Tree) → t.Good → t.rows ≠ []
  | .leaf r sc, h => ((Tree.good_leaf r sc).1 h).1
  | .prod r sc ch, h => ((Tree.good_prod r sc ch).1 h).1
  | .sum r sc ws ch, h => ((Tree.good_sum r sc ws ch).1 h).1

theorem Tree.Good.scope_ne : (t : Tree) → t.Good → t.scope ≠ []
  | .leaf r sc, h => ((Tree.good_leaf r sc).1 h).2
  | .prod r sc ch, h => ((Tree.good_prod r sc ch).1 h).2.1
  | .sum r sc ws ch, h => ((Tree.good_sum r sc ws ch).1 h).2.1

theorem Tree.Good.proportions : (t : Tree) → t.Good → t.Proportions
  | .leaf r sc, _ => (Tree.proportions_leaf r sc).2 trivial
  | .prod r sc ch, h =>
    (Tree.proportions_prod r sc ch).2
      (fun c hc => Tree.Good.proportions c (((Tree.good_prod r sc ch).1 h).2.2.2.2 c hc).2.2)
  | .sum r sc ws ch, h => by
    obtain ⟨hr, _, ⟨labels, hlen, hsl⟩, hw, hch⟩ := (Tree.good_sum r sc ws ch).1 h
    have hperm : (ch.map Tree.rows).flatten.Perm r := hsl ▸ slicesOf_perm labels r hlen
    rw [Tree.proportions_sum]
    refine ⟨?_, ?_, ?_, length_pos_iff.2 hr, fun c hc => Tree.Good.proportions c (hch c hc).2⟩
    · rw [hw]; unfold weightsOf; rw [map_map]; rfl
    · intro c hc
      have : c.rows ∈ slicesOf labels r := hsl ▸ mem_map_of_mem hc
      exact length_pos_iff.2 (slicesOf_ne_nil labels r hlen _ this)
    · have := hperm.length_eq
      rw [length_flatten, map_map] at this
      exact this

theorem Tree.Good.routed : (t : Tree) → t.Good → t.Routed
  | .leaf r sc, _ => (Tree.routed_leaf r sc).2 trivial
  | .prod r sc ch, h =>
    (Tree.routed_prod r sc ch).2 (fun c hc =>
      ⟨(((Tree.good_prod r sc ch).1 h).2.2.2.2 c hc).1,
       Tree.Good.routed c (((Tree.good_prod r sc ch).1 h).2.2.2.2 c hc).2.2⟩)
  | .sum r sc ws ch, h => by
    obtain ⟨_, _, ⟨labels, hlen, hsl⟩, _, hch⟩ := (Tree.good_sum r sc ws ch).1 h
    rw [Tree.routed_sum]
    exact ⟨⟨labels, hlen, hsl⟩, hsl ▸ slicesOf_perm labels r hlen, fun c hc => Tree.Good.routed c (hch c hc).2⟩

theorem Tree.Good.valid : (t : Tree) → t.Good → t.scope.Nodup → t.Valid
  | .leaf r sc, h, _ => (Tree.valid_leaf r sc).2 ((Tree.good_leaf r sc).1 h).2
  | .prod r sc ch, h, hnd => by
    obtain ⟨_, _, hne, hperm, hch⟩ := (Tree.good_prod r sc ch).1 h
    have hnd' : (ch.map Tree.scope).flatten.Nodup := hperm.nodup_iff.2 hnd
    rw [nodup_flatten] at hnd'
    rw [Tree.valid_prod]
    refine ⟨hne, hnd'.2, ?_, ?_⟩
    · intro v
      rw [← hperm.mem_iff, mem_flatten]
      constructor
      · rintro ⟨l, hl, hv⟩
        obtain ⟨c, hc, rfl⟩ := mem_map.1 hl
        exact ⟨c, hc, hv⟩
      · rintro ⟨c, hc, hv⟩
        exact ⟨c.scope, mem_map_of_mem hc, hv⟩
    · intro c hc
      exact Tree.Good.valid c (hch c hc).2.2 (hnd'.1 _ (mem_map_of_mem hc))
  | .sum r sc ws ch, h, hnd => by
    obtain ⟨hr, _, ⟨labels, hlen, hsl⟩, hw, hch⟩ := (Tree.good_sum r sc ws ch).1 h
    rw [Tree.valid_sum]
    refine ⟨?_, ?_, ?_⟩
    · intro he
      have := slicesOf_length_pos labels r hlen hr
      rw [← hsl, he] at this
      exact this rfl
    · rw [hw]; simp [weightsOf]
    · intro c hc
      exact ⟨(hch c hc).1, Tree.Good.valid c (hch c hc).2 ((hch c hc).1 ▸ hnd)⟩

/-! ### the unfolding of a finished table -/

theorem toTree_leaf (tbl : List Node) (f i : Nat) (h : (getN tbl i).kind = .leaf) :
    toTree tbl (f + 1) i = .leaf (getN tbl i).rows (getN tbl i).scope := by simp [toTree, h]
theorem toTree_naive (tbl : List Node) (f i : Nat) (h : (getN tbl i).kind = .naive) :
    toTree tbl (f + 1) i = .prod (getN tbl i).rows (getN tbl i).scope
      ((getN tbl i).scope.map (fun v => .leaf (getN tbl i).rows [v])) := by simp [toTree, h]
theorem toTree_prod (tbl : List Node) (f i : Nat) (h : (getN tbl i).kind = .prod) :
    toTree tbl (f + 1) i = .prod (getN tbl i).rows (getN tbl i).scope
      ((getN tbl i).children.map (toTree tbl f)) := by simp [toTree, h]
theorem toTree_sum (tbl : List Node) (f i : Nat) (h : (getN tbl i).kind = .sum) :
    toTree tbl (f + 1) i = .sum (getN tbl i).rows (getN tbl i).scope (getN tbl i).weights
      ((getN tbl i).children.map (toTree tbl f)) := by simp [toTree, h]

theorem items_done (fN : Node → List Nat) (fT : Task → List Nat) (s : St) (hq : s.queue = []) (i : Nat) :
    itemsG fN fT s i = (s.node i).children.map (fun c => fN (s.node c)) := by
  unfold itemsG; rw [hq]; simp [pend]

/-- when the deque is empty, every cell of the table unfolds to a `Good` tree with the cell's rows and scope -/
theorem toTree_good (s : St) (hI : Inv s) (hq : s.queue = []) :
    ∀ fuel i, i < s.size → s.size - i ≤ fuel →
      (toTree s.nodes fuel i).rows = (s.node i).rows ∧ (toTree s.nodes fuel i).scope = (s.node i).scope ∧
        (toTree s.nodes fuel i).Good := by
  intro fuel
  induction fuel with
  | zero => intro i hi hf; omega
  | succ f ih =>
    intro i hi hf
    have hN := hI.nodes i hi
    have hch : ∀ c ∈ (s.node i).children, (toTree s.nodes f c).rows = (s.node c).rows ∧
        (toTree s.nodes f c).scope = (s.node c).scope ∧ (toTree s.nodes f c).Good := by
      intro c hc
      have := hN.ch_lt c hc
      exact ih c this.2 (by omega)
    have hmapr : (s.node i).children.map (fun c => (toTree s.nodes f c).rows)
        = (s.node i).children.map (fun c => (s.node c).rows) :=
      map_congr_left (fun c hc => (hch c hc).1)
    have hmaps : (s.node i).children.map (fun c => (toTree s.nodes f c).scope)
        = (s.node i).children.map (fun c => (s.node c).scope) :=
      map_congr_left (fun c hc => (hch c hc).2.1)
    cases hk : (s.node i).kind with
    | leaf =>
      rw [toTree_leaf _ _ _ hk]
      exact ⟨rfl, rfl, (Tree.good_leaf _ _).2 ⟨hN.rows_ne, hN.scope_ne⟩⟩
    | naive =>
      rw [toTree_naive _ _ _ hk]
      refine ⟨rfl, rfl, (Tree.good_prod _ _ _).2 ⟨hN.rows_ne, hN.scope_ne, ?_, ?_, ?_⟩⟩
      · intro he; exact hN.scope_ne (map_eq_nil_iff.1 he)
      · rw [map_map]
        have : (Tree.scope ∘ fun v => Tree.leaf (getN s.nodes i).rows [v]) = fun v => [v] := rfl
        rw [this]
        have : ∀ l : List Nat, (l.map (fun v => [v])).flatten = l := by
          intro l; induction l with
          | nil => rfl
          | cons a l ih => simp [ih]
        rw [this]
      · intro c hc
        obtain ⟨v, _, rfl⟩ := mem_map.1 hc
        exact ⟨rfl, by simp [Tree.scope], (Tree.good_leaf _ _).2 ⟨hN.rows_ne, by simp⟩⟩
    | prod =>
      rw [toTree_prod _ _ _ hk]
      obtain ⟨hparts, hrows, hstat, hne⟩ := hN.prod hk
      unfold scopeItems at hparts; rw [items_done _ _ s hq] at hparts
      unfold rowItems at hrows; rw [items_done _ _ s hq] at hrows
      refine ⟨rfl, rfl, (Tree.good_prod _ _ _).2 ⟨hN.rows_ne, hN.scope_ne, ?_, ?_, ?_⟩⟩
      · intro he
        have he' : (s.node i).children = [] := map_eq_nil_iff.1 he
        rw [he'] at hparts
        simp at hparts
        rw [hparts] at hstat
        simp at hstat
        exact hN.scope_ne hstat
      · rw [map_map]
        show ((s.node i).children.map (fun c => (toTree s.nodes f c).scope)).flatten.Perm _
        rw [hmaps, hparts]; exact hstat
      · intro c hc
        obtain ⟨d, hd, rfl⟩ := mem_map.1 hc
        refine ⟨?_, ?_, (hch d hd).2.2⟩
        · rw [(hch d hd).1]; exact hrows _ (mem_map_of_mem hd)
        · rw [(hch d hd).2.1]; exact hne _ (hparts ▸ mem_map_of_mem hd)
    | sum =>
      rw [toTree_sum _ _ _ hk]
      obtain ⟨hparts, hscopes, labels, hlen, hsl, hw⟩ := hN.sum hk
      unfold rowItems at hparts; rw [items_done _ _ s hq] at hparts
      unfold scopeItems at hscopes; rw [items_done _ _ s hq] at hscopes
      have hrowsmap : ((s.node i).children.map (toTree s.nodes f)).map Tree.rows = (s.node i).parts := by
        rw [map_map]
        show (s.node i).children.map (fun c => (toTree s.nodes f c).rows) = _
        rw [hmapr, hparts]
      refine ⟨rfl, rfl, (Tree.good_sum _ _ _ _).2 ⟨hN.rows_ne, hN.scope_ne, ⟨labels, hlen, ?_⟩, ?_, ?_⟩⟩
      · show ((s.node i).children.map (toTree s.nodes f)).map Tree.rows = _
        rw [hrowsmap]; exact hsl
      · show (s.node i).weights = weightsOf (((s.node i).children.map (toTree s.nodes f)).map Tree.rows) _
        rw [hrowsmap]; exact hw
      · intro c hc
        obtain ⟨d, hd, rfl⟩ := mem_map.1 hc
        refine ⟨?_, (hch d hd).2.2⟩
        rw [(hch d hd).2.1]; exact hscopes _ (mem_map_of_mem hd)

/-! ### the root -/

/-- the three shapes of a successful iteration -/
theorem step_shape (cfg : Cfg) (s s' : St) (h : step cfg s = .ok s') :
    s' = s ∨ (∃ q' sc', s' = { s with queue := q', script := sc' }) ∨
      (∃ t q sc x extra nt, s.queue = t :: q ∧ s' = attach s t q sc x extra nt) := by
  unfold step at h
  split at h
  · cases h; exact Or.inl rfl
  · rename_i t q hq
    split at h
    · split at h
      · cases h
      · simp only at h
        split at h
        · cases h; exact Or.inr (Or.inr ⟨_, _, _, _, _, _, hq, rfl⟩)
        · cases h; exact Or.inr (Or.inr ⟨_, _, _, _, _, _, hq, rfl⟩)
        · cases h; exact Or.inr (Or.inr ⟨_, _, _, _, _, _, hq, rfl⟩)
        · split at h
          · split at h
            · cases h
            · split at h
              · cases h; exact Or.inr (Or.inl ⟨_, _, rfl⟩)
              · cases h; exact Or.inr (Or.inr ⟨_, _, _, _, _, _, hq, rfl⟩)
          · cases h
        · split at h
          · split at h
            · cases h
            · split at h
              · cases h; exact Or.inr (Or.inl ⟨_, _, rfl⟩)
              · cases h; exact Or.inr (Or.inr ⟨_, _, _, _, _, _, hq, rfl⟩)
          · cases h
    · cases h

/-- `tmp_node` keeps its scope, rows and (single) slice -/
def RootIs (rows scope : List Nat) (s : St) : Prop :=
  (s.node 0).scope = scope ∧ (s.node 0).rows = rows ∧ (s.node 0).parts = [scope]

theorem rootIs_step (cfg : Cfg) (rows scope : List Nat) (s s' : St) (hI : Inv s) (hr : RootIs rows scope s)
    (h : step cfg s = .ok s') : RootIs rows scope s' := by
  rcases step_shape cfg s s' h with rfl | ⟨q', sc', rfl⟩ | ⟨t, q, sc, x, extra, nt, hq, rfl⟩
  · exact hr
  · exact hr
  · have hp : t.parent < s.size := (hI.tasks t (hq ▸ mem_cons_self ..)).1
    obtain ⟨_, h2, h3, h4, _⟩ := attach_sameStatic s t q sc x extra nt 0 hI.size_pos hp
    unfold RootIs; rw [h2, h3, h4]; exact hr

theorem rootIs_run (cfg : Cfg) (hf : cfg.front = true) (rows scope : List Nat) (fuel : Nat) (s s' : St)
    (hI : Inv s) (hr : RootIs rows scope s) (h : run cfg fuel s = .ok s') : RootIs rows scope s' := by
  induction fuel generalizing s with
  | zero => simp [run] at h; subst h; exact hr
  | succ f ih =>
    unfold run at h
    split at h
    · cases h; exact hr
    · split at h
      · rename_i s1 hs1
        have hs1' : step cfg s = .ok s1 := by rw [← hs1]
        exact ih s1 (inv_step cfg hf s s1 hI hs1') (rootIs_step cfg rows scope s s1 hI hr hs1') h
      · cases h

/-- MAIN: a finished run of the repaired machine returns a `Good` tree over all rows and all columns -/
theorem run_final (cfg : Cfg) (hf : cfg.front = true) (rows scope : List Nat) (script : List Ans) (fuel : Nat)
    (s : St) (hr : rows ≠ []) (hs : scope ≠ [])
    (h : run cfg fuel (initOn rows scope script) = .ok s) (hq : s.queue = []) :
    ∃ t, result s = some t ∧ t.Good ∧ t.rows = rows ∧ t.scope = scope := by
  have hI : Inv s := inv_run cfg hf fuel _ s (inv_initOn rows scope script hr hs) h
  have hR : RootIs rows scope s :=
    rootIs_run cfg hf rows scope fuel _ s (inv_initOn rows scope script hr hs) ⟨rfl, rfl, rfl⟩ h
  obtain ⟨h1, h2, h3⟩ := hR
  have hN := hI.nodes 0 hI.size_pos
  obtain ⟨hparts, hrows, _⟩ := hN.prod hI.root_prod
  unfold scopeItems at hparts; rw [items_done _ _ s hq, h3] at hparts
  unfold rowItems at hrows; rw [items_done _ _ s hq] at hrows
  -- exactly one child
  cases hc : (s.node 0).children with
  | nil => rw [hc] at hparts; simp at hparts
  | cons c rest =>
    rw [hc] at hparts hrows
    simp only [map_cons, cons.injEq] at hparts
    have hrest : rest = [] := map_eq_nil_iff.1 hparts.2
    have hcl := hN.ch_lt c (hc ▸ mem_cons_self ..)
    obtain ⟨g1, g2, g3⟩ := toTree_good s hI hq s.size c hcl.2 (by omega)
    refine ⟨toTree s.nodes s.size c, ?_, g3, ?_, ?_⟩
    · unfold result rootId; rw [hc]; rfl
    · rw [g1, ← h2]; exact hrows _ (by simp)
    · rw [g2, hparts.1]

/-- turning an evaluated check into an existence statement (for concrete witnesses) -/
theorem exists_ok_of_check {α : Type} (e : Except String α) (P : α → Prop) [DecidablePred P]
    (h : (match e with | .ok s => decide (P s) | .error _ => false) = true) : ∃ s, e = .ok s ∧ P s := by
  cases e with
  | error m => simp at h
  | ok s => exact ⟨s, rfl, of_decide_eq_true h⟩

end Deeprob.Learn
