import DeeprobModel.Lemmas.CltMpe
import Mathlib.Algebra.Order.Field.Rat
import Mathlib.Tactic.NormNum.Basic
import Mathlib.Tactic.IntervalCases
set_option linter.unusedSimpArgs false
/-
Concrete objects for the non-vacuity examples of Props/Clt.lean: a 4-variable Chow-Liu tree with
non-contiguous scope labels (7 → {2 → {4}, 9}), rational tables, one observed variable.
-/
namespace Deeprob
namespace Clt
namespace Ex

/-- local indices: 0 → {1 → {3}, 2} -/
def tree : RTree := .node 0 [.node 1 [.node 3 []], .node 2 []]
/-- variable ids of the local indices 0,1,2,3 -/
def scope : List Nat := [7, 2, 9, 4]
/-- predecessor vector of `tree` -/
def pred : List Int := [-1, 0, 0, 1]
/-- `cpt[i][l][k] = P(X_i = k | parent = l)`; both rows of the root are equal -/
def cpt : List (List (List ℚ)) :=
  [[[3/10, 7/10], [3/10, 7/10]], [[1/5, 4/5], [3/5, 2/5]], [[1/2, 1/2], [9/10, 1/10]], [[1/4, 3/4], [13/20, 7/20]]]
/-- variable 2 observed with value 1, everything else missing -/
def ev : Ev := fun v => if v = 2 then some 1 else none
/-- a completion of `ev` -/
def full : Ev := fun v => if v = 2 then some 1 else if v = 7 then some 1 else if v = 9 then some 0 else if v = 4 then some 0 else none

theorem root_eq : rootOf pred = some 0 := by rfl
theorem build_eq : build pred pred.length 0 = tree := by rfl
theorem vars_eq : tree.vars = [0, 1, 3, 2] := by simp [tree, RTree.vars]
theorem lab_eq : lab scope tree = [7, 2, 4, 9] := by simp [lab, vars_eq, scope]
theorem lab_nodup : (lab scope tree).Nodup := by rw [lab_eq]; decide
theorem scope_nodup : scope.Nodup := by decide
theorem scope_len : scope.length = pred.length := by rfl
theorem isTree_eq : isTree pred = true := by
  have hb := build_eq
  simp only [isTree, root_eq, hb, vars_eq]
  simp [pred]
  omega

theorem cpt_pos : ∀ i ∈ tree.vars, ∀ l < 2, ∀ k < 2, 0 < cptAt cpt i l k := by
  intro i hi l hl k hk
  rw [vars_eq] at hi
  simp only [List.mem_cons, List.not_mem_nil, or_false] at hi
  rcases hi with rfl | rfl | rfl | rfl <;> interval_cases l <;> interval_cases k <;> norm_num [cptAt, cpt]

theorem cpt_nonneg : ∀ i l k, 0 ≤ cptAt cpt i l k := by
  intro i l k
  unfold cptAt
  split
  · rcases i with _|_|_|_|i <;> rcases l with _|_|l <;> rcases k with _|_|k <;> simp [cpt] <;> norm_num
  · exact le_refl 0

theorem rows : ∀ i ∈ tree.vars, ∀ l < 2, cptAt cpt i l 0 + cptAt cpt i l 1 = 1 := by
  intro i hi l hl
  rw [vars_eq] at hi
  simp only [List.mem_cons, List.not_mem_nil, or_false] at hi
  rcases hi with rfl | rfl | rfl | rfl <;> interval_cases l <;> norm_num [cptAt, cpt]

theorem root_rows : ∀ r, rootOf pred = some r → ∀ k, cptAt cpt r 0 k = cptAt cpt r 1 k := by
  intro r hr k
  rw [root_eq] at hr
  have : r = 0 := by simpa using hr.symm
  subst this
  unfold cptAt; split <;> simp [cpt]

theorem ev_obs : ∀ v ∈ lab scope tree, ∀ o, ev v = some o → o < 2 := by
  intro v _ o h
  unfold ev at h
  split at h
  · have : o = 1 := by simpa using h.symm
    omega
  · simp at h

theorem full_agree : ∀ v, ev v ≠ none → full v = ev v := by
  intro v h
  unfold ev at h ⊢
  unfold full
  by_cases hv : v = 2 <;> simp [hv] at h ⊢

theorem full_fill : ∀ v ∈ lab scope tree, full v ≠ none := by
  intro v hv
  rw [lab_eq] at hv
  simp only [List.mem_cons, List.not_mem_nil, or_false] at hv
  rcases hv with rfl | rfl | rfl | rfl <;> simp [full]

theorem full_lt : ∀ v ∈ lab scope tree, (full v).getD 0 < 2 := by
  intro v hv
  rw [lab_eq] at hv
  simp only [List.mem_cons, List.not_mem_nil, or_false] at hv
  rcases hv with rfl | rfl | rfl | rfl <;> simp [full]

theorem full_mis : ∀ v ∈ lab scope tree, ev v = none → ∃ k, k < 2 ∧ full v = some k := by
  intro v hv _
  rw [lab_eq] at hv
  simp only [List.mem_cons, List.not_mem_nil, or_false] at hv
  rcases hv with rfl | rfl | rfl | rfl <;> simp [full]

end Ex
end Clt
end Deeprob
