import DeeprobModel.Spec.ValidSpec
import Mathlib.Data.List.Perm.Subperm
import Mathlib.Data.List.Range
import Mathlib.Logic.Relation
set_option linter.unusedSimpArgs false
set_option linter.unusedVariables false
/-
Helper lemmas for C03: Bool/Prop bridges for the tests of `validity.py`, BFS facts.
-/
namespace Deeprob
namespace Net
variable {α : Type}

/-! ### Bool / Prop bridges -/

theorem scopeEqB_iff (a b : List Nat) : scopeEqB a b = true ↔ scopeEq a b := by
  unfold scopeEqB scopeEq
  simp only [Bool.and_eq_true, List.all_eq_true, List.contains_iff_mem]
  constructor
  · rintro ⟨h1, h2⟩ v; exact ⟨h1 v, h2 v⟩
  · intro h; exact ⟨fun v hv => (h v).1 hv, fun v hv => (h v).2 hv⟩

theorem nodupB_iff (l : List Nat) : nodupB l = true ↔ l.Nodup := by
  induction l with
  | nil => simp [nodupB]
  | cons x xs ih =>
    simp only [nodupB, Bool.and_eq_true, Bool.not_eq_true', List.nodup_cons, ih]
    have : (xs.contains x = false) ↔ x ∉ xs := by
      rw [← Bool.not_eq_true, List.contains_iff_mem]
    rw [this]

theorem foldl_max_ge (l : List Nat) : ∀ a, a ≤ l.foldl max a ∧ ∀ x ∈ l, x ≤ l.foldl max a := by
  induction l with
  | nil => intro a; simp
  | cons y ys ih =>
    intro a
    simp only [List.foldl_cons, List.mem_cons]
    obtain ⟨h1, h2⟩ := ih (max a y)
    refine ⟨le_trans (Nat.le_max_left a y) h1, ?_⟩
    rintro x (rfl | hx)
    · exact le_trans (Nat.le_max_right a x) h1
    · exact h2 x hx

theorem foldl_max_mem (l : List Nat) : ∀ a, l.foldl max a = a ∨ l.foldl max a ∈ l := by
  induction l with
  | nil => intro a; simp
  | cons y ys ih =>
    intro a
    simp only [List.foldl_cons, List.mem_cons]
    rcases ih (max a y) with h | h
    · rw [h]
      rcases Nat.le_total a y with h' | h'
      · rw [Nat.max_eq_right h']; exact Or.inr (Or.inl rfl)
      · rw [Nat.max_eq_left h']; exact Or.inl rfl
    · exact Or.inr (Or.inr h)

theorem foldl_min_le (l : List Nat) : ∀ a, l.foldl min a ≤ a ∧ ∀ x ∈ l, l.foldl min a ≤ x := by
  induction l with
  | nil => intro a; simp
  | cons y ys ih =>
    intro a
    simp only [List.foldl_cons, List.mem_cons]
    obtain ⟨h1, h2⟩ := ih (min a y)
    refine ⟨le_trans h1 (Nat.min_le_left a y), ?_⟩
    rintro x (rfl | hx)
    · exact le_trans h1 (Nat.min_le_right a x)
    · exact h2 x hx

theorem foldl_min_mem (l : List Nat) : ∀ a, l.foldl min a = a ∨ l.foldl min a ∈ l := by
  induction l with
  | nil => intro a; simp
  | cons y ys ih =>
    intro a
    simp only [List.foldl_cons, List.mem_cons]
    rcases ih (min a y) with h | h
    · rw [h]
      rcases Nat.le_total a y with h' | h'
      · rw [Nat.min_eq_left h']; exact Or.inl rfl
      · rw [Nat.min_eq_right h']; exact Or.inr (Or.inl rfl)
    · exact Or.inr (Or.inr h)

/-- `max(ids)` as modelled is an upper bound -/
theorem le_maxL (l : List Nat) : ∀ x ∈ l, x ≤ maxL l := (foldl_max_ge l 0).2

/-- `max(ids)` as modelled is attained (non-empty list) -/
theorem maxL_mem (l : List Nat) (h : l ≠ []) : maxL l ∈ l := by
  rcases foldl_max_mem l 0 with h0 | hm
  · -- the maximum is 0, so every element is 0
    cases l with
    | nil => exact absurd rfl h
    | cons y ys =>
      have hy : y ≤ maxL (y :: ys) := le_maxL _ y List.mem_cons_self
      have h0' : maxL (y :: ys) = 0 := h0
      have : y = 0 := by omega
      rw [h0', this]; exact List.mem_cons_self
  · exact hm

/-- `min(ids)` as modelled is a lower bound -/
theorem minL_le (l : List Nat) : ∀ x ∈ l, minL l ≤ x := by
  cases l with
  | nil => intro x hx; cases hx
  | cons y ys =>
    intro x hx
    obtain ⟨h1, h2⟩ := foldl_min_le ys y
    rcases List.mem_cons.1 hx with rfl | hx
    · exact h1
    · exact h2 x hx

/-- `min(ids)` as modelled is attained (non-empty list) -/
theorem minL_mem (l : List Nat) (h : l ≠ []) : minL l ∈ l := by
  cases l with
  | nil => exact absurd rfl h
  | cons y ys =>
    rcases foldl_min_mem ys y with h0 | hm
    · show ys.foldl min y ∈ y :: ys
      rw [h0]; exact List.mem_cons_self
    · exact List.mem_cons_of_mem _ hm

/-! ### `is_labeled` -/

/-- unique ∧ min = 0 ∧ max = len-1  ⇔  permutation of `0..len-1` (pure list statement) -/
theorem labeled_list_iff (ids : List Nat) :
    (ids.Nodup ∧ minL ids = 0 ∧ maxL ids = ids.length - 1) ↔ ids.Perm (List.range ids.length) := by
  cases hl : ids with
  | nil => simp [minL, maxL]
  | cons y ys =>
    rw [← hl]
    have hne : ids ≠ [] := by rw [hl]; simp
    have hpos : 0 < ids.length := List.length_pos_iff.2 hne
    constructor
    · rintro ⟨hnd, _, hmax⟩
      have hsub : ids ⊆ List.range ids.length := by
        intro x hx
        have := le_maxL ids x hx
        rw [List.mem_range]; omega
      exact (List.subperm_of_subset hnd hsub).perm_of_length_le (by simp)
    · intro hp
      have hmem : ∀ x, x ∈ ids ↔ x < ids.length := fun x => by rw [hp.mem_iff, List.mem_range]
      refine ⟨hp.nodup_iff.2 List.nodup_range, ?_, ?_⟩
      · have := minL_le ids 0 ((hmem 0).2 hpos); omega
      · have h1 := le_maxL ids (ids.length - 1) ((hmem _).2 (by omega))
        have h2 := (hmem _).1 (maxL_mem ids hne)
        omega

theorem isLabeled_unfold (n : Net α) (nodes : List Nat) :
    isLabeled n nodes =
      (if !nodupB (nodes.map (idOf n)) then some "repeated"
       else if minL (nodes.map (idOf n)) != 0 then some "min"
       else if maxL (nodes.map (idOf n)) != (nodes.map (idOf n)).length - 1 then some "max"
       else none) := rfl

theorem isLabeled_eq_none_iff (n : Net α) (nodes : List Nat) :
    isLabeled n nodes = none ↔
      (nodes.map (idOf n)).Nodup ∧ minL (nodes.map (idOf n)) = 0 ∧
        maxL (nodes.map (idOf n)) = (nodes.map (idOf n)).length - 1 := by
  rw [isLabeled_unfold, ← nodupB_iff]
  by_cases h1 : nodupB (nodes.map (idOf n)) = true
  · by_cases h2 : minL (nodes.map (idOf n)) = 0
    · by_cases h3 : maxL (nodes.map (idOf n)) = (nodes.map (idOf n)).length - 1
      · simp [h1, h2, h3]
      · simp [h1, h2, h3]
    · simp [h1, h2]
  · simp [h1]

/-! ### `is_smooth`, `is_decomposable` -/

theorem childScopes_eq (n : Net α) (x : NNode α) : childScopes n x = (x.ch.map (scopeOf n)).flatten := rfl

theorem isSmooth_unfold (n : Net α) (nodes : List Nat) :
    isSmooth n nodes = nodes.findSome? (fun i => match n[i]? with
      | some x => if x.kind = .sum then
          (if x.ch.length == 0 then some "nochildren"
           else if x.ch.length != x.ws.length then some "weights"
           else if x.ch.any (fun c => !scopeEqB (scopeOf n c) x.scope) then some "scopes"
           else none) else none
      | none => none) := rfl

theorem ite3_none {A : Type} (c1 c2 c3 : Prop) [Decidable c1] [Decidable c2] [Decidable c3] (a b c : A) :
    (if c1 then some a else if c2 then some b else if c3 then some c else none) = none ↔ ¬c1 ∧ ¬c2 ∧ ¬c3 := by
  by_cases h1 : c1 <;> by_cases h2 : c2 <;> by_cases h3 : c3 <;> simp [h1, h2, h3]

theorem ite2_none {A : Type} (c1 c2 : Prop) [Decidable c1] [Decidable c2] (a b : A) :
    (if c1 then some a else if c2 then some b else none) = none ↔ ¬c1 ∧ ¬c2 := by
  by_cases h1 : c1 <;> by_cases h2 : c2 <;> simp [h1, h2]

theorem length_beq_zero {β : Type} (l : List β) : ¬ ((l.length == 0) = true) ↔ l ≠ [] := by
  simp

theorem isSmooth_eq_none_iff (n : Net α) (nodes : List Nat) :
    isSmooth n nodes = none ↔ ∀ i ∈ nodes, ∀ x, n[i]? = some x → x.kind = .sum → SumOK n x := by
  rw [isSmooth_unfold, List.findSome?_eq_none_iff]
  apply forall_congr'; intro i
  apply imp_congr_right; intro _
  cases hn : n[i]? with
  | none => simp
  | some x =>
    simp only [Option.some.injEq, forall_eq']
    by_cases hk : x.kind = .sum
    · simp only [hk, if_true, forall_const]
      unfold SumOK
      rw [ite3_none, length_beq_zero]
      apply and_congr Iff.rfl
      apply and_congr
      · simp only [bne_iff_ne, ne_eq, not_not]; exact eq_comm
      · simp only [List.any_eq_true, Bool.not_eq_true', ← scopeEqB_iff, not_exists, not_and,
          Bool.not_eq_false]
    · simp [hk]

theorem isDecomposable_unfold (n : Net α) (nodes : List Nat) :
    isDecomposable n nodes = nodes.findSome? (fun i => match n[i]? with
      | some x => if x.kind = .prod then
          (if x.ch.length == 0 then some "nochildren"
           else if !nodupB (x.ch.map (scopeOf n)).flatten || !scopeEqB x.scope (x.ch.map (scopeOf n)).flatten
             then some "scopes"
           else none) else none
      | none => none) := rfl

theorem isDecomposableUnionOnly_unfold (n : Net α) (nodes : List Nat) :
    isDecomposableUnionOnly n nodes = nodes.findSome? (fun i => match n[i]? with
      | some x => if x.kind = .prod then
          (if x.ch.length == 0 then some "nochildren"
           else if !scopeEqB x.scope (x.ch.map (scopeOf n)).flatten then some "scopes"
           else none) else none
      | none => none) := rfl

theorem scopeEq_comm {a b : List Nat} : scopeEq a b ↔ scopeEq b a :=
  ⟨fun h v => (h v).symm, fun h v => (h v).symm⟩

/-- duplicate-free concatenation ⇔ each child scope duplicate-free and the scopes pairwise disjoint -/
theorem prodOK'_iff (n : Net α) (x : NNode α) : ProdOK' n x ↔ ProdOK n x := by
  unfold ProdOK' ProdOK
  rw [List.nodup_flatten]
  constructor
  · rintro ⟨h1, ⟨h2, h3⟩, h4⟩
    exact ⟨h1, fun c hc => h2 _ (List.mem_map_of_mem hc), h3, h4⟩
  · rintro ⟨h1, h2, h3, h4⟩
    refine ⟨h1, ⟨?_, h3⟩, h4⟩
    intro l hl
    obtain ⟨c, hc, rfl⟩ := List.mem_map.1 hl
    exact h2 c hc

theorem isDecomposable_eq_none_iff' (n : Net α) (nodes : List Nat) :
    isDecomposable n nodes = none ↔ ∀ i ∈ nodes, ∀ x, n[i]? = some x → x.kind = .prod → ProdOK' n x := by
  rw [isDecomposable_unfold, List.findSome?_eq_none_iff]
  apply forall_congr'; intro i
  apply imp_congr_right; intro _
  cases hn : n[i]? with
  | none => simp
  | some x =>
    simp only [Option.some.injEq, forall_eq']
    by_cases hk : x.kind = .prod
    · simp only [hk, if_true, forall_const]
      unfold ProdOK'
      rw [ite2_none, length_beq_zero]
      apply and_congr Iff.rfl
      simp only [Bool.or_eq_true, Bool.not_eq_true', not_or, Bool.not_eq_false, nodupB_iff, scopeEqB_iff]
      exact and_congr Iff.rfl scopeEq_comm
    · simp [hk]

theorem isDecomposable_eq_none_iff (n : Net α) (nodes : List Nat) :
    isDecomposable n nodes = none ↔ ∀ i ∈ nodes, ∀ x, n[i]? = some x → x.kind = .prod → ProdOK n x := by
  rw [isDecomposable_eq_none_iff']
  simp only [prodOK'_iff]

/-- what the pinned (union-only) test establishes: non-empty and union = scope, nothing about overlap -/
theorem isDecomposableUnionOnly_eq_none_iff (n : Net α) (nodes : List Nat) :
    isDecomposableUnionOnly n nodes = none ↔ ∀ i ∈ nodes, ∀ x, n[i]? = some x → x.kind = .prod →
      x.ch ≠ [] ∧ scopeEq (x.ch.map (scopeOf n)).flatten x.scope := by
  rw [isDecomposableUnionOnly_unfold, List.findSome?_eq_none_iff]
  apply forall_congr'; intro i
  apply imp_congr_right; intro _
  cases hn : n[i]? with
  | none => simp
  | some x =>
    simp only [Option.some.injEq, forall_eq']
    by_cases hk : x.kind = .prod
    · simp only [hk, if_true, forall_const]
      rw [ite2_none, length_beq_zero]
      apply and_congr Iff.rfl
      simp only [Bool.not_eq_true', Bool.not_eq_false, scopeEqB_iff]
      exact scopeEq_comm
    · simp [hk]

/-! ### BFS -/

theorem bfsAux_seen_subset (n : Net α) : ∀ fuel q seen, ∀ a ∈ seen, a ∈ bfsAux n fuel q seen := by
  intro fuel
  induction fuel with
  | zero => intro q seen a ha; simpa [bfsAux] using ha
  | succ f ih =>
    intro q seen a ha
    cases q with
    | nil => simpa [bfsAux] using ha
    | cons b qs =>
      simp only [bfsAux]
      exact ih _ _ a (List.mem_append_left _ ha)

/-- the root is always collected -/
theorem root_mem_collect (n : Net α) (root : Nat) : root ∈ collect n root :=
  bfsAux_seen_subset n _ _ _ root (by simp)

theorem collect_ne_nil (n : Net α) (root : Nat) : collect n root ≠ [] :=
  List.ne_nil_of_mem (root_mem_collect n root)

/-- one BFS step: the children of the popped node that are not yet seen, first occurrence only -/
def bfsNew (S : List Nat) (l : List Nat) (acc : List Nat) : List Nat :=
  l.foldl (fun acc c => if (S ++ acc).contains c then acc else acc ++ [c]) acc

theorem mem_bfsNew (S : List Nat) : ∀ (l acc : List Nat) (x : Nat),
    x ∈ bfsNew S l acc ↔ x ∈ acc ∨ (x ∈ l ∧ x ∉ S) := by
  intro l
  induction l with
  | nil => intro acc x; simp [bfsNew]
  | cons c cs ih =>
    intro acc x
    have hstep : bfsNew S (c :: cs) acc = bfsNew S cs (if (S ++ acc).contains c then acc else acc ++ [c]) := rfl
    rw [hstep, ih]
    by_cases hc : (S ++ acc).contains c = true
    · rw [if_pos hc]
      have hc' : c ∈ S ∨ c ∈ acc := by simpa using hc
      constructor
      · rintro (h | ⟨h1, h2⟩)
        · exact Or.inl h
        · exact Or.inr ⟨List.mem_cons_of_mem _ h1, h2⟩
      · rintro (h | ⟨h1, h2⟩)
        · exact Or.inl h
        · rcases List.mem_cons.1 h1 with rfl | h1
          · rcases hc' with h | h
            · exact absurd h h2
            · exact Or.inl h
          · exact Or.inr ⟨h1, h2⟩
    · rw [if_neg hc]
      have hc' : c ∉ S ∧ c ∉ acc := by simpa using hc
      simp only [List.mem_append, List.mem_singleton, List.mem_cons, List.not_mem_nil, or_false]
      constructor
      · rintro ((h | rfl) | ⟨h1, h2⟩)
        · exact Or.inl h
        · exact Or.inr ⟨Or.inl rfl, hc'.1⟩
        · exact Or.inr ⟨Or.inr h1, h2⟩
      · rintro (h | ⟨rfl | h1, h2⟩)
        · exact Or.inl (Or.inl h)
        · exact Or.inl (Or.inr rfl)
        · exact Or.inr ⟨h1, h2⟩

theorem nodup_bfsNew (S : List Nat) : ∀ (l acc : List Nat), acc.Nodup → (bfsNew S l acc).Nodup := by
  intro l
  induction l with
  | nil => intro acc h; simpa [bfsNew] using h
  | cons c cs ih =>
    intro acc h
    have hstep : bfsNew S (c :: cs) acc = bfsNew S cs (if (S ++ acc).contains c then acc else acc ++ [c]) := rfl
    rw [hstep]
    apply ih
    by_cases hc : (S ++ acc).contains c = true
    · rw [if_pos hc]; exact h
    · rw [if_neg hc]
      have hc' : c ∉ S ∧ c ∉ acc := by simpa using hc
      rw [List.nodup_append]
      refine ⟨h, List.nodup_singleton c, ?_⟩
      intro a ha b hb
      rw [List.mem_singleton] at hb
      subst hb
      intro hab; subst hab; exact hc'.2 ha

theorem bfsAux_step (n : Net α) (fuel a : Nat) (qs seen : List Nat) :
    bfsAux n (fuel+1) (a :: qs) seen =
      bfsAux n fuel (qs ++ bfsNew seen (chOf n a) []) (seen ++ bfsNew seen (chOf n a) []) := rfl

theorem bfsAux_nodup (n : Net α) : ∀ fuel q seen, seen.Nodup → (bfsAux n fuel q seen).Nodup := by
  intro fuel
  induction fuel with
  | zero => intro q seen h; simpa [bfsAux] using h
  | succ f ih =>
    intro q seen h
    cases q with
    | nil => simpa [bfsAux] using h
    | cons a qs =>
      rw [bfsAux_step]
      apply ih
      rw [List.nodup_append]
      refine ⟨h, nodup_bfsNew _ _ _ List.nodup_nil, ?_⟩
      intro x hx y hy hxy
      subst hxy
      have := (mem_bfsNew seen (chOf n a) [] x).1 hy
      simp only [List.not_mem_nil, false_or] at this
      exact this.2 hx

/-- BFS lists every node once (no hypothesis on the table) -/
theorem collect_nodup (n : Net α) (root : Nat) : (collect n root).Nodup :=
  bfsAux_nodup n _ _ _ (List.nodup_singleton root)

/-- a duplicate-free list of numbers below `N` has at most `N` elements -/
theorem nodup_length_le (l : List Nat) (N : Nat) (hnd : l.Nodup) (hlt : ∀ a ∈ l, a < N) : l.length ≤ N := by
  have hsub : l ⊆ List.range N := fun a ha => List.mem_range.2 (hlt a ha)
  simpa using (List.subperm_of_subset hnd hsub).length_le

/-- the edge relation of the stored graph -/
def Edge (n : Net α) (a b : Nat) : Prop := b ∈ chOf n a

/-- BFS invariant ⇒ on return the `seen` list is exactly the set reachable from the root -/
theorem bfsAux_spec (n : Net α) (root : Nat) (hch : ∀ a, ∀ c ∈ chOf n a, c < n.length) :
    ∀ (fuel : Nat) (done q : List Nat),
      (done ++ q).Nodup → (∀ a ∈ done ++ q, a < n.length) → root ∈ done ++ q →
      (∀ a ∈ done ++ q, Relation.ReflTransGen (Edge n) root a) →
      (∀ a ∈ done, ∀ c ∈ chOf n a, c ∈ done ++ q) →
      n.length + 1 ≤ fuel + done.length →
      ∀ i, i ∈ bfsAux n fuel q (done ++ q) ↔ Relation.ReflTransGen (Edge n) root i := by
  intro fuel
  induction fuel with
  | zero =>
    intro done q hnd hlt _ _ _ hfuel
    have h1 : (done ++ q).length ≤ n.length := nodup_length_le _ _ hnd hlt
    simp only [List.length_append] at h1
    omega
  | succ f ih =>
    intro done q hnd hlt hroot hreach hclosed hfuel
    cases q with
    | nil =>
      intro i
      simp only [bfsAux, List.append_nil] at *
      constructor
      · exact hreach i
      · intro h
        induction h with
        | refl => exact hroot
        | tail _ hbc ihb => exact hclosed _ ihb _ hbc
    | cons a qs =>
      rw [bfsAux_step]
      have hnew : ∀ x, x ∈ bfsNew (done ++ a :: qs) (chOf n a) [] ↔ (x ∈ chOf n a ∧ x ∉ done ++ a :: qs) := by
        intro x; rw [mem_bfsNew]; simp
      have hndnew := nodup_bfsNew (done ++ a :: qs) (chOf n a) [] List.nodup_nil
      have heq : done ++ a :: qs ++ bfsNew (done ++ a :: qs) (chOf n a) [] =
          (done ++ [a]) ++ (qs ++ bfsNew (done ++ a :: qs) (chOf n a) []) := by simp
      rw [heq]
      have ha_mem : a ∈ done ++ a :: qs := by simp
      apply ih (done ++ [a]) (qs ++ bfsNew (done ++ a :: qs) (chOf n a) [])
      · rw [← heq, List.nodup_append]
        refine ⟨hnd, hndnew, ?_⟩
        intro x hx y hy hxy
        subst hxy
        exact ((hnew x).1 hy).2 hx
      · rw [← heq]
        intro x hx
        rcases List.mem_append.1 hx with hx | hx
        · exact hlt x hx
        · exact hch a x ((hnew x).1 hx).1
      · rw [← heq]; exact List.mem_append_left _ hroot
      · rw [← heq]
        intro x hx
        rcases List.mem_append.1 hx with hx | hx
        · exact hreach x hx
        · exact Relation.ReflTransGen.tail (hreach a ha_mem) ((hnew x).1 hx).1
      · rw [← heq]
        intro b hb c hc
        rcases List.mem_append.1 hb with hb | hb
        · exact List.mem_append_left _ (hclosed b hb c hc)
        · rw [List.mem_singleton] at hb
          subst hb
          by_cases hcs : c ∈ done ++ b :: qs
          · exact List.mem_append_left _ hcs
          · exact List.mem_append_right _ ((hnew c).2 ⟨hc, hcs⟩)
      · simp only [List.length_append, List.length_singleton]; omega

theorem chOf_lt_of_table (n : Net α) (h : ∀ (i : Nat) (x : NNode α), n[i]? = some x → ∀ c ∈ x.ch, c < n.length) :
    ∀ a, ∀ c ∈ chOf n a, c < n.length := by
  intro a c hc
  unfold chOf at hc
  cases hn : n[a]? with
  | none => rw [hn] at hc; cases hc
  | some x => rw [hn] at hc; exact h a x hn c hc

/-- **BFS correctness**: with in-range child indices, `collect` is exactly the reachable set -/
theorem mem_collect_iff_reach (n : Net α) (root : Nat)
    (h : ∀ (i : Nat) (x : NNode α), n[i]? = some x → ∀ c ∈ x.ch, c < n.length) (i : Nat) :
    i ∈ collect n root ↔ Relation.ReflTransGen (Edge n) root i := by
  by_cases hr : root < n.length
  · have hc : collect n root = bfsAux n (n.length + 1) [root] ([] ++ [root]) := rfl
    rw [hc]
    apply bfsAux_spec n root (chOf_lt_of_table n h) (n.length + 1) [] [root]
    · simp
    · intro a ha; simp at ha; subst ha; exact hr
    · simp
    · intro a ha; simp at ha; subst ha; exact Relation.ReflTransGen.refl
    · intro a ha; cases ha
    · simp
  · have hnone : chOf n root = [] := by
      unfold chOf; rw [List.getElem?_eq_none (by omega)]
    have hc : collect n root = [root] := by
      unfold collect
      rw [bfsAux_step, hnone]
      simp only [bfsNew, List.foldl_nil, List.append_nil]
      cases n.length <;> rfl
    rw [hc, List.mem_singleton]
    constructor
    · rintro rfl; exact Relation.ReflTransGen.refl
    · intro hreach
      rcases Relation.ReflTransGen.cases_head hreach with h0 | ⟨c, hc1, _⟩
      · exact h0.symm
      · unfold Edge at hc1; rw [hnone] at hc1; cases hc1

/-- closure of the collected set under child edges (in-range child indices) -/
theorem collect_closed (n : Net α) (root : Nat)
    (h : ∀ (i : Nat) (x : NNode α), n[i]? = some x → ∀ c ∈ x.ch, c < n.length)
    (p c : Nat) (hp : p ∈ collect n root) (hc : c ∈ chOf n p) : c ∈ collect n root :=
  (mem_collect_iff_reach n root h c).2
    (Relation.ReflTransGen.tail ((mem_collect_iff_reach n root h p).1 hp) hc)

/-- every collected node other than the root has a collected parent (in-range child indices) -/
theorem collect_parent (n : Net α) (root : Nat)
    (h : ∀ (i : Nat) (x : NNode α), n[i]? = some x → ∀ c ∈ x.ch, c < n.length)
    (i : Nat) (hi : i ∈ collect n root) (hne : i ≠ root) :
    ∃ p ∈ collect n root, i ∈ chOf n p := by
  rcases Relation.ReflTransGen.cases_tail ((mem_collect_iff_reach n root h i).1 hi) with h0 | ⟨p, hp, hpi⟩
  · exact absurd h0 hne
  · exact ⟨p, (mem_collect_iff_reach n root h p).2 hp, hpi⟩

/-- a children-first table has in-range child indices -/
theorem inRange_of_wellOrdered (n : Net α) (hw : WellOrdered n) :
    ∀ (i : Nat) (x : NNode α), n[i]? = some x → ∀ c ∈ x.ch, c < n.length :=
  fun i x hx c hc => lt_trans (hw i x hx c hc) (List.getElem?_eq_some_iff.1 hx).1

/-! ### `check_spn` -/

theorem checkSpn_accept_iff_flags (n : Net α) (root : Nat) (l s d : Bool) :
    checkSpn n root l s d = .accept ↔
      (l = true → isLabeled n (collect n root) = none) ∧
      (s = true → isSmooth n (collect n root) = none) ∧
      (d = true → isDecomposable n (collect n root) = none) := by
  unfold checkSpn
  cases l <;> cases s <;> cases d <;> simp only [if_true, if_false, Bool.false_eq_true] <;>
    (try cases isLabeled n (collect n root)) <;> (try cases isSmooth n (collect n root)) <;>
    (try cases isDecomposable n (collect n root)) <;> simp

theorem checkSpn_labeled_iff (n : Net α) (root : Nat) (l s d : Bool) (w : String) :
    checkSpn n root l s d = .labeled w ↔ l = true ∧ isLabeled n (collect n root) = some w := by
  unfold checkSpn
  cases l <;> cases s <;> cases d <;> simp only [if_true, if_false, Bool.false_eq_true] <;>
    (try cases isLabeled n (collect n root)) <;> (try cases isSmooth n (collect n root)) <;>
    (try cases isDecomposable n (collect n root)) <;> simp

theorem checkSpn_smooth_iff (n : Net α) (root : Nat) (l s d : Bool) (w : String) :
    checkSpn n root l s d = .smooth w ↔
      (l = true → isLabeled n (collect n root) = none) ∧ s = true ∧ isSmooth n (collect n root) = some w := by
  unfold checkSpn
  cases l <;> cases s <;> cases d <;> simp only [if_true, if_false, Bool.false_eq_true] <;>
    (try cases isLabeled n (collect n root)) <;> (try cases isSmooth n (collect n root)) <;>
    (try cases isDecomposable n (collect n root)) <;> simp

theorem checkSpn_decomposable_iff (n : Net α) (root : Nat) (l s d : Bool) (w : String) :
    checkSpn n root l s d = .decomposable w ↔
      (l = true → isLabeled n (collect n root) = none) ∧ (s = true → isSmooth n (collect n root) = none) ∧
        d = true ∧ isDecomposable n (collect n root) = some w := by
  unfold checkSpn
  cases l <;> cases s <;> cases d <;> simp only [if_true, if_false, Bool.false_eq_true] <;>
    (try cases isLabeled n (collect n root)) <;> (try cases isSmooth n (collect n root)) <;>
    (try cases isDecomposable n (collect n root)) <;> simp

/-! ### statements over every stored node, unrolled on concrete tables -/

theorem forall_idx_nil {β : Type} (P : Nat → β → Prop) : (∀ (i : Nat) x, ([] : List β)[i]? = some x → P i x) ↔ True := by
  simp

theorem forall_idx_cons {β : Type} (P : Nat → β → Prop) (a : β) (l : List β) :
    (∀ (i : Nat) x, (a :: l)[i]? = some x → P i x) ↔ P 0 a ∧ ∀ (i : Nat) x, l[i]? = some x → P (i+1) x := by
  constructor
  · intro h
    exact ⟨h 0 a rfl, fun i x hx => h (i+1) x (by simpa using hx)⟩
  · rintro ⟨h0, hs⟩ i x hx
    cases i with
    | zero => simp at hx; subst hx; exact h0
    | succ k => exact hs k x (by simpa using hx)

end Net

/-! ### concrete tables used by the non-vacuity examples and by the witness of C03 -/
namespace C03

/-- table leaf over variable `v` with Python id `id` -/
def lf (id v : Nat) (tbl : List Rat) : NNode Rat := ⟨id, .leaf, [v], [], [], .cat v tbl⟩

/-- a valid normalised DAG with a **shared** child: `0.25·(A₀·B₁) + 0.75·(A₀·C₁)` where leaf `A₀`
(table index 0) is a child of both products; ids follow BFS order from the root (index 5) -/
def exNet : Net Rat :=
  [ lf 3 0 [1/2, 1/2], lf 4 1 [1/3, 2/3], lf 5 1 [1/2, 1/2],
    ⟨1, .prod, [0, 1], [0, 1], [], .absent⟩,
    ⟨2, .prod, [1, 0], [0, 2], [], .absent⟩,
    ⟨0, .sum, [0, 1], [3, 4], [1/4, 3/4], .absent⟩ ]

/-- the pinned-code counterexample: product over `[0,1]` (index 3) whose children are the leaf over
variable 0 (index 0, shared) and the product (index 2) of the leaves over variables 0 and 1 -/
def witnessNet : Net Rat :=
  [ lf 1 0 [1/2, 1/2], lf 3 1 [1/2, 1/2],
    ⟨2, .prod, [0, 1], [0, 1], [], .absent⟩,
    ⟨0, .prod, [0, 1], [0, 2], [], .absent⟩ ]

/-- `exNet` with the id of the shared leaf clashing with the root's id -/
def badIdNet : Net Rat :=
  [ lf 0 0 [1/2, 1/2], lf 4 1 [1/3, 2/3], lf 5 1 [1/2, 1/2],
    ⟨1, .prod, [0, 1], [0, 1], [], .absent⟩,
    ⟨2, .prod, [1, 0], [0, 2], [], .absent⟩,
    ⟨0, .sum, [0, 1], [3, 4], [1/4, 3/4], .absent⟩ ]

/-- `exNet` with one weight missing at the root (labels fine, not smooth) and an overlapping product -/
def badSmoothNet : Net Rat :=
  [ lf 3 0 [1/2, 1/2], lf 4 1 [1/3, 2/3], lf 5 0 [1/2, 1/2],
    ⟨1, .prod, [0, 1], [0, 1], [], .absent⟩,
    ⟨2, .prod, [1, 0], [0, 2], [], .absent⟩,
    ⟨0, .sum, [0, 1], [3, 4], [1/4], .absent⟩ ]

/-! facts about the example tables (hypotheses of `checkSpn_sound`) -/

theorem exNet_wellOrdered : WellOrdered exNet := (wellOrderedB_iff _).1 (by decide)

theorem exNet_leafOK : ∀ (i : Nat) (x : NNode Rat), exNet[i]? = some x → x.kind = .leaf →
      LeafOK (fun _ => 2) x.scope (x.leaf.fn x.scope (([] : List Rat).getD i 0)) := by
  unfold exNet
  simp only [Net.forall_idx_cons, Net.forall_idx_nil]
  exact ⟨fun _ => Circ.catLeaf_ok _ 0 _ rfl (by norm_num [tsum]),
    fun _ => Circ.catLeaf_ok _ 1 _ rfl (by norm_num [tsum]),
    fun _ => Circ.catLeaf_ok _ 1 _ rfl (by norm_num [tsum]),
    nofun, nofun, nofun, trivial⟩

theorem exNet_normW : NetNormW exNet := by
  unfold NetNormW exNet
  simp only [Net.forall_idx_cons, Net.forall_idx_nil]
  exact ⟨nofun, nofun, nofun, nofun, nofun, fun _ => by norm_num [tsum], trivial⟩

theorem exNet_leafNorm : NetLeafNorm exNet [] := by
  unfold NetLeafNorm exNet
  simp only [Net.forall_idx_cons, Net.forall_idx_nil]
  exact ⟨fun _ => rfl, fun _ => rfl, fun _ => rfl, nofun, nofun, nofun, trivial⟩

theorem witnessNet_wellOrdered : WellOrdered witnessNet := (wellOrderedB_iff _).1 (by decide)

theorem witnessNet_leafOK : ∀ (i : Nat) (x : NNode Rat), witnessNet[i]? = some x → x.kind = .leaf →
      LeafOK (fun _ => 2) x.scope (x.leaf.fn x.scope (([] : List Rat).getD i 0)) := by
  unfold witnessNet
  simp only [Net.forall_idx_cons, Net.forall_idx_nil]
  exact ⟨fun _ => Circ.catLeaf_ok _ 0 _ rfl (by norm_num [tsum]),
    fun _ => Circ.catLeaf_ok _ 1 _ rfl (by norm_num [tsum]), nofun, nofun, trivial⟩

theorem witnessNet_normW : NetNormW witnessNet := by
  unfold NetNormW witnessNet
  simp only [Net.forall_idx_cons, Net.forall_idx_nil]
  exact ⟨nofun, nofun, nofun, nofun, trivial⟩

theorem witnessNet_leafNorm : NetLeafNorm witnessNet [] := by
  unfold NetLeafNorm witnessNet
  simp only [Net.forall_idx_cons, Net.forall_idx_nil]
  exact ⟨fun _ => rfl, fun _ => rfl, nofun, nofun, trivial⟩

end C03
end Deeprob
