import DeeprobModel.Lemmas.MomentLemmas
import DeeprobModel.Lemmas.NetLemmas
set_option linter.unusedSimpArgs false
set_option linter.unusedVariables false
set_option linter.unusedSectionVars false
/-
`momentNet` (stored table, sharing visible) refines `MCirc.moment` of the unfolding, and the unfolding
forgets to the very tree `toTree` that `evalNet` refines.
-/
namespace Deeprob
variable {α : Type} [CommSemiring α]

theorem toMTree_fuel (net : Net α) (dens : List α) (moms : Nat → List α) (hw : WellOrdered net) :
    ∀ i fuel, i < fuel → toMTree net dens moms fuel i = toMTree net dens moms (i+1) i := by
  intro i
  induction i using Nat.strong_induction_on with
  | _ i ih =>
    intro fuel hlt
    obtain ⟨f, rfl⟩ : ∃ f, fuel = f + 1 := ⟨fuel - 1, by omega⟩
    simp only [toMTree]
    cases hn : net[i]? with
    | none => rfl
    | some x =>
      simp only
      have hc := hw i x hn
      have key : x.ch.map (toMTree net dens moms f) = x.ch.map (toMTree net dens moms i) := by
        apply List.map_congr_left; intro c hcm
        have hci := hc c hcm
        rw [ih c hci f (by omega), ih c hci i hci]
      split <;> simp [key]

/-- forgetting the moment functionals of the unfolding gives the unfolding used for evaluation -/
theorem toCirc_toMTree (net : Net α) (dens : List α) (moms : Nat → List α) :
    ∀ fuel i, (toMTree net dens moms fuel i).toCirc = toTree net dens fuel i := by
  intro fuel
  induction fuel with
  | zero => intro i; simp [toMTree, toTree, MCirc.toCirc]
  | succ f ih =>
    intro i
    simp only [toMTree, toTree]
    cases hn : net[i]? with
    | none => simp [MCirc.toCirc]
    | some x =>
      simp only
      cases x.kind <;> simp [MCirc.toCirc, List.map_map, Function.comp_def, ih]

theorem momentNet_prefix (k v : Nat) (dens : List α) (moms : Nat → List α) (net : Net α) (hw : WellOrdered net) :
    ∀ n, n ≤ net.length →
      (net.take n).foldl (fun vals x => vals ++ [momNode k v (moms k) vals x]) []
        = (List.range n).map (fun i => MCirc.moment k v (toMTree net dens moms (i+1) i)) := by
  intro n
  induction n with
  | zero => intro _; simp
  | succ n ih =>
    intro hk
    have hk' : n < net.length := by omega
    rw [List.take_add_one, List.foldl_append, ih (by omega)]
    have hn : net[n]? = some net[n] := by simp [hk']
    simp only [hn, Option.toList_some, List.foldl_cons, List.foldl_nil, List.range_succ, List.map_append,
      List.map_cons, List.map_nil]
    congr 1
    have hc := hw n net[n] hn
    have lookup : ∀ c ∈ (net[n]).ch,
        ((List.range n).map (fun i => MCirc.moment k v (toMTree net dens moms (i+1) i))).getD c 0
          = MCirc.moment k v (toMTree net dens moms n c) := by
      intro c hcm
      have hck := hc c hcm
      rw [List.getD_eq_getElem?_getD, List.getElem?_map, List.getElem?_range hck]
      simp only [Option.map_some, Option.getD_some]
      rw [toMTree_fuel net dens moms hw c n hck]
    have maps : (net[n]).ch.map (fun c => ((List.range n).map (fun i => MCirc.moment k v (toMTree net dens moms (i+1) i))).getD c 0)
        = ((net[n]).ch.map (toMTree net dens moms n)).map (MCirc.moment k v) := by
      rw [List.map_map]; apply List.map_congr_left; intro c hcm; simp only [Function.comp]; exact lookup c hcm
    have hlen : ((List.range n).map (fun i => MCirc.moment k v (toMTree net dens moms (i+1) i))).length = n := by simp
    rw [toMTree]; simp only [hn]
    unfold momNode
    cases hkd : (net[n]).kind
    · simp only [MCirc.moment, maps]
    · simp only [MCirc.moment, maps]
    · simp only [MCirc.moment, hlen]

/-- **DAG ⇒ tree refinement for moments**: entry `i` of the table `momentNet` fills is the tree
recursion on the unfolding of node `i` (shared sub-circuits included). -/
theorem momentNet_refines (k v : Nat) (dens : List α) (moms : Nat → List α) (net : Net α) (hw : WellOrdered net)
    (i : Nat) (hi : i < net.length) :
    (momentNet k v (moms k) net).getD i 0 = MCirc.moment k v (toMTree net dens moms (i+1) i) := by
  have := momentNet_prefix k v dens moms net hw net.length (le_refl _)
  rw [List.take_length] at this
  unfold momentNet; rw [this]
  rw [List.getD_eq_getElem?_getD, List.getElem?_map, List.getElem?_range hi]; rfl

end Deeprob
