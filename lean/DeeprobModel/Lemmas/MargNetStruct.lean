import DeeprobModel.Lemmas.MargNetLemmas
import DeeprobModel.Lemmas.RewriteNetMain
import Mathlib.Data.List.Nodup
set_option linter.unusedSectionVars false
set_option linter.unusedSimpArgs false
set_option linter.unusedVariables false
/-
Structural invariant of the first pass of the net-level `marginalize` (`margPass`, Model/RewriteNet.lean):
the replacement of a node of `P` is `None` iff no kept variable is in its scope, and otherwise a node of the rewritten
table that is smooth / decomposable w.r.t. the REWRITTEN scopes, has a duplicate-free scope equal (as a set) to
`scope ∩ keep`, and whose children are again replacements of nodes of `P`. This is what the final `prune` needs
(`ShapeOK`, `LocalOK` on the set of replacements), see `Props/C10NetMore.lean`.
-/
namespace Deeprob
open Net
variable {α : Type} [CommSemiring α]

/-- local validity of node `r` of the table rewritten by the first pass of `marginalize` -/
def MGoodAt (t : Net α) (rep : List (Option Nat)) (P : Nat → Prop) (r : Nat) : Prop :=
  ∃ y, t[r]? = some y ∧ y.scope.Nodup ∧ (y.kind = .leaf → y.ch = []) ∧
    (y.kind = .sum → y.ch ≠ [] ∧ y.ws.length = y.ch.length ∧ ∀ c ∈ y.ch, scopeEq (scopeOf t c) y.scope) ∧
    (y.kind = .prod → y.ch ≠ [] ∧ (y.ch.map (scopeOf t)).Pairwise List.Disjoint ∧
      scopeEq (y.ch.map (scopeOf t)).flatten y.scope) ∧
    ∀ c ∈ y.ch, ∃ j, j < r ∧ P j ∧ rep.getD j none = some c

/-- structural invariant of the first pass of `marginalize` after `k` nodes -/
structure MSInv (net : Net α) (keep : List Nat) (P : Nat → Prop) (k : Nat) (t : Net α)
    (rep : List (Option Nat)) : Prop where
  lt : t.length = k
  lr : rep.length = k
  ch_lt : ∀ (i : Nat) (y : NNode α), t[i]? = some y → ∀ c ∈ y.ch, c < i
  some_le : ∀ i r, i < k → rep.getD i none = some r → r ≤ i
  none_iff : ∀ i, i < k → P i → (rep.getD i none = none ↔ ∀ v ∈ scopeOf net i, v ∉ keep)
  some_ok : ∀ i r, i < k → P i → rep.getD i none = some r →
    MGoodAt t rep P r ∧ ∀ v, v ∈ scopeOf t r ↔ (v ∈ scopeOf net i ∧ v ∈ keep)

theorem scopeOf_snoc_lt (t : Net α) (y : NNode α) (c : Nat) (h : c < t.length) :
    scopeOf (t ++ [y]) c = scopeOf t c := by
  unfold scopeOf; rw [List.getElem?_append_left h]

theorem mgood_snoc (t : Net α) (rep : List (Option Nat)) (P : Nat → Prop) (r : Nat) (y' : NNode α) (ro : Option Nat)
    (hr : r < t.length) (hl : rep.length = t.length)
    (hch : ∀ (i : Nat) (y : NNode α), t[i]? = some y → ∀ c ∈ y.ch, c < i)
    (h : MGoodAt t rep P r) : MGoodAt (t ++ [y']) (rep ++ [ro]) P r := by
  obtain ⟨y, hy, h1, h2, h3, h4, h5⟩ := h
  have hc : ∀ c ∈ y.ch, c < t.length := fun c hc => by have := hch r y hy c hc; omega
  have hsc : ∀ c ∈ y.ch, scopeOf (t ++ [y']) c = scopeOf t c := fun c hcm => scopeOf_snoc_lt t y' c (hc c hcm)
  have hmap : y.ch.map (scopeOf (t ++ [y'])) = y.ch.map (scopeOf t) := List.map_congr_left hsc
  refine ⟨y, by rw [List.getElem?_append_left hr]; exact hy, h1, h2, ?_, ?_, ?_⟩
  · intro hk
    obtain ⟨a, b, c⟩ := h3 hk
    exact ⟨a, b, fun d hd => by rw [hsc d hd]; exact c d hd⟩
  · intro hk
    rw [hmap]; exact h4 hk
  · intro c hcm
    obtain ⟨j, hj, hPj, hjc⟩ := h5 c hcm
    exact ⟨j, hj, hPj, by rw [getD_snoc_lt rep ro none j (by rw [hl]; omega)]; exact hjc⟩

theorem length_filterMap_of_isSome {β γ : Type} (f : β → Option γ) (l : List β) (h : ∀ a ∈ l, (f a).isSome) :
    (l.filterMap f).length = l.length := by
  induction l with
  | nil => rfl
  | cons a l ih =>
    have ha := h a List.mem_cons_self
    obtain ⟨b, hb⟩ := Option.isSome_iff_exists.1 ha
    rw [List.filterMap_cons_some hb]
    simp [ih (fun c hc => h c (List.mem_cons_of_mem _ hc))]

/-- hypotheses on the nodes of `P` for the first pass: shape, scopes, single-variable leaves -/
structure MargOK (net : Net α) (P : Nat → Prop) : Prop where
  closed : ∀ i, P i → ∀ c ∈ chOf net i, P c
  shape : ShapeOK net P
  loc : LocalOK net P
  leaf1 : ∀ (i : Nat) (x : NNode α), P i → net[i]? = some x → x.kind = .leaf → x.scope.length = 1

theorem msinv_step (net : Net α) (keep : List Nat) (P : Nat → Prop) (hw : WellOrdered net) (hm : MargOK net P)
    (k : Nat) (t : Net α) (rep : List (Option Nat)) (x : NNode α) (hx : net[k]? = some x)
    (I : MSInv net keep P k t rep) :
    MSInv net keep P (k+1) (t ++ [(margStepNet keep t rep k x).1]) (rep ++ [(margStepNet keep t rep k x).2]) := by
  have hchk : ∀ c ∈ x.ch, c < k := hw k x hx
  have hsk : scopeOf net k = x.scope := scopeOf_some net k x hx
  have R_lt : ∀ (ro : Option Nat) i, i < k → (rep ++ [ro]).getD i none = rep.getD i none :=
    fun ro i hi => getD_snoc_lt rep ro none i (by rw [I.lr]; exact hi)
  have R_k : ∀ (ro : Option Nat), (rep ++ [ro]).getD k none = ro := by
    intro ro; have := getD_snoc_eq rep ro none; rw [I.lr] at this; exact this
  -- generic extension: everything about earlier nodes survives
  have extend : ∀ (y : NNode α) (ro : Option Nat),
      (∀ c ∈ y.ch, c < k) → (∀ r, ro = some r → r ≤ k) →
      (P k → (ro = none ↔ ∀ v ∈ x.scope, v ∉ keep)) →
      (P k → ∀ r, ro = some r → MGoodAt (t ++ [y]) (rep ++ [ro]) P r ∧
        ∀ v, v ∈ scopeOf (t ++ [y]) r ↔ (v ∈ x.scope ∧ v ∈ keep)) →
      MSInv net keep P (k+1) (t ++ [y]) (rep ++ [ro]) := by
    intro y ro e1 e2 e3 e4
    refine { lt := by simp [I.lt], lr := by simp [I.lr], ch_lt := ?_, some_le := ?_, none_iff := ?_, some_ok := ?_ }
    · intro i z hz c hc
      rcases getElem?_snoc_cases t y z i hz with ⟨_, h⟩ | ⟨h1, h2⟩
      · exact I.ch_lt i z h c hc
      · subst h2; rw [h1, I.lt]; exact e1 c hc
    · intro i r hi hr
      rcases Nat.lt_or_ge i k with h | h
      · rw [R_lt ro i h] at hr; exact I.some_le i r h hr
      · have : i = k := by omega
        subst this; rw [R_k] at hr; exact e2 r hr
    · intro i hi hPi
      rcases Nat.lt_or_ge i k with h | h
      · rw [R_lt ro i h]; exact I.none_iff i h hPi
      · have : i = k := by omega
        subst this; rw [R_k, hsk]; exact e3 hPi
    · intro i r hi hPi hr
      rcases Nat.lt_or_ge i k with h | h
      · rw [R_lt ro i h] at hr
        obtain ⟨g1, g2⟩ := I.some_ok i r h hPi hr
        have hrk : r < t.length := by have := I.some_le i r h hr; rw [I.lt]; omega
        refine ⟨mgood_snoc t rep P r y ro hrk (by rw [I.lr, I.lt]) I.ch_lt g1, ?_⟩
        intro v; rw [scopeOf_snoc_lt t y r hrk]; exact g2 v
      · have : i = k := by omega
        subst this; rw [R_k] at hr; rw [hsk]; exact e4 hPi r hr
  by_cases hkl : x.kind = .leaf
  · -- leaves
    rw [margStepNet_leaf keep t rep k x hkl]
    apply extend x _ hchk
    · intro r hr; split at hr
      · cases hr; exact Nat.le_refl _
      · cases hr
    · intro hPk
      obtain ⟨v, hv⟩ : ∃ v, x.scope = [v] := by
        have := hm.leaf1 k x hPk hx hkl
        match hs : x.scope, this with
        | [v], _ => exact ⟨v, rfl⟩
      rw [hv]
      simp only [List.headD_cons, List.mem_singleton, forall_eq]
      by_cases hc : keep.contains v = true
      · simp only [hc, if_true]
        constructor
        · intro h; cases h
        · intro h; exact absurd (by simpa using hc) h
      · simp only [hc]
        constructor
        · intro _; simpa using hc
        · intro _; rfl
    · intro hPk r hr
      obtain ⟨v, hv⟩ : ∃ v, x.scope = [v] := by
        have := hm.leaf1 k x hPk hx hkl
        match hs : x.scope, this with
        | [v], _ => exact ⟨v, rfl⟩
      have hc : keep.contains v = true := by
        by_contra hc
        rw [hv] at hr; simp only [List.headD_cons, hc] at hr; cases hr
      have hrk : r = k := by
        rw [hv] at hr; simp only [List.headD_cons, hc, if_true] at hr; exact (Option.some.inj hr).symm
      subst hrk
      have hget : (t ++ [x])[r]? = some x := by
        rw [List.getElem?_append_right (Nat.le_of_eq I.lt), I.lt]; simp
      refine ⟨⟨x, hget, by rw [hv]; simp, fun _ => (hm.shape r x hPk hx).2.2 hkl, ?_, ?_, ?_⟩, ?_⟩
      · intro h; rw [hkl] at h; cases h
      · intro h; rw [hkl] at h; cases h
      · intro c hc'; rw [(hm.shape r x hPk hx).2.2 hkl] at hc'; cases hc'
      · intro v'
        rw [scopeOf_some _ r x hget, hv]
        simp only [List.mem_singleton]
        constructor
        · intro h; subst h; exact ⟨rfl, by simpa using hc⟩
        · intro h; exact h.1
  · -- inner nodes
    rw [margStepNet_inner keep t rep k x hkl]
    generalize hcn : x.ch.filterMap (fun c => rep.getD c none) = cn
    have hcnmem : ∀ r', r' ∈ cn ↔ ∃ c ∈ x.ch, rep.getD c none = some r' := by
      intro r'; rw [← hcn, List.mem_filterMap]
    have hcnlt : ∀ r' ∈ cn, r' < k := by
      intro r' hr'
      obtain ⟨c, hc, hcr⟩ := (hcnmem r').1 hr'
      have := I.some_le c r' (hchk c hc) hcr
      have := hchk c hc; omega
    -- the branches as far as `ch_lt` / `some_le` are concerned
    have hbase : (∀ c ∈ (margNode t k x cn).1.ch, c < k) ∧ (∀ r, (margNode t k x cn).2 = some r → r ≤ k) := by
      unfold margNode
      match cn, hcnlt with
      | [], _ => exact ⟨hchk, fun r h => by cases h⟩
      | [c], h => exact ⟨hchk, fun r hr => by cases hr; exact Nat.le_of_lt (h c (by simp))⟩
      | c0 :: c1 :: rest, h =>
        constructor
        · intro c hc
          by_cases hp : x.kind = .prod
          · simp only [hp, if_true] at hc; exact h c hc
          · simp only [hp, if_false] at hc; exact h c hc
        · intro r hr; simp only [Option.some.injEq] at hr; omega
    by_cases hPk : P k
    swap
    · exact extend _ _ hbase.1 hbase.2 (fun h => absurd h hPk) (fun h => absurd h hPk)
    -- facts about the children
    have hPc : ∀ c ∈ x.ch, P c := fun c hc => hm.closed k hPk c (by rw [chOf_some net k x hx]; exact hc)
    obtain ⟨hshS, hshP, _⟩ := hm.shape k x hPk hx
    obtain ⟨hloS, hloP⟩ := hm.loc k x hPk hx
    have h3k : x.kind = .sum ∨ x.kind = .prod := by
      cases hk : x.kind
      · exact Or.inl rfl
      · exact Or.inr rfl
      · exact absurd hk hkl
    -- a variable of the node's scope lies in the scope of a child, and conversely
    have hdown : ∀ v, v ∈ x.scope → ∃ c ∈ x.ch, v ∈ scopeOf net c := by
      intro v hv
      rcases h3k with hk | hk
      · obtain ⟨hne, _⟩ := hshS hk
        obtain ⟨c, hc⟩ := List.exists_mem_of_ne_nil _ hne
        exact ⟨c, hc, ((hloS hk c hc) v).2 hv⟩
      · exact (mem_flatten_map_sc _ _ v).1 (((hloP hk).2 v).2 hv)
    have hup : ∀ c ∈ x.ch, ∀ v, v ∈ scopeOf net c → v ∈ x.scope := by
      intro c hc v hv
      rcases h3k with hk | hk
      · exact ((hloS hk c hc) v).1 hv
      · exact ((hloP hk).2 v).1 ((mem_flatten_map_sc _ _ v).2 ⟨c, hc, hv⟩)
    -- (U): kept variables of the node = variables of the surviving children
    have hU : ∀ v, (v ∈ x.scope ∧ v ∈ keep) ↔ ∃ r' ∈ cn, v ∈ scopeOf t r' := by
      intro v
      constructor
      · rintro ⟨hv, hvk⟩
        obtain ⟨c, hc, hvc⟩ := hdown v hv
        have hck := hchk c hc
        cases hrc : rep.getD c none with
        | none => exact absurd hvk ((I.none_iff c hck (hPc c hc)).1 hrc v hvc)
        | some r' =>
          exact ⟨r', (hcnmem r').2 ⟨c, hc, hrc⟩, ((I.some_ok c r' hck (hPc c hc) hrc).2 v).2 ⟨hvc, hvk⟩⟩
      · rintro ⟨r', hr', hv⟩
        obtain ⟨c, hc, hrc⟩ := (hcnmem r').1 hr'
        obtain ⟨h1, h2⟩ := ((I.some_ok c r' (hchk c hc) (hPc c hc) hrc).2 v).1 hv
        exact ⟨hup c hc v h1, h2⟩
    -- every surviving child has a kept variable
    have hne : ∀ r' ∈ cn, ∃ v, v ∈ scopeOf t r' := by
      intro r' hr'
      obtain ⟨c, hc, hrc⟩ := (hcnmem r').1 hr'
      have hnn : ¬ (∀ v ∈ scopeOf net c, v ∉ keep) := by
        intro h
        have := (I.none_iff c (hchk c hc) (hPc c hc)).2 h
        rw [hrc] at this; cases this
      have hex : ∃ v, v ∈ scopeOf net c ∧ v ∈ keep := by
        by_contra hcon; exact hnn (fun v hv hvk => hcon ⟨v, hv, hvk⟩)
      obtain ⟨v, hv1, hv2⟩ := hex
      exact ⟨v, ((I.some_ok c r' (hchk c hc) (hPc c hc) hrc).2 v).2 ⟨hv1, hv2⟩⟩
    have hgoodc : ∀ r' ∈ cn, MGoodAt t rep P r' := by
      intro r' hr'
      obtain ⟨c, hc, hrc⟩ := (hcnmem r').1 hr'
      exact (I.some_ok c r' (hchk c hc) (hPc c hc) hrc).1
    apply extend _ _ hbase.1 hbase.2
    · -- `None` iff no kept variable
      intro _
      unfold margNode
      match hcn' : cn with
      | [] =>
        simp only [true_iff]
        intro v hv hvk
        obtain ⟨r', hr', _⟩ := (hU v).1 ⟨hv, hvk⟩
        cases hr'
      | [c] =>
        simp only [false_iff, reduceCtorEq]
        intro h
        obtain ⟨v, hv⟩ := hne c (by simp)
        obtain ⟨h1, h2⟩ := (hU v).2 ⟨c, by simp, hv⟩
        exact h v h1 h2
      | c0 :: c1 :: rest =>
        simp only [false_iff, reduceCtorEq]
        intro h
        obtain ⟨v, hv⟩ := hne c0 (by simp)
        obtain ⟨h1, h2⟩ := (hU v).2 ⟨c0, by simp, hv⟩
        exact h v h1 h2
    · intro _ r hr
      unfold margNode at hr ⊢
      match hcn' : cn, hr with
      | [c], hr =>
        simp only [Option.some.injEq] at hr
        subst hr
        dsimp only
        have hck : c < t.length := by rw [I.lt]; exact hcnlt c (by simp)
        refine ⟨mgood_snoc t rep P c _ _ hck (by rw [I.lr, I.lt]) I.ch_lt (hgoodc c (by simp)), ?_⟩
        intro v
        rw [scopeOf_snoc_lt t _ c hck, hU v]
        simp
      | c0 :: c1 :: rest, hr =>
        simp only [Option.some.injEq] at hr
        subst hr
        dsimp only
        -- the rebuilt node
        have hlen : (t ++ [(if x.kind = .prod then
            { x with scope := ((c0 :: c1 :: rest).map (scopeAt t)).flatten, ch := c0 :: c1 :: rest }
            else { x with scope := scopeAt t c0, ch := c0 :: c1 :: rest } : NNode α)]).length = k + 1 := by simp [I.lt]
        have hsc' : ∀ (y : NNode α), ∀ c ∈ (c0 :: c1 :: rest), scopeOf (t ++ [y]) c = scopeOf t c :=
          fun y c hc => scopeOf_snoc_lt t y c (by rw [I.lt]; exact hcnlt c hc)
        have hkids : ∀ c ∈ (c0 :: c1 :: rest), ∃ j, j < k ∧ P j ∧ (rep ++ [some k]).getD j none = some c := by
          intro c hc
          obtain ⟨j, hj, hjc⟩ := (hcnmem c).1 hc
          exact ⟨j, hchk j hj, hPc j hj, by rw [R_lt _ j (hchk j hj)]; exact hjc⟩
        have hndc : ∀ c ∈ (c0 :: c1 :: rest), (scopeOf t c).Nodup := by
          intro c hc
          obtain ⟨y, hy, h1, _⟩ := hgoodc c hc
          rw [scopeOf_some t c y hy]; exact h1
        rcases h3k with hks | hkp
        · -- sum: all children survive and have the scope of the first one
          have hnp : ¬ x.kind = .prod := by rw [hks]; simp
          rw [if_neg hnp]
          have hget : (t ++ [({ x with scope := scopeAt t c0, ch := c0 :: c1 :: rest } : NNode α)])[k]?
              = some { x with scope := scopeAt t c0, ch := c0 :: c1 :: rest } := by
            rw [List.getElem?_append_right (Nat.le_of_eq I.lt), I.lt]; simp
          -- scope of every surviving child = kept part of the node's scope
          have hall : ∀ c ∈ (c0 :: c1 :: rest), ∀ v, v ∈ scopeOf t c ↔ (v ∈ x.scope ∧ v ∈ keep) := by
            intro c hc v
            obtain ⟨j, hj, hjc⟩ := (hcnmem c).1 hc
            rw [(I.some_ok j c (hchk j hj) (hPc j hj) hjc).2 v]
            constructor
            · rintro ⟨h1, h2⟩; exact ⟨hup j hj v h1, h2⟩
            · rintro ⟨h1, h2⟩; exact ⟨((hloS hks j hj) v).2 h1, h2⟩
          have hsome : ∀ c ∈ x.ch, (rep.getD c none).isSome := by
            intro c hc
            obtain ⟨v, hv⟩ := hne c0 (by simp)
            obtain ⟨h1, h2⟩ := (hall c0 (by simp) v).1 hv
            cases hrc : rep.getD c none with
            | some _ => rfl
            | none =>
              exact absurd h2 ((I.none_iff c (hchk c hc) (hPc c hc)).1 hrc v (((hloS hks c hc) v).2 h1))
          have hlenc : (c0 :: c1 :: rest).length = x.ch.length := by
            rw [← hcn]; exact length_filterMap_of_isSome _ _ hsome
          refine ⟨⟨_, hget, ?_, ?_, ?_, ?_, ?_⟩, ?_⟩
          · show (scopeAt t c0).Nodup
            exact hndc c0 (by simp)
          · intro h; rw [hks] at h; cases h
          · intro _
            refine ⟨by simp, ?_, ?_⟩
            · show x.ws.length = (c0 :: c1 :: rest).length
              rw [hlenc]; exact (hshS hks).2
            · intro c hc v
              show v ∈ scopeOf _ c ↔ v ∈ scopeAt t c0
              rw [hsc' _ c hc, hall c hc v]
              exact (hall c0 (by simp) v).symm
          · intro h; rw [hks] at h; cases h
          · exact hkids
          · intro v
            rw [scopeOf_some _ k _ hget]
            exact hall c0 (by simp) v
        · -- product
          rw [if_pos hkp]
          have hget : (t ++ [({ x with scope := ((c0 :: c1 :: rest).map (scopeAt t)).flatten,
                                         ch := c0 :: c1 :: rest } : NNode α)])[k]?
              = some { x with scope := ((c0 :: c1 :: rest).map (scopeAt t)).flatten, ch := c0 :: c1 :: rest } := by
            rw [List.getElem?_append_right (Nat.le_of_eq I.lt), I.lt]; simp
          have hpw : ((c0 :: c1 :: rest).map (scopeOf t)).Pairwise List.Disjoint := by
            rw [List.pairwise_map, ← hcn, List.pairwise_filterMap]
            have h0 := (hloP hkp).1
            rw [List.pairwise_map] at h0
            apply List.Pairwise.imp_of_mem _ h0
            intro a b ha hb hdis r1 hr1 r2 hr2 v hv1 hv2
            have g1 := ((I.some_ok a r1 (hchk a ha) (hPc a ha) hr1).2 v).1 hv1
            have g2 := ((I.some_ok b r2 (hchk b hb) (hPc b hb) hr2).2 v).1 hv2
            exact hdis g1.1 g2.1
          have hmapeq : ∀ (y : NNode α), (c0 :: c1 :: rest).map (scopeOf (t ++ [y])) = (c0 :: c1 :: rest).map (scopeOf t) :=
            fun y => List.map_congr_left (hsc' y)
          refine ⟨⟨_, hget, ?_, ?_, ?_, ?_, ?_⟩, ?_⟩
          · show (((c0 :: c1 :: rest).map (scopeAt t)).flatten).Nodup
            rw [List.nodup_flatten]
            refine ⟨?_, hpw⟩
            intro l hl
            simp only [List.mem_map] at hl
            obtain ⟨c, hc, rfl⟩ := hl
            exact hndc c hc
          · intro h; simp only [hkp] at h; cases h
          · intro h; simp only [hkp] at h; cases h
          · intro _
            refine ⟨by simp, ?_, ?_⟩
            · show ((c0 :: c1 :: rest).map (scopeOf _)).Pairwise List.Disjoint
              rw [hmapeq]; exact hpw
            · show scopeEq ((c0 :: c1 :: rest).map (scopeOf _)).flatten ((c0 :: c1 :: rest).map (scopeAt t)).flatten
              rw [hmapeq]; exact scopeEq.rfl'
          · exact hkids
          · intro v
            rw [scopeOf_some _ k _ hget, hU v]
            show v ∈ ((c0 :: c1 :: rest).map (scopeOf t)).flatten ↔ _
            exact mem_flatten_map_sc _ _ v

theorem msinv_pass (net : Net α) (keep : List Nat) (P : Nat → Prop) (hw : WellOrdered net) (hm : MargOK net P) :
    ∀ k, k ≤ net.length → MSInv net keep P k (margPass keep (net.take k)).1 (margPass keep (net.take k)).2 := by
  intro k
  induction k with
  | zero =>
    intro _
    simp only [List.take_zero, margPass, List.foldl_nil]
    exact { lt := rfl, lr := rfl, ch_lt := by intro i y h; simp at h, some_le := by intro i r hi; omega,
            none_iff := by intro i hi; omega, some_ok := by intro i r hi; omega }
  | succ k ih =>
    intro hk
    have hk' : k < net.length := by omega
    have hx : net[k]? = some net[k] := List.getElem?_eq_getElem hk'
    have I := ih (by omega)
    rw [take_succ_snoc net k _ hx, margPass_snoc, I.lt]
    exact msinv_step net keep P hw hm k _ _ _ hx I

theorem msinv_final (net : Net α) (keep : List Nat) (P : Nat → Prop) (hw : WellOrdered net) (hm : MargOK net P) :
    MSInv net keep P net.length (margPass keep net).1 (margPass keep net).2 := by
  have := msinv_pass net keep P hw hm net.length (Nat.le_refl _)
  rwa [List.take_length] at this

/-- the replacements of the nodes of `P` after the first pass -/
def MRepOf (n : Nat) (rep : List (Option Nat)) (P : Nat → Prop) (r : Nat) : Prop :=
  ∃ j, j < n ∧ P j ∧ rep.getD j none = some r

/-- **what the final `prune` of `marginalize` finds**: the table left by the first pass is children-first, and on
the set of replacements (closed under children) it has the shape and the scopes `check_spn` asks for, with
duplicate-free scopes -/
theorem margPass_ready (net : Net α) (keep : List Nat) (P : Nat → Prop) (hw : WellOrdered net) (hm : MargOK net P) :
    WellOrdered (margPass keep net).1 ∧ (margPass keep net).1.length = net.length ∧
    (∀ i, MRepOf net.length (margPass keep net).2 P i →
      ∀ c ∈ chOf (margPass keep net).1 i, MRepOf net.length (margPass keep net).2 P c) ∧
    ShapeOK (margPass keep net).1 (MRepOf net.length (margPass keep net).2 P) ∧
    LocalOK (margPass keep net).1 (MRepOf net.length (margPass keep net).2 P) ∧
    (∀ i, MRepOf net.length (margPass keep net).2 P i → (scopeOf (margPass keep net).1 i).Nodup ∧ i < net.length) := by
  have I := msinv_final net keep P hw hm
  generalize (margPass keep net).1 = t at I
  generalize (margPass keep net).2 = rep at I
  have hgood : ∀ i, MRepOf net.length rep P i → MGoodAt t rep P i ∧ i < net.length := by
    rintro i ⟨j, hj, hPj, hji⟩
    exact ⟨(I.some_ok j i hj hPj hji).1, by have := I.some_le j i hj hji; omega⟩
  refine ⟨I.ch_lt, I.lt, ?_, ?_, ?_, ?_⟩
  · intro i hi c hc
    obtain ⟨⟨y, hy, _, _, _, _, h5⟩, hlt⟩ := hgood i hi
    rw [chOf_some t i y hy] at hc
    obtain ⟨j, hj, hPj, hjc⟩ := h5 c hc
    exact ⟨j, by omega, hPj, hjc⟩
  · intro i x hi hx
    obtain ⟨⟨y, hy, _, h2, h3, h4, _⟩, _⟩ := hgood i hi
    rw [hx] at hy; cases hy
    exact ⟨fun hk => ⟨(h3 hk).1, (h3 hk).2.1⟩, fun hk => (h4 hk).1, h2⟩
  · intro i x hi hx
    obtain ⟨⟨y, hy, _, _, h3, h4, _⟩, _⟩ := hgood i hi
    rw [hx] at hy; cases hy
    exact ⟨fun hk => (h3 hk).2.2, fun hk => (h4 hk).2⟩
  · intro i hi
    obtain ⟨⟨y, hy, h1, _⟩, hlt⟩ := hgood i hi
    rw [scopeOf_some t i y hy]; exact ⟨h1, hlt⟩

/-! ### reading the hypotheses off `check_spn` and the argument checks -/

theorem margUnsupported_none (net : Net α) (nodes : List Nat) (h : margUnsupported net nodes = none) :
    ∀ i ∈ nodes, ∀ x, net[i]? = some x → x.kind = .leaf → x.scope.length = 1 := by
  unfold margUnsupported at h
  rw [List.findSome?_eq_none_iff] at h
  intro i hi x hx hk
  have := h i hi
  simp only [hx, hk, if_true] at this
  cases hl : x.leaf <;> rw [hl] at this <;> simp at this <;> exact this

/-- the hypotheses of the first pass, read off `check_spn` and the `unsupported` test -/
theorem margOK_of_accept (net : Net α) (root : Nat) (hw : WellOrdered net)
    (hacc : Net.checkSpn net root true true true = .accept)
    (hleaf : ∀ i ∈ collect net root, ∀ x, net[i]? = some x → x.kind = .leaf → x.ch = [])
    (hun : margUnsupported net (collect net root) = none) :
    MargOK net (fun i => i ∈ collect net root) :=
  { closed := fun i hi c hc => collect_closed net root (inRange_of_wellOrdered net hw) i c hi hc
    shape := shapeOK_of_accept net root true hacc hleaf
    loc := localOK_of_accept net root true hacc
    leaf1 := fun i x hi hx hk => margUnsupported_none net _ hun i hi x hx hk }

theorem margGuard_none (keep scope : List Nat) (h : margGuard keep scope = none) :
    keep ≠ [] ∧ ∀ v ∈ keep, v ∈ scope := by
  unfold margGuard at h
  split at h
  · cases h
  · split at h
    · cases h
    · split at h
      · cases h
      · rename_i h1 _ h3
        constructor
        · intro h0; rw [h0] at h1; simp at h1
        · have hall : keep.all (fun v => scope.contains v) = true := by simpa using h3
          rw [List.all_eq_true] at hall
          intro v hv
          simpa using hall v hv


end Deeprob
