import DeeprobModel.Model.RewriteNet
import DeeprobModel.Model.AssignIds
import DeeprobModel.Spec.ValidSpec
import DeeprobModel.Lemmas.LayersLemmas
import DeeprobModel.Lemmas.CheckLemmas
import DeeprobModel.Lemmas.MpeNetRefines
import Mathlib.Data.List.Basic
import Mathlib.Data.List.Perm.Subperm
import Mathlib.Data.List.Nodup
import Mathlib.Data.List.Flatten
import Mathlib.Tactic.Common
import Mathlib.Tactic.Linarith
set_option linter.unusedSimpArgs false
set_option linter.unusedVariables false
set_option linter.unusedSectionVars false
/-
Correctness of the modelled `topological_order` (`Net.kahn`, Model/RewriteNet.lean) and totality of the
modelled `topological_order_layered` (`Sched.layers`, Model/Sched.lean) on acyclic tables.

* `kahn_spec`   : whenever `kahn` returns `some ord` (children in range; NO acyclicity assumption):
                  `ord` is duplicate-free, lists exactly `collect t root`, starts with the root and no edge
                  leads from a listed node to itself or to an earlier one.
* `kahn_some_of`: on children-first (`WellOrdered`, hence acyclic) tables `kahn` never reports a cycle.
* `layers_some_of` : the same for `Sched.layers` (fuel is never exhausted, the final sum test passes).
* `topoOrd_of_noBack` : duplicate-free + closed + no back edge ⇒ `TopoOrd` (the hypothesis of
                  `C06.mpeNetOrd_refines`).
* `relabel` / `assignIds` : `assign_ids` (ids = position in the Kahn order) and `isLabeled … = none`.
-/
namespace Deeprob
namespace Net
open List Sched

variable {α : Type}

/-! ### counters as lists: `getD` after `set` -/

theorem getD_set_nat (cnt : List Nat) (c k v : Nat) :
    (cnt.set c k).getD v 0 = if v = c ∧ c < cnt.length then k else cnt.getD v 0 := by
  simp only [List.getD_eq_getElem?_getD, List.getElem?_set]
  by_cases hvc : v = c
  · subst hvc
    by_cases hl : v < cnt.length
    · simp [hl]
    · simp [hl]
  · have : ¬ c = v := fun h => hvc h.symm
    simp [hvc, this]

/-! ### `num_outgoings` after the counting loop -/

theorem incr_length (cnt : List Nat) (c : Nat) : (incr cnt c).length = cnt.length := by
  unfold incr; simp

theorem incr_getD (cnt : List Nat) (c v : Nat) (hc : c < cnt.length) :
    (incr cnt c).getD v 0 = cnt.getD v 0 + (if v = c then 1 else 0) := by
  unfold incr
  rw [getD_set_nat]
  by_cases h : v = c
  · subst h; simp [hc]
  · simp [h]

theorem foldl_incr (es : List Nat) : ∀ (cnt : List Nat), (∀ c ∈ es, c < cnt.length) →
    (es.foldl incr cnt).length = cnt.length ∧
      ∀ v, (es.foldl incr cnt).getD v 0 = cnt.getD v 0 + count v es := by
  induction es with
  | nil => intro cnt _; simp
  | cons c es ih =>
    intro cnt h
    have hc : c < cnt.length := h c (mem_cons_self ..)
    obtain ⟨h1, h2⟩ := ih (incr cnt c) (fun x hx => by rw [incr_length]; exact h x (mem_cons_of_mem _ hx))
    rw [foldl_cons]
    refine ⟨by rw [h1, incr_length], fun v => ?_⟩
    rw [h2 v, incr_getD cnt c v hc, count_cons]
    by_cases hv : v = c
    · subst hv; simp; omega
    · have : (c == v) = false := by simp [Ne.symm hv]
      simp [hv, this]

theorem foldl_foldl_flatMap {β γ : Type} (f : γ → List Nat) (g : β → Nat → β) (l : List γ) (init : β) :
    l.foldl (fun acc i => (f i).foldl g acc) init = (l.flatMap f).foldl g init := by
  induction l generalizing init with
  | nil => rfl
  | cons a l ih => simp [ih, foldl_append]

theorem kahnCounts_eq (t : Net α) (root : Nat) :
    kahnCounts t root = (edgesOf t (collect t root)).foldl incr (List.replicate t.length 0) := by
  unfold kahnCounts edgesOf
  exact foldl_foldl_flatMap _ _ _ _

/-- in-range children: what `collect_closed` & co. need -/
def InRange (t : Net α) : Prop := ∀ a, ∀ c ∈ chOf t a, c < t.length

theorem edgesOf_lt (t : Net α) (h : InRange t) (P : List Nat) : ∀ c ∈ edgesOf t P, c < t.length := by
  intro c hc
  obtain ⟨p, _, hcp⟩ := mem_flatMap.1 hc
  exact h p c hcp

theorem kahnCounts_spec (t : Net α) (root : Nat) (h : InRange t) :
    (kahnCounts t root).length = t.length ∧
      ∀ v, (kahnCounts t root).getD v 0 = count v (edgesOf t (collect t root)) := by
  rw [kahnCounts_eq]
  obtain ⟨h1, h2⟩ := foldl_incr (edgesOf t (collect t root)) (List.replicate t.length 0)
    (fun c hc => by simpa using edgesOf_lt t h _ c hc)
  refine ⟨by simpa using h1, fun v => ?_⟩
  rw [h2 v]
  simp [List.getD_eq_getElem?_getD, List.getElem?_replicate]
  split <;> simp

/-! ### one visit: `for c in node.children: num_outgoings[c] -= 1; if … == 0: queue.append(c)` -/

def kstep (st : List Nat × List Nat) (c : Nat) : List Nat × List Nat :=
  (st.1.set c (st.1.getD c 0 - 1), if st.1.getD c 0 == 1 then st.2 ++ [c] else st.2)

theorem kahnVisit_eq (cnt ch : List Nat) : kahnVisit cnt ch = ch.foldl kstep (cnt, []) := rfl

theorem kstep_fst (st : List Nat × List Nat) (c v : Nat) :
    (kstep st c).1.getD v 0 = st.1.getD v 0 - (if v = c then 1 else 0) := by
  unfold kstep
  simp only
  rw [getD_set_nat]
  by_cases h : v = c
  · subst h
    by_cases hl : v < st.1.length
    · rw [if_pos ⟨rfl, hl⟩, if_pos rfl]
    · have : st.1.getD v 0 = 0 := by
        simp [List.getD_eq_getElem?_getD, List.getElem?_eq_none (Nat.le_of_not_lt hl)]
      rw [if_neg (fun hh => hl hh.2), if_pos rfl]; omega
  · rw [if_neg (fun hh => h hh.1), if_neg h]; omega

theorem kstep_snd (st : List Nat × List Nat) (c : Nat) :
    (kstep st c).2 = if st.1.getD c 0 = 1 then st.2 ++ [c] else st.2 := by
  unfold kstep
  by_cases h : st.1.getD c 0 = 1 <;> simp [h]

theorem kstep_length (st : List Nat × List Nat) (c : Nat) : (kstep st c).1.length = st.1.length := by
  unfold kstep; simp

theorem kfold_fst (es : List Nat) (st : List Nat × List Nat) (v : Nat) :
    (es.foldl kstep st).1.getD v 0 = st.1.getD v 0 - count v es := by
  induction es generalizing st with
  | nil => simp
  | cons c es ih =>
    rw [foldl_cons, ih, kstep_fst, count_cons]
    by_cases h : v = c
    · subst h; simp; omega
    · have : (c == v) = false := by simp [Ne.symm h]
      simp [h, this]

/-- every node already listed (visited, queued or just appended) has counter zero -/
def KGood (listed : List Nat) (st : List Nat × List Nat) : Prop :=
  (listed ++ st.2).Nodup ∧ ∀ v ∈ listed ++ st.2, st.1.getD v 0 = 0

theorem kgood_step (listed : List Nat) (st : List Nat × List Nat) (c : Nat) (h : KGood listed st) :
    KGood listed (kstep st c) := by
  obtain ⟨hn, hz⟩ := h
  refine ⟨?_, ?_⟩
  · rw [kstep_snd]
    by_cases h1 : st.1.getD c 0 = 1
    · rw [if_pos h1, ← append_assoc]
      refine Nodup.append hn (nodup_singleton c) ?_
      intro x hx hx'
      rw [mem_singleton] at hx'; subst hx'
      have := hz x hx; omega
    · rw [if_neg h1]; exact hn
  · intro v hv
    rw [kstep_fst]
    rw [kstep_snd] at hv
    by_cases h1 : st.1.getD c 0 = 1
    · rw [if_pos h1, ← append_assoc, mem_append, mem_singleton] at hv
      rcases hv with hv | rfl
      · have := hz v hv; omega
      · rw [if_pos rfl]; omega
    · rw [if_neg h1] at hv
      have := hz v hv; omega

theorem kgood_fold (listed : List Nat) (es : List Nat) (st : List Nat × List Nat) (h : KGood listed st) :
    KGood listed (es.foldl kstep st) := by
  induction es generalizing st with
  | nil => exact h
  | cons c es ih => exact ih _ (kgood_step listed st c h)

theorem kfold_snd_mono (es : List Nat) (st : List Nat × List Nat) :
    ∀ v ∈ st.2, v ∈ (es.foldl kstep st).2 := by
  induction es generalizing st with
  | nil => intro v hv; exact hv
  | cons c es ih =>
    intro v hv
    refine ih _ v ?_
    rw [kstep_snd]; split
    · exact mem_append_left _ hv
    · exact hv

theorem kfold_snd_sub (es : List Nat) (st : List Nat × List Nat) :
    ∀ v ∈ (es.foldl kstep st).2, v ∈ st.2 ∨ v ∈ es := by
  induction es generalizing st with
  | nil => intro v hv; exact Or.inl hv
  | cons c es ih =>
    intro v hv
    rcases ih _ v hv with h | h
    · rw [kstep_snd] at h
      split at h
      · rcases mem_append.1 h with h | h
        · exact Or.inl h
        · rw [mem_singleton] at h; subst h; exact Or.inr (mem_cons_self ..)
      · exact Or.inl h
    · exact Or.inr (mem_cons_of_mem _ h)

/-- a counter that starts positive and ends at zero has passed through `1 → 0`: the node was appended -/
theorem kfold_hit (es : List Nat) (st : List Nat × List Nat) (v : Nat)
    (h0 : 0 < st.1.getD v 0) (h1 : (es.foldl kstep st).1.getD v 0 = 0) : v ∈ (es.foldl kstep st).2 := by
  induction es generalizing st with
  | nil => rw [foldl_nil] at h1; omega
  | cons c es ih =>
    rw [foldl_cons] at h1 ⊢
    by_cases hp : 0 < (kstep st c).1.getD v 0
    · exact ih _ hp h1
    · refine kfold_snd_mono es _ v ?_
      rw [kstep_fst] at hp
      have hvc : v = c := by
        by_contra hne; rw [if_neg hne] at hp; omega
      subst hvc
      rw [if_pos rfl] at hp
      rw [kstep_snd, if_pos (by omega)]
      exact mem_append_right _ (mem_singleton_self _)

theorem all_zero_iff (l : List Nat) : l.all (fun k => k == 0) = true ↔ ∀ v, l.getD v 0 = 0 := by
  simp only [all_eq_true, beq_iff_eq]
  constructor
  · intro h v
    by_cases hv : v < l.length
    · rw [List.getD_eq_getElem?_getD, List.getElem?_eq_getElem hv]
      exact h _ (getElem_mem hv)
    · simp [List.getD_eq_getElem?_getD, List.getElem?_eq_none (Nat.le_of_not_lt hv)]
  · intro h k hk
    obtain ⟨i, hi, rfl⟩ := getElem_of_mem hk
    have := h i
    rwa [List.getD_eq_getElem?_getD, List.getElem?_eq_getElem hi] at this

/-! ### the `while queue:` loop -/

section loop
variable (t : Net α) (root : Nat)

/-- loop invariant of `kahnLoop`; `R = collect t root`, `q` = queue, `ord` = ordering so far -/
structure KInv (R q cnt ord : List Nat) : Prop where
  nodup : (ord ++ q).Nodup
  sub : ∀ v ∈ ord ++ q, v ∈ R
  cnt_eq : ∀ v, cnt.getD v 0 = count v (edgesOf t R) - count v (edgesOf t ord)
  zero : ∀ v ∈ ord ++ q, cnt.getD v 0 = 0
  hit : ∀ v, 0 < count v (edgesOf t R) → cnt.getD v 0 = 0 → v ∈ ord ++ q
  noback : (ord ++ q).Pairwise (fun a b => a ∉ chOf t b)
  noself : ∀ a ∈ ord ++ q, a ∉ chOf t a
  head : (ord ++ q).head? = some root

theorem kinv_step (R : List Nat) (hcl : ∀ p ∈ R, ∀ c ∈ chOf t p, c ∈ R) (a : Nat) (qs cnt ord : List Nat)
    (h : KInv t root R (a :: qs) cnt ord) :
    KInv t root R (qs ++ (kahnVisit cnt (chOf t a)).2) (kahnVisit cnt (chOf t a)).1 (ord ++ [a]) := by
  have hre : ∀ new : List Nat, (ord ++ [a]) ++ (qs ++ new) = (ord ++ a :: qs) ++ new := by
    intro new; simp
  rw [kahnVisit_eq]
  generalize hr : (chOf t a).foldl kstep (cnt, []) = r
  have hgood0 : KGood (ord ++ a :: qs) (cnt, []) :=
    ⟨by simpa using h.nodup, fun v hv => by simp only [append_nil] at hv; exact h.zero v hv⟩
  have hgood : KGood (ord ++ a :: qs) r := by rw [← hr]; exact kgood_fold _ _ _ hgood0
  have ha : a ∈ R := h.sub a (by simp)
  have hnew_sub : ∀ v ∈ r.2, v ∈ R := by
    intro v hv
    rw [← hr] at hv
    rcases kfold_snd_sub _ _ v hv with h0 | h0
    · simp at h0
    · exact hcl a ha v h0
  have hcnt : ∀ v, r.1.getD v 0 = count v (edgesOf t R) - count v (edgesOf t (ord ++ [a])) := by
    intro v
    rw [← hr, kfold_fst, edgesOf_append, count_append]
    show cnt.getD v 0 - _ = _
    rw [h.cnt_eq v]
    have : edgesOf t [a] = chOf t a := by unfold edgesOf; simp
    rw [this]; omega
  have hnd1 : (ord ++ [a]).Nodup := by
    have := h.nodup
    rw [append_cons] at this
    exact (nodup_append.1 this).1
  have hclaim : ∀ p ∈ r.2, ∀ c ∈ chOf t p, c ∉ (ord ++ a :: qs) ++ r.2 := by
    intro p hp c hc hmem
    have hz := hgood.2 c hmem
    rw [hcnt c] at hz
    have hpn : p ∉ ord ++ [a] := by
      intro hin
      have hin' : p ∈ ord ++ a :: qs := by
        rw [append_cons]; exact mem_append_left _ hin
      exact (nodup_append.1 hgood.1).2.2 p hin' p hp rfl
    have hd : ((ord ++ [a]) ++ [p]).Nodup :=
      Nodup.append hnd1 (nodup_singleton p)
        (by intro x hx hx'; rw [mem_singleton] at hx'; subst hx'; exact hpn hx)
    have hs : (ord ++ [a]) ++ [p] ⊆ R := by
      intro x hx
      rcases mem_append.1 hx with hx | hx
      · exact h.sub x (by rw [append_cons]; exact mem_append_left _ hx)
      · rw [mem_singleton] at hx; subst hx; exact hnew_sub x hp
    have hcap := capacity t _ R hd hs c
    rw [edgesOf_append, count_append] at hcap
    have h1 : 1 ≤ count c (edgesOf t [p]) := by
      unfold edgesOf
      simp only [flatMap_cons, flatMap_nil, append_nil]
      exact count_pos_iff.2 hc
    omega
  refine ⟨?_, ?_, hcnt, ?_, ?_, ?_, ?_, ?_⟩
  · rw [hre]; exact hgood.1
  · rw [hre]; intro v hv
    rcases mem_append.1 hv with hv | hv
    · exact h.sub v hv
    · exact hnew_sub v hv
  · rw [hre]; exact hgood.2
  · rw [hre]; intro v hpos hz
    by_cases hc : cnt.getD v 0 = 0
    · exact mem_append_left _ (h.hit v hpos hc)
    · refine mem_append_right _ ?_
      rw [← hr] at hz ⊢
      exact kfold_hit _ _ v (by simpa using Nat.pos_of_ne_zero hc) hz
  · rw [hre, pairwise_append]
    refine ⟨h.noback, ?_, ?_⟩
    · rw [pairwise_iff_getElem]
      intro i j hi hj _
      exact fun hcon => hclaim _ (getElem_mem hj) _ hcon (mem_append_right _ (getElem_mem hi))
    · intro x hx y hy hcon
      exact hclaim y hy x hcon (mem_append_left _ hx)
  · rw [hre]; intro p hp hcon
    rcases mem_append.1 hp with hp' | hp'
    · exact h.noself p hp' hcon
    · exact hclaim p hp' p hcon (mem_append_right _ hp')
  · rw [hre, head?_append_of_ne_nil _ (by simp)]
    exact h.head

theorem kahnLoop_inv (R : List Nat) (hcl : ∀ p ∈ R, ∀ c ∈ chOf t p, c ∈ R) :
    ∀ (fuel : Nat) (q cnt ord : List Nat), KInv t root R q cnt ord → R.length ≤ ord.length + fuel →
      KInv t root R [] (kahnLoop t fuel q cnt ord).1 (kahnLoop t fuel q cnt ord).2 := by
  intro fuel
  induction fuel with
  | zero =>
    intro q cnt ord h hf
    have hl := (subperm_of_subset h.nodup h.sub).length_le
    rw [length_append] at hl
    have hq : q = [] := length_eq_zero_iff.1 (by omega)
    subst hq
    simpa [kahnLoop] using h
  | succ f ih =>
    intro q cnt ord h hf
    cases q with
    | nil => simpa [kahnLoop] using h
    | cons a qs =>
      have hs := kinv_step t root R hcl a qs cnt ord h
      have := ih _ _ _ hs (by rw [length_append]; simp; omega)
      simpa [kahnLoop] using this

end loop

/-! ### reachable set: the facts used about `collect` -/

/-- children-first storage (class-free form of `WellOrdered`) -/
def ChLt (t : Net α) : Prop := ∀ i, ∀ c ∈ chOf t i, c < i

theorem chOf_eq_of_get (t : Net α) (i : Nat) (x : NNode α) (h : t[i]? = some x) : chOf t i = x.ch := by
  unfold chOf; rw [h]

theorem chOf_nil_of_ge (t : Net α) (i : Nat) (h : t.length ≤ i) : chOf t i = [] := by
  unfold chOf; rw [List.getElem?_eq_none h]

theorem inRange_of_chLt (t : Net α) (h : ChLt t) : InRange t := by
  intro a c hc
  by_cases ha : a < t.length
  · exact lt_trans (h a c hc) ha
  · rw [chOf_nil_of_ge t a (Nat.le_of_not_lt ha)] at hc; cases hc

theorem inRange_table (t : Net α) (h : InRange t) :
    ∀ (i : Nat) (x : NNode α), t[i]? = some x → ∀ c ∈ x.ch, c < t.length :=
  fun i x hx c hc => h i c (by rw [chOf_eq_of_get t i x hx]; exact hc)

theorem reachOK_of_inRange (t : Net α) (root : Nat) (h : InRange t) : ReachOK t root (collect t root) :=
  ⟨root_mem_collect t root,
   fun p hp c hc => collect_closed t root (inRange_table t h) p c hp hc,
   fun v hv => by
     by_cases hvr : v = root
     · exact Or.inl hvr
     · exact Or.inr (collect_parent t root (inRange_table t h) v hv hvr)⟩

theorem collect_le_root (t : Net α) (root : Nat) (h : ChLt t) : ∀ v ∈ collect t root, v ≤ root := by
  intro v hv
  have hreach := (mem_collect_iff_reach t root (inRange_table t (inRange_of_chLt t h)) v).1 hv
  clear hv
  induction hreach with
  | refl => exact le_refl _
  | tail _ hbc ih => exact le_of_lt (lt_of_lt_of_le (h _ _ hbc) ih)

/-- the root of an acyclic table has no incoming edge from a reachable node -/
theorem root_count_zero (t : Net α) (root : Nat) (h : ChLt t) :
    count root (edgesOf t (collect t root)) = 0 := by
  rw [count_eq_zero]
  intro hm
  obtain ⟨p, hp, hc⟩ := mem_flatMap.1 hm
  have h1 := collect_le_root t root h p hp
  have h2 := h p root hc
  omega

theorem collect_length_le (t : Net α) (root : Nat) (h : InRange t) : (collect t root).length ≤ t.length + 1 := by
  have hR := reachOK_of_inRange t root h
  have hnd : ((collect t root).erase root).Nodup := (collect_nodup t root).erase root
  have hlt : ∀ v ∈ (collect t root).erase root, v < t.length := by
    intro v hv
    have hne : v ≠ root := fun e => by
      subst e; exact (Nodup.mem_erase_iff (collect_nodup t v)).1 hv |>.1 rfl
    rcases hR.parent v (mem_of_mem_erase hv) with e | ⟨p, _, hc⟩
    · exact absurd e hne
    · exact h p v hc
  have := nodup_length_le _ _ hnd hlt
  rw [length_erase_of_mem hR.root_mem] at this
  omega

/-- targets of the edges into `v`: only the sources having `v` as a child matter -/
theorem count_edgesOf_filter (t : Net α) (R : List Nat) (v : Nat) :
    count v (edgesOf t (R.filter (fun p => decide (v ∈ chOf t p)))) = count v (edgesOf t R) := by
  unfold edgesOf
  induction R with
  | nil => rfl
  | cons a R ih =>
    by_cases ha : v ∈ chOf t a
    · rw [filter_cons_of_pos (by simpa using ha)]
      simp only [flatMap_cons, count_append, ih]
    · rw [filter_cons_of_neg (by simpa using ha)]
      simp only [flatMap_cons, count_append, ih, count_eq_zero_of_not_mem ha, Nat.zero_add]

/-- a node all of whose parents (in `R`) are listed in `M` has all its incoming edges consumed -/
theorem count_le_of_parents (t : Net α) (R M : List Nat) (hR : R.Nodup) (v : Nat)
    (hpar : ∀ p ∈ R, v ∈ chOf t p → p ∈ M) : count v (edgesOf t R) ≤ count v (edgesOf t M) := by
  rw [← count_edgesOf_filter]
  refine capacity t _ M (hR.filter _) ?_ v
  intro p hp
  rw [mem_filter] at hp
  exact hpar p hp.1 (by simpa using hp.2)

/-- ACYCLICITY ARGUMENT: if `M` contains the root and every node whose parents are all in `M`, then `M`
contains every reachable node (induction on the distance from the top of the table) -/
theorem all_listed (t : Net α) (root : Nat) (hwo : ChLt t) (M : List Nat) (hroot : root ∈ M)
    (hstep : ∀ v ∈ collect t root, v ≠ root → (∀ p ∈ collect t root, v ∈ chOf t p → p ∈ M) → v ∈ M) :
    ∀ v ∈ collect t root, v ∈ M := by
  have key : ∀ d v, v ∈ collect t root → root - v ≤ d → v ∈ M := by
    intro d
    induction d with
    | zero =>
      intro v hv hd
      have := collect_le_root t root hwo v hv
      have : v = root := by omega
      rw [this]; exact hroot
    | succ d ih =>
      intro v hv hd
      by_cases hvr : v = root
      · rw [hvr]; exact hroot
      · refine hstep v hv hvr (fun p hp hc => ih p hp ?_)
        have h1 := hwo p v hc
        have h2 := collect_le_root t root hwo p hp
        omega
  exact fun v hv => key (root - v) v hv (le_refl _)

/-! ### `topological_order(root)` -/

theorem kahn_unfold (t : Net α) (root : Nat) (ord : List Nat) (hk : kahn t root = some ord) :
    (kahnCounts t root).getD root 0 = 0 ∧
    (kahnLoop t (t.length + 1) [root] (kahnCounts t root) []).1.all (fun k => k == 0) = true ∧
    ord = (kahnLoop t (t.length + 1) [root] (kahnCounts t root) []).2 := by
  unfold kahn at hk
  simp only at hk
  by_cases h0 : ((kahnCounts t root).getD root 0 != 0) = true
  · rw [if_pos h0] at hk; cases hk
  · rw [if_neg h0] at hk
    by_cases h1 : (kahnLoop t (t.length + 1) [root] (kahnCounts t root) []).1.all (fun k => k == 0) = true
    · rw [if_pos h1] at hk
      exact ⟨by simpa using h0, h1, by simpa using hk.symm⟩
    · rw [if_neg h1] at hk; cases hk

theorem kahn_init (t : Net α) (root : Nat) (h : InRange t)
    (h0 : count root (edgesOf t (collect t root)) = 0) :
    KInv t root (collect t root) [root] (kahnCounts t root) [] := by
  obtain ⟨_, hc⟩ := kahnCounts_spec t root h
  have hR := reachOK_of_inRange t root h
  refine ⟨by simp, ?_, ?_, ?_, ?_, by simp, ?_, by simp⟩
  · intro v hv; simp at hv; subst hv; exact hR.root_mem
  · intro v; rw [hc v]; simp [edgesOf]
  · intro v hv; simp at hv; subst hv; rw [hc v]; exact h0
  · intro v hpos hz; rw [hc v] at hz; omega
  · intro a ha hcon
    simp at ha; subst ha
    have : 0 < count a (edgesOf t (collect t a)) := count_pos_iff.2 (mem_flatMap.2 ⟨a, hR.root_mem, hcon⟩)
    omega

/-- the final state of the loop, whatever the verdict -/
theorem kahn_final (t : Net α) (root : Nat) (h : InRange t)
    (h0 : count root (edgesOf t (collect t root)) = 0) :
    KInv t root (collect t root) [] (kahnLoop t (t.length + 1) [root] (kahnCounts t root) []).1
      (kahnLoop t (t.length + 1) [root] (kahnCounts t root) []).2 :=
  kahnLoop_inv t root _ (reachOK_of_inRange t root h).closed _ _ _ _ (kahn_init t root h h0)
    (by have := collect_length_le t root h; simp; omega)

/-- **what a successful run of `topological_order` guarantees** (children in range; no acyclicity
assumption): the ordering is duplicate-free, lists exactly the nodes of `collect t root`, starts with the
root, and no listed node has an edge to itself or to a node listed before it. -/
theorem kahn_spec (t : Net α) (root : Nat) (h : InRange t) (ord : List Nat) (hk : kahn t root = some ord) :
    ord.Nodup ∧ (∀ v, v ∈ ord ↔ v ∈ collect t root) ∧ ord.head? = some root ∧
      ord.Pairwise (fun a b => a ∉ chOf t b) ∧ (∀ a ∈ ord, a ∉ chOf t a) := by
  obtain ⟨hr0, hall, hord⟩ := kahn_unfold t root ord hk
  have h0 : count root (edgesOf t (collect t root)) = 0 := by
    rw [← (kahnCounts_spec t root h).2 root]; exact hr0
  have hfin := kahn_final t root h h0
  rw [← hord] at hfin
  have hR := reachOK_of_inRange t root h
  have hnd : ord.Nodup := by simpa using hfin.nodup
  have hhead : ord.head? = some root := by simpa using hfin.head
  refine ⟨hnd, fun v => ⟨fun hv => hfin.sub v (by simpa using hv), fun hv => ?_⟩, hhead,
    by simpa using hfin.noback, fun a ha => hfin.noself a (by simpa using ha)⟩
  rcases hR.parent v hv with hvr | ⟨p, hp, hc⟩
  · rw [hvr]; exact mem_of_mem_head? (by rw [hhead]; exact rfl)
  · have hpos : 0 < count v (edgesOf t (collect t root)) := count_pos_iff.2 (mem_flatMap.2 ⟨p, hp, hc⟩)
    have := hfin.hit v hpos ((all_zero_iff _).1 hall v)
    simpa using this

/-- **Kahn never reports a cycle on a children-first (acyclic) table** -/
theorem kahn_some_of (t : Net α) (root : Nat) (hwo : ChLt t) : ∃ ord, kahn t root = some ord := by
  have h := inRange_of_chLt t hwo
  have h0 := root_count_zero t root hwo
  have hfin := kahn_final t root h h0
  have hR := reachOK_of_inRange t root h
  generalize hres : kahnLoop t (t.length + 1) [root] (kahnCounts t root) [] = res at hfin
  have hroot : root ∈ res.2 := mem_of_mem_head? (by have := hfin.head; simp at this; rw [this]; exact rfl)
  have hall : ∀ v ∈ collect t root, v ∈ res.2 := by
    refine all_listed t root hwo res.2 hroot (fun v hv hvr hpar => ?_)
    rcases hR.parent v hv with e | ⟨p, hp, hc⟩
    · exact absurd e hvr
    · have hpos : 0 < count v (edgesOf t (collect t root)) := count_pos_iff.2 (mem_flatMap.2 ⟨p, hp, hc⟩)
      have hle := count_le_of_parents t _ res.2 (collect_nodup t root) v hpar
      have := hfin.hit v hpos (by rw [hfin.cnt_eq v]; omega)
      simpa using this
  have hzero : ∀ v, res.1.getD v 0 = 0 := by
    intro v
    by_cases hv : v ∈ collect t root
    · exact hfin.zero v (by simpa using hall v hv)
    · rw [hfin.cnt_eq v]
      have : count v (edgesOf t (collect t root)) = 0 := by
        rw [count_eq_zero]; intro hm
        obtain ⟨p, hp, hc⟩ := mem_flatMap.1 hm
        exact hv (hR.closed p hp v hc)
      omega
  refine ⟨res.2, ?_⟩
  unfold kahn
  simp only
  have hc0 : (kahnCounts t root).getD root 0 = 0 := by rw [(kahnCounts_spec t root h).2 root]; exact h0
  rw [if_neg (by rw [hc0]; simp), hres, if_pos ((all_zero_iff _).2 hzero)]

/-! ### from "no back edge" to positions and to `TopoOrd` -/

/-- in a list closed under children without back edges every child sits strictly after its parent -/
theorem idx_lt_of_noBack (t : Net α) (M : List Nat)
    (hcl : ∀ p ∈ M, ∀ c ∈ chOf t p, c ∈ M)
    (hnb : M.Pairwise (fun a b => a ∉ chOf t b)) (hns : ∀ a ∈ M, a ∉ chOf t a)
    (p c : Nat) (hp : p ∈ M) (hc : c ∈ chOf t p) : M.idxOf p < M.idxOf c := by
  have hcM : c ∈ M := hcl p hp c hc
  have hi : M.idxOf p < M.length := idxOf_lt_length_iff.2 hp
  have hj : M.idxOf c < M.length := idxOf_lt_length_iff.2 hcM
  have hpi : M[M.idxOf p] = p := getElem_idxOf hi
  have hcj : M[M.idxOf c] = c := getElem_idxOf hj
  by_contra hlt
  rcases Nat.lt_or_eq_of_le (Nat.le_of_not_lt hlt) with hlt | heq
  · have := pairwise_iff_getElem.1 hnb _ _ hj hi hlt
    rw [hpi, hcj] at this
    exact this hc
  · have : c = p := by
      rw [← hcj, ← hpi]; congr 1
    subst this
    exact hns c hp hc

theorem chLt_of_wellOrdered [CommSemiring α] (t : Net α) (hw : WellOrdered t) : ChLt t := by
  intro i c hc
  unfold chOf at hc
  cases hx : t[i]? with
  | none => rw [hx] at hc; cases hc
  | some x => rw [hx] at hc; exact hw i x hx c hc

section topo
variable [CommSemiring α] [LinearOrder α]

/-- duplicate-free, in range, closed under children, no back edge, no self loop ⇒ `TopoOrd`
(the hypothesis of `C06.mpeNetOrd_refines`) -/
theorem topoOrd_of_noBack (t : Net α) : ∀ (M : List Nat), M.Nodup → (∀ v ∈ M, v < t.length) →
    (∀ p ∈ M, ∀ c ∈ chOf t p, c ∈ M) → M.Pairwise (fun a b => a ∉ chOf t b) → (∀ a ∈ M, a ∉ chOf t a) →
    TopoOrd t M := by
  intro M
  induction M with
  | nil => intro _ _ _ _ _; simp [TopoOrd]
  | cons k rest ih =>
    intro hnd hlt hcl hnb hns
    rw [nodup_cons] at hnd
    rw [pairwise_cons] at hnb
    unfold TopoOrd
    refine ⟨hnd.1, hlt k (mem_cons_self ..), ?_, ih hnd.2 (fun v hv => hlt v (mem_cons_of_mem _ hv)) ?_ hnb.2
      (fun a ha => hns a (mem_cons_of_mem _ ha))⟩
    · intro c hc
      rcases mem_cons.1 (hcl k (mem_cons_self ..) c hc) with e | hm
      · subst e; exact absurd hc (hns c (mem_cons_self ..))
      · exact hm
    · intro p hp c hc
      rcases mem_cons.1 (hcl p (mem_cons_of_mem _ hp) c hc) with e | hm
      · subst e; exact absurd hc (hnb.1 p hp)
      · exact hm

end topo

/-! ### `assign_ids` -/

theorem relabel_length (t : Net α) (ko : List Nat) : (relabel t ko).length = t.length := by
  unfold relabel; simp

theorem relabel_get (t : Net α) (ko : List Nat) (i : Nat) :
    (relabel t ko)[i]? = (t[i]?).map (fun x => if ko.contains i then { x with id := posIn ko i } else x) := by
  unfold relabel; rw [getElem?_mapIdx]

theorem chOf_relabel (t : Net α) (ko : List Nat) (i : Nat) : chOf (relabel t ko) i = chOf t i := by
  unfold chOf
  rw [relabel_get]
  cases t[i]? with
  | none => rfl
  | some x => simp only [Option.map_some]; split <;> rfl

theorem idOf_relabel (t : Net α) (ko : List Nat) (i : Nat) (hi : i < t.length) (hk : i ∈ ko) :
    idOf (relabel t ko) i = ko.idxOf i := by
  unfold idOf
  rw [relabel_get, List.getElem?_eq_getElem hi]
  simp [hk, posIn]

theorem idOf_relabel_of_not_mem (t : Net α) (ko : List Nat) (i : Nat) (hk : i ∉ ko) :
    idOf (relabel t ko) i = idOf t i := by
  unfold idOf
  rw [relabel_get]
  cases t[i]? with
  | none => rfl
  | some x => simp [hk]

/-- BFS only looks at children lists and the table length -/
theorem bfsAux_congr (t t' : Net α) (h : ∀ i, chOf t' i = chOf t i) :
    ∀ fuel q seen, bfsAux t' fuel q seen = bfsAux t fuel q seen := by
  intro fuel
  induction fuel with
  | zero => intro q seen; simp [bfsAux]
  | succ f ih =>
    intro q seen
    cases q with
    | nil => simp [bfsAux]
    | cons a qs => rw [bfsAux_step, bfsAux_step, h a, ih]

theorem collect_congr (t t' : Net α) (h : ∀ i, chOf t' i = chOf t i) (hl : t'.length = t.length) (root : Nat) :
    collect t' root = collect t root := by
  unfold collect; rw [hl]; exact bfsAux_congr t t' h _ _ _

theorem collect_relabel (t : Net α) (ko : List Nat) (root : Nat) :
    collect (relabel t ko) root = collect t root :=
  collect_congr t _ (chOf_relabel t ko) (relabel_length t ko) root

theorem map_idxOf_self (l : List Nat) (h : l.Nodup) : l.map (fun i => l.idxOf i) = List.range l.length := by
  apply List.ext_getElem
  · simp
  · intro i h1 h2
    simp only [getElem_map, getElem_range]
    exact h.idxOf_getElem i (by simpa using h1)

/-- ids = positions in a duplicate-free list `ko` that enumerates exactly the reachable nodes ⇒ the ids
of the reachable nodes are a permutation of `0 .. len-1` -/
theorem relabel_ids_perm (t : Net α) (root : Nat) (ko : List Nat) (hnd : ko.Nodup)
    (hmem : ∀ v, v ∈ ko ↔ v ∈ collect t root) (hlt : ∀ v ∈ ko, v < t.length) :
    ((collect (relabel t ko) root).map (idOf (relabel t ko))).Perm
      (List.range (collect (relabel t ko) root).length) := by
  rw [collect_relabel]
  have hperm : (collect t root).Perm ko :=
    (perm_ext_iff_of_nodup (collect_nodup t root) hnd).2 (fun v => (hmem v).symm)
  have h1 : (collect t root).map (idOf (relabel t ko)) = (collect t root).map (fun i => ko.idxOf i) := by
    apply map_congr_left
    intro i hi
    have hk := (hmem i).2 hi
    exact idOf_relabel t ko i (hlt i hk) hk
  rw [h1, hperm.length_eq, ← map_idxOf_self ko hnd]
  exact hperm.map _

end Net

/-! ### `topological_order_layered` is total on acyclic tables -/
namespace Sched
open Net List
variable {α : Type}

theorem linv_init (n : Net α) (root : Nat) (hR : ReachOK n root (Net.collect n root))
    (h0 : count root (edgesOf n (Net.collect n root)) = 0) :
    LInv n root (Net.collect n root) (indeg n root) [] [root] := by
  refine ⟨by simp, ?_, ?_, ?_, ?_, ?_, by simp⟩
  · intro v hv; simp at hv; subst hv; exact hR.root_mem
  · intro v; unfold indeg edgesOf; simp
  · intro v hv; simp at hv; subst hv
    unfold indeg; unfold edgesOf at h0; rw [h0]; simp
  · intro v hpos hle
    unfold indeg at hle; unfold edgesOf at hpos
    have : (0 : Int) < ((count v (flatMap (Net.chOf n) (Net.collect n root)) : Nat) : Int) := by
      exact_mod_cast hpos
    omega
  · refine ⟨by simp, ?_⟩
    intro A hA p hp c hc hcA
    have hA' : A = [root] := by simpa using hA
    rw [hA'] at hp hcA
    have hp' : p = root := by simpa using hp
    have hc' : c = root := by simpa using hcA
    rw [hp', hc'] at hc
    have : 0 < count root (edgesOf n (Net.collect n root)) :=
      count_pos_iff.2 (mem_flatMap.2 ⟨root, hR.root_mem, hc⟩)
    omega

/-- the fuel `|R| + 1` is never exhausted: every completed layer is non-empty and the layers are
disjoint subsets of `R` -/
theorem layersGo_some (n : Net α) (root : Nat) (R : List Nat) (hR : ReachOK n root R) :
    ∀ (fuel : Nat) (cnt : Nat → Int) (acc : List (List Nat)) (last : List Nat), LInv n root R cnt acc last →
      last ≠ [] → R.length + 1 ≤ acc.flatten.length + fuel → ∃ r, layersGo n fuel cnt acc last = some r := by
  intro fuel
  induction fuel with
  | zero =>
    intro cnt acc last h hne hf
    exfalso
    have hl := (subperm_of_subset h.nodup h.sub).length_le
    rw [length_append] at hl
    omega
  | succ f ih =>
    intro cnt acc last h hne hf
    have hstep := linv_step n root R hR cnt acc last h
    unfold layersGo
    simp only
    by_cases he : (procLayer n cnt last).2.isEmpty = true
    · rw [if_pos he]; exact ⟨_, rfl⟩
    · rw [if_neg he]
      refine ih _ _ _ hstep (by intro e; rw [e] at he; simp at he) ?_
      rw [flat_snoc, length_append]
      have : 0 < last.length := length_pos_iff.2 hne
      omega

/-- on ANY table with children in range (cyclic or not) the model's fuel is sufficient: `layers … = none`
can only come from one of the two "not a DAG" tests of the code, never from fuel exhaustion -/
theorem layersGo_total (n : Net α) (root : Nat) (hR : ReachOK n root (Net.collect n root))
    (h0 : count root (edgesOf n (Net.collect n root)) = 0) :
    ∃ r, layersGo n ((Net.collect n root).length + 1) (indeg n root) [] [root] = some r :=
  layersGo_some n root _ hR _ _ _ _ (linv_init n root hR h0) (by simp) (by simp)

/-- **`topological_order_layered` never reports "not a DAG" on a children-first table** -/
theorem layers_some_of (n : Net α) (root : Nat) (hwo : ChLt n) : ∃ L, layers n root = some L := by
  have hin := inRange_of_chLt n hwo
  have hR := reachOK_of_inRange n root hin
  have h0 := root_count_zero n root hwo
  have hind : indeg n root root = 0 := by
    unfold indeg; unfold edgesOf at h0; rw [h0]; simp
  have hinit := linv_init n root hR h0
  obtain ⟨⟨cnt', L⟩, hgo⟩ := layersGo_some n root _ hR ((Net.collect n root).length + 1) _ _ _ hinit (by simp) (by simp)
  have hfin := layersGo_inv n root _ hR _ _ _ _ hinit cnt' L hgo
  have hnd : L.flatten.Nodup := by simpa using hfin.nodup
  have hsub : ∀ v ∈ L.flatten, v ∈ Net.collect n root := fun v hv => hfin.sub v (by simpa using hv)
  have hall : ∀ v ∈ Net.collect n root, v ∈ L.flatten := by
    refine all_listed n root hwo L.flatten (by simpa using hfin.root_mem) (fun v hv hvr hpar => ?_)
    rcases hR.parent v hv with e | ⟨p, hp, hc⟩
    · exact absurd e hvr
    · have hpos : 0 < count v (edgesOf n (Net.collect n root)) :=
        count_pos_iff.2 (mem_flatMap.2 ⟨p, hp, hc⟩)
      have hle := count_le_of_parents n _ L.flatten (collect_nodup n root) v hpar
      have := hfin.hit v hpos (by rw [hfin.cnt_eq v]; omega)
      simpa using this
  have hperm : L.flatten.Perm (Net.collect n root) :=
    (perm_ext_iff_of_nodup hnd (collect_nodup n root)).2 (fun v => ⟨hsub v, hall v⟩)
  have hz : ∀ v, cnt' v = 0 := by
    intro v
    rw [hfin.cnt_eq v]
    have := (hperm.flatMap_right (Net.chOf n)).count_eq v
    unfold edgesOf; omega
  refine ⟨L, ?_⟩
  unfold layers
  simp only
  rw [if_neg (by simp [hind]), hgo]
  simp only
  rw [if_neg]
  simp only [ne_eq, not_not]
  apply List.sum_eq_zero
  intro x hx
  obtain ⟨w, _, rfl⟩ := mem_map.1 hx
  exact hz w

/-- `NoBack` of the layers ⇒ no back edge inside the concatenation -/
theorem noBack_flatten (n : Net α) (L : List (List Nat)) (h : NoBack n L) :
    L.flatten.Pairwise (fun a b => a ∉ Net.chOf n b) ∧ ∀ a ∈ L.flatten, a ∉ Net.chOf n a := by
  obtain ⟨hp1, hself⟩ := h
  refine ⟨?_, ?_⟩
  · rw [pairwise_flatten]
    refine ⟨fun A hA => ?_, hp1.imp (fun h x hx y hy hcon => h y hy x hcon hx)⟩
    rw [pairwise_iff_getElem]
    intro i j hi hj _ hcon
    exact hself A hA _ (getElem_mem hj) _ hcon (getElem_mem hi)
  · intro a ha hcon
    obtain ⟨A, hA, haA⟩ := mem_flatten.1 ha
    exact hself A hA a haA a hcon haA

end Sched
end Deeprob
