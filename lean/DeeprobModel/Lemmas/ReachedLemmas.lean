import DeeprobModel.Lemmas.TopDownLemmas
set_option linter.unusedSimpArgs false
set_option linter.unusedVariables false
set_option linter.unusedSectionVars false
/-
The leaves reached by one top-down pass partition the root scope.
-/
namespace Deeprob
namespace TCirc
variable {α : Type} [Zero α] [One α] [Add α] [Mul α]
variable (br : List Nat → List α → List (TCirc α) → Nat)

theorem reachedAll_partition (p : List Nat) (cs : List (TCirc α)) (hnd : (cs.map scope).flatten.Nodup)
    (IH : ∀ c ∈ cs, ∀ q : List Nat, (reached br q c).Pairwise List.Disjoint ∧ scopeEq (reached br q c).flatten c.scope) :
    ∀ j : Nat, (reachedAll br p j cs).Pairwise List.Disjoint ∧
      scopeEq (reachedAll br p j cs).flatten (cs.map scope).flatten := by
  induction cs with
  | nil => intro j; simp [reachedAll, scopeEq]
  | cons c cs ih =>
    intro j
    simp only [List.map_cons, List.flatten_cons] at hnd ⊢
    rw [List.nodup_append] at hnd
    obtain ⟨_, hnd2, hdisj⟩ := hnd
    obtain ⟨hp1, he1⟩ := IH c List.mem_cons_self (j :: p)
    obtain ⟨hp2, he2⟩ := ih hnd2 (fun d hd => IH d (List.mem_cons_of_mem _ hd)) (j+1)
    simp only [reachedAll]
    constructor
    · rw [List.pairwise_append]
      refine ⟨hp1, hp2, ?_⟩
      intro a ha b hb x hxa hxb
      have h1 : x ∈ c.scope := (he1 x).1 (List.mem_flatten.2 ⟨a, ha, hxa⟩)
      have h2 : x ∈ (cs.map scope).flatten := (he2 x).1 (List.mem_flatten.2 ⟨b, hb, hxb⟩)
      exact hdisj x h1 x h2 rfl
    · intro x
      rw [List.flatten_append, List.mem_append, List.mem_append, he1 x, he2 x]

/-- **one leaf per variable** (list form): under ANY branch function the scopes of the reached leaves
are pairwise disjoint and their union is the scope of the root. -/
theorem reached_partition (dom : Nat → Nat) : ∀ (c : TCirc α), Circ.Valid dom c.toCirc → BrOK br c →
    ∀ p : List Nat, (reached br p c).Pairwise List.Disjoint ∧ scopeEq (reached br p c).flatten c.scope := by
  intro c
  induction c using TCirc.ind with
  | hl s f m cd =>
    intro _ _ p
    simp [reached, scope, scopeEq]
  | hs s ws cs ih =>
    intro hval hb p
    obtain ⟨_, _, hsc, hvc⟩ := valid_sum.1 hval
    unfold BrOK at hb
    simp only [reached, reachedAt_eq, scope]
    have hlt := hb.1 p
    have hk : cs[br p ws cs]? = some cs[br p ws cs] := by simp [hlt]
    rw [hk]
    have hc : cs[br p ws cs] ∈ cs := List.getElem_mem hlt
    obtain ⟨h1, h2⟩ := ih _ hc (hvc _ hc) (hb.2 _ hc) (br p ws cs :: p)
    exact ⟨h1, fun x => (h2 x).trans (hsc _ hc x)⟩
  | hp s cs ih =>
    intro hval hb p
    obtain ⟨hnd, hsc, hvc⟩ := valid_prod.1 hval
    unfold BrOK at hb
    simp only [reached, scope]
    obtain ⟨h1, h2⟩ := reachedAll_partition br p cs hnd (fun c hc q => ih c hc (hvc c hc) (hb c hc) q) 0
    exact ⟨h1, fun x => (h2 x).trans (hsc x)⟩

end TCirc
end Deeprob
