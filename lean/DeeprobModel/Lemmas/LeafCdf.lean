import DeeprobModel.Lemmas.LeafLemmas
import Mathlib.Order.Interval.Set.Basic
set_option linter.unusedSimpArgs false
set_option linter.unusedVariables false
set_option linter.unusedSectionVars false
/-
The cdf / ppf pair of the histogram leaf as coded (`rv_continuous.cdf/ppf` wrappers around `np.interp`), over any
linearly ordered field: closed form, monotone, range, `cdf ∘ ppf = id` on `[0,1]`, `ppf ∘ cdf = id` on the support
when all heights are positive.
-/
namespace Deeprob.LeafTheory
variable {α : Type} [Field α] [LinearOrder α] [IsStrictOrderedRing α]

theorem lastB_gt : ∀ (bs : List α) (lo hi : α), Incr (lo :: hi :: bs) → lo < lastB lo (hi :: bs) := by
  intro bs lo hi h
  exact lt_of_lt_of_le h.1 (by simpa [lastB] using incr_le_lastB bs hi h.2)

theorem histZ_single (hs : List α) (b0 : α) : histZ hs [b0] = 0 := by
  cases hs <;> simp [histZ]

theorem histCdfRaw_at_lo : ∀ (hs : List α) (lo : α) (bs : List α), Incr (lo :: bs) → histCdfRaw lo hs (lo :: bs) = 0
  | [], _, _, _ => by simp [histCdfRaw]
  | _ :: _, _, [], _ => by simp [histCdfRaw]
  | h :: hs, lo, hi :: bs, hb => by simp [histCdfRaw, hb.1]

/-- `_cdf` in closed form right of the first break … -/
theorem histCdf_closed (hs : List α) (b0 : α) (bs : List α) (x : α) (hb : Incr (b0 :: bs))
    (hz : histZ hs (b0 :: bs) ≠ 0) (hx : b0 ≤ x) :
    histCdf hs (b0 :: bs) x = histCdfRaw x hs (b0 :: bs) / histZ hs (b0 :: bs) := by
  simp only [histCdf, cdfKnots, interp, if_neg (not_lt.2 hx)]
  rw [interpAux_histKnots _ hz x hs b0 bs 0 hb hx, zero_add]

/-- … and `0` left of it -/
theorem histCdf_left (hs : List α) (b0 : α) (bs : List α) (x : α) (hx : x < b0) :
    histCdf hs (b0 :: bs) x = 0 := by
  simp [histCdf, cdfKnots, interp, hx]

/-- **closed form of `distribution.cdf`** -/
theorem isoCdf_closed (hs : List α) (b0 : α) (bs : List α) (x : α) (hb : Incr (b0 :: bs))
    (hz : histZ hs (b0 :: bs) ≠ 0) :
    isoCdf hs (b0 :: bs) x = if x < b0 then 0 else histCdfRaw x hs (b0 :: bs) / histZ hs (b0 :: bs) := by
  simp only [isoCdf]
  by_cases h1 : b0 < x
  · rw [if_pos h1, if_neg (not_lt.2 h1.le)]
    by_cases h2 : x < lastB b0 bs
    · rw [if_pos h2]; exact histCdf_closed hs b0 bs x hb hz h1.le
    · rw [if_neg h2, histCdfRaw_ge_last x hs b0 bs hb (not_lt.1 h2), div_self hz]
  · rw [if_neg h1]
    by_cases h3 : x < b0
    · rw [if_pos h3]
    · have : x = b0 := le_antisymm (not_lt.1 h1) (not_lt.1 h3)
      subst this
      rw [if_neg h3, histCdfRaw_at_lo hs x bs hb, zero_div]

/-- the wrapper of `rv_continuous.cdf` changes nothing: `np.interp` already answers `0` left and `1` right -/
theorem isoCdf_eq_histCdf (hs : List α) (b0 : α) (bs : List α) (x : α) (hb : Incr (b0 :: bs))
    (hz : histZ hs (b0 :: bs) ≠ 0) : isoCdf hs (b0 :: bs) x = histCdf hs (b0 :: bs) x := by
  rw [isoCdf_closed hs b0 bs x hb hz]
  by_cases h : x < b0
  · rw [if_pos h, histCdf_left hs b0 bs x h]
  · rw [if_neg h, histCdf_closed hs b0 bs x hb hz (not_lt.1 h)]

theorem knots_ok (hs : List α) (b0 : α) (bs : List α) (hn : NonNeg hs) (hb : Incr (b0 :: bs))
    (hz : 0 < histZ hs (b0 :: bs)) : KnotsOK b0 0 (histKnots (histZ hs (b0 :: bs)) 0 hs (b0 :: bs)) :=
  histKnots_ok _ hz hs b0 bs 0 hn hb

theorem knots_lastY (hs : List α) (b0 : α) (bs : List α) (hz : histZ hs (b0 :: bs) ≠ 0) :
    lastY 0 (histKnots (histZ hs (b0 :: bs)) 0 hs (b0 :: bs)) = 1 := by
  rw [lastY_histKnots _ hz, zero_add, div_self hz]

theorem histCdf_nonneg (hs : List α) (b0 : α) (bs : List α) (x : α) (hn : NonNeg hs) (hb : Incr (b0 :: bs))
    (hz : 0 < histZ hs (b0 :: bs)) : 0 ≤ histCdf hs (b0 :: bs) x := by
  by_cases h : x < b0
  · rw [histCdf_left hs b0 bs x h]
  · simp only [histCdf, cdfKnots, interp, if_neg h]
    exact le_interpAux x _ b0 0 (knots_ok hs b0 bs hn hb hz).weak (not_lt.1 h)

theorem histCdf_le_one (hs : List α) (b0 : α) (bs : List α) (x : α) (hn : NonNeg hs) (hb : Incr (b0 :: bs))
    (hz : 0 < histZ hs (b0 :: bs)) : histCdf hs (b0 :: bs) x ≤ 1 := by
  by_cases h : x < b0
  · rw [histCdf_left hs b0 bs x h]; exact zero_le_one
  · simp only [histCdf, cdfKnots, interp, if_neg h]
    have := interpAux_le_last x _ b0 0 (knots_ok hs b0 bs hn hb hz).weak (not_lt.1 h)
    rwa [knots_lastY hs b0 bs hz.ne'] at this

theorem histCdf_mono (hs : List α) (b0 : α) (bs : List α) {x y : α} (hxy : x ≤ y) (hn : NonNeg hs)
    (hb : Incr (b0 :: bs)) (hz : 0 < histZ hs (b0 :: bs)) :
    histCdf hs (b0 :: bs) x ≤ histCdf hs (b0 :: bs) y := by
  by_cases h : x < b0
  · rw [histCdf_left hs b0 bs x h]; exact histCdf_nonneg hs b0 bs y hn hb hz
  · have hy : ¬ y < b0 := not_lt.2 (le_trans (not_lt.1 h) hxy)
    simp only [histCdf, cdfKnots, interp, if_neg h, if_neg hy]
    exact interpAux_mono hxy _ b0 0 (knots_ok hs b0 bs hn hb hz).weak (not_lt.1 h)

/-- raw `_ppf` for `0 ≤ u` -/
theorem histPpf_eq (hs : List α) (b0 : α) (bs : List α) (u : α) (hu : 0 ≤ u) :
    histPpf hs (b0 :: bs) u =
      interpAux u 0 b0 ((histKnots (histZ hs (b0 :: bs)) 0 hs (b0 :: bs)).map Prod.swap) := by
  simp [histPpf, cdfKnots, interp, not_lt.2 hu]

theorem histPpf_ge (hs : List α) (b0 : α) (bs : List α) (u : α) (hu : 0 ≤ u) (hn : NonNeg hs)
    (hb : Incr (b0 :: bs)) (hz : 0 < histZ hs (b0 :: bs)) : b0 ≤ histPpf hs (b0 :: bs) u := by
  rw [histPpf_eq hs b0 bs u hu]
  exact le_interpAux u _ 0 b0 (knots_ok hs b0 bs hn hb hz).weak_swap hu

/-- **`_cdf(_ppf(u)) = u`** for every `u ∈ [0,1]`, heights `≥ 0` (zero-height bins allowed), `Z > 0` -/
theorem histCdf_histPpf (hs : List α) (b0 : α) (bs : List α) (u : α) (hn : NonNeg hs) (hb : Incr (b0 :: bs))
    (hz : 0 < histZ hs (b0 :: bs)) (h0 : 0 ≤ u) (h1 : u ≤ 1) :
    histCdf hs (b0 :: bs) (histPpf hs (b0 :: bs) u) = u := by
  have hge := histPpf_ge hs b0 bs u h0 hn hb hz
  simp only [histCdf, cdfKnots, interp, if_neg (not_lt.2 hge)]
  rw [histPpf_eq hs b0 bs u h0]
  exact interpAux_inverse u _ b0 0 (knots_ok hs b0 bs hn hb hz) h0 (by rw [knots_lastY hs b0 bs hz.ne']; exact h1)

/-! ### positive heights: the knots are strictly increasing in both coordinates -/

theorem lastY_swap_histKnots (z : α) : ∀ (hs : List α) (lo : α) (bs : List α) (acc : α), hs.length = bs.length →
    lastY lo ((histKnots z acc hs (lo :: bs)).map Prod.swap) = lastB lo bs
  | [], _, [], _, _ => by simp [histKnots, lastY, lastB]
  | [], _, _ :: _, _, h => by simp at h
  | _ :: _, _, [], _, h => by simp at h
  | h :: hs, lo, hi :: bs, acc, hl => by
      simp only [histKnots, List.map_cons, Prod.swap_prod_mk, lastY, lastB]
      exact lastY_swap_histKnots z hs hi bs _ (by simpa using hl)

theorem knots_snd_le_lastY : ∀ (rest : List (α × α)) (xj fj : α), KnotsW xj fj rest →
    ∀ k ∈ rest, k.2 ≤ lastY fj rest
  | [], _, _, _ => by simp
  | (xk, fk) :: rest, xj, fj, h => by
      intro k hk
      simp only [List.mem_cons] at hk
      rcases hk with rfl | hk
      · simpa [lastY] using lastY_swap_swap rest xk fk h.2.2
      · simpa [lastY] using knots_snd_le_lastY rest xk fk h.2.2 k hk

theorem histPpf_le_last (hs : List α) (b0 : α) (bs : List α) (u : α) (hu : 0 ≤ u) (hn : NonNeg hs)
    (hb : Incr (b0 :: bs)) (hz : 0 < histZ hs (b0 :: bs)) (hl : hs.length = bs.length) :
    histPpf hs (b0 :: bs) u ≤ lastB b0 bs := by
  rw [histPpf_eq hs b0 bs u hu]
  have := interpAux_le_last u _ 0 b0 (knots_ok hs b0 bs hn hb hz).weak_swap hu
  rwa [lastY_swap_histKnots _ hs b0 bs 0 hl] at this

/-- `_ppf(1)` is the last break -/
theorem histPpf_one (hs : List α) (b0 : α) (bs : List α) (hn : NonNeg hs) (hb : Incr (b0 :: bs))
    (hz : 0 < histZ hs (b0 :: bs)) (hl : hs.length = bs.length) : histPpf hs (b0 :: bs) 1 = lastB b0 bs := by
  rw [histPpf_eq hs b0 bs 1 zero_le_one, interpAux_beyond, lastY_swap_histKnots _ hs b0 bs 0 hl]
  intro k hk
  simp only [List.mem_map] at hk
  obtain ⟨k', hk', rfl⟩ := hk
  have := knots_snd_le_lastY _ b0 0 (knots_ok hs b0 bs hn hb hz).weak k' hk'
  rwa [knots_lastY hs b0 bs hz.ne'] at this

/-- **`_ppf(_cdf(t)) = t`** on the support when every height is positive -/
theorem histPpf_histCdf (hs : List α) (b0 : α) (bs : List α) (t : α) (hp : AllPos hs) (hb : Incr (b0 :: bs))
    (hz : 0 < histZ hs (b0 :: bs)) (hl : hs.length = bs.length) (h0 : b0 ≤ t) (h1 : t ≤ lastB b0 bs) :
    histPpf hs (b0 :: bs) (histCdf hs (b0 :: bs) t) = t := by
  have hnn := histCdf_nonneg hs b0 bs t hp.nonNeg hb hz
  rw [histPpf_eq hs b0 bs _ hnn]
  simp only [histCdf, cdfKnots, interp, if_neg (not_lt.2 h0)]
  have hss := histKnots_ss _ hz hs b0 bs 0 hp hb
  have := interpAux_inverse t ((histKnots (histZ hs (b0 :: bs)) 0 hs (b0 :: bs)).map Prod.swap) 0 b0
    hss.ok_swap h0 (by rw [lastY_swap_histKnots _ hs b0 bs 0 hl]; exact h1)
  rwa [swap_swap_knots] at this

/-! ### the wrapped functions `distribution.cdf`, `distribution.ppf` -/

/-- for `u ∈ [0,1]` the wrapper of `rv_continuous.ppf` (`0 ↦ a`, `1 ↦ b`) stays inside the level set of `u`:
**`cdf(ppf(u)) = u`** — heights `≥ 0`, at least one positive (`Z > 0`), breaks strictly increasing -/
theorem isoCdf_isoPpf (bad : α) (hs : List α) (b0 : α) (bs : List α) (u : α) (hn : NonNeg hs)
    (hb : Incr (b0 :: bs)) (hz : 0 < histZ hs (b0 :: bs)) (h0 : 0 ≤ u) (h1 : u ≤ 1) :
    isoCdf hs (b0 :: bs) (isoPpf bad hs (b0 :: bs) u) = u := by
  by_cases hin : 0 < u ∧ u < 1
  · simp only [isoPpf, if_pos hin]
    rw [isoCdf_eq_histCdf hs b0 bs _ hb hz.ne']
    exact histCdf_histPpf hs b0 bs u hn hb hz h0 h1
  · simp only [isoPpf, if_neg hin, if_neg (not_lt.2 h0), if_neg (not_lt.2 h1)]
    by_cases hu : u < 1
    · have hu0 : u = 0 := le_antisymm (not_lt.1 (fun h => hin ⟨h, hu⟩)) h0
      rw [if_pos hu]
      simp [isoCdf, hu0]
    · have hu1 : u = 1 := le_antisymm h1 (not_lt.1 hu)
      rw [if_neg hu]
      cases bs with
      | nil => rw [histZ_single] at hz; exact absurd hz (lt_irrefl _)
      | cons hi bs =>
        have := lastB_gt bs b0 hi hb
        simp [isoCdf, this, hu1]

theorem isoCdf_mono (hs : List α) (b0 : α) (bs : List α) {x y : α} (hxy : x ≤ y) (hn : NonNeg hs)
    (hb : Incr (b0 :: bs)) (hz : 0 < histZ hs (b0 :: bs)) :
    isoCdf hs (b0 :: bs) x ≤ isoCdf hs (b0 :: bs) y := by
  rw [isoCdf_eq_histCdf hs b0 bs x hb hz.ne', isoCdf_eq_histCdf hs b0 bs y hb hz.ne']
  exact histCdf_mono hs b0 bs hxy hn hb hz

theorem isoCdf_nonneg (hs : List α) (b0 : α) (bs : List α) (x : α) (hn : NonNeg hs)
    (hb : Incr (b0 :: bs)) (hz : 0 < histZ hs (b0 :: bs)) : 0 ≤ isoCdf hs (b0 :: bs) x := by
  rw [isoCdf_eq_histCdf hs b0 bs x hb hz.ne']; exact histCdf_nonneg hs b0 bs x hn hb hz

theorem isoCdf_le_one (hs : List α) (b0 : α) (bs : List α) (x : α) (hn : NonNeg hs)
    (hb : Incr (b0 :: bs)) (hz : 0 < histZ hs (b0 :: bs)) : isoCdf hs (b0 :: bs) x ≤ 1 := by
  rw [isoCdf_eq_histCdf hs b0 bs x hb hz.ne']; exact histCdf_le_one hs b0 bs x hn hb hz

/-- the sample never leaves the support -/
theorem isoPpf_le_last (bad : α) (hs : List α) (b0 : α) (bs : List α) (u : α) (hn : NonNeg hs)
    (hb : Incr (b0 :: bs)) (hz : 0 < histZ hs (b0 :: bs)) (hl : hs.length = bs.length) (h0 : 0 ≤ u) (h1 : u ≤ 1) :
    isoPpf bad hs (b0 :: bs) u ≤ lastB b0 bs := by
  by_cases hin : 0 < u ∧ u < 1
  · simp only [isoPpf, if_pos hin]
    exact histPpf_le_last hs b0 bs u h0 hn hb hz hl
  · simp only [isoPpf, if_neg hin, if_neg (not_lt.2 h0), if_neg (not_lt.2 h1)]
    split_ifs
    · exact incr_le_lastB bs b0 hb
    · exact le_refl _

/-- **`ppf(cdf(t)) = t`** on the support when every height is positive (wrapped functions) -/
theorem isoPpf_isoCdf (bad : α) (hs : List α) (b0 : α) (bs : List α) (t : α) (hp : AllPos hs)
    (hb : Incr (b0 :: bs)) (hz : 0 < histZ hs (b0 :: bs)) (hl : hs.length = bs.length) (h0 : b0 ≤ t)
    (h1 : t ≤ lastB b0 bs) :
    isoPpf bad hs (b0 :: bs) (isoCdf hs (b0 :: bs) t) = t := by
  have hraw := histPpf_histCdf hs b0 bs t hp hb hz hl h0 h1
  have hnn := isoCdf_nonneg hs b0 bs t hp.nonNeg hb hz
  have hle := isoCdf_le_one hs b0 bs t hp.nonNeg hb hz
  rw [isoCdf_eq_histCdf hs b0 bs t hb hz.ne'] at hnn hle ⊢
  by_cases hin : 0 < histCdf hs (b0 :: bs) t ∧ histCdf hs (b0 :: bs) t < 1
  · simp only [isoPpf, if_pos hin]; exact hraw
  · simp only [isoPpf, if_neg hin, if_neg (not_lt.2 hnn), if_neg (not_lt.2 hle)]
    by_cases hu : histCdf hs (b0 :: bs) t < 1
    · have hu0 : histCdf hs (b0 :: bs) t = 0 := le_antisymm (not_lt.1 (fun h => hin ⟨h, hu⟩)) hnn
      rw [if_pos hu]
      -- `_ppf(0) = b₀` because the first bin has positive height
      rw [hu0, histPpf_eq hs b0 bs 0 (le_refl _)] at hraw
      cases hs with
      | nil =>
        cases bs with
        | nil => simpa [lastB] using le_antisymm h0 (by simpa [lastB] using h1)
        | cons _ _ => simp at hl
      | cons h hs =>
        cases bs with
        | nil => simp at hl
        | cons hi bs =>
          have hpos : 0 < h / histZ (h :: hs) (b0 :: hi :: bs) * (hi - b0) :=
            mul_pos (div_pos hp.head hz) (sub_pos.2 hb.1)
          simp only [histKnots, List.map_cons, Prod.swap_prod_mk, interpAux, zero_add, if_pos hpos] at hraw
          rw [← hraw]; simp
    · have hu1 : histCdf hs (b0 :: bs) t = 1 := le_antisymm hle (not_lt.1 hu)
      rw [if_neg hu]
      rw [hu1, histPpf_one hs b0 bs hp.nonNeg hb hz hl] at hraw
      exact hraw

end Deeprob.LeafTheory
