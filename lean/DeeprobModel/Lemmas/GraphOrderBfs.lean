import DeeprobModel.Lemmas.GraphOrderLemmas
set_option linter.unusedSimpArgs false
set_option linter.unusedVariables false
/-
The FIFO loop of `compute_bfs_ordering` returns the levels of the tree, one after the other.
-/
namespace Deeprob.GraphIo
open Deeprob Deeprob.Clt Deeprob.CltFit

/-! ### 4. the queue -/

/-- a block `a` at the front of the queue is popped as it is; its children are appended, in order, behind
whatever was already waiting -/
theorem bfsLoop_split (ch : List (List Nat)) : ∀ (a b : List Nat) (f : Nat), a.length ≤ f →
    bfsLoop ch f (a ++ b) = a ++ bfsLoop ch (f - a.length) (b ++ a.flatMap (fun q => ch.getD q []))
  | [], b, f, _ => by simp
  | x :: a, b, f, hf => by
    obtain ⟨f', rfl⟩ : ∃ f', f = f' + 1 := ⟨f - 1, by simp at hf; omega⟩
    have hf' : a.length ≤ f' := by simp at hf; omega
    rw [List.cons_append, bfsLoop, List.append_assoc, bfsLoop_split ch a (b ++ ch.getD x []) f' hf']
    simp [List.flatMap_cons, List.append_assoc]

theorem bfsLoop_nil (ch : List (List Nat)) (f : Nat) : bfsLoop ch f [] = [] := by
  cases f <;> rfl

section levels
variable {tree : List Int} {r : Nat}

theorem level_succ (k : Nat) : level tree r (k + 1) = (level tree r k).flatMap (childrenOf tree) := rfl

/-- with enough fuel the loop started on level `k` returns the levels `k, k+1, …` -/
theorem bfsLoop_levels (ch : List (List Nat)) (hch : (fun q => ch.getD q []) = childrenOf tree) :
    ∀ (K k f : Nat), ((List.range K).flatMap (fun j => level tree r (k + j))).length ≤ f →
      level tree r (k + K) = [] →
      bfsLoop ch f (level tree r k) = (List.range K).flatMap (fun j => level tree r (k + j))
  | 0, k, f, _, hnil => by
    simp only [Nat.add_zero] at hnil
    rw [hnil, bfsLoop_nil]; simp
  | K + 1, k, f, hlen, hnil => by
    have hr : (List.range (K + 1)).flatMap (fun j => level tree r (k + j)) =
        level tree r k ++ (List.range K).flatMap (fun j => level tree r (k + 1 + j)) := by
      rw [List.range_succ_eq_map, List.flatMap_cons, List.flatMap_map]
      simp only [Nat.add_zero, Nat.succ_eq_add_one]
      congr 1
      apply List.flatMap_congr
      intro j _
      rw [show k + (j + 1) = k + 1 + j from by omega]
    rw [hr] at hlen ⊢
    rw [List.length_append] at hlen
    have h1 := bfsLoop_split ch (level tree r k) [] f (by omega)
    rw [List.append_nil, List.nil_append, hch] at h1
    rw [h1, ← level_succ]
    congr 1
    apply bfsLoop_levels ch hch K (k + 1) _ (by omega)
    rw [show k + 1 + K = k + (K + 1) from by omega]; exact hnil

/-- the existing model function `Clt.bfsOrder` (driver op `clt_tree`) computes the same list -/
theorem bfsLoop_eq_cltBfsOrder (ch : List (List Nat)) (hch : (fun q => ch.getD q []) = childrenOf tree) :
    ∀ (f : Nat) (q : List Nat), bfsLoop ch f q = Clt.bfsOrder tree f q
  | 0, q => by simp [bfsLoop, Clt.bfsOrder]
  | f + 1, [] => by simp [bfsLoop, Clt.bfsOrder]
  | f + 1, x :: qs => by
    have hx : ch.getD x [] = childrenOf tree x := congrFun hch x
    simp only [bfsLoop, Clt.bfsOrder, hx]
    rw [bfsLoop_eq_cltBfsOrder ch hch f]

variable (h : WF tree r)
include h

theorem WF.mem_level (k x : Nat) : x ∈ level tree r k ↔ x < tree.length ∧ depthOf tree x = k := by
  induction k generalizing x with
  | zero =>
    simp only [level, List.mem_singleton]
    constructor
    · rintro rfl; exact ⟨h.r_lt, h.depth_root⟩
    · rintro ⟨hx, hd⟩; exact h.depth_zero hx hd
  | succ k ih =>
    rw [level_succ, List.mem_flatMap]
    constructor
    · rintro ⟨p, hp, hx⟩
      obtain ⟨hxl, hxp⟩ := h.mem_children.1 hx
      refine ⟨hxl, ?_⟩
      rw [h.depth_child hxl hxp, ((ih p).1 hp).2]
    · rintro ⟨hx, hd⟩
      have hxr : x ≠ r := by
        rintro rfl; rw [h.depth_root] at hd; omega
      obtain ⟨p, hp, _, hpl, _⟩ := h.parent_ne hx hxr
      refine ⟨p, (ih p).2 ⟨hpl, ?_⟩, h.mem_children.2 ⟨hx, hp⟩⟩
      have := h.depth_child hx hp
      omega

theorem WF.level_nodup (k : Nat) : (level tree r k).Nodup := by
  induction k with
  | zero => simp [level]
  | succ k ih =>
    rw [level_succ, List.nodup_flatMap]
    refine ⟨fun p _ => childrenOf_nodup tree p, ?_⟩
    apply ih.imp
    intro p p' hne
    simp only [Function.onFun]
    intro x hx hx'
    have h1 := (h.mem_children.1 hx).2
    have h2 := (h.mem_children.1 hx').2
    rw [h1] at h2
    exact hne (by simpa using h2)

theorem WF.level_big {k : Nat} (hk : tree.length ≤ k) : level tree r k = [] := by
  apply List.eq_nil_iff_forall_not_mem.2
  intro x hx
  obtain ⟨hxl, hd⟩ := (h.mem_level k x).1 hx
  have := h.depth_le hxl
  omega

/-- the levels, one after the other -/
theorem WF.levels_nodup : ((List.range tree.length).flatMap (level tree r)).Nodup := by
  rw [List.nodup_flatMap]
  refine ⟨fun k _ => h.level_nodup k, ?_⟩
  apply List.nodup_range.imp
  intro k k' hne
  simp only [Function.onFun]
  intro x hx hx'
  have h1 := ((h.mem_level k x).1 hx).2
  have h2 := ((h.mem_level k' x).1 hx').2
  omega

theorem WF.mem_levels (x : Nat) : x ∈ (List.range tree.length).flatMap (level tree r) ↔ x < tree.length := by
  rw [List.mem_flatMap]
  constructor
  · rintro ⟨k, _, hx⟩; exact ((h.mem_level k x).1 hx).1
  · intro hx
    refine ⟨depthOf tree x, List.mem_range.2 ?_, (h.mem_level _ x).2 ⟨hx, rfl⟩⟩
    have := h.depth_le hx; have := h.pos; omega

theorem WF.levels_perm : ((List.range tree.length).flatMap (level tree r)).Perm (List.range tree.length) :=
  (List.perm_ext_iff_of_nodup h.levels_nodup List.nodup_range).2 (fun x => by
    rw [h.mem_levels, List.mem_range])

/-- **`compute_bfs_ordering` returns the levels of the tree** -/
theorem WF.bfs_eq : computeBfsOrdering tree = some ((List.range tree.length).flatMap (level tree r)) := by
  unfold computeBfsOrdering buildTreeStructure
  rw [h.root, h.childLists_eq]
  simp only [Option.map_some]
  congr 1
  have hl : ((List.range tree.length).flatMap (level tree r)).length = tree.length := by
    rw [h.levels_perm.length_eq]; simp
  have hl' : ((List.range tree.length).flatMap (fun j => level tree r j)).length = tree.length := hl
  have := bfsLoop_levels (tree := tree) (r := r) _ h.getD_children tree.length 0 tree.length
    (by simp only [Nat.zero_add]; omega) (by simp only [Nat.zero_add]; exact h.level_big (Nat.le_refl _))
  simp only [Nat.zero_add] at this
  exact this

/-! ### 5. order properties -/

theorem WF.levels_head : ∃ rest, (List.range tree.length).flatMap (level tree r) = r :: rest := by
  obtain ⟨m, hm⟩ : ∃ m, tree.length = m + 1 := ⟨tree.length - 1, by have := h.pos; omega⟩
  rw [hm, List.range_succ_eq_map, List.flatMap_cons]
  exact ⟨_, rfl⟩

theorem WF.levels_depth_sorted :
    ((List.range tree.length).flatMap (level tree r)).Pairwise (fun a b => depthOf tree a ≤ depthOf tree b) := by
  rw [List.pairwise_flatMap]
  refine ⟨fun k _ => ?_, ?_⟩
  · apply List.pairwise_of_forall_mem_list
    intro a ha b hb
    rw [((h.mem_level k a).1 ha).2, ((h.mem_level k b).1 hb).2]
  · apply List.pairwise_lt_range.imp
    intro k k' hlt x hx y hy
    rw [((h.mem_level k x).1 hx).2, ((h.mem_level k' y).1 hy).2]; omega

/-- in the breadth-first order no node comes before its parent … -/
theorem WF.levels_parent_first :
    ((List.range tree.length).flatMap (level tree r)).Pairwise (fun a b => parent tree a ≠ some b) := by
  have hs := h.levels_depth_sorted
  have hm := h.mem_levels
  revert hs hm
  generalize (List.range tree.length).flatMap (level tree r) = B
  intro hs hm
  have : B.Pairwise (fun a b => a ∈ B ∧ depthOf tree a ≤ depthOf tree b) := by
    apply List.Pairwise.imp_of_mem (R := fun a b => depthOf tree a ≤ depthOf tree b) _ hs
    intro a b ha _ hab; exact ⟨ha, hab⟩
  apply this.imp
  rintro a b ⟨ha, hab⟩ hp
  have := h.depth_child ((hm a).1 ha) hp
  omega

end levels

theorem idxOf_lt_of_pairwise {R : Nat → Nat → Prop} {l : List Nat} (hp : l.Pairwise R) {a b : Nat}
    (ha : a ∈ l) (hb : b ∈ l) (hab : l.idxOf a < l.idxOf b) : R a b := by
  rw [List.pairwise_iff_getElem] at hp
  have hia := List.idxOf_lt_length_iff.2 ha
  have hib := List.idxOf_lt_length_iff.2 hb
  have := hp _ _ hia hib hab
  rwa [List.getElem_idxOf, List.getElem_idxOf] at this

theorem childFirst_iff (tree : List Int) : ∀ (l : List Nat),
    childFirst tree l = true ↔ l.Pairwise (fun a b => parent tree b ≠ some a)
  | [] => by simp [childFirst]
  | a :: rest => by
    simp only [childFirst, Bool.and_eq_true, List.all_eq_true, List.pairwise_cons, childFirst_iff tree rest]
    constructor
    · rintro ⟨h1, h2⟩
      exact ⟨fun b hb => by simpa using h1 b hb, h2⟩
    · rintro ⟨h1, h2⟩
      exact ⟨fun b hb => by simpa using h1 b hb, h2⟩

/-- … so `reversed(bfs[1:])` visits every child before its parent -/
theorem WF.code_order_childFirst {tree : List Int} {r : Nat} (h : WF tree r) :
    childFirst tree ((List.range tree.length).flatMap (level tree r)).tail.reverse = true := by
  rw [childFirst_iff, List.pairwise_reverse]
  exact h.levels_parent_first.tail

theorem WF.code_order_perm {tree : List Int} {r : Nat} (h : WF tree r) :
    ((List.range tree.length).flatMap (level tree r)).tail.reverse.Perm ((List.range tree.length).erase r) := by
  obtain ⟨rest, hrest⟩ := h.levels_head
  have hp := h.levels_perm
  rw [hrest] at hp ⊢
  rw [List.tail_cons]
  refine (List.reverse_perm rest).trans ?_
  have := hp.erase r
  rwa [List.erase_cons_head] at this

end Deeprob.GraphIo
