import DeeprobModel.Lemmas.NetLemmas
import DeeprobModel.Lemmas.RatSampleRow
/-
Helper lemmas for the end-to-end corollaries (`Props/E2ECirc.lean`, `Props/E2ELearn.lean`, `Props/E2EMisc.lean`): linking
lemmas between the shape in which an obligation (`Oblig/*`) talks about a generated definition and the shape in which the
property theorem (`Props/*`) talks about the model, and facts about the hand-written models that the "as coded" obligations
need as side conditions and that no existing lemma states in that form.
-/
set_option linter.unusedSectionVars false
set_option linter.unusedSimpArgs false
set_option linter.unusedVariables false
set_option linter.unnecessarySeqFocus false
namespace Deeprob.E2E

section foldIndex
open Deeprob

/-- a table filled entry by entry along a list equals the table filled along the list's indices, when the entry
functions agree at every position (the first reads the element, the second its index) -/
theorem foldl_index_prefix {α β : Type} (net : List β) (f : List α → β → α) (g : List α → Nat → α)
    (h : ∀ i x, net[i]? = some x → ∀ vals : List α, vals.length = i → f vals x = g vals i) :
    ∀ k, k ≤ net.length →
      (net.take k).foldl (fun vals x => vals ++ [f vals x]) []
          = (List.range k).foldl (fun vals i => vals ++ [g vals i]) [] ∧
      ((List.range k).foldl (fun vals i => vals ++ [g vals i]) ([] : List α)).length = k := by
  intro k
  induction k with
  | zero => intro _; simp
  | succ k ih =>
    intro hk
    have hk' : k < net.length := by omega
    obtain ⟨h1, h2⟩ := ih (by omega)
    have hn : net[k]? = some net[k] := by simp [hk']
    rw [List.take_add_one, List.foldl_append, h1, List.range_succ, List.foldl_append]
    simp only [hn, Option.toList_some, List.foldl_cons, List.foldl_nil]
    refine ⟨?_, by simp [h2]⟩
    rw [h k net[k] hn _ h2]

theorem foldl_index {α β : Type} (net : List β) (f : List α → β → α) (g : List α → Nat → α)
    (h : ∀ i x, net[i]? = some x → ∀ vals : List α, vals.length = i → f vals x = g vals i) :
    net.foldl (fun vals x => vals ++ [f vals x]) []
      = (List.range net.length).foldl (fun vals i => vals ++ [g vals i]) [] := by
  have := (foldl_index_prefix net f g h net.length (le_refl _)).1
  rwa [List.take_length] at this

end foldIndex

section partC
open Deeprob Deeprob.RatSpn Deeprob.RatSample Deeprob.TCirc Deeprob.Tensor

section rt
variable {α : Type} [Field α] [LinearOrder α] [IsStrictOrderedRing α]

/-- **the padded row of modes covers `inv_mask`** (side condition `hx` of `Struct4.unpadSamples_as_coded` for the index
pair that reaches the base layer in `RatSpn.mpe`): on an accepted architecture the flattened modes of the selected leaves
have `in_features + pad` entries and every entry of `inv_mask[repetition]` is a position of that row, so the GENERATED
gather `x[inv_mask[rep]]` never reads out of range.  (Extracted from the proof of `RatSample.mpeRow_eq_descent`.) -/
theorem rt_modes_cover (S : Spec α) (y : Nat) (e : Ev)
    (hρ : ∀ t r, (S.ρ t r).Perm r) (hacc : accepted S.n S.depth = true) (hreps : 0 < S.reps)
    (hb : 0 < S.batch) (hs : 0 < S.rgSum) :
    ∀ p ∈ invMask S.n S.depth S.regs ((mpeIdx S y e).1.headD 0 / 2 ^ S.depth),
      p < (modes S (mpeIdx S y e)).length := by
  obtain ⟨hn, hd, h2⟩ := (accepted_iff S.n S.depth).1 hacc
  have hp2 := two_pow_pos S.depth
  have hG : (topVal S e).groups = S.reps := by
    unfold topVal
    rw [innerVal_groups]
    simp only [baseVal, Spec.regs]
    rw [leafRegions_length S.ρ S.n S.depth S.reps hd]
    exact Nat.mul_div_cancel _ hp2
  have hN : 0 < (topVal S e).nodes := innerVal_nodes_pos S.w S.rgSum hs S.depth 0 (baseVal S e) hb
  have hidx : argmax (List.zipWith (· * ·) (S.wroot y) (flat (topVal S e))) < S.reps * (topVal S e).nodes := by
    apply argmax_lt_of_pos _ _ (Nat.mul_pos hreps hN)
    simp only [List.length_zipWith, flat_length, hG]
    exact Nat.min_le_right _ _
  generalize hidxdef : argmax (List.zipWith (· * ·) (S.wroot y) (flat (topVal S e))) = idx at hidx
  have ht : idx / (topVal S e).nodes < S.reps := Nat.div_lt_of_lt_mul (by rw [Nat.mul_comm]; exact hidx)
  generalize htdef : idx / (topVal S e).nodes = t at ht
  have hio : mpeIdx S y e = mpeDown S.w S.rgSum S.depth 0 (baseVal S e) ([t], [idx % (topVal S e).nodes]) := by
    unfold mpeIdx rootMpe
    simp only [hidxdef, htdef]
  have hio1 : (mpeIdx S y e).1 = leafGroups t S.depth := by
    rw [hio]; exact mpeDown_groups S.w S.rgSum t S.depth 0 _ _
  have hio2 : (mpeIdx S y e).2.length = (leafGroups t S.depth).length := by
    rw [← hio1, hio]
    exact mpeDown_len S.w S.rgSum S.depth 0 _ _ (by simp)
  have hZ : Zof S (mpeIdx S y e) = Zof S (leafGroups t S.depth, (mpeIdx S y e).2) := by
    rw [← hio1]
  obtain ⟨hA, _⟩ := Zof_mask S hρ hd t ht _ hio2
  rw [← hZ] at hA
  have hM := Zof_modes S (mpeIdx S y e)
  have hlen : (modes S (mpeIdx S y e)).length = S.n + padOf S.n S.depth := by
    rw [← hM, List.length_map]
    have := congrArg List.length hA
    rw [List.length_map] at this
    rw [this]
    exact maskFlat_len S.ρ hρ S.n S.depth S.reps t hd ht
  intro p hp
  rw [hio1, leafGroups_head] at hp
  rw [hlen]
  exact mem_invMask_lt S.ρ hρ S.n S.depth S.reps t hd ht p hp

end rt

/-! ### tables filled entry by entry (`eval_bottom_up`) -/
section ll
variable {α β : Type}

/-- a table filled entry by entry: entry `i` is computed from the entries stored so far -/
def llFold (g : List α → Nat → α) (n : Nat) : List α :=
  (List.range n).foldl (fun vals i => vals ++ [g vals i]) []

theorem llFold_succ (g : List α → Nat → α) (n : Nat) : llFold g (n + 1) = llFold g n ++ [g (llFold g n) n] := by
  unfold llFold
  rw [List.range_succ, List.foldl_append]
  rfl

theorem llFold_length (g : List α → Nat → α) : ∀ n, (llFold g n).length = n
  | 0 => rfl
  | n + 1 => by rw [llFold_succ, List.length_append, llFold_length g n]; rfl

/-- the table after `k` steps is the first `k` entries of the final table -/
theorem llFold_take (g : List α → Nat → α) (k : Nat) : ∀ n, k ≤ n → (llFold g n).take k = llFold g k := by
  intro n hn
  induction n with
  | zero =>
    have : k = 0 := by omega
    subst this; rfl
  | succ n ih =>
    by_cases hk : k = n + 1
    · subst hk
      rw [List.take_of_length_le (by rw [llFold_length])]
    · rw [llFold_succ, List.take_append_of_le_length (by rw [llFold_length]; omega)]
      exact ih (by omega)

/-- entry `i` of the final table was computed from the first `i` entries of the final table -/
theorem llFold_getD (g : List α → Nat → α) (n i : Nat) (hi : i < n) (d : α) :
    (llFold g n).getD i d = g ((llFold g n).take i) i := by
  have h1 : (llFold g n).take (i + 1) = llFold g (i + 1) := llFold_take g (i + 1) n (by omega)
  have h2 : (llFold g n).take i = llFold g i := llFold_take g i n (by omega)
  have h3 : ((llFold g n).take (i + 1)).getD i d = (llFold g n).getD i d := by
    simp only [List.getD_eq_getElem?_getD, List.getElem?_take]
    simp
  rw [← h3, h1, llFold_succ, h2]
  simp only [List.getD_eq_getElem?_getD]
  rw [List.getElem?_append_right (by rw [llFold_length]), llFold_length]
  simp

/-- two tables filled in step, the second from the images of the first: if every step commutes with `φ` then the
second table is the image of the first -/
theorem llFold_map (g : List α → Nat → α) (g' : List β → Nat → β) (φ : α → β) :
    ∀ n, (∀ i, i < n → g' ((llFold g i).map φ) i = φ (g (llFold g i) i)) → llFold g' n = (llFold g n).map φ
  | 0, _ => rfl
  | n + 1, h => by
    rw [llFold_succ, llFold_succ, llFold_map g g' φ n (fun i hi => h i (by omega)), h n (by omega)]
    simp

end ll

end partC

end Deeprob.E2E
